(* C02 -- N-dimensional lifting: the Kronecker product of per-axis blocks acts on C-order flattened
   N-dimensional arrays axis by axis; consequences for the per-axis operator classes. *)
From Coq Require Import List Arith Bool Lia Ring Ring_theory ZArith.
Import ListNotations.
Require Import NV.C02.Model NV.C02.ProofsGen NV.C02.ProofsGather NV.C02.ProofsKron NV.C02.ProofsBlk NV.C02.ProofsCls NV.C02.ProofsCls2.

Section Ring.
Variable T : Type.
Variables (t0 t1 : T) (tadd tmul : T -> T -> T) (topp : T -> T).
Hypothesis RT : ring_theory t0 t1 tadd tmul (fun a b => tadd a (topp b)) topp eq.
Add Ring TRingND : RT.

Notation "0" := t0.
Notation "1" := t1.
Infix "+" := tadd.
Infix "*" := tmul.

Notation blk := (blk T).
Notation apply := (apply T t0 tadd tmul).
Notation inb := (inb T).
Notation bkron := (bkron T tmul).
Notation bkron_list := (bkron_list T t1 tmul).
Notation bm := (bm T).
Notation bn := (bn T).
Notation bmat := (bmat T).
Notation binb := (binb T).
Notation bg := (bg T t1).
Notation apply_ext := (apply_ext T t0 t1 tadd tmul topp RT).

(* the action of a list of per-axis blocks on an N-dimensional array x (a function of the
   multi-index), evaluated at the output multi-index o:
   out[o1..od] = sum_{i1} B1[o1,i1] sum_{i2} B2[o2,i2] ... x[i1..id] *)
Fixpoint kapply (l : list blk) (x : list nat -> T) (o : list nat) : T :=
  match l, o with
  | b :: r, o1 :: or => apply (bmat b) (fun i1 => kapply r (fun idx => x (i1 :: idx)) or) o1
  | _, _ => x []
  end.

Lemma kapply_cons b r x o1 or :
  kapply (b :: r) x (o1 :: or) = apply (bmat b) (fun i1 => kapply r (fun idx => x (i1 :: idx)) or) o1.
Proof. reflexivity. Qed.

Lemma kapply_ext l x y o : (forall idx, x idx = y idx) -> kapply l x o = kapply l y o.
Proof.
  revert x y o. induction l as [|b r IH]; intros x y o H; [apply H|].
  destruct o as [|o1 or]; [apply H|]. cbn [kapply]. apply apply_ext. intros i1. apply IH. intros idx. apply H.
Qed.

Lemma bkron_list_dims l : bm (bkron_list l) = prod (map bm l) /\ bn (bkron_list l) = prod (map bn l).
Proof.
  induction l as [|b r IH]; [split; reflexivity|]. destruct r as [|b2 r'].
  - cbn [Model.bkron_list map]. unfold prod. cbn [fold_right]. split; lia.
  - change (bkron_list (b :: b2 :: r')) with (bkron b (bkron_list (b2 :: r'))).
    destruct IH as (IH1 & IH2). unfold Model.bkron, Model.bm, Model.bn in *. cbn [fst snd] in *.
    change (map (fun b0 : blk => fst (fst b0)) (b :: b2 :: r')) with (fst (fst b) :: map (fun b0 : blk => fst (fst b0)) (b2 :: r')).
    change (map (fun b0 : blk => snd (fst b0)) (b :: b2 :: r')) with (snd (fst b) :: map (fun b0 : blk => snd (fst b0)) (b2 :: r')).
    unfold prod in *. cbn [fold_right]. rewrite IH1, IH2. split; reflexivity.
Qed.

(* the N-dimensional semantics of a Kronecker product of per-axis blocks *)
Theorem kron_list_semantics l xf o :
  Forall binb l -> Forall2 (fun oi b => oi < bm b)%nat o l ->
  apply (bmat (bkron_list l)) xf (ravel (map bm l) o)
  = kapply l (fun idx => xf (ravel (map bn l) idx)) o.
Proof.
  revert xf o. induction l as [|b r IH]; intros xf o Hb Ho.
  - inversion Ho; subst. cbn. ring.
  - inversion Ho as [|o1 b' or r'' Ho1 Hor]; subst. inversion Hb as [|? ? Hbb Hbr]; subst.
    destruct r as [|b2 r'].
    + inversion Hor; subst. cbn [Model.bkron_list map ravel kapply].
      replace (o1 * prod [] + 0)%nat with o1 by (unfold prod; cbn; lia).
      apply apply_ext. intros i1. f_equal. unfold prod; cbn; lia.
    + change (bkron_list (b :: b2 :: r')) with (bkron b (bkron_list (b2 :: r'))).
      destruct (bkron_list_dims (b2 :: r')) as (D1 & D2).
      unfold Model.bkron at 1. unfold Model.bmat at 1. cbn [snd].
      change (map bm (b :: b2 :: r')) with (bm b :: map bm (b2 :: r')).
      cbn [ravel]. rewrite <- D1.
      rewrite (apply_kron T t0 t1 tadd tmul topp RT).
      * rewrite kapply_cons. apply apply_ext. intros ia. rewrite IH by assumption.
        apply kapply_ext. intros idx. change (map bn (b :: b2 :: r')) with (bn b :: map bn (b2 :: r')).
        cbn [ravel]. rewrite D2. reflexivity.
      * apply (binb_bkron_list T t1 tmul). exact Hbr.
      * rewrite D1. apply ravel_bound.
        clear -Hor. induction Hor; constructor; assumption.
Qed.

(* per-axis gathers: out[o1..od] = in[idx1[o1], ..., idxd[od]] *)
Lemma kapply_gathers (l : list iblk) x o :
  Forall2 (fun oi b => oi < length (snd b))%nat o l ->
  kapply (map bg l) x o = x (map (fun '(oi, b) => nth oi (snd b) 0%nat) (combine o l)).
Proof.
  revert x o. induction l as [|b r IH]; intros x o H; inversion H; subst; [reflexivity|].
  cbn [map kapply combine]. unfold ProofsKron.bg at 1, Model.bgather, Model.bmat. cbn [snd].
  rewrite (apply_gather T t0 t1 tadd tmul topp RT) by assumption.
  rewrite IH by assumption. reflexivity.
Qed.

Theorem gathers_nd (l : list iblk) xf o :
  Forall ivalid l -> Forall2 (fun oi b => oi < length (snd b))%nat o l ->
  apply (bmat (bkron_list (map bg l))) xf (ravel (map (fun b => length (snd b)) l) o)
  = xf (ravel (map fst l) (map (fun '(oi, b) => nth oi (snd b) 0%nat) (combine o l))).
Proof.
  intros Hv Ho.
  assert (E1 : map bm (map bg l) = map (fun b => length (snd b)) l) by (rewrite map_map; reflexivity).
  assert (E2 : map bn (map bg l) = map fst l) by (rewrite map_map; reflexivity).
  rewrite <- E1, kron_list_semantics.
  - rewrite kapply_gathers by assumption. rewrite E2. reflexivity.
  - apply Forall_forall. intros b Hb. apply in_map_iff in Hb. destruct Hb as (ib & <- & Hin).
    apply (binb_bg T t1). rewrite Forall_forall in Hv. apply Hv. exact Hin.
  - clear -Ho. induction Ho as [|oi b o' l' H1 H IH]; cbn [map]; constructor; [exact H1|exact IH].
Qed.

(* SliceOperator in N dimensions: out[o1..od] = in[s1+o1, ..., sd+od] *)
Theorem slice_nd shs new center xf o :
  let ish := flat shs in let osh := flat (tgt_slice shs new) in
  Forall2 (fun n len => len <= n)%nat ish osh -> Forall2 lt o osh ->
  apply (bmat (spec_slice T t1 tmul shs new center)) xf (ravel osh o)
  = xf (ravel ish (map (fun '(oi, (n, len)) => ((if center then (n - len) / 2 else 0) + oi)%nat) (combine o (combine ish osh)))).
Proof.
  cbn zeta. intros H Ho. unfold Model.spec_slice.
  set (L := combine (flat shs) (flat (tgt_slice shs new))).
  assert (E : map (fun '(n, len) => slice_axis T t1 center n len) L = map bg (map (slice_iblk center) L)).
  { rewrite map_map. apply map_ext. intros [n len]. reflexivity. }
  rewrite E.
  assert (E1 : map (fun b : iblk => length (snd b)) (map (slice_iblk center) L) = flat (tgt_slice shs new)).
  { rewrite map_map. unfold slice_iblk. cbn [snd]. rewrite (map_ext _ snd) by (intros [n len]; cbn [snd fst]; apply seq_length).
    subst L. apply (Forall2_combine_snd _ _ _ H). }
  assert (E2 : map fst (map (slice_iblk center) L) = flat shs).
  { rewrite map_map. unfold slice_iblk. cbn [fst]. change (map (fun x : nat * nat => fst x) L) with (map fst L).
    subst L. apply (Forall2_combine_fst _ _ _ H). }
  rewrite <- E1 at 1. rewrite gathers_nd.
  - rewrite E2.
    assert (G : forall (o' : list nat) (L' : list (nat * nat)),
               Forall2 (fun oi p => oi < snd p)%nat o' L' ->
               map (fun '(oi, b) => nth oi (snd b) 0%nat) (combine o' (map (slice_iblk center) L'))
               = map (fun '(oi, (n, len)) => ((if center then (n - len) / 2 else 0) + oi)%nat) (combine o' L')).
    { intros o' L' HF. induction HF as [|oi [n len] o'' L'' H1 HF IH]; [reflexivity|].
      cbn [map combine]. rewrite IH. f_equal. unfold slice_iblk. cbn [fst snd] in *. rewrite seq_nth by exact H1. reflexivity. }
    rewrite (G o L); [reflexivity|]. subst L. clear -H Ho.
    revert o Ho. induction H as [|n len ish osh Hnl H IH]; intros o Ho; inversion Ho; subst; cbn [combine]; constructor; [assumption|].
    apply IH. assumption.
  - apply Forall_forall. intros b Hb. apply in_map_iff in Hb. destruct Hb as ([n len] & <- & Hin).
    apply slice_iblk_valid. subst L. clear -H Hin.
    revert Hin. induction H as [|a b la lb Hab H IH]; cbn [combine In]; [intros []|].
    intros [Heq|Hin]; [inversion Heq; subst; assumption|apply IH; assumption].
  - subst L. clear -H Ho.
    revert o Ho. induction H as [|n len ish osh Hnl H IH]; intros o Ho; inversion Ho; subst; cbn [combine map]; constructor.
    + unfold slice_iblk. cbn [snd]. rewrite seq_length. assumption.
    + apply IH. assumption.
Qed.

(* ---- partial gathers: blocks with out[o] = in[p o] or 0 (slices, shifts, zero padding incl. the
        central one, masks): in N dimensions  out[o1..od] = in[p1 o1, .., pd od]  or 0 -------------- *)
Definition pgather_like (b : blk) (p : nat -> option nat) : Prop :=
  forall x o, (o < bm b)%nat -> apply (bmat b) x o = match p o with Some i => x i | None => 0 end.

Fixpoint pindex (ps : list (nat -> option nat)) (o : list nat) : option (list nat) :=
  match ps, o with
  | p :: pr, o1 :: or =>
      match p o1, pindex pr or with
      | Some i, Some idx => Some (i :: idx)
      | _, _ => None
      end
  | _, _ => Some []
  end.

Lemma kapply_pgather l ps x o :
  Forall2 pgather_like l ps -> Forall2 (fun oi b => oi < bm b)%nat o l ->
  kapply l x o = match pindex ps o with Some idx => x idx | None => 0 end.
Proof.
  intros H. revert x o. induction H as [|b p l ps Hb H IH]; intros x o Ho; inversion Ho; subst; [reflexivity|].
  rewrite kapply_cons, Hb by assumption. cbn [pindex].
  destruct (p x0) as [i|]; [|reflexivity].
  rewrite IH by assumption. destruct (pindex ps l0); reflexivity.
Qed.

Theorem pgathers_nd l ps xf o :
  Forall binb l -> Forall2 pgather_like l ps -> Forall2 (fun oi b => oi < bm b)%nat o l ->
  apply (bmat (bkron_list l)) xf (ravel (map bm l) o)
  = match pindex ps o with Some idx => xf (ravel (map bn l) idx) | None => 0 end.
Proof. intros Hb Hp Ho. rewrite kron_list_semantics by assumption. apply kapply_pgather; assumption. Qed.

(* FieldZeroPadder on one (multi-axis) RGSpace, central or not:  per axis
     not central:  out[o] = in[o] for o < n, 0 beyond
     central:      out[o] = in[o] for o <= n//2, in[o - (m - n)] for o >= m - n//2, 0 in between *)
Definition pad_p (central : bool) (n m : nat) (o : nat) : option nat :=
  if Nat.eqb n m then Some o
  else if central then (if Nat.leb o (n / 2) then Some o else if Nat.leb (m - n / 2) o then Some (o - (m - n))%nat else None)
       else (if Nat.ltb o n then Some o else None).

Lemma apply_tr_gather_seq len s x o :
  apply (tr T (gather_from T t1 s (seq s len))) x o = if Nat.leb s o && Nat.ltb o (s + len) then x o else 0.
Proof.
  revert s. induction len as [|len IH]; intros s.
  - cbn [seq Model.gather_from Model.tr map]. rewrite (apply_nil T t0 tadd tmul).
    destruct (Nat.leb s o) eqn:E1; destruct (Nat.ltb o (s + 0)) eqn:E2; cbn [andb]; try reflexivity. b2p. lia.
  - cbn [seq Model.gather_from]. rewrite (tr_cons T), (apply_cons T t0 t1 tadd tmul topp RT), IH.
    destruct (Nat.eqb s o) eqn:E0; destruct (Nat.leb (S s) o) eqn:E1; destruct (Nat.leb s o) eqn:E2;
      destruct (Nat.ltb o (S s + len)) eqn:E3; destruct (Nat.ltb o (s + S len)) eqn:E4; cbn [andb]; b2p; try lia; subst; ring.
Qed.

Lemma pad_axis_pgather central n m : (0 < n <= m)%nat -> pgather_like (pad_axis T t1 central n m) (pad_p central n m).
Proof.
  intros H x o Ho. unfold pad_p.
  destruct (Nat.eqb n m) eqn:E.
  - unfold Model.pad_axis in *. rewrite E in *. unfold Model.bident, Model.bm, Model.bmat in *. cbn [fst snd] in *.
    apply (apply_ident T t0 t1 tadd tmul topp RT). exact Ho.
  - apply Nat.eqb_neq in E. destruct central.
    + assert (Hm : bm (pad_axis T t1 true n m) = m).
      { unfold Model.pad_axis. replace (Nat.eqb n m) with false by (symmetry; apply Nat.eqb_neq; exact E). reflexivity. }
      rewrite Hm in Ho. rewrite (pad_axis_central_times T t0 t1 tadd tmul topp RT) by lia.
      destruct (Nat.leb o (n / 2)); [reflexivity|]. destruct (Nat.leb (m - n / 2) o); reflexivity.
    + unfold Model.pad_axis. replace (Nat.eqb n m) with false by (symmetry; apply Nat.eqb_neq; exact E).
      unfold Model.bmat. cbn [snd]. unfold Model.gather. rewrite apply_tr_gather_seq. cbn [Nat.leb andb Nat.add].
      destruct (Nat.ltb o n); reflexivity.
Qed.

Theorem padder_nd central sh new xf o :
  Forall2 (fun n m => 0 < n <= m)%nat sh new -> Forall2 lt o new ->
  apply (bmat (bkron_list (map (fun '(n, m) => pad_axis T t1 central n m) (combine sh new)))) xf (ravel new o)
  = match pindex (map (fun '(n, m) => pad_p central n m) (combine sh new)) o with
    | Some idx => xf (ravel sh idx) | None => 0 end.
Proof.
  intros H Ho.
  set (l := map (fun '(n, m) => pad_axis T t1 central n m) (combine sh new)).
  assert (Em : map bm l = new).
  { subst l. rewrite map_map. clear Ho. induction H as [|n m sh' new' Hnm H IH]; [reflexivity|].
    cbn [combine map]. rewrite IH. f_equal. unfold Model.pad_axis, Model.bm, Model.bident.
    destruct (Nat.eqb n m) eqn:E; [apply Nat.eqb_eq in E; subst; reflexivity|]. destruct central; reflexivity. }
  assert (En : map bn l = sh).
  { subst l. rewrite map_map. clear Ho Em. induction H as [|n m sh' new' Hnm H IH]; [reflexivity|].
    cbn [combine map]. rewrite IH. f_equal. unfold Model.pad_axis, Model.bn, Model.bident.
    destruct (Nat.eqb n m) eqn:E; [reflexivity|]. destruct central; reflexivity. }
  rewrite <- Em at 1. rewrite (pgathers_nd l (map (fun '(n, m) => pad_p central n m) (combine sh new))).
  - rewrite En. reflexivity.
  - subst l. apply Forall_forall. intros b Hb. apply in_map_iff in Hb. destruct Hb as ([n m] & <- & Hin).
    apply (pad_axis_inb T t0 t1 tadd tmul topp RT).
    clear -H Hin. revert Hin. induction H as [|a b la lb Hab H IH]; cbn [combine In]; [intros []|].
    intros [Heq|Hin]; [inversion Heq; subst; assumption|apply IH; assumption].
  - subst l. clear -H RT. induction H as [|n m sh' new' Hnm H IH]; cbn [combine map]; constructor; [|exact IH].
    apply pad_axis_pgather. exact Hnm.
  - rewrite <- Em in Ho. clearbody l. clear -Ho. revert o Ho.
    induction l as [|b r IH]; intros o Ho; inversion Ho; subst; constructor; [assumption|apply IH; assumption].
Qed.

End Ring.
