(* C02 -- SplitOperator: Python slice semantics select in-bounds, distinct indices; every key of
   a SplitOperator is a gather. *)
From Coq Require Import List Arith Bool Lia ZArith Ring Ring_theory.
Import ListNotations.
Require Import NV.C02.Model NV.C02.ProofsGen NV.C02.ProofsGather NV.C02.ProofsKron NV.C02.ProofsBlk NV.C02.ProofsCls.

Local Open Scope Z_scope.

Lemma slice_adjust_bounds n start stop step :
  0 <= n -> step <> 0 ->
  let '(a, b) := slice_adjust n start stop step in
  (0 < step -> 0 <= a <= n /\ 0 <= b <= n) /\ (step < 0 -> -1 <= a <= n - 1 /\ -1 <= b <= n - 1).
Proof.
  intros Hn Hs. unfold slice_adjust.
  destruct (step <? 0) eqn:E; [apply Z.ltb_lt in E|apply Z.ltb_ge in E].
  - split; [lia|]. intros _.
    destruct start as [s|], stop as [t|];
      repeat match goal with |- context [?x <? ?y] => destruct (x <? y) eqn:?
                           | |- context [?x >=? ?y] => destruct (x >=? y) eqn:? end;
      rewrite ?Z.ltb_lt, ?Z.ltb_ge, ?Z.geb_le, ?Z.geb_leb, ?Z.leb_le, ?Z.leb_gt in *; lia.
  - split; [|lia]. intros _.
    destruct start as [s|], stop as [t|];
      repeat match goal with |- context [?x <? ?y] => destruct (x <? y) eqn:?
                           | |- context [?x >=? ?y] => destruct (x >=? y) eqn:? end;
      rewrite ?Z.ltb_lt, ?Z.ltb_ge, ?Z.geb_le, ?Z.geb_leb, ?Z.leb_le, ?Z.leb_gt in *; lia.
Qed.

Lemma slice_point a b st k :
  st <> 0 -> 0 <= k < slice_len a b st ->
  (0 < st -> a <= a + k * st <= b - 1) /\ (st < 0 -> b + 1 <= a + k * st <= a).
Proof.
  intros Hs Hk. unfold slice_len in Hk.
  destruct (st <? 0) eqn:E; [apply Z.ltb_lt in E|apply Z.ltb_ge in E].
  - split; [lia|]. intros _. destruct (b <? a) eqn:E2; [apply Z.ltb_lt in E2|lia].
    assert (H : (- st) * ((a - b - 1) / (- st)) <= a - b - 1) by (apply Z.mul_div_le; lia). nia.
  - split; [|lia]. intros _. destruct (a <? b) eqn:E2; [apply Z.ltb_lt in E2|lia].
    assert (H : st * ((b - a - 1) / st) <= b - a - 1) by (apply Z.mul_div_le; lia). nia.
Qed.

Local Open Scope nat_scope.

Theorem slice_indices_valid n start stop step :
  step <> Some 0%Z ->
  Forall (fun i => i < n) (slice_indices n start stop step) /\ NoDup (slice_indices n start stop step).
Proof.
  intros Hstep. unfold slice_indices.
  set (st := match step with None => 1%Z | Some s => s end).
  assert (Hst : st <> 0%Z) by (subst st; destruct step as [s|]; [intros ->; apply Hstep; reflexivity|lia]).
  pose proof (slice_adjust_bounds (Z.of_nat n) start stop st ltac:(lia) Hst) as Hb.
  destruct (slice_adjust (Z.of_nat n) start stop st) as [a b]. destruct Hb as (Hpos & Hneg).
  assert (Hpt : forall k, In k (seq 0 (Z.to_nat (slice_len a b st))) ->
                (0 <= a + Z.of_nat k * st < Z.of_nat n)%Z).
  { intros k Hk. apply in_seq in Hk.
    destruct (slice_point a b st (Z.of_nat k) Hst ltac:(lia)) as (P1 & P2).
    destruct (Z.lt_trichotomy st 0) as [Hlt|[Heq|Hgt]]; [|lia|].
    - specialize (Hneg Hlt). specialize (P2 Hlt). lia.
    - specialize (Hpos Hgt). specialize (P1 Hgt). lia. }
  split.
  - apply Forall_forall. intros i Hi. apply in_map_iff in Hi. destruct Hi as (k & <- & Hk).
    specialize (Hpt k Hk). lia.
  - apply NoDup_map_inj; [|apply seq_NoDup]. intros x y Hx Hy Heq.
    pose proof (Hpt x Hx). pose proof (Hpt y Hy).
    assert ((a + Z.of_nat x * st = a + Z.of_nat y * st)%Z) by lia. nia.
Qed.

Lemma prod_app a b : prod (a ++ b) = prod a * prod b.
Proof. unfold prod. induction a as [|x a IH]; cbn [app fold_right]; [lia|]. rewrite IH. lia. Qed.

(* ---- every key of a SplitOperator is a gather ---- *)
Definition item_iblk (sh : list nat) (it : sitem) : iblk :=
  match it with
  | SNone => (prod sh, seq 0 (prod sh))
  | SSlice a b s => (prod sh, slice_indices (prod sh) a b s)
  | SMask m => (prod sh, positions m)
  | SList idx => (prod sh, idx)
  | SInt i => (prod sh, [i])
  end.

Definition item_ok (sh : list nat) (it : sitem) : Prop :=
  match it with
  | SNone => True
  | SSlice _ _ s => s <> Some 0%Z
  | SMask m => length m = prod sh
  | SList idx => Forall (fun i => i < prod sh) idx
  | SInt i => i < prod sh
  end.

Definition item_distinct (it : sitem) : Prop :=
  match it with SList idx => NoDup idx | _ => True end.

Lemma item_iblk_valid sh it : item_ok sh it -> ivalid (item_iblk sh it).
Proof.
  destruct it as [|a b s|m|idx|i]; cbn [item_ok item_iblk]; unfold ivalid; cbn [fst snd]; intros H.
  - apply (seq_bound 0).
  - apply slice_indices_valid. exact H.
  - apply Forall_forall. intros i Hi. unfold positions in Hi. apply positions_from_in in Hi. lia.
  - exact H.
  - constructor; [exact H|constructor].
Qed.

Lemma item_iblk_nodup sh it : item_ok sh it -> item_distinct it -> NoDup (snd (item_iblk sh it)).
Proof.
  destruct it as [|a b s|m|idx|i]; cbn [item_ok item_iblk item_distinct snd]; intros H Hd.
  - apply seq_NoDup.
  - apply slice_indices_valid. exact H.
  - apply positions_from_nodup.
  - exact Hd.
  - constructor; [intros []|constructor].
Qed.

Section Ring.
Variable T : Type.
Variables (t0 t1 : T) (tadd tmul : T -> T -> T) (topp : T -> T).
Hypothesis RT : ring_theory t0 t1 tadd tmul (fun a b => tadd a (topp b)) topp eq.

Lemma split_axis_bg sh it : split_axis T t1 sh it = bg T t1 (item_iblk sh it).
Proof.
  destruct it; try reflexivity.
  unfold Model.split_axis, item_iblk. apply (bident_bg T t1).
Qed.

Theorem split_key_spec shs items :
  Forall2 item_ok shs items ->
  exists idx, gather_blk T t1 (spec_split_key T t1 tmul shs items) (size shs) idx /\
              (Forall item_distinct items -> NoDup idx).
Proof.
  intros H. unfold Model.spec_split_key.
  set (L := combine shs items).
  assert (E : map (fun '(sh, it) => split_axis T t1 sh it) L = map (bg T t1) (map (fun p => item_iblk (fst p) (snd p)) L)).
  { rewrite map_map. apply map_ext. intros [sh it]. apply split_axis_bg. }
  rewrite E, (bkron_list_bg T t0 t1 tadd tmul topp RT).
  set (L2 := map (fun p : list nat * sitem => item_iblk (fst p) (snd p)) L).
  assert (Hv : Forall ivalid L2).
  { apply Forall_forall. intros b Hb. subst L2. apply in_map_iff in Hb. destruct Hb as ([sh it] & <- & Hin).
    apply item_iblk_valid. cbn [fst snd]. subst L. clear E.
    revert Hin. induction H as [|a c la lb Hab H IH]; cbn [combine In]; [intros []|].
    intros [Heq|Hin]; [inversion Heq; subst; assumption|apply IH; assumption]. }
  assert (Efst : fst (ikron_list L2) = size shs).
  { rewrite ikron_list_fst. subst L2. rewrite map_map.
    assert (G : forall sh it, fst (item_iblk sh it) = prod sh) by (intros sh []; reflexivity).
    rewrite (map_ext _ (fun p : list nat * sitem => prod (fst p))) by (intros [sh it]; apply G).
    subst L. clear E Hv. unfold size, flat. induction H as [|a c la lb Hab H IH]; [reflexivity|].
    cbn [combine map fold_right fst concat]. rewrite IH, prod_app. reflexivity. }
  exists (snd (ikron_list L2)). split; [split|].
  - rewrite <- Efst. reflexivity.
  - rewrite <- Efst. apply ikron_list_valid. exact Hv.
  - intros Hd. apply ikron_list_nodup; [exact Hv|]. apply Forall_forall. intros b Hb. subst L2.
    apply in_map_iff in Hb. destruct Hb as ([sh it] & <- & Hin). cbn [fst snd]. subst L.
    assert (Hok : item_ok sh it /\ item_distinct it).
    { clear E Hv Efst. revert Hd Hin. induction H as [|a c la lb Hab H IH]; cbn [combine In]; [intros _ []|].
      intros Hd [Heq|Hin].
      - inversion Heq; subst. inversion Hd; subst. split; assumption.
      - inversion Hd; subst. apply IH; assumption. }
    apply item_iblk_nodup; apply Hok.
Qed.

End Ring.
