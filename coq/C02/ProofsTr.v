(* C02 -- TransposeOperator: for a permutation of the array axes the spec is a permutation matrix
   (so INVERSE = ADJOINT); C-order ravel/unravel are mutually inverse. *)
From Coq Require Import List Arith Bool Lia ZArith Permutation.
Import ListNotations.
Require Import NV.C02.Model NV.C02.ProofsGen NV.C02.ProofsGather NV.C02.ProofsKron NV.C02.ProofsBlk NV.C02.ProofsCls.

Lemma prod_pos_of_lt sh f : f < prod sh -> 0 < prod sh.
Proof. lia. Qed.

Lemma unravel_bound sh f : f < prod sh -> Forall2 lt (unravel sh f) sh.
Proof.
  revert f. induction sh as [|s sh IH]; intros f H; [constructor|].
  cbn [unravel]. change (prod (s :: sh)) with (s * prod sh) in H.
  assert (Hp : prod sh <> 0) by (intros E; rewrite E in H; lia).
  constructor.
  - apply Nat.div_lt_upper_bound; [exact Hp|lia].
  - apply IH. apply Nat.mod_upper_bound. exact Hp.
Qed.

Lemma ravel_unravel sh f : f < prod sh -> ravel sh (unravel sh f) = f.
Proof.
  revert f. induction sh as [|s sh IH]; intros f H; [cbn in *; lia|].
  cbn [unravel ravel]. change (prod (s :: sh)) with (s * prod sh) in H.
  assert (Hp : prod sh <> 0) by (intros E; rewrite E in H; lia).
  rewrite IH by (apply Nat.mod_upper_bound; exact Hp).
  pose proof (Nat.div_mod f (prod sh) Hp). lia.
Qed.

Lemma ravel_inj sh i i' : Forall2 lt i sh -> Forall2 lt i' sh -> ravel sh i = ravel sh i' -> i = i'.
Proof.
  intros H. revert i'. induction H as [|a s i sh Hlt H IH]; intros i' H' E.
  - inversion H'. reflexivity.
  - inversion H' as [|a' s' i2 sh' Hlt' H2]; subst. cbn [ravel] in E.
    pose proof (ravel_bound sh i H). pose proof (ravel_bound sh i2 H2).
    assert (a = a') by nia. subst. f_equal. apply IH; [assumption|lia].
Qed.

Lemma Forall2_len {A B} (R : A -> B -> Prop) l l' : Forall2 R l l' -> length l = length l'.
Proof. induction 1; cbn; congruence. Qed.

Lemma Forall2_nth_intro {A B} (R : A -> B -> Prop) l l' da db :
  length l = length l' -> (forall j, j < length l -> R (nth j l da) (nth j l' db)) -> Forall2 R l l'.
Proof.
  revert l'. induction l as [|x l IH]; intros [|y l'] Hl H; try discriminate; [constructor|].
  constructor; [apply (H 0); cbn; lia|]. apply IH; [cbn in Hl; lia|]. intros j Hj. apply (H (S j)). cbn. lia.
Qed.

Lemma Forall2_nth_elim {A B} (R : A -> B -> Prop) l l' da db j :
  Forall2 R l l' -> j < length l -> R (nth j l da) (nth j l' db).
Proof.
  intros H. revert j. induction H as [|x y l l' Hxy H IH]; intros j Hj; [cbn in Hj; lia|].
  destruct j; [exact Hxy|]. cbn. apply IH. cbn in Hj. lia.
Qed.

Lemma map_nth_lt {A B} (f : A -> B) l j d d' : j < length l -> nth j (map f l) d = f (nth j l d').
Proof.
  revert j. induction l as [|x l IH]; intros j H; [cbn in H; lia|].
  destruct j; [reflexivity|]. cbn. apply IH. cbn in H. lia.
Qed.

Lemma index_of_in a l : In a l -> index_of a l < length l /\ nth (index_of a l) l 0 = a.
Proof.
  induction l as [|b t IH]; intros H; [destruct H|].
  cbn [index_of]. destruct (Nat.eqb a b) eqn:E.
  - apply Nat.eqb_eq in E. subst. cbn. split; [lia|reflexivity].
  - apply Nat.eqb_neq in E. destruct H as [H|H]; [congruence|]. destruct (IH H). cbn. split; [lia|assumption].
Qed.

Lemma index_of_nth j l : NoDup l -> j < length l -> index_of (nth j l 0) l = j.
Proof.
  intros Hnd. revert j. induction Hnd as [|b t Hnotin Hnd IH]; intros j Hj; [cbn in Hj; lia|].
  cbn [index_of]. destruct j.
  - cbn. rewrite Nat.eqb_refl. reflexivity.
  - cbn [nth]. cbn [length] in Hj. destruct (Nat.eqb (nth j t 0) b) eqn:E.
    + apply Nat.eqb_eq in E. exfalso. apply Hnotin. rewrite <- E. apply nth_In. lia.
    + rewrite IH by lia. reflexivity.
Qed.

(* axes is a permutation of 0 .. k-1 *)
Definition is_perm (k : nat) (axes : list nat) : Prop :=
  NoDup axes /\ length axes = k /\ Forall (fun a => a < k) axes.

Lemma perm_in k axes a : is_perm k axes -> a < k -> In a axes.
Proof. intros (Hnd & Hlen & Hb) Ha. apply (perm_covers k); assumption. Qed.

Definition permute (axes o : list nat) : list nat :=
  map (fun a => nth (index_of a axes) o 0) (seq 0 (length axes)).

Lemma permute_nth axes o a : a < length axes -> nth a (permute axes o) 0 = nth (index_of a axes) o 0.
Proof.
  intros H. unfold permute.
  rewrite (map_nth_lt _ _ _ 0 0) by (rewrite seq_length; exact H). rewrite seq_nth by exact H. reflexivity.
Qed.

Lemma prod_perm l l' : Permutation l l' -> prod l = prod l'.
Proof. unfold prod. induction 1; cbn [fold_right]; lia. Qed.

Lemma out_shape_perm in_sh axes :
  is_perm (length in_sh) axes -> Permutation (map (fun a => nth a in_sh 0) axes) in_sh.
Proof.
  intros (Hnd & Hlen & Hb).
  assert (P : Permutation axes (seq 0 (length in_sh))).
  { apply NoDup_Permutation; [assumption|apply seq_NoDup|]. intros a. split.
    - intros Ha. apply in_seq. rewrite Forall_forall in Hb. specialize (Hb a Ha). lia.
    - intros Ha. apply in_seq in Ha. apply (perm_covers (length in_sh)); [assumption|assumption|assumption|lia]. }
  eapply Permutation_trans; [apply Permutation_map; exact P|].
  replace (map (fun a => nth a in_sh 0) (seq 0 (length in_sh))) with in_sh; [apply Permutation_refl|].
  apply (nth_ext _ _ 0 0).
  - rewrite map_length, seq_length. reflexivity.
  - intros j Hj.
    rewrite (map_nth_lt _ _ _ 0 0) by (rewrite seq_length; exact Hj). rewrite seq_nth by exact Hj. reflexivity.
Qed.

Section Tr.
Variables (in_sh axes : list nat).
Hypothesis Hperm : is_perm (length in_sh) axes.
Let out_sh := map (fun a => nth a in_sh 0) axes.

Lemma out_prod : prod out_sh = prod in_sh.
Proof. apply prod_perm, out_shape_perm. exact Hperm. Qed.

Lemma permute_bound o : Forall2 lt o out_sh -> Forall2 lt (permute axes o) in_sh.
Proof.
  intros Ho. destruct Hperm as (Hnd & Hlen & Hb).
  apply (Forall2_nth_intro _ _ _ 0 0).
  - unfold permute. rewrite map_length, seq_length. exact Hlen.
  - intros a Ha. unfold permute in Ha. rewrite map_length, seq_length in Ha.
    rewrite permute_nth by exact Ha.
    assert (Hak : a < length in_sh) by (rewrite <- Hlen; exact Ha).
    destruct (index_of_in a axes (perm_in _ _ _ Hperm Hak)) as (Hi & Hn).
    assert (Hlo : length o = length out_sh) by (eapply Forall2_len; exact Ho).
    pose proof (Forall2_nth_elim _ _ _ 0 0 (index_of a axes) Ho) as Hlt.
    unfold out_sh in Hlt, Hlo. rewrite map_length in Hlo.
    rewrite (map_nth_lt _ _ _ 0 0) in Hlt by exact Hi.
    rewrite Hn in Hlt. apply Hlt. lia.
Qed.

Lemma permute_inj o o' :
  length o = length axes -> length o' = length axes -> permute axes o = permute axes o' -> o = o'.
Proof.
  intros Hl Hl' E. destruct Hperm as (Hnd & Hlen & Hb).
  apply (nth_ext _ _ 0 0); [lia|]. intros j Hj.
  assert (Hj' : j < length axes) by lia.
  assert (Ha : nth j axes 0 < length axes).
  { rewrite Forall_forall in Hb. rewrite Hlen. apply Hb. apply nth_In. exact Hj'. }
  pose proof (permute_nth axes o (nth j axes 0) Ha) as P1.
  pose proof (permute_nth axes o' (nth j axes 0) Ha) as P2.
  rewrite index_of_nth in P1, P2 by assumption. rewrite <- P1, <- P2, E. reflexivity.
Qed.

Theorem transpose_index_perm :
  let idx := map (transpose_index in_sh axes) (seq 0 (prod in_sh)) in
  Forall (fun i => i < prod in_sh) idx /\ NoDup idx /\ length idx = prod in_sh.
Proof.
  cbn zeta.
  assert (Hb : forall f, f < prod in_sh -> Forall2 lt (permute axes (unravel out_sh f)) in_sh).
  { intros f Hf. apply permute_bound, unravel_bound. rewrite out_prod. exact Hf. }
  assert (Hti : forall f, transpose_index in_sh axes f = ravel in_sh (permute axes (unravel out_sh f))) by reflexivity.
  split; [|split].
  - apply Forall_forall. intros i Hi. apply in_map_iff in Hi. destruct Hi as (f & <- & Hf). apply in_seq in Hf.
    rewrite Hti. apply ravel_bound, Hb. lia.
  - apply NoDup_map_inj; [|apply seq_NoDup]. intros f g Hf Hg E. apply in_seq in Hf, Hg.
    rewrite !Hti in E. apply ravel_inj in E; [|apply Hb; lia|apply Hb; lia].
    assert (Hlen : forall h, h < prod in_sh -> length (unravel out_sh h) = length axes).
    { intros h Hh. pose proof (unravel_bound out_sh h ltac:(rewrite out_prod; exact Hh)) as Hu.
      apply Forall2_len in Hu. rewrite Hu. unfold out_sh. apply map_length. }
    apply permute_inj in E; [|apply Hlen; lia|apply Hlen; lia].
    rewrite <- (ravel_unravel out_sh f), <- (ravel_unravel out_sh g), E by (rewrite out_prod; lia). reflexivity.
  - rewrite map_length, seq_length. reflexivity.
Qed.

End Tr.

(* the spec of TransposeOperator is a permutation block whenever the NumPy axes list is a permutation *)
Theorem transpose_spec T (t1 : T) shs indices :
  is_perm (length (flat shs)) (np_axes shs indices) ->
  exists b, spec_transpose T t1 shs indices = bg T t1 b /\ iperm b.
Proof.
  intros H. exists (size shs, map (transpose_index (flat shs) (np_axes shs indices)) (seq 0 (size shs))).
  split; [reflexivity|].
  destruct (transpose_index_perm (flat shs) (np_axes shs indices) H) as (Hb & Hnd & Hlen).
  unfold iperm, ivalid. cbn [fst snd]. unfold size. repeat split; assumption.
Qed.
