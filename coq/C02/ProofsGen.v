(* C02 -- generic theorems about sparse triplet matrices over a commutative ring (Leibniz equality):
   linearity, adjointness, gather / scatter-add, Kronecker structure, complex weights. *)
From Coq Require Import List Arith Bool Lia Ring Ring_theory ZArith.
Import ListNotations.
Require Import NV.C02.Model.

Section Ring.
Variable T : Type.
Variables (t0 t1 : T) (tadd tmul : T -> T -> T) (topp : T -> T).
Hypothesis RT : ring_theory t0 t1 tadd tmul (fun a b => tadd a (topp b)) topp eq.
Add Ring TRing : RT.

Notation "0" := t0.
Notation "1" := t1.
Infix "+" := tadd.
Infix "*" := tmul.
Notation "- x" := (topp x).

Notation trip := (trip T).
Notation mat := (mat T).
Notation vec := (vec T).
Notation apply := (apply T t0 tadd tmul).
Notation tr := (tr T).
Notation inb := (inb T).
Notation sum_to := (sum_to T t0 tadd).
Notation dot := (dot T t0 tadd tmul).
Notation gather_from := (gather_from T t1).
Notation gather := (gather T t1).
Notation ident := (ident T t1).
Notation kron := (kron T tmul).

(* ---- apply ---- *)
Lemma apply_nil x o : apply [] x o = 0.
Proof. reflexivity. Qed.

Lemma apply_cons o' i w M x o :
  apply ((o', i, w) :: M) x o = (if Nat.eqb o' o then w * x i else 0) + apply M x o.
Proof. unfold Model.apply. cbn [fold_right]. destruct (Nat.eqb o' o); ring. Qed.

Lemma apply_app A B x o : apply (A ++ B) x o = apply A x o + apply B x o.
Proof.
  induction A as [|[[o' i] w] A IH]; cbn [app].
  - rewrite apply_nil. ring.
  - rewrite !apply_cons, IH. ring.
Qed.

Lemma apply_ext M x y o : (forall i, x i = y i) -> apply M x o = apply M y o.
Proof.
  intros H. induction M as [|[[o' i] w] M IH]; [reflexivity|].
  rewrite !apply_cons, IH, H. reflexivity.
Qed.

Theorem apply_linear M a b x y o :
  apply M (fun i => a * x i + b * y i) o = a * apply M x o + b * apply M y o.
Proof.
  induction M as [|[[o' i] w] M IH].
  - rewrite !apply_nil. ring.
  - rewrite !apply_cons, IH. destruct (Nat.eqb o' o); ring.
Qed.

Lemma apply_zero M o : apply M (fun _ => 0) o = 0.
Proof.
  induction M as [|[[o' i] w] M IH]; [reflexivity|].
  rewrite apply_cons, IH. destruct (Nat.eqb o' o); ring.
Qed.

(* ---- finite sums ---- *)
Lemma sum_to_ext n f g : (forall k, k < n -> f k = g k) -> sum_to n f = sum_to n g.
Proof.
  induction n; intros H; [reflexivity|]. cbn [Model.sum_to]. rewrite IHn, H by (intros; try apply H; lia). reflexivity.
Qed.

Lemma sum_to_add n f g : sum_to n (fun k => f k + g k) = sum_to n f + sum_to n g.
Proof. induction n; cbn [Model.sum_to]; [ring|]. rewrite IHn. ring. Qed.

Lemma sum_to_zero n : sum_to n (fun _ => 0) = 0.
Proof. induction n; cbn [Model.sum_to]; [reflexivity|]. rewrite IHn. ring. Qed.

Lemma sum_to_scale n c f : sum_to n (fun k => c * f k) = c * sum_to n f.
Proof. induction n; cbn [Model.sum_to]; [ring|]. rewrite IHn. ring. Qed.

Lemma sum_to_indicator n k f : k < n -> sum_to n (fun j => if Nat.eqb k j then f j else 0) = f k.
Proof.
  induction n; intros H; [lia|]. cbn [Model.sum_to].
  destruct (Nat.eq_dec k n) as [->|Hne].
  - rewrite Nat.eqb_refl. rewrite (sum_to_ext n _ (fun _ => 0)), sum_to_zero; [ring|].
    intros j Hj. destruct (Nat.eqb n j) eqn:E; [apply Nat.eqb_eq in E; lia|reflexivity].
  - rewrite IHn by lia. destruct (Nat.eqb k n) eqn:E; [apply Nat.eqb_eq in E; lia|ring].
Qed.

Lemma sum_to_indicator_out n k f : n <= k -> sum_to n (fun j => if Nat.eqb k j then f j else 0) = 0.
Proof.
  intros H. rewrite (sum_to_ext n _ (fun _ => 0)), sum_to_zero; [reflexivity|].
  intros j Hj. destruct (Nat.eqb k j) eqn:E; [apply Nat.eqb_eq in E; lia|reflexivity].
Qed.

(* ---- in-bounds ---- *)
Lemma inb_cons m n o i w M : inb m n ((o, i, w) :: M) = true <-> (o < m /\ i < n /\ inb m n M = true).
Proof.
  unfold Model.inb. cbn [forallb]. rewrite !andb_true_iff, !Nat.ltb_lt. tauto.
Qed.

Lemma inb_app m n A B : inb m n (A ++ B) = true <-> (inb m n A = true /\ inb m n B = true).
Proof. unfold Model.inb. rewrite forallb_app, andb_true_iff. tauto. Qed.

Lemma inb_tr m n M : inb m n M = true -> inb n m (tr M) = true.
Proof.
  induction M as [|[[o i] w] M IH]; [reflexivity|]. cbn [Model.tr map].
  rewrite !inb_cons. intros (? & ? & ?). auto.
Qed.

Lemma tr_cons o i w M : tr ((o, i, w) :: M) = (i, o, w) :: tr M.
Proof. reflexivity. Qed.

Lemma tr_tr M : tr (tr M) = M.
Proof. induction M as [|[[o i] w] M IH]; [reflexivity|]. cbn [Model.tr map]. f_equal. exact IH. Qed.

Lemma tr_app A B : tr (A ++ B) = tr A ++ tr B.
Proof. unfold Model.tr. apply map_app. Qed.

Lemma apply_out_of_range m n M x o : inb m n M = true -> m <= o -> apply M x o = 0.
Proof.
  induction M as [|[[o' i] w] M IH]; intros H Ho; [reflexivity|].
  apply inb_cons in H. destruct H as (H1 & H2 & H3). rewrite apply_cons, IH by assumption.
  destruct (Nat.eqb o' o) eqn:E; [apply Nat.eqb_eq in E; lia|ring].
Qed.

(* ---- adjointness:  <y, M x> = <M^T y, x> ---- *)
Theorem adjoint_dot m n M x y :
  inb m n M = true -> dot m y (apply M x) = dot n (apply (tr M) y) x.
Proof.
  unfold Model.dot. induction M as [|[[o i] w] M IH]; intros H.
  - rewrite (sum_to_ext m _ (fun _ => 0)), (sum_to_ext n _ (fun _ => 0)), !sum_to_zero; [reflexivity| |];
      intros; cbv beta; cbn [Model.tr map]; rewrite ?apply_nil; ring.
  - apply inb_cons in H. destruct H as (Ho & Hi & H). specialize (IH H).
    cbn [Model.tr map].
    rewrite (sum_to_ext m _ (fun k => (if Nat.eqb o k then y k * (w * x i) else 0) + y k * apply M x k)).
    2:{ intros k _. rewrite apply_cons. destruct (Nat.eqb o k); ring. }
    rewrite (sum_to_ext n _ (fun k => (if Nat.eqb i k then (w * y o) * x k else 0) + apply (tr M) y k * x k)).
    2:{ intros k _. rewrite apply_cons. fold (tr M). destruct (Nat.eqb i k); ring. }
    rewrite !sum_to_add, IH.
    rewrite (sum_to_indicator m o (fun k => y k * (w * x i))) by assumption.
    rewrite (sum_to_indicator n i (fun k => (w * y o) * x k)) by assumption.
    ring.
Qed.

End Ring.
