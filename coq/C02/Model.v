(* C02 -- executable model of the library linear operators of nifty.cl (no proofs in this file).

   Every modelled operator class K gets a function [spec_K params : mat] that computes, from the
   constructor arguments, the SPARSE TRIPLET MATRIX (out_index, in_index, weight) of the documented
   action in TIMES mode, on C-order flattened arrays.  The adjoint is [tr] (transposition; for complex
   weights the matrices are given in their real 2m x 2n form, see [cplx], so that transposition is the
   Hermitian adjoint and real-linear operators -- Realizer, Imaginizer, ConjugationOperator -- fit
   the same frame).  The target shape formulas [tgt_K] mirror the constructors.

   The scalars are an arbitrary type T with operations WITHOUT laws (Section Ops); the theorems in
   Proofs*.v assume a commutative ring, the correspondence evaluates over Qc.

   Mirrored sources (quoted at the definitions):
     nifty/cl/operators/contraction_operator.py, distributors.py, field_zero_padder.py,
     mask_operator.py, selection_operators.py, value_inserter.py, domain_tuple_field_inserter.py,
     outer_product_operator.py, transpose_operator.py, simple_linear_operators.py,
     harmonic_operators.py (FFTShiftOperator), matrix_product_operator.py, linear_interpolation.py,
     regridding_operator.py, multifield2vector.py, nifty/cl/utilities.py (_special_add_at). *)
From Coq Require Import List Arith ZArith Bool.
Import ListNotations.

(* ------------------------------------------------------------------------------------------ *)
(* shapes, C-order flat indices                                                               *)
(* ------------------------------------------------------------------------------------------ *)
Definition prod (sh : list nat) : nat := fold_right Nat.mul 1 sh.

Fixpoint ravel (sh idx : list nat) : nat :=
  match sh, idx with
  | _ :: sh', i :: idx' => i * prod sh' + ravel sh' idx'
  | _, _ => 0
  end.

Fixpoint unravel (sh : list nat) (f : nat) : list nat :=
  match sh with
  | [] => []
  | _ :: sh' => (f / prod sh') :: unravel sh' (f mod prod sh')
  end.

(* a DomainTuple is described by the list of the shapes of its sub-domains *)
Definition shapes := list (list nat).
Definition flat (shs : shapes) : list nat := concat shs.
Definition size (shs : shapes) : nat := prod (flat shs).
Definition pre (shs : shapes) (k : nat) : nat := size (firstn k shs).
Definition post (shs : shapes) (k : nat) : nat := size (skipn (S k) shs).
Definition replace_nth {A} (k : nat) (x : A) (l : list A) : list A := firstn k l ++ x :: skipn (S k) l.
Definition remove_nth {A} (k : nat) (l : list A) : list A := firstn k l ++ skipn (S k) l.

Fixpoint index_of (a : nat) (l : list nat) : nat :=
  match l with
  | [] => 0
  | b :: t => if Nat.eqb a b then 0 else S (index_of a t)
  end.

Definition list_max (l : list nat) : nat := fold_right Nat.max 0 l.

(* positions of the [true] entries of a boolean list, in increasing order *)
Fixpoint positions_from (k : nat) (l : list bool) : list nat :=
  match l with
  | [] => []
  | b :: t => if b then k :: positions_from (S k) t else positions_from (S k) t
  end.
Definition positions (l : list bool) : list nat := positions_from 0 l.

(* ------------------------------------------------------------------------------------------ *)
(* CPython slice semantics (PySlice_AdjustIndices): the index list selected by                *)
(* slice(start, stop, step) on an axis of length n; step <> 0                                 *)
(* ------------------------------------------------------------------------------------------ *)
Definition slice_adjust (n : Z) (start stop : option Z) (step : Z) : Z * Z :=
  let neg := (step <? 0)%Z in
  let lo := if neg then (-1)%Z else 0%Z in
  let hi := if neg then (n - 1)%Z else n in
  let adj (v : option Z) (dflt : Z) : Z :=
    match v with
    | None => dflt
    | Some s =>
        if (s <? 0)%Z then (if (s + n <? 0)%Z then lo else (s + n)%Z)
        else if (s >=? n)%Z then hi else s
    end in
  (adj start (if neg then (n - 1)%Z else 0%Z), adj stop (if neg then (-1)%Z else n)).

Definition slice_len (start stop step : Z) : Z :=
  if (step <? 0)%Z
  then (if (stop <? start)%Z then ((start - stop - 1) / (- step) + 1)%Z else 0%Z)
  else (if (start <? stop)%Z then ((stop - start - 1) / step + 1)%Z else 0%Z).

Definition slice_indices (n : nat) (start stop : option Z) (step : option Z) : list nat :=
  let st := match step with None => 1%Z | Some s => s end in
  let '(a, b) := slice_adjust (Z.of_nat n) start stop st in
  map (fun k => Z.to_nat (a + Z.of_nat k * st)%Z) (seq 0 (Z.to_nat (slice_len a b st))).

Section Ops.
Variable T : Type.
Variables (t0 t1 : T) (tadd tmul : T -> T -> T) (topp tinv : T -> T).

Definition trip := (nat * nat * T)%type.
Definition mat := list trip.
Definition vec := nat -> T.

(* ---- semantics of a triplet matrix ---- *)
Definition apply (M : mat) (x : vec) : vec :=
  fun o => fold_right (fun (t : trip) acc =>
                         let '(o', i, w) := t in if Nat.eqb o' o then tadd (tmul w (x i)) acc else acc) t0 M.

Definition entry (M : mat) (o i : nat) : T :=
  fold_right (fun (t : trip) acc =>
                let '(o', i', w) := t in if Nat.eqb o' o && Nat.eqb i' i then tadd w acc else acc) t0 M.

Definition tr (M : mat) : mat := map (fun t : trip => let '(o, i, w) := t in (i, o, w)) M.

Definition inb (m n : nat) (M : mat) : bool :=
  forallb (fun t : trip => let '(o, i, _) := t in Nat.ltb o m && Nat.ltb i n) M.

Fixpoint sum_to (n : nat) (f : nat -> T) : T :=
  match n with 0 => t0 | S k => tadd (sum_to k f) (f k) end.
Definition dot (n : nat) (x y : vec) : T := sum_to n (fun k => tmul (x k) (y k)).

(* ---- constructions ---- *)
Fixpoint gather_from (k : nat) (idx : list nat) : mat :=
  match idx with
  | [] => []
  | i :: t => (k, i, t1) :: gather_from (S k) t
  end.
(* out[k] = in[idx[k]]   (NumPy: x[idx]) *)
Definition gather (idx : list nat) : mat := gather_from 0 idx.
Definition ident (n : nat) : mat := gather (seq 0 n).

Fixpoint diag_from (k : nat) (ws : list T) : mat :=
  match ws with
  | [] => []
  | w :: t => (k, k, w) :: diag_from (S k) t
  end.
Definition diag (ws : list T) : mat := diag_from 0 ws.

(* 1 x n row and n x 1 column from a weight list *)
Fixpoint row_from (k : nat) (ws : list T) : mat :=
  match ws with [] => [] | w :: t => (0, k, w) :: row_from (S k) t end.
Definition row (ws : list T) : mat := row_from 0 ws.
Definition col (ws : list T) : mat := tr (row ws).

Definition of_rows (rows : list (list T)) : mat :=
  concat (map (fun '(o, r) => map (fun '(i, w) => (o, i, w)) (combine (seq 0 (length r)) r))
              (combine (seq 0 (length rows)) rows)).

Definition scale (c : T) (M : mat) : mat := map (fun t : trip => let '(o, i, w) := t in (o, i, tmul c w)) M.

(* Kronecker product; mB x nB are the dimensions of B *)
Definition kron (mB nB : nat) (A B : mat) : mat :=
  flat_map (fun ta : trip => let '(oa, ia, wa) := ta in
              map (fun tb : trip => let '(ob, ib, wb) := tb in (oa * mB + ob, ia * nB + ib, tmul wa wb)) B) A.

(* matrix product A . B *)
Definition compose (A B : mat) : mat :=
  flat_map (fun ta : trip => let '(o, k, wa) := ta in
              flat_map (fun tb : trip => let '(k', i, wb) := tb in
                          if Nat.eqb k k' then [(o, i, tmul wa wb)] else []) B) A.

(* vertical stacking: rows of B placed below the mA rows of A (MultiField targets) *)
Definition shift_out (d : nat) (M : mat) : mat := map (fun t : trip => let '(o, i, w) := t in (o + d, i, w)) M.
Definition shift_in (d : nat) (M : mat) : mat := map (fun t : trip => let '(o, i, w) := t in (o, i + d, w)) M.
Definition vstack (mA : nat) (A B : mat) : mat := A ++ shift_out mA B.

(* a block with its dimensions *)
Definition blk := (nat * nat * mat)%type.
Definition bm (b : blk) : nat := fst (fst b).
Definition bn (b : blk) : nat := snd (fst b).
Definition bmat (b : blk) : mat := snd b.
Definition bident (n : nat) : blk := (n, n, ident n).
Definition bgather (n : nat) (idx : list nat) : blk := (length idx, n, gather idx).
Definition btr (b : blk) : blk := (bn b, bm b, tr (bmat b)).
Definition bkron (a b : blk) : blk := (bm a * bm b, bn a * bn b, kron (bm b) (bn b) (bmat a) (bmat b)).
Fixpoint bkron_list (l : list blk) : blk :=
  match l with
  | [] => (1, 1, [(0, 0, t1)])
  | [b] => b
  | b :: r => bkron b (bkron_list r)
  end.
(* a block acting on sub-domain k of a DomainTuple with sub-domain shapes shs *)
Definition on_space (shs : shapes) (k : nat) (b : blk) : blk :=
  bkron (bident (pre shs k)) (bkron b (bident (post shs k))).

Fixpoint tpow (x : T) (p : nat) : T := match p with 0 => t1 | S q => tmul x (tpow x q) end.
Definition tzpow (x : T) (p : Z) : T :=
  match p with
  | Z0 => t1
  | Zpos q => tpow x (Pos.to_nat q)
  | Zneg q => tinv (tpow x (Pos.to_nat q))
  end.

(* ---- complex weights as real 2m x 2n matrices (re, im interleaved) ---- *)
Definition ctrip := (nat * nat * (T * T))%type.
Definition cplx (M : list ctrip) : mat :=
  flat_map (fun t : ctrip => let '(o, i, (a, b)) := t in
              [(2 * o, 2 * i, a); (2 * o, 2 * i + 1, topp b); (2 * o + 1, 2 * i, b); (2 * o + 1, 2 * i + 1, a)]) M.
Definition conjT (M : list ctrip) : list ctrip :=
  map (fun t : ctrip => let '(o, i, (a, b)) := t in (i, o, (a, topp b))) M.
(* a real matrix acting on complex vectors *)
Definition real2c (M : mat) : list ctrip := map (fun t : trip => let '(o, i, w) := t in (o, i, (w, t0))) M.

(* ================================================================================================ *)
(* The operator classes                                                                             *)
(* ================================================================================================ *)

(* ---- ContractionOperator(domain, spaces, power) ------------------------------------------------
   "sums up a field ... to a DomainTuple which is a subset of the former"; "If nonzero, the fields
   ... are weighted with the specified power along the submdomains which are contracted."
     TIMES:  x = x.weight(self._power, spaces=self._spaces);  res = x.sum(self._spaces)
   [sel] marks the contracted sub-domains, [dvols] are the scalar pixel volumes of the sub-domains. *)
Definition spec_contraction (shs : shapes) (sel : list bool) (dvols : list T) (power : Z) : blk :=
  bkron_list (map (fun '(sh, (c, dv)) =>
                     if (c : bool) then (1, prod sh, row (repeat (tzpow dv power) (prod sh)))
                     else bident (prod sh))
                  (combine shs (combine sel dvols))).
(* self._target = [dom for i, dom in enumerate(self._domain) if i not in self._spaces] *)
Definition tgt_contraction (shs : shapes) (sel : list bool) : shapes :=
  map fst (filter (fun p : list nat * bool => negb (snd p)) (combine shs sel)).

(* ---- DOFDistributor(dofdex, target, space) / PowerDistributor -----------------------------------
   "associates the entries within the operator's domain to locations in its target"
     _times:  oarr[()] = arr[(slice(None), self._dofdex, slice(None))]   on shape (presize, ndof, postsize)
   [tshs] = sub-domain shapes of the TARGET, dofdex flattened over sub-domain k. *)
Definition nbin (dofdex : list nat) : nat := S (list_max dofdex).
Definition spec_dofdist (tshs : shapes) (k : nat) (dofdex : list nat) : blk :=
  on_space tshs k (bgather (nbin dofdex) dofdex).
(* dom[self._space] = DOFSpace(wgt)  with nbin = ldat.max() + 1 entries *)
Definition dom_dofdist (tshs : shapes) (k : nat) (dofdex : list nat) : shapes :=
  replace_nth k [nbin dofdex] tshs.

(* ---- FieldZeroPadder(domain, new_shape, space, central) -----------------------------------------
   "If False, padding is performed at the end of the domain axes, otherwise in the middle." ...
   "When doing central padding on an axis with an even length, the 'central' entry should in
   principle be split up; this is currently not done."
     per axis d of the space (skipped when v.shape[d] == tgtshp[d]):
       not central: xnew[idx + (slice(0, v.shape[d]),)] = v
       central:     Nyquist = v.shape[d]//2
                    xnew[..., 0:Nyquist+1] = v[..., 0:Nyquist+1]
                    xnew[..., -1:-(Nyquist+1):-1] = v[..., -1:-(Nyquist+1):-1]   (the last Nyquist entries) *)
Definition pad_axis (central : bool) (n m : nat) : blk :=
  if Nat.eqb n m then bident n
  else if central
       then (m, n, tr (gather (seq 0 (S (n / 2)))) ++
                   map (fun j => (m - j, n - j, t1)) (seq 1 (n / 2)))
       else (m, n, tr (gather (seq 0 n))).
Definition spec_padder (shs : shapes) (k : nat) (new_shape : list nat) (central : bool) : blk :=
  on_space shs k (bkron_list (map (fun '(n, m) => pad_axis central n m) (combine (nth k shs []) new_shape))).
Definition tgt_padder (shs : shapes) (k : nat) (new_shape : list nat) : shapes := replace_nth k new_shape shs.

(* ---- MaskOperator(flags) -------------------------------------------------------------------------
   "Takes a field, applies flags and returns the values of the field in an UnstructuredDomain"
   "Where True, the input field is flagged."     self._flags = np.logical_not(flags.val); res = x[self._flags] *)
Definition spec_mask (flags : list bool) : blk :=
  bgather (length flags) (positions (map negb flags)).
Definition tgt_mask (flags : list bool) : shapes := [[length (positions (map negb flags))]].

(* ---- SliceOperator(domain, new_shape, center, preserve_dist) --------------------------------------
   "slices it into the desired shape"; "center: Whether to center the slice that is selected"
       slc_start = np.floor((d.shape[j] - n_pix) / 2.).astype(int)   (center)   /   0
       res = x[self._slc_by_ax]
   [new] holds one entry per sub-domain: None = keep. *)
Definition slice_axis (center : bool) (n len : nat) : blk :=
  bgather n (seq (if center then (n - len) / 2 else 0) len).
Definition tgt_slice (shs : shapes) (new : list (option (list nat))) : shapes :=
  map (fun '(sh, o) => match o with None => sh | Some s => s end) (combine shs new).
Definition spec_slice (shs : shapes) (new : list (option (list nat))) (center : bool) : blk :=
  bkron_list (map (fun '(n, len) => slice_axis center n len) (combine (flat shs) (flat (tgt_slice shs new)))).

(* ---- SplitOperator(domain, slices_by_key) ---------------------------------------------------------
   "selects the desired entries for each multi-field key"; per key one item per sub-domain:
   None / slice / boolean mask / index list / int; sliced sub-domains are one-dimensional.
       res[k] = x.val[slc]            ADJOINT: res[slc] += x.val[k]
   The MultiField target is flattened with the keys in sorted order (vstack). *)
Inductive sitem :=
| SNone
| SSlice (start stop step : option Z)
| SMask (m : list bool)
| SList (idx : list nat)
| SInt (i : nat).
Definition split_axis (sh : list nat) (it : sitem) : blk :=
  match it with
  | SNone => bident (prod sh)
  | SSlice a b s => bgather (prod sh) (slice_indices (prod sh) a b s)
  | SMask m => bgather (prod sh) (positions m)
  | SList idx => bgather (prod sh) idx
  | SInt i => bgather (prod sh) [i]
  end.
Definition split_tgt_axis (sh : list nat) (it : sitem) : list (list nat) :=
  match it with
  | SNone => [sh]
  | SSlice a b s => [[length (slice_indices (prod sh) a b s)]]
  | SMask m => [[length (positions m)]]
  | SList idx => [[length idx]]
  | SInt _ => []
  end.
Definition spec_split_key (shs : shapes) (items : list sitem) : blk :=
  bkron_list (map (fun '(sh, it) => split_axis sh it) (combine shs items)).
Definition tgt_split_key (shs : shapes) (items : list sitem) : shapes :=
  flat_map (fun '(sh, it) => split_tgt_axis sh it) (combine shs items).
Fixpoint spec_split (shs : shapes) (keys : list (list sitem)) : blk :=
  match keys with
  | [] => (0, size shs, [])
  | items :: r =>
      let b := spec_split_key shs items in
      let br := spec_split shs r in
      (bm b + bm br, size shs, vstack (bm b) (bmat b) (bmat br))
  end.

(* ---- ValueInserter(target, index) -----------------------------------------------------------------
   "Inserts one value into a field which is zero otherwise."     res[self._index] = x *)
Definition spec_value_inserter (tsh : list nat) (index : list nat) : blk :=
  (prod tsh, 1, [(ravel tsh index, 0, t1)]).

(* ---- DomainTupleFieldInserter(target, space, index) -----------------------------------------------
   "Writes the content of a Field into one slice of a DomainTuple."
       self._slc = (slice(None),)*fst_dims + index;   res[self._slc] = x *)
Definition spec_dtfi (tshs : shapes) (k : nat) (index : list nat) : blk :=
  on_space tshs k (prod (nth k tshs []), 1, [(ravel (nth k tshs []) index, 0, t1)]).
Definition dom_dtfi (tshs : shapes) (k : nat) : shapes := remove_nth k tshs.

(* ---- OuterProduct(domain, field) -------------------------------------------------------------------
   "Performs the point-wise outer product of two fields."   res = np.multiply.outer(self._field.val, x.val)
   (complex field values: list of (re, im), real 2m x 2n form) *)
Definition spec_outer (n : nat) (field : list (T * T)) : list ctrip :=
  flat_map (fun '(a, w) => map (fun j => (a * n + j, j, w)) (seq 0 n)) (combine (seq 0 (length field)) field).

(* ---- VdotOperator(field) ---------------------------------------------------------------------------
   "computing the scalar product of its input with a given Field"   return self._field.vdot(x)
   (vdot conjugates its first argument) *)
Definition spec_vdot (field : list (T * T)) : list ctrip :=
  map (fun '(j, (a, b)) => (0, j, (a, topp b))) (combine (seq 0 (length field)) field).

(* ---- TransposeOperator(domain, indices) ------------------------------------------------------------
       self._target = DomainTuple.make(self._domain[ind] for ind in indices)
       np_indices: for ind in indices: np_indices.extend(range(dimensions[ind], dimensions[ind+1]))
       x = np.transpose(x, self._np_indices)
   np.transpose: out.shape[k] = in.shape[axes[k]],  out[o] = in[i] with i[axes[k]] = o[k]. *)
Definition np_axes (shs : shapes) (indices : list nat) : list nat :=
  flat_map (fun ind => seq (length (flat (firstn ind shs))) (length (nth ind shs []))) indices.
Definition transpose_index (in_sh axes : list nat) (f : nat) : nat :=
  let out_sh := map (fun a => nth a in_sh 0) axes in
  let o := unravel out_sh f in
  ravel in_sh (map (fun a => nth (index_of a axes) o 0) (seq 0 (length axes))).
Definition spec_transpose (shs : shapes) (indices : list nat) : blk :=
  let axes := np_axes shs indices in
  bgather (size shs) (map (transpose_index (flat shs) axes) (seq 0 (size shs))).
Definition tgt_transpose (shs : shapes) (indices : list nat) : shapes := map (fun ind => nth ind shs []) indices.

(* ---- SqueezeOperator(domain, aggressive) -----------------------------------------------------------
   "Removes trivial axes from a DomainTuple": the flat data are unchanged, the target drops the
   sub-domains of shape (1,) and (aggressive, RGSpace/UnstructuredDomain only) all axes of length 1.
   [sq] tells per sub-domain whether it is an RGSpace or UnstructuredDomain. *)
Definition spec_squeeze (shs : shapes) : blk := bident (size shs).
Definition tgt_squeeze (shs : shapes) (sq : list bool) (aggressive : bool) : shapes :=
  flat_map (fun '(sh, s) =>
              match sh with
              | [1] => []
              | _ => if aggressive && (s : bool) then [filter (fun a => negb (Nat.eqb a 1)) sh] else [sh]
              end) (combine shs sq).

(* ---- GeometryRemover / DomainChangerAndReshaper: x.cast_domain / x.val.reshape(tgt.shape) ---- *)
Definition spec_reshape (n : nat) : blk := bident n.
(* GeometryRemover(domain, space): "The index of the subdomain on which the operator should act. If
   None, it acts on all spaces."   if space is not None: tgt[space] = UnstructuredDomain(...)
   else: tgt = [UnstructuredDomain(dom.shape) for dom in self._domain]
   which of the nsp sub-domains are unstructured in the target *)
Definition geo_unstructured (nsp : nat) (space : option nat) : list bool :=
  map (fun i => match space with None => true | Some k => Nat.eqb i k end) (seq 0 nsp).

(* ---- ExtractAtIndices(domain, indices, space) ------------------------------------------------------
   "indices=((0,1,1,0), (3,4,1,5)) will extract the pixels (0,3), (1,4), (1,1) and (0,5)"
       res = x[self._inds]     ADJOINT: np.add.at(res, self._inds, x)
   [pix] = list of multi-indices (one per extracted pixel) in sub-domain k. *)
Definition spec_extract (shs : shapes) (k : nat) (pix : list (list nat)) : blk :=
  on_space shs k (bgather (prod (nth k shs [])) (map (ravel (nth k shs [])) pix)).
Definition tgt_extract (shs : shapes) (k : nat) (pix : list (list nat)) : shapes :=
  replace_nth k [length pix] shs.

(* ---- WeightApplier(domain, spaces, power):  x.weight(power, spaces) -------------------------------- *)
Definition spec_weight (shs : shapes) (sel : list bool) (dvols : list T) (power : Z) : blk :=
  let w := fold_right tmul t1 (map (fun '(c, dv) => if (c : bool) then tzpow dv power else t1) (combine sel dvols)) in
  (size shs, size shs, diag (repeat w (size shs))).

(* ---- FFTShiftOperator(domain, spaces):  np.fft.fftshift(x, axes) = roll by n//2 per axis ---------- *)
Definition shift_axis (inverse : bool) (n : nat) : blk :=
  let s := if inverse then n - n / 2 else n / 2 in      (* ifftshift rolls by -(n//2) *)
  bgather n (map (fun o => if Nat.ltb o s then o + n - s else o - s) (seq 0 n)).
Definition spec_fftshift (shs : shapes) (sel : list bool) (inverse : bool) : blk :=
  bkron_list (map (fun '(sh, c) =>
                     if (c : bool) then bkron_list (map (shift_axis inverse) sh) else bident (prod sh))
                  (combine shs sel)).

(* ---- MatrixProductOperator(domain, matrix, spaces, flatten) ----------------------------------------
   "Endomorphic matrix multiplication with input field" / "apply the matrix over a subspace":
   [rows] = the matrix reshaped to (size, size) of the active sub-domains (complex entries);
   active sub-domains are contiguous from k1 (inclusive) to k2 (exclusive). *)
Definition spec_matprod (shs : shapes) (k1 k2 : nat) (rows : list (list (T * T))) : nat * nat * list ctrip :=
  let a := size (firstn k1 shs) in
  let n := size (firstn (k2 - k1) (skipn k1 shs)) in
  let c := size (skipn k2 shs) in
  (size shs, size shs,
   flat_map (fun i1 =>
     flat_map (fun '(o, r) =>
       flat_map (fun '(i, w) => map (fun i3 => ((i1 * n + o) * c + i3, (i1 * n + i) * c + i3, w)) (seq 0 c))
                (combine (seq 0 (length r)) r))
       (combine (seq 0 (length rows)) rows)) (seq 0 a)).

(* ---- RegriddingOperator(domain, new_shape, space) ---------------------------------------------------
   "Linearly interpolates an RGSpace to an RGSpace with coarser resolution."
       xnew = v[..., bindex] * (1.-wgt);  xnew += v[..., bindex+1] * wgt
   [axes] = per axis (n_old, bindex list, frac list); bindex/frac are computed in Exec.v over Q from
       tmp = np.arange(new_shape[d])*(newdist[d]/dom.distances[d]);
       bindex = np.minimum(dom.shape[d]-2, tmp.astype(np.int64));  frac = tmp - bindex *)
Definition regrid_axis (n : nat) (bindex : list nat) (frac : list T) : blk :=
  (length bindex, n,
   flat_map (fun '(o, (b, f)) => [(o, b, tadd t1 (topp f)); (o, S b, f)])
            (combine (seq 0 (length bindex)) (combine bindex frac))).
Definition spec_regrid (shs : shapes) (k : nat) (axes : list (nat * list nat * list T)) : blk :=
  on_space shs k (bkron_list (map (fun '(n, b, f) => regrid_axis n b f) axes)).

(* ---- LinearInterpolator(domain, sampling_points) ----------------------------------------------------
   "Multilinear interpolation for points in an RGSpace" ... "wrapped according to periodic boundary
   conditions".  Per point and axis: lower pixel [p], excess [e] (computed in Exec.v over Q from
   pos = sampling_points/dist; excess = pos - floor(pos); pos = floor(pos)), the row of a point is the
   Kronecker product over the axes of ((1-e) at p mod n, e at (p+1) mod n). *)
Definition interp_axis (n : nat) (p : nat) (e : T) : blk :=
  (1, n, [(0, p mod n, tadd t1 (topp e)); (0, (p + 1) mod n, e)]).
Fixpoint spec_interp_rows (sh : list nat) (pts : list (list (nat * T))) (o : nat) : mat :=
  match pts with
  | [] => []
  | pt :: r =>
      shift_out o (bmat (bkron_list (map (fun '(n, (p, e)) => interp_axis n p e) (combine sh pt))))
      ++ spec_interp_rows sh r (S o)
  end.
Definition spec_interp (sh : list nat) (pts : list (list (nat * T))) : blk :=
  (length pts, prod sh, spec_interp_rows sh pts 0).

(* ---- Realizer / Imaginizer / ConjugationOperator (real-linear; real 2n x 2n form) ------------------ *)
Definition spec_realizer (n : nat) : mat := map (fun j => (2 * j, 2 * j, t1)) (seq 0 n).
Definition spec_imaginizer (n : nat) : mat := map (fun j => (2 * j, 2 * j + 1, t1)) (seq 0 n).
Definition spec_conjugation (n : nat) : mat :=
  flat_map (fun j => [(2 * j, 2 * j, t1); (2 * j + 1, 2 * j + 1, topp t1)]) (seq 0 n).

(* ---- key plumbing on MultiDomains (fields flattened with keys in sorted order):
        FieldAdapter / _SlowFieldAdapter / PartialExtractor / PrependKey / Multifield2Vector:
        a selection of key blocks; [sizes] = block sizes of the domain, [keep] = extracted blocks ---- *)
Fixpoint block_positions (off : nat) (sizes : list nat) (keep : list bool) : list nat :=
  match sizes, keep with
  | s :: sr, b :: br => (if (b : bool) then seq off s else []) ++ block_positions (off + s) sr br
  | _, _ => []
  end.
Definition spec_extract_keys (sizes : list nat) (keep : list bool) : blk :=
  bgather (fold_right Nat.add 0 sizes) (block_positions 0 sizes keep).

(* ================================================================================================ *)
(* utilities._special_add_at(a, axis, index, b)                                                     *)
(* ================================================================================================ *)
(*  sz1 = prod(a.shape[:axis]); sz3 = prod(a.shape[axis+1:])
    a2 = a.reshape([sz1, -1, sz3]); b2 = b.reshape([sz1, -1, sz3])
    for i1 in range(sz1): for i3 in range(sz3):
        a2[i1, :, i3] += np.bincount(index, b2[i1, :, i3], minlength=a2.shape[1])
   Arrays are index functions on flat C-order positions; na = a2.shape[1], nb = len(index) = b2.shape[1]. *)
Fixpoint bincount (index : list nat) (w : nat -> T) (k : nat) (j : nat) : T :=
  (* entry j of np.bincount(index, weights): weights are w k, w (k+1), ... *)
  match index with
  | [] => t0
  | i :: r => if Nat.eqb i j then tadd (w k) (bincount r w (S k) j) else bincount r w (S k) j
  end.

Definition saa_column (na nb sz3 : nat) (index : list nat) (b : vec) (i1 i3 : nat) (a : vec) : vec :=
  fun f => if Nat.eqb (f / (na * sz3)) i1 && Nat.eqb (f mod sz3) i3
           then tadd (a f) (bincount index (fun k => b ((i1 * nb + k) * sz3 + i3)) 0 ((f / sz3) mod na))
           else a f.

Definition special_add_at_real (sz1 na nb sz3 : nat) (index : list nat) (a b : vec) : vec :=
  fold_left (fun acc i1 => fold_left (fun acc' i3 => saa_column na nb sz3 index b i1 i3 acc') (seq 0 sz3) acc)
            (seq 0 sz1) a.

(*  if iscomplextype(a.dtype): a2 = a2.view(dt2); b2 = b2.view(dt2); sz3 *= 2  ...  a2 = a2.view(a.dtype) *)
Definition view_real (a : nat -> T * T) : vec := fun f => if Nat.even f then fst (a (f / 2)) else snd (a (f / 2)).
Definition view_complex (r : vec) : nat -> T * T := fun f => (r (2 * f), r (2 * f + 1)).
Definition special_add_at_complex (sz1 na nb sz3 : nat) (index : list nat) (a b : nat -> T * T) : nat -> T * T :=
  view_complex (special_add_at_real sz1 na nb (2 * sz3) index (view_real a) (view_real b)).

End Ops.
