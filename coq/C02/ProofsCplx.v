(* C02 -- complex weights in the real (re/im interleaved) form: the real matrix [cplx M] acts as
   complex multiplication, and its transpose is the real form of the conjugate transpose, so that
   [adjoint_dot] on real forms is  Re <y, M x> = Re <M^H y, x>. *)
From Coq Require Import List Arith Bool Lia Ring Ring_theory ZArith.
Import ListNotations.
Require Import NV.C02.Model NV.C02.ProofsGen.

Section Ring.
Variable T : Type.
Variables (t0 t1 : T) (tadd tmul : T -> T -> T) (topp : T -> T).
Hypothesis RT : ring_theory t0 t1 tadd tmul (fun a b => tadd a (topp b)) topp eq.
Add Ring TRing4 : RT.

Notation "0" := t0.
Notation "1" := t1.
Infix "+" := tadd.
Infix "*" := tmul.
Notation "- x" := (topp x).

Notation mat := (mat T).
Notation ctrip := (ctrip T).
Notation apply := (apply T t0 tadd tmul).
Notation tr := (tr T).
Notation inb := (inb T).
Notation cplx := (cplx T topp).
Notation conjT := (conjT T topp).
Notation apply_cons := (apply_cons T t0 t1 tadd tmul topp RT).
Notation apply_nil := (apply_nil T t0 tadd tmul).
Notation apply_app := (apply_app T t0 t1 tadd tmul topp RT).

(* complex matrix-vector product, real and imaginary part of row o; the vector is x[2i] + i x[2i+1] *)
Fixpoint capply_re (M : list ctrip) (x : nat -> T) (o : nat) : T :=
  match M with
  | [] => 0
  | (o', i, (a, b)) :: r =>
      (if Nat.eqb o' o then a * x (2 * i)%nat + - (b * x (2 * i + 1)%nat) else 0) + capply_re r x o
  end.
Fixpoint capply_im (M : list ctrip) (x : nat -> T) (o : nat) : T :=
  match M with
  | [] => 0
  | (o', i, (a, b)) :: r =>
      (if Nat.eqb o' o then b * x (2 * i)%nat + a * x (2 * i + 1)%nat else 0) + capply_im r x o
  end.

Lemma eqb_ee a b : Nat.eqb (2 * a) (2 * b) = Nat.eqb a b.
Proof. destruct (Nat.eqb a b) eqn:E; [apply Nat.eqb_eq in E; subst; apply Nat.eqb_refl|apply Nat.eqb_neq in E; apply Nat.eqb_neq; lia]. Qed.
Lemma eqb_oo a b : Nat.eqb (2 * a + 1) (2 * b + 1) = Nat.eqb a b.
Proof. destruct (Nat.eqb a b) eqn:E; [apply Nat.eqb_eq in E; subst; apply Nat.eqb_refl|apply Nat.eqb_neq in E; apply Nat.eqb_neq; lia]. Qed.
Lemma eqb_eo a b : Nat.eqb (2 * a) (2 * b + 1) = false.
Proof. apply Nat.eqb_neq; lia. Qed.
Lemma eqb_oe a b : Nat.eqb (2 * a + 1) (2 * b) = false.
Proof. apply Nat.eqb_neq; lia. Qed.

Lemma cplx_cons o i a b M :
  cplx ((o, i, (a, b)) :: M) =
  [((2 * o)%nat, (2 * i)%nat, a); ((2 * o)%nat, (2 * i + 1)%nat, - b); ((2 * o + 1)%nat, (2 * i)%nat, b); ((2 * o + 1)%nat, (2 * i + 1)%nat, a)] ++ cplx M.
Proof. reflexivity. Qed.

Theorem cplx_apply_re M x o : apply (cplx M) x (2 * o)%nat = capply_re M x o.
Proof.
  induction M as [|[[o' i] [a b]] M IH]; [reflexivity|].
  rewrite cplx_cons. cbn [app]. rewrite !apply_cons, IH, !eqb_ee, !eqb_oe. cbn [capply_re].
  destruct (Nat.eqb o' o); ring.
Qed.

Theorem cplx_apply_im M x o : apply (cplx M) x (2 * o + 1)%nat = capply_im M x o.
Proof.
  induction M as [|[[o' i] [a b]] M IH]; [reflexivity|].
  rewrite cplx_cons. cbn [app]. rewrite !apply_cons, IH, !eqb_oo, !eqb_eo. cbn [capply_im].
  destruct (Nat.eqb o' o); ring.
Qed.

(* the transpose of the real form is the real form of the conjugate transpose *)
Theorem tr_cplx M x o : apply (tr (cplx M)) x o = apply (cplx (conjT M)) x o.
Proof.
  induction M as [|[[o' i] [a b]] M IH]; [reflexivity|].
  rewrite cplx_cons, (tr_app T), apply_app, IH.
  change (conjT ((o', i, (a, b)) :: M)) with ((i, o', (a, - b)) :: conjT M).
  rewrite cplx_cons, apply_app. f_equal.
  cbn [Model.tr map]. rewrite !apply_cons, !apply_nil.
  destruct (Nat.eqb (2 * i) o), (Nat.eqb (2 * i + 1) o); ring.
Qed.

Definition cinb (m n : nat) (M : list ctrip) : bool :=
  forallb (fun t : ctrip => let '(o, i, _) := t in Nat.ltb o m && Nat.ltb i n) M.

Lemma inb_cplx m n M : cinb m n M = true -> inb (2 * m) (2 * n) (cplx M) = true.
Proof.
  induction M as [|[[o i] [a b]] M IH]; intros H; [reflexivity|].
  unfold cinb in H. cbn [forallb] in H. apply andb_true_iff in H. destruct H as (H1 & H2).
  apply andb_true_iff in H1. destruct H1 as (Ho & Hi). apply Nat.ltb_lt in Ho, Hi.
  rewrite cplx_cons. apply (inb_app T). split; [|apply IH; exact H2].
  unfold Model.inb. cbn [forallb]. rewrite !andb_true_iff, !Nat.ltb_lt. repeat split; lia.
Qed.

(* Hermitian adjointness in the real form:  Re <y, M x> = Re <M^H y, x>  (the real dot product of the
   interleaved vectors is the real part of the complex inner product) *)
Theorem hermitian_adjoint m n M x y :
  cinb m n M = true ->
  dot T t0 tadd tmul (2 * m) y (apply (cplx M) x) = dot T t0 tadd tmul (2 * n) (apply (cplx (conjT M)) y) x.
Proof.
  intros H. rewrite (adjoint_dot T t0 t1 tadd tmul topp RT (2 * m) (2 * n)) by (apply inb_cplx; exact H).
  unfold Model.dot. apply (sum_to_ext T t0 tadd). intros k _. rewrite tr_cplx. reflexivity.
Qed.

End Ring.
