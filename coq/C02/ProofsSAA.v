(* C02 -- utilities._special_add_at is scatter-add along one axis: a + G^T b, where G is the gather
   matrix of [index] (the TIMES matrix of DOFDistributor), also through the complex `view` trick. *)
From Coq Require Import List Arith Bool Lia Ring Ring_theory ZArith.
Import ListNotations.
Require Import NV.C02.Model NV.C02.ProofsGen.

Section Ring.
Variable T : Type.
Variables (t0 t1 : T) (tadd tmul : T -> T -> T) (topp : T -> T).
Hypothesis RT : ring_theory t0 t1 tadd tmul (fun a b => tadd a (topp b)) topp eq.
Add Ring TRing5 : RT.

Notation "0" := t0.
Notation "1" := t1.
Infix "+" := tadd.
Infix "*" := tmul.

Notation vec := (vec T).
Notation apply := (apply T t0 tadd tmul).
Notation tr := (tr T).
Notation gather_from := (gather_from T t1).
Notation gather := (gather T t1).
Notation bincount := (bincount T t0 tadd).
Notation saa_column := (saa_column T t0 tadd).
Notation special_add_at_real := (special_add_at_real T t0 tadd).
Notation special_add_at_complex := (special_add_at_complex T t0 tadd).
Notation apply_cons := (apply_cons T t0 t1 tadd tmul topp RT).

(* np.bincount(index, weights) is the adjoint of the gather x[index] *)
Lemma bincount_scatter index w k j : bincount index w k j = apply (tr (gather_from k index)) w j.
Proof.
  revert k. induction index as [|i r IH]; intros k; [reflexivity|].
  cbn [Model.bincount Model.gather_from]. rewrite (tr_cons T), apply_cons, IH.
  destruct (Nat.eqb i j); ring.
Qed.

Lemma bincount_ext index w w' k j : (forall i, w i = w' i) -> bincount index w k j = bincount index w' k j.
Proof.
  intros H. revert k. induction index as [|i r IH]; intros k; [reflexivity|].
  cbn [Model.bincount]. rewrite IH, H. reflexivity.
Qed.

(* a loop of guarded point updates *)
Lemma fold_upd (upd : vec -> nat -> vec) (guard : nat -> bool) (key : nat -> nat) (g : nat -> nat -> T) :
  (forall acc k f, upd acc k f = if guard f && Nat.eqb (key f) k then acc f + g k f else acc f) ->
  forall n s a f,
    fold_left upd (seq s n) a f
    = if guard f && Nat.leb s (key f) && Nat.ltb (key f) (s + n) then a f + g (key f) f else a f.
Proof.
  intros Hupd. induction n as [|n IH]; intros s a f.
  - cbn [seq fold_left]. destruct (guard f); cbn [andb]; [|reflexivity].
    destruct (Nat.leb s (key f)) eqn:E1; cbn [andb]; [|reflexivity].
    destruct (Nat.ltb (key f) (s + 0)) eqn:E2; [|reflexivity].
    apply Nat.leb_le in E1. apply Nat.ltb_lt in E2. lia.
  - cbn [seq fold_left]. rewrite IH, Hupd.
    destruct (guard f); cbn [andb]; [|reflexivity].
    destruct (Nat.eqb (key f) s) eqn:E0; destruct (Nat.leb (S s) (key f)) eqn:E1;
      destruct (Nat.ltb (key f) (S s + n)) eqn:E2; destruct (Nat.leb s (key f)) eqn:E3;
      destruct (Nat.ltb (key f) (s + S n)) eqn:E4; cbn [andb];
      repeat match goal with
             | H : Nat.eqb _ _ = true |- _ => apply Nat.eqb_eq in H
             | H : Nat.eqb _ _ = false |- _ => apply Nat.eqb_neq in H
             | H : Nat.leb _ _ = true |- _ => apply Nat.leb_le in H
             | H : Nat.leb _ _ = false |- _ => apply Nat.leb_gt in H
             | H : Nat.ltb _ _ = true |- _ => apply Nat.ltb_lt in H
             | H : Nat.ltb _ _ = false |- _ => apply Nat.ltb_ge in H
             end; try lia; try reflexivity; try (rewrite E0; reflexivity).
Qed.

Lemma saa_inner na nb sz3 index b i1 a f :
  (0 < sz3)%nat ->
  fold_left (fun acc' i3 => saa_column na nb sz3 index b i1 i3 acc') (seq 0 sz3) a f
  = if Nat.eqb (f / (na * sz3)) i1
    then a f + bincount index (fun k => b ((i1 * nb + k) * sz3 + f mod sz3)%nat) 0%nat ((f / sz3) mod na)
    else a f.
Proof.
  intros Hpos.
  rewrite (fold_upd (fun acc' i3 => saa_column na nb sz3 index b i1 i3 acc')
                    (fun f => Nat.eqb (f / (na * sz3)) i1) (fun f => f mod sz3)
                    (fun i3 f => bincount index (fun k => b ((i1 * nb + k) * sz3 + i3)%nat) 0%nat ((f / sz3) mod na))).
  2:{ intros acc k f'. reflexivity. }
  destruct (Nat.eqb (f / (na * sz3)) i1); cbn [andb]; [|reflexivity].
  assert (H : (f mod sz3 < sz3)%nat) by (apply Nat.mod_upper_bound; lia).
  replace (Nat.leb 0 (f mod sz3)) with true by (symmetry; apply Nat.leb_le; lia).
  replace (Nat.ltb (f mod sz3) (0 + sz3)) with true by (symmetry; apply Nat.ltb_lt; lia).
  reflexivity.
Qed.

Lemma saa_outer sz1 na nb sz3 index a b f :
  (0 < sz3)%nat ->
  special_add_at_real sz1 na nb sz3 index a b f
  = if Nat.ltb (f / (na * sz3)) sz1
    then a f + bincount index (fun k => b ((f / (na * sz3) * nb + k) * sz3 + f mod sz3)%nat) 0%nat ((f / sz3) mod na)
    else a f.
Proof.
  intros Hpos. unfold Model.special_add_at_real.
  rewrite (fold_upd _ (fun _ => true) (fun f => f / (na * sz3))%nat
                    (fun i1 f => bincount index (fun k => b ((i1 * nb + k) * sz3 + f mod sz3)%nat) 0%nat ((f / sz3) mod na))).
  2:{ intros acc k f'. rewrite saa_inner by assumption. reflexivity. }
  cbn [andb Nat.leb Nat.add]. reflexivity.
Qed.

Lemma flat3 i1 j i3 na sz3 :
  (j < na)%nat -> (i3 < sz3)%nat ->
  let f := ((i1 * na + j) * sz3 + i3)%nat in
  (f / (na * sz3) = i1 /\ f mod sz3 = i3 /\ (f / sz3) mod na = j)%nat.
Proof.
  intros Hj H3 f. subst f.
  assert (E1 : (((i1 * na + j) * sz3 + i3) / sz3 = i1 * na + j)%nat).
  { symmetry. apply (Nat.div_unique _ _ _ i3); [assumption|lia]. }
  repeat split.
  - symmetry. apply (Nat.div_unique _ _ _ (j * sz3 + i3)%nat); [nia|lia].
  - symmetry. apply (Nat.mod_unique _ _ (i1 * na + j)%nat); [assumption|lia].
  - rewrite E1. symmetry. apply (Nat.mod_unique _ _ i1); [assumption|lia].
Qed.

(* special_add_at(a, axis, index, b)[i1, j, i3] = a[i1, j, i3] + sum_{k : index[k] = j} b[i1, k, i3] *)
Theorem special_add_at_scatter sz1 na nb sz3 index a b i1 j i3 :
  (i1 < sz1)%nat -> (j < na)%nat -> (i3 < sz3)%nat ->
  special_add_at_real sz1 na nb sz3 index a b ((i1 * na + j) * sz3 + i3)%nat
  = a ((i1 * na + j) * sz3 + i3)%nat + apply (tr (gather index)) (fun k => b ((i1 * nb + k) * sz3 + i3)%nat) j.
Proof.
  intros H1 Hj H3. rewrite saa_outer by lia.
  destruct (flat3 i1 j i3 na sz3 Hj H3) as (E1 & E2 & E3). rewrite E1, E2, E3.
  replace (Nat.ltb i1 sz1) with true by (symmetry; apply Nat.ltb_lt; assumption).
  rewrite bincount_scatter. reflexivity.
Qed.

(* positions outside the array are untouched *)
Theorem special_add_at_outside sz1 na nb sz3 index a b f :
  (0 < na)%nat -> (0 < sz3)%nat -> (sz1 * na * sz3 <= f)%nat -> special_add_at_real sz1 na nb sz3 index a b f = a f.
Proof.
  intros Hna Hpos Hf. rewrite saa_outer by assumption.
  destruct (Nat.ltb (f / (na * sz3)) sz1) eqn:E; [|reflexivity].
  apply Nat.ltb_lt in E. exfalso.
  assert (Hnz : (na * sz3 <> 0)%nat) by nia.
  pose proof (Nat.div_mod f (na * sz3) Hnz). pose proof (Nat.mod_upper_bound f (na * sz3) Hnz). nia.
Qed.

(* the complex case: `a2.view(real)`, sz3 doubled, and back *)
Lemma view_even (z : nat -> (T * T)%type) (k : nat) : view_real T z (2 * k)%nat = fst (z k).
Proof.
  unfold Model.view_real. rewrite Nat.even_mul. cbn [Nat.even orb].
  replace (2 * k / 2)%nat with k by (symmetry; rewrite Nat.mul_comm; apply Nat.div_mul; lia). reflexivity.
Qed.
Lemma view_odd (z : nat -> (T * T)%type) (k : nat) : view_real T z (2 * k + 1)%nat = snd (z k).
Proof.
  unfold Model.view_real. replace (2 * k + 1)%nat with (1 + 2 * k)%nat at 1 by lia. rewrite Nat.even_add_mul_2. cbn [Nat.even].
  replace ((2 * k + 1) / 2)%nat with k by (apply (Nat.div_unique _ _ _ 1%nat); lia). reflexivity.
Qed.

Theorem special_add_at_complex_scatter sz1 na nb sz3 index (a b : nat -> (T * T)%type) i1 j i3 :
  (i1 < sz1)%nat -> (j < na)%nat -> (i3 < sz3)%nat ->
  let f := ((i1 * na + j) * sz3 + i3)%nat in
  special_add_at_complex sz1 na nb sz3 index a b f
  = (fst (a f) + apply (tr (gather index)) (fun k => fst (b ((i1 * nb + k) * sz3 + i3)%nat)) j,
     snd (a f) + apply (tr (gather index)) (fun k => snd (b ((i1 * nb + k) * sz3 + i3)%nat)) j).
Proof.
  intros H1 Hj H3 f. subst f. unfold Model.special_add_at_complex, Model.view_complex. f_equal.
  - replace (2 * ((i1 * na + j) * sz3 + i3))%nat with ((i1 * na + j) * (2 * sz3) + 2 * i3)%nat by lia.
    rewrite special_add_at_scatter by lia.
    replace ((i1 * na + j) * (2 * sz3) + 2 * i3)%nat with (2 * ((i1 * na + j) * sz3 + i3))%nat by lia.
    rewrite view_even. f_equal. apply (apply_ext T t0 t1 tadd tmul topp RT). intros k.
    replace ((i1 * nb + k) * (2 * sz3) + 2 * i3)%nat with (2 * ((i1 * nb + k) * sz3 + i3))%nat by lia.
    apply view_even.
  - replace (2 * ((i1 * na + j) * sz3 + i3) + 1)%nat with ((i1 * na + j) * (2 * sz3) + (2 * i3 + 1))%nat by lia.
    rewrite special_add_at_scatter by lia.
    replace ((i1 * na + j) * (2 * sz3) + (2 * i3 + 1))%nat with (2 * ((i1 * na + j) * sz3 + i3) + 1)%nat by lia.
    rewrite view_odd. f_equal. apply (apply_ext T t0 t1 tadd tmul topp RT). intros k.
    replace ((i1 * nb + k) * (2 * sz3) + (2 * i3 + 1))%nat with (2 * ((i1 * nb + k) * sz3 + i3) + 1)%nat by lia.
    apply view_odd.
Qed.

End Ring.
