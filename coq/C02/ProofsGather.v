(* C02 -- gather matrices (out[k] = in[idx[k]]), their adjoint (scatter-add), selections and
   permutations, and the Kronecker product of gathers. *)
From Coq Require Import List Arith Bool Lia Ring Ring_theory ZArith.
Import ListNotations.
Require Import NV.C02.Model NV.C02.ProofsGen.

Section Ring.
Variable T : Type.
Variables (t0 t1 : T) (tadd tmul : T -> T -> T) (topp : T -> T).
Hypothesis RT : ring_theory t0 t1 tadd tmul (fun a b => tadd a (topp b)) topp eq.
Add Ring TRing2 : RT.

Notation "0" := t0.
Notation "1" := t1.
Infix "+" := tadd.
Infix "*" := tmul.

Notation trip := (trip T).
Notation mat := (mat T).
Notation vec := (vec T).
Notation apply := (apply T t0 tadd tmul).
Notation tr := (tr T).
Notation inb := (inb T).
Notation gather_from := (gather_from T t1).
Notation gather := (gather T t1).
Notation ident := (ident T t1).
Notation kron := (kron T tmul).
Notation apply_cons := (apply_cons T t0 t1 tadd tmul topp RT).
Notation apply_nil := (apply_nil T t0 tadd tmul).
Notation apply_app := (apply_app T t0 t1 tadd tmul topp RT).
Notation inb_cons := (inb_cons T).
Notation inb_app := (inb_app T).

(* weighted gather: the same index pattern with a common weight *)
Fixpoint wgather_from (w : T) (k : nat) (idx : list nat) : mat :=
  match idx with
  | [] => []
  | i :: t => (k, i, w) :: wgather_from w (S k) t
  end.

Lemma gather_from_w k idx : gather_from k idx = wgather_from 1 k idx.
Proof. revert k. induction idx as [|i t IH]; intros k; [reflexivity|]. cbn. rewrite IH. reflexivity. Qed.

Lemma wgather_from_app w k a b :
  wgather_from w k (a ++ b) = wgather_from w k a ++ wgather_from w (k + length a)%nat b.
Proof.
  revert k. induction a as [|i t IH]; intros k; cbn [app wgather_from length].
  - rewrite Nat.add_0_r. reflexivity.
  - rewrite IH. replace (S k + length t)%nat with (k + S (length t))%nat by lia. reflexivity.
Qed.

(* ---- gather: TIMES is x[idx] ---- *)
Lemma apply_wgather_low w s idx x o : (o < s)%nat -> apply (wgather_from w s idx) x o = 0.
Proof.
  revert s. induction idx as [|i t IH]; intros s H; [reflexivity|].
  cbn [wgather_from]. rewrite apply_cons, IH by lia.
  destruct (Nat.eqb s o) eqn:E; [apply Nat.eqb_eq in E; lia|ring].
Qed.

Lemma apply_wgather w s idx x k :
  apply (wgather_from w s idx) x (s + k)%nat = if Nat.ltb k (length idx) then w * x (nth k idx 0%nat) else 0.
Proof.
  revert s k. induction idx as [|i t IH]; intros s k.
  - cbn [length]. destruct (Nat.ltb k 0) eqn:E; [apply Nat.ltb_lt in E; lia|reflexivity].
  - cbn [wgather_from]. rewrite apply_cons. destruct k as [|k'].
    + rewrite Nat.add_0_r, Nat.eqb_refl, apply_wgather_low by lia. cbn. ring.
    + replace (s + S k')%nat with (S s + k')%nat by lia. rewrite IH.
      destruct (Nat.eqb s (S s + k')) eqn:E; [apply Nat.eqb_eq in E; lia|].
      cbn [length nth]. change (Nat.ltb (S k') (S (length t))) with (Nat.ltb k' (length t)).
      destruct (Nat.ltb k' (length t)); ring.
Qed.

Theorem apply_gather idx x o :
  (o < length idx)%nat -> apply (gather idx) x o = x (nth o idx 0%nat).
Proof.
  intros H. unfold Model.gather. rewrite gather_from_w.
  change o with (0 + o)%nat at 1. rewrite apply_wgather.
  apply Nat.ltb_lt in H. rewrite H. ring.
Qed.

Lemma inb_wgather w s idx m n :
  (s + length idx <= m)%nat -> Forall (fun i => i < n)%nat idx -> inb m n (wgather_from w s idx) = true.
Proof.
  revert s. induction idx as [|i t IH]; intros s Hm Hn; [reflexivity|].
  cbn [wgather_from]. apply inb_cons. inversion Hn; subst. cbn [length] in Hm.
  repeat split; [lia|assumption|]. apply IH; [lia|assumption].
Qed.

Lemma inb_gather idx n : Forall (fun i => i < n)%nat idx -> inb (length idx) n (gather idx) = true.
Proof. intros H. unfold Model.gather. rewrite gather_from_w. apply inb_wgather; [lia|assumption]. Qed.

(* ---- adjoint of a gather: scatter-add ---- *)
Lemma apply_tr_wgather_notin w s idx y i : ~ In i idx -> apply (tr (wgather_from w s idx)) y i = 0.
Proof.
  revert s. induction idx as [|j t IH]; intros s H; [reflexivity|].
  cbn [wgather_from]. rewrite (tr_cons T), apply_cons, IH by (intros ?; apply H; right; assumption).
  destruct (Nat.eqb j i) eqn:E; [apply Nat.eqb_eq in E; subst; exfalso; apply H; left; reflexivity|ring].
Qed.

Lemma apply_tr_wgather_nodup w s idx y k :
  NoDup idx -> (k < length idx)%nat -> apply (tr (wgather_from w s idx)) y (nth k idx 0%nat) = w * y (s + k)%nat.
Proof.
  revert s k. induction idx as [|j t IH]; intros s k Hnd Hk; [cbn in Hk; lia|].
  inversion Hnd as [|? ? Hnotin Hnd']; subst.
  cbn [wgather_from]. rewrite (tr_cons T), apply_cons. destruct k as [|k'].
  - cbn [nth]. rewrite Nat.eqb_refl, apply_tr_wgather_notin by assumption. rewrite Nat.add_0_r. ring.
  - cbn [nth]. cbn [length] in Hk.
    assert (Hin : In (nth k' t 0%nat) t) by (apply nth_In; lia).
    destruct (Nat.eqb j (nth k' t 0%nat)) eqn:E.
    + apply Nat.eqb_eq in E. subst. contradiction.
    + rewrite IH by (assumption || lia). replace (S s + k')%nat with (s + S k')%nat by lia. ring.
Qed.

(* a selection (distinct indices): the adjoint is a right inverse,  G G^T = I *)
Theorem gather_sel idx y o :
  NoDup idx -> (o < length idx)%nat -> apply (gather idx) (apply (tr (gather idx)) y) o = y o.
Proof.
  intros Hnd Ho. rewrite apply_gather by assumption.
  unfold Model.gather. rewrite gather_from_w, apply_tr_wgather_nodup by assumption.
  cbn. ring.
Qed.

(* a permutation: the adjoint is also a left inverse,  G^T G = I  (so inverse = adjoint) *)
Lemma perm_covers n idx :
  NoDup idx -> length idx = n -> Forall (fun i => i < n)%nat idx -> forall i, (i < n)%nat -> In i idx.
Proof.
  intros Hnd Hlen Hb i Hi.
  assert (Hincl : incl idx (seq 0 n)).
  { intros j Hj. apply in_seq. rewrite Forall_forall in Hb. specialize (Hb j Hj). lia. }
  assert (H2 : incl (seq 0 n) idx).
  { apply NoDup_length_incl; [assumption| rewrite seq_length; lia | assumption]. }
  apply H2, in_seq. lia.
Qed.

Theorem gather_perm n idx x i :
  NoDup idx -> length idx = n -> Forall (fun i => i < n)%nat idx -> (i < n)%nat ->
  apply (tr (gather idx)) (apply (gather idx) x) i = x i.
Proof.
  intros Hnd Hlen Hb Hi.
  destruct (In_nth idx i 0%nat (perm_covers n idx Hnd Hlen Hb i Hi)) as (k & Hk & Hnth).
  rewrite <- Hnth at 1. unfold Model.gather at 1. rewrite gather_from_w, apply_tr_wgather_nodup by assumption.
  cbn [Nat.add]. rewrite apply_gather by assumption. rewrite Hnth. ring.
Qed.

(* ---- Kronecker product of gathers is the gather of the combined index list ---- *)
Definition ikron (nB : nat) (a b : list nat) : list nat :=
  flat_map (fun ia => map (fun ib => ia * nB + ib)%nat b) a.

Lemma kron_inner w1 w2 oa ia mB nB s b :
  map (fun tb : trip => let '(ob, ib, wb) := tb in ((oa * mB + ob)%nat, (ia * nB + ib)%nat, w1 * wb)) (wgather_from w2 s b)
  = wgather_from (w1 * w2) (oa * mB + s)%nat (map (fun ib => ia * nB + ib)%nat b).
Proof.
  revert s. induction b as [|ib t IH]; intros s; [reflexivity|].
  cbn [wgather_from map]. rewrite IH. rewrite Nat.add_succ_r. reflexivity.
Qed.

Lemma kron_wgather w1 w2 nB sa a b :
  kron (length b) nB (wgather_from w1 sa a) (wgather_from w2 0 b)
  = wgather_from (w1 * w2) (sa * length b)%nat (ikron nB a b).
Proof.
  revert sa. induction a as [|ia ta IH]; intros sa; [reflexivity|].
  unfold Model.kron in *. cbn [wgather_from flat_map ikron].
  rewrite kron_inner, IH, wgather_from_app, map_length, Nat.add_0_r.
  replace (S sa * length b)%nat with (sa * length b + length b)%nat by lia. reflexivity.
Qed.

Lemma ikron_length nB a b : length (ikron nB a b) = (length a * length b)%nat.
Proof.
  unfold ikron. induction a as [|ia ta IH]; [reflexivity|].
  cbn [flat_map length]. rewrite app_length, map_length, IH. lia.
Qed.

Theorem kron_gather nB a b :
  kron (length b) nB (gather a) (gather b) = gather (ikron nB a b).
Proof.
  unfold Model.gather. rewrite !gather_from_w, kron_wgather. cbn [Nat.mul].
  replace (1 * 1) with 1 by ring. reflexivity.
Qed.

Lemma ikron_bound nA nB a b :
  Forall (fun i => i < nA)%nat a -> Forall (fun i => i < nB)%nat b -> Forall (fun i => i < nA * nB)%nat (ikron nB a b).
Proof.
  intros Ha Hb. unfold ikron. apply Forall_forall. intros x Hx.
  apply in_flat_map in Hx. destruct Hx as (ia & Hia & Hx). apply in_map_iff in Hx. destruct Hx as (ib & <- & Hib).
  rewrite Forall_forall in Ha, Hb. specialize (Ha ia Hia). specialize (Hb ib Hib). nia.
Qed.

Lemma NoDup_app' {A} (l l' : list A) :
  NoDup l -> NoDup l' -> (forall a, In a l -> ~ In a l') -> NoDup (l ++ l').
Proof.
  induction l as [|x t IH]; intros H1 H2 H3; [assumption|].
  inversion H1; subst. cbn [app]. constructor.
  - intros Hin. apply in_app_or in Hin. destruct Hin as [Hin|Hin]; [contradiction|].
    apply (H3 x); [left; reflexivity|assumption].
  - apply IH; [assumption|assumption|]. intros a Ha. apply H3. right. assumption.
Qed.

Lemma NoDup_map_inj {A B} (f : A -> B) (l : list A) :
  (forall x y, In x l -> In y l -> f x = f y -> x = y) -> NoDup l -> NoDup (map f l).
Proof.
  induction l as [|x t IH]; intros Hinj Hnd; [constructor|].
  inversion Hnd; subst. cbn [map]. constructor.
  - intros Hin. apply in_map_iff in Hin. destruct Hin as (y & Hy & Hyin).
    assert (y = x) by (apply Hinj; [right; assumption|left; reflexivity|assumption]). subst. contradiction.
  - apply IH; [|assumption]. intros a b Ha Hb. apply Hinj; right; assumption.
Qed.

Lemma ikron_nodup nB a b :
  NoDup a -> NoDup b -> Forall (fun i => i < nB)%nat b -> NoDup (ikron nB a b).
Proof.
  intros Ha Hb Hbd. unfold ikron. induction a as [|ia ta IH]; [constructor|].
  inversion Ha as [|? ? Hnotin Ha']; subst. cbn [flat_map]. apply NoDup_app'.
  - apply NoDup_map_inj; [|assumption]. intros x y _ _ H. lia.
  - apply IH. assumption.
  - intros v Hv Hv'. apply in_map_iff in Hv. destruct Hv as (ib & <- & Hib).
    apply in_flat_map in Hv'. destruct Hv' as (ia' & Hia' & Hv'). apply in_map_iff in Hv'.
    destruct Hv' as (ib' & Heq & Hib'). rewrite Forall_forall in Hbd.
    pose proof (Hbd ib Hib). pose proof (Hbd ib' Hib').
    assert (ia' = ia) by nia. subst. contradiction.
Qed.

End Ring.
