(* C02 -- every spec is in-bounds for its declared dimensions (hence [adjoint_dot] applies to it for
   all admissible parameters); central zero padding on one axis; real-linear operators. *)
From Coq Require Import List Arith Bool Lia Ring Ring_theory ZArith.
Import ListNotations.
Require Import NV.C02.Model NV.C02.ProofsGen NV.C02.ProofsGather NV.C02.ProofsKron NV.C02.ProofsBlk NV.C02.ProofsCls.

Section Ring.
Variable T : Type.
Variables (t0 t1 : T) (tadd tmul : T -> T -> T) (topp tinv : T -> T).
Hypothesis RT : ring_theory t0 t1 tadd tmul (fun a b => tadd a (topp b)) topp eq.
Add Ring TRing8 : RT.

Notation "0" := t0.
Notation "1" := t1.
Infix "+" := tadd.
Infix "*" := tmul.

Notation apply := (apply T t0 tadd tmul).
Notation tr := (tr T).
Notation inb := (inb T).
Notation gather := (gather T t1).
Notation bgather := (bgather T t1).
Notation bident := (bident T t1).
Notation bkron_list := (bkron_list T t1 tmul).
Notation on_space := (on_space T t1 tmul).
Notation bm := (bm T).
Notation bn := (bn T).
Notation bmat := (bmat T).
Notation binb := (binb T).
Notation apply_cons := (apply_cons T t0 t1 tadd tmul topp RT).
Notation apply_nil := (apply_nil T t0 tadd tmul).
Notation apply_app := (apply_app T t0 t1 tadd tmul topp RT).
Notation binb_bkron_list := (binb_bkron_list T t1 tmul).
Notation binb_on_space := (binb_on_space T t1 tmul).
Notation binb_bident := (binb_bident T t1).

Lemma binb_bgather n idx : Forall (fun i => i < n)%nat idx -> binb (bgather n idx).
Proof. intros H. apply (binb_bg T t1 (n, idx)). exact H. Qed.

Theorem contraction_inb shs sel dvols power : binb (spec_contraction T t1 tmul tinv shs sel dvols power).
Proof.
  unfold Model.spec_contraction. apply binb_bkron_list. apply Forall_forall. intros b Hb.
  apply in_map_iff in Hb. destruct Hb as ([sh [c dv]] & <- & _). destruct c; [|apply binb_bident].
  unfold ProofsBlk.binb, Model.bm, Model.bn, Model.bmat, Model.row. cbn [fst snd].
  pose proof (inb_row_from T 0 (repeat (tzpow T t1 tmul tinv dv power) (prod sh))) as Hr.
  rewrite repeat_length in Hr. exact Hr.
Qed.

Theorem dofdist_inb tshs k dofdex : binb (spec_dofdist T t1 tmul tshs k dofdex).
Proof. unfold Model.spec_dofdist. apply binb_on_space, binb_bgather, list_max_bound. Qed.

Theorem extract_inb shs k pix :
  Forall (fun p => Forall2 lt p (nth k shs [])) pix -> binb (spec_extract T t1 tmul shs k pix).
Proof.
  intros Hp. unfold Model.spec_extract. apply binb_on_space, binb_bgather. apply Forall_forall. intros r Hr.
  apply in_map_iff in Hr. destruct Hr as (p & <- & Hin). apply ravel_bound. rewrite Forall_forall in Hp. apply Hp. exact Hin.
Qed.

Lemma inb_mono a b a' b' M : (a <= a')%nat -> (b <= b')%nat -> inb a b M = true -> inb a' b' M = true.
Proof.
  intros Ha Hb. unfold Model.inb. rewrite !forallb_forall. intros HM [[o i] w] Hin. specialize (HM _ Hin).
  cbv beta iota in HM |- *. apply andb_true_iff in HM. destruct HM as (H1 & H2). apply Nat.ltb_lt in H1, H2.
  apply andb_true_iff. split; apply Nat.ltb_lt; lia.
Qed.

Lemma pad_axis_inb central n m : (0 < n <= m)%nat -> binb (pad_axis T t1 central n m).
Proof.
  intros H. unfold Model.pad_axis. destruct (Nat.eqb n m) eqn:E; [apply binb_bident|]. apply Nat.eqb_neq in E.
  assert (Hh : (n / 2 < n)%nat) by (apply Nat.div_lt; lia).
  destruct central.
  - unfold ProofsBlk.binb, Model.bm, Model.bn, Model.bmat. cbn [fst snd]. apply (inb_app T). split.
    + apply (inb_mono n (S (n / 2))); [lia|lia|]. apply (inb_tr T).
      pose proof (inb_gather T t1 (seq 0 (S (n / 2))) n) as Hg. rewrite seq_length in Hg.
      apply Hg. apply Forall_forall. intros i Hi. apply in_seq in Hi. lia.
    + unfold Model.inb. apply forallb_forall. intros [[o i] w] Hin. apply in_map_iff in Hin.
      destruct Hin as (j & Heq & Hj). inversion Heq; subst. apply in_seq in Hj.
      apply andb_true_iff. split; apply Nat.ltb_lt; lia.
  - unfold ProofsBlk.binb, Model.bm, Model.bn, Model.bmat. cbn [fst snd]. apply (inb_tr T).
    pose proof (inb_gather T t1 (seq 0 n) m) as Hg. rewrite seq_length in Hg. apply Hg.
    apply Forall_forall. intros i Hi. apply in_seq in Hi. lia.
Qed.

Theorem padder_inb shs k new central :
  Forall2 (fun n m => 0 < n <= m)%nat (nth k shs []) new -> binb (spec_padder T t1 tmul shs k new central).
Proof.
  intros H. unfold Model.spec_padder. apply binb_on_space, binb_bkron_list. apply Forall_forall. intros b Hb.
  apply in_map_iff in Hb. destruct Hb as ([n m] & <- & Hin). apply pad_axis_inb.
  revert Hin. induction H as [|a c la lb Hab H IH]; cbn [combine In]; [intros []|].
  intros [Heq|Hin]; [inversion Heq; subst; assumption|apply IH; assumption].
Qed.

(* central zero padding on one axis ("padding in the middle"): the first n//2+1 entries stay, the last
   n//2 entries move to the end, zeros in between; for even n the Nyquist entry n//2 appears twice
   (documented: "should in principle be split up; this is currently not done") *)
Theorem pad_axis_central_times n m x o :
  (0 < n < m)%nat -> (o < m)%nat ->
  apply (bmat (pad_axis T t1 true n m)) x o
  = if Nat.leb o (n / 2) then x o else if Nat.leb (m - n / 2) o then x (o - (m - n))%nat else 0.
Proof.
  intros Hn Ho. unfold Model.pad_axis.
  replace (Nat.eqb n m) with false by (symmetry; apply Nat.eqb_neq; lia).
  unfold Model.bmat. cbn [snd]. rewrite apply_app.
  assert (Hh : (n / 2 < n)%nat) by (apply Nat.div_lt; lia).
  (* first part: (j, j) for j <= n/2 *)
  assert (P1 : forall len s, apply (tr (gather_from T t1 s (seq s len))) x o = if Nat.leb s o && Nat.ltb o (s + len) then x o else 0).
  { induction len as [|len IH]; intros s.
    - cbn [seq Model.gather_from Model.tr map]. rewrite apply_nil.
      destruct (Nat.leb s o) eqn:E1; destruct (Nat.ltb o (s + 0)) eqn:E2; cbn [andb]; try reflexivity. b2p. lia.
    - cbn [seq Model.gather_from]. rewrite (tr_cons T), apply_cons, IH.
      destruct (Nat.eqb s o) eqn:E0; destruct (Nat.leb (S s) o) eqn:E1; destruct (Nat.leb s o) eqn:E2;
        destruct (Nat.ltb o (S s + len)) eqn:E3; destruct (Nat.ltb o (s + S len)) eqn:E4; cbn [andb]; b2p; try lia; subst; ring. }
  (* second part: (m - j, n - j) for j = 1 .. n/2 *)
  assert (P2 : forall len s, (s + len <= n)%nat ->
            apply (map (fun j => ((m - j)%nat, (n - j)%nat, 1)) (seq s len)) x o
            = if Nat.ltb (m - (s + len)) o && Nat.leb o (m - s) && Nat.ltb 0 len then x (o - (m - n))%nat else 0).
  { induction len as [|len IH]; intros s Hs.
    - cbn [seq map]. rewrite apply_nil. rewrite andb_false_r. reflexivity.
    - cbn [seq map]. rewrite apply_cons, IH by lia.
      destruct (Nat.eqb (m - s) o) eqn:E0; destruct (Nat.ltb (m - (S s + len)) o) eqn:E1; destruct (Nat.leb o (m - S s)) eqn:E2;
        destruct (Nat.ltb (m - (s + S len)) o) eqn:E3; destruct (Nat.leb o (m - s)) eqn:E4; destruct (Nat.ltb 0 len) eqn:E5;
        cbn [andb Nat.ltb Nat.leb]; b2p; try lia; subst; try ring.
      + replace (m - s - (m - n))%nat with (n - s)%nat by lia. ring.
      + replace (m - s - (m - n))%nat with (n - s)%nat by lia. ring. }
  unfold Model.gather. rewrite P1, P2 by lia. cbn [Nat.leb andb Nat.add].
  pose proof (Nat.div_mod n 2 ltac:(lia)) as Hdm. pose proof (Nat.mod_upper_bound n 2 ltac:(lia)) as Hmu.
  destruct (Nat.ltb o (S (n / 2))) eqn:E1; destruct (Nat.leb o (n / 2)) eqn:E2; destruct (Nat.ltb (m - S (n / 2)) o) eqn:E3;
    destruct (Nat.leb o (m - 1)) eqn:E4; destruct (Nat.ltb 0 (n / 2)) eqn:E5; destruct (Nat.leb (m - n / 2) o) eqn:E6;
    cbn [andb]; b2p; try lia; ring.
Qed.

(* ---- real-linear operators in the real 2n x 2n form ---- *)
Theorem realizer_times n x j :
  (j < n)%nat ->
  apply (spec_realizer T t1 n) x (2 * j)%nat = x (2 * j)%nat /\ apply (spec_realizer T t1 n) x (2 * j + 1)%nat = 0.
Proof.
  intros Hj. unfold Model.spec_realizer.
  assert (G : forall len s o, apply (map (fun j0 => ((2 * j0)%nat, (2 * j0)%nat, 1)) (seq s len)) x o
              = if Nat.even o && Nat.leb (2 * s) o && Nat.ltb o (2 * (s + len)) then x o else 0).
  { induction len as [|len IH]; intros s o.
    - cbn [seq map]. rewrite apply_nil. destruct (Nat.even o); cbn [andb]; [|reflexivity].
      destruct (Nat.leb (2 * s) o) eqn:E1; destruct (Nat.ltb o (2 * (s + 0))) eqn:E2; cbn [andb]; try reflexivity. b2p. lia.
    - cbn [seq map]. rewrite apply_cons, IH.
      destruct (Nat.even o) eqn:Ev; cbn [andb].
      + destruct (Nat.eqb (2 * s) o) eqn:E0; destruct (Nat.leb (2 * S s) o) eqn:E1; destruct (Nat.ltb o (2 * (S s + len))) eqn:E2;
          destruct (Nat.leb (2 * s) o) eqn:E3; destruct (Nat.ltb o (2 * (s + S len))) eqn:E4; cbn [andb]; b2p; try lia; subst; try ring.
        apply Nat.even_spec in Ev. destruct Ev as (q & ->). lia.
      + destruct (Nat.eqb (2 * s) o) eqn:E0; [|ring]. b2p. subst. rewrite Nat.even_mul in Ev. discriminate. }
  rewrite !G. cbn [Nat.add]. rewrite Nat.even_mul. cbn [Nat.even orb andb].
  replace (2 * j + 1)%nat with (1 + 2 * j)%nat by lia. rewrite Nat.even_add_mul_2. cbn [Nat.even andb].
  replace (Nat.leb (2 * 0) (2 * j)) with true by (symmetry; apply Nat.leb_le; lia).
  replace (Nat.ltb (2 * j) (2 * n)) with true by (symmetry; apply Nat.ltb_lt; lia).
  split; reflexivity.
Qed.

End Ring.
