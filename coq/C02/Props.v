(* C02 -- property theorems (statements only; proofs are in Proofs*.v).
   [cring]: the scalars form a commutative ring with Leibniz equality (Z, Qc, R, ...).
   All matrices are sparse triplet lists (out_index, in_index, weight) on C-order flattened fields. *)
From Coq Require Import List Arith Bool ZArith QArith Qcanon Ring_theory.
Import ListNotations.
Require Import NV.C02.Model NV.C02.Exec NV.C02.ProofsGen NV.C02.ProofsGather NV.C02.ProofsKron NV.C02.ProofsBlk
               NV.C02.ProofsCplx NV.C02.ProofsSAA NV.C02.ProofsCls NV.C02.ProofsCls2 NV.C02.ProofsSplit NV.C02.ProofsTr NV.C02.ProofsND.
Local Open Scope nat_scope.

Definition cring (T : Type) (t0 t1 : T) (tadd tmul : T -> T -> T) (topp : T -> T) : Prop :=
  ring_theory t0 t1 tadd tmul (fun a b => tadd a (topp b)) topp eq.

(* ---------------- generic: any triplet matrix ---------------- *)
Theorem C02_triplet_linear :
  forall T t0 t1 tadd tmul topp, cring T t0 t1 tadd tmul topp ->
  forall (M : mat T) a b x y o,
    apply T t0 tadd tmul M (fun i => tadd (tmul a (x i)) (tmul b (y i))) o
    = tadd (tmul a (apply T t0 tadd tmul M x o)) (tmul b (apply T t0 tadd tmul M y o)).
Proof. exact apply_linear. Qed.

Theorem C02_triplet_adjoint :
  forall T t0 t1 tadd tmul topp, cring T t0 t1 tadd tmul topp ->
  forall m n (M : mat T) x y, inb T m n M = true ->
    dot T t0 tadd tmul m y (apply T t0 tadd tmul M x) = dot T t0 tadd tmul n (apply T t0 tadd tmul (tr T M) y) x.
Proof. exact adjoint_dot. Qed.

(* complex weights in the real (re/im interleaved) form: Re<y, M x> = Re<M^H y, x>, and the real
   form acts as complex multiplication *)
Theorem C02_hermitian_adjoint :
  forall T t0 t1 tadd tmul topp, cring T t0 t1 tadd tmul topp ->
  forall m n (M : list (ctrip T)) x y, cinb T m n M = true ->
    dot T t0 tadd tmul (2 * m) y (apply T t0 tadd tmul (cplx T topp M) x)
    = dot T t0 tadd tmul (2 * n) (apply T t0 tadd tmul (cplx T topp (conjT T topp M)) y) x.
Proof. exact hermitian_adjoint. Qed.

Theorem C02_complex_form_is_complex_multiplication :
  forall T t0 t1 tadd tmul topp, cring T t0 t1 tadd tmul topp ->
  forall (M : list (ctrip T)) x o,
    apply T t0 tadd tmul (cplx T topp M) x (2 * o) = capply_re T t0 tadd tmul topp M x o /\
    apply T t0 tadd tmul (cplx T topp M) x (2 * o + 1) = capply_im T t0 tadd tmul M x o.
Proof. intros T t0 t1 tadd tmul topp RT M x o. split; [exact (cplx_apply_re T t0 t1 tadd tmul topp RT M x o)|exact (cplx_apply_im T t0 t1 tadd tmul topp RT M x o)]. Qed.

(* ---------------- gathers, selections, permutations ---------------- *)
Theorem C02_gather_times :
  forall T t0 t1 tadd tmul topp, cring T t0 t1 tadd tmul topp ->
  forall idx x o, o < length idx -> apply T t0 tadd tmul (gather T t1 idx) x o = x (nth o idx 0).
Proof. exact apply_gather. Qed.

Theorem C02_selection_adjoint_is_right_inverse :
  forall T t0 t1 tadd tmul topp, cring T t0 t1 tadd tmul topp ->
  forall idx y o, NoDup idx -> o < length idx ->
    apply T t0 tadd tmul (gather T t1 idx) (apply T t0 tadd tmul (tr T (gather T t1 idx)) y) o = y o.
Proof. exact gather_sel. Qed.

Theorem C02_permutation_adjoint_is_inverse :
  forall T t0 t1 tadd tmul topp, cring T t0 t1 tadd tmul topp ->
  forall (b : iblk) x i, iperm b -> i < fst b ->
    apply T t0 tadd tmul (tr T (bmat T (bg T t1 b))) (apply T t0 tadd tmul (bmat T (bg T t1 b)) x) i = x i /\
    apply T t0 tadd tmul (bmat T (bg T t1 b)) (apply T t0 tadd tmul (tr T (bmat T (bg T t1 b))) x) i = x i.
Proof. exact perm_inverse. Qed.

(* ---------------- Kronecker structure: operators acting per axis / per sub-domain ---------------- *)
Theorem C02_kron_semantics :
  forall T t0 t1 tadd tmul topp, cring T t0 t1 tadd tmul topp ->
  forall mB nB (A B : mat T) x oa ob, inb T mB nB B = true -> ob < mB ->
    apply T t0 tadd tmul (kron T tmul mB nB A B) x (oa * mB + ob)
    = apply T t0 tadd tmul A (fun ia => apply T t0 tadd tmul B (fun ib => x (ia * nB + ib)) ob) oa.
Proof. exact apply_kron. Qed.

Theorem C02_kron_transpose :
  forall T tmul mB nB (A B : mat T), tr T (kron T tmul mB nB A B) = kron T tmul nB mB (tr T A) (tr T B).
Proof. exact tr_kron. Qed.

Theorem C02_operator_on_one_axis :
  forall T t0 t1 tadd tmul topp, cring T t0 t1 tadd tmul topp ->
  forall a c mK nK (B : mat T) x i1 o i3, inb T mK nK B = true -> i1 < a -> o < mK -> i3 < c ->
    apply T t0 tadd tmul (kron T tmul (mK * c) (nK * c) (ident T t1 a) (kron T tmul c c B (ident T t1 c))) x ((i1 * mK + o) * c + i3)
    = apply T t0 tadd tmul B (fun j => x ((i1 * nK + j) * c + i3)) o.
Proof. exact apply_on_axis. Qed.

Theorem C02_blocks_stay_in_bounds :
  forall T t1 tmul (l : list (blk T)), Forall (binb T) l -> binb T (bkron_list T t1 tmul l).
Proof. exact binb_bkron_list. Qed.

Theorem C02_kron_of_gathers_is_gather :
  forall T t0 t1 tadd tmul topp, cring T t0 t1 tadd tmul topp ->
  forall l : list iblk, bkron_list T t1 tmul (map (bg T t1) l) = bg T t1 (ikron_list l).
Proof. exact bkron_list_bg. Qed.

Theorem C02_vstack_semantics :
  forall T t0 t1 tadd tmul topp, cring T t0 t1 tadd tmul topp ->
  forall mA nA (A B : mat T) x o, inb T mA nA A = true ->
    apply T t0 tadd tmul (vstack T mA A B) x o
    = if Nat.ltb o mA then apply T t0 tadd tmul A x o else apply T t0 tadd tmul B x (o - mA).
Proof. exact apply_vstack. Qed.

(* ---------------- utilities._special_add_at ---------------- *)
Theorem C02_special_add_at_is_scatter_add :
  forall T t0 t1 tadd tmul topp, cring T t0 t1 tadd tmul topp ->
  forall sz1 na nb sz3 index (a b : vec T) i1 j i3, i1 < sz1 -> j < na -> i3 < sz3 ->
    special_add_at_real T t0 tadd sz1 na nb sz3 index a b ((i1 * na + j) * sz3 + i3)
    = tadd (a ((i1 * na + j) * sz3 + i3))
           (apply T t0 tadd tmul (tr T (gather T t1 index)) (fun k => b ((i1 * nb + k) * sz3 + i3)) j).
Proof. exact special_add_at_scatter. Qed.

Theorem C02_special_add_at_complex_view :
  forall T t0 t1 tadd tmul topp, cring T t0 t1 tadd tmul topp ->
  forall sz1 na nb sz3 index (a b : nat -> T * T) i1 j i3, i1 < sz1 -> j < na -> i3 < sz3 ->
    special_add_at_complex T t0 tadd sz1 na nb sz3 index a b ((i1 * na + j) * sz3 + i3)
    = (tadd (fst (a ((i1 * na + j) * sz3 + i3)))
            (apply T t0 tadd tmul (tr T (gather T t1 index)) (fun k => fst (b ((i1 * nb + k) * sz3 + i3))) j),
       tadd (snd (a ((i1 * na + j) * sz3 + i3)))
            (apply T t0 tadd tmul (tr T (gather T t1 index)) (fun k => snd (b ((i1 * nb + k) * sz3 + i3))) j)).
Proof. exact special_add_at_complex_scatter. Qed.

Theorem C02_special_add_at_outside_untouched :
  forall T t0 tadd sz1 na nb sz3 index (a b : vec T) f, 0 < na -> 0 < sz3 -> sz1 * na * sz3 <= f ->
    special_add_at_real T t0 tadd sz1 na nb sz3 index a b f = a f.
Proof. exact special_add_at_outside. Qed.

(* ---------------- per class ---------------- *)
Theorem C02_mask :
  forall T t1 flags,
    let idx := positions (map negb flags) in
    gather_blk T t1 (spec_mask T t1 flags) (length flags) idx /\ NoDup idx /\
    (forall i, In i idx <-> (i < length flags /\ nth i flags true = false)) /\
    tgt_mask flags = [[length idx]].
Proof. exact mask_spec. Qed.

Theorem C02_slice :
  forall T t0 t1 tadd tmul topp, cring T t0 t1 tadd tmul topp ->
  forall shs new center,
    Forall2 (fun n len => len <= n) (flat shs) (flat (tgt_slice shs new)) ->
    exists idx, gather_blk T t1 (spec_slice T t1 tmul shs new center) (size shs) idx /\ NoDup idx /\
                length idx = size (tgt_slice shs new).
Proof. exact slice_spec. Qed.

Theorem C02_dofdistributor_times :
  forall T t0 t1 tadd tmul topp, cring T t0 t1 tadd tmul topp ->
  forall tshs k dofdex x i1 j i3, i1 < pre tshs k -> j < length dofdex -> i3 < post tshs k ->
    apply T t0 tadd tmul (bmat T (spec_dofdist T t1 tmul tshs k dofdex)) x ((i1 * length dofdex + j) * post tshs k + i3)
    = x ((i1 * nbin dofdex + nth j dofdex 0) * post tshs k + i3).
Proof. exact dofdist_times. Qed.

Theorem C02_dofdistributor_adjoint_code_is_transpose :
  forall T t0 t1 tadd tmul topp, cring T t0 t1 tadd tmul topp ->
  forall tshs k dofdex y i1 j i3, i1 < pre tshs k -> j < nbin dofdex -> i3 < post tshs k ->
    special_add_at_real T t0 tadd (pre tshs k) (nbin dofdex) (length dofdex) (post tshs k) dofdex (fun _ => t0) y
                        ((i1 * nbin dofdex + j) * post tshs k + i3)
    = apply T t0 tadd tmul (tr T (bmat T (spec_dofdist T t1 tmul tshs k dofdex))) y ((i1 * nbin dofdex + j) * post tshs k + i3).
Proof. exact dofdist_adjoint_code. Qed.

Theorem C02_extract_at_indices_times :
  forall T t0 t1 tadd tmul topp, cring T t0 t1 tadd tmul topp ->
  forall shs k pix x i1 j i3,
    Forall (fun p => Forall2 lt p (nth k shs [])) pix -> i1 < pre shs k -> j < length pix -> i3 < post shs k ->
    apply T t0 tadd tmul (bmat T (spec_extract T t1 tmul shs k pix)) x ((i1 * length pix + j) * post shs k + i3)
    = x ((i1 * prod (nth k shs []) + ravel (nth k shs []) (nth j pix [])) * post shs k + i3).
Proof. exact extract_times. Qed.

Theorem C02_contraction_one_space :
  forall T t0 t1 tadd tmul topp tinv, cring T t0 t1 tadd tmul topp ->
  forall sha shn shc dva dvn dvc power x i1 i3, i1 < prod sha -> i3 < prod shc ->
    apply T t0 tadd tmul (bmat T (spec_contraction T t1 tmul tinv [sha; shn; shc] [false; true; false] [dva; dvn; dvc] power)) x (i1 * prod shc + i3)
    = tmul (tzpow T t1 tmul tinv dvn power)
           (fold_right (fun j acc => tadd (x ((i1 * prod shn + j) * prod shc + i3)) acc) t0 (seq 0 (prod shn))).
Proof. exact contraction_one_space. Qed.

Theorem C02_contraction_in_bounds :
  forall T t1 tmul tinv shs sel dvols power, binb T (spec_contraction T t1 tmul tinv shs sel dvols power).
Proof. exact contraction_inb. Qed.

Theorem C02_padder_noncentral_is_adjoint_of_selection :
  forall T t0 t1 tadd tmul topp, cring T t0 t1 tadd tmul topp ->
  forall shs k new, Forall2 (fun n m => n <= m) (nth k shs []) new ->
    exists N idx, spec_padder T t1 tmul shs k new false = btr T (bgather T t1 N idx) /\
                  Forall (fun i => i < N) idx /\ NoDup idx.
Proof. exact padder_noncentral_spec. Qed.

Theorem C02_adjoint_of_selection_has_left_inverse :
  forall T t0 t1 tadd tmul topp, cring T t0 t1 tadd tmul topp ->
  forall N idx x i, NoDup idx -> i < length idx ->
    apply T t0 tadd tmul (tr T (bmat T (btr T (bgather T t1 N idx)))) (apply T t0 tadd tmul (bmat T (btr T (bgather T t1 N idx))) x) i = x i.
Proof. exact adjoint_of_selection_left_inverse. Qed.

Theorem C02_padder_central_axis :
  forall T t0 t1 tadd tmul topp, cring T t0 t1 tadd tmul topp ->
  forall n m x o, 0 < n < m -> o < m ->
    apply T t0 tadd tmul (bmat T (pad_axis T t1 true n m)) x o
    = if Nat.leb o (n / 2) then x o else if Nat.leb (m - n / 2) o then x (o - (m - n)) else t0.
Proof. exact pad_axis_central_times. Qed.

Theorem C02_padder_in_bounds :
  forall T t0 t1 tadd tmul topp, cring T t0 t1 tadd tmul topp ->
  forall shs k new central,
    Forall2 (fun n m => 0 < n <= m) (nth k shs []) new -> binb T (spec_padder T t1 tmul shs k new central).
Proof. exact padder_inb. Qed.

Theorem C02_field_inserter_is_adjoint_of_extraction :
  forall T t1 tmul tshs k index, spec_dtfi T t1 tmul tshs k index = btr T (spec_extract T t1 tmul tshs k [index]).
Proof. exact dtfi_is_adjoint_of_extract. Qed.

Theorem C02_value_inserter_is_adjoint_of_gather :
  forall T t1 tsh index, spec_value_inserter T t1 tsh index = btr T (bgather T t1 (prod tsh) [ravel tsh index]).
Proof. exact value_inserter_is_adjoint_of_gather. Qed.

Theorem C02_fftshift_is_permutation :
  forall T t0 t1 tadd tmul topp, cring T t0 t1 tadd tmul topp ->
  forall shs sel inverse, exists b, spec_fftshift T t1 tmul shs sel inverse = bg T t1 b /\ iperm b.
Proof. exact fftshift_spec. Qed.

Theorem C02_weight_applier_times :
  forall T t0 t1 tadd tmul topp tinv, cring T t0 t1 tadd tmul topp ->
  forall shs sel dvols power x o, o < size shs ->
    apply T t0 tadd tmul (bmat T (spec_weight T t1 tmul tinv shs sel dvols power)) x o
    = tmul (fold_right tmul t1 (map (fun '(c, dv) => if (c : bool) then tzpow T t1 tmul tinv dv power else t1) (combine sel dvols))) (x o).
Proof. exact weight_times. Qed.

Theorem C02_regridding_axis :
  forall T t0 t1 tadd tmul topp, cring T t0 t1 tadd tmul topp ->
  forall n bindex frac x o, length bindex = length frac -> o < length bindex ->
    apply T t0 tadd tmul (bmat T (regrid_axis T t1 tadd topp n bindex frac)) x o
    = tadd (tmul (tadd t1 (topp (nth o frac t0))) (x (nth o bindex 0))) (tmul (nth o frac t0) (x (S (nth o bindex 0)))).
Proof. exact regrid_axis_times. Qed.

Theorem C02_realizer :
  forall T t0 t1 tadd tmul topp, cring T t0 t1 tadd tmul topp ->
  forall n x j, j < n ->
    apply T t0 tadd tmul (spec_realizer T t1 n) x (2 * j) = x (2 * j) /\ apply T t0 tadd tmul (spec_realizer T t1 n) x (2 * j + 1) = t0.
Proof. exact realizer_times. Qed.

(* Python's slice(start, stop, step) on an axis of length n (CPython PySlice_AdjustIndices) selects
   in-bounds, pairwise distinct indices, for all (also negative / out-of-range) bounds and steps *)
Theorem C02_python_slice_indices_valid :
  forall n start stop step, step <> Some 0%Z ->
    Forall (fun i => i < n) (slice_indices n start stop step) /\ NoDup (slice_indices n start stop step).
Proof. exact slice_indices_valid. Qed.

Theorem C02_split_key :
  forall T t0 t1 tadd tmul topp, cring T t0 t1 tadd tmul topp ->
  forall shs items, Forall2 item_ok shs items ->
    exists idx, gather_blk T t1 (spec_split_key T t1 tmul shs items) (size shs) idx /\
                (Forall item_distinct items -> NoDup idx).
Proof. exact split_key_spec. Qed.

Theorem C02_ravel_unravel :
  forall sh f, f < prod sh -> Forall2 lt (unravel sh f) sh /\ ravel sh (unravel sh f) = f.
Proof. intros sh f H. split; [exact (unravel_bound sh f H)|exact (ravel_unravel sh f H)]. Qed.

Theorem C02_transpose_is_permutation :
  forall T (t1 : T) shs indices, is_perm (length (flat shs)) (np_axes shs indices) ->
    exists b, spec_transpose T t1 shs indices = bg T t1 b /\ iperm b.
Proof. exact transpose_spec. Qed.

(* ---------------- N-dimensional lifting of the per-axis formulas ---------------- *)
(* a Kronecker product of per-axis blocks acts on the C-order flattened N-dimensional array axis by
   axis:  out[o1..od] = sum_{i1} B1[o1,i1] sum_{i2} B2[o2,i2] ... in[i1..id]   ([kapply]) *)
Theorem C02_kron_list_semantics :
  forall T t0 t1 tadd tmul topp, cring T t0 t1 tadd tmul topp ->
  forall (l : list (blk T)) xf o,
    Forall (binb T) l -> Forall2 (fun oi b => oi < bm T b) o l ->
    apply T t0 tadd tmul (bmat T (bkron_list T t1 tmul l)) xf (ravel (map (bm T) l) o)
    = kapply T t0 tadd tmul l (fun idx => xf (ravel (map (bn T) l) idx)) o.
Proof. exact kron_list_semantics. Qed.

(* per-axis gathers in N dimensions: out[o1..od] = in[idx1[o1], .., idxd[od]] *)
Theorem C02_gathers_nd :
  forall T t0 t1 tadd tmul topp, cring T t0 t1 tadd tmul topp ->
  forall (l : list iblk) xf o,
    Forall ivalid l -> Forall2 (fun oi b => oi < length (snd b)) o l ->
    apply T t0 tadd tmul (bmat T (bkron_list T t1 tmul (map (bg T t1) l))) xf (ravel (map (fun b => length (snd b)) l) o)
    = xf (ravel (map fst l) (map (fun '(oi, b) => nth oi (snd b) 0) (combine o l))).
Proof. exact gathers_nd. Qed.

(* blocks with out[o] = in[p o] or 0 per axis (slices, shifts, zero padding, masks) in N dimensions *)
Theorem C02_partial_gathers_nd :
  forall T t0 t1 tadd tmul topp, cring T t0 t1 tadd tmul topp ->
  forall (l : list (blk T)) ps xf o,
    Forall (binb T) l -> Forall2 (pgather_like T t0 tadd tmul) l ps -> Forall2 (fun oi b => oi < bm T b) o l ->
    apply T t0 tadd tmul (bmat T (bkron_list T t1 tmul l)) xf (ravel (map (bm T) l) o)
    = match pindex ps o with Some idx => xf (ravel (map (bn T) l) idx) | None => t0 end.
Proof. exact pgathers_nd. Qed.

(* SliceOperator, any number of sub-domains and axes: out[o1..od] = in[s1+o1, .., sd+od] *)
Theorem C02_slice_nd :
  forall T t0 t1 tadd tmul topp, cring T t0 t1 tadd tmul topp ->
  forall shs new center xf o,
    let ish := flat shs in let osh := flat (tgt_slice shs new) in
    Forall2 (fun n len => len <= n) ish osh -> Forall2 lt o osh ->
    apply T t0 tadd tmul (bmat T (spec_slice T t1 tmul shs new center)) xf (ravel osh o)
    = xf (ravel ish (map (fun '(oi, (n, len)) => (if center then (n - len) / 2 else 0) + oi) (combine o (combine ish osh)))).
Proof. exact slice_nd. Qed.

(* FieldZeroPadder on a multi-axis RGSpace, central or not: per axis [pad_p] (the one-axis formula) *)
Theorem C02_padder_nd :
  forall T t0 t1 tadd tmul topp, cring T t0 t1 tadd tmul topp ->
  forall central sh new xf o,
    Forall2 (fun n m => 0 < n <= m) sh new -> Forall2 lt o new ->
    apply T t0 tadd tmul (bmat T (bkron_list T t1 tmul (map (fun '(n, m) => pad_axis T t1 central n m) (combine sh new)))) xf (ravel new o)
    = match pindex (map (fun '(n, m) => pad_p central n m) (combine sh new)) o with
      | Some idx => xf (ravel sh idx) | None => t0 end.
Proof. exact padder_nd. Qed.

(* ---------------- non-vacuity ---------------- *)
Example C02_Qc_is_a_cring : cring Qc Q0 Q1 Qcplus Qcmult Qcopp.
Proof. exact Qcrt. Qed.

Example C02_Z_is_a_cring : cring Z 0%Z 1%Z Z.add Z.mul Z.opp.
Proof. exact Zth. Qed.

Example C02_slice_hyp_satisfiable :
  Forall2 (fun n len => len <= n) (flat [[4; 3]; [5]]) (flat (tgt_slice [[4; 3]; [5]] [Some [2; 3]; None])).
Proof. repeat constructor. Qed.

Example C02_transpose_hyp_satisfiable : is_perm (length (flat [[2; 3]; [4]; [5]])) (np_axes [[2; 3]; [4]; [5]] [2; 0; 1]).
Proof. vm_compute. repeat split; repeat constructor; cbn; intuition discriminate. Qed.

Example C02_fftshift_example :
  bmat Qc (X_fftshift [[4]] [true] false) = [(0, 2, Q1); (1, 3, Q1); (2, 0, Q1); (3, 1, Q1)].
Proof. vm_compute. reflexivity. Qed.
