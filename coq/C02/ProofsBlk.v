(* C02 -- blocks (matrices with their dimensions): in-bounds preservation, transposition, gathers of
   per-axis index lists, vertical stacking. *)
From Coq Require Import List Arith Bool Lia Ring Ring_theory ZArith.
Import ListNotations.
Require Import NV.C02.Model NV.C02.ProofsGen NV.C02.ProofsGather NV.C02.ProofsKron.

Section Ring.
Variable T : Type.
Variables (t0 t1 : T) (tadd tmul : T -> T -> T) (topp : T -> T).
Hypothesis RT : ring_theory t0 t1 tadd tmul (fun a b => tadd a (topp b)) topp eq.
Add Ring TRing6 : RT.

Notation "0" := t0.
Notation "1" := t1.
Infix "+" := tadd.
Infix "*" := tmul.

Notation trip := (trip T).
Notation mat := (mat T).
Notation vec := (vec T).
Notation blk := (blk T).
Notation apply := (apply T t0 tadd tmul).
Notation tr := (tr T).
Notation inb := (inb T).
Notation gather := (gather T t1).
Notation ident := (ident T t1).
Notation kron := (kron T tmul).
Notation bgather := (bgather T t1).
Notation bident := (bident T t1).
Notation bkron := (bkron T tmul).
Notation btr := (btr T).
Notation bkron_list := (bkron_list T t1 tmul).
Notation on_space := (on_space T t1 tmul).
Notation bm := (bm T).
Notation bn := (bn T).
Notation bmat := (bmat T).
Notation bg := (bg T t1).
Notation apply_cons := (apply_cons T t0 t1 tadd tmul topp RT).
Notation apply_nil := (apply_nil T t0 tadd tmul).
Notation apply_app := (apply_app T t0 t1 tadd tmul topp RT).
Notation inb_cons := (inb_cons T).
Notation inb_app := (inb_app T).

Definition binb (b : blk) : Prop := inb (bm b) (bn b) (bmat b) = true.

Lemma binb_bident n : binb (bident n).
Proof. unfold binb, Model.bident, Model.bm, Model.bn, Model.bmat. cbn [fst snd]. apply inb_ident. Qed.

Lemma binb_bg b : ivalid b -> binb (bg b).
Proof. intros H. destruct b as [n idx]. unfold binb, ProofsKron.bg, Model.bgather, Model.bm, Model.bn, Model.bmat. cbn [fst snd]. apply inb_gather. exact H. Qed.

Lemma binb_btr b : binb b -> binb (btr b).
Proof. unfold binb, Model.btr, Model.bm, Model.bn, Model.bmat. cbn [fst snd]. apply inb_tr. Qed.

Lemma binb_bkron a b : binb a -> binb b -> binb (bkron a b).
Proof. unfold binb, Model.bkron, Model.bm, Model.bn, Model.bmat. cbn [fst snd]. apply inb_kron. Qed.

Lemma binb_unit : binb (1%nat, 1%nat, [(0%nat, 0%nat, 1)]).
Proof. reflexivity. Qed.

Lemma binb_bkron_list l : Forall binb l -> binb (bkron_list l).
Proof.
  induction l as [|b r IH]; intros H; [apply binb_unit|].
  inversion H; subst. destruct r as [|b2 r']; [assumption|].
  change (bkron_list (b :: b2 :: r')) with (bkron b (bkron_list (b2 :: r'))).
  apply binb_bkron; [assumption|apply IH; assumption].
Qed.

Lemma binb_on_space shs k b : binb b -> binb (on_space shs k b).
Proof. intros H. unfold Model.on_space. apply binb_bkron; [apply binb_bident|apply binb_bkron; [assumption|apply binb_bident]]. Qed.

(* ---- transposition of blocks ---- *)
Lemma tr_ident n : tr (ident n) = ident n.
Proof.
  unfold Model.ident, Model.gather. generalize 0%nat. induction n as [|n IH]; intros s; [reflexivity|].
  cbn [seq Model.gather_from]. rewrite (tr_cons T), IH. reflexivity.
Qed.

Lemma btr_bident n : btr (bident n) = bident n.
Proof. unfold Model.btr, Model.bident, Model.bm, Model.bn, Model.bmat. cbn [fst snd]. rewrite tr_ident. reflexivity. Qed.

Lemma btr_bkron a b : btr (bkron a b) = bkron (btr a) (btr b).
Proof.
  unfold Model.btr, Model.bkron, Model.bm, Model.bn, Model.bmat. cbn [fst snd].
  rewrite tr_kron. reflexivity.
Qed.

Lemma btr_btr b : btr (btr b) = b.
Proof. destruct b as [[m n] M]. unfold Model.btr, Model.bm, Model.bn, Model.bmat. cbn [fst snd]. rewrite (tr_tr T). reflexivity. Qed.

Lemma btr_bkron_list l : btr (bkron_list l) = bkron_list (map btr l).
Proof.
  induction l as [|b r IH]; [reflexivity|].
  destruct r as [|b2 r']; [reflexivity|].
  change (bkron_list (b :: b2 :: r')) with (bkron b (bkron_list (b2 :: r'))).
  change (bkron_list (map btr (b :: b2 :: r'))) with (bkron (btr b) (bkron_list (map btr (b2 :: r')))).
  rewrite btr_bkron, IH. reflexivity.
Qed.

Lemma btr_on_space shs k b : btr (on_space shs k b) = on_space shs k (btr b).
Proof. unfold Model.on_space. rewrite !btr_bkron, !btr_bident. reflexivity. Qed.

(* ---- dimensions of a Kronecker product of gathers ---- *)
Lemma ikron_list_fst l : fst (ikron_list l) = fold_right Nat.mul 1%nat (map fst l).
Proof.
  induction l as [|b r IH]; [reflexivity|]. destruct r as [|b2 r'].
  - cbn. lia.
  - change (ikron_list (b :: b2 :: r')) with
      (fst b * fst (ikron_list (b2 :: r')), ikron (fst (ikron_list (b2 :: r'))) (snd b) (snd (ikron_list (b2 :: r'))))%nat.
    cbn [fst map fold_right] in *. rewrite IH. reflexivity.
Qed.

Lemma ikron_list_len l : length (snd (ikron_list l)) = fold_right Nat.mul 1%nat (map (fun b => length (snd b)) l).
Proof.
  induction l as [|b r IH]; [reflexivity|]. destruct r as [|b2 r'].
  - cbn. lia.
  - change (ikron_list (b :: b2 :: r')) with
      (fst b * fst (ikron_list (b2 :: r')), ikron (fst (ikron_list (b2 :: r'))) (snd b) (snd (ikron_list (b2 :: r'))))%nat.
    cbn [snd map fold_right] in *. rewrite ikron_length, IH. reflexivity.
Qed.

(* ---- vertical stacking (MultiField targets) ---- *)
Lemma apply_shift_out d M x o :
  apply (shift_out T d M) x o = if Nat.leb d o then apply M x (o - d)%nat else 0.
Proof.
  induction M as [|[[o' i] w] M IH].
  - cbn [Model.shift_out map]. rewrite !apply_nil. destruct (Nat.leb d o); reflexivity.
  - change (shift_out T d ((o', i, w) :: M)) with (((o' + d)%nat, i, w) :: shift_out T d M). rewrite !apply_cons, IH.
    destruct (Nat.leb d o) eqn:E.
    + apply Nat.leb_le in E. destruct (Nat.eqb o' (o - d)) eqn:E2.
      * apply Nat.eqb_eq in E2. replace (Nat.eqb (o' + d) o) with true by (symmetry; apply Nat.eqb_eq; lia). reflexivity.
      * apply Nat.eqb_neq in E2. replace (Nat.eqb (o' + d) o) with false by (symmetry; apply Nat.eqb_neq; lia). reflexivity.
    + apply Nat.leb_gt in E. replace (Nat.eqb (o' + d) o) with false by (symmetry; apply Nat.eqb_neq; lia). ring.
Qed.

Theorem apply_vstack mA nA A B x o :
  inb mA nA A = true ->
  apply (vstack T mA A B) x o = if Nat.ltb o mA then apply A x o else apply B x (o - mA)%nat.
Proof.
  intros HA. unfold Model.vstack. rewrite apply_app, apply_shift_out.
  destruct (Nat.ltb o mA) eqn:E.
  - apply Nat.ltb_lt in E. replace (Nat.leb mA o) with false by (symmetry; apply Nat.leb_gt; lia). ring.
  - apply Nat.ltb_ge in E. replace (Nat.leb mA o) with true by (symmetry; apply Nat.leb_le; lia).
    rewrite (apply_out_of_range T t0 t1 tadd tmul topp RT mA nA) by assumption. ring.
Qed.

End Ring.
