(* C02 -- the Qc instance of the model used by the correspondence (evaluated by vm_compute inside
   coqc), the comparison predicates, and the rational pre-computations of RegriddingOperator and
   LinearInterpolator (floor / fractional part are specific to Q). No proofs in this file. *)
From Coq Require Import List Arith ZArith QArith Qcanon Qround Bool.
Import ListNotations.
Require Import NV.C02.Model.
Local Open Scope nat_scope.

Definition q (a : Z) (b : positive) : Qc := Q2Qc (a # b).
Definition Q0 : Qc := Q2Qc 0.
Definition Q1 : Qc := Q2Qc 1.
(* short literals for the case files *)
Definition U : Qc := Q2Qc 1.
Definition z (a : Z) : Qc := Q2Qc (a # 1).

Notation qmat := (mat Qc).
Notation qblk := (blk Qc).

Definition X_contraction := spec_contraction Qc Q1 Qcmult Qcinv.
Definition X_dofdist := spec_dofdist Qc Q1 Qcmult.
Definition X_padder := spec_padder Qc Q1 Qcmult.
Definition X_mask := spec_mask Qc Q1.
Definition X_slice := spec_slice Qc Q1 Qcmult.
Definition X_split := spec_split Qc Q1 Qcmult.
Definition X_value_inserter := spec_value_inserter Qc Q1.
Definition X_dtfi := spec_dtfi Qc Q1 Qcmult.
Definition X_outer (n : nat) (f : list (Qc * Qc)) : qmat := cplx Qc Qcopp (spec_outer Qc n f).
Definition X_vdot (f : list (Qc * Qc)) : qmat := cplx Qc Qcopp (spec_vdot Qc Qcopp f).
Definition X_transpose := spec_transpose Qc Q1.
Definition X_squeeze := spec_squeeze Qc Q1.
Definition X_reshape := spec_reshape Qc Q1.
Definition X_extract := spec_extract Qc Q1 Qcmult.
Definition X_weight := spec_weight Qc Q1 Qcmult Qcinv.
Definition X_fftshift := spec_fftshift Qc Q1 Qcmult.
Definition X_matprod (shs : shapes) (k1 k2 : nat) (rows : list (list (Qc * Qc))) : nat * nat * qmat :=
  let '(m, n, M) := spec_matprod Qc shs k1 k2 rows in (m, n, cplx Qc Qcopp M).
Definition X_realizer := spec_realizer Qc Q1.
Definition X_imaginizer := spec_imaginizer Qc Q1.
Definition X_conjugation := spec_conjugation Qc Q1 Qcopp.
Definition X_extract_keys := spec_extract_keys Qc Q1.

(* RegriddingOperator.__init__:
     newdist = dom.distances[i]*dom.shape[i]/new_shape[i]
     tmp = np.arange(new_shape[d])*(newdist[d]/dom.distances[d])
     self._bindex[d] = np.minimum(dom.shape[d]-2, tmp.astype(np.int64));  self._frac[d] = tmp-self._bindex[d]
   (n >= 2; newdist/dist = n/m exactly) *)
Definition regrid_params (n m : nat) : nat * list nat * list Qc :=
  let ratio : Q := Qdiv (Z.of_nat n # 1) (Z.of_nat m # 1) in
  let tmp (k : nat) : Q := Qmult (Z.of_nat k # 1) ratio in
  let b (k : nat) : nat := Nat.min (n - 2) (Z.to_nat (Qfloor (tmp k))) in
  (n, map b (seq 0 m), map (fun k => Q2Qc (Qminus (tmp k) (Z.of_nat (b k) # 1))) (seq 0 m)).
Definition X_regrid (shs : shapes) (k : nat) (axes : list (nat * nat)) : qblk :=
  spec_regrid Qc Q1 Qcplus Qcmult Qcopp shs k (map (fun '(n, m) => regrid_params n m) axes).

(* LinearInterpolator._build_mat:
     pos = sampling_points/dist;  excess = pos - np.floor(pos);  pos = np.floor(pos).astype(np.int64)
     fromi = (pos + mg[:, i]) % max_index *)
Definition interp_params (n : nat) (sp dist : Qc) : nat * Qc :=
  let pos : Q := Qdiv (this sp) (this dist) in
  let fl : Z := Qfloor pos in
  (Z.to_nat (Z.modulo fl (Z.of_nat n)), Q2Qc (Qminus pos (fl # 1))).
Definition X_interp (sh : list nat) (pts : list (list (Qc * Qc))) : qblk :=
  spec_interp Qc Q1 Qcplus Qcmult Qcopp sh
    (map (fun pt => map (fun '(n, (s, d)) => interp_params n s d) (combine sh pt)) pts).

(* ---- comparison ---- *)
Definition row_of (M : qmat) (o : nat) : list (nat * Qc) :=
  flat_map (fun t : trip Qc => let '(o', i, w) := t in if Nat.eqb o' o then [(i, w)] else []) M.
Definition rentry (r : list (nat * Qc)) (i : nat) : Qc :=
  fold_right (fun '(i', w) acc => if Nat.eqb i' i then Qcplus w acc else acc) Q0 r.
Definition meq (m n : nat) (A B : qmat) : bool :=
  forallb (fun o => let ra := row_of A o in let rb := row_of B o in
                    forallb (fun i => Qc_eq_bool (rentry ra i) (rentry rb i)) (seq 0 n)) (seq 0 m).

Definition shapes_eqb (a b : shapes) : bool :=
  Nat.eqb (length a) (length b) &&
  forallb (fun '(x, y) => Nat.eqb (length x) (length y) && forallb (fun '(u, v) => Nat.eqb u v) (combine x y)) (combine a b).

(* one case: the spec block S (TIMES), the documented inverse Sinv (if the class advertises inverses),
   the implementation's dense matrices per mode (1 TIMES, 2 ADJOINT, 4 INVERSE, 8 ADJOINT_INVERSE)
   and its domain/target sizes *)
Definition expected (S : qblk) (Sinv : option qblk) (mode : nat) : option qblk :=
  match mode with
  | 1 => Some S
  | 2 => Some (btr Qc S)
  | 4 => Sinv
  | 8 => match Sinv with Some b => Some (btr Qc b) | None => None end
  | _ => None
  end.

Definition case_ok (S : qblk) (Sinv : option qblk) (m n : nat) (impl : list (nat * qmat)) : bool :=
  Nat.eqb (bm Qc S) m && Nat.eqb (bn Qc S) n && inb Qc m n (bmat Qc S) &&
  forallb (fun '(mode, Im) =>
             match expected S Sinv mode with
             | Some E => inb Qc (bm Qc E) (bn Qc E) (bmat Qc E) && meq (bm Qc E) (bn Qc E) (bmat Qc E) Im
             | None => false
             end) impl.

(* special_add_at: implementation result (flat list) against the model *)
Definition vec_of (l : list Qc) : nat -> Qc := fun k => nth k l Q0.
Definition saa_ok (sz1 na nb sz3 : nat) (index : list nat) (a b res : list Qc) : bool :=
  let r := special_add_at_real Qc Q0 Qcplus sz1 na nb sz3 index (vec_of a) (vec_of b) in
  forallb (fun k => Qc_eq_bool (r k) (nth k res Q0)) (seq 0 (sz1 * na * sz3)).
Definition cvec_of (l : list (Qc * Qc)) : nat -> Qc * Qc := fun k => nth k l (Q0, Q0).
Definition saa_c_ok (sz1 na nb sz3 : nat) (index : list nat) (a b res : list (Qc * Qc)) : bool :=
  let r := special_add_at_complex Qc Q0 Qcplus sz1 na nb sz3 index (cvec_of a) (cvec_of b) in
  forallb (fun k => let '(x, y) := r k in let '(u, v) := nth k res (Q0, Q0) in Qc_eq_bool x u && Qc_eq_bool y v)
          (seq 0 (sz1 * na * sz3)).
