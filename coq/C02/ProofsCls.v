(* C02 -- per-class facts: the specs of the gather family are gathers of in-bounds (and, for
   selections, distinct) index lists; operators acting on one sub-domain; inserters and the
   non-central padder are adjoints of selections; special_add_at is the adjoint code of DOFDistributor. *)
From Coq Require Import List Arith Bool Lia Ring Ring_theory ZArith.
Import ListNotations.
Require Import NV.C02.Model NV.C02.ProofsGen NV.C02.ProofsGather NV.C02.ProofsKron NV.C02.ProofsBlk NV.C02.ProofsSAA.

Ltac b2p :=
  repeat match goal with
         | H : Nat.eqb _ _ = true |- _ => apply Nat.eqb_eq in H
         | H : Nat.eqb _ _ = false |- _ => apply Nat.eqb_neq in H
         | H : Nat.leb _ _ = true |- _ => apply Nat.leb_le in H
         | H : Nat.leb _ _ = false |- _ => apply Nat.leb_gt in H
         | H : Nat.ltb _ _ = true |- _ => apply Nat.ltb_lt in H
         | H : Nat.ltb _ _ = false |- _ => apply Nat.ltb_ge in H
         end.

(* ---- ring-independent list facts ---- *)
Lemma positions_from_in k l i :
  In i (positions_from k l) <-> (k <= i < k + length l /\ nth (i - k) l false = true).
Proof.
  revert k. induction l as [|b t IH]; intros k.
  - cbn. split; [intros []|lia].
  - cbn [positions_from length]. destruct b.
    + cbn [In]. rewrite IH. split.
      * intros [<-|(H1 & H2)].
        -- rewrite Nat.sub_diag. cbn. split; [lia|reflexivity].
        -- split; [lia|]. replace (i - k) with (S (i - S k)) by lia. exact H2.
      * intros (H1 & H2). destruct (Nat.eq_dec k i) as [->|Hne]; [left; reflexivity|right].
        split; [lia|]. replace (i - k) with (S (i - S k)) in H2 by lia. exact H2.
    + rewrite IH. split.
      * intros (H1 & H2). split; [lia|]. replace (i - k) with (S (i - S k)) by lia. exact H2.
      * intros (H1 & H2). destruct (Nat.eq_dec k i) as [->|Hne].
        -- rewrite Nat.sub_diag in H2. cbn in H2. discriminate.
        -- split; [lia|]. replace (i - k) with (S (i - S k)) in H2 by lia. exact H2.
Qed.

Lemma positions_from_nodup k l : NoDup (positions_from k l).
Proof.
  revert k. induction l as [|b t IH]; intros k; [constructor|].
  cbn [positions_from]. destruct b; [|apply IH].
  constructor; [|apply IH]. rewrite positions_from_in. lia.
Qed.

Lemma list_max_bound l : Forall (fun i => i < S (list_max l)) l.
Proof.
  induction l as [|a t IH]; [constructor|]. unfold list_max in *. cbn [fold_right]. constructor; [lia|].
  eapply Forall_impl; [|exact IH]. cbn. intros; lia.
Qed.

Lemma ravel_bound sh idx : Forall2 lt idx sh -> ravel sh idx < prod sh.
Proof.
  intros H. induction H as [|i s idx' sh' Hlt H IH]; [cbn; lia|].
  cbn [ravel prod fold_right] in *. fold (prod sh'). nia.
Qed.

Lemma nth_repeat_lt {A} (w d : A) n o : o < n -> nth o (repeat w n) d = w.
Proof. revert o. induction n as [|n IH]; intros o H; [lia|]. destruct o; [reflexivity|]. cbn. apply IH. lia. Qed.

Lemma Forall2_combine_fst {A B} (R : A -> B -> Prop) a b : Forall2 R a b -> map fst (combine a b) = a.
Proof. induction 1; [reflexivity|]. cbn. f_equal. assumption. Qed.
Lemma Forall2_combine_snd {A B} (R : A -> B -> Prop) a b : Forall2 R a b -> map snd (combine a b) = b.
Proof. induction 1; [reflexivity|]. cbn. f_equal. assumption. Qed.

Section Ring.
Variable T : Type.
Variables (t0 t1 : T) (tadd tmul : T -> T -> T) (topp tinv : T -> T).
Hypothesis RT : ring_theory t0 t1 tadd tmul (fun a b => tadd a (topp b)) topp eq.
Add Ring TRing7 : RT.

Notation "0" := t0.
Notation "1" := t1.
Infix "+" := tadd.
Infix "*" := tmul.

Notation mat := (mat T).
Notation vec := (vec T).
Notation blk := (blk T).
Notation apply := (apply T t0 tadd tmul).
Notation tr := (tr T).
Notation inb := (inb T).
Notation sum_to := (sum_to T t0 tadd).
Notation gather := (gather T t1).
Notation ident := (ident T t1).
Notation kron := (kron T tmul).
Notation bgather := (bgather T t1).
Notation bident := (bident T t1).
Notation bkron := (bkron T tmul).
Notation btr := (btr T).
Notation bkron_list := (bkron_list T t1 tmul).
Notation on_space := (on_space T t1 tmul).
Notation bm := (bm T).
Notation bn := (bn T).
Notation bmat := (bmat T).
Notation bg := (bg T t1).
Notation binb := (binb T).
Notation apply_cons := (apply_cons T t0 t1 tadd tmul topp RT).
Notation apply_nil := (apply_nil T t0 tadd tmul).
Notation apply_app := (apply_app T t0 t1 tadd tmul topp RT).
Notation apply_gather := (apply_gather T t0 t1 tadd tmul topp RT).
Notation apply_on_axis := (apply_on_axis T t0 t1 tadd tmul topp RT).
Notation bkron_list_bg := (bkron_list_bg T t0 t1 tadd tmul topp RT).
Notation on_space_bg := (on_space_bg T t0 t1 tadd tmul topp RT).
Notation btr_bkron_list := (btr_bkron_list T t1 tmul).
Notation btr_on_space := (btr_on_space T t1 tmul).

(* a block that is the gather of an in-bounds index list *)
Definition gather_blk (b : blk) (n : nat) (idx : list nat) : Prop :=
  b = bgather n idx /\ Forall (fun i => i < n)%nat idx.

Lemma bg_gather_blk b : ivalid b -> gather_blk (bg b) (fst b) (snd b).
Proof. intros H. split; [reflexivity|exact H]. Qed.

(* ---------------- MaskOperator ---------------- *)
Theorem mask_spec flags :
  let idx := positions (map negb flags) in
  gather_blk (spec_mask T t1 flags) (length flags) idx /\ NoDup idx /\
  (forall i, In i idx <-> (i < length flags /\ nth i flags true = false)%nat) /\
  tgt_mask flags = [[length idx]].
Proof.
  cbn zeta. assert (Hin : forall i, In i (positions (map negb flags)) <-> (i < length flags /\ nth i flags true = false)%nat).
  { intros i. unfold positions. rewrite positions_from_in, map_length, Nat.sub_0_r.
    change false with (negb true). rewrite map_nth. split.
    - intros (H1 & H2). split; [lia|]. destruct (nth i flags true); [discriminate|reflexivity].
    - intros (H1 & H2). split; [lia|]. rewrite H2. reflexivity. }
  split; [split; [reflexivity|]|split; [|split; [exact Hin|reflexivity]]].
  - apply Forall_forall. intros i Hi. apply Hin in Hi. lia.
  - apply positions_from_nodup.
Qed.

(* ---------------- SliceOperator ---------------- *)
Definition slice_iblk (center : bool) (p : nat * nat) : iblk :=
  (fst p, seq (if center then (fst p - snd p) / 2 else 0) (snd p))%nat.

Lemma slice_axis_bg center n len : slice_axis T t1 center n len = bg (slice_iblk center (n, len)).
Proof. reflexivity. Qed.

Lemma slice_iblk_valid center n len : (len <= n)%nat -> ivalid (slice_iblk center (n, len)).
Proof.
  intros H. unfold ivalid, slice_iblk. cbn [fst snd]. apply Forall_forall. intros i Hi. apply in_seq in Hi.
  destruct center; [|lia].
  assert ((n - len) / 2 <= n - len)%nat by (apply Nat.div_le_upper_bound; lia). lia.
Qed.

Theorem slice_spec shs new center :
  Forall2 (fun n len => len <= n)%nat (flat shs) (flat (tgt_slice shs new)) ->
  exists idx, gather_blk (spec_slice T t1 tmul shs new center) (size shs) idx /\ NoDup idx /\
              length idx = size (tgt_slice shs new).
Proof.
  intros H. unfold Model.spec_slice.
  set (L := combine (flat shs) (flat (tgt_slice shs new))).
  assert (E : map (fun '(n, len) => slice_axis T t1 center n len) L = map bg (map (slice_iblk center) L)).
  { rewrite map_map. apply map_ext. intros [n len]. apply slice_axis_bg. }
  rewrite E, bkron_list_bg.
  assert (Hv : Forall ivalid (map (slice_iblk center) L)).
  { apply Forall_forall. intros b Hb. apply in_map_iff in Hb. destruct Hb as ([n len] & <- & Hin).
    apply slice_iblk_valid. subst L. clear E.
    revert Hin. induction H as [|a b la lb Hab H IH]; cbn [combine In]; [intros []|].
    intros [Heq|Hin]; [inversion Heq; subst; assumption|apply IH; assumption]. }
  exists (snd (ikron_list (map (slice_iblk center) L))).
  assert (Efst : fst (ikron_list (map (slice_iblk center) L)) = size shs).
  { rewrite ikron_list_fst, map_map. unfold slice_iblk. cbn [fst].
    change (map (fun x : nat * nat => fst x) L) with (map fst L). subst L.
    rewrite (Forall2_combine_fst _ _ _ H). reflexivity. }
  split; [split|split].
  - rewrite <- Efst. reflexivity.
  - rewrite <- Efst. apply ikron_list_valid. exact Hv.
  - apply ikron_list_nodup; [exact Hv|]. apply Forall_forall. intros b Hb. apply in_map_iff in Hb.
    destruct Hb as ([n len] & <- & _). unfold slice_iblk. cbn [snd]. apply seq_NoDup.
  - rewrite ikron_list_len, map_map. unfold slice_iblk. cbn [snd].
    rewrite (map_ext _ snd) by (intros [n len]; cbn [snd fst]; apply seq_length). subst L.
    rewrite (Forall2_combine_snd _ _ _ H). reflexivity.
Qed.

(* ---------------- operators acting on one sub-domain with a gather: DOFDistributor, ExtractAtIndices --- *)
Lemma on_space_gather shs k n idx :
  Forall (fun i => i < n)%nat idx ->
  exists idx', gather_blk (on_space shs k (bgather n idx)) (pre shs k * (n * post shs k))%nat idx' /\
               length idx' = (pre shs k * (length idx * post shs k))%nat /\
               (NoDup idx -> NoDup idx').
Proof.
  intros H. change (bgather n idx) with (bg (n, idx)). rewrite on_space_bg.
  set (L := [(pre shs k, seq 0 (pre shs k)); (n, idx); (post shs k, seq 0 (post shs k))]).
  assert (Hv : Forall ivalid L).
  { repeat constructor; unfold ivalid; cbn [fst snd]; [apply (seq_bound 0)|exact H|apply (seq_bound 0)]. }
  exists (snd (ikron_list L)). split; [split|split].
  - replace (pre shs k * (n * post shs k))%nat with (fst (ikron_list L)); [reflexivity|].
    rewrite ikron_list_fst. subst L. cbn [map fst fold_right]. lia.
  - replace (pre shs k * (n * post shs k))%nat with (fst (ikron_list L)); [apply ikron_list_valid; exact Hv|].
    rewrite ikron_list_fst. subst L. cbn [map fst fold_right]. lia.
  - rewrite ikron_list_len. subst L. cbn [map snd fold_right]. rewrite !seq_length. lia.
  - intros Hnd. apply ikron_list_nodup; [exact Hv|]. repeat constructor; cbn [snd]; try apply seq_NoDup. exact Hnd.
Qed.

(* TIMES of DOFDistributor:  oarr = arr[(slice(None), dofdex, slice(None))] on shape (pre, nbin, post) *)
Theorem dofdist_times tshs k dofdex x i1 j i3 :
  (i1 < pre tshs k)%nat -> (j < length dofdex)%nat -> (i3 < post tshs k)%nat ->
  apply (bmat (spec_dofdist T t1 tmul tshs k dofdex)) x ((i1 * length dofdex + j) * post tshs k + i3)%nat
  = x ((i1 * nbin dofdex + nth j dofdex 0%nat) * post tshs k + i3)%nat.
Proof.
  intros H1 Hj H3. unfold Model.spec_dofdist, Model.on_space, Model.bkron, Model.bgather, Model.bident, Model.bm, Model.bn, Model.bmat.
  cbn [fst snd]. rewrite apply_on_axis; try assumption.
  - rewrite apply_gather by assumption. reflexivity.
  - apply inb_gather. apply list_max_bound.
Qed.

(* ADJOINT_TIMES of DOFDistributor:  oarr = zeros; special_add_at(oarr, 1, dofdex, arr)  is the transpose *)
Theorem dofdist_adjoint_code tshs k dofdex y i1 j i3 :
  (i1 < pre tshs k)%nat -> (j < nbin dofdex)%nat -> (i3 < post tshs k)%nat ->
  special_add_at_real T t0 tadd (pre tshs k) (nbin dofdex) (length dofdex) (post tshs k) dofdex (fun _ => 0) y
                      ((i1 * nbin dofdex + j) * post tshs k + i3)%nat
  = apply (tr (bmat (spec_dofdist T t1 tmul tshs k dofdex))) y ((i1 * nbin dofdex + j) * post tshs k + i3)%nat.
Proof.
  intros H1 Hj H3.
  rewrite (special_add_at_scatter T t0 t1 tadd tmul topp RT) by assumption.
  unfold Model.spec_dofdist, Model.on_space, Model.bkron, Model.bgather, Model.bident, Model.bm, Model.bn, Model.bmat.
  cbn [fst snd]. rewrite !tr_kron, !(tr_ident T t1).
  rewrite apply_on_axis; try assumption.
  - ring.
  - apply inb_tr. apply inb_gather. apply list_max_bound.
Qed.

Theorem extract_times shs k pix x i1 j i3 :
  Forall (fun p => Forall2 lt p (nth k shs [])) pix ->
  (i1 < pre shs k)%nat -> (j < length pix)%nat -> (i3 < post shs k)%nat ->
  apply (bmat (spec_extract T t1 tmul shs k pix)) x ((i1 * length pix + j) * post shs k + i3)%nat
  = x ((i1 * prod (nth k shs []) + ravel (nth k shs []) (nth j pix [])) * post shs k + i3)%nat.
Proof.
  intros Hp H1 Hj H3. unfold Model.spec_extract, Model.on_space, Model.bkron, Model.bgather, Model.bident, Model.bm, Model.bn, Model.bmat.
  cbn [fst snd]. rewrite map_length. rewrite apply_on_axis; try assumption.
  - rewrite apply_gather by (rewrite map_length; assumption).
    rewrite (nth_indep _ 0%nat (ravel (nth k shs []) [])) by (rewrite map_length; assumption).
    rewrite map_nth. reflexivity.
  - pose proof (inb_gather T t1 (map (ravel (nth k shs [])) pix) (prod (nth k shs []))) as Hg.
    rewrite map_length in Hg. apply Hg. apply Forall_forall. intros r Hr. apply in_map_iff in Hr.
    destruct Hr as (p & <- & Hin). apply ravel_bound. rewrite Forall_forall in Hp. apply Hp. exact Hin.
Qed.

(* ---------------- ContractionOperator on one sub-domain ---------------- *)
Lemma apply_row_from ws s x :
  apply (row_from T s ws) x 0%nat = fold_right (fun '(k, w) acc => w * x k + acc) 0 (combine (seq s (length ws)) ws).
Proof.
  revert s. induction ws as [|w t IH]; intros s; [reflexivity|].
  cbn [Model.row_from length seq combine fold_right]. rewrite apply_cons, IH. cbn. reflexivity.
Qed.

Lemma apply_row_repeat w n s x :
  apply (row_from T s (repeat w n)) x 0%nat = w * fold_right (fun k acc => x k + acc) 0 (seq s n).
Proof.
  revert s. induction n as [|n IH]; intros s; cbn [repeat Model.row_from seq fold_right].
  - rewrite apply_nil. ring.
  - rewrite apply_cons, IH. cbn. ring.
Qed.

Lemma inb_row_from s ws : inb 1 (s + length ws) (row_from T s ws) = true.
Proof.
  revert s. induction ws as [|w t IH]; intros s; [reflexivity|].
  cbn [Model.row_from length]. apply (inb_cons T). repeat split; [lia|lia|].
  replace (s + S (length t))%nat with (S s + length t)%nat by lia. apply IH.
Qed.

(* x.weight(power, spaces).sum(spaces) for shape (a, n, c) with the middle sub-domain contracted *)
Theorem contraction_one_space sha shn shc dva dvn dvc power x i1 i3 :
  (i1 < prod sha)%nat -> (i3 < prod shc)%nat ->
  apply (bmat (spec_contraction T t1 tmul tinv [sha; shn; shc] [false; true; false] [dva; dvn; dvc] power)) x (i1 * prod shc + i3)%nat
  = tzpow T t1 tmul tinv dvn power * fold_right (fun j acc => x ((i1 * prod shn + j) * prod shc + i3)%nat + acc) 0 (seq 0 (prod shn)).
Proof.
  intros H1 H3. unfold Model.spec_contraction. cbn [combine map Model.bkron_list].
  unfold Model.bkron, Model.bident, Model.bm, Model.bn, Model.bmat. cbn [fst snd].
  replace (i1 * prod shc + i3)%nat with ((i1 * 1 + 0) * prod shc + i3)%nat by lia.
  rewrite apply_on_axis; try assumption; try lia.
  - unfold Model.row. rewrite apply_row_repeat. reflexivity.
  - unfold Model.row. pose proof (inb_row_from 0 (repeat (tzpow T t1 tmul tinv dvn power) (prod shn))) as Hr.
    rewrite repeat_length in Hr. exact Hr.
Qed.

(* ---------------- FieldZeroPadder (not central), inserters: adjoints of selections ---------------- *)
Lemma pad_axis_noncentral n m : pad_axis T t1 false n m = btr (slice_axis T t1 false m n).
Proof.
  unfold Model.pad_axis, Model.slice_axis, Model.btr, Model.bgather, Model.bident, Model.bm, Model.bn, Model.bmat.
  cbn [fst snd]. rewrite seq_length. destruct (Nat.eqb n m) eqn:E; [|reflexivity].
  apply Nat.eqb_eq in E. subst. unfold Model.ident. fold (ident m). rewrite (tr_ident T t1). reflexivity.
Qed.

Theorem padder_noncentral_spec shs k new :
  Forall2 (fun n m => n <= m)%nat (nth k shs []) new ->
  exists N idx, spec_padder T t1 tmul shs k new false = btr (bgather N idx) /\
                Forall (fun i => i < N)%nat idx /\ NoDup idx.
Proof.
  intros H. unfold Model.spec_padder.
  set (L := combine (nth k shs []) new).
  assert (E : map (fun '(n, m) => pad_axis T t1 false n m) L
              = map btr (map bg (map (fun p : nat * nat => slice_iblk false (snd p, fst p)) L))).
  { rewrite !map_map. apply map_ext. intros [n m]. rewrite pad_axis_noncentral. reflexivity. }
  rewrite E, <- btr_bkron_list, <- btr_on_space, bkron_list_bg.
  set (L2 := map (fun p : nat * nat => slice_iblk false (snd p, fst p)) L).
  assert (Hv : ivalid (ikron_list L2)).
  { apply ikron_list_valid. apply Forall_forall. intros b Hb. subst L2. apply in_map_iff in Hb.
    destruct Hb as ([n m] & <- & Hin). apply slice_iblk_valid. cbn [fst snd]. subst L. clear E.
    revert Hin. induction H as [|a b la lb Hab H IH]; cbn [combine In]; [intros []|].
    intros [Heq|Hin]; [inversion Heq; subst; assumption|apply IH; assumption]. }
  assert (Hnd : NoDup (snd (ikron_list L2))).
  { apply ikron_list_nodup.
    - apply Forall_forall. intros b Hb. subst L2. apply in_map_iff in Hb.
      destruct Hb as ([n m] & <- & Hin). apply slice_iblk_valid. cbn [fst snd]. subst L. clear E Hv.
      revert Hin. induction H as [|a b la lb Hab H IH]; cbn [combine In]; [intros []|].
      intros [Heq|Hin]; [inversion Heq; subst; assumption|apply IH; assumption].
    - apply Forall_forall. intros b Hb. subst L2. apply in_map_iff in Hb. destruct Hb as ([n m] & <- & _).
      unfold slice_iblk. cbn [snd]. apply seq_NoDup. }
  destruct (on_space_gather shs k (fst (ikron_list L2)) (snd (ikron_list L2)) Hv) as (idx' & (Heq & Hb) & _ & Hn).
  exists (pre shs k * (fst (ikron_list L2) * post shs k))%nat, idx'. split; [|split].
  - unfold ProofsKron.bg. rewrite Heq. reflexivity.
  - exact Hb.
  - apply Hn. exact Hnd.
Qed.

(* P = G^T with G a selection:  P^T P = I  (zero padding followed by its adjoint is the identity) *)
Theorem adjoint_of_selection_left_inverse N idx x i :
  NoDup idx -> (i < length idx)%nat ->
  apply (tr (bmat (btr (bgather N idx)))) (apply (bmat (btr (bgather N idx))) x) i = x i.
Proof.
  intros Hnd Hi. unfold Model.btr, Model.bgather, Model.bm, Model.bn, Model.bmat. cbn [fst snd].
  rewrite (tr_tr T). apply (gather_sel T t0 t1 tadd tmul topp RT); assumption.
Qed.

(* DomainTupleFieldInserter is the adjoint of extracting the single pixel [index] in sub-domain k *)
Theorem dtfi_is_adjoint_of_extract tshs k index :
  spec_dtfi T t1 tmul tshs k index = btr (spec_extract T t1 tmul tshs k [index]).
Proof. unfold Model.spec_dtfi, Model.spec_extract. rewrite btr_on_space. reflexivity. Qed.

Theorem value_inserter_is_adjoint_of_gather tsh index :
  spec_value_inserter T t1 tsh index = btr (bgather (prod tsh) [ravel tsh index]).
Proof. reflexivity. Qed.

(* ---------------- FFTShiftOperator: a permutation ---------------- *)
Definition shift_iblk (inverse : bool) (n : nat) : iblk :=
  let s := if inverse then (n - n / 2)%nat else (n / 2)%nat in
  (n, map (fun o => if Nat.ltb o s then (o + n - s)%nat else (o - s)%nat) (seq 0 n)).

Lemma shift_axis_bg inverse n : shift_axis T t1 inverse n = bg (shift_iblk inverse n).
Proof. reflexivity. Qed.

Definition iperm (b : iblk) : Prop := ivalid b /\ NoDup (snd b) /\ length (snd b) = fst b.

Lemma shift_iblk_perm inverse n : iperm (shift_iblk inverse n).
Proof.
  unfold iperm, ivalid, shift_iblk. cbn [fst snd].
  set (s := if inverse then (n - n / 2)%nat else (n / 2)%nat).
  assert (Hs : (s <= n)%nat).
  { subst s. destruct inverse; [lia|]. apply Nat.div_le_upper_bound; lia. }
  repeat split.
  - apply Forall_forall. intros i Hi. apply in_map_iff in Hi. destruct Hi as (o & <- & Ho). apply in_seq in Ho.
    destruct (Nat.ltb o s) eqn:E; [apply Nat.ltb_lt in E|apply Nat.ltb_ge in E]; lia.
  - apply NoDup_map_inj; [|apply seq_NoDup]. intros a b Ha Hb. apply in_seq in Ha, Hb.
    destruct (Nat.ltb a s) eqn:Ea; destruct (Nat.ltb b s) eqn:Eb; b2p; lia.
  - rewrite map_length, seq_length. reflexivity.
Qed.

Lemma ident_iperm n : iperm (n, seq 0 n).
Proof. unfold iperm, ivalid. cbn [fst snd]. repeat split; [apply (seq_bound 0)|apply seq_NoDup|apply seq_length]. Qed.

Lemma ikron_list_perm l : Forall iperm l -> iperm (ikron_list l).
Proof.
  intros H. unfold iperm. repeat split.
  - apply ikron_list_valid. eapply Forall_impl; [|exact H]. intros b Hb. apply Hb.
  - apply ikron_list_nodup; (eapply Forall_impl; [|exact H]); intros b Hb; apply Hb.
  - rewrite ikron_list_len, ikron_list_fst. f_equal. apply map_ext_in. intros b Hb.
    rewrite Forall_forall in H. apply (H b Hb).
Qed.

Theorem fftshift_spec shs sel inverse :
  exists b, spec_fftshift T t1 tmul shs sel inverse = bg b /\ iperm b.
Proof.
  unfold Model.spec_fftshift.
  set (f := fun p : list nat * bool => if snd p then ikron_list (map (shift_iblk inverse) (fst p)) else (prod (fst p), seq 0 (prod (fst p)))).
  assert (E : map (fun '(sh, c) => if (c : bool) then bkron_list (map (shift_axis T t1 inverse) sh) else bident (prod sh)) (combine shs sel)
              = map bg (map f (combine shs sel))).
  { rewrite map_map. apply map_ext. intros [sh c]. unfold f. cbn [fst snd]. destruct c.
    - rewrite <- bkron_list_bg, map_map. reflexivity.
    - apply (bident_bg T t1). }
  rewrite E, bkron_list_bg. eexists. split; [reflexivity|].
  apply ikron_list_perm. apply Forall_forall. intros b Hb. apply in_map_iff in Hb. destruct Hb as ([sh c] & <- & _).
  unfold f. cbn [fst snd]. destruct c; [|apply ident_iperm].
  apply ikron_list_perm. apply Forall_forall. intros b Hb. apply in_map_iff in Hb. destruct Hb as (n & <- & _).
  apply shift_iblk_perm.
Qed.

(* a permutation block: the transpose is the two-sided inverse *)
Theorem perm_inverse b x i :
  iperm b -> (i < fst b)%nat ->
  apply (tr (bmat (bg b))) (apply (bmat (bg b)) x) i = x i /\
  apply (bmat (bg b)) (apply (tr (bmat (bg b))) x) i = x i.
Proof.
  intros (Hv & Hnd & Hlen) Hi. destruct b as [n idx]. cbn [fst snd] in *.
  unfold ProofsKron.bg, Model.bgather, Model.bmat. cbn [fst snd]. split.
  - apply (gather_perm T t0 t1 tadd tmul topp RT n); assumption.
  - apply (gather_sel T t0 t1 tadd tmul topp RT); [assumption|lia].
Qed.

(* ---------------- WeightApplier / diagonal ---------------- *)
Lemma apply_diag_from ws s x o :
  apply (diag_from T s ws) x o = if Nat.leb s o && Nat.ltb o (s + length ws) then nth (o - s) ws 0 * x o else 0.
Proof.
  revert s. induction ws as [|w t IH]; intros s.
  - cbn [Model.diag_from length]. rewrite apply_nil.
    destruct (Nat.leb s o) eqn:E1; destruct (Nat.ltb o (s + 0)) eqn:E2; cbn [andb]; try reflexivity.
    apply Nat.leb_le in E1. apply Nat.ltb_lt in E2. lia.
  - cbn [Model.diag_from length]. rewrite apply_cons, IH.
    destruct (Nat.eqb s o) eqn:E0.
    + apply Nat.eqb_eq in E0. subst o.
      replace (Nat.leb (S s) s) with false by (symmetry; apply Nat.leb_gt; lia).
      replace (Nat.leb s s) with true by (symmetry; apply Nat.leb_le; lia).
      replace (Nat.ltb s (s + S (length t))) with true by (symmetry; apply Nat.ltb_lt; lia).
      rewrite Nat.sub_diag. cbn. ring.
    + apply Nat.eqb_neq in E0.
      destruct (Nat.leb (S s) o) eqn:E1; destruct (Nat.leb s o) eqn:E2; b2p; try lia; cbn [andb]; [|ring].
      replace (S s + length t)%nat with (s + S (length t))%nat by lia.
      destruct (Nat.ltb o (s + S (length t))); [|ring].
      replace (o - s)%nat with (S (o - S s)) by lia. cbn [nth]. ring.
Qed.

Theorem weight_times shs sel dvols power x o :
  (o < size shs)%nat ->
  apply (bmat (spec_weight T t1 tmul tinv shs sel dvols power)) x o
  = fold_right tmul 1 (map (fun '(c, dv) => if (c : bool) then tzpow T t1 tmul tinv dv power else 1) (combine sel dvols)) * x o.
Proof.
  intros Ho. unfold Model.spec_weight, Model.bmat, Model.diag. cbn [snd]. rewrite apply_diag_from, repeat_length.
  cbn [Nat.leb andb Nat.add]. rewrite Nat.sub_0_r, (nth_repeat_lt _ _ _ _ Ho). apply Nat.ltb_lt in Ho. rewrite Ho.
  reflexivity.
Qed.

(* ---------------- RegriddingOperator: two-point formula on one axis ---------------- *)
Theorem regrid_axis_times n bindex frac x o :
  length bindex = length frac -> (o < length bindex)%nat ->
  apply (bmat (regrid_axis T t1 tadd topp n bindex frac)) x o
  = (1 + topp (nth o frac 0)) * x (nth o bindex 0%nat) + nth o frac 0 * x (S (nth o bindex 0%nat)).
Proof.
  unfold Model.regrid_axis, Model.bmat. cbn [snd].
  intros Hlen Ho.
  assert (G : forall bs fs s' o', length bs = length fs ->
     apply (flat_map (fun '(o0, (b, f)) => [(o0, b, 1 + topp f); (o0, S b, f)]) (combine (seq s' (length bs)) (combine bs fs))) x o'
     = if Nat.leb s' o' && Nat.ltb o' (s' + length bs)
       then (1 + topp (nth (o' - s') fs 0)) * x (nth (o' - s') bs 0%nat) + nth (o' - s') fs 0 * x (S (nth (o' - s') bs 0%nat)) else 0).
  { induction bs as [|b bs IH]; intros fs s' o' Hl.
    - cbn [length seq combine flat_map]. rewrite apply_nil.
      destruct (Nat.leb s' o') eqn:E1; destruct (Nat.ltb o' (s' + 0)) eqn:E2; cbn [andb]; try reflexivity.
      b2p. lia.
    - destruct fs as [|f fs]; [discriminate|]. cbn [length seq combine flat_map app].
      rewrite !apply_cons, IH by (cbn in Hl; lia).
      destruct (Nat.eqb s' o') eqn:E0.
      + apply Nat.eqb_eq in E0. subst o'.
        replace (Nat.leb (S s') s') with false by (symmetry; apply Nat.leb_gt; lia).
        replace (Nat.leb s' s') with true by (symmetry; apply Nat.leb_le; lia).
        replace (Nat.ltb s' (s' + S (length bs))) with true by (symmetry; apply Nat.ltb_lt; lia).
        rewrite Nat.sub_diag. cbn. ring.
      + apply Nat.eqb_neq in E0.
        destruct (Nat.leb (S s') o') eqn:E1; destruct (Nat.leb s' o') eqn:E2; b2p; try lia; cbn [andb]; [|ring].
        replace (S s' + length bs)%nat with (s' + S (length bs))%nat by lia.
        destruct (Nat.ltb o' (s' + S (length bs))); [|ring].
        replace (o' - s')%nat with (S (o' - S s')) by lia. cbn [nth]. ring. }
  rewrite G by assumption. cbn [Nat.leb andb Nat.add]. apply Nat.ltb_lt in Ho. rewrite Ho, Nat.sub_0_r. reflexivity.
Qed.

End Ring.
