(* C14 -- executable model of NIFTy's classic conjugate gradient, QuadraticEnergy, the five iteration
   controllers and the mode arithmetic of InversionEnabler.  NO proofs in this file.

   Mirrors  /repo/nifty/cl/minimization/conjugate_gradient.py  (ConjugateGradient.__call__),
            /repo/nifty/cl/minimization/quadratic_energy.py     (QuadraticEnergy.__init__/at/at_with_grad),
            /repo/nifty/cl/minimization/iteration_controllers.py (start/check of the five controllers),
            /repo/nifty/cl/operators/inversion_enabler.py        (InversionEnabler.apply).

   Scalars: an arithmetic record WITHOUT laws (PrimFloat instance for the bit-exact replay).
   Vectors: an abstract type with elementwise operations as parameters; the operator A, the
   preconditioner, the inner product s_vdot(.).real and the norms are ORACLES (arbitrary functions). *)
From Coq Require Import List Bool Arith ZArith PrimFloat.
Import ListNotations.

Set Implicit Arguments.

Record arith (T : Type) : Type := {
  a_add : T -> T -> T;
  a_sub : T -> T -> T;
  a_mul : T -> T -> T;
  a_div : T -> T -> T;
  a_abs : T -> T;
  a_ltb : T -> T -> bool;      (* Python  x < y  *)
  a_leb : T -> T -> bool;      (* Python  x <= y *)
  a_eqb : T -> T -> bool;      (* Python  x == y *)
  a_isnan : T -> bool;         (* np.isnan *)
  a_zero : T;                  (* 0 / 0. *)
  a_half : T                   (* 0.5 *)
}.

Inductive status : Type := CONVERGED | CONTINUE | ERROR.

Definition status_eqb (a b : status) : bool :=
  match a, b with
  | CONVERGED, CONVERGED | CONTINUE, CONTINUE | ERROR, ERROR => true
  | _, _ => false
  end.

(* ---------------------------------------------------------------------------------------------- *)
(* Iteration controllers (iteration_controllers.py:148-520)                                         *)
(* ---------------------------------------------------------------------------------------------- *)

(* what a controller reads from the energy object *)
Record eobs (T : Type) : Type := {
  e_value : T;           (* energy.value *)
  e_gradnorm : T;        (* energy.gradient_norm *)
  e_gradinf : T          (* energy.gradient.norm(np.inf) *)
}.

Inductive ckind (T : Type) : Type :=
  | GradNorm (tol_abs_gradnorm tol_rel_gradnorm : option T)   (* GradientNormController *)
  | GradInf (tol : option T)                                   (* GradInfNormController *)
  | DeltaE (tol_rel_deltaE : T)                                (* DeltaEnergyController *)
  | AbsDeltaE (deltaE : T)                                     (* AbsDeltaEnergyController *)
  | Stoch (deltaE : T) (memory_length : nat).                  (* StochasticAbsDeltaEnergyController *)

Record cparams (T : Type) : Type := {
  c_kind : ckind T;
  c_level : Z;                 (* convergence_level *)
  c_limit : option Z           (* iteration_limit *)
}.

Record cstate (T : Type) : Type := {
  s_itcount : Z;               (* self._itcount *)
  s_ccount : Z;                (* self._ccount *)
  s_eold : T;                  (* self._Eold *)
  s_memory : list T;           (* self._memory *)
  s_tolrel : T                 (* self._tol_rel_gradnorm_now *)
}.

Section Controllers.
  Variable T : Type.
  Variable A : arith T.
  Variable std : list T -> T.            (* np.std(self._memory): oracle *)
  Variable P : cparams T.

  Notation "x <? y" := (a_ltb A x y).
  Notation "x <=? y" := (a_leb A x y).

  Definition pymax (a b : T) : T := if a <? b then b else a.    (* max(a, b): b if b > a else a *)

  (* the criterion ("inclvl") of one check call and the updated auxiliary state;
     [it] is self._itcount after the increment *)
  Definition criterion (st : cstate T) (it : Z) (e : eobs T) : bool * T * list T :=
    match c_kind P with
    | GradNorm tol_abs tol_rel =>
        (* if self._tol_abs_gradnorm is not None: if energy.gradient_norm <= self._tol_abs_gradnorm: inclvl = True
           if self._tol_rel_gradnorm is not None: if energy.gradient_norm <= self._tol_rel_gradnorm_now: inclvl = True *)
        let c1 := match tol_abs with Some t => e_gradnorm e <=? t | None => false end in
        let c2 := match tol_rel with Some _ => e_gradnorm e <=? s_tolrel st | None => false end in
        (c1 || c2, s_eold st, s_memory st)
    | GradInf tol =>
        (* crit = energy.gradient.norm(np.inf) / abs(energy.value)
           if self._tol is not None and crit <= self._tol *)
        let crit := a_div A (e_gradinf e) (a_abs A (e_value e)) in
        (match tol with Some t => crit <=? t | None => false end, s_eold st, s_memory st)
    | DeltaE tol =>
        (* Eval = energy.value
           scale = max(abs(self._Eold), abs(Eval))
           rel = abs(self._Eold-Eval)/scale if scale != 0 else 0.
           if self._itcount > 0: if rel < self._tol_rel_deltaE: inclvl = True
           self._Eold = Eval *)
        let Eval := e_value e in
        let scale := pymax (a_abs A (s_eold st)) (a_abs A Eval) in
        let rel := if negb (a_eqb A scale (a_zero A))
                   then a_div A (a_abs A (a_sub A (s_eold st) Eval)) scale else a_zero A in
        ((0 <? it)%Z && (rel <? tol), Eval, s_memory st)
    | AbsDeltaE deltaE =>
        (* diff = abs(self._Eold-Eval); if self._itcount > 0: if diff < self._deltaE: inclvl = True *)
        let Eval := e_value e in
        let diff := a_abs A (a_sub A (s_eold st) Eval) in
        ((0 <? it)%Z && (diff <? deltaE), Eval, s_memory st)
    | Stoch deltaE memlen =>
        (* self._memory.append(Eval)
           if len(self._memory) > self.memory_length: self._memory = self._memory[1:]
           diff = np.std(self._memory); if self._itcount > 0: if diff < self._deltaE: inclvl = True *)
        let mem := s_memory st ++ [e_value e] in
        let mem := if Nat.ltb memlen (length mem) then tl mem else mem in
        ((0 <? it)%Z && (std mem <? deltaE), s_eold st, mem)
    end.

  Definition check (st : cstate T) (e : eobs T) : cstate T * status :=
    (* self._itcount += 1 *)
    let it := (s_itcount st + 1)%Z in
    let '(inclvl, eold, mem) := criterion st it e in
    (* if inclvl: self._ccount += 1  else: self._ccount = max(0, self._ccount-1) *)
    let cc := if inclvl then (s_ccount st + 1)%Z else Z.max 0 (s_ccount st - 1) in
    let st' := {| s_itcount := it; s_ccount := cc; s_eold := eold; s_memory := mem;
                  s_tolrel := s_tolrel st |} in
    (* if self._iteration_limit is not None: if self._itcount >= self._iteration_limit: return CONVERGED
       if self._ccount >= self._convergence_level: return CONVERGED
       return CONTINUE *)
    let lim := match c_limit P with Some L => (L <=? it)%Z | None => false end in
    (st', if lim then CONVERGED else if (c_level P <=? cc)%Z then CONVERGED else CONTINUE).

  Definition start (e : eobs T) : cstate T * status :=
    (* self._itcount = -1; self._ccount = 0; [self._Eold = 0.] [self._memory = []]
       [self._tol_rel_gradnorm_now = self._tol_rel_gradnorm * energy.gradient_norm]
       return self.check(energy) *)
    let tolrel := match c_kind P with
                  | GradNorm _ (Some t) => a_mul A t (e_gradnorm e)
                  | _ => a_zero A
                  end in
    check {| s_itcount := (-1)%Z; s_ccount := 0%Z; s_eold := a_zero A; s_memory := [];
             s_tolrel := tolrel |} e.

  (* the statuses of start followed by check on a list of observations, stopping at the first
     status other than CONTINUE (as every minimiser does) *)
  Fixpoint run_checks (st : cstate T) (es : list (eobs T)) : list status :=
    match es with
    | [] => []
    | e :: es' => let '(st', s) := check st e in
                  s :: match s with CONTINUE => run_checks st' es' | _ => [] end
    end.
  Definition run_controller (es : list (eobs T)) : list status :=
    match es with
    | [] => []
    | e :: es' => let '(st, s) := start e in
                  s :: match s with CONTINUE => run_checks st es' | _ => [] end
    end.
End Controllers.

(* ---------------------------------------------------------------------------------------------- *)
(* QuadraticEnergy and ConjugateGradient.__call__                                                   *)
(* ---------------------------------------------------------------------------------------------- *)

Record qenergy (T V : Type) : Type := {
  q_pos : V;             (* self._position *)
  q_grad : V;            (* self._grad *)
  q_value : T            (* self._value *)
}.

Inductive cg_exit : Type :=
  | ExStart              (* controller.start(energy) != CONTINUE *)
  | ExGamma0NaN          (* previous_gamma is NaN *)
  | ExGamma0Zero         (* previous_gamma == 0 *)
  | ExCurvNaN | ExCurvZero | ExAlphaNeg
  | ExGammaNaN | ExGammaNeg
  | ExGammaZero          (* gamma == 0 *)
  | ExCheck              (* controller.check(energy) != CONTINUE *)
  | ExFuel.              (* model only: out of fuel (the Python loop is `while True`) *)

Section CG.
  Variable T : Type.
  Variable A : arith T.
  Variable V : Type.
  Variables (vadd vsub : V -> V -> V).       (* u + v, u - v *)
  Variable vscale : V -> T -> V.             (* v*a  (Field * scalar) *)
  Variable smul : T -> V -> V.               (* a*v  (scalar * Field) *)
  Variable opA : V -> V.                     (* self._A(x) *)
  Variable b : option V.                     (* self._b *)
  Variable prec : option (V -> V).           (* preconditioner *)
  Variable vdot : V -> V -> T.               (* u.s_vdot(v).real *)

  (* QuadraticEnergy.__init__(position, A, b, _grad) *)
  Definition qe_make (position : V) (_grad : option V) : qenergy T V :=
    let '(grad, Ax) :=
      match _grad with
      | Some g =>
          (* self._grad = _grad;  Ax = _grad if b is None else _grad + b *)
          (g, match b with None => g | Some bb => vadd g bb end)
      | None =>
          (* Ax = self._A(self._position);  self._grad = Ax if b is None else Ax - b *)
          let Ax := opA position in
          (match b with None => Ax | Some bb => vsub Ax bb end, Ax)
      end in
    (* self._value = 0.5*self._position.s_vdot(Ax).real
       if b is not None: self._value -= b.s_vdot(self._position).real *)
    let v := a_mul A (a_half A) (vdot position Ax) in
    let v := match b with None => v | Some bb => a_sub A v (vdot bb position) end in
    {| q_pos := position; q_grad := grad; q_value := v |}.

  Definition qe_at (position : V) : qenergy T V := qe_make position None.
  Definition qe_at_with_grad (position grad : V) : qenergy T V := qe_make position (Some grad).

  (* controller: any state machine over energies *)
  Variable CS : Type.
  Variable ctrl_start : qenergy T V -> CS * status.
  Variable ctrl_check : CS -> qenergy T V -> CS * status.
  Variable nreset : Z.

  Definition precond (r : V) : V := match prec with None => r | Some p => p r end.

  (* result: returned energy, status, why, number of completed position updates *)
  Definition cg_result : Type := qenergy T V * status * cg_exit * nat.

  Fixpoint cg_loop (fuel : nat) (n : nat) (ii : Z) (energy : qenergy T V) (r d : V)
           (previous_gamma : T) (cs : CS) : cg_result :=
    match fuel with
    | O => (energy, CONTINUE, ExFuel, n)
    | S fuel' =>
        (* q = energy.apply_metric(d); curv = d.s_vdot(q).real *)
        let q := opA d in
        let curv := vdot d q in
        (* if np.isnan(curv): return energy, controller.ERROR *)
        if a_isnan A curv then (energy, ERROR, ExCurvNaN, n)
        (* if curv == 0.: return energy, controller.ERROR *)
        else if a_eqb A curv (a_zero A) then (energy, ERROR, ExCurvZero, n)
        else
          (* alpha = previous_gamma/curv;  if alpha < 0: return energy, controller.ERROR *)
          let alpha := a_div A previous_gamma curv in
          if a_ltb A alpha (a_zero A) then (energy, ERROR, ExAlphaNeg, n)
          else
            (* ii += 1
               if ii < self._nreset:
                   r = r - q*alpha
                   energy = energy.at_with_grad(energy.position - alpha*d, r)
               else:
                   energy = energy.at(energy.position - alpha*d); r = energy.gradient; ii = 0 *)
            let ii := (ii + 1)%Z in
            let newpos := vsub (q_pos energy) (smul alpha d) in
            let '(energy, r, ii) :=
              if (ii <? nreset)%Z then
                let r := vsub r (vscale q alpha) in (qe_at_with_grad newpos r, r, ii)
              else
                let e := qe_at newpos in (e, q_grad e, 0%Z) in
            let n := S n in
            (* s = r if preconditioner is None else preconditioner(r); gamma = r.s_vdot(s).real *)
            let s := precond r in
            let gamma := vdot r s in
            (* if np.isnan(gamma): ERROR;  if gamma < 0: ERROR;  if gamma == 0: CONVERGED *)
            if a_isnan A gamma then (energy, ERROR, ExGammaNaN, n)
            else if a_ltb A gamma (a_zero A) then (energy, ERROR, ExGammaNeg, n)
            else if a_eqb A gamma (a_zero A) then (energy, CONVERGED, ExGammaZero, n)
            else
              (* status = controller.check(energy); if status != controller.CONTINUE: return *)
              let '(cs, st) := ctrl_check cs energy in
              match st with
              | CONTINUE =>
                  (* d = d * max(0, gamma/previous_gamma) + s;  previous_gamma = gamma *)
                  let ratio := a_div A gamma previous_gamma in
                  let fac := if a_ltb A (a_zero A) ratio then ratio else a_zero A in
                  cg_loop fuel' n ii energy r (vadd (vscale d fac) s) gamma cs
              | _ => (energy, st, ExCheck, n)
              end
    end.

  Definition cg (fuel : nat) (energy : qenergy T V) : cg_result :=
    (* status = controller.start(energy); if status != controller.CONTINUE: return energy, status *)
    let '(cs, st) := ctrl_start energy in
    match st with
    | CONTINUE =>
        (* r = energy.gradient;  d = r if preconditioner is None else preconditioner(r)
           previous_gamma = r.s_vdot(d).real *)
        let r := q_grad energy in
        let d := precond r in
        let previous_gamma := vdot r d in
        if a_isnan A previous_gamma then (energy, ERROR, ExGamma0NaN, 0)
        else if a_eqb A previous_gamma (a_zero A) then (energy, CONVERGED, ExGamma0Zero, 0)
        else cg_loop fuel 0 0%Z energy r d previous_gamma cs
    | _ => (energy, st, ExStart, 0)
    end.
End CG.

(* ---------------------------------------------------------------------------------------------- *)
(* InversionEnabler.apply: which mode of the wrapped operator / of the approximation is used        *)
(* (tables come from the translator: Gen_tables.v)                                                  *)
(* ---------------------------------------------------------------------------------------------- *)

Inductive ie_plan : Type :=
  | IeDirect (mode : nat)                   (* return self._op.apply(x, mode) *)
  | IeSolve (op_mode prec_mode : nat)       (* CG on QuadraticEnergy(0, invop, x): invop(v) applies
                                               the wrapped operator in [op_mode]; the preconditioner
                                               applies the approximation in [prec_mode] *)
  | IeRefuse.                               (* _check_mode raises NotImplementedError *)

Section IE.
  Variables ilog : list Z.
  Variable validMode : list bool.
  Variable modeTable : list (list nat).
  Variable addInverse : list nat.
  Variable INVERSE_BIT : nat.

  Definition tab2 (t i : nat) : nat := nth i (nth t modeTable []) 0.
  Definition ilogn (m : nat) : nat := Z.to_nat (nth m ilog (-1)%Z).

  (* OperatorAdapter(op, trafo).apply(x, mode) = op.apply(x, _modeTable[trafo][_ilog[mode]]);
     op._flip_modes(0) = op *)
  Definition flipped_mode (trafo mode : nat) : nat := tab2 trafo (ilogn mode).

  Definition ie_apply (op_cap mode : nat) : ie_plan :=
    (* self._check_mode(mode): valid mode and  mode & self.capability != 0,
       self._capability = self._addInverse[self._op.capability] *)
    if negb (nth mode validMode false) then IeRefuse
    else if Nat.eqb (Nat.land mode (nth op_cap addInverse 0)) 0 then IeRefuse
    (* if self._op.capability & mode: return self._op.apply(x, mode) *)
    else if negb (Nat.eqb (Nat.land op_cap mode) 0) then IeDirect mode
    else
      (* invmode = self._modeTable[self.INVERSE_BIT][self._ilog[mode]]
         invop = self._op._flip_modes(self._ilog[invmode])
         prec = prec._flip_modes(self._ilog[mode])
         CG applies invop and prec in mode TIMES = 1 *)
      let invmode := tab2 INVERSE_BIT (ilogn mode) in
      IeSolve (flipped_mode (ilogn invmode) 1) (flipped_mode (ilogn mode) 1).
End IE.

(* ---------------------------------------------------------------------------------------------- *)
(* InversionEnabler.apply, the numerical branch (inversion_enabler.py:66-77): the glue around CG      *)
(* ---------------------------------------------------------------------------------------------- *)

Section IESolve.
  Variable T : Type.
  Variable A : arith T.
  Variable V : Type.
  Variables (vadd vsub : V -> V -> V).
  Variable vscale : V -> T -> V.
  Variable smul : T -> V -> V.
  Variable vdot : V -> V -> T.
  Variable CS : Type.
  Variable ctrl_start : qenergy T V -> CS * status.      (* self._ic *)
  Variable ctrl_check : CS -> qenergy T V -> CS * status.
  Variable zero : V.                                     (* full(x.domain, 0.) *)

  (* x0 = full(x.domain, 0.);  energy = QuadraticEnergy(x0, invop, x) *)
  Definition ie_energy0 (invop : V -> V) (x : V) : qenergy T V :=
    qe_at A vadd vsub invop (Some x) vdot zero.

  (* inverter = ConjugateGradient(self._ic)             -- nreset = 20 (default of __init__)
     r, stat = inverter(energy, preconditioner=prec)
     if stat != IterationController.CONVERGED: logger.warning(...)
     return r.position
     result: (returned field, final energy, warning logged?) *)
  Definition ie_solve (invop : V -> V) (prec : option (V -> V)) (x : V) (fuel : nat)
    : V * qenergy T V * bool :=
    let '(r, stat, _, _) := cg A vadd vsub vscale smul invop (Some x) prec vdot ctrl_start ctrl_check
                               20%Z fuel (ie_energy0 invop x) in
    (q_pos r, r, negb (status_eqb stat CONVERGED)).
End IESolve.

(* ---------------------------------------------------------------------------------------------- *)
(* IEEE instance and replay of recorded runs                                                        *)
(* ---------------------------------------------------------------------------------------------- *)

Definition float_arith : arith float := {|
  a_add := PrimFloat.add; a_sub := PrimFloat.sub; a_mul := PrimFloat.mul; a_div := PrimFloat.div;
  a_abs := PrimFloat.abs;
  a_ltb := PrimFloat.ltb; a_leb := PrimFloat.leb; a_eqb := PrimFloat.eqb;
  a_isnan := PrimFloat.is_nan;
  a_zero := 0%float; a_half := 0.5%float
|}.

Definition fsame (x y : float) : bool :=
  PrimFloat.eqb x y || (PrimFloat.is_nan x && PrimFloat.is_nan y).

Fixpoint list_same {X : Type} (f : X -> X -> bool) (l m : list X) : bool :=
  match l, m with
  | [], [] => true
  | x :: l', y :: m' => f x y && list_same f l' m'
  | _, _ => false
  end.

Definition vsame := list_same fsame.

(* np.std values are supplied by the harness keyed by the memory list *)
Fixpoint lookup_std (tab : list (list float * float)) (m : list float) : float :=
  match tab with
  | [] => PrimFloat.nan
  | (k, v) :: tab' => if vsame k m then v else lookup_std tab' m
  end.

Definition ctrl_case (P : cparams float) (stds : list (list float * float))
           (es : list (eobs float)) (want : list status) : bool :=
  list_same status_eqb (run_controller float_arith (lookup_std stds) P es) want.

(* vectors = lists of doubles, elementwise operations as NumPy performs them *)
Fixpoint map2 {X Y Z : Type} (f : X -> Y -> Z) (l : list X) (m : list Y) : list Z :=
  match l, m with
  | x :: l', y :: m' => f x y :: map2 f l' m'
  | _, _ => []
  end.
Definition fv_add := map2 PrimFloat.add.
Definition fv_sub := map2 PrimFloat.sub.
Definition fv_scale (v : list float) (a : float) := map (fun x => PrimFloat.mul x a) v.
Definition fv_smul (a : float) (v : list float) := map (fun x => PrimFloat.mul a x) v.

Fixpoint lookup_vec (tab : list (list float * list float)) (x : list float) : list float :=
  match tab with
  | [] => []
  | (k, v) :: tab' => if vsame k x then v else lookup_vec tab' x
  end.
Fixpoint lookup_dot (tab : list (list float * list float * float)) (x y : list float) : float :=
  match tab with
  | [] => PrimFloat.nan
  | (k1, k2, v) :: tab' => if vsame k1 x && vsame k2 y then v else lookup_dot tab' x y
  end.

Definition exit_converged_ok (e : cg_exit) : bool :=
  match e with ExStart | ExGamma0Zero | ExGammaZero | ExCheck => true | _ => false end.

(* One recorded CG run on a real system: the operator / preconditioner / inner products / norms are
   the recorded input-output tables of the implementation; everything else (elementwise updates,
   QuadraticEnergy bookkeeping, controller, control flow) is computed by the model.  Compared:
   status, number of position updates, returned position, gradient and value -- bit for bit. *)
Definition cg_case (P : cparams float) (stds : list (list float * float))
           (opA_tab prec_tab : list (list float * list float)) (has_prec : bool)
           (dot_tab : list (list float * list float * float))
           (norm2_tab norminf_tab : list (list float * float))
           (b : option (list float)) (nreset : Z) (x0 : list float) (fuel : nat)
           (want_status : status) (want_n : nat) (want_pos want_grad : list float) (want_value : float)
  : bool :=
  let opA := lookup_vec opA_tab in
  let prec := if has_prec then Some (lookup_vec prec_tab) else None in
  let vdot := lookup_dot dot_tab in
  let obs := fun e : qenergy float (list float) =>
    {| e_value := q_value e; e_gradnorm := lookup_std norm2_tab (q_grad e);
       e_gradinf := lookup_std norminf_tab (q_grad e) |} in
  let cstart := fun e => start float_arith (lookup_std stds) P (obs e) in
  let ccheck := fun cs e => check float_arith (lookup_std stds) P cs (obs e) in
  let e0 := qe_at float_arith fv_add fv_sub opA b vdot x0 in
  let '(e, st, ex, n) := cg float_arith fv_add fv_sub fv_scale fv_smul opA b prec vdot cstart ccheck
                            nreset fuel e0 in
  status_eqb st want_status && Nat.eqb n want_n && vsame (q_pos e) want_pos &&
  vsame (q_grad e) want_grad && fsame (q_value e) want_value.

Definition plan_eqb (a b : ie_plan) : bool :=
  match a, b with
  | IeDirect m, IeDirect m' => Nat.eqb m m'
  | IeSolve o p, IeSolve o' p' => Nat.eqb o o' && Nat.eqb p p'
  | IeRefuse, IeRefuse => true
  | _, _ => false
  end.

(* Start of the numerical branch of InversionEnabler.apply on a real (complex: re/im interleaved) system:
   [first_in] is the first argument the wrapped operator received (must be x0 = 0), [op0] what it returned
   for it, [second_in] the argument of the NEXT application (of the approximation if there is one, else of
   the wrapped operator): the start residual  invop(x0) - x  of QuadraticEnergy(x0, invop, x). *)
Definition ie_start_case (zero x first_in op0 second_in : list float) : bool :=
  let e0 := ie_energy0 float_arith fv_add fv_sub (fun _ _ : list float => PrimFloat.nan) zero
                       (fun _ => op0) x in
  vsame (q_pos e0) first_in && vsame (q_grad e0) second_in.
