(* C14 -- lemmas about the controller / CG / QuadraticEnergy / InversionEnabler models. *)
From Coq Require Import List Bool Arith ZArith Lia.
Import ListNotations.
Require Import NV.C14.Model NV.C14.Gen_tables.

Set Implicit Arguments.

(* ---------------------------------------------------------------------------------------------- *)
(* Controllers: CONVERGED only if the criterion held in that very call, or the limit was reached     *)
(* ---------------------------------------------------------------------------------------------- *)
Section Ctrl.
  Variable T : Type.
  Variable A : arith T.
  Variable std : list T -> T.
  Variable P : cparams T.

  (* the criterion ("inclvl") evaluated by the call [check st e] *)
  Definition crit_at (st : cstate T) (e : eobs T) : bool :=
    fst (fst (criterion A std P st (s_itcount st + 1) e)).

  Definition limit_hit (it : Z) : Prop := exists L, c_limit P = Some L /\ (L <= it)%Z.

  Lemma check_spec : forall st e st' s,
      check A std P st e = (st', s) ->
      s_itcount st' = (s_itcount st + 1)%Z /\
      s_ccount st' = (if crit_at st e then s_ccount st + 1 else Z.max 0 (s_ccount st - 1))%Z /\
      s <> ERROR /\
      (s = CONVERGED -> limit_hit (s_itcount st') \/ (c_level P <= s_ccount st')%Z) /\
      (s = CONTINUE -> (s_ccount st' < c_level P)%Z).
  Proof.
    intros st e st' s H. unfold check in H. unfold crit_at.
    destruct (criterion A std P st (s_itcount st + 1) e) as [[inc eold] mem]. simpl fst.
    inversion H; subst; clear H. cbn [s_itcount s_ccount].
    split; [reflexivity|]. split; [reflexivity|].
    destruct (c_limit P) as [L|] eqn:HL.
    - destruct (Z.leb_spec L (s_itcount st + 1)).
      + repeat split; try discriminate. intros _. left. exists L. auto.
      + destruct (Z.leb_spec (c_level P)
                    (if inc then (s_ccount st + 1)%Z else Z.max 0 (s_ccount st - 1))).
        * repeat split; try discriminate. intros _. right. assumption.
        * repeat split; try discriminate. intros _. assumption.
    - destruct (Z.leb_spec (c_level P)
                  (if inc then (s_ccount st + 1)%Z else Z.max 0 (s_ccount st - 1))).
      + repeat split; try discriminate. intros _. right. assumption.
      + repeat split; try discriminate. intros _. assumption.
  Qed.

  Definition init_state (e : eobs T) : cstate T :=
    {| s_itcount := (-1)%Z; s_ccount := 0%Z; s_eold := a_zero A; s_memory := [];
       s_tolrel := match c_kind P with
                   | GradNorm _ (Some t) => a_mul A t (e_gradnorm e)
                   | _ => a_zero A
                   end |}.

  Lemma start_is_check : forall e, start A std P e = check A std P (init_state e) e.
  Proof. reflexivity. Qed.

  (* states in which the iteration is still going on *)
  Inductive running (e0 : eobs T) : cstate T -> Prop :=
  | run_start : forall st, start A std P e0 = (st, CONTINUE) -> running e0 st
  | run_check : forall st e st', running e0 st -> check A std P st e = (st', CONTINUE) ->
                                 running e0 st'.

  Lemma check_tolrel : forall st e st' s, check A std P st e = (st', s) -> s_tolrel st' = s_tolrel st.
  Proof.
    intros st e st' s H. unfold check in H.
    destruct (criterion A std P st (s_itcount st + 1) e) as [[inc eold] mem].
    inversion H; subst. reflexivity.
  Qed.

  (* the relative tolerance is fixed at start: tol_rel_gradnorm * (gradient norm at the start) *)
  Lemma running_tolrel : forall e0 st, running e0 st -> s_tolrel st = s_tolrel (init_state e0).
  Proof.
    intros e0 st H. induction H as [st H | st e st' Hr IH H].
    - rewrite start_is_check in H. apply check_tolrel in H. exact H.
    - apply check_tolrel in H. congruence.
  Qed.

  Lemma running_inv : (1 <= c_level P)%Z -> forall e0 st, running e0 st ->
      (0 <= s_ccount st < c_level P)%Z /\ (0 <= s_itcount st)%Z.
  Proof.
    intros Hl e0 st H. induction H as [st H | st e st' Hr IH H].
    - rewrite start_is_check in H. apply check_spec in H.
      destruct H as (Hi & Hc & _ & _ & Hcont). specialize (Hcont eq_refl).
      simpl in Hi, Hc. split; [|lia].
      destruct (crit_at (init_state e0) e0); lia.
    - apply check_spec in H. destruct H as (Hi & Hc & _ & _ & Hcont). specialize (Hcont eq_refl).
      destruct (crit_at st e); lia.
  Qed.

  Lemma converged_check : (1 <= c_level P)%Z -> forall e0 st e st',
      running e0 st -> check A std P st e = (st', CONVERGED) ->
      crit_at st e = true \/ limit_hit (s_itcount st').
  Proof.
    intros Hl e0 st e st' Hr H. destruct (running_inv Hl Hr) as [Hc0 _].
    apply check_spec in H. destruct H as (_ & Hc & _ & Hconv & _).
    destruct (Hconv eq_refl) as [Hlim | Hlev]; [right; assumption|].
    destruct (crit_at st e); [left; reflexivity|]. lia.
  Qed.

  Lemma converged_start : (1 <= c_level P)%Z -> forall e st',
      start A std P e = (st', CONVERGED) ->
      crit_at (init_state e) e = true \/ limit_hit 0.
  Proof.
    intros Hl e st' H. rewrite start_is_check in H.
    apply check_spec in H. destruct H as (Hi & Hc & _ & Hconv & _).
    simpl in Hi, Hc. destruct (Hconv eq_refl) as [Hlim | Hlev].
    - right. rewrite Hi in Hlim. exact Hlim.
    - destruct (crit_at (init_state e) e); [left; reflexivity|]. lia.
  Qed.

  Lemma never_error : forall st e, snd (check A std P st e) <> ERROR.
  Proof.
    intros st e. destruct (check A std P st e) as [st' s] eqn:H.
    apply check_spec in H. simpl. tauto.
  Qed.
End Ctrl.

(* ---------------------------------------------------------------------------------------------- *)
(* CG: which exits report which status                                                              *)
(* ---------------------------------------------------------------------------------------------- *)
Section CGflow.
  Variable T : Type.
  Variable A : arith T.
  Variable V : Type.
  Variables (vadd vsub : V -> V -> V) (vscale : V -> T -> V) (smul : T -> V -> V).
  Variable opA : V -> V.
  Variable b : option V.
  Variable prec : option (V -> V).
  Variable vdot : V -> V -> T.
  Variable CS : Type.
  Variable ctrl_start : qenergy T V -> CS * status.
  Variable ctrl_check : CS -> qenergy T V -> CS * status.
  Variable nreset : Z.
  (* any invariant of the controller state that start establishes and CONTINUE preserves *)
  Variable Inv : CS -> Prop.
  Hypothesis Inv_start : forall e cs, ctrl_start e = (cs, CONTINUE) -> Inv cs.
  Hypothesis Inv_check : forall cs e cs', Inv cs -> ctrl_check cs e = (cs', CONTINUE) -> Inv cs'.

  Notation cgl := (cg_loop A vadd vsub vscale smul opA b prec vdot ctrl_check nreset).
  Notation cgm := (cg A vadd vsub vscale smul opA b prec vdot ctrl_start ctrl_check nreset).
  Notation pre := (precond prec).

  Definition gamma_of (e : qenergy T V) : T := vdot (q_grad e) (pre (q_grad e)).

  (* what each exit means for the returned pair *)
  Definition exit_ok (e0 e' : qenergy T V) (st : status) (ex : cg_exit) : Prop :=
    match ex with
    | ExStart => e' = e0 /\ snd (ctrl_start e0) = st /\ st <> CONTINUE
    | ExGamma0NaN => e' = e0 /\ st = ERROR /\ a_isnan A (gamma_of e0) = true
    | ExGamma0Zero => e' = e0 /\ st = CONVERGED /\ a_eqb A (gamma_of e0) (a_zero A) = true
    | ExCurvNaN | ExCurvZero | ExAlphaNeg => st = ERROR
    | ExGammaNaN => st = ERROR /\ a_isnan A (gamma_of e') = true
    | ExGammaNeg => st = ERROR /\ a_ltb A (gamma_of e') (a_zero A) = true
    | ExGammaZero => st = CONVERGED /\ a_eqb A (gamma_of e') (a_zero A) = true
    | ExCheck => (exists cs, Inv cs /\ snd (ctrl_check cs e') = st) /\ st <> CONTINUE
    | ExFuel => st = CONTINUE
    end.

  Lemma cg_loop_exit : forall fuel n ii energy r d pg cs e' st ex n',
      Inv cs ->
      cgl fuel n ii energy r d pg cs = (e', st, ex, n') ->
      ex <> ExStart /\ ex <> ExGamma0NaN /\ ex <> ExGamma0Zero /\ exit_ok energy e' st ex.
  Proof.
    induction fuel as [|fuel IH]; intros until n'; intros HI H.
    - simpl in H. inversion H; subst. repeat split; try discriminate.
    - cbn [cg_loop] in H.
      destruct (a_isnan A (vdot d (opA d))).
      { inversion H; subst. repeat split; try discriminate. }
      destruct (a_eqb A (vdot d (opA d)) (a_zero A)).
      { inversion H; subst. repeat split; try discriminate. }
      destruct (a_ltb A (a_div A pg (vdot d (opA d))) (a_zero A)).
      { inversion H; subst. repeat split; try discriminate. }
      set (alpha := a_div A pg (vdot d (opA d))) in *.
      set (newpos := vsub (q_pos energy) (smul alpha d)) in *.
      destruct (ii + 1 <? nreset)%Z.
      + (* recurrence branch: r is the stored gradient of the new energy *)
        set (r1 := vsub r (vscale (opA d) alpha)) in *.
        set (e1 := qe_at_with_grad A vadd vsub opA b vdot newpos r1) in *.
        assert (Hg : q_grad e1 = r1).
        { unfold e1, qe_at_with_grad, qe_make. destruct b; reflexivity. }
        destruct (a_isnan A (vdot r1 (pre r1))) eqn:E1.
        { inversion H; subst. repeat split; try discriminate. unfold gamma_of. rewrite Hg. exact E1. }
        destruct (a_ltb A (vdot r1 (pre r1)) (a_zero A)) eqn:E2.
        { inversion H; subst. repeat split; try discriminate. unfold gamma_of. rewrite Hg. exact E2. }
        destruct (a_eqb A (vdot r1 (pre r1)) (a_zero A)) eqn:E3.
        { inversion H; subst. repeat split; try discriminate. unfold gamma_of. rewrite Hg. exact E3. }
        destruct (ctrl_check cs e1) as [cs' s1] eqn:Hc.
        destruct s1.
        * inversion H; subst. repeat split; try discriminate. exists cs. rewrite Hc. auto.
        * apply IH in H; [|eapply Inv_check; eassumption]. destruct H as (H1 & H2 & H3 & H4). repeat split; auto.
          destruct ex; simpl in *; auto; try (exfalso; congruence).
        * inversion H; subst. repeat split; try discriminate. exists cs. rewrite Hc. auto.
      + (* reset branch *)
        set (e1 := qe_at A vadd vsub opA b vdot newpos) in *.
        destruct (a_isnan A (vdot (q_grad e1) (pre (q_grad e1)))) eqn:E1.
        { inversion H; subst. repeat split; try discriminate. exact E1. }
        destruct (a_ltb A (vdot (q_grad e1) (pre (q_grad e1))) (a_zero A)) eqn:E2.
        { inversion H; subst. repeat split; try discriminate. exact E2. }
        destruct (a_eqb A (vdot (q_grad e1) (pre (q_grad e1))) (a_zero A)) eqn:E3.
        { inversion H; subst. repeat split; try discriminate. exact E3. }
        destruct (ctrl_check cs e1) as [cs' s1] eqn:Hc.
        destruct s1.
        * inversion H; subst. repeat split; try discriminate. exists cs. rewrite Hc. auto.
        * apply IH in H; [|eapply Inv_check; eassumption]. destruct H as (H1 & H2 & H3 & H4). repeat split; auto.
          destruct ex; simpl in *; auto; try (exfalso; congruence).
        * inversion H; subst. repeat split; try discriminate. exists cs. rewrite Hc. auto.
  Qed.

  Lemma cg_exit_ok : forall fuel e0 e' st ex n,
      cgm fuel e0 = (e', st, ex, n) -> exit_ok e0 e' st ex.
  Proof.
    intros until n; intro H. unfold cg in H.
    destruct (ctrl_start e0) as [cs s0] eqn:Hs.
    destruct s0.
    - inversion H; subst. simpl. rewrite Hs. repeat split; discriminate.
    - destruct (a_isnan A (vdot (q_grad e0) (pre (q_grad e0)))) eqn:E1.
      { inversion H; subst. simpl. auto. }
      destruct (a_eqb A (vdot (q_grad e0) (pre (q_grad e0))) (a_zero A)) eqn:E2.
      { inversion H; subst. simpl. auto. }
      apply cg_loop_exit in H; [|eapply Inv_start; eassumption]. destruct H as (H1 & H2 & H3 & H4).
      destruct ex; simpl in *; auto; try (exfalso; congruence).
    - inversion H; subst. simpl. rewrite Hs. repeat split; discriminate.
  Qed.

  (* CONVERGED only through the controller or through gamma == 0 *)
  Lemma cg_converged : forall fuel e0 e' ex n,
      cgm fuel e0 = (e', CONVERGED, ex, n) ->
      (ex = ExStart /\ e' = e0 /\ snd (ctrl_start e0) = CONVERGED) \/
      (ex = ExGamma0Zero /\ e' = e0 /\ a_eqb A (gamma_of e0) (a_zero A) = true) \/
      (ex = ExGammaZero /\ a_eqb A (gamma_of e') (a_zero A) = true) \/
      (ex = ExCheck /\ exists cs, Inv cs /\ snd (ctrl_check cs e') = CONVERGED).
  Proof.
    intros until n; intro H. apply cg_exit_ok in H.
    destruct ex; simpl in H; intuition (try discriminate; eauto).
  Qed.

  (* the numerical failure exits never report CONVERGED *)
  Lemma cg_error_exits : forall fuel e0 e' st ex n,
      cgm fuel e0 = (e', st, ex, n) ->
      In ex [ExGamma0NaN; ExCurvNaN; ExCurvZero; ExAlphaNeg; ExGammaNaN; ExGammaNeg] -> st = ERROR.
  Proof.
    intros until n; intros H Hin. apply cg_exit_ok in H.
    simpl in Hin. destruct Hin as [<-|[<-|[<-|[<-|[<-|[<-|[]]]]]]]; simpl in H; tauto.
  Qed.
End CGflow.

(* ---------------------------------------------------------------------------------------------- *)
(* Residual invariant: stored gradient = A x - b, stored value = 1/2 x.Ax - b.x                      *)
(* (needs: A linear, and two identities of vector subtraction)                                      *)
(* ---------------------------------------------------------------------------------------------- *)
Section Residual.
  Variable T : Type.
  Variable A : arith T.
  Variable V : Type.
  Variables (vadd vsub : V -> V -> V) (vscale : V -> T -> V) (smul : T -> V -> V).
  Variable opA : V -> V.
  Variable b : option V.
  Variable prec : option (V -> V).
  Variable vdot : V -> V -> T.
  Variable CS : Type.
  Variable ctrl_start : qenergy T V -> CS * status.
  Variable ctrl_check : CS -> qenergy T V -> CS * status.
  Variable nreset : Z.

  Hypothesis sub_add_cancel : forall u w, vadd (vsub u w) w = u.
  Hypothesis sub_comm : forall u v w, vsub (vsub u w) v = vsub (vsub u v) w.
  Hypothesis A_linear : forall x d a, opA (vsub x (smul a d)) = vsub (opA x) (vscale (opA d) a).

  Definition grad_of (x : V) : V :=
    match b with None => opA x | Some bb => vsub (opA x) bb end.
  Definition value_of (x : V) : T :=
    let v := a_mul A (a_half A) (vdot x (opA x)) in
    match b with None => v | Some bb => a_sub A v (vdot bb x) end.
  Definition consistent (e : qenergy T V) : Prop :=
    q_grad e = grad_of (q_pos e) /\ q_value e = value_of (q_pos e).

  Lemma qe_at_consistent : forall x, consistent (qe_at A vadd vsub opA b vdot x).
  Proof. intros x. unfold consistent, qe_at, qe_make, grad_of, value_of. destruct b; simpl; auto. Qed.

  Lemma qe_at_with_grad_consistent : forall x g,
      g = grad_of x -> consistent (qe_at_with_grad A vadd vsub opA b vdot x g).
  Proof.
    intros x g ->. unfold consistent, qe_at_with_grad, qe_make, grad_of, value_of.
    destruct b as [bb|]; simpl; [|auto]. rewrite sub_add_cancel. auto.
  Qed.

  Notation cgl := (cg_loop A vadd vsub vscale smul opA b prec vdot ctrl_check nreset).
  Notation cgm := (cg A vadd vsub vscale smul opA b prec vdot ctrl_start ctrl_check nreset).

  Lemma cg_loop_consistent : forall fuel n ii energy r d pg cs e' st ex n',
      consistent energy -> r = q_grad energy ->
      cgl fuel n ii energy r d pg cs = (e', st, ex, n') -> consistent e'.
  Proof.
    induction fuel as [|fuel IH]; intros until n'; intros Hc Hr H.
    - simpl in H. inversion H; subst. assumption.
    - cbn [cg_loop] in H.
      destruct (a_isnan A (vdot d (opA d))); [inversion H; subst; assumption|].
      destruct (a_eqb A (vdot d (opA d)) (a_zero A)); [inversion H; subst; assumption|].
      destruct (a_ltb A (a_div A pg (vdot d (opA d))) (a_zero A)); [inversion H; subst; assumption|].
      set (alpha := a_div A pg (vdot d (opA d))) in *.
      set (newpos := vsub (q_pos energy) (smul alpha d)) in *.
      destruct (ii + 1 <? nreset)%Z.
      + set (r1 := vsub r (vscale (opA d) alpha)) in *.
        assert (Hr1 : r1 = grad_of newpos).
        { unfold r1, newpos, grad_of. rewrite Hr. destruct Hc as [Hg _]. rewrite Hg. unfold grad_of.
          rewrite A_linear. destruct b; [apply sub_comm|reflexivity]. }
        pose proof (qe_at_with_grad_consistent newpos Hr1) as Hc1.
        set (e1 := qe_at_with_grad A vadd vsub opA b vdot newpos r1) in *.
        assert (Hg : r1 = q_grad e1).
        { unfold e1, qe_at_with_grad, qe_make. destruct b; reflexivity. }
        destruct (a_isnan A (vdot r1 (precond prec r1))); [inversion H; subst; assumption|].
        destruct (a_ltb A (vdot r1 (precond prec r1)) (a_zero A)); [inversion H; subst; assumption|].
        destruct (a_eqb A (vdot r1 (precond prec r1)) (a_zero A)); [inversion H; subst; assumption|].
        destruct (ctrl_check cs e1) as [cs' s1].
        destruct s1; try (inversion H; subst; assumption).
        eapply IH; [exact Hc1|exact Hg|exact H].
      + pose proof (qe_at_consistent newpos) as Hc1.
        set (e1 := qe_at A vadd vsub opA b vdot newpos) in *.
        destruct (a_isnan A (vdot (q_grad e1) (precond prec (q_grad e1)))); [inversion H; subst; assumption|].
        destruct (a_ltb A (vdot (q_grad e1) (precond prec (q_grad e1))) (a_zero A)); [inversion H; subst; assumption|].
        destruct (a_eqb A (vdot (q_grad e1) (precond prec (q_grad e1))) (a_zero A)); [inversion H; subst; assumption|].
        destruct (ctrl_check cs e1) as [cs' s1].
        destruct s1; try (inversion H; subst; assumption).
        eapply IH; [exact Hc1|reflexivity|exact H].
  Qed.

  Lemma cg_consistent : forall fuel e0 e' st ex n,
      consistent e0 -> cgm fuel e0 = (e', st, ex, n) -> consistent e'.
  Proof.
    intros until n; intros Hc H. unfold cg in H.
    destruct (ctrl_start e0) as [cs s0]. destruct s0; try (inversion H; subst; assumption).
    destruct (a_isnan A _); [inversion H; subst; assumption|].
    destruct (a_eqb A _ _); [inversion H; subst; assumption|].
    eapply cg_loop_consistent; [exact Hc|reflexivity|exact H].
  Qed.
End Residual.

(* ---------------------------------------------------------------------------------------------- *)
(* InversionEnabler: finite facts about the generated tables                                        *)
(* ---------------------------------------------------------------------------------------------- *)

(* the mode with the inverse bit flipped, written down independently of the tables *)
Definition inv_mode (m : nat) : nat :=
  match m with 1 => 4 | 4 => 1 | 2 => 8 | 8 => 2 | _ => 0 end.

Definition ie := ie_apply t_ilog t_validMode t_modeTable t_addInverse t_INVERSE_BIT.

Definition ie_ok (c m : nat) : bool :=
  match ie c m with
  | IeRefuse => Nat.eqb (Nat.land c m) 0 && Nat.eqb (Nat.land c (inv_mode m)) 0
  | IeDirect m' => Nat.eqb m' m && negb (Nat.eqb (Nat.land c m) 0)
  | IeSolve om pm => Nat.eqb om (inv_mode m) && negb (Nat.eqb (Nat.land c om) 0) &&
                     Nat.eqb pm m && Nat.eqb (Nat.land c m) 0
  end.

Definition modes : list nat := [1; 2; 4; 8].

Lemma ie_all_ok : forallb (fun c => forallb (ie_ok c) modes) (seq 0 16) = true.
Proof. vm_compute. reflexivity. Qed.

Lemma ie_ok_all : forall c m, c < 16 -> In m modes -> ie_ok c m = true.
Proof.
  intros c m Hc Hm. pose proof ie_all_ok as H. rewrite forallb_forall in H.
  specialize (H c). rewrite in_seq in H. specialize (H (conj (Nat.le_0_l c) Hc)).
  rewrite forallb_forall in H. apply H. exact Hm.
Qed.

(* invalid modes are refused *)
Lemma ie_invalid : forallb (fun c => forallb (fun m => match ie c m with IeRefuse => true | _ => false end)
                                            [0; 3; 5; 6; 7]) (seq 0 16) = true.
Proof. vm_compute. reflexivity. Qed.

(* capability = own modes + their inverses *)
Definition flip_inv_cap (c : nat) : nat :=
  fold_right (fun m acc => if Nat.eqb (Nat.land c m) 0 then acc else Nat.lor acc (inv_mode m)) 0 modes.
Lemma addInverse_ok :
  forallb (fun c => Nat.eqb (nth c t_addInverse 0) (Nat.lor c (flip_inv_cap c))) (seq 0 16) = true.
Proof. vm_compute. reflexivity. Qed.

(* ---------------------------------------------------------------------------------------------- *)
(* CG driven by one of the five controllers                                                         *)
(* ---------------------------------------------------------------------------------------------- *)
Section Composed.
  Variable T : Type.
  Variable A : arith T.
  Variable V : Type.
  Variables (vadd vsub : V -> V -> V) (vscale : V -> T -> V) (smul : T -> V -> V).
  Variable opA : V -> V.
  Variable b : option V.
  Variable prec : option (V -> V).
  Variable vdot : V -> V -> T.
  Variables norm2 norminf : V -> T.          (* Field.norm(), Field.norm(np.inf): oracles *)
  Variable std : list T -> T.
  Variable P : cparams T.
  Variable nreset : Z.

  Definition obs (e : qenergy T V) : eobs T :=
    {| e_value := q_value e; e_gradnorm := norm2 (q_grad e); e_gradinf := norminf (q_grad e) |}.
  Definition cstart (e : qenergy T V) := start A std P (obs e).
  Definition ccheck (cs : cstate T) (e : qenergy T V) := check A std P cs (obs e).

  Definition cg_with_controller :=
    cg A vadd vsub vscale smul opA b prec vdot cstart ccheck nreset.

  Lemma cg_converged_means_criterion : (1 <= c_level P)%Z -> forall fuel e0 e' ex n,
      cg_with_controller fuel e0 = (e', CONVERGED, ex, n) ->
      (* the (preconditioned) residual product gamma of the returned energy is exactly zero *)
      a_eqb A (gamma_of prec vdot e') (a_zero A) = true \/
      (* or the controller's criterion held in its last call, made on the returned energy, in a
         state reached from start through CONTINUE verdicts only; or its iteration limit was reached *)
      exists cs, (cs = init_state A P (obs e') \/ exists ob0, running A std P ob0 cs) /\
                 (crit_at A std P cs (obs e') = true \/ limit_hit P (s_itcount cs + 1)).
  Proof.
    intros Hl fuel e0 e' ex n H.
    assert (Hst : forall (e : qenergy T V) (cs : cstate T), cstart e = (cs, CONTINUE) ->
                  exists ob0, running A std P ob0 cs).
    { intros e cs Hs. exists (obs e). apply run_start. exact Hs. }
    assert (Hck : forall (cs : cstate T) (e : qenergy T V) (cs' : cstate T),
               (exists ob0, running A std P ob0 cs) -> ccheck cs e = (cs', CONTINUE) ->
               exists ob0, running A std P ob0 cs').
    { intros cs e cs' [ob0 Hr] Hs. exists ob0. eapply run_check; eassumption. }
    pose proof (cg_converged A vadd vsub vscale smul opA b prec vdot cstart ccheck nreset
                             (fun cs => exists ob0, running A std P ob0 cs) Hst Hck fuel e0 H) as H'.
    destruct H' as [(_ & -> & Hs) | [(_ & -> & Hg) | [(_ & Hg) | (_ & cs & Hinv & Hs)]]].
    - right. exists (init_state A P (obs e0)). split; [left; reflexivity|].
      unfold cstart in Hs. destruct (start A std P (obs e0)) as [st' s] eqn:E. simpl in Hs. subst s.
      apply converged_start in E; [|assumption]. simpl. exact E.
    - left. exact Hg.
    - left. exact Hg.
    - right. exists cs. split; [right; exact Hinv|].
      unfold ccheck in Hs. destruct (check A std P cs (obs e')) as [st' s] eqn:E. simpl in Hs. subst s.
      destruct Hinv as [ob0 Hr].
      destruct (check_spec A std P cs (obs e') E) as (Hi & _).
      destruct (converged_check Hl (obs e') Hr E) as [Hc|Hlim]; [left; exact Hc|right].
      rewrite <- Hi. exact Hlim.
  Qed.
End Composed.
