(* C14 -- the numerical branch of InversionEnabler.apply composed with the residual invariant. *)
From Coq Require Import List Bool Arith ZArith.
Require Import NV.C14.Model NV.C14.Proofs.

Section IESolveProofs.
  Variable T : Type.
  Variable A : arith T.
  Variable V : Type.
  Variables (vadd vsub : V -> V -> V).
  Variable vscale : V -> T -> V.
  Variable smul : T -> V -> V.
  Variable vdot : V -> V -> T.
  Variable CS : Type.
  Variable ctrl_start : qenergy T V -> CS * status.
  Variable ctrl_check : CS -> qenergy T V -> CS * status.
  Variable zero : V.

  Lemma ie_energy0_shape : forall invop x,
      q_pos (ie_energy0 A vadd vsub vdot zero invop x) = zero /\
      q_grad (ie_energy0 A vadd vsub vdot zero invop x) = vsub (invop zero) x.
  Proof. intros. unfold ie_energy0, qe_at, qe_make. simpl. split; reflexivity. Qed.

  Lemma ie_solve_residual : forall (invop : V -> V) (prec : option (V -> V)),
      (forall u w, vadd (vsub u w) w = u) ->
      (forall u v w, vsub (vsub u w) v = vsub (vsub u v) w) ->
      (forall x d a, invop (vsub x (smul a d)) = vsub (invop x) (vscale (invop d) a)) ->
      forall (x : V) (fuel : nat) (y : V) (r : qenergy T V) (warn : bool),
        ie_solve A vadd vsub vscale smul vdot ctrl_start ctrl_check zero invop prec x fuel = (y, r, warn) ->
        y = q_pos r /\ q_grad r = vsub (invop y) x /\
        q_value r = a_sub A (a_mul A (a_half A) (vdot y (invop y))) (vdot x y).
  Proof.
    intros invop prec H1 H2 H3 x fuel y r warn H. unfold ie_solve in H.
    destruct (cg _ _ _ _ _ _ _ _ _ _ _ _ _ _) as [[[e st] ex] n] eqn:E.
    inversion H; subst; clear H.
    pose proof (@cg_consistent T A V vadd vsub vscale smul invop (Some x) prec vdot CS ctrl_start
                  ctrl_check 20%Z H1 H2 H3 fuel _ _ _ _ _
                  (qe_at_consistent A vadd vsub invop (Some x) vdot zero) E) as [Hg Hv].
    split; [reflexivity|]. split; [exact Hg|exact Hv].
  Qed.

  Lemma ie_solve_start_stop : forall invop prec x fuel cs st,
      ctrl_start (ie_energy0 A vadd vsub vdot zero invop x) = (cs, st) -> st <> CONTINUE ->
      ie_solve A vadd vsub vscale smul vdot ctrl_start ctrl_check zero invop prec x fuel
      = (zero, ie_energy0 A vadd vsub vdot zero invop x, negb (status_eqb st CONVERGED)).
  Proof.
    intros invop prec x fuel cs st Hs Hn. unfold ie_solve, cg. rewrite Hs.
    destruct st; try congruence; reflexivity.
  Qed.
End IESolveProofs.
