(* C14 -- property theorems only.  Each is closed by [exact] of a lemma from Proofs.v. *)
From Coq Require Import List Bool Arith ZArith PrimFloat.
Import ListNotations.
Require Import NV.C14.Model NV.C14.Gen_tables NV.C14.Proofs NV.C14.ProofsIE.

(* All five iteration controllers, no arithmetic laws (valid for IEEE doubles), every parameter
   setting with convergence_level >= 1, every sequence of observed energies: a check call that
   returns CONVERGED, made in a state reached from start() through CONTINUE verdicts only, either saw
   its own criterion satisfied IN THAT CALL, or the iteration limit is reached. *)
Theorem C14_controller_converged :
  forall (T : Type) (A : arith T) (std : list T -> T) (P : cparams T),
    (1 <= c_level P)%Z ->
    forall (e0 : eobs T) (st : cstate T) (e : eobs T) (st' : cstate T),
      running A std P e0 st ->
      check A std P st e = (st', CONVERGED) ->
      crit_at A std P st e = true \/ limit_hit P (s_itcount st').
Proof. exact converged_check. Qed.

(* the same for a CONVERGED verdict of start() itself *)
Theorem C14_controller_converged_at_start :
  forall (T : Type) (A : arith T) (std : list T -> T) (P : cparams T),
    (1 <= c_level P)%Z ->
    forall (e : eobs T) (st' : cstate T),
      start A std P e = (st', CONVERGED) ->
      crit_at A std P (init_state A P e) e = true \/ limit_hit P 0.
Proof. exact converged_start. Qed.

(* controllers never report ERROR, and keep 0 <= ccount < level, itcount >= 0 while running *)
Theorem C14_controller_counters :
  forall (T : Type) (A : arith T) (std : list T -> T) (P : cparams T),
    (forall (st : cstate T) (e : eobs T), snd (check A std P st e) <> ERROR) /\
    ((1 <= c_level P)%Z ->
     forall (e0 : eobs T) (st : cstate T),
       running A std P e0 st -> (0 <= s_ccount st < c_level P)%Z /\ (0 <= s_itcount st)%Z).
Proof. intros. split; [apply never_error | apply running_inv]. Qed.

(* What "its own criterion" is, controller by controller (definitional unfoldings of [crit_at]);
   for the gradient-norm controller the relative threshold stays tol_rel_gradnorm * (gradient norm at
   start) throughout a run. *)
Theorem C14_criterion_meaning :
  forall (T : Type) (A : arith T) (std : list T -> T) (P : cparams T) (st : cstate T) (e : eobs T),
    (forall ta tr, c_kind P = GradNorm ta tr ->
       crit_at A std P st e =
         (match ta with Some t => a_leb A (e_gradnorm e) t | None => false end) ||
         (match tr with Some _ => a_leb A (e_gradnorm e) (s_tolrel st) | None => false end)) /\
    (forall e0, running A std P e0 st -> s_tolrel st = s_tolrel (init_state A P e0)) /\
    (forall tol, c_kind P = GradInf tol ->
       crit_at A std P st e =
         match tol with
         | Some t => a_leb A (a_div A (e_gradinf e) (a_abs A (e_value e))) t
         | None => false
         end) /\
    (forall tol, c_kind P = DeltaE tol ->
       crit_at A std P st e =
         (0 <? s_itcount st + 1)%Z &&
         a_ltb A (let scale := pymax A (a_abs A (s_eold st)) (a_abs A (e_value e)) in
                  if negb (a_eqb A scale (a_zero A))
                  then a_div A (a_abs A (a_sub A (s_eold st) (e_value e))) scale else a_zero A) tol) /\
    (forall tol, c_kind P = AbsDeltaE tol ->
       crit_at A std P st e =
         (0 <? s_itcount st + 1)%Z && a_ltb A (a_abs A (a_sub A (s_eold st) (e_value e))) tol) /\
    (forall tol memlen, c_kind P = Stoch tol memlen ->
       crit_at A std P st e =
         (0 <? s_itcount st + 1)%Z &&
         a_ltb A (std (let mem := s_memory st ++ [e_value e] in
                       if Nat.ltb memlen (length mem) then tl mem else mem)) tol).
Proof.
  intros. unfold crit_at, criterion.
  repeat split; intros; try (rewrite H; reflexivity).
  eapply running_tolrel. eassumption.
Qed.

(* ConjugateGradient.__call__, no arithmetic laws, every operator / preconditioner / inner product
   (arbitrary functions), every controller (arbitrary state machine), every nreset, every fuel:
   CONVERGED is returned only (a) because controller.start said so (unchanged energy), (b) because
   the initial gamma == 0 (unchanged energy), (c) because gamma == 0 for the returned energy, or
   (d) because controller.check said so for the returned energy, called in a state that satisfies
   every invariant [Inv] which start establishes and CONTINUE verdicts preserve. *)
Theorem C14_cg_converged :
  forall (T : Type) (A : arith T) (V : Type) (vadd vsub : V -> V -> V) (vscale : V -> T -> V)
         (smul : T -> V -> V) (opA : V -> V) (b : option V) (prec : option (V -> V))
         (vdot : V -> V -> T) (CS : Type) (ctrl_start : qenergy T V -> CS * status)
         (ctrl_check : CS -> qenergy T V -> CS * status) (nreset : Z) (Inv : CS -> Prop),
    (forall e cs, ctrl_start e = (cs, CONTINUE) -> Inv cs) ->
    (forall cs e cs', Inv cs -> ctrl_check cs e = (cs', CONTINUE) -> Inv cs') ->
    forall (fuel : nat) (e0 e' : qenergy T V) (ex : cg_exit) (n : nat),
      cg A vadd vsub vscale smul opA b prec vdot ctrl_start ctrl_check nreset fuel e0
        = (e', CONVERGED, ex, n) ->
      (ex = ExStart /\ e' = e0 /\ snd (ctrl_start e0) = CONVERGED) \/
      (ex = ExGamma0Zero /\ e' = e0 /\ a_eqb A (gamma_of prec vdot e0) (a_zero A) = true) \/
      (ex = ExGammaZero /\ a_eqb A (gamma_of prec vdot e') (a_zero A) = true) \/
      (ex = ExCheck /\ exists cs, Inv cs /\ snd (ctrl_check cs e') = CONVERGED).
Proof. exact cg_converged. Qed.

(* NaN / zero curvature, negative step length, NaN / negative gamma: always ERROR, never CONVERGED *)
Theorem C14_error_cases :
  forall (T : Type) (A : arith T) (V : Type) (vadd vsub : V -> V -> V) (vscale : V -> T -> V)
         (smul : T -> V -> V) (opA : V -> V) (b : option V) (prec : option (V -> V))
         (vdot : V -> V -> T) (CS : Type) (ctrl_start : qenergy T V -> CS * status)
         (ctrl_check : CS -> qenergy T V -> CS * status) (nreset : Z)
         (fuel : nat) (e0 e' : qenergy T V) (st : status) (ex : cg_exit) (n : nat),
    cg A vadd vsub vscale smul opA b prec vdot ctrl_start ctrl_check nreset fuel e0 = (e', st, ex, n) ->
    In ex [ExGamma0NaN; ExCurvNaN; ExCurvZero; ExAlphaNeg; ExGammaNaN; ExGammaNeg] -> st = ERROR.
Proof.
  intros T A V vadd vsub vscale smul opA b prec vdot CS cs cc nreset.
  exact (cg_error_exits A vadd vsub vscale smul opA b prec vdot cs cc nreset (fun _ => True)
                        (fun _ _ _ => I) (fun _ _ _ _ _ => I)).
Qed.

(* CG driven by one of the five controllers (norms of the gradient are oracles): CONVERGED means the
   residual product gamma of the returned energy is exactly zero, or the controller's criterion held
   on the returned energy in its last call, or the iteration limit is reached. *)
Theorem C14_converged_means_criterion :
  forall (T : Type) (A : arith T) (V : Type) (vadd vsub : V -> V -> V) (vscale : V -> T -> V)
         (smul : T -> V -> V) (opA : V -> V) (b : option V) (prec : option (V -> V))
         (vdot : V -> V -> T) (norm2 norminf : V -> T) (std : list T -> T) (P : cparams T) (nreset : Z),
    (1 <= c_level P)%Z ->
    forall (fuel : nat) (e0 e' : qenergy T V) (ex : cg_exit) (n : nat),
      cg_with_controller A vadd vsub vscale smul opA b prec vdot norm2 norminf std P nreset fuel e0
        = (e', CONVERGED, ex, n) ->
      a_eqb A (gamma_of prec vdot e') (a_zero A) = true \/
      exists cs, (cs = init_state A P (obs norm2 norminf e') \/ exists ob0, running A std P ob0 cs) /\
                 (crit_at A std P cs (obs norm2 norminf e') = true \/ limit_hit P (s_itcount cs + 1)).
Proof. exact cg_converged_means_criterion. Qed.

(* Residual invariant: if A is linear (in the form used by the update) and vector subtraction
   satisfies (u-w)+w = u and (u-w)-v = (u-v)-w, then every energy returned by CG started from a
   consistent energy is consistent: stored gradient = A x - b (A x if b is None), stored value =
   0.5 * x.(A x) - b.x, on the recurrence branch (at_with_grad) and on the reset branch (at). *)
Theorem C14_residual_invariant :
  forall (T : Type) (A : arith T) (V : Type) (vadd vsub : V -> V -> V) (vscale : V -> T -> V)
         (smul : T -> V -> V) (opA : V -> V) (b : option V) (prec : option (V -> V))
         (vdot : V -> V -> T) (CS : Type) (ctrl_start : qenergy T V -> CS * status)
         (ctrl_check : CS -> qenergy T V -> CS * status) (nreset : Z),
    (forall u w, vadd (vsub u w) w = u) ->
    (forall u v w, vsub (vsub u w) v = vsub (vsub u v) w) ->
    (forall x d a, opA (vsub x (smul a d)) = vsub (opA x) (vscale (opA d) a)) ->
    forall (fuel : nat) (e0 e' : qenergy T V) (st : status) (ex : cg_exit) (n : nat),
      consistent A vsub opA b vdot e0 ->
      cg A vadd vsub vscale smul opA b prec vdot ctrl_start ctrl_check nreset fuel e0 = (e', st, ex, n) ->
      consistent A vsub opA b vdot e'.
Proof. exact cg_consistent. Qed.

(* QuadraticEnergy(position, A, b) itself is consistent (no laws needed) *)
Theorem C14_energy_consistent :
  forall (T : Type) (A : arith T) (V : Type) (vadd vsub : V -> V -> V) (opA : V -> V) (b : option V)
         (vdot : V -> V -> T) (x : V),
    consistent A vsub opA b vdot (qe_at A vadd vsub opA b vdot x).
Proof. exact qe_at_consistent. Qed.

(* InversionEnabler.apply over the tables translated from linear_operator.py: for every capability
   of the wrapped operator and every valid mode,
   - refused  <=> neither the mode nor its inverse mode is available,
   - direct   <=> the mode itself is available (and that very mode is applied),
   - otherwise CG runs on the wrapped operator in the INVERSE of the requested mode (so its solution
     is the requested mode applied to x), which is available, preconditioned by the approximation in
     the requested mode. *)
Theorem C14_inversion_modes :
  forall c m, c < 16 -> In m [1; 2; 4; 8] ->
    match ie_apply t_ilog t_validMode t_modeTable t_addInverse t_INVERSE_BIT c m with
    | IeRefuse => Nat.land c m = 0 /\ Nat.land c (inv_mode m) = 0
    | IeDirect m' => m' = m /\ Nat.land c m <> 0
    | IeSolve om pm => om = inv_mode m /\ Nat.land c om <> 0 /\ pm = m /\ Nat.land c m = 0
    end.
Proof.
  intros c m Hc Hm. pose proof (ie_ok_all Hc Hm) as H. unfold ie_ok, ie in H.
  destruct (ie_apply t_ilog t_validMode t_modeTable t_addInverse t_INVERSE_BIT c m).
  - apply andb_prop in H. destruct H as [H1 H2]. apply Nat.eqb_eq in H1.
    apply negb_true_iff in H2. apply Nat.eqb_neq in H2. auto.
  - apply andb_prop in H. destruct H as [H H4]. apply andb_prop in H. destruct H as [H H3].
    apply andb_prop in H. destruct H as [H1 H2].
    apply Nat.eqb_eq in H1, H3, H4. apply negb_true_iff in H2. apply Nat.eqb_neq in H2. auto.
  - apply andb_prop in H. destruct H as [H1 H2]. apply Nat.eqb_eq in H1, H2. auto.
Qed.

(* invalid modes are refused; the advertised capability is "own modes and their inverses" *)
Theorem C14_inversion_capability :
  forallb (fun c => forallb (fun m => match ie c m with IeRefuse => true | _ => false end)
                            [0; 3; 5; 6; 7]) (seq 0 16) = true /\
  forallb (fun c => Nat.eqb (nth c t_addInverse 0) (Nat.lor c (flip_inv_cap c))) (seq 0 16) = true.
Proof. split; [exact ie_invalid | exact addInverse_ok]. Qed.

(* Non-vacuity: a 2x2 IEEE run (A = diag(2,4), b = (2,4), x0 = 0, gradient-norm controller) that
   returns CONVERGED through controller.check after two updates. *)
Example C14_nonvacuous :
  let opA := fun v : list float => map2 PrimFloat.mul [2%float; 4%float] v in
  let vdot := fun u v : list float => fold_left PrimFloat.add (map2 PrimFloat.mul u v) 0%float in
  let n2 := fun v : list float => PrimFloat.sqrt (vdot v v) in
  let P := Build_cparams (GradNorm (Some 0x1p-20%float) None) 1 None in
  let e0 := qe_at float_arith fv_add fv_sub opA (Some [2%float; 4%float]) vdot [0%float; 0%float] in
  exists e' n,
    cg_with_controller float_arith fv_add fv_sub fv_scale fv_smul opA (Some [2%float; 4%float]) None vdot
                       n2 n2 (fun _ => 0%float) P 20 10 e0 = (e', CONVERGED, ExCheck, n).
Proof. cbv zeta. eexists; eexists. vm_compute. reflexivity. Qed.

(* Numerical branch of InversionEnabler.apply (x0 = 0, QuadraticEnergy(x0, invop, x), CG with the default
   nreset, `return r.position` whatever the status): for every LINEAR invop (same three laws as in
   C14_residual_invariant), every preconditioner, controller, right-hand side x and fuel, the returned field y is
   the position of the final CG energy r, and the gradient stored in r -- the one the controller judged --
   is the residual  invop(y) - x  of the linear system the inversion is to solve; its value is
   1/2 y.invop(y) - x.y.  Together with C14_converged_means_criterion: no warning => the criterion was met
   (or gamma == 0 / limit) on the true residual of the returned solution. *)
Theorem C14_inversion_solve_residual :
  forall (T : Type) (A : arith T) (V : Type) (vadd vsub : V -> V -> V) (vscale : V -> T -> V)
         (smul : T -> V -> V) (vdot : V -> V -> T) (CS : Type)
         (ctrl_start : qenergy T V -> CS * status) (ctrl_check : CS -> qenergy T V -> CS * status)
         (zero : V) (invop : V -> V) (prec : option (V -> V)),
    (forall u w, vadd (vsub u w) w = u) ->
    (forall u v w, vsub (vsub u w) v = vsub (vsub u v) w) ->
    (forall x d a, invop (vsub x (smul a d)) = vsub (invop x) (vscale (invop d) a)) ->
    forall (x : V) (fuel : nat) (y : V) (r : qenergy T V) (warn : bool),
      ie_solve A vadd vsub vscale smul vdot ctrl_start ctrl_check zero invop prec x fuel = (y, r, warn) ->
      y = q_pos r /\ q_grad r = vsub (invop y) x /\
      q_value r = a_sub A (a_mul A (a_half A) (vdot y (invop y))) (vdot x y).
Proof. exact ie_solve_residual. Qed.

(* The start energy of that branch (no laws): position x0 = 0, gradient invop(0) - x. *)
Theorem C14_inversion_start_energy :
  forall (T : Type) (A : arith T) (V : Type) (vadd vsub : V -> V -> V) (vdot : V -> V -> T) (zero : V)
         (invop : V -> V) (x : V),
    q_pos (ie_energy0 A vadd vsub vdot zero invop x) = zero /\
    q_grad (ie_energy0 A vadd vsub vdot zero invop x) = vsub (invop zero) x.
Proof. exact ie_energy0_shape. Qed.

(* If the controller does not answer CONTINUE at start, the inversion returns x0 = 0, with a warning
   exactly when the answer was not CONVERGED. *)
Theorem C14_inversion_stopped_at_start :
  forall (T : Type) (A : arith T) (V : Type) (vadd vsub : V -> V -> V) (vscale : V -> T -> V)
         (smul : T -> V -> V) (vdot : V -> V -> T) (CS : Type)
         (ctrl_start : qenergy T V -> CS * status) (ctrl_check : CS -> qenergy T V -> CS * status)
         (zero : V) (invop : V -> V) (prec : option (V -> V)) (x : V) (fuel : nat) (cs : CS) (st : status),
    ctrl_start (ie_energy0 A vadd vsub vdot zero invop x) = (cs, st) -> st <> CONTINUE ->
    ie_solve A vadd vsub vscale smul vdot ctrl_start ctrl_check zero invop prec x fuel
    = (zero, ie_energy0 A vadd vsub vdot zero invop x, negb (status_eqb st CONVERGED)).
Proof. exact ie_solve_start_stop. Qed.
