(* C33 -- lemmas: pytree operations versus the flat arrays; smap versus the vmap specification. *)
From Coq Require Import ZArith List Bool Lia.
Import ListNotations.
Require Import NV.C33.Model.
Open Scope Z_scope.

(* ------------------------------------------------------------------ flatten is a homomorphism *)
Lemma map2_app {A B C} (f : A -> B -> C) x1 x2 y1 y2 :
  length x1 = length y1 -> map2 f (x1 ++ x2) (y1 ++ y2) = map2 f x1 y1 ++ map2 f x2 y2.
Proof.
  revert y1. induction x1 as [|a x1 IH]; intros [|b y1] H; simpl in *; try lia; [reflexivity|].
  f_equal. apply IH. lia.
Qed.

Lemma leaf_op_some {A B C} (f : A -> B -> C) x y l :
  leaf_op f x y = Some l -> length x = length y /\ l = map2 f x y.
Proof.
  unfold leaf_op. destruct (Nat.eqb (length x) (length y)) eqn:E; [|discriminate].
  intros H. inversion H. apply Nat.eqb_eq in E. auto.
Qed.

Lemma all_some_concat {A B C} (f : A -> B -> C) la : forall lb l,
  all_some (map2 (leaf_op f) la lb) = Some l -> length la = length lb ->
  concat l = map2 f (concat la) (concat lb).
Proof.
  induction la as [|x la IH]; intros [|y lb] l H L; simpl in *; try lia.
  - inversion H. reflexivity.
  - destruct (leaf_op f x y) as [xy|] eqn:E; [|discriminate].
    destruct (all_some (map2 (leaf_op f) la lb)) as [r|] eqn:E2; [|discriminate].
    inversion H; subst. apply leaf_op_some in E. destruct E as [EL Exy]. subst xy.
    simpl. rewrite map2_app by assumption. f_equal. apply IH; [assumption | lia].
Qed.

Theorem tmap2_flat {A B C} (f : A -> B -> C) a b c :
  tmap2 f a b = Some c -> flatten c = map2 f (flatten a) (flatten b) /\ td c = td a.
Proof.
  unfold tmap2. destruct (td_eqb (td a) (td b) && Nat.eqb (length (lv a)) (length (lv b))) eqn:E; [|discriminate].
  apply andb_prop in E. destruct E as [_ E]. apply Nat.eqb_eq in E.
  destruct (all_some (map2 (leaf_op f) (lv a) (lv b))) as [l|] eqn:E2; [|discriminate].
  intros H. inversion H; subst. unfold flatten. simpl. split; [|reflexivity].
  eapply all_some_concat; eauto.
Qed.

Lemma tmap1_flat {A B} (g : A -> B) t : flatten (tmap1 g t) = map g (flatten t).
Proof. unfold flatten, tmap1. simpl. symmetry. apply concat_map. Qed.

(* every binary operator of Vector, including broadcasting of a scalar on either side *)
Theorem bop_flat {A C} (f : A -> A -> C) lhs rhs c :
  bop f lhs rhs = Some c ->
  match lhs, rhs with
  | Scalar s, Tree b => flatten c = map (f s) (flatten b)
  | Tree a, Scalar s => flatten c = map (fun x => f x s) (flatten a)
  | Tree a, Tree b => flatten c = map2 f (flatten a) (flatten b)
  | Scalar _, Scalar _ => False
  end.
Proof.
  destruct lhs as [s|a]; destruct rhs as [s'|b]; simpl; intros H; try discriminate.
  - inversion H; subst. apply tmap1_flat.
  - inversion H; subst. apply tmap1_flat.
  - destruct (Nat.eqb (num_nodes (td a)) (num_nodes (td b))); [|discriminate].
    apply tmap2_flat in H. tauto.
Qed.

Theorem tsize_flat {A} (t : pytree A) : tsize t = Z.of_nat (length (flatten t)).
Proof.
  unfold tsize, flatten.
  assert (G : forall l acc, fold_left Z.add (map (fun x : list A => Z.of_nat (length x)) l) acc
                            = acc + Z.of_nat (length (concat l))).
  { induction l as [|x l IH]; intros acc; simpl; [lia|]. rewrite IH, app_length. lia. }
  rewrite G. lia.
Qed.

(* ------------------------------------------------------------------ dot products *)
Lemma cadd_assoc a b c : cadd (cadd a b) c = cadd a (cadd b c).
Proof. unfold cadd. simpl. f_equal; lia. Qed.
Lemma cadd_0_l a : cadd c0 a = a.
Proof. destruct a. unfold cadd, c0. simpl. reflexivity. Qed.
Lemma cadd_0_r a : cadd a c0 = a.
Proof. destruct a. unfold cadd, c0. simpl. f_equal; lia. Qed.

Lemma fold_cadd l : forall acc, fold_left cadd l acc = cadd acc (lsum l).
Proof.
  unfold lsum. induction l as [|x l IH]; intros acc; simpl.
  - rewrite cadd_0_r. reflexivity.
  - rewrite IH, (IH (cadd c0 x)), cadd_0_l, cadd_assoc. reflexivity.
Qed.

Lemma lsum_app l1 l2 : lsum (l1 ++ l2) = cadd (lsum l1) (lsum l2).
Proof. unfold lsum at 1. rewrite fold_left_app. fold (lsum l1). apply fold_cadd. Qed.

Lemma list_eqb_lengths {A} (la lb : list (list A)) :
  list_eqb Nat.eqb (map (@length A) la) (map (@length A) lb) = true -> Forall2 (fun x y => length x = length y) la lb.
Proof.
  revert lb. induction la as [|x la IH]; intros [|y lb] H; simpl in *; try discriminate; constructor.
  - apply andb_prop in H. destruct H as [H _]. apply Nat.eqb_eq. exact H.
  - apply IH. apply andb_prop in H. tauto.
Qed.

Lemma leaves_sum_acc (g : C -> C -> C) la lb :
  Forall2 (fun x y => length x = length y) la lb ->
  forall acc, fold_left cadd (map2 (fun x y => lsum (map2 g x y)) la lb) acc
              = cadd acc (lsum (map2 g (concat la) (concat lb))).
Proof.
  induction 1 as [|x y la lb Hxy F IH]; intros acc; simpl.
  - unfold lsum. simpl. rewrite cadd_0_r. reflexivity.
  - rewrite IH. rewrite map2_app by assumption. rewrite lsum_app. rewrite cadd_assoc. reflexivity.
Qed.

Lemma leaves_sum (g : C -> C -> C) la lb :
  Forall2 (fun x y => length x = length y) la lb ->
  fold_left cadd (map2 (fun x y => lsum (map2 g x y)) la lb) c0 = lsum (map2 g (concat la) (concat lb)).
Proof. intros F. rewrite leaves_sum_acc by assumption. apply cadd_0_l. Qed.

(* vdot is the Hermitian product of the flattened vectors, dot the bilinear one *)
Theorem tvdot_flat a b v :
  tvdot a b = Some v -> v = lsum (map2 (fun x y => cmul (cconj x) y) (flatten a) (flatten b)).
Proof.
  unfold tvdot. destruct (_ && _) eqn:E; [|discriminate]. intros H. inversion H.
  apply andb_prop in E. destruct E as [_ E]. apply list_eqb_lengths in E.
  unfold leaf_vdot, flatten. apply leaves_sum. exact E.
Qed.

Theorem tdot_flat a b v :
  tdot a b = Some v -> v = lsum (map2 cmul (flatten a) (flatten b)).
Proof.
  unfold tdot. destruct (_ && _) eqn:E; [|discriminate]. intros H. inversion H.
  apply andb_prop in E. destruct E as [_ E]. apply list_eqb_lengths in E.
  unfold leaf_dot, flatten. apply leaves_sum. exact E.
Qed.

(* ------------------------------------------------------------------ reductions *)
Section Red.
  Variable A : Type.
  Variable op : A -> A -> A.
  Hypothesis op_assoc : forall a b c, op (op a b) c = op a (op b c).

  Lemma fold_op_assoc s : forall acc y, op acc (fold_left op s y) = fold_left op s (op acc y).
  Proof. induction s as [|x s IH]; intros acc y; simpl; [reflexivity|]. rewrite IH, op_assoc. reflexivity. Qed.

  Lemma fold_parts d ps : Forall (fun p => p <> []) ps ->
    forall acc, fold_left op (map (red1 A op d) ps) acc = fold_left op (concat ps) acc.
  Proof.
    induction 1 as [|p ps Hp F IH]; intros acc; simpl; [reflexivity|].
    destruct p as [|y s]; [congruence|]. simpl.
    rewrite fold_left_app. rewrite IH. rewrite fold_op_assoc. reflexivity.
  Qed.

  (* tree_reduce(_red, tree_map(_safe_uni, a)) = jax_f(flat array), for non-empty leaves *)
  Theorem tred_flat d (t : pytree A) :
    lv t <> [] -> Forall (fun p => p <> []) (lv t) -> tred A op d t = red1 A op d (flatten t).
  Proof.
    unfold tred, flatten. destruct (lv t) as [|p ps]; [congruence|]. intros _ F.
    inversion F as [|? ? Hp F']; subst. destruct p as [|x r]; [congruence|].
    simpl. rewrite fold_left_app. apply fold_parts. assumption.
  Qed.
End Red.

(* ------------------------------------------------------------------ norms *)
Lemma fold_add l : forall acc, fold_left Z.add l acc = acc + fold_left Z.add l 0.
Proof. induction l as [|x l IH]; intros acc; simpl; [lia|]. rewrite IH, (IH x). lia. Qed.

Lemma norm1_nonneg l : 0 <= norm1_l l.
Proof.
  unfold norm1_l. induction l as [|x l IH]; simpl; [lia|]. rewrite fold_add. lia.
Qed.

Lemma norm1_app a b : norm1_l (a ++ b) = norm1_l a + norm1_l b.
Proof. unfold norm1_l. rewrite map_app, fold_left_app, fold_add. reflexivity. Qed.

Theorem tnorm1_flat t : tnorm1 t = norm1_l (flatten t).
Proof.
  unfold tnorm1, flatten. induction (lv t) as [|p ps IH]; [reflexivity|].
  simpl. rewrite norm1_app, <- IH. unfold norm1_l at 1. simpl.
  rewrite fold_add. pose proof (norm1_nonneg p). rewrite Z.abs_eq by assumption.
  unfold norm1_l at 4. lia.
Qed.

Lemma sumsq_app a b : sumsq_l (a ++ b) = sumsq_l a + sumsq_l b.
Proof. unfold sumsq_l. rewrite map_app, fold_left_app, fold_add. reflexivity. Qed.

Theorem tsumsq_flat t : tsumsq t = sumsq_l (flatten t).
Proof.
  unfold tsumsq, flatten. induction (lv t) as [|p ps IH]; [reflexivity|].
  simpl. rewrite sumsq_app, fold_add, IH. lia.
Qed.

(* the 2-norm composes: if n_l >= 0 are the leaf norms (n_l^2 = sum of squares of leaf l) and
   N >= 0 the norm of the vector of leaf norms (N^2 = sum n_l^2), then N^2 is the flat sum of squares *)
Theorem tnorm2_flat t (ns : list Z) N :
  map (fun n => n * n) ns = map sumsq_l (lv t) -> N * N = fold_left Z.add (map (fun n => n * n) ns) 0 ->
  N * N = sumsq_l (flatten t).
Proof. intros H1 H2. rewrite H2, H1. apply tsumsq_flat. Qed.

Lemma red1_max_nonneg l : Forall (fun x => 0 <= x) l -> 0 <= red1 Z Z.max 0 l.
Proof.
  destruct 1 as [|x l Hx F]; simpl; [lia|].
  revert x Hx. induction F as [|y l Hy F IH]; intros x Hx; simpl; [lia|]. apply IH. lia.
Qed.
Lemma red1_min_nonneg l : Forall (fun x => 0 <= x) l -> 0 <= red1 Z Z.min 0 l.
Proof.
  destruct 1 as [|x l Hx F]; simpl; [lia|].
  revert x Hx. induction F as [|y l Hy F IH]; intros x Hx; simpl; [lia|]. apply IH. lia.
Qed.
Lemma abs_all_nonneg l : Forall (fun x => 0 <= x) (map Z.abs l).
Proof. induction l; simpl; constructor; [lia | assumption]. Qed.

Lemma map_abs_id l : Forall (fun x => 0 <= x) l -> map Z.abs l = l.
Proof. induction 1; simpl; [reflexivity|]. rewrite Z.abs_eq by assumption. f_equal. assumption. Qed.

Theorem tnorminf_flat t :
  lv t <> [] -> Forall (fun p => p <> []) (lv t) -> tnorminf t = norminf_l (flatten t).
Proof.
  intros H0 H. unfold tnorminf, norminf_l at 1.
  rewrite map_abs_id.
  - pose proof (tred_flat Z Z.max (fun a b c => eq_sym (Z.max_assoc a b c)) 0 (tmap1 Z.abs t)) as R.
    unfold tred, tmap1, flatten in R. simpl in R. unfold norminf_l.
    rewrite map_map in R. rewrite R.
    + unfold flatten. rewrite concat_map. reflexivity.
    + destruct (lv t); [congruence | discriminate].
    + clear -H. induction H as [|p ps Hp F IH]; simpl; constructor; [destruct p; [congruence | discriminate] | assumption].
  - apply Forall_forall. intros x Hx. apply in_map_iff in Hx. destruct Hx as [p [E _]]. subst x.
    apply red1_max_nonneg. apply abs_all_nonneg.
Qed.

Theorem tnormminf_flat t :
  lv t <> [] -> Forall (fun p => p <> []) (lv t) -> tnormminf t = normminf_l (flatten t).
Proof.
  intros H0 H. unfold tnormminf, normminf_l at 1.
  rewrite map_abs_id.
  - pose proof (tred_flat Z Z.min (fun a b c => eq_sym (Z.min_assoc a b c)) 0 (tmap1 Z.abs t)) as R.
    unfold tred, tmap1, flatten in R. simpl in R. unfold normminf_l.
    rewrite map_map in R. rewrite R.
    + unfold flatten. rewrite concat_map. reflexivity.
    + destruct (lv t); [congruence | discriminate].
    + clear -H. induction H as [|p ps Hp F IH]; simpl; constructor; [destruct p; [congruence | discriminate] | assumption].
  - apply Forall_forall. intros x Hx. apply in_map_iff in Hx. destruct Hx as [p [E _]]. subst x.
    apply red1_min_nonneg. apply abs_all_nonneg.
Qed.

(* ------------------------------------------------------------------ smap = vmap *)
Section SmapProofs.
  Variable X Y : Type.
  Variable xdef : X.
  Variable ydef : Y.
  Notation arg := (arg X).
  Notation reord := (reord X xdef).
  Notation slice_at := (slice_at X xdef).

  (* the pop(0) bookkeeping of _fun_reord puts every input back into its own position *)
  Lemma reord_correct (b : nat) (inputs : list arg) :
    reord (map (is_mapped X) inputs) (unmapped_of X inputs) (map (fun xs => nth b xs xdef) (mapped_of X inputs))
    = map (slice_at b) inputs.
  Proof.
    induction inputs as [|a inputs IH]; simpl; [reflexivity|].
    destruct a as [x|xs]; simpl; rewrite IH; reflexivity.
  Qed.

  Lemma nth0_map_seq (g : nat -> Y) B : (1 <= B)%nat -> nth 0 (map g (seq 0 B)) ydef = g 0%nat.
  Proof. destruct B; [lia|]. reflexivity. Qed.

  (* for every function, every choice of mapped / un-mapped inputs and every choice of batched
     (any axis) / un-batched outputs, the sequential map is the vmap specification *)
  Theorem smap_is_vmap (f : list X -> list Y) inputs out_axes :
    (1 <= batch X inputs)%nat ->
    smap X Y xdef ydef f inputs out_axes = vmap_spec X Y xdef ydef f inputs out_axes.
  Proof.
    intros HB. unfold smap, vmap_spec. apply map_ext. intros [j [o|]]; simpl.
    - f_equal. rewrite map_map. apply map_ext. intros b. rewrite reord_correct. reflexivity.
    - f_equal. rewrite map_map. rewrite (nth0_map_seq _ _ HB). rewrite reord_correct. reflexivity.
  Qed.
End SmapProofs.
