(* C33 -- executable model of nifty/re/tree_math (vector.py, vector_math.py) and of
   nifty/re/custom_map.py (_generic_smap, shared by smap and lmap).  No proofs in this file.

   Pytrees are modelled the way JAX handles them: a tree definition (rose tree without data,
   children in JAX's flattening order -- dict keys sorted) plus the list of leaf arrays; every
   leaf array is its C-order ravel.  tree_map(f, a, b) = unflatten(td_a, map2 f leaves_a leaves_b)
   and raises when the tree definitions differ; tree_reduce folds from the left.
   Numbers are Gaussian integers (re, im) so that real, complex and boolean (0/1) data are exact. *)
From Coq Require Import ZArith List Bool.
Import ListNotations.
Open Scope Z_scope.

Fixpoint map2 {A B C : Type} (f : A -> B -> C) (l1 : list A) (l2 : list B) : list C :=
  match l1, l2 with
  | a :: l1', b :: l2' => f a b :: map2 f l1' l2'
  | _, _ => []
  end.

Fixpoint list_eqb {A : Type} (eqb : A -> A -> bool) (l1 l2 : list A) : bool :=
  match l1, l2 with
  | [], [] => true
  | a :: l1', b :: l2' => eqb a b && list_eqb eqb l1' l2'
  | _, _ => false
  end.

(* ---------------------------------------------------------------- tree definitions *)
Inductive treedef := TLeaf | TNode (cs : list treedef).

Fixpoint td_eqb (a b : treedef) : bool :=
  match a, b with
  | TLeaf, TLeaf => true
  | TNode ca, TNode cb =>
      (fix go (l1 l2 : list treedef) : bool :=
         match l1, l2 with
         | [], [] => true
         | x :: l1', y :: l2' => td_eqb x y && go l1' l2'
         | _, _ => false
         end) ca cb
  | _, _ => false
  end.

Fixpoint num_leaves (t : treedef) : nat :=
  match t with TLeaf => 1%nat | TNode cs => fold_right (fun c n => (num_leaves c + n)%nat) 0%nat cs end.

Fixpoint num_nodes (t : treedef) : nat :=
  match t with TLeaf => 1%nat | TNode cs => S (fold_right (fun c n => (num_nodes c + n)%nat) 0%nat cs) end.

Record pytree (A : Type) := mkTree { td : treedef; lv : list (list A) }.
Arguments mkTree {A}. Arguments td {A}. Arguments lv {A}.

(* the concatenated flat array *)
Definition flatten {A} (t : pytree A) : list A := concat (lv t).

(* size(a) = tree_reduce(operator.add, tree_map(_size, a), 0) *)
Definition tsize {A} (t : pytree A) : Z := fold_left Z.add (map (fun l => Z.of_nat (length l)) (lv t)) 0.

(* ---------------------------------------------------------------- element-wise operations *)
(* a leaf-level binary operation on arrays of equal shape (no intra-leaf broadcasting modelled) *)
Definition leaf_op {A B C} (f : A -> B -> C) (x : list A) (y : list B) : option (list C) :=
  if Nat.eqb (length x) (length y) then Some (map2 f x y) else None.

Fixpoint all_some {A} (l : list (option A)) : option (list A) :=
  match l with
  | [] => Some []
  | Some x :: r => match all_some r with Some r' => Some (x :: r') | None => None end
  | None :: _ => None
  end.

(* tree_map(op, lhs, rhs): raises unless the tree definitions are equal *)
Definition tmap2 {A B C} (f : A -> B -> C) (a : pytree A) (b : pytree B) : option (pytree C) :=
  if td_eqb (td a) (td b) && Nat.eqb (length (lv a)) (length (lv b)) then
    match all_some (map2 (leaf_op f) (lv a) (lv b)) with
    | Some l => Some (mkTree (td a) l)
    | None => None
    end
  else None.

Definition tmap1 {A B} (f : A -> B) (a : pytree A) : pytree B := mkTree (td a) (map (map f) (lv a)).

(* _broadcast_binary_op(op, lhs, rhs):
     if lhs is a scalar: lhs = ts_rhs.unflatten(repeat(lhs, ts_rhs.num_leaves))
     elif rhs is a scalar: rhs = ts_lhs.unflatten(repeat(rhs, ...))
     elif ts_lhs.num_nodes != ts_rhs.num_nodes: raise ValueError
     return tree_map(op, lhs, rhs) *)
Inductive operand (A : Type) := Scalar (s : A) | Tree (t : pytree A).
Arguments Scalar {A}. Arguments Tree {A}.

Definition bop {A C} (f : A -> A -> C) (lhs rhs : operand A) : option (pytree C) :=
  match lhs, rhs with
  | Scalar s, Tree b => Some (tmap1 (f s) b)
  | Tree a, Scalar s => Some (tmap1 (fun x => f x s) a)
  | Tree a, Tree b =>
      if Nat.eqb (num_nodes (td a)) (num_nodes (td b)) then tmap2 f a b else None
  | Scalar _, Scalar _ => None      (* not a Vector operation *)
  end.

(* ---------------------------------------------------------------- Gaussian integers *)
Definition C := (Z * Z)%type.
Definition cadd (a b : C) : C := (fst a + fst b, snd a + snd b).
Definition csub (a b : C) : C := (fst a - fst b, snd a - snd b).
Definition cmul (a b : C) : C := (fst a * fst b - snd a * snd b, fst a * snd b + snd a * fst b).
Definition cconj (a : C) : C := (fst a, - snd a).
Definition cneg (a : C) : C := (- fst a, - snd a).
Definition c0 : C := (0, 0).
Definition c_eqb (a b : C) : bool := Z.eqb (fst a) (fst b) && Z.eqb (snd a) (snd b).
Definition cbool (b : bool) : C := (if b then 1 else 0, 0).
(* comparisons act on real data *)
Definition clt (a b : C) : C := cbool (fst a <? fst b).
Definition cle (a b : C) : C := cbool (fst a <=? fst b).
Definition ceq (a b : C) : C := cbool (c_eqb a b).
Definition cne (a b : C) : C := cbool (negb (c_eqb a b)).
Definition cge (a b : C) : C := cbool (fst b <=? fst a).
Definition cgt (a b : C) : C := cbool (fst b <? fst a).

(* ---------------------------------------------------------------- dot products
   vdot(a, b) = tree_reduce(jnp.add, tree_map(jnp.vdot, a, b), 0.0)      (conjugates a)
   dot(a, b)  = tree_reduce(operator.add, tree_map(lambda x, y: jnp.dot(ravel x, ravel y), a, b), 0.0) *)
Definition lsum (l : list C) : C := fold_left cadd l c0.
Definition leaf_vdot (x y : list C) : C := lsum (map2 (fun a b => cmul (cconj a) b) x y).
Definition leaf_dot (x y : list C) : C := lsum (map2 cmul x y).

Definition tvdot (a b : pytree C) : option C :=
  if td_eqb (td a) (td b) && Nat.eqb (length (lv a)) (length (lv b))
     && list_eqb Nat.eqb (map (@length C) (lv a)) (map (@length C) (lv b))
  then Some (fold_left cadd (map2 leaf_vdot (lv a) (lv b)) c0) else None.

Definition tdot (a b : pytree C) : option C :=
  if td_eqb (td a) (td b) && Nat.eqb (length (lv a)) (length (lv b))
     && list_eqb Nat.eqb (map (@length C) (lv a)) (map (@length C) (lv b))
  then Some (fold_left cadd (map2 leaf_dot (lv a) (lv b)) c0) else None.

(* ---------------------------------------------------------------- reductions
   _unary_reduction(jax_f):  tree_reduce(_red, tree_map(_safe_uni, a))
     _safe_uni(a) = jax_f(jnp.atleast_1d(a));  _red(a, b) = jax_f(jnp.array([a, b]))
   tree_reduce without initialiser = functools.reduce: ((l0 . l1) . l2) ... *)
Section Reduction.
  Variable A : Type.
  Variable op : A -> A -> A.
  (* jax_f on a non-empty array: fold from the left *)
  Definition red1 (d : A) (l : list A) : A :=
    match l with [] => d | x :: r => fold_left op r x end.
  Definition tred (d : A) (t : pytree A) : A := red1 d (map (red1 d) (lv t)).
End Reduction.

Definition tsum_z (t : pytree Z) : Z := tred Z Z.add 0 t.
Definition tmin_z (t : pytree Z) : Z := tred Z Z.min 0 t.
Definition tmax_z (t : pytree Z) : Z := tred Z Z.max 0 t.
Definition tany (t : pytree bool) : bool := tred bool orb false t.
Definition tall (t : pytree bool) : bool := tred bool andb true t.

(* ---------------------------------------------------------------- norms (integer data)
   norm(tree, ord) = norm(array([el_norm(x) for leaves]), ord),  el_norm(x) = norm(ravel(x), ord) *)
Definition norm1_l (l : list Z) : Z := fold_left Z.add (map Z.abs l) 0.
Definition norminf_l (l : list Z) : Z := red1 Z Z.max 0 (map Z.abs l).
Definition normminf_l (l : list Z) : Z := red1 Z Z.min 0 (map Z.abs l).
Definition sumsq_l (l : list Z) : Z := fold_left Z.add (map (fun x => x * x) l) 0.

Definition tnorm1 (t : pytree Z) : Z := norm1_l (map norm1_l (lv t)).
Definition tnorminf (t : pytree Z) : Z := norminf_l (map norminf_l (lv t)).
Definition tnormminf (t : pytree Z) : Z := normminf_l (map normminf_l (lv t)).
(* ord = 2: squares only (the square roots are the implementation's) *)
Definition tsumsq (t : pytree Z) : Z := fold_left Z.add (map sumsq_l (lv t)) 0.

(* ---------------------------------------------------------------- _generic_smap (smap / lmap)
   Arrays enter as their slices along the mapped axis: a mapped input leaf `el` with in_axes i is
   the list [take(el, b, axis=i) for b], i.e. the rows of _moveaxis(el, i, 0); a batched output with
   out_axes o is the list of its slices along axis o, i.e. _moveaxis(stacked, 0, o) (the semantics
   of jnp.moveaxis / stacking are trusted and checked by the correspondence).  Slices are raveled.

     unmapped = [el for i, el in zip(in_axes, x) if i is None]
     mapped   = [_moveaxis(el, i, 0) for ... if isinstance(i, int)]
     def _fun_reord(_, mapped, *, fun, unmapped, unflatten, in_axes):
         un, mapped = list(unmapped), list(mapped)
         args = tuple(un.pop(0) if a is None else mapped.pop(0) for a in in_axes)
         y = fun( *unflatten(args));  return None, y
     _, y = _scan(fun_reord, None, mapped)               # leaves of y stacked along axis 0
     if _int_or_none(out_axes):                          # (/repo 5e18223) a single int / None applies to
         y_leaves, out_axes_td = tree_flatten(y)         # every LEAF of y (None entries of y are no leaves):
         out_axes = [out_axes] * len(y_leaves)           # the model's out_axes list has one entry per leaf
     else: out_axes, out_axes_td = tree_flatten(out_axes, is_leaf=_int_or_none)
     y, y_td = tree_flatten(y)
     for i, el in zip(out_axes, y):
         if i is None: out.append(el[0])                 # (fixes/C33-1.patch; was unmapped.pop(0))
         elif isinstance(i, int): out.append(_moveaxis(el, 0, i)) *)
Section Smap.
  Variable X Y : Type.
  Variable xdef : X.
  Variable ydef : Y.

  Inductive arg := Unmapped (x : X) | Mapped (xs : list X).
  Inductive res := Unbatched (y : Y) | Batched (axis : nat) (ys : list Y).

  Definition is_mapped (a : arg) : bool := match a with Mapped _ => true | Unmapped _ => false end.

  Fixpoint unmapped_of (l : list arg) : list X :=
    match l with [] => [] | Unmapped x :: r => x :: unmapped_of r | Mapped _ :: r => unmapped_of r end.
  Fixpoint mapped_of (l : list arg) : list (list X) :=
    match l with [] => [] | Mapped xs :: r => xs :: mapped_of r | Unmapped _ :: r => mapped_of r end.

  (* args = tuple(un.pop(0) if a is None else mapped.pop(0) for a in in_axes) *)
  Fixpoint reord (pattern : list bool) (un ms : list X) : list X :=
    match pattern with
    | [] => []
    | false :: p => hd xdef un :: reord p (tl un) ms
    | true :: p => hd xdef ms :: reord p un (tl ms)
    end.

  (* scan length: leading axis of the first mapped leaf *)
  Definition batch (l : list arg) : nat := match mapped_of l with [] => 0%nat | xs :: _ => length xs end.

  Definition smap (f : list X -> list Y) (inputs : list arg) (out_axes : list (option nat)) : list res :=
    let pattern := map is_mapped inputs in
    let un := unmapped_of inputs in
    let mp := mapped_of inputs in
    let B := batch inputs in
    let ys := map (fun b => f (reord pattern un (map (fun xs => nth b xs xdef) mp))) (seq 0 B) in   (* scan *)
    let col j := map (fun y => nth j y ydef) ys in                                                  (* stacked leaf j *)
    map (fun jo => match snd jo with
                   | None => Unbatched (nth 0 (col (fst jo)) ydef)
                   | Some o => Batched o (col (fst jo))
                   end)
        (combine (seq 0 (length out_axes)) out_axes).

  (* the specification of jax.vmap: output leaf j, batched along axis o, has the slices
     f(inputs sliced at b)[j]; an un-batched output (out_axes None) is f(inputs sliced at any b)[j] *)
  Definition slice_at (b : nat) (a : arg) : X := match a with Unmapped x => x | Mapped xs => nth b xs xdef end.

  Definition vmap_spec (f : list X -> list Y) (inputs : list arg) (out_axes : list (option nat)) : list res :=
    let B := batch inputs in
    map (fun jo => match snd jo with
                   | None => Unbatched (nth (fst jo) (f (map (slice_at 0) inputs)) ydef)
                   | Some o => Batched o (map (fun b => nth (fst jo) (f (map (slice_at b) inputs)) ydef) (seq 0 B))
                   end)
        (combine (seq 0 (length out_axes)) out_axes).
End Smap.

(* the test functions of the correspondence check (the same in harness/props/c33.py) *)
Definition zsum (l : list Z) : Z := fold_left Z.add l 0.
Definition fn (id : nat) (args : list (list Z)) : list (list Z) :=
  match id, args with
  | 0%nat, [x; y] => [map2 Z.mul x y; [zsum y]]
  | 1%nat, [x] => [map (Z.add 1) x; [zsum x]; map (Z.mul 2) x]
  | 2%nat, [x; y; z] => [map (fun v => v + zsum z - zsum x) y; map (Z.mul (zsum x * zsum y)) z;
                         map (fun v => v + zsum y * zsum z) x]
  | 3%nat, [a; b; c] => [map (fun v => v + zsum b) a; [zsum c]; map (Z.mul 2) c]
  | 4%nat, [x; y] => [[zsum y]; map (Z.mul 3) y]
  | 5%nat, [x] => [map (Z.mul 2) x; [zsum x]]      (* Python returns (None, 2*x, None, x.sum()): None is no leaf *)
  | _, _ => []
  end.

(* ---------------------------------------------------------------- comparison helpers *)
Definition zl_eqb := list_eqb Z.eqb.
Definition cl_eqb := list_eqb c_eqb.
Definition cll_eqb := list_eqb cl_eqb.

Definition res_eqb (a b : res (list Z)) : bool :=
  match a, b with
  | Unbatched _ x, Unbatched _ y => zl_eqb x y
  | Batched _ o xs, Batched _ p ys => Nat.eqb o p && list_eqb zl_eqb xs ys
  | _, _ => false
  end.

Definition opt_tree_eqb (a : option (pytree C)) (b : option (pytree C)) : bool :=
  match a, b with
  | None, None => true
  | Some x, Some y => td_eqb (td x) (td y) && cll_eqb (lv x) (lv y)
  | _, _ => false
  end.

Definition re_tree (t : pytree C) : pytree Z := tmap1 fst t.
Definition nz_tree (t : pytree C) : pytree bool := tmap1 (fun c => negb (c_eqb c c0)) t.

(* ---------------------------------------------------------------- the code BEFORE fixes/C33-1.patch
   (kept for the record and for the corpus case): an un-batched output was taken from the list of
   un-mapped INPUTS:  if i is None: out.append(unmapped.pop(0)) *)
Fixpoint old_outputs (un : list (list Z)) (cols : list (list (list Z))) (out_axes : list (option nat)) : list (res (list Z)) :=
  match out_axes, cols with
  | None :: r, _ :: cols' => Unbatched _ (hd [] un) :: old_outputs (tl un) cols' r
  | Some o :: r, c :: cols' => Batched _ o c :: old_outputs un cols' r
  | _, _ => []
  end.

Definition smap_unfixed (f : list (list Z) -> list (list Z)) (inputs : list (arg (list Z))) (out_axes : list (option nat))
  : list (res (list Z)) :=
  let pattern := map (is_mapped _) inputs in
  let un := unmapped_of _ inputs in
  let mp := mapped_of _ inputs in
  let B := batch _ inputs in
  let ys := map (fun b => f (reord _ [] pattern un (map (fun xs => nth b xs []) mp))) (seq 0 B) in
  let cols := map (fun j => map (fun y => nth j y []) ys) (seq 0 (length out_axes)) in
  old_outputs un cols out_axes.

Definition chk_smap (id : nat) (inputs : list (arg (list Z))) (out_axes : list (option nat)) (obs : list (res (list Z))) : bool :=
  list_eqb res_eqb (smap _ _ [] [] (fn id) inputs out_axes) obs.

Definition chk_vmap (id : nat) (inputs : list (arg (list Z))) (out_axes : list (option nat)) (obs : list (res (list Z))) : bool :=
  list_eqb res_eqb (vmap_spec _ _ [] [] (fn id) inputs out_axes) obs.

(* ---------------------------------------------------------------- forest_math.unite(x, y, op)
     for k in x.keys() | y.keys():
         if k in x and k in y: out[k] = op(x[k], y[k])       (x first, y second)
         elif k in x: out[k] = x[k]
         else: out[k] = y[k]
   dicts as key-sorted association lists (JAX flattens dicts in sorted key order) *)
Fixpoint lookup (k : nat) (d : list (nat * list Z)) : option (list Z) :=
  match d with
  | [] => None
  | (k', v) :: r => if Nat.eqb k k' then Some v else lookup k r
  end.

Definition unite_op (id : nat) (a b : Z) : Z :=
  match id with
  | 0%nat => a + b
  | 1%nat => a - b
  | 2%nat => 2 * a - 3 * b
  | _ => a * b + a
  end.

Definition unite (id : nat) (keys : list nat) (x y : list (nat * list Z)) : list (nat * list Z) :=
  flat_map (fun k => match lookup k x, lookup k y with
                     | Some a, Some b => [(k, map2 (unite_op id) a b)]
                     | Some a, None => [(k, a)]
                     | None, Some b => [(k, b)]
                     | None, None => []
                     end) keys.

Definition chk_unite (id : nat) (keys : list nat) (x y obs : list (nat * list Z)) : bool :=
  list_eqb (fun p q => Nat.eqb (fst p) (fst q) && zl_eqb (snd p) (snd q)) (unite id keys x y) obs.
