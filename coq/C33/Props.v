(* C33 -- property theorems only.  Each is closed by [exact] of a lemma from Proofs.v. *)
From Coq Require Import ZArith List Bool Lia.
Import ListNotations.
Require Import NV.C33.Model NV.C33.Proofs.
Open Scope Z_scope.

(* ---- flatten is a homomorphism: tree_map of a binary operation on two pytrees of equal structure
   is the operation on the concatenated flat arrays (for EVERY binary operation: +, -, *, /, //, **, %,
   comparisons, bit operations ...), and the result keeps the structure *)
Theorem C33_flat_homomorphism :
  forall (A B C : Type) (f : A -> B -> C) (a : pytree A) (b : pytree B) (c : pytree C),
    tmap2 f a b = Some c -> flatten c = map2 f (flatten a) (flatten b) /\ td c = td a.
Proof. exact @tmap2_flat. Qed.

(* ---- the operator overloads of Vector (_broadcast_binary_op): tree (op) tree as above, a scalar
   on either side is broadcast to every entry *)
Theorem C33_vector_binary_op :
  forall (A C : Type) (f : A -> A -> C) (lhs rhs : operand A) (c : pytree C),
    bop f lhs rhs = Some c ->
    match lhs, rhs with
    | Scalar s, Tree b => flatten c = map (f s) (flatten b)
    | Tree a, Scalar s => flatten c = map (fun x => f x s) (flatten a)
    | Tree a, Tree b => flatten c = map2 f (flatten a) (flatten b)
    | Scalar _, Scalar _ => False
    end.
Proof. exact @bop_flat. Qed.

Theorem C33_unary_op :
  forall (A B : Type) (g : A -> B) (t : pytree A), flatten (tmap1 g t) = map g (flatten t).
Proof. exact @tmap1_flat. Qed.

Theorem C33_size : forall (A : Type) (t : pytree A), tsize t = Z.of_nat (length (flatten t)).
Proof. exact @tsize_flat. Qed.

(* ---- vdot is the Hermitian product of the flattened vectors (conjugating the first argument),
   dot / matmul the bilinear one *)
Theorem C33_vdot :
  forall a b v, tvdot a b = Some v -> v = lsum (map2 (fun x y => cmul (cconj x) y) (flatten a) (flatten b)).
Proof. exact tvdot_flat. Qed.

Theorem C33_dot :
  forall a b v, tdot a b = Some v -> v = lsum (map2 cmul (flatten a) (flatten b)).
Proof. exact tdot_flat. Qed.

(* ---- reductions (sum, min, max, any, all -- any associative operation): reducing the per-leaf
   reductions from the left equals reducing the flat array, for trees with non-empty leaves *)
Theorem C33_reductions :
  forall (A : Type) (op : A -> A -> A), (forall a b c, op (op a b) c = op a (op b c)) ->
  forall (d : A) (t : pytree A),
    lv t <> [] -> Forall (fun p => p <> []) (lv t) -> tred A op d t = red1 A op d (flatten t).
Proof. exact tred_flat. Qed.

(* ---- norms: ord = 1, inf, -inf exactly; ord = 2 through the squares (the square roots are the
   implementation's: if n_l^2 are the leaf sums of squares and N^2 = sum n_l^2 then N^2 is the flat one) *)
Theorem C33_norm1 : forall t, tnorm1 t = norm1_l (flatten t).
Proof. exact tnorm1_flat. Qed.

Theorem C33_norm_inf :
  forall t, lv t <> [] -> Forall (fun p => p <> []) (lv t) -> tnorminf t = norminf_l (flatten t).
Proof. exact tnorminf_flat. Qed.

Theorem C33_norm_minus_inf :
  forall t, lv t <> [] -> Forall (fun p => p <> []) (lv t) -> tnormminf t = normminf_l (flatten t).
Proof. exact tnormminf_flat. Qed.

Theorem C33_norm2 :
  forall t (ns : list Z) N,
    map (fun n => n * n) ns = map sumsq_l (lv t) -> N * N = fold_left Z.add (map (fun n => n * n) ns) 0 ->
    N * N = sumsq_l (flatten t).
Proof. exact tnorm2_flat. Qed.

(* ---- smap / lmap (_generic_smap, after fixes/C33-1.patch): for every function, every choice of
   mapped (any axis) and un-mapped (None) input leaves and every choice of batched (any axis) and
   un-batched (None) output leaves, the sequential map equals the specification of jax.vmap *)
Theorem C33_smap_is_vmap :
  forall (X Y : Type) (xdef : X) (ydef : Y) (f : list X -> list Y)
         (inputs : list (arg X)) (out_axes : list (option nat)),
    (1 <= batch X inputs)%nat ->
    smap X Y xdef ydef f inputs out_axes = vmap_spec X Y xdef ydef f inputs out_axes.
Proof. exact smap_is_vmap. Qed.

Theorem C33_reord :
  forall (X : Type) (xdef : X) (b : nat) (inputs : list (arg X)),
    reord X xdef (map (is_mapped X) inputs) (unmapped_of X inputs) (map (fun xs => nth b xs xdef) (mapped_of X inputs))
    = map (slice_at X xdef b) inputs.
Proof. exact reord_correct. Qed.

(* ---- the code before the fix violates the specification: f(x, y) = (x*y, y.sum()) with
   in_axes (0, None), out_axes (0, None) returned the un-mapped input y = [1, 2] instead of y.sum() = 3
   (the case is kept in corpus/C33 and replayed on every run) *)
Example C33_unfixed_smap_refuted :
  let inputs := [Mapped _ [[0; 1]; [2; 3]; [4; 5]]; Unmapped _ [1; 2]] in
  let out_axes := [Some 0%nat; None] in
  vmap_spec _ _ [] [] (fn 0) inputs out_axes = [Batched _ 0 [[0; 2]; [2; 6]; [4; 10]]; Unbatched _ [3]] /\
  smap _ _ [] [] (fn 0) inputs out_axes = vmap_spec _ _ [] [] (fn 0) inputs out_axes /\
  smap_unfixed (fn 0) inputs out_axes = [Batched _ 0 [[0; 2]; [2; 6]; [4; 10]]; Unbatched _ [1; 2]].
Proof. vm_compute. repeat split. Qed.

(* non-vacuity of the reduction / norm hypotheses *)
Example C33_hyps_satisfiable :
  let t := mkTree (TNode [TLeaf; TNode [TLeaf]]) [[3; -4]; [1]] in
  lv t <> [] /\ Forall (fun p => p <> []) (lv t) /\ tnorminf t = 4 /\ tnorm1 t = 8 /\ tsumsq t = 26.
Proof. vm_compute. repeat split; try discriminate. repeat constructor; discriminate. Qed.
