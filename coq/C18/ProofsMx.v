(* C18 -- distribution of the variational samples: matrix identities (MathComp, axiom-free).

   JAX (nifty/re/evi.py:draw_linear_residual):
       nll_smpl = lh.left_sqrt_metric(p, xi1)            = L xi1        (metric M = L L^T)
       prr_smpl = xi2
       smpl, info = cg(M + 1, nll_smpl + prr_smpl)       = (M+1)^-1 (L xi1 + xi2)
   classic (nifty/cl/operators/sampling_enabler.py:special_draw_sample, prior metric P P^T):
       s = prior.draw_sample(from_inverse=True); nj = likelihood.draw_sample()
       b = prior(s) + nj  = P xi2 + L xi1;  position = (M + P P^T)^-1 b
   In both cases the residual is T xi with T = A^-1 [L | P], A = L L^T + P P^T, xi white.          *)
From mathcomp Require Import ssreflect ssrfun ssrbool eqtype ssrnat seq fintype bigop order ssralg ssrnum matrix mxalgebra.
Require Import NV.C20.ProofsMx.
Set Implicit Arguments.
Unset Strict Implicit.
Unset Printing Implicit Defensive.
Import GRing.Theory Order.TTheory Num.Theory.
Local Open Scope ring_scope.

Section LinearSample.
Variable F : fieldType.
Variables n k1 k2 : nat.
Variables (L : 'M[F]_(n,k1)) (P : 'M[F]_(n,k2)).

Definition smetric : 'M[F]_n := L *m L^T + P *m P^T.
Definition sfactor : 'M[F]_(n, k1 + k2) := invmx smetric *m row_mx L P.

Lemma smetric_sym : smetric^T = smetric.
Proof. by rewrite /smetric linearD /= !trmx_mul !trmxK. Qed.

(* covariance of the linear sample = inverse of the metric *)
Lemma linear_cov : smetric \in unitmx -> sfactor *m sfactor^T = invmx smetric.
Proof.
move=> uA; rewrite /sfactor trmx_mul tr_row_mx -mulmxA (mulmxA (row_mx L P)) mul_row_col.
rewrite -/smetric trmx_inv smetric_sym.
by rewrite (mulmxV uA) mulmx1.
Qed.

(* equivalently: T T^T A = 1, the form compared by the noise-injection check *)
Lemma linear_cov_check : smetric \in unitmx -> sfactor *m sfactor^T *m smetric = 1%:M.
Proof. by move=> uA; rewrite (linear_cov uA) (mulVmx uA). Qed.

End LinearSample.

(* standard prior (JAX; classic StandardHamiltonian): P = 1 *)
Section StandardPrior.
Variable F : fieldType.
Variables n k : nat.
Variable L : 'M[F]_(n,k).

Lemma linear_cov_std : (L *m L^T + 1%:M) \in unitmx ->
  let T := invmx (L *m L^T + 1%:M) *m row_mx L 1%:M in
  T *m T^T = invmx (L *m L^T + 1%:M).
Proof.
move=> uA /=.
have E : L *m L^T + 1%:M = smetric L (1%:M : 'M[F]_n) by rewrite /smetric trmx1 mulmx1.
by move: uA; rewrite E => uA; exact: linear_cov.
Qed.
End StandardPrior.

(* linear Gaussian model d = R s + n: L = R^T W with W W^T = N^-1, so the MGVI samples have exactly
   the posterior covariance (R^T N^-1 R + 1)^-1 of C20 *)
Section LinearGaussian.
Variable F : fieldType.
Variables m n : nat.
Variables (R : 'M[F]_(m,n)) (N W : 'M[F]_m).
Hypothesis Wsqrt : W *m W^T = invmx N.

Lemma lg_metric : (R^T *m W) *m (R^T *m W)^T + 1%:M = curv R R^T N.
Proof. by rewrite /curv trmx_mul trmxK -mulmxA (mulmxA W) Wsqrt !mulmxA. Qed.

Lemma lg_exact_posterior_samples : curv R R^T N \in unitmx ->
  let T := invmx (curv R R^T N) *m row_mx (R^T *m W) 1%:M in
  T *m T^T = invmx (curv R R^T N).
Proof.
move=> uA /=; rewrite -lg_metric; apply: linear_cov_std; by rewrite lg_metric.
Qed.
End LinearGaussian.

(* mirrored samples: exact negatives, and their mean is the expansion point *)
Section Mirror.
Variable V : zmodType.

Lemma mirrored_pair_sum (e r : V) : (e + r) + (e - r) = e *+ 2.
Proof. by rewrite addrACA subrr addr0 mulr2n. Qed.

Lemma mirrored_sum (e : V) (rs : seq V) :
  \sum_(r <- rs) ((e + r) + (e - r)) = e *+ (2 * size rs).
Proof.
elim: rs => [|r rs IH]; first by rewrite big_nil muln0 mulr0n.
by rewrite big_cons IH mirrored_pair_sum /= mulnS mulrnDr.
Qed.

Lemma mirrored_residual_sum (rs : seq V) : \sum_(r <- rs) (r + (- r)) = 0.
Proof. by rewrite big1_seq // => r _; rewrite subrr. Qed.
End Mirror.

(* point estimates: the residual of the frozen block is zero, so is every covariance entry that
   involves it; the liquid block has the covariance of the frozen likelihood's metric *)
Section PointEstimates.
Variable F : fieldType.
Variables nl nf k1 : nat.
Variable Ll : 'M[F]_(nl,k1).         (* left sqrt metric of the frozen likelihood (liquid keys only) *)

Definition pe_factor : 'M[F]_(nl + nf, k1 + nl) :=
  col_mx (invmx (Ll *m Ll^T + 1%:M) *m row_mx Ll 1%:M) 0.

Lemma pe_cov : (Ll *m Ll^T + 1%:M) \in unitmx ->
  pe_factor *m pe_factor^T = block_mx (invmx (Ll *m Ll^T + 1%:M)) 0 0 0.
Proof.
move=> uA; rewrite /pe_factor tr_col_mx mul_col_row.
by rewrite (linear_cov_std uA) trmx0 !mulmx0 !mul0mx.
Qed.

Lemma pe_frozen_zero (xi : 'cV[F]_(k1 + nl)) : dsubmx (pe_factor *m xi) = 0.
Proof. by rewrite /pe_factor mul_col_mx col_mxKd mul0mx. Qed.
End PointEstimates.

(* geoVI update on a model whose transformation is affine, t(x) = t0 + G x:
   left sqrt metric L = G^T at every point, g(x) = x - e + L (t(x) - t(e)) = (1 + G^T G)(x - e), the
   metric sample is m = +-(L xi1 + xi2) = (1 + G^T G)(+-r) with r the linear residual.  The update
   equation g(x) = m has the unique solution x = e +- r: the non-linear update leaves linear samples
   unchanged. *)
Section GeoVILinear.
Variable F : fieldType.
Variables n k : nat.
Variable G : 'M[F]_(k,n).

Definition geo_g (e x : 'cV[F]_n) : 'cV[F]_n := x - e + G^T *m ((G *m x) - (G *m e)).

Lemma geo_g_affine e x : geo_g e x = (G^T *m G + 1%:M) *m (x - e).
Proof. by rewrite /geo_g mulmxDl mul1mx -mulmxBr -mulmxA addrC. Qed.

Lemma geovi_linear_fixed (e r x : 'cV[F]_n) : (G^T *m G + 1%:M) \in unitmx ->
  (geo_g e x = (G^T *m G + 1%:M) *m r) <-> x = e + r.
Proof.
move=> uA; rewrite geo_g_affine; split.
  move/(congr1 (mulmx (invmx (G^T *m G + 1%:M)))).
  by rewrite !(mulKmx uA) => <-; rewrite addrC subrK.
by move=> ->; rewrite [e + r]addrC addrK.
Qed.

(* the residual norm minimised by nonlinearly_update_residual vanishes there *)
Lemma geovi_linear_residual_zero (e r : 'cV[F]_n) :
  (G^T *m G + 1%:M) *m r - geo_g e (e + r) = 0.
Proof. by rewrite geo_g_affine [e + r]addrC addrK subrr. Qed.
End GeoVILinear.

(* ordered fields: 1 + L L^T is always invertible (no hypothesis left in the theorems above) *)
Section Ordered.
Variable F : realFieldType.
Variables n k : nat.
Variable L : 'M[F]_(n,k).

Lemma std_metric_unit : (L *m L^T + 1%:M) \in unitmx.
Proof.
have H : forall y : 'rV[F]_k, 0 <= (y *m invmx (1%:M : 'M[F]_k) *m y^T) ord0 ord0.
  move=> y; rewrite invmx1 mulmx1 mxE; apply: sumr_ge0 => j _.
  by rewrite [_^T _ _]mxE -expr2 sqr_ge0.
have := @curv_unit_psd F k n L^T 1%:M H.
by rewrite /curv trmxK invmx1 mulmx1.
Qed.
End Ordered.
