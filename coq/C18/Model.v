(* C18 -- executable model (no proofs).

   Part 1: control flow of the classic sampler, nifty/cl/minimization/kl_energies.py:131-159
       sseq = random.spawn_sseq(n_samples)
       if mirror_samples: sseq = reduce(lambda a, b: a+b, [[ss]*2 for ss in sseq])
       y = None
       for i in range( *shareRange(len(sseq), ntask, rank)):
           with random.Context(sseq[i]):
               neg = mirror_samples and (i % 2 != 0)
               if not neg or y is None:  # we really need to draw a sample
                   y, yi = met.special_draw_sample(True)
               if geometric: ... local_samples.append(en.position - sam_position); local_neg.append(False)
               else:         local_samples.append(yi);                          local_neg.append(neg)
   and nifty/cl/utilities.py:302-306 (shareRange).
   A draw is a deterministic function `draw seed` of the seed sequence installed by random.Context
   (the generator is re-created from it); what is stored is `emit neg (draw seed)`.

   Part 2: checks on the sampling factor T extracted by noise injection, on top of the rational
   matrix model of C20 (NV.C20.Model): linearised metric J^T N^-1 J + 1 at the expansion point,
   restricted to the liquid (not point-estimated) columns.                                         *)
From Coq Require Import List Arith Bool QArith.
Import ListNotations.
Require Import NV.C20.Model.
Local Open Scope nat_scope.

(* ---------------------------------------------------------------------------------------------- *)
Section DrawSamples.
Variables Seed Y Out : Type.
Variable draw : Seed -> Y.            (* met.special_draw_sample under random.Context(seed) *)
Variable emit : bool -> Y -> Out.     (* what is appended: linear (yi, neg); geometric (minimiser result, False) *)
Variable dseed : Seed.                (* default for the totalised nth; unreachable under the hypotheses *)

(* utilities.py:302-306 *)
Definition share_range (nwork nshares myshare : nat) : nat * nat :=
  let nbase := nwork / nshares in
  let additional := nwork mod nshares in
  let lo := myshare * nbase + Nat.min myshare additional in
  let hi := lo + nbase + (if myshare <? additional then 1 else 0) in
  (lo, hi).

(* `[[ss]*2 for ss in sseq]` flattened *)
Definition dup (seeds : list Seed) : list Seed := flat_map (fun s => [s; s]) seeds.
Definition seed_list (mirror : bool) (seeds : list Seed) : list Seed := if mirror then dup seeds else seeds.

(* the loop body for the indices `idx`, with the loop-carried variable y;
   returns the emitted items and the log of indices at which a sample was really drawn *)
Fixpoint task_loop (mirror : bool) (sseq : list Seed) (idx : list nat) (y : option Y)
  : list Out * list nat :=
  match idx with
  | [] => ([], [])
  | i :: rest =>
    let neg := mirror && negb (Nat.even i) in
    let redraw := negb neg || (match y with None => true | Some _ => false end) in
    let yv := if redraw then draw (nth i sseq dseed)
              else match y with Some v => v | None => draw (nth i sseq dseed) end in
    let '(outs, log) := task_loop mirror sseq rest (Some yv) in
    (emit neg yv :: outs, if redraw then i :: log else log)
  end.

Definition task_run (mirror : bool) (seeds : list Seed) (ntask rank : nat) : list Out * list nat :=
  let sseq := seed_list mirror seeds in
  let '(lo, hi) := share_range (length sseq) ntask rank in
  task_loop mirror sseq (seq lo (hi - lo)) None.

(* all samples in global order (ResidualSampleList over the communicator) *)
Definition all_samples (mirror : bool) (seeds : list Seed) (ntask : nat) : list Out :=
  flat_map (fun r => fst (task_run mirror seeds ntask r)) (seq 0 ntask).

(* reference: what a single task produces *)
Definition reference (mirror : bool) (seeds : list Seed) : list Out :=
  let sseq := seed_list mirror seeds in
  map (fun i => emit (mirror && negb (Nat.even i)) (draw (nth i sseq dseed))) (seq 0 (length sseq)).
End DrawSamples.

(* instance used by the correspondence: seeds are the pair numbers, a draw is the seed itself, the
   emitted item is (pair number, neg flag) *)
Definition run_ids (mirror : bool) (n ntask rank : nat) : list (nat * bool) * list nat :=
  task_run nat nat (nat * bool) (fun s => s) (fun neg y => (y, neg)) 0 mirror (seq 0 n) ntask rank.

Fixpoint ids_eqb (a b : list (nat * bool)) : bool :=
  match a, b with
  | [], [] => true
  | (x, p) :: a', (y, q) :: b' => Nat.eqb x y && Bool.eqb p q && ids_eqb a' b'
  | _, _ => false
  end.
Fixpoint nats_eqb (a b : list nat) : bool :=
  match a, b with
  | [], [] => true
  | x :: a', y :: b' => Nat.eqb x y && nats_eqb a' b'
  | _, _ => false
  end.
(* observed on one task: (pair number, neg) of every local sample and the indices of real draws *)
Definition task_ok (mirror : bool) (n ntask rank : nat) (obs : list (nat * bool)) (drawn : list nat) : bool :=
  let '(ids, log) := run_ids mirror n ntask rank in ids_eqb ids obs && nats_eqb log drawn.

(* ---------------------------------------------------------------------------------------------- *)
Open Scope Q_scope.

(* keep the columns whose mask entry is true *)
Fixpoint pick {A} (mask : list bool) (l : list A) : list A :=
  match mask, l with
  | b :: m', x :: l' => if b then x :: pick m' l' else pick m' l'
  | _, _ => []
  end.
Definition restrict_cols (mask : list bool) (J : mat) : mat := map (pick mask) J.
Definition count_true (mask : list bool) : nat := length (filter (fun b => b) mask).

(* metric of the (frozen) likelihood + prior at the expansion point p for the generated models
   f(x) = R x + Q x*x + c, on the liquid coordinates `mask` *)
Definition liquid_metric (R Qm Ninv : mat) (p : vec) (mask : list bool) : mat :=
  post_cov_inv (count_true mask) (restrict_cols mask (jac R Qm p)) Ninv.

Fixpoint all_zero (v : vec) : bool :=
  match v with [] => true | a :: v' => Qeq_bool a 0 && all_zero v' end.

(* products of the implementation's floats (dyadic rationals) WITHOUT normalisation: the gcds taken
   by C20's qadd/qmul dominate the run time on 53-bit mantissas and are pointless for dyadics *)
Fixpoint rdot (u v : vec) : Q :=
  match u, v with a :: u', b :: v' => a * b + rdot u' v' | _, _ => 0 end.
Definition rmat_mul (nc : nat) (A B : mat) : mat :=
  let Bt := transpose nc B in map (fun r => map (fun c => rdot r c) Bt) A.
Definition cov_check (tol : Q) (n k : nat) (A T : mat) : bool :=
  mclose tol (rmat_mul n (rmat_mul n T (transpose k T)) A) (identity n).

(* T given by rows (one row per coordinate, k columns):
   liquid rows: (T_l T_l^T) (J_l^T N^-1 J_l + 1) = 1 within tol; frozen rows: exactly zero *)
Definition factor_ok (tol : Q) (k : nat) (R Qm Ninv : mat) (p : vec) (mask : list bool) (T : mat) : bool :=
  let Tl := pick mask T in
  let Tf := pick (map negb mask) T in
  cov_check tol (count_true mask) k (liquid_metric R Qm Ninv p mask) Tl && forallb all_zero Tf.

(* mirrored residuals: entry 2k+1 is the exact negative of entry 2k *)
Fixpoint mirrored_ok (rs : list vec) : bool :=
  match rs with
  | [] => true
  | a :: b :: rest => veqb (map Qopp a) b && mirrored_ok rest
  | _ => false
  end.

(* residuals before / after the non-linear update agree within tol *)
Fixpoint residuals_close (tol : Q) (a b : list vec) : bool :=
  match a, b with
  | [], [] => true
  | x :: a', y :: b' => close tol x y && residuals_close tol a' b'
  | _, _ => false
  end.

(* ---------------------------------------------------------------------------------------------- *)
(* non-unit prior metric (classic SamplingEnabler / WienerFilterCurvature with S != 1): the sampled
   residual must have covariance (J^T N^-1 J + S^-1)^-1; `sinv` = diagonal of the prior metric *)
Definition factor_ok_prior (tol : Q) (k : nat) (R Qm Ninv : mat) (p sinv : vec) (T : mat) : bool :=
  cov_check tol (length p) k (curvature (length p) (jac R Qm p) Ninv sinv) T.

(* ---------------------------------------------------------------------------------------------- *)
(* nifty/re/evi.py: class Samples (flattened leaves).
     samples:      pos[None] + _samples          (or _samples if pos is None)
     at(pos, old_pos=None):
         if self.pos is not None and old_pos is None:  smpls = self._samples
         elif old_pos is not None:                     smpls = self.samples - old_pos[None]
         else: raise ValueError
         return Samples(pos=pos, samples=smpls, keys=self.keys)
     squeeze(): merge the two leading axes of _samples                                              *)
Record jsmp := { jpos : option vec; jres : list vec }.

Definition jsamples (s : jsmp) : list vec :=
  match jpos s with Some p => map (vadd p) (jres s) | None => jres s end.

Definition jat (s : jsmp) (new : vec) (old : option vec) : option jsmp :=
  match old with
  | None => match jpos s with
            | Some _ => Some {| jpos := Some new; jres := jres s |}
            | None => None
            end
  | Some q => Some {| jpos := Some new; jres := map (fun x => vsub x q) (jsamples s) |}
  end.

Definition jsqueeze (pos : option vec) (res2 : list (list vec)) : jsmp :=
  {| jpos := pos; jres := concat res2 |}.

Fixpoint lveqb (a b : list vec) : bool :=
  match a, b with
  | [], [] => true
  | x :: a', y :: b' => veqb x y && lveqb a' b'
  | _, _ => false
  end.

(* observed: position, residual leaves and absolute samples of the object returned by `at` *)
Definition jat_ok (s : jsmp) (new : vec) (old : option vec) (opos : vec) (ores osmp : list vec) : bool :=
  match jat s new old with
  | Some t => match jpos t with Some p => veqb p opos | None => false end
              && lveqb (jres t) ores && lveqb (jsamples t) osmp
  | None => false
  end.
