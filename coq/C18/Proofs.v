(* C18 -- the classic sampler's control flow: the list of samples does not depend on how the
   indices are distributed over tasks; mirrored samples come in (+,-) pairs of the same draw. *)
From Coq Require Import List Arith Bool Lia.
Import ListNotations.
Require Import NV.C18.Model.

Section DrawSamples.
Variables Seed Y Out : Type.
Variable draw : Seed -> Y.
Variable emit : bool -> Y -> Out.
Variable dseed : Seed.

Notation dup := (dup Seed).
Notation task_loop := (task_loop Seed Y Out draw emit dseed).

Lemma nth_nil (i : nat) (d : Seed) : nth i (@nil Seed) d = d.
Proof. destruct i; reflexivity. Qed.

(* in the duplicated seed list an odd index carries the seed of its predecessor *)
Lemma nth_dup_odd (seeds : list Seed) d : forall i,
  Nat.even i = false -> nth i (dup seeds) d = nth (i - 1) (dup seeds) d.
Proof.
  induction seeds as [|a s IH]; intros i Hi.
  - change (dup []) with (@nil Seed). now rewrite !nth_nil.
  - destruct i as [|[|j]]; simpl in *; try discriminate; try reflexivity.
    destruct j as [|j']; [discriminate|].
    specialize (IH (S j') Hi). simpl in IH. rewrite Nat.sub_0_r in IH. exact IH.
Qed.

Definition item (mirror : bool) (sseq : list Seed) (i : nat) : Out :=
  emit (mirror && negb (Nat.even i)) (draw (nth i sseq dseed)).

Definition y_ok (sseq : list Seed) (lo : nat) (y : option Y) : Prop :=
  y = None \/ (1 <= lo /\ y = Some (draw (nth (lo - 1) sseq dseed))).

Lemma task_loop_items (mirror : bool) (seeds : list Seed) :
  let sseq := seed_list Seed mirror seeds in
  forall len lo y, y_ok sseq lo y ->
  fst (task_loop mirror sseq (seq lo len) y) = map (item mirror sseq) (seq lo len).
Proof.
  intros sseq. induction len as [|len IH]; intros lo y Hy; [reflexivity|].
  simpl seq. cbn [Model.task_loop].
  set (neg := mirror && negb (Nat.even lo)).
  set (redraw := negb neg || match y with None => true | Some _ => false end).
  set (yv := if redraw then draw (nth lo sseq dseed)
             else match y with Some v => v | None => draw (nth lo sseq dseed) end).
  assert (Hyv : yv = draw (nth lo sseq dseed)).
  { unfold yv. destruct redraw eqn:Er; [reflexivity|].
    destruct y as [v|]; [|reflexivity].
    unfold redraw in Er. apply orb_false_iff in Er. destruct Er as [En _].
    apply negb_false_iff in En. unfold neg in En. apply andb_true_iff in En. destruct En as [Em Eo].
    apply negb_true_iff in Eo.
    destruct Hy as [Hy|[Hlo Hy]]; [discriminate|]. injection Hy as Hy. subst v.
    unfold sseq, seed_list. rewrite Em. now rewrite (nth_dup_odd seeds dseed lo Eo). }
  specialize (IH (S lo) (Some yv)).
  destruct (task_loop mirror sseq (seq (S lo) len) (Some yv)) as [outs log] eqn:E.
  simpl. f_equal.
  - unfold item. fold neg. now rewrite Hyv.
  - apply IH. right. split; [lia|]. simpl. rewrite Nat.sub_0_r. now rewrite Hyv.
Qed.

(* ---- shareRange tiles [0, n) ---- *)
Definition lo_of (n t r : nat) : nat := r * (n / t) + Nat.min r (n mod t).

Lemma share_range_lo_hi n t r :
  share_range n t r = (lo_of n t r, lo_of n t (S r)).
Proof.
  unfold share_range, lo_of. f_equal.
  destruct (Nat.ltb_spec r (n mod t)); lia.
Qed.

Lemma lo_of_mono n t r : lo_of n t r <= lo_of n t (S r).
Proof. unfold lo_of. lia. Qed.

Lemma lo_of_0 n t : lo_of n t 0 = 0.
Proof. unfold lo_of. simpl. reflexivity. Qed.

Lemma lo_of_last n t : 1 <= t -> lo_of n t t = n.
Proof.
  intros Ht. unfold lo_of.
  assert (H := Nat.mod_upper_bound n t ltac:(lia)).
  rewrite Nat.min_r by lia.
  rewrite (Nat.div_mod n t) at 3 by lia. lia.
Qed.

Lemma tiles (lo : nat -> nat) : (forall r, lo r <= lo (S r)) -> forall t,
  flat_map (fun r => seq (lo r) (lo (S r) - lo r)) (seq 0 t) = seq (lo 0) (lo t - lo 0).
Proof.
  intros Hm. induction t as [|t IH]; [simpl; now rewrite Nat.sub_diag|].
  rewrite seq_S, flat_map_app, IH. simpl. rewrite app_nil_r.
  assert (H0 : lo 0 <= lo t).
  { clear IH. induction t as [|t IHt]; [lia|]. specialize (Hm t). lia. }
  specialize (Hm t).
  replace (lo (S t) - lo 0) with ((lo t - lo 0) + (lo (S t) - lo t)) by lia.
  rewrite seq_app. f_equal. f_equal. lia.
Qed.

Lemma flat_map_map_out {A B C} (f : B -> C) (g : A -> list B) (l : list A) :
  flat_map (fun r => map f (g r)) l = map f (flat_map g l).
Proof. induction l as [|a l IH]; simpl; [reflexivity|]. now rewrite map_app, IH. Qed.

(* the concatenation of all tasks' samples is the single-task list: for every number of tasks,
   mirrored or not, whatever `draw` and `emit` are *)
Theorem partition_independent (mirror : bool) (seeds : list Seed) (ntask : nat) :
  1 <= ntask ->
  all_samples Seed Y Out draw emit dseed mirror seeds ntask
  = reference Seed Y Out draw emit dseed mirror seeds.
Proof.
  intros Ht. unfold all_samples, reference, task_run.
  set (sseq := seed_list Seed mirror seeds).
  set (n := length sseq).
  assert (E : forall r,
    fst (let '(lo, hi) := share_range n ntask r in task_loop mirror sseq (seq lo (hi - lo)) None)
    = map (item mirror sseq) (seq (lo_of n ntask r) (lo_of n ntask (S r) - lo_of n ntask r))).
  { intros r. rewrite share_range_lo_hi. apply task_loop_items. now left. }
  rewrite (flat_map_ext _ _ E).
  rewrite flat_map_map_out.
  rewrite (tiles (lo_of n ntask) (lo_of_mono n ntask)).
  rewrite lo_of_0, (lo_of_last n ntask Ht), Nat.sub_0_r. reflexivity.
Qed.

(* mirrored reference list: consecutive (+,-) pairs of the same draw *)

Lemma map_seq_shift2 {B} (g : nat -> B) n :
  map g (seq 2 n) = map (fun i => g (S (S i))) (seq 0 n).
Proof. rewrite <- (seq_shift n 1), <- (seq_shift n 0), !map_map. reflexivity. Qed.

Theorem reference_mirrored (seeds : list Seed) :
  reference Seed Y Out draw emit dseed true seeds
  = flat_map (fun s => [emit false (draw s); emit true (draw s)]) seeds.
Proof.
  unfold reference, seed_list. simpl andb.
  induction seeds as [|a s IH]; [reflexivity|].
  change (dup (a :: s)) with (a :: a :: dup s). cbn [length].
  change (seq 0 (S (S (length (dup s))))) with (0 :: 1 :: seq 2 (length (dup s))).
  cbn [map flat_map app]. f_equal. f_equal.
  rewrite map_seq_shift2. rewrite <- IH.
  apply map_ext. intros i. reflexivity.
Qed.

Theorem reference_unmirrored (seeds : list Seed) :
  reference Seed Y Out draw emit dseed false seeds = map (fun s => emit false (draw s)) seeds.
Proof.
  unfold reference, seed_list. simpl andb.
  induction seeds as [|a s IH]; [reflexivity|].
  cbn [length]. change (seq 0 (S (length s))) with (0 :: seq 1 (length s)).
  cbn [map]. f_equal. rewrite <- seq_shift, map_map. rewrite <- IH. apply map_ext. intros i. reflexivity.
Qed.

End DrawSamples.

(* ---------------------------------------------------------------------------------------------- *)
(* Samples.at: re-centring keeps the residuals *)
From Coq Require Import QArith.
Require Import NV.C20.Model.

Lemma vsub_vadd_cancel : forall p r : vec, length p = length r ->
  Forall2 Qeq (vsub (vadd p r) p) r.
Proof.
  induction p as [|a p IH]; destruct r as [|b r]; simpl; intros H; try discriminate; constructor.
  - unfold qsub, qadd. rewrite !Qred_correct. ring.
  - apply IH. now injection H.
Qed.

(* at(new) without old_pos: residuals and keys untouched, samples = new + residual *)
Lemma jat_none (s : jsmp) (p new : vec) : jpos s = Some p ->
  jat s new None = Some {| jpos := Some new; jres := jres s |}.
Proof. intros H. unfold jat. now rewrite H. Qed.

(* at(new, old_pos = current expansion point): the residuals are recovered (up to Qeq) *)
Lemma jat_old_is_pos (s : jsmp) (p new : vec) : jpos s = Some p ->
  (forall r, In r (jres s) -> length p = length r) ->
  exists t, jat s new (Some p) = Some t /\ jpos t = Some new /\
            Forall2 (Forall2 Qeq) (jres t) (jres s).
Proof.
  intros H Hl. eexists. split; [reflexivity|]. split; [reflexivity|].
  simpl. unfold jsamples. rewrite H. rewrite map_map.
  induction (jres s) as [|r rs IH]; simpl; constructor.
  - apply vsub_vadd_cancel. apply Hl. now left.
  - apply IH. intros r' Hr'. apply Hl. now right.
Qed.

(* offset-free absolute samples: at(mean, old_pos = mean) stores sample - mean *)
Lemma jat_absolute (abs : list vec) (mean : vec) :
  jat {| jpos := None; jres := abs |} mean (Some mean)
  = Some {| jpos := Some mean; jres := map (fun x => vsub x mean) abs |}.
Proof. reflexivity. Qed.
