(* C18 -- property theorems only.  Matrix statements: MathComp, arbitrary field (ProofsMx.v);
   sampler control flow: lists (Proofs.v). *)
From mathcomp Require Import ssreflect ssrfun ssrbool eqtype ssrnat seq fintype bigop order ssralg ssrnum matrix.
Require NV.C18.Model NV.C18.Proofs.
Require Import NV.C20.ProofsMx NV.C18.ProofsMx.
Import GRing.Theory Order.TTheory Num.Theory.
Local Open Scope ring_scope.

(* Linear (MGVI) sample = T xi with T = A^-1 [L | P], A = L L^T + P P^T (L = left square root of
   the likelihood metric, P P^T = prior metric; P = 1 for JAX and the classic StandardHamiltonian):
   its covariance T T^T is the inverse of the metric A. *)
Theorem C18_linear_cov :
  forall (F : fieldType) (n k1 k2 : nat) (L : 'M[F]_(n,k1)) (P : 'M[F]_(n,k2)),
    smetric L P \in unitmx ->
    sfactor L P *m (sfactor L P)^T = invmx (smetric L P) /\
    sfactor L P *m (sfactor L P)^T *m smetric L P = 1%:M.
Proof. move=> F n k1 k2 L P uA; split; [exact: linear_cov | exact: linear_cov_check]. Qed.

(* standard prior, ordered field: no hypothesis at all *)
Theorem C18_linear_cov_standard :
  forall (F : realFieldType) (n k : nat) (L : 'M[F]_(n,k)),
    let A := L *m L^T + 1%:M in
    let T := invmx A *m row_mx L 1%:M in
    A \in unitmx /\ T *m T^T = invmx A.
Proof. move=> F n k L /=; split; [exact: std_metric_unit | exact: linear_cov_std (std_metric_unit L)]. Qed.

(* linear Gaussian model: the samples have exactly the posterior covariance of C20 *)
Theorem C18_linear_gaussian_exact_posterior :
  forall (F : fieldType) (m n : nat) (R : 'M[F]_(m,n)) (N W : 'M[F]_m),
    W *m W^T = invmx N -> curv R R^T N \in unitmx ->
    let T := invmx (curv R R^T N) *m row_mx (R^T *m W) 1%:M in
    T *m T^T = invmx (curv R R^T N).
Proof. move=> F m n R N W; exact: lg_exact_posterior_samples. Qed.

(* mirrored samples e + r, e - r: their sum over all pairs is (number of samples) * e, i.e. the
   sample average is the expansion point; the residuals sum to zero *)
Theorem C18_average :
  forall (V : zmodType) (e : V) (rs : seq V),
    \sum_(r <- rs) ((e + r) + (e - r)) = e *+ (2 * size rs) /\ \sum_(r <- rs) (r + (- r)) = 0.
Proof. move=> V e rs; split; [exact: mirrored_sum | exact: mirrored_residual_sum]. Qed.

(* point estimates: frozen components of every residual are zero; the covariance is the inverse
   metric of the frozen likelihood on the liquid block and zero elsewhere *)
Theorem C18_point_estimates :
  forall (F : fieldType) (nl nf k1 : nat) (Ll : 'M[F]_(nl,k1)),
    (Ll *m Ll^T + 1%:M) \in unitmx ->
    (forall xi : 'cV[F]_(k1 + nl), dsubmx (pe_factor nf Ll *m xi) = 0) /\
    pe_factor nf Ll *m (pe_factor nf Ll)^T = block_mx (invmx (Ll *m Ll^T + 1%:M)) 0 0 0.
Proof. move=> F nl nf k1 Ll uA; split; [move=> xi; exact: pe_frozen_zero | exact: pe_cov]. Qed.

(* geoVI on a model with affine transformation: the update equation g(x) = (1 + G^T G) r has the
   unique solution x = e + r, so the non-linear update leaves the linear sample unchanged *)
Theorem C18_geovi_linear_fixed :
  forall (F : fieldType) (n k : nat) (G : 'M[F]_(k,n)) (e r x : 'cV[F]_n),
    (G^T *m G + 1%:M) \in unitmx ->
    (geo_g G e x = (G^T *m G + 1%:M) *m r) <-> x = e + r.
Proof. move=> F n k G e r x; exact: geovi_linear_fixed. Qed.

(* Classic sampler: the global list of samples is the same for every number of tasks (every
   distribution of indices by shareRange, including tasks that start at an odd index and re-draw
   their partner's sample from the duplicated seed), for every deterministic draw and emit. *)
Theorem C18_partition_independent :
  forall (Seed Y Out : Type) (draw : Seed -> Y) (emit : bool -> Y -> Out) (dseed : Seed)
         (mirror : bool) (seeds : list Seed) (ntask : nat),
    (1 <= ntask)%coq_nat ->
    Model.all_samples Seed Y Out draw emit dseed mirror seeds ntask
    = Model.reference Seed Y Out draw emit dseed mirror seeds.
Proof. exact: Proofs.partition_independent. Qed.

(* ... and that list consists of (+,-) pairs of the SAME draw: sample 2k+1 = - sample 2k *)
Theorem C18_mirror :
  forall (Seed Y Out : Type) (draw : Seed -> Y) (emit : bool -> Y -> Out) (dseed : Seed) (seeds : list Seed),
    Model.reference Seed Y Out draw emit dseed true seeds
    = List.flat_map (fun s => cons (emit false (draw s)) (cons (emit true (draw s)) nil)) seeds.
Proof. exact: Proofs.reference_mirrored. Qed.

Theorem C18_unmirrored :
  forall (Seed Y Out : Type) (draw : Seed -> Y) (emit : bool -> Y -> Out) (dseed : Seed) (seeds : list Seed),
    Model.reference Seed Y Out draw emit dseed false seeds = List.map (fun s => emit false (draw s)) seeds.
Proof. exact: Proofs.reference_unmirrored. Qed.

(* nifty.re Samples.at: without old_pos the residuals are kept as they are; with old_pos equal to the
   current expansion point they are recovered (the absolute samples minus old_pos), so in both cases
   the re-centred samples are new + residual_i; offset-free absolute samples store sample - mean. *)
Theorem C18_samples_at_keeps_residuals :
  forall (s : Model.jsmp) (p new : NV.C20.Model.vec), Model.jpos s = Some p ->
    Model.jat s new None = Some {| Model.jpos := Some new; Model.jres := Model.jres s |} /\
    ((forall r, List.In r (Model.jres s) -> length p = length r) ->
     exists t, Model.jat s new (Some p) = Some t /\ Model.jpos t = Some new /\
               List.Forall2 (List.Forall2 QArith_base.Qeq) (Model.jres t) (Model.jres s)).
Proof.
move=> s p new H; split; [exact: Proofs.jat_none H | move=> Hl; exact: Proofs.jat_old_is_pos H Hl].
Qed.

Theorem C18_samples_at_absolute :
  forall (abs : list NV.C20.Model.vec) (mean : NV.C20.Model.vec),
    Model.jat {| Model.jpos := None; Model.jres := abs |} mean (Some mean)
    = Some {| Model.jpos := Some mean; Model.jres := List.map (fun x => NV.C20.Model.vsub x mean) abs |}.
Proof. exact: Proofs.jat_absolute. Qed.

(* Non-vacuity: 3 pairs (6 samples) on 4 tasks: ranges 2,2,1,1; task 3 holds only the odd index 5
   and has to re-draw its partner's sample from the duplicated seed *)
Example C18_odd_start :
  Model.run_ids true 3 4 3 = (cons (2, true) nil, cons 5 nil)%N /\
  Model.run_ids true 3 4 2 = (cons (2, false) nil, cons 4 nil)%N /\
  Model.run_ids true 3 4 0 = (cons (0, false) (cons (0, true) nil), cons 0 nil)%N.
Proof. by vm_compute. Qed.
