(* C25 -- basic lemmas: file names, the finite-map disk, frames of operations, crash prefixes. *)
From Coq Require Import List Arith Bool Lia.
Import ListNotations.
Require Import NV.C25.Model.

Lemma slot_eqb_eq : forall a b, slot_eqb a b = true <-> a = b.
Proof.
  destruct a, b; simpl; split; intros H; try discriminate; try reflexivity.
  - apply Nat.eqb_eq in H. now subst.
  - inversion H. apply Nat.eqb_refl.
Qed.

Lemma fname_eqb_eq : forall a b, fname_eqb a b = true <-> a = b.
Proof.
  destruct a, b; simpl; split; intros H; try discriminate; try reflexivity;
    try (apply slot_eqb_eq in H; now subst);
    try (inversion H; subst; now apply slot_eqb_eq).
  - apply andb_true_iff in H. destruct H as [H1 H2].
    apply slot_eqb_eq in H1. apply Nat.eqb_eq in H2. now subst.
  - inversion H; subst. apply andb_true_iff. split; [now apply slot_eqb_eq | apply Nat.eqb_refl].
Qed.

Lemma fname_eqb_refl : forall a, fname_eqb a a = true.
Proof. intros. now apply fname_eqb_eq. Qed.

Lemma fname_eqb_neq : forall a b, a <> b -> fname_eqb a b = false.
Proof.
  intros a b H. destruct (fname_eqb a b) eqn:E; [ | reflexivity].
  apply fname_eqb_eq in E. contradiction.
Qed.

Lemma fname_eqb_sym : forall a b, fname_eqb a b = fname_eqb b a.
Proof.
  intros. destruct (fname_eqb a b) eqn:E.
  - apply fname_eqb_eq in E. subst. symmetry. apply fname_eqb_refl.
  - destruct (fname_eqb b a) eqn:E2; [ | reflexivity].
    apply fname_eqb_eq in E2. subst. rewrite fname_eqb_refl in E. discriminate.
Qed.

Lemma filter_len_le : forall (A : Type) (p : A -> bool) (l : list A), length (filter p l) <= length l.
Proof. induction l; simpl; [lia | destruct (p a); simpl; lia]. Qed.

Section Base.
Variables MM RR EE HH : Type.
Notation disk := (disk MM RR EE HH).
Notation op := (op MM RR EE HH).
Notation content := (content MM RR EE HH).
Notation lookup := (lookup MM RR EE HH).
Notation del := (del MM RR EE HH).
Notation set := (set MM RR EE HH).
Notation exec := (exec MM RR EE HH).
Notation run_ops := (run_ops MM RR EE HH).
Notation crash_raw := (crash_raw MM RR EE HH).
Notation performed := (performed MM RR EE HH).
Notation tear := (tear MM RR EE HH).
Notation settle := (settle MM RR EE HH).
Notation settle1 := (settle1 MM RR EE HH).
Notation isfile := (isfile MM RR EE HH).

(* ---- finite map ---- *)
Lemma lookup_del_same : forall f (d : disk), lookup f (del f d) = None.
Proof.
  intros f d. unfold Model.lookup, Model.del. induction d as [ | [g c] d IH]; simpl; [reflexivity | ].
  destruct (fname_eqb f g) eqn:E; simpl; [exact IH | ]. rewrite E. exact IH.
Qed.

Lemma lookup_del_other : forall f g (d : disk), f <> g -> lookup f (del g d) = lookup f d.
Proof.
  intros f g d Hn. unfold Model.lookup, Model.del. induction d as [ | [h c] d IH]; simpl; [reflexivity | ].
  destruct (fname_eqb g h) eqn:E; simpl.
  - apply fname_eqb_eq in E. subst h. rewrite (fname_eqb_neq f g Hn). exact IH.
  - destruct (fname_eqb f h); [reflexivity | exact IH].
Qed.

Lemma lookup_set_same : forall f c (d : disk), lookup f (set f c d) = Some c.
Proof. intros. unfold Model.lookup, Model.set. simpl. now rewrite fname_eqb_refl. Qed.

Lemma lookup_set_other : forall f g c (d : disk), f <> g -> lookup f (set g c d) = lookup f d.
Proof.
  intros f g c d Hn. unfold Model.set.
  change (lookup f ((g, c) :: del g d)) with
    (match (if fname_eqb f g then Some (g, c) else find (fun p => fname_eqb f (fst p)) (del g d)) with
     | Some p => Some (snd p) | None => None end).
  rewrite (fname_eqb_neq f g Hn). apply lookup_del_other. exact Hn.
Qed.

Lemma del_absent : forall f (d : disk), lookup f d = None -> del f d = d.
Proof.
  intros f d. unfold Model.lookup, Model.del. induction d as [ | [g c] d IH]; simpl; [reflexivity | ].
  destruct (fname_eqb f g) eqn:E; simpl; [discriminate | ]. intros H. now rewrite IH.
Qed.

Lemma length_del_present : forall f (d : disk), lookup f d <> None -> length (del f d) < length d.
Proof.
  intros f d. unfold Model.lookup, Model.del. induction d as [ | [g c] d IH]; simpl; [congruence | ].
  destruct (fname_eqb f g) eqn:E; simpl; intros Hn.
  - pose proof (filter_len_le _ (fun p : fname * content => negb (fname_eqb f (fst p))) d). lia.
  - specialize (IH Hn). lia.
Qed.

Lemma lookup_settle : forall lost f (d : disk),
  lookup f (settle lost d) = option_map (settle1 lost) (lookup f d).
Proof.
  intros lost f d. unfold Model.lookup, Model.settle. induction d as [ | [g c] d IH]; simpl; [reflexivity | ].
  destruct (fname_eqb f g); [reflexivity | exact IH].
Qed.

(* ---- which files an operation can change ---- *)
Definition touch (o : op) (f : fname) : bool :=
  match o with
  | Makedirs _ | OpenR _ | CloseR _ => false
  | RemoveIfExists g | Unlink g | OpenW g | OpenA g | Write g _ | Close g => fname_eqb f g
  | Replace a b => fname_eqb f a || fname_eqb f b
  end.

Definition touches (ops : list op) (f : fname) : bool := existsb (fun o => touch o f) ops.

Lemma touches_app : forall a b f, touches (a ++ b) f = touches a f || touches b f.
Proof. intros. unfold touches. apply existsb_app. Qed.

Lemma neq_of_eqb : forall f g, fname_eqb f g = false -> f <> g.
Proof. intros f g H E. subst. rewrite fname_eqb_refl in H. discriminate. Qed.

Lemma exec_frame : forall o f (d : disk), touch o f = false -> lookup f (exec d o) = lookup f d.
Proof.
  intros o f d Ht. destruct o; simpl in *; try reflexivity.
  - apply lookup_del_other. now apply neq_of_eqb.
  - apply lookup_del_other. now apply neq_of_eqb.
  - apply lookup_set_other. now apply neq_of_eqb.
  - destruct (lookup f0 d); [reflexivity | ]. apply lookup_set_other. now apply neq_of_eqb.
  - apply lookup_set_other. now apply neq_of_eqb.
  - destruct (lookup f0 d) as [[ | p | p] | ]; try reflexivity. apply lookup_set_other. now apply neq_of_eqb.
  - apply orb_false_iff in Ht. destruct Ht as [Ha Hb].
    destruct (lookup a d); [ | reflexivity].
    rewrite lookup_set_other by now apply neq_of_eqb. apply lookup_del_other. now apply neq_of_eqb.
Qed.

Lemma tear_frame : forall o f (d : disk), touch o f = false -> lookup f (tear o d) = lookup f d.
Proof.
  intros o f d Ht. destruct o; simpl in *; try reflexivity.
  apply lookup_set_other. now apply neq_of_eqb.
Qed.

Lemma run_ops_frame : forall ops f (d : disk), touches ops f = false -> lookup f (run_ops ops d) = lookup f d.
Proof.
  induction ops as [ | o ops IH]; simpl; intros f d Ht; [reflexivity | ].
  apply orb_false_iff in Ht. destruct Ht as [H1 H2].
  unfold Model.run_ops in *. simpl. rewrite IH by exact H2. now apply exec_frame.
Qed.

Lemma crash_raw_frame : forall ops k lost f (d : disk), touches ops f = false ->
  lookup f (crash_raw k lost ops d) = lookup f d.
Proof.
  induction ops as [ | o ops IH]; simpl; intros k lost f d Ht; [reflexivity | ].
  apply orb_false_iff in Ht. destruct Ht as [H1 H2].
  destruct (performed d o).
  - destruct k.
    + destruct lost; [now apply tear_frame | reflexivity].
    + rewrite IH by exact H2. now apply exec_frame.
  - now apply IH.
Qed.

Lemma run_ops_app : forall a b (d : disk), run_ops (a ++ b) d = run_ops b (run_ops a d).
Proof. intros. unfold Model.run_ops. apply fold_left_app. Qed.

(* an unperformed operation does not change the disk *)
Lemma exec_unperformed : forall o (d : disk), performed d o = false -> exec d o = d.
Proof.
  intros o d H. destruct o; simpl in *; try discriminate.
  unfold Model.isfile in H. destruct (lookup f d) eqn:E; [discriminate | ]. now apply del_absent.
Qed.

(* number of operations of a list the tracer sees when it is run from d *)
Fixpoint nperf (ops : list op) (d : disk) : nat :=
  match ops with
  | [] => 0
  | o :: r => (if performed d o then 1 else 0) + nperf r (exec d o)
  end.

Lemma crash_raw_app : forall l1 l2 k lost (d : disk),
  crash_raw k lost (l1 ++ l2) d =
  if k <? nperf l1 d then crash_raw k lost l1 d
  else crash_raw (k - nperf l1 d) lost l2 (run_ops l1 d).
Proof.
  induction l1 as [ | o l1 IH]; intros l2 k lost d.
  - simpl. now rewrite Nat.sub_0_r.
  - cbn [app Model.crash_raw nperf]. destruct (performed d o) eqn:P.
    + destruct k as [ | k]; [reflexivity | ].
      rewrite IH. change (Model.run_ops MM RR EE HH (o :: l1) d) with (run_ops l1 (exec d o)).
      cbn [Nat.add]. change (S k <? S (nperf l1 (exec d o))) with (k <? nperf l1 (exec d o)).
      reflexivity.
    + rewrite IH. change (Model.run_ops MM RR EE HH (o :: l1) d) with (run_ops l1 (exec d o)).
      rewrite (exec_unperformed o d P). reflexivity.
Qed.

Lemma crash_raw_nil_k : forall l k lost (d : disk), nperf l d <= k -> crash_raw k lost l d = run_ops l d.
Proof.
  induction l as [ | o l IH]; intros k lost d Hk; [reflexivity | ].
  cbn [Model.crash_raw nperf] in *. change (Model.run_ops MM RR EE HH (o :: l) d) with (run_ops l (exec d o)).
  destruct (performed d o) eqn:P.
  - destruct k; [lia | ]. apply IH. lia.
  - rewrite (exec_unperformed o d P) in *. apply IH. simpl in Hk. lia.
Qed.
End Base.
