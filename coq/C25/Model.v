(* C25 -- executable model of the persistence protocol of nifty.cl.minimization.optimize_kl
   (classic VI driver) for both save strategies (no proofs in this file).

   Source mirrored (nifty/cl/minimization/optimize_kl.py after fixes C25-1 and C25-2; `pr : proto`
   switches each fix off so that the OLD protocols can be run too):

       makedirs(output_directory); makedirs(join(output_directory, "pickle"))            [prelude]
       lfile = join(output_directory, "last_finished_iteration")
       if resume and isfile(lfile):                                                      [resume_state]
           with open(lfile) as f: last_finished_index = int(f.read())
           initial_index = last_finished_index + 1
           fname = output_directory/pickle/_file_name_by_strategy(last_finished_index)
           if isfile(fname + ".mean.pickle"):
               mean = ResidualSampleList.load_mean(fname)
               sl = ResidualSampleList.load(fname)       # mean again, listdir, consecutive
           else: sl = SampleList.load(fname); assert one sample; mean = sl.local_item(0)   (MAP)
           if initial_index == total_iterations: return (sl, mean)
           _load_random_state()
           energy_history = _pickle_load_values(last_finished_index, 'energy_history')
       else:
           _save_random_state()                          # open(.., "wb"); write; close
       for iglobal in range(initial_index, total_iterations):                            [loop]
           ... mean, sl := one VI step from (mean, sl) ...                               [step]
           energy_history.append((iglobal, e.value))                                     [estep]
           if save_strategy == "latest": _remove_last_finished_index()   (C25-2)         [invalidate]
           sl.save(pickle/<name>, overwrite=True)                                        [save_list]
               # unlink(<name>.<n>.pickle, missing_ok); per sample: if isfile: os.remove; open "wb";
               # dump; close;  then the same for <name>.mean.pickle
           (OLD: marker written here, by open(lfile, "w"); f.write(str(iglobal)))
           _pickle_save_values(iglobal, 'energy_history', energy_history)
           _minisanity(...):  append to minisanity.txt;
               mh = {} if iglobal == 0 else _pickle_load_values(iglobal - 1, 'minisanity_history')
               _pickle_save_values(iglobal, 'minisanity_history', mh updated)            [hstep]
           _save_last_finished_index(iglobal)            (C25-1: tmp file + os.replace, written last)
           _counting_report(...)                         # append to counting_report.txt
       return (sl, mean)

   <name> = "iteration_<i>" (strategy all) or "latest".

   Abstractions.  A state is (mean : M, residuals : list R) -- what sl.save writes, one file per
   residual plus the mean; [step i] is one iteration of the driver as a function of the previous
   state (ARBITRARY; the seed sequence of iteration i is derived from the random state saved by the
   first run, which never changes); E / H are energy and minisanity histories with arbitrary update
   functions.  File contents: [Valid p] complete, [Buffered p] everything handed to a still-open
   file object, [Torn] anything else.  Every dump is modelled with ONE write call (the harness
   merges consecutive writes to the same file); a state without residuals is a MAP iteration
   (n_samples = 0: SampleList([mean]), no mean file); exports and plots are not modelled. *)
From Coq Require Import List Arith Bool NArith.
Import ListNotations.

Inductive strategy := SAll | SLatest.
Inductive slot := It (i : nat) | Lat.

Definition slot_of (sg : strategy) (i : nat) : slot :=
  match sg with SAll => It i | SLatest => Lat end.

Inductive fname :=
| Marker | MarkerTmp            (* last_finished_iteration, last_finished_iteration.tmp *)
| RandomState                   (* pickle/nifty_random_state *)
| Sample (s : slot) (k : nat)   (* pickle/<name>.<k>.pickle *)
| Mean (s : slot)               (* pickle/<name>.mean.pickle *)
| EHist (s : slot)              (* pickle/energy_history_<name> *)
| MHist (s : slot)              (* pickle/minisanity_history_<name> *)
| MiniLog | CountLog.           (* minisanity.txt, counting_report.txt *)

Definition slot_eqb (a b : slot) : bool :=
  match a, b with It i, It j => Nat.eqb i j | Lat, Lat => true | _, _ => false end.

Definition fname_eqb (a b : fname) : bool :=
  match a, b with
  | Marker, Marker | MarkerTmp, MarkerTmp | RandomState, RandomState
  | MiniLog, MiniLog | CountLog, CountLog => true
  | Sample s k, Sample t l => slot_eqb s t && Nat.eqb k l
  | Mean s, Mean t | EHist s, EHist t | MHist s, MHist t => slot_eqb s t
  | _, _ => false
  end.

Record proto := mkProto {
  atomic_marker : bool;      (* C25-1a: marker via temporary file + os.replace *)
  marker_last : bool;        (* C25-1b: marker written after energy and minisanity history *)
  invalidate : bool;         (* C25-2: strategy latest removes the marker before overwriting in place *)
  prepare_all : bool;        (* the seed schedule is prepared `for iglobal in range(total_iterations)`
                                (the code as it is); false = a variant that starts at initial_index *)
  push_first : bool          (* `push_sseq(sseqs[iglobal])` is the FIRST statement of the loop body (the
                                code as it is): everything an iteration draws -- start values of new
                                latent keys (_normal_initialize), samples -- comes from its own seed
                                sequence; false = a variant that enters the context later, so that part
                                of the draws come from, and advance, the process-wide base generator *)
}.
Definition fixed_proto : proto := mkProto true true true true true.
Definition old_proto : proto := mkProto false false false true true.
(* defective variants (not the history of the code) *)
Definition cut_schedule_proto : proto := mkProto true true true false true.   (* seed schedule from initial_index on *)
Definition late_push_proto : proto := mkProto true true true true false.      (* stochasticity context entered late *)

Section Driver.
Variables M R E H Seed G : Type.
Definition St : Type := (M * list R)%type.
(* one iteration of the driver given the seed sequence pushed for it (`push_sseq(sseqs[iglobal])`) *)
Variable step : nat -> Seed -> St -> St.
Variable estep : nat -> St -> E -> E.
Variable hstep : nat -> St -> H -> H.
Variable init : St.
Variable e0 : E.
Variable h0 : H.
(* `sseqs = spawn_sseq(total_iterations)`: child i of the random state saved by the first run (the
   resume branch restores that state before spawning, so the children are the same in every run) *)
Variable raw : nat -> Seed.
Variable fresh : nat -> bool.        (* fresh_stochasticity(iglobal) *)
(* The process-wide base generator (bottom of NIFTy's generator stack).  [g0] is its state when
   the driver is called: a fresh start stores it in pickle/nifty_random_state, the resume branch
   restores it from there (`_load_random_state`).  [lstep] is an iteration that enters its
   stochasticity context late (variant [push_first] = false): it may read and advance the base
   generator.  The code as it is never does: [step] gets the iteration's own seed only. *)
Variable g0 : G.
Variable lstep : nat -> Seed -> G -> St -> St * G.

Inductive payload :=
| PInt (i : nat) | PRng | PRes (r : R) | PMean (m : M) | PPos (m : M) | PE (e : E) | PH (h : H) | PLog.

Inductive content := Torn | Buffered (p : payload) | Valid (p : payload).

Definition disk := list (fname * content).

Definition lookup (f : fname) (d : disk) : option content :=
  match find (fun p => fname_eqb f (fst p)) d with Some p => Some (snd p) | None => None end.
Definition del (f : fname) (d : disk) : disk := filter (fun p => negb (fname_eqb f (fst p))) d.
Definition set (f : fname) (c : content) (d : disk) : disk := (f, c) :: del f d.
Definition isfile (f : fname) (d : disk) : bool :=
  match lookup f d with Some _ => true | None => false end.

Inductive dir := TopDir | PickleDir.

Inductive op :=
| Makedirs (dd : dir)
| RemoveIfExists (f : fname)      (* if isfile(f): os.remove(f)  -- traced only when performed *)
| Unlink (f : fname)              (* pathlib.Path(f).unlink(missing_ok=True) -- always traced *)
| OpenW (f : fname)               (* open(f, "w"/"wb") *)
| OpenA (f : fname)               (* open(f, "a") *)
| Write (f : fname) (p : payload) (* the write call(s) of one dump, merged *)
| Close (f : fname)
| OpenR (f : fname) | CloseR (f : fname)
| Replace (a b : fname).

Definition exec (d : disk) (o : op) : disk :=
  match o with
  | Makedirs _ | OpenR _ | CloseR _ => d
  | RemoveIfExists f | Unlink f => del f d
  | OpenW f => set f Torn d
  | OpenA f => match lookup f d with None => set f (Valid PLog) d | Some _ => d end
  | Write f p => set f (Buffered p) d
  | Close f => match lookup f d with Some (Buffered p) => set f (Valid p) d | _ => d end
  | Replace a b => match lookup a d with None => d | Some c => set b c (del a d) end
  end.

Definition run_ops (ops : list op) (d : disk) : disk := fold_left exec ops d.

(* an operation the tracer sees (a conditional remove of a missing file is not performed) *)
Definition performed (d : disk) (o : op) : bool :=
  match o with RemoveIfExists f => isfile f d | _ => true end.

Definition settle1 (lost : bool) (c : content) : content :=
  match c with Buffered p => if lost then Torn else Valid p | _ => c end.
Definition settle (lost : bool) (d : disk) : disk := map (fun p => (fst p, settle1 lost (snd p))) d.

Definition tear (o : op) (d : disk) : disk :=
  match o with Write f _ => set f Torn d | _ => d end.

(* process kill after the first k PERFORMED operations; lost: buffered data / the write in flight
   reach the disk only partially *)
Fixpoint crash_raw (k : nat) (lost : bool) (ops : list op) (d : disk) {struct ops} : disk :=
  match ops with
  | [] => d
  | o :: r =>
      if performed d o
      then match k with
           | O => if lost then tear o d else d
           | S k' => crash_raw k' lost r (exec d o)
           end
      else crash_raw k lost r d
  end.
Definition crash (k : nat) (lost : bool) (ops : list op) (d : disk) : disk :=
  settle lost (crash_raw k lost ops d).

(* ---- the driver ---- *)
Variable pr : proto.
Variable sg : strategy.

Definition dump (f : fname) (p : payload) : list op := [OpenW f; Write f p; Close f].
Definition save_file (f : fname) (p : payload) : list op := RemoveIfExists f :: dump f p.
Fixpoint save_samples (s : slot) (k : nat) (rs : list R) : list op :=
  match rs with
  | [] => []
  | r :: t => save_file (Sample s k) (PRes r) ++ save_samples s (S k) t
  end.
(* sl.save(base, overwrite=True).  A state without residuals is a MAP iteration (n_samples = 0):
   `sl = SampleList([mean])`, whose save unlinks <base>.1.pickle and a stale <base>.mean.pickle and
   writes the position itself as sample 0; otherwise ResidualSampleList.save. *)
Definition save_list (s : slot) (st : St) : list op :=
  match snd st with
  | [] => [Unlink (Sample s 1); Unlink (Mean s)] ++ save_file (Sample s 0) (PPos (fst st))
  | _ :: _ => Unlink (Sample s (length (snd st))) :: save_samples s 0 (snd st) ++ save_file (Mean s) (PMean (fst st))
  end.
Definition append_log (f : fname) : list op := [OpenA f; Write f PLog; Close f].
Definition marker_ops (i : nat) : list op :=
  if atomic_marker pr then dump MarkerTmp (PInt i) ++ [Replace MarkerTmp Marker]
  else dump Marker (PInt i).
Definition invalidate_ops : list op :=
  match sg with
  | SLatest => if invalidate pr then [RemoveIfExists Marker] else []
  | SAll => []
  end.

(* a load: operations traced, and the payload if the file is a complete pickle *)
Definition load (f : fname) (d : disk) : list op * option payload :=
  match lookup f d with
  | None => ([OpenR f], None)                          (* open raises FileNotFoundError *)
  | Some (Valid p) => ([OpenR f; CloseR f], Some p)
  | Some _ => ([OpenR f; CloseR f], None)              (* pickle.load / int() raises *)
  end.

Inductive outcome := Stuck | Ok (st : St).

Definition ops1 (i : nat) (st' : St) (eh' : E) : list op :=
  invalidate_ops ++ save_list (slot_of sg i) st'
  ++ (if marker_last pr then [] else marker_ops i)
  ++ dump (EHist (slot_of sg i)) (PE eh') ++ append_log MiniLog.
Definition ops2 (i : nat) (st' : St) (h' : H) : list op :=
  dump (MHist (slot_of sg i)) (PH h')
  ++ (if marker_last pr then marker_ops i else []) ++ append_log CountLog.

(* ---- the seed schedule ----
       sseqs = spawn_sseq(total_iterations)
       for iglobal in range(total_iterations):
           if not fresh_stochasticity(iglobal):
               if iglobal == 0: raise ValueError(...)
               sseqs[iglobal] = SeedSequence(sseqs[iglobal-1].entropy, spawn_key=..., pool_size=...)  *)
Fixpoint set_nth (i : nat) (x : Seed) (l : list Seed) : list Seed :=
  match l, i with
  | [], _ => []
  | _ :: t, O => x :: t
  | a :: t, S j => a :: set_nth j x t
  end.

Definition raws (n : nat) : list Seed := map raw (seq 0 n).

(* `for iglobal in range(i, i + fuel)`; None = ValueError *)
Fixpoint prepare (fuel i : nat) (sq : list Seed) : option (list Seed) :=
  match fuel with
  | O => Some sq
  | S f =>
      if fresh i then prepare f (S i) sq
      else match i with
           | O => None
           | S j => prepare f (S i) (set_nth i (nth j sq (raw 0)) sq)
           end
  end.

Definition seed_at (sq : list Seed) (i : nat) : Seed := nth i sq (raw 0).

(* `for iglobal in range(initial_index, total_iterations)`; fuel = total - initial_index *)
Fixpoint loop (sq : list Seed) (fuel i : nat) (g : G) (st : St) (eh : E) (d : disk) {struct fuel} : list op * outcome :=
  match fuel with
  | O => ([], Ok st)
  | S f =>
      let sg' := if push_first pr then (step i (seed_at sq i) st, g) else lstep i (seed_at sq i) g st in
      let st' := fst sg' in
      let eh' := estep i st' eh in
      let o1 := ops1 i st' eh' in
      let d1 := run_ops o1 d in
      let rd := match i with
                | O => ([], Some (PH h0))
                | S j => load (MHist (slot_of sg j)) d1
                end in
      match snd rd with
      | Some (PH h) =>
          let o := o1 ++ fst rd ++ ops2 i st' (hstep i st' h) in
          let r := loop sq f (S i) (snd sg') st' eh' (run_ops o d) in
          (o ++ fst r, snd r)
      | _ => (o1 ++ fst rd, Stuck)
      end
  end.

(* number of consecutive sample files 0, 1, ... present (listdir + _consecutive_length) *)
Fixpoint count_from (s : slot) (k fuel : nat) (d : disk) : nat :=
  match fuel with
  | O => O
  | S f => if isfile (Sample s k) d then S (count_from s (S k) f d) else O
  end.

(* load samples k, k+1, ..., k+n-1 *)
Fixpoint load_samples (s : slot) (k n : nat) (d : disk) : list op * option (list R) :=
  match n with
  | O => ([], Some [])
  | S n' =>
      let l := load (Sample s k) d in
      match snd l with
      | Some (PRes r) =>
          let t := load_samples s (S k) n' d in
          (fst l ++ fst t, match snd t with Some rs => Some (r :: rs) | None => None end)
      | _ => (fst l, None)
      end
  end.

(* SampleList.load: positions k, k+1, ..., k+n-1 *)
Fixpoint load_positions (s : slot) (k n : nat) (d : disk) : list op * option (list M) :=
  match n with
  | O => ([], Some [])
  | S n' =>
      let l := load (Sample s k) d in
      match snd l with
      | Some (PPos m) =>
          let t := load_positions s (S k) n' d in
          (fst l ++ fst t, match snd t with Some ms => Some (m :: ms) | None => None end)
      | _ => (fst l, None)
      end
  end.

(* what both resume branches do after the sample list is loaded *)
Definition resume_tail (n j : nat) (s : slot) (pre : list op) (st : St) (d : disk) : list op * option (St * E * nat) :=
  if Nat.eqb (S j) n then (pre, Some (st, e0, S j))
  else
    let lr := load RandomState d in
    match snd lr with
    | Some PRng =>
        let le := load (EHist s) d in
        match snd le with
        | Some (PE e) => (pre ++ fst lr ++ fst le, Some (st, e, S j))
        | _ => (pre ++ fst lr ++ fst le, None)
        end
    | _ => (pre ++ fst lr, None)
    end.

(* the resume branch; result: operations, and (state, energy history, first iteration) or None *)
Definition resume_state (n : nat) (d : disk) : list op * option (St * E * nat) :=
  let lm := load Marker d in
  match snd lm with
  | Some (PInt j) =>
      let s := slot_of sg j in
      if isfile (Mean s) d then
        let l1 := load (Mean s) d in
        match snd l1 with
        | Some (PMean m) =>
            let cnt := count_from s 0 (length d) d in
            let ls := load_samples s 0 cnt d in
            match cnt, snd ls with
            | S _, Some rs => resume_tail n j s (fst lm ++ fst l1 ++ fst l1 ++ fst ls) (m, rs) d
            | _, _ => (fst lm ++ fst l1 ++ fst l1 ++ fst ls, None)
            end
        | _ => (fst lm ++ fst l1, None)
        end
      else
        (* `sl = SampleList.load(fname); myassert(sl.n_samples == 1); mean = sl.local_item(0)` *)
        let cnt := count_from s 0 (length d) d in
        let ls := load_positions s 0 cnt d in
        match cnt, snd ls with
        | 1, Some [m] => resume_tail n j s (fst lm ++ fst ls) (m, []) d
        | _, _ => (fst lm ++ fst ls, None)
        end
  | _ => (fst lm, None)
  end.

Definition prelude : list op := [Makedirs TopDir; Makedirs PickleDir].

(* operations and outcome of one run of the driver started on disk d *)
Definition run (resume : bool) (n : nat) (d : disk) : list op * outcome :=
  if resume && isfile Marker d then
    let rs := resume_state n d in
    match snd rs with
    | None => (prelude ++ fst rs, Stuck)
    | Some (st, eh, i0) =>
        let o := prelude ++ fst rs in
        if Nat.eqb i0 n then (o, Ok st)             (* `return (sl, mean)` before the schedule is prepared *)
        else
          let from := if prepare_all pr then 0 else i0 in
          match prepare (n - from) from (raws n) with
          | None => (o, Stuck)
          | Some sq => let r := loop sq (n - i0) i0 g0 st eh (run_ops o d) in (o ++ fst r, snd r)   (* setState(saved) *)
          end
    end
  else
    let o := prelude ++ dump RandomState PRng in
    match prepare n 0 (raws n) with
    | None => (o, Stuck)
    | Some sq => let r := loop sq n 0 g0 init e0 (run_ops o d) in (o ++ fst r, snd r)
    end.

Definition crashed (resume : bool) (n : nat) (d : disk) (k : nat) (lost : bool) : disk :=
  crash k lost (fst (run resume n d)) d.

Fixpoint chain (n : nat) (r0 : bool) (cps : list (nat * bool)) (d : disk) : disk :=
  match cps with
  | [] => d
  | (k, lost) :: t => chain n true t (crashed r0 n d k lost)
  end.

(* ---- the trace the tracer records ---- *)
Inductive tok :=
| TMakedirs (dd : dir) | TRemove (f : fname) | TOpenW (f : fname) | TOpenA (f : fname)
| TOpenR (f : fname) | TWrite (f : fname) | TClose (f : fname) | TReplace (a b : fname).

Definition tok_of (o : op) : tok :=
  match o with
  | Makedirs dd => TMakedirs dd
  | RemoveIfExists f | Unlink f => TRemove f
  | OpenW f => TOpenW f | OpenA f => TOpenA f | OpenR f => TOpenR f
  | Write f _ => TWrite f | Close f | CloseR f => TClose f
  | Replace a b => TReplace a b
  end.

Fixpoint trace (ops : list op) (d : disk) : list tok :=
  match ops with
  | [] => []
  | o :: r => if performed d o then tok_of o :: trace r (exec d o) else trace r d
  end.
End Driver.

Arguments Torn {M R E H}.
Arguments Buffered {M R E H}.
Arguments Valid {M R E H}.
Arguments PInt {M R E H}.
Arguments PRng {M R E H}.
Arguments PRes {M R E H}.
Arguments PMean {M R E H}.
Arguments PPos {M R E H}.
Arguments PE {M R E H}.
Arguments PH {M R E H}.
Arguments PLog {M R E H}.
Arguments Makedirs {M R E H}.
Arguments RemoveIfExists {M R E H}.
Arguments Unlink {M R E H}.
Arguments OpenW {M R E H}.
Arguments OpenA {M R E H}.
Arguments Write {M R E H}.
Arguments Close {M R E H}.
Arguments OpenR {M R E H}.
Arguments CloseR {M R E H}.
Arguments Replace {M R E H}.
Arguments Stuck {M R}.
Arguments Ok {M R}.

(* ---- the instance the correspondence check runs ---- *)
Definition dir_eqb (a b : dir) : bool :=
  match a, b with TopDir, TopDir | PickleDir, PickleDir => true | _, _ => false end.

Definition tok_eqb (a b : tok) : bool :=
  match a, b with
  | TMakedirs x, TMakedirs y => dir_eqb x y
  | TRemove f, TRemove g | TOpenW f, TOpenW g | TOpenA f, TOpenA g | TOpenR f, TOpenR g
  | TWrite f, TWrite g | TClose f, TClose g => fname_eqb f g
  | TReplace a1 b1, TReplace a2 b2 => fname_eqb a1 a2 && fname_eqb b1 b2
  | _, _ => false
  end.

Fixpoint toks_eqb (a b : list tok) : bool :=
  match a, b with
  | [], [] => true
  | x :: a', y :: b' => tok_eqb x y && toks_eqb a' b'
  | _, _ => false
  end.

Section Instance.
Variable pr : proto.
Variable sg : strategy.
Variable nres : list nat.      (* observed: number of residual files written in iteration i *)
Variable freshl : list bool.   (* fresh_stochasticity(i) of the configuration (true beyond the list) *)

(* symbolic states: the mean is a number (binary, N) computed from everything the step depends
   on, so that a mixture of two iterations gives a different number than any state of the
   uninterrupted run *)
Definition ist : Type := (N * list N)%type.
Definition istep (i : nat) (sd : N) (st : ist) : ist :=
  let h := (1 + N.of_nat i + 13 * sd + 3 * fst st + 5 * fold_left (fun a x => 2 * a + x) (snd st) 7)%N in
  (h, map (fun k => (11 * h + N.of_nat k)%N) (seq 0 (nth i nres 0))).
Definition iestep (i : nat) (st : ist) (e : list N) : list N := e ++ [fst st].
Definition ihstep (i : nat) (st : ist) (h : list N) : list N := h ++ [(N.of_nat i + fst st)%N].
Definition iinit : ist := (0%N, []).

Definition idisk := disk N N (list N) (list N).
Definition iraw (i : nat) : N := (17 + 19 * N.of_nat i)%N.
Definition ifresh (i : nat) : bool := nth i freshl true.
(* the late variant: the base generator enters the hash and is advanced by every iteration *)
Definition ilstep (i : nat) (sd : N) (g : N) (st : ist) : ist * N := (istep i (sd + 31 * g)%N st, (g + 1)%N).
Definition irun := run N N (list N) (list N) N N istep iestep ihstep iinit [] [] iraw ifresh 23%N ilstep pr sg.
Definition ichain := chain N N (list N) (list N) N N istep iestep ihstep iinit [] [] iraw ifresh 23%N ilstep pr sg.
Definition itrace := trace N N (list N) (list N).

(* observation of one file: unloadable | loadable | a marker file holding the integer j |
   merely present (logs) *)
Inductive fobs := OTorn | OValid | OInt (j : nat) | OAny.

Definition fobs_ok (c : option (content N N (list N) (list N))) (o : fobs) : bool :=
  match c, o with
  | Some _, OAny => true
  | Some Torn, OTorn => true
  | Some (Valid (PInt i)), OInt j => Nat.eqb i j
  | Some (Valid (PInt _)), _ => false
  | Some (Valid _), OValid => true
  | _, _ => false
  end.

Definition after (n : nat) (r0 : bool) (cps : list (nat * bool)) : idisk := ichain n r0 cps [].

(* the directory found after the crash chain: exactly the observed files, with the observed class *)
Definition disk_ok (n : nat) (r0 : bool) (cps : list (nat * bool)) (obs : list (fname * fobs)) : bool :=
  let d := after n r0 cps in
  Nat.eqb (length d) (length obs)
  && forallb (fun p => fobs_ok (lookup N N (list N) (list N) (fst p) d) (snd p)) obs.

Definition trace_ok (n : nat) (r0 : bool) (cps : list (nat * bool)) (resume : bool) (observed : list tok) : bool :=
  let d := after n r0 cps in toks_eqb (itrace (fst (irun resume n d)) d) observed.

Definition killed_trace_ok (n : nat) (r0 : bool) (cps : list (nat * bool)) (resume : bool) (k : nat)
           (observed : list tok) : bool :=
  let d := after n r0 cps in toks_eqb (firstn k (itrace (fst (irun resume n d)) d)) observed.

Definition st_eqb (a b : ist) : bool :=
  N.eqb (fst a) (fst b) && Nat.eqb (length (snd a)) (length (snd b))
  && forallb (fun p => N.eqb (fst p) (snd p)) (combine (snd a) (snd b)).

(* outcome of the run: None = raised; Some (ns, same) = returned ns samples and the result is /
   is not the one of the uninterrupted run *)
Definition out_ok (n : nat) (o : outcome N N) (observed : option (nat * bool)) : bool :=
  match o, observed with
  | Stuck, None => true
  | Ok st, Some (ns, same) =>
      Nat.eqb (length (snd st)) ns
      && Bool.eqb same (match snd (irun false n []) with Ok ref => st_eqb st ref | Stuck => false end)
  | _, _ => false
  end.

Definition outcome_ok (n : nat) (r0 : bool) (cps : list (nat * bool)) (resume : bool)
           (observed : option (nat * bool)) : bool :=
  out_ok n (snd (irun resume n (after n r0 cps))) observed.

(* everything observed about one run started on the directory left by the crash chain: the
   directory file by file, the operation sequence, the outcome (one evaluation of chain and run) *)
Definition final_ok (n : nat) (r0 : bool) (cps : list (nat * bool)) (resume : bool)
           (obs : list (fname * fobs)) (observed : list tok) (outcome_obs : option (nat * bool)) : bool :=
  let d := after n r0 cps in
  let r := irun resume n d in
  Nat.eqb (length d) (length obs)
  && forallb (fun p => fobs_ok (lookup N N (list N) (list N) (fst p) d) (snd p)) obs
  && toks_eqb (itrace (fst r) d) observed
  && out_ok n (snd r) outcome_obs.
(* the same with the outcome of the uninterrupted run supplied (evaluated once per configuration) *)
Definition reference_outcome (n : nat) : outcome N N := snd (irun false n []).

Definition out_ok_with (ref : outcome N N) (o : outcome N N) (observed : option (nat * bool)) : bool :=
  match o, observed with
  | Stuck, None => true
  | Ok st, Some (ns, same) =>
      Nat.eqb (length (snd st)) ns
      && Bool.eqb same (match ref with Ok rst => st_eqb st rst | Stuck => false end)
  | _, _ => false
  end.

Definition final_ok_with (ref : outcome N N) (n : nat) (r0 : bool) (cps : list (nat * bool)) (resume : bool)
           (obs : list (fname * fobs)) (observed : list tok) (outcome_obs : option (nat * bool)) : bool :=
  let d := after n r0 cps in
  let r := irun resume n d in
  Nat.eqb (length d) (length obs)
  && forallb (fun p => fobs_ok (lookup N N (list N) (list N) (fst p) d) (snd p)) obs
  && toks_eqb (itrace (fst r) d) observed
  && out_ok_with ref (snd r) outcome_obs.
End Instance.
