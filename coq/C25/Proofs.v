(* C25 -- the invariant proof for the fixed protocol (both save strategies). *)
From Coq Require Import List Arith Bool Lia.
Import ListNotations.
Require Import NV.C25.Model NV.C25.ProofsBase.

Section Main.
Variables MM RR EE HH SS GG : Type.
Notation St := (St MM RR).
Variable gstep : nat -> SS -> St -> St.
Variable estep : nat -> St -> EE -> EE.
Variable hstep : nat -> St -> HH -> HH.
Variable init : St.
Variable e0 : EE.
Variable h0 : HH.
Variable raw : nat -> SS.
Variable fresh : nat -> bool.
Variable g0 : GG.
Variable lstep : nat -> SS -> GG -> St -> St * GG.
Variable sg : strategy.

(* the seed schedule: iteration i re-uses the seed of the last fresh iteration <= i *)
Fixpoint sched (i : nat) : SS :=
  match i with
  | O => raw 0
  | S j => if fresh (S j) then raw (S j) else sched j
  end.
Definition step (i : nat) (st : St) : St := gstep i (sched i) st.

Notation disk := (disk MM RR EE HH).
Notation op := (op MM RR EE HH).
Notation payload := (payload MM RR EE HH).
Notation lookup := (lookup MM RR EE HH).
Notation del := (del MM RR EE HH).
Notation set := (set MM RR EE HH).
Notation exec := (exec MM RR EE HH).
Notation run_ops := (run_ops MM RR EE HH).
Notation crash_raw := (crash_raw MM RR EE HH).
Notation crash := (crash MM RR EE HH).
Notation settle := (settle MM RR EE HH).
Notation isfile := (isfile MM RR EE HH).
Notation dump := (dump MM RR EE HH).
Notation save_file := (save_file MM RR EE HH).
Notation save_samples := (save_samples MM RR EE HH).
Notation save_list := (save_list MM RR EE HH).
Notation append_log := (append_log MM RR EE HH).
Notation load := (load MM RR EE HH).
Notation touches := (touches MM RR EE HH).
Notation nperf := (nperf MM RR EE HH).
Notation pr := fixed_proto.
Notation loop := (loop MM RR EE HH SS GG gstep estep hstep h0 raw lstep pr sg).
Notation run := (run MM RR EE HH SS GG gstep estep hstep init e0 h0 raw fresh g0 lstep pr sg).
Notation crashed := (crashed MM RR EE HH SS GG gstep estep hstep init e0 h0 raw fresh g0 lstep pr sg).
Notation chain := (chain MM RR EE HH SS GG gstep estep hstep init e0 h0 raw fresh g0 lstep pr sg).
Notation seed_at := (seed_at SS raw).
Notation prepare := (prepare SS raw fresh).
Notation raws := (raws SS raw).
Notation set_nth := (set_nth SS).
Notation resume_state := (resume_state MM RR EE HH e0 sg).
Notation slot := (slot_of sg).

(* ---- the uninterrupted trajectory ---- *)
Fixpoint traj (k : nat) : St * EE * HH :=
  match k with
  | O => (init, e0, h0)
  | S k' => let st' := step k' (fst (fst (traj k'))) in
            (st', estep k' st' (snd (fst (traj k'))), hstep k' st' (snd (traj k')))
  end.
Definition tst k := fst (fst (traj k)).
Definition te k := snd (fst (traj k)).
Definition th k := snd (traj k).

Lemma tst_S : forall k, tst (S k) = step k (tst k). Proof. reflexivity. Qed.
Lemma te_S : forall k, te (S k) = estep k (tst (S k)) (te k). Proof. reflexivity. Qed.
Lemma th_S : forall k, th (S k) = hstep k (tst (S k)) (th k). Proof. reflexivity. Qed.

(* ---- what "iteration finished" means on disk ---- *)
Definition files_ok (d : disk) (s : Model.slot) (st : St) : Prop :=
  match snd st with
  | [] =>            (* MAP iteration: SampleList([mean]) -- one sample file holding the position, no mean file *)
      lookup (Mean s) d = None /\
      lookup (Sample s 0) d = Some (Valid (PPos (fst st))) /\
      lookup (Sample s 1) d = None
  | _ :: _ =>
      lookup (Mean s) d = Some (Valid (PMean (fst st))) /\
      (forall k r, nth_error (snd st) k = Some r -> lookup (Sample s k) d = Some (Valid (PRes r))) /\
      lookup (Sample s (length (snd st))) d = None
  end.

Definition slot_complete (d : disk) (s : Model.slot) (st : St) (e : EE) (h : HH) : Prop :=
  files_ok d s st /\
  lookup (EHist s) d = Some (Valid (PE e)) /\
  lookup (MHist s) d = Some (Valid (PH h)).

Definition complete (d : disk) (j : nat) : Prop :=
  slot_complete d (slot j) (tst (S j)) (te (S j)) (th (S j)) /\
  lookup RandomState d = Some (Valid PRng).

Definition good (n : nat) (d : disk) : Prop :=
  match lookup Marker d with
  | None => True
  | Some (Valid (PInt j)) => j < n /\ complete d j
  | Some _ => False
  end.

(* ---- files touched by the pieces of an iteration ---- *)
Lemma touches_dump : forall g p f, touches (dump g p) f = fname_eqb f g.
Proof. intros. unfold ProofsBase.touches, Model.dump. simpl. destruct (fname_eqb f g); reflexivity. Qed.

Lemma touches_save_file : forall g p f, touches (save_file g p) f = fname_eqb f g.
Proof. intros. unfold ProofsBase.touches, Model.save_file, Model.dump. simpl. destruct (fname_eqb f g); reflexivity. Qed.

Lemma touches_append_log : forall g f, touches (append_log g) f = fname_eqb f g.
Proof. intros. unfold ProofsBase.touches, Model.append_log. simpl. destruct (fname_eqb f g); reflexivity. Qed.

Lemma touches_save_samples : forall s rs k0 f,
  touches (save_samples s k0 rs) f = true -> exists k, f = Sample s k /\ k0 <= k < k0 + length rs.
Proof.
  induction rs as [ | r t IH]; intros k0 f Ht; [discriminate | ].
  cbn [Model.save_samples] in Ht. rewrite touches_app, touches_save_file in Ht.
  apply orb_true_iff in Ht. destruct Ht as [Ht | Ht].
  - apply fname_eqb_eq in Ht. exists k0. simpl. split; [exact Ht | lia].
  - destruct (IH _ _ Ht) as (k & -> & Hk). exists k. simpl. split; [reflexivity | lia].
Qed.

Definition in_slot (s : Model.slot) (f : fname) : bool :=
  match f with
  | Sample t _ | Mean t | EHist t | MHist t => slot_eqb s t
  | _ => false
  end.

Lemma touches_save_samples_out : forall s rs k0 f, in_slot s f = false -> touches (save_samples s k0 rs) f = false.
Proof.
  intros s rs k0 f Hs. destruct (touches (save_samples s k0 rs) f) eqn:Ht; [ | reflexivity].
  destruct (touches_save_samples _ _ _ _ Ht) as (k & -> & _). simpl in Hs.
  assert (slot_eqb s s = true) by now apply slot_eqb_eq. congruence.
Qed.

Lemma touches_save_samples_idx : forall s rs k0 k, k < k0 \/ k0 + length rs <= k ->
  touches (save_samples s k0 rs) (Sample s k) = false.
Proof.
  intros s rs k0 k Hk. destruct (touches (save_samples s k0 rs) (Sample s k)) eqn:Ht; [ | reflexivity].
  destruct (touches_save_samples _ _ _ _ Ht) as (k' & Heq & Hk'). inversion Heq. subst. lia.
Qed.

(* ---- effect of the pieces ---- *)
Lemma dump_lookup : forall g p (d : disk), lookup g (run_ops (dump g p) d) = Some (Valid p).
Proof.
  intros. unfold Model.run_ops, Model.dump. cbn [fold_left Model.exec].
  rewrite lookup_set_same. apply lookup_set_same.
Qed.

Lemma save_file_lookup : forall g p (d : disk), lookup g (run_ops (save_file g p) d) = Some (Valid p).
Proof.
  intros. unfold Model.save_file. change (RemoveIfExists g :: dump g p) with ([RemoveIfExists g] ++ dump g p).
  rewrite run_ops_app. apply dump_lookup.
Qed.

Lemma save_samples_lookup : forall s rs k0 (d : disk) j r, nth_error rs j = Some r ->
  lookup (Sample s (k0 + j)) (run_ops (save_samples s k0 rs) d) = Some (Valid (PRes r)).
Proof.
  induction rs as [ | r0 t IH]; intros k0 d j r Hn; [destruct j; discriminate | ].
  cbn [Model.save_samples]. rewrite run_ops_app. destruct j as [ | j].
  - simpl in Hn. inversion Hn. subst. rewrite Nat.add_0_r.
    rewrite run_ops_frame by (apply touches_save_samples_idx; lia). apply save_file_lookup.
  - simpl in Hn. replace (k0 + S j) with (S k0 + j) by lia. now apply IH.
Qed.

(* ---- one iteration in normal form ---- *)
Definition body (i : nat) (st' : St) (eh' : EE) (rd : list op) (h' : HH) : list op :=
  save_list (slot i) st' ++ dump (EHist (slot i)) (PE eh') ++ append_log MiniLog
  ++ rd ++ dump (MHist (slot i)) (PH h') ++ dump MarkerTmp (PInt i).

Definition before_read (i : nat) (st' : St) (eh' : EE) : list op :=
  save_list (slot i) st' ++ dump (EHist (slot i)) (PE eh') ++ append_log MiniLog.

Definition inval : list op := invalidate_ops MM RR EE HH pr sg.

Definition iter_all (i : nat) (st' : St) (eh' : EE) (rd : list op) (h' : HH) : list op :=
  inval ++ body i st' eh' rd h' ++ [Replace MarkerTmp Marker] ++ append_log CountLog.

Lemma ops1_eq : forall i st' eh', ops1 MM RR EE HH pr sg i st' eh' = inval ++ before_read i st' eh'.
Proof. intros. unfold ops1, before_read, inval. cbn [marker_last pr app]. reflexivity. Qed.

Lemma iter_ops_eq : forall i st' eh' rd h',
  ops1 MM RR EE HH pr sg i st' eh' ++ rd ++ ops2 MM RR EE HH pr sg i st' h' = iter_all i st' eh' rd h'.
Proof.
  intros. rewrite ops1_eq. unfold iter_all, body, before_read, ops2, marker_ops.
  cbn [marker_last atomic_marker pr]. repeat rewrite <- app_assoc. reflexivity.
Qed.

Definition reads (rd : list op) : Prop := forall f, touches rd f = false.

Definition body_files (s : Model.slot) (f : fname) : bool :=
  in_slot s f || fname_eqb f MiniLog || fname_eqb f MarkerTmp.

Lemma in_slot_false_neq : forall s f g, in_slot s f = false -> in_slot s g = true -> fname_eqb f g = false.
Proof.
  intros s f g Hf Hg. destruct (fname_eqb f g) eqn:Eq; [ | reflexivity].
  apply fname_eqb_eq in Eq. subst. congruence.
Qed.

Lemma slot_refl : forall s, slot_eqb s s = true.
Proof. intros. now apply slot_eqb_eq. Qed.

Lemma touches_unlink : forall g f, touches [Unlink g] f = fname_eqb f g.
Proof. intros. unfold ProofsBase.touches. simpl. apply orb_false_r. Qed.

Definition is_sample_file (s : Model.slot) (f : fname) : bool :=
  match f with Sample t _ | Mean t => slot_eqb s t | _ => false end.

Lemma save_list_nil : forall s (st : St), snd st = [] ->
  save_list s st = [Unlink (Sample s 1)] ++ [Unlink (Mean s)] ++ save_file (Sample s 0) (PPos (fst st)).
Proof. intros s st H. unfold Model.save_list. now rewrite H. Qed.

Lemma save_list_cons : forall s (st : St), snd st <> [] ->
  save_list s st = [Unlink (Sample s (length (snd st)))] ++ save_samples s 0 (snd st) ++ save_file (Mean s) (PMean (fst st)).
Proof. intros s st H. unfold Model.save_list. destruct (snd st); [contradiction | reflexivity]. Qed.

(* sl.save touches sample and mean files of its slot only *)
Lemma touches_save_list : forall s st f, is_sample_file s f = false -> touches (save_list s st) f = false.
Proof.
  intros s st f Hs.
  assert (N : forall g, is_sample_file s g = true -> fname_eqb f g = false).
  { intros g Hg. destruct (fname_eqb f g) eqn:Eq; [ | reflexivity]. apply fname_eqb_eq in Eq. subst. congruence. }
  destruct (snd st) eqn:Es.
  - rewrite save_list_nil by exact Es. rewrite !touches_app, !touches_unlink, touches_save_file.
    rewrite !N by (simpl; apply slot_refl). reflexivity.
  - rewrite save_list_cons by (rewrite Es; discriminate). rewrite !touches_app, touches_unlink, touches_save_file.
    rewrite !N by (simpl; apply slot_refl).
    destruct (touches (save_samples s 0 (snd st)) f) eqn:Ht; [ | reflexivity].
    destruct (touches_save_samples _ _ _ _ Ht) as (k & -> & _). simpl in Hs. rewrite slot_refl in Hs. discriminate.
Qed.

Lemma touches_save_list_out : forall s st f, in_slot s f = false -> touches (save_list s st) f = false.
Proof.
  intros s st f Hs. apply touches_save_list. destruct f; simpl in *; try reflexivity; exact Hs.
Qed.

Lemma files_ok_ext : forall (d d' : disk) s st,
  (forall f, is_sample_file s f = true -> lookup f d' = lookup f d) -> files_ok d s st -> files_ok d' s st.
Proof.
  intros d d' s st Hf. unfold files_ok. destruct (snd st).
  - intros (H1 & H2 & H3). rewrite !Hf by (simpl; apply slot_refl). auto.
  - intros (H1 & H2 & H3). rewrite !Hf by (simpl; apply slot_refl). repeat split; auto.
    intros k r0 Hn. rewrite Hf by (simpl; apply slot_refl). now apply H2.
Qed.

(* after sl.save the sample files hold exactly the state in memory *)
Lemma save_list_files_ok : forall s st (d : disk), files_ok (run_ops (save_list s st) d) s st.
Proof.
  intros s st d. unfold files_ok. destruct (snd st) eqn:Es.
  - rewrite save_list_nil by exact Es. rewrite !run_ops_app. repeat split.
    + rewrite run_ops_frame by (rewrite touches_save_file; reflexivity).
      unfold Model.run_ops. cbn [fold_left Model.exec]. apply lookup_del_same.
    + apply save_file_lookup.
    + rewrite run_ops_frame by (rewrite touches_save_file; simpl; apply andb_false_r).
      rewrite run_ops_frame by (rewrite touches_unlink; reflexivity).
      unfold Model.run_ops. cbn [fold_left Model.exec]. apply lookup_del_same.
  - assert (Hne : snd st <> []) by (rewrite Es; discriminate).
    rewrite save_list_cons by exact Hne. rewrite <- Es. rewrite !run_ops_app. repeat split.
    + apply save_file_lookup.
    + intros k r0 Hn. rewrite run_ops_frame by (rewrite touches_save_file; reflexivity).
      change k with (0 + k). now apply save_samples_lookup.
    + rewrite run_ops_frame by (rewrite touches_save_file; reflexivity).
      rewrite run_ops_frame by (apply touches_save_samples_idx; lia).
      unfold Model.run_ops. cbn [fold_left Model.exec]. apply lookup_del_same.
Qed.

Lemma touches_before_read_out : forall i st' eh' f, body_files (slot i) f = false ->
  touches (before_read i st' eh') f = false.
Proof.
  intros i st' eh' f Hb. unfold body_files in Hb.
  apply orb_false_iff in Hb. destruct Hb as [Hb H3]. apply orb_false_iff in Hb. destruct Hb as [H1 H2].
  unfold before_read. rewrite !touches_app, touches_dump, touches_append_log, touches_save_list_out by exact H1.
  rewrite (in_slot_false_neq (slot i) f (EHist (slot i)) H1) by (simpl; apply slot_refl).
  now rewrite H2.
Qed.

Lemma touches_before_read_mhist : forall i st' eh' s, touches (before_read i st' eh') (MHist s) = false.
Proof.
  intros. unfold before_read.
  rewrite !touches_app, touches_dump, touches_append_log, touches_save_list by reflexivity. reflexivity.
Qed.

Lemma touches_body_out : forall i st' eh' rd h' f, reads rd -> body_files (slot i) f = false ->
  touches (body i st' eh' rd h') f = false.
Proof.
  intros i st' eh' rd h' f Hr Hb.
  assert (Hbr := touches_before_read_out i st' eh' f Hb). unfold before_read in Hbr.
  rewrite !touches_app in Hbr.
  apply orb_false_iff in Hbr. destruct Hbr as [Ha Hbr]. apply orb_false_iff in Hbr. destruct Hbr as [Hb' Hc].
  unfold body_files in Hb.
  apply orb_false_iff in Hb. destruct Hb as [Hb H3]. apply orb_false_iff in Hb. destruct Hb as [H1 H2].
  unfold body. rewrite !touches_app, (Hr f), Ha, Hb', Hc, !touches_dump.
  rewrite (in_slot_false_neq (slot i) f (MHist (slot i)) H1) by (simpl; apply slot_refl).
  now rewrite H3.
Qed.

(* after the body of iteration i the slot holds exactly what was in memory *)
Lemma body_complete : forall i st' eh' rd h' (d : disk), reads rd ->
  let d' := run_ops (body i st' eh' rd h') d in
  slot_complete d' (slot i) st' eh' h' /\ lookup MarkerTmp d' = Some (Valid (PInt i)).
Proof.
  intros i st' eh' rd h' d Hr. cbv zeta. unfold body.
  set (s := slot i).
  set (A := save_list s st'). set (B := dump (EHist s) (PE eh')). set (C := append_log MiniLog).
  set (D := dump (MHist s) (PH h')). set (F := dump MarkerTmp (PInt i)).
  assert (tB : forall f, touches B f = fname_eqb f (EHist s)) by (intros; apply touches_dump).
  assert (tC : forall f, touches C f = fname_eqb f MiniLog) by (intros; apply touches_append_log).
  assert (tD : forall f, touches D f = fname_eqb f (MHist s)) by (intros; apply touches_dump).
  assert (tF : forall f, touches F f = fname_eqb f MarkerTmp) by (intros; apply touches_dump).
  (* frame for everything after A, on the files A establishes *)
  assert (rest_frame : forall f (x : disk), fname_eqb f (EHist s) = false -> fname_eqb f (MHist s) = false ->
            fname_eqb f MiniLog = false -> fname_eqb f MarkerTmp = false ->
            lookup f (run_ops (B ++ C ++ rd ++ D ++ F) x) = lookup f x).
  { intros f x H1 H2 H3 H4. apply run_ops_frame.
    rewrite !touches_app, tB, tC, tD, tF, (Hr f), H1, H2, H3, H4. reflexivity. }
  rewrite run_ops_app. set (dA := run_ops A d).
  split; [split; [ | split] | ].
  - (* sample files *)
    apply (files_ok_ext dA); [ | apply save_list_files_ok].
    intros f Hs. apply rest_frame; destruct f; simpl in Hs; try discriminate; reflexivity.
  - (* energy history *)
    rewrite run_ops_app.
    rewrite run_ops_frame by (rewrite !touches_app, tC, tD, tF, (Hr _); reflexivity).
    apply dump_lookup.
  - (* minisanity history *)
    rewrite (app_assoc B), (app_assoc (B ++ C)), run_ops_app, run_ops_app.
    rewrite run_ops_frame by (rewrite tF; reflexivity). apply dump_lookup.
  - (* marker tmp *)
    rewrite (app_assoc B), (app_assoc (B ++ C)), (app_assoc ((B ++ C) ++ rd)), run_ops_app.
    apply dump_lookup.
Qed.

(* ---- preservation of [good] ---- *)
Hypothesis fresh0 : fresh 0 = true.

(* ---- the seed schedule prepared by every run is [sched] ---- *)
Lemma set_nth_length : forall l i x, length (set_nth i x l) = length l.
Proof. induction l; intros [ | i] x; simpl; auto. Qed.

Lemma nth_set_nth_same : forall l i x dd, i < length l -> nth i (set_nth i x l) dd = x.
Proof.
  induction l; intros [ | i] x dd Hl; simpl in *; try lia; [reflexivity | apply IHl; lia].
Qed.

Lemma nth_set_nth_other : forall l i k x dd, k <> i -> nth k (set_nth i x l) dd = nth k l dd.
Proof.
  induction l; intros [ | i] [ | k] x dd Hne; simpl; try reflexivity; try lia.
  apply IHl. lia.
Qed.

Lemma prepare_sched : forall n fuel i sq, i + fuel = n -> length sq = n ->
  (forall k, k < i -> nth k sq (raw 0) = sched k) ->
  (forall k, i <= k < n -> nth k sq (raw 0) = raw k) ->
  exists sq', prepare fuel i sq = Some sq' /\ forall k, k < n -> seed_at sq' k = sched k.
Proof.
  intros n. induction fuel as [ | fuel IH]; intros i sq Hn Hl Hlo Hhi.
  - exists sq. split; [reflexivity | ]. intros k Hk. apply Hlo. lia.
  - cbn [Model.prepare]. destruct (fresh i) eqn:Ef.
    + apply IH; try lia; try assumption.
      * intros k Hk. destruct (Nat.eq_dec k i) as [-> | Hne]; [ | apply Hlo; lia].
        rewrite Hhi by lia. destruct i; [reflexivity | ]. simpl. now rewrite Ef.
      * intros k Hk. apply Hhi. lia.
    + destruct i as [ | j]; [rewrite fresh0 in Ef; discriminate | ].
      apply IH; try lia.
      * now rewrite set_nth_length.
      * intros k Hk. destruct (Nat.eq_dec k (S j)) as [-> | Hne].
        -- rewrite nth_set_nth_same by lia. rewrite Hlo by lia. simpl. now rewrite Ef.
        -- rewrite nth_set_nth_other by exact Hne. apply Hlo. lia.
      * intros k Hk. rewrite nth_set_nth_other by lia. apply Hhi. lia.
Qed.

Lemma raws_length : forall n, length (raws n) = n.
Proof. intros. unfold Model.raws. now rewrite map_length, seq_length. Qed.

Lemma raws_nth : forall n k, k < n -> nth k (raws n) (raw 0) = raw k.
Proof.
  intros n k Hk. unfold Model.raws.
  rewrite (map_nth raw (seq 0 n) 0 k), seq_nth by exact Hk. reflexivity.
Qed.

Lemma prepare_all_sched : forall n, exists sq, prepare n 0 (raws n) = Some sq /\ forall k, k < n -> seed_at sq k = sched k.
Proof.
  intros n. apply (prepare_sched n n 0 (raws n)); try lia.
  - apply raws_length.
  - intros k Hk. apply raws_nth. lia.
Qed.

Definition marker_lt (i : nat) (d : disk) : Prop :=
  forall j, lookup Marker d = Some (Valid (PInt j)) -> j < i.

Lemma slot_complete_ext : forall (d d' : disk) s st e h,
  (forall f, in_slot s f = true -> lookup f d' = lookup f d) ->
  slot_complete d s st e h -> slot_complete d' s st e h.
Proof.
  intros d d' s st e h Hf (H1 & H4 & H5).
  repeat split; try (rewrite Hf by (simpl; apply slot_refl); assumption).
  eapply files_ok_ext; [ | exact H1]. intros f Hs. apply Hf. destruct f; simpl in *; try discriminate; exact Hs.
Qed.

Lemma good_ext : forall n (d d' : disk),
  lookup Marker d' = lookup Marker d ->
  (forall j f, lookup Marker d = Some (Valid (PInt j)) ->
               in_slot (slot j) f = true \/ f = RandomState -> lookup f d' = lookup f d) ->
  good n d -> good n d'.
Proof.
  intros n d d' Hm Hf Hg. unfold good in *. rewrite Hm.
  destruct (lookup Marker d) as [[ | p | [j | | | | | | | ]] | ] eqn:Em; try exact Hg.
  destruct Hg as [Hj [Hc Hr]]. split; [exact Hj | ]. split.
  - eapply slot_complete_ext; [ | exact Hc]. intros f Hs. apply (Hf j); [reflexivity | now left].
  - rewrite (Hf j RandomState) by (try reflexivity; now right). exact Hr.
Qed.

Lemma good_settle : forall n lost (d : disk), good n d -> good n (settle lost d).
Proof.
  intros n lost d Hg.
  assert (V : forall f p, lookup f d = Some (Valid p) -> lookup f (settle lost d) = Some (Valid p))
    by (intros f p Hl; rewrite lookup_settle, Hl; reflexivity).
  assert (N : forall f, lookup f d = None -> lookup f (settle lost d) = None)
    by (intros f Hl; rewrite lookup_settle, Hl; reflexivity).
  unfold good in *.
  destruct (lookup Marker d) as [[ | p | [j | | | | | | | ]] | ] eqn:Em; try contradiction.
  - rewrite (V _ _ Em). destruct Hg as [Hj [(H1 & H4 & H5) Hr]].
    split; [exact Hj | ]. split; [ | now apply V].
    repeat split; try (now apply V).
    unfold files_ok in *. destruct (snd (tst (S j))).
    + destruct H1 as (A1 & A2 & A3). repeat split; try (now apply V); now apply N.
    + destruct H1 as (A1 & A2 & A3). repeat split; try (now apply V); try (now apply N).
      intros k r0 Hn. apply V. now apply A2.
  - rewrite (N _ Em). exact I.
Qed.

Lemma good_none : forall n (d : disk), lookup Marker d = None -> good n d.
Proof. intros n d Hm. unfold good. now rewrite Hm. Qed.

Lemma sg_cases : sg = SAll \/ sg = SLatest.
Proof. destruct sg; auto. Qed.

(* files of an older iteration (strategy all) are not files of iteration i *)
Lemma in_slot_other : forall i j f, sg = SAll -> j <> i -> in_slot (slot j) f = true -> in_slot (slot i) f = false.
Proof.
  intros i j f Hsg Hne Hs. unfold slot_of in *. rewrite Hsg in *.
  destruct f; simpl in *; try discriminate;
    (destruct s as [t | ]; simpl in *; [ | discriminate];
     apply Nat.eqb_eq in Hs; subst t; apply Nat.eqb_neq; lia).
Qed.

Lemma body_files_marker : forall s, body_files s Marker = false.
Proof. reflexivity. Qed.
Lemma body_files_rng : forall s, body_files s RandomState = false.
Proof. reflexivity. Qed.

(* any disk that agrees with d0 outside the files of iteration i is still good *)
Lemma good_body_frame : forall n i (d0 d' : disk),
  (forall f, body_files (slot i) f = false -> lookup f d' = lookup f d0) ->
  good n d0 -> marker_lt i d0 -> (sg = SLatest -> lookup Marker d0 = None) -> good n d'.
Proof.
  intros n i d0 d' Hf Hg Hlt Hlat. apply (good_ext n d0 d'); [now apply Hf | | exact Hg].
  intros j f Hm [Hs | ->]; [ | now apply Hf].
  apply Hf. destruct sg_cases as [Esg | Esg].
  - unfold body_files. rewrite (in_slot_other i j f Esg) ; [ | specialize (Hlt j Hm); lia | exact Hs].
    destruct f; simpl in *; try discriminate; reflexivity.
  - rewrite (Hlat Esg) in Hm. discriminate.
Qed.

Definition tail_ops : list op := [Replace MarkerTmp Marker] ++ append_log CountLog.

Lemma nperf_replace : forall (d : disk) l, nperf (Replace MarkerTmp Marker :: l) d = S (nperf l (exec d (Replace MarkerTmp Marker))).
Proof. reflexivity. Qed.

(* the disk after the marker has been moved into place *)
Lemma after_replace_good : forall n i rd (d0 : disk), reads rd -> i < n ->
  lookup RandomState d0 = Some (Valid PRng) ->
  let d1 := run_ops (body i (tst (S i)) (te (S i)) rd (th (S i))) d0 in
  let d2 := exec d1 (Replace MarkerTmp Marker) in
  forall d3 : disk, (forall f, fname_eqb f CountLog = false -> lookup f d3 = lookup f d2) ->
  lookup Marker d3 = Some (Valid (PInt i)) /\ complete d3 i /\ good n d3.
Proof.
  intros n i rd d0 Hr Hi Hrng d1 d2 d3 H3.
  destruct (body_complete i (tst (S i)) (te (S i)) rd (th (S i)) d0 Hr) as [Hc Ht]. fold d1 in Hc, Ht.
  assert (Hm2 : lookup Marker d2 = Some (Valid (PInt i))).
  { unfold d2. cbn [Model.exec]. rewrite Ht. apply lookup_set_same. }
  assert (Hf2 : forall f, fname_eqb f MarkerTmp = false -> fname_eqb f Marker = false -> lookup f d2 = lookup f d1).
  { intros f Ha Hb. apply exec_frame. simpl. now rewrite Ha, Hb. }
  assert (Hm3 : lookup Marker d3 = Some (Valid (PInt i))) by (rewrite H3 by reflexivity; exact Hm2).
  assert (Hc3 : complete d3 i).
  { split.
    - eapply slot_complete_ext; [ | exact Hc]. intros f Hs.
      rewrite H3 by (destruct f; simpl in *; try discriminate; reflexivity).
      apply Hf2; destruct f; simpl in *; try discriminate; reflexivity.
    - rewrite H3 by reflexivity. rewrite Hf2 by reflexivity.
      unfold d1. rewrite run_ops_frame; [exact Hrng | ].
      apply touches_body_out; [exact Hr | reflexivity]. }
  split; [exact Hm3 | ]. split; [exact Hc3 | ].
  unfold good. rewrite Hm3. split; assumption.
Qed.

Lemma crash_body_tail_good : forall n i rd (d0 : disk) k lost, reads rd -> i < n ->
  good n d0 -> marker_lt i d0 -> (sg = SLatest -> lookup Marker d0 = None) ->
  lookup RandomState d0 = Some (Valid PRng) ->
  good n (crash_raw k lost (body i (tst (S i)) (te (S i)) rd (th (S i)) ++ tail_ops) d0).
Proof.
  intros n i rd d0 k lost Hr Hi Hg Hlt Hlat Hrng.
  set (B := body i (tst (S i)) (te (S i)) rd (th (S i))).
  rewrite crash_raw_app. destruct (k <? nperf B d0).
  - eapply good_body_frame; try eassumption.
    intros f Hf. apply crash_raw_frame. now apply touches_body_out.
  - unfold tail_ops. cbn [app Model.crash_raw Model.performed].
    destruct (k - nperf B d0) as [ | k'].
    + assert (E0 : (if lost then Model.tear MM RR EE HH (Replace MarkerTmp Marker) (run_ops B d0) else run_ops B d0) = run_ops B d0)
        by (destruct lost; reflexivity).
      rewrite E0. eapply good_body_frame; try eassumption.
      intros f Hf. apply run_ops_frame. now apply touches_body_out.
    + apply (after_replace_good n i rd d0 Hr Hi Hrng).
      intros f Hf. apply crash_raw_frame. rewrite touches_append_log. exact Hf.
Qed.

Lemma inval_all : sg = SAll -> inval = [].
Proof. intros Hs. unfold inval, invalidate_ops. now rewrite Hs. Qed.
Lemma inval_latest : sg = SLatest -> inval = [RemoveIfExists Marker].
Proof. intros Hs. unfold inval, invalidate_ops. now rewrite Hs. Qed.

Lemma crash_iter_good : forall n i rd (d0 : disk) k lost, reads rd -> i < n ->
  good n d0 -> marker_lt i d0 -> lookup RandomState d0 = Some (Valid PRng) ->
  good n (crash_raw k lost (iter_all i (tst (S i)) (te (S i)) rd (th (S i))) d0).
Proof.
  intros n i rd d0 k lost Hr Hi Hg Hlt Hrng. unfold iter_all.
  fold tail_ops. destruct sg_cases as [Esg | Esg].
  - rewrite (inval_all Esg). cbn [app].
    apply crash_body_tail_good; try assumption. intros E2. rewrite Esg in E2. discriminate.
  - rewrite (inval_latest Esg). cbn [app Model.crash_raw Model.performed]. unfold Model.isfile.
    destruct (lookup Marker d0) eqn:Em.
    + destruct k as [ | k]; [destruct lost; exact Hg | ].
      assert (Hn : lookup Marker (exec d0 (RemoveIfExists Marker)) = None) by apply lookup_del_same.
      apply crash_body_tail_good; try assumption.
      * now apply good_none.
      * intros j Hj. rewrite Hn in Hj. discriminate.
      * intros _. exact Hn.
      * cbn [Model.exec]. rewrite lookup_del_other by discriminate. exact Hrng.
    + apply crash_body_tail_good; try assumption. intros _. exact Em.
Qed.

(* the disk after a complete iteration *)
Lemma iter_end : forall n i rd (d0 : disk), reads rd -> i < n ->
  lookup RandomState d0 = Some (Valid PRng) ->
  let d' := run_ops (iter_all i (tst (S i)) (te (S i)) rd (th (S i))) d0 in
  good n d' /\ lookup Marker d' = Some (Valid (PInt i)) /\
  lookup (MHist (slot i)) d' = Some (Valid (PH (th (S i)))) /\ lookup RandomState d' = Some (Valid PRng).
Proof.
  intros n i rd d0 Hr Hi Hrng d'. unfold d', iter_all. rewrite run_ops_app.
  set (d0' := run_ops inval d0).
  assert (Hrng' : lookup RandomState d0' = Some (Valid PRng)).
  { unfold d0'. rewrite run_ops_frame; [exact Hrng | ].
    destruct sg_cases as [Esg | Esg]; [rewrite (inval_all Esg) | rewrite (inval_latest Esg)]; reflexivity. }
  rewrite run_ops_app. change (run_ops ([Replace MarkerTmp Marker] ++ append_log CountLog) ?x)
    with (run_ops (append_log CountLog) (exec x (Replace MarkerTmp Marker))).
  destruct (after_replace_good n i rd d0' Hr Hi Hrng'
              (run_ops (append_log CountLog)
                 (exec (run_ops (body i (tst (S i)) (te (S i)) rd (th (S i))) d0') (Replace MarkerTmp Marker))))
    as (Hm & Hc & Hg).
  { intros f Hf. apply run_ops_frame. rewrite touches_append_log. exact Hf. }
  split; [exact Hg | ]. split; [exact Hm | ].
  destruct Hc as [(H1 & H4 & H5) H6]. split; assumption.
Qed.

(* ---- the loop ---- *)
Lemma loop_S : forall sq f i g st eh (d : disk), loop sq (S f) i g st eh d =
  let st' := gstep i (seed_at sq i) st in
  let eh' := estep i st' eh in
  let o1 := ops1 MM RR EE HH pr sg i st' eh' in
  let d1 := run_ops o1 d in
  let rd := match i with O => ([], Some (PH h0)) | S j => load (MHist (slot j)) d1 end in
  match snd rd with
  | Some (PH h) =>
      let o := o1 ++ fst rd ++ ops2 MM RR EE HH pr sg i st' (hstep i st' h) in
      let r := loop sq f (S i) g st' eh' (run_ops o d) in (o ++ fst r, snd r)
  | _ => (o1 ++ fst rd, Stuck)
  end.
Proof. reflexivity. Qed.

Lemma reads_nil : reads [].
Proof. intros f. reflexivity. Qed.
Lemma reads_openclose : forall g, reads [OpenR g; CloseR g].
Proof. intros g f. reflexivity. Qed.
Lemma reads_app : forall a b, reads a -> reads b -> reads (a ++ b).
Proof. intros a b Ha Hb f. now rewrite touches_app, Ha, Hb. Qed.

Lemma load_valid : forall g p (d : disk), lookup g d = Some (Valid p) ->
  load g d = ([OpenR g; CloseR g], Some p).
Proof. intros g p d Hl. unfold Model.load. now rewrite Hl. Qed.

Lemma touches_inval_mhist : forall s, touches inval (MHist s) = false.
Proof.
  intros. destruct sg_cases as [Esg | Esg]; [rewrite (inval_all Esg) | rewrite (inval_latest Esg)]; reflexivity.
Qed.

Lemma loop_good : forall n sq, (forall k, k < n -> seed_at sq k = sched k) ->
  forall fuel i (d : disk), i + fuel = n ->
  good n d -> marker_lt i d ->
  (forall j, i = S j -> lookup (MHist (slot j)) d = Some (Valid (PH (th i)))) ->
  lookup RandomState d = Some (Valid PRng) ->
  forall g, snd (loop sq fuel i g (tst i) (te i) d) = Ok (tst n) /\
  forall k lost, good n (crash_raw k lost (fst (loop sq fuel i g (tst i) (te i) d)) d).
Proof.
  intros n sq Hsq. induction fuel as [ | fuel IH]; intros i d Hn Hg Hlt Hh Hrng g.
  - simpl. replace i with n by lia. split; [reflexivity | intros; exact Hg].
  - rewrite loop_S. cbv zeta. rewrite (Hsq i) by lia. fold (step i (tst i)).
    rewrite <- tst_S, <- te_S.
    set (o1 := ops1 MM RR EE HH pr sg i (tst (S i)) (te (S i))).
    set (d1 := run_ops o1 d).
    assert (Hrd : exists rd, reads rd /\
              match i with O => ([], Some (PH h0)) | S j => load (MHist (slot j)) d1 end = (rd, Some (PH (th i)))).
    { destruct i as [ | j].
      - exists []. split; [apply reads_nil | reflexivity].
      - exists [OpenR (MHist (slot j)); CloseR (MHist (slot j))]. split; [apply reads_openclose | ].
        apply load_valid. unfold d1, o1. rewrite ops1_eq, run_ops_frame; [now apply Hh | ].
        rewrite touches_app, touches_inval_mhist, touches_before_read_mhist. reflexivity. }
    destruct Hrd as (rd & Hreads & ->). cbn [fst snd].
    rewrite <- th_S. unfold o1. rewrite iter_ops_eq.
    set (ops := iter_all i (tst (S i)) (te (S i)) rd (th (S i))).
    assert (Hi : i < n) by lia.
    destruct (iter_end n i rd d Hreads Hi Hrng) as (Hg' & Hm' & Hh' & Hrng'). fold ops in Hg', Hm', Hh', Hrng'.
    assert (IHx : forall j, S i = S j -> lookup (MHist (slot j)) (run_ops ops d) = Some (Valid (PH (th (S i)))))
      by (intros j Hj; inversion Hj; subst j; exact Hh').
    assert (IHm : marker_lt (S i) (run_ops ops d)) by (intros j Hj; rewrite Hm' in Hj; inversion Hj; lia).
    destruct (IH (S i) (run_ops ops d) ltac:(lia) Hg' IHm IHx Hrng' g) as [IHa IHb].
    cbn [fst snd]. split; [exact IHa | ].
    intros k lost. rewrite crash_raw_app. destruct (k <? nperf ops d).
    + unfold ops. now apply crash_iter_good.
    + apply IHb.
Qed.

(* ---- the resume branch ---- *)
Lemma count_from_exact : forall s (d : disk) m k0 fuel,
  (forall k, k0 <= k < k0 + m -> lookup (Sample s k) d <> None) ->
  lookup (Sample s (k0 + m)) d = None -> m <= fuel ->
  count_from MM RR EE HH s k0 fuel d = m.
Proof.
  intros s d. induction m as [ | m IH]; intros k0 fuel Hp Ha Hf.
  - destruct fuel; [reflexivity | ]. simpl. unfold Model.isfile. rewrite Nat.add_0_r in Ha. now rewrite Ha.
  - destruct fuel; [lia | ]. simpl. unfold Model.isfile.
    destruct (lookup (Sample s k0) d) eqn:El; [ | exfalso; apply (Hp k0); [lia | exact El]].
    f_equal. apply IH; [intros k Hk; apply Hp; lia | replace (S k0 + m) with (k0 + S m) by lia; exact Ha | lia].
Qed.

Lemma present_count : forall s m (d : disk), (forall k, k < m -> lookup (Sample s k) d <> None) -> m <= length d.
Proof.
  intros s. induction m as [ | m IH]; intros d Hp; [lia | ].
  assert (Hl : length (del (Sample s m) d) < length d) by (apply length_del_present, Hp; lia).
  assert (m <= length (del (Sample s m) d)).
  { apply IH. intros k Hk. rewrite lookup_del_other; [apply Hp; lia | ]. intros Eq. inversion Eq. lia. }
  lia.
Qed.

Lemma load_samples_ok : forall s (d : disk) rs k0,
  (forall j r, nth_error rs j = Some r -> lookup (Sample s (k0 + j)) d = Some (Valid (PRes r))) ->
  exists ops, reads ops /\ load_samples MM RR EE HH s k0 (length rs) d = (ops, Some rs).
Proof.
  intros s d. induction rs as [ | r t IH]; intros k0 Hl.
  - exists []. split; [apply reads_nil | reflexivity].
  - destruct (IH (S k0)) as (ops & Hr & He).
    { intros j r' Hn. replace (S k0 + j) with (k0 + S j) by lia. now apply Hl. }
    exists ([OpenR (Sample s k0); CloseR (Sample s k0)] ++ ops). split; [apply reads_app; [apply reads_openclose | exact Hr] | ].
    cbn [length Model.load_samples]. rewrite (load_valid (Sample s k0) (PRes r)).
    + cbn [fst snd]. rewrite He. reflexivity.
    + specialize (Hl 0 r eq_refl). now rewrite Nat.add_0_r in Hl.
Qed.

Lemma load_positions_one : forall s (d : disk) m, lookup (Sample s 0) d = Some (Valid (PPos m)) ->
  load_positions MM RR EE HH s 0 1 d = ([OpenR (Sample s 0); CloseR (Sample s 0)] ++ [], Some [m]).
Proof.
  intros s d m Hl. cbn [Model.load_positions]. rewrite (load_valid _ _ d Hl). reflexivity.
Qed.

Lemma resume_tail_ok : forall n j pre (st : St) (d : disk), reads pre ->
  lookup RandomState d = Some (Valid PRng) -> lookup (EHist (slot j)) d = Some (Valid (PE (te (S j)))) ->
  exists ops e, reads ops /\
    resume_tail MM RR EE HH e0 n j (slot j) pre st d = (ops, Some (st, e, S j)) /\ (S j <> n -> e = te (S j)).
Proof.
  intros n j pre st d Hpre Hr H4. unfold Model.resume_tail.
  destruct (Nat.eqb (S j) n) eqn:En.
  - exists pre, e0. split; [exact Hpre | ]. split; [reflexivity | ].
    intros Hne. apply Nat.eqb_eq in En. contradiction.
  - rewrite (load_valid RandomState PRng d Hr). cbn [fst snd].
    rewrite (load_valid _ _ d H4). cbn [fst snd].
    eexists. exists (te (S j)). split; [ | split; reflexivity].
    repeat apply reads_app; try apply reads_openclose; exact Hpre.
Qed.

Lemma resume_state_ok : forall n j (d : disk), lookup Marker d = Some (Valid (PInt j)) -> complete d j ->
  exists ops e, reads ops /\ resume_state n d = (ops, Some (tst (S j), e, S j)) /\ (S j <> n -> e = te (S j)).
Proof.
  intros n j d Hm [(Hf & H4 & H5) Hr].
  unfold Model.resume_state. rewrite (load_valid Marker (PInt j) d Hm). cbn [fst snd].
  unfold Model.isfile. unfold files_ok in Hf.
  assert (Hst : (fst (tst (S j)), snd (tst (S j))) = tst (S j)) by (now destruct (tst (S j))).
  destruct (snd (tst (S j))) as [ | r0 rs] eqn:Es.
  - (* the last finished iteration was a MAP iteration *)
    destruct Hf as (H1 & H2 & H3). rewrite H1.
    assert (Hcnt : count_from MM RR EE HH (slot j) 0 (length d) d = 1).
    { apply count_from_exact.
      - intros k Hk. replace k with 0 by lia. rewrite H2. discriminate.
      - exact H3.
      - apply (present_count (slot j)). intros k Hk. replace k with 0 by lia. rewrite H2. discriminate. }
    rewrite Hcnt, (load_positions_one _ _ _ H2). cbn [fst snd]. rewrite Hst.
    apply resume_tail_ok; [ | exact Hr | exact H4].
    repeat apply reads_app; try apply reads_openclose; apply reads_nil.
  - destruct Hf as (H1 & H2 & H3). rewrite H1. rewrite (load_valid _ _ d H1). cbn [fst snd].
    assert (Hcnt : count_from MM RR EE HH (slot j) 0 (length d) d = length (r0 :: rs)).
    { apply count_from_exact.
      - intros k Hk. destruct (nth_error (r0 :: rs) k) eqn:En.
        + rewrite (H2 k r En). discriminate.
        + apply nth_error_None in En. lia.
      - exact H3.
      - apply (present_count (slot j)). intros k Hk. destruct (nth_error (r0 :: rs) k) eqn:En.
        + rewrite (H2 k r En). discriminate.
        + apply nth_error_None in En. lia. }
    rewrite Hcnt.
    destruct (load_samples_ok (slot j) d (r0 :: rs) 0) as (lops & Hlr & Hle); [intros i r Hn; now apply H2 | ].
    rewrite Hle. cbn [fst snd length]. rewrite Hst.
    apply resume_tail_ok; [ | exact Hr | exact H4].
    repeat apply reads_app; try apply reads_openclose; exact Hlr.
Qed.

Lemma reads_frame : forall ops (d : disk) f, reads ops -> lookup f (run_ops ops d) = lookup f d.
Proof. intros. now apply run_ops_frame. Qed.

Lemma reads_crash : forall ops k lost (d : disk) f, reads ops -> lookup f (crash_raw k lost ops d) = lookup f d.
Proof. intros. now apply crash_raw_frame. Qed.

Lemma good_same : forall n (d d' : disk), (forall f, lookup f d' = lookup f d) -> good n d -> good n d'.
Proof. intros n d d' Hf. apply good_ext; intros; apply Hf. Qed.

Lemma reads_prelude : reads (prelude MM RR EE HH).
Proof. intros f. reflexivity. Qed.

(* ---- one run of the driver ---- *)
Lemma run_good : forall n r (d : disk), good n d -> (r = false -> lookup Marker d = None) ->
  snd (run r n d) = Ok (tst n) /\
  forall k lost, good n (crash_raw k lost (fst (run r n d)) d).
Proof.
  intros n r d Hg Hr0. unfold Model.run.
  destruct (r && isfile Marker d) eqn:Eb.
  - apply andb_true_iff in Eb. destruct Eb as [-> Ef]. unfold Model.isfile in Ef.
    assert (Hg' := Hg). unfold good in Hg'.
    destruct (lookup Marker d) as [[ | p | [j | | | | | | | ]] | ] eqn:Em; try contradiction; try discriminate.
    destruct Hg' as [Hj Hc].
    destruct (resume_state_ok n j d Em Hc) as (rops & e & Hreads & Hrs & He). rewrite Hrs. cbn [fst snd].
    set (o := prelude MM RR EE HH ++ rops).
    assert (Ho : reads o) by (apply reads_app; [apply reads_prelude | exact Hreads]).
    assert (Hsame : forall f, lookup f (run_ops o d) = lookup f d) by (intros; now apply reads_frame).
    destruct Hc as [Hsc Hrng]. assert (Hmh := Hsc). destruct Hmh as (_ & _ & Hmh).
    destruct (Nat.eq_dec (S j) n) as [En | En].
    + subst n. rewrite Nat.eqb_refl. cbn [fst snd]. split; [reflexivity | ].
      intros k lost. apply (good_same (S j) d); [intros; now apply reads_crash | exact Hg].
    + rewrite (He En). destruct (Nat.eqb (S j) n) eqn:Eq; [apply Nat.eqb_eq in Eq; contradiction | ].
      cbn [prepare_all pr]. rewrite Nat.sub_0_r.
      destruct (prepare_all_sched n) as (sq & -> & Hsq).
      assert (G0 : S j + (n - S j) = n) by lia.
      assert (G1 : good n (run_ops o d)) by (apply (good_same n d); assumption).
      assert (G2 : marker_lt (S j) (run_ops o d))
        by (intros j' Hj'; rewrite Hsame, Em in Hj'; inversion Hj'; lia).
      assert (G3 : forall j', S j = S j' -> lookup (MHist (slot j')) (run_ops o d) = Some (Valid (PH (th (S j)))))
        by (intros j' Hj'; inversion Hj'; subst j'; rewrite Hsame; exact Hmh).
      assert (G4 : lookup RandomState (run_ops o d) = Some (Valid PRng)) by (rewrite Hsame; exact Hrng).
      destruct (loop_good n sq Hsq (n - S j) (S j) (run_ops o d) G0 G1 G2 G3 G4 g0) as [La Lb].
      cbn [fst snd].
      * split; [exact La | ]. intros k lost. rewrite crash_raw_app. destruct (k <? nperf o d).
        -- apply (good_same n d); [intros; now apply reads_crash | exact Hg].
        -- apply Lb.
  - assert (Hm : lookup Marker d = None).
    { destruct r; [ | now apply Hr0]. simpl in Eb. unfold Model.isfile in Eb.
      destruct (lookup Marker d); [discriminate | reflexivity]. }
    set (o := prelude MM RR EE HH ++ dump RandomState PRng).
    assert (Hto : forall f, fname_eqb f RandomState = false -> touches o f = false).
    { intros f Hf. unfold o. rewrite touches_app, touches_dump, Hf, (reads_prelude f). reflexivity. }
    assert (Hm' : lookup Marker (run_ops o d) = None) by (rewrite run_ops_frame; [exact Hm | now apply Hto]).
    assert (G1 : good n (run_ops o d)) by now apply good_none.
    assert (G2 : marker_lt 0 (run_ops o d)) by (intros j Hj; rewrite Hm' in Hj; discriminate).
    assert (G3 : forall j, 0 = S j -> lookup (MHist (slot j)) (run_ops o d) = Some (Valid (PH (th 0))))
      by (intros j Hj; discriminate).
    assert (G4 : lookup RandomState (run_ops o d) = Some (Valid PRng))
      by (unfold o; rewrite run_ops_app; apply dump_lookup).
    destruct (prepare_all_sched n) as (sq & Hp & Hsq).
    destruct (loop_good n sq Hsq n 0 (run_ops o d) (eq_refl _) G1 G2 G3 G4 g0) as [La Lb].
    cbv zeta. fold o. rewrite Hp. cbn [fst snd].
    + split; [exact La | ]. intros k lost. rewrite crash_raw_app. destruct (k <? nperf o d).
      * apply good_none. rewrite crash_raw_frame; [exact Hm | now apply Hto].
      * apply Lb.
Qed.

Lemma crashed_good : forall n r (d : disk) k lost, good n d -> (r = false -> lookup Marker d = None) ->
  good n (crashed r n d k lost).
Proof.
  intros n r d k lost Hg Hr. unfold Model.crashed, Model.crash. apply good_settle.
  now apply run_good.
Qed.

Lemma chain_good : forall n cps r0 (d : disk), good n d -> (r0 = false -> lookup Marker d = None) ->
  good n (chain n r0 cps d).
Proof.
  intros n. induction cps as [ | [k lost] t IH]; intros r0 d Hg Hr; [exact Hg | ].
  cbn [Model.chain]. apply IH; [now apply crashed_good | discriminate].
Qed.

(* ---- the theorems ---- *)
Theorem resume_equiv : forall n r0 cps (d0 : disk), lookup Marker d0 = None ->
  snd (run true n (chain n r0 cps d0)) = Ok (tst n).
Proof.
  intros n r0 cps d0 Hm. apply run_good; [ | discriminate].
  apply chain_good; [now apply good_none | intros _; exact Hm].
Qed.

Theorem uninterrupted : forall n r (d0 : disk), lookup Marker d0 = None ->
  snd (run r n d0) = Ok (tst n).
Proof. intros n r d0 Hm. apply run_good; [now apply good_none | intros _; exact Hm]. Qed.

Theorem disk_invariant : forall n r0 cps (d0 : disk), lookup Marker d0 = None ->
  good n (chain n r0 cps d0).
Proof. intros n r0 cps d0 Hm. apply chain_good; [now apply good_none | intros _; exact Hm]. Qed.
End Main.

(* ---- the code as it is never reads the process-wide base generator ---- *)
Section BaseUnused.
Variables MM RR EE HH SS GG : Type.
Notation St := (St MM RR).
Variable gstep : nat -> SS -> St -> St.
Variable estep : nat -> St -> EE -> EE.
Variable hstep : nat -> St -> HH -> HH.
Variable init : St.
Variable e0 : EE.
Variable h0 : HH.
Variable raw : nat -> SS.
Variable fresh : nat -> bool.
Variable sg : strategy.
Variables g0 g0' : GG.
Variables lstep lstep' : nat -> SS -> GG -> St -> St * GG.

Lemma loop_base_unused : forall sq fuel i g g' st eh d,
  loop MM RR EE HH SS GG gstep estep hstep h0 raw lstep fixed_proto sg sq fuel i g st eh d =
  loop MM RR EE HH SS GG gstep estep hstep h0 raw lstep' fixed_proto sg sq fuel i g' st eh d.
Proof.
  intros sq. induction fuel as [ | fuel IH]; intros i g g' st eh d; [reflexivity | ].
  cbn [Model.loop push_first fixed_proto fst snd].
  destruct (snd match i with
                | O => ([], Some (PH h0))
                | S j => load MM RR EE HH (MHist (slot_of sg j))
                           (run_ops MM RR EE HH
                              (ops1 MM RR EE HH fixed_proto sg i (gstep i (seed_at SS raw sq i) st)
                                 (estep i (gstep i (seed_at SS raw sq i) st) eh)) d)
                end) as [[ | | | | | | h | ] | ]; try reflexivity.
  rewrite (IH (S i) g g'). reflexivity.
Qed.

Theorem base_generator_unused : forall r n d,
  run MM RR EE HH SS GG gstep estep hstep init e0 h0 raw fresh g0 lstep fixed_proto sg r n d =
  run MM RR EE HH SS GG gstep estep hstep init e0 h0 raw fresh g0' lstep' fixed_proto sg r n d.
Proof.
  intros r n d. unfold Model.run.
  destruct (r && isfile MM RR EE HH Marker d).
  - destruct (snd (resume_state MM RR EE HH e0 sg n d)) as [[[st eh] i0] | ]; [ | reflexivity].
    destruct (Nat.eqb i0 n); [reflexivity | ].
    destruct (prepare SS raw fresh _ _ _); [ | reflexivity].
    now rewrite (loop_base_unused l (n - i0) i0 g0 g0').
  - destruct (prepare SS raw fresh n 0 _); [ | reflexivity].
    now rewrite (loop_base_unused l n 0 g0 g0').
Qed.
End BaseUnused.
