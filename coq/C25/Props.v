(* C25 -- property theorems only.  Each is closed by [exact] of a lemma from Proofs.v or by
   evaluation of the executable model.

   Reading guide.  A state is (mean : M, residuals : list R) -- what `sl.save` writes (one file per
   residual + the mean); `step i` = iteration i of the driver as a function of the previous state
   (ARBITRARY; it may use the samples, cf. `transitions`); E / H = energy / minisanity histories with
   arbitrary update functions.  `run pr sg resume n d` = operations and outcome of the driver with
   protocol pr (fixed_proto = the code as it is after fixes C25-1 and C25-2; old_proto = the unfixed
   code) and save strategy sg on directory d; `chain ... r0 cps d0` = directory after a first run
   (resume = r0) killed at crash point cps[0], a restart with resume=True killed at cps[1], ...
   A crash point (k, lost) kills the process after its first k traced file-system operations;
   lost = true: buffered data and the write in flight reach the disk only partially.
   `traj` is the uninterrupted computation.  `step i seed` gets the seed sequence pushed for
   iteration i; `raw i` is child i of the random state saved by the first run, `fresh i` is
   `fresh_stochasticity(i)`; `g0` / `lstep` are the process-wide base generator and an iteration
   that would read and advance it (used by the variant late_push_proto only: the code as it is
   enters the iteration's stochasticity context first, so the state the step function draws from
   is the iteration's own seed only -- C25_base_generator_unused); [sched] is the schedule of the uninterrupted run: iteration i uses the
   raw seed of the last iteration <= i with fresh_stochasticity True. *)
From Coq Require Import List Arith Bool NArith.
Import ListNotations.
Require Import NV.C25.Model NV.C25.ProofsBase NV.C25.Proofs.

(* Resume equivalence for BOTH save strategies ("all" and "latest"): for every step / history
   update function, every number of iterations, every number of samples per iteration (a state
   without residuals is a MAP iteration, n_samples = 0), every fresh_stochasticity pattern that is
   True for iteration 0, every initial directory without a marker, a first run with resume=False or True,
   and EVERY finite sequence of crash points (also crashes of restarted runs): the final restart
   with resume=True does not raise and returns the (mean, samples) of the uninterrupted run. *)
Theorem C25_resume_equiv :
  forall (M R E H Seed G : Type) (step : nat -> Seed -> St M R -> St M R) (estep : nat -> St M R -> E -> E)
         (hstep : nat -> St M R -> H -> H) (init : St M R) (e0 : E) (h0 : H)
         (raw : nat -> Seed) (fresh : nat -> bool)
         (g0 : G) (lstep : nat -> Seed -> G -> St M R -> St M R * G) (sg : strategy),
    fresh 0 = true ->
    forall (n : nat) (r0 : bool) (cps : list (nat * bool)) (d0 : disk M R E H),
      lookup M R E H Marker d0 = None ->
      snd (run M R E H Seed G step estep hstep init e0 h0 raw fresh g0 lstep fixed_proto sg true n
             (chain M R E H Seed G step estep hstep init e0 h0 raw fresh g0 lstep fixed_proto sg n r0 cps d0))
      = Ok (tst M R E H Seed step estep hstep init e0 h0 raw fresh n).
Proof. exact resume_equiv. Qed.

(* ... which is what the uninterrupted run returns. *)
Theorem C25_uninterrupted :
  forall (M R E H Seed G : Type) (step : nat -> Seed -> St M R -> St M R) (estep : nat -> St M R -> E -> E)
         (hstep : nat -> St M R -> H -> H) (init : St M R) (e0 : E) (h0 : H)
         (raw : nat -> Seed) (fresh : nat -> bool)
         (g0 : G) (lstep : nat -> Seed -> G -> St M R -> St M R * G) (sg : strategy),
    fresh 0 = true ->
    forall (n : nat) (r : bool) (d0 : disk M R E H),
      lookup M R E H Marker d0 = None ->
      snd (run M R E H Seed G step estep hstep init e0 h0 raw fresh g0 lstep fixed_proto sg r n d0)
      = Ok (tst M R E H Seed step estep hstep init e0 h0 raw fresh n).
Proof. exact uninterrupted. Qed.

(* A crash never leaves a directory from which resuming is impossible or silently wrong: after
   any crash chain the marker is absent, or it is a complete integer j < n and every file the
   resume branch and the next iteration read (mean, all samples and no further one, energy
   history, minisanity history of iteration j, random state) is complete and holds exactly what
   the uninterrupted run had after iteration j -- never a mixture of two iterations. *)
Theorem C25_disk_invariant :
  forall (M R E H Seed G : Type) (step : nat -> Seed -> St M R -> St M R) (estep : nat -> St M R -> E -> E)
         (hstep : nat -> St M R -> H -> H) (init : St M R) (e0 : E) (h0 : H)
         (raw : nat -> Seed) (fresh : nat -> bool)
         (g0 : G) (lstep : nat -> Seed -> G -> St M R -> St M R * G) (sg : strategy),
    fresh 0 = true ->
    forall (n : nat) (r0 : bool) (cps : list (nat * bool)) (d0 : disk M R E H),
      lookup M R E H Marker d0 = None ->
      good M R E H Seed step estep hstep init e0 h0 raw fresh sg n
           (chain M R E H Seed G step estep hstep init e0 h0 raw fresh g0 lstep fixed_proto sg n r0 cps d0).
Proof. exact disk_invariant. Qed.

(* The seed schedule (`C25_rng_schedule` of the design): the list every run prepares -- a fresh run
   and a resumed one alike, the loop runs over range(total_iterations) whatever the first
   iteration to execute is -- holds at every index k < n the seed of the uninterrupted run,
   [sched k] = raw seed of the last iteration <= k with fresh_stochasticity True (also inside a chain
   of consecutive non-fresh iterations).  [tst], the trajectory of C25_resume_equiv, is defined
   with [step i (sched i)]. *)
Theorem C25_rng_schedule :
  forall (Seed : Type) (raw : nat -> Seed) (fresh : nat -> bool), fresh 0 = true ->
  forall n, exists sq, prepare Seed raw fresh n 0 (raws Seed raw n) = Some sq /\
                       forall k, k < n -> seed_at Seed raw sq k = sched Seed raw fresh k.
Proof. intros Seed raw fresh H0 n. exact (prepare_all_sched Seed raw fresh H0 n). Qed.

Theorem C25_sched_spec :
  forall (Seed : Type) (raw : nat -> Seed) (fresh : nat -> bool) (k : nat),
    sched Seed raw fresh (S k) = if fresh (S k) then raw (S k) else sched Seed raw fresh k.
Proof. reflexivity. Qed.

(* The state an iteration draws from is its own seed sequence only: the operations and the outcome
   of a run of the code as it is do not depend on the state of the process-wide base generator
   nor on how an iteration would use it -- whatever changes between iterations (the likelihood and
   its domain, the number of samples, the minimisers) is inside the arbitrary function [step i],
   which gets the iteration index, the iteration's seed and the previous state, and nothing else. *)
Theorem C25_base_generator_unused :
  forall (M R E H Seed G : Type) (step : nat -> Seed -> St M R -> St M R) (estep : nat -> St M R -> E -> E)
         (hstep : nat -> St M R -> H -> H) (init : St M R) (e0 : E) (h0 : H)
         (raw : nat -> Seed) (fresh : nat -> bool) (sg : strategy)
         (g0 g0' : G) (lstep lstep' : nat -> Seed -> G -> St M R -> St M R * G)
         (r : bool) (n : nat) (d : disk M R E H),
    run M R E H Seed G step estep hstep init e0 h0 raw fresh g0 lstep fixed_proto sg r n d =
    run M R E H Seed G step estep hstep init e0 h0 raw fresh g0' lstep' fixed_proto sg r n d.
Proof. exact base_generator_unused. Qed.

(* ---- documentation of the defects of the OLD protocol (before C25-1 / C25-2), on the instance
   the correspondence check runs (2 iterations, 2 residual files per iteration); each witness was
   replayed on the unfixed implementation (corpus/C25) ---- *)
Definition old_outcome (sg : strategy) (pr : proto) (k : nat) :=
  snd (irun pr sg [2; 2] [] true 2 (ichain pr sg [2; 2] [] 2 false [(k, true)] [])).
Definition reference (sg : strategy) (pr : proto) := snd (irun pr sg [2; 2] [] false 2 []).

(* OLD protocol, any strategy: killed between the truncation and the write of the marker
   (16 operations in) -> the marker is empty and resume raises. *)
Theorem C25_old_marker_torn_refuted :
  old_outcome SAll old_proto 16 = Stuck /\ old_outcome SLatest old_proto 16 = Stuck.
Proof. split; vm_compute; reflexivity. Qed.

(* OLD protocol: the marker is written BEFORE the energy / minisanity history it promises:
   killed right after the marker of iteration 0 was closed (18 operations in) -> resume raises. *)
Theorem C25_old_marker_first_refuted :
  old_outcome SAll old_proto 18 = Stuck /\ old_outcome SAll old_proto 24 = Stuck.
Proof. split; vm_compute; reflexivity. Qed.

(* OLD protocol, strategy latest: the files of the last finished iteration are overwritten in
   place while the marker still points at them: killed inside -> resume raises (33) or, once all
   samples and the mean are new but the marker is old (43), resumes SILENTLY from a state that
   is not the one the marker promises and returns a different result. *)
Theorem C25_old_latest_refuted :
  old_outcome SLatest old_proto 33 = Stuck /\
  exists st ref, old_outcome SLatest old_proto 43 = Ok st /\ reference SLatest old_proto = Ok ref /\
                 st_eqb st ref = false.
Proof. split; [vm_compute; reflexivity | ]. eexists. eexists. split; [ | split]; vm_compute; reflexivity. Qed.

(* The same witnesses are harmless for the code as it is. *)
Example C25_fixed_instance :
  forallb (fun k => match old_outcome SAll fixed_proto k, reference SAll fixed_proto with
                    | Ok a, Ok b => st_eqb a b | _, _ => false end) [16; 18; 24; 33; 43] = true /\
  forallb (fun k => match old_outcome SLatest fixed_proto k, reference SLatest fixed_proto with
                    | Ok a, Ok b => st_eqb a b | _, _ => false end) [16; 18; 24; 33; 43; 47; 58] = true.
Proof. split; vm_compute; reflexivity. Qed.

(* A variant that prepares the seed schedule only from initial_index on (cut_schedule_proto; not
   the history of the code, kept as the witness that the schedule matters): 4 iterations,
   fresh_stochasticity = [True, True, False, False]; killed right after the marker of iteration 2
   (the first of the two non-fresh iterations) was moved into place -> the restart re-runs
   iteration 3 with the raw seed of iteration 2 instead of the chained seed of iteration 1: it
   finishes, but with a different result.  The code as it is returns the reference. *)
Definition cut_outcome (pr : proto) (k : nat) :=
  snd (irun pr SAll [2; 2; 2; 2] [true; true; false; false] true 4
         (ichain pr SAll [2; 2; 2; 2] [true; true; false; false] 4 false [(k, true)] [])).
Definition cut_reference (pr : proto) := snd (irun pr SAll [2; 2; 2; 2] [true; true; false; false] false 4 []).

Theorem C25_cut_schedule_refuted :
  exists k st ref, cut_outcome cut_schedule_proto k = Ok st /\ cut_reference cut_schedule_proto = Ok ref /\
                   st_eqb st ref = false.
Proof. exists 86. eexists. eexists. split; [ | split]; vm_compute; reflexivity. Qed.

Example C25_cut_schedule_fixed :
  match cut_outcome fixed_proto 86, cut_reference fixed_proto with Ok a, Ok b => st_eqb a b | _, _ => false end = true.
Proof. vm_compute. reflexivity. Qed.

(* A variant that enters the stochasticity context of an iteration late (late_push_proto, = seeded
   mutation C25-r3m1; not the history of the code): draws made before `push_sseq` come from the
   process-wide base generator, which an uninterrupted run advances from iteration to iteration
   but the resume branch resets to the saved state.  Killed right after the marker of iteration 0
   was moved into place -> the restart finishes with a different result. *)
Definition late_outcome (pr : proto) (k : nat) :=
  snd (irun pr SAll [2; 2] [] true 2 (ichain pr SAll [2; 2] [] 2 false [(k, true)] [])).
Definition late_reference (pr : proto) := snd (irun pr SAll [2; 2] [] false 2 []).

Theorem C25_late_push_refuted :
  exists k st ref, late_outcome late_push_proto k = Ok st /\ late_reference late_push_proto = Ok ref /\
                   st_eqb st ref = false.
Proof. exists 30. eexists. eexists. split; [ | split]; vm_compute; reflexivity. Qed.

Example C25_late_push_fixed :
  match late_outcome fixed_proto 30, late_reference fixed_proto with Ok a, Ok b => st_eqb a b | _, _ => false end = true.
Proof. vm_compute. reflexivity. Qed.
