(* C22 -- property theorems only. *)
From Coq Require Import List ZArith Bool Lia.
Import ListNotations.
Require Import NV.Base.Trace.
Require Import NV.C26.Prelude NV.C26.Gen_helpers NV.C26.Model NV.C26.ProofsShare NV.C26.ProofsMain.
Require Import NV.C23.Model NV.C23.Proofs.
Require Import NV.C22.Model NV.C22.Proofs.
Open Scope Z_scope.

(* shareRange (translated text) partitions [0, nwork) over nshares > 0 shares, for every nwork >= 0
   -- also when nshares > nwork (then some ranges are empty): the first range starts at 0, each
   range ends where the next starts, the last ends at nwork, ranges are ordered (lo <= hi), and
   every size is nwork/nshares or one more (the first nwork mod nshares shares get the extra
   item), so sizes differ by at most one. *)
Theorem C22_sharerange_partition :
  forall nwork nshares : Z, 0 <= nwork -> 0 < nshares ->
    sr_lo nwork nshares 0 = 0 /\
    sr_hi nwork nshares (nshares - 1) = nwork /\
    (forall r, 0 <= r < nshares ->
       sr_hi nwork nshares r = sr_lo nwork nshares (r + 1) /\
       0 <= sr_lo nwork nshares r <= sr_hi nwork nshares r /\
       sr_hi nwork nshares r - sr_lo nwork nshares r =
         nwork / nshares + (if r <? nwork mod nshares then 1 else 0)) /\
    concat (map (fun r => zrange (sr_lo nwork nshares r) (sr_hi nwork nshares r)) (zrange 0 nshares))
      = zrange 0 nwork.
Proof.
  intros nwork nshares Hn Hs. split; [now apply sr_first|]. split.
  - rewrite sr_contiguous by lia. replace (nshares - 1 + 1) with nshares by lia. now apply sr_last.
  - split; [|now apply ranges_concat]. intros r Hr. split; [apply sr_contiguous; lia|]. split.
    + split; [apply sr_lo_nonneg; lia|apply sr_mono; lia].
    + apply sr_size; lia.
Qed.

(* draw_samples: for every list of seed sequences, mirrored or not, every deterministic draw
   function and every post-processing (plain MGVI residual or the geoVI minimisation), the local
   lists of the tasks, concatenated in rank order, are exactly the single-process list of
   (sample, neg) -- for every number of tasks, including more tasks than samples and including a
   task whose range starts on the mirrored member of a pair (it redraws with the pair's seed). *)
Theorem C22_samples_independent :
  forall (S : Type) (s0 : S) (Y : Type) (draw : S -> Y) (Out : Type) (post : bool -> Y -> Out)
         (seeds : list S) (mirror : bool) (ntask : Z),
    0 < ntask ->
    concat (map (fun r => map (fun t => (fst (fst t), snd (fst t)))
                              (local_samples S s0 Y draw Out post seeds mirror ntask r)) (zrange 0 ntask))
    = global_samples S s0 Y draw Out post seeds mirror.
Proof. exact samples_independent. Qed.

(* Every reduction over the samples (KL value, gradient, metric application, averages:
   allreduce_sum of the per-sample terms) gives the single-process pairwise tree, for every magma
   (no associativity: same parenthesisation => bit-identical floats), every number of tasks (the
   samples being distributed by shareRange), every message multiplicity M >= 1. *)
Theorem C22_reductions_independent :
  forall (A : Type) (op : A -> A -> A) (vals : list A) (M B : nat) (ntask : Z),
    0 < ntask -> (1 <= M)%nat ->
    dist_run A op (share_part (Z.of_nat (length vals)) ntask) M B vals = seq_run A op vals.
Proof. exact reductions_independent. Qed.

(* ... and under EVERY interleaving of the tasks' programs with rendezvous sends (C23_value
   instantiated with the shareRange partition). *)
Theorem C22_reductions_any_schedule :
  forall (A : Type) (op : A -> A -> A) (vals : list A) (M B : nat) (ntask : Z)
         (p : Trace.pcfg (arr A) ev),
    0 < ntask -> (1 <= M)%nat ->
    let part := share_part (Z.of_nat (length vals)) ntask in
    Trace.psteps (arr A) ev (fire A op) (parts part)
      (Trace.pinit (arr A) ev (parts part) (G part M B) (map Some vals)) p ->
    (forall r, rems _ _ p r = []) ->
    st _ _ p = seq_run A op vals.
Proof.
  intros A op vals M B ntask p Ht HM part Hs Hr.
  apply (value A op part M B vals p); try assumption.
  - now apply share_part_nonempty.
  - unfold part. now apply share_part_sum.
Qed.

(* _compute_local_indices of a list distributed by shareRange gives every task exactly its
   shareRange range: the global indices used for the file names of save (C26) coincide with the
   ranges used by load and by draw_samples. *)
Theorem C22_indices_consistent :
  forall n ntask rank : Z, 0 <= n -> 0 < ntask -> 0 <= rank < ntask ->
    compute_local_indices (share_sizes n ntask) rank = zrange (sr_lo n ntask rank) (sr_hi n ntask rank).
Proof. exact indices_consistent. Qed.

(* non-vacuity: 3 mirrored pairs over 4 tasks; the last task starts on a mirrored member *)
Example C22_ex_mirrored :
  map (fun r => map (fun t => (fst (fst t), snd t))
         (local_samples Z 0 Z (fun s => s) (Z * bool) (fun n y => (y, n)) [10; 11; 12] true 4 r)) [0; 1; 2; 3]
  = [[((10, false), true); ((10, true), false)]; [((11, false), true); ((11, true), false)];
     [((12, false), true)]; [((12, true), true)]].
Proof. vm_compute. reflexivity. Qed.
