(* C22 -- lemmas: the samples and every reduction over them do not depend on the task count. *)
From Coq Require Import List ZArith Bool Lia ZifyBool.
Import ListNotations.
Require Import NV.C26.Prelude NV.C26.Gen_helpers NV.C26.Model NV.C26.ProofsShare NV.C26.ProofsMain.
Require Import NV.C23.Model NV.C23.Proofs.
Require Import NV.C22.Model.
Open Scope Z_scope.

(* ---- ranges of all tasks ---- *)
Lemma zrange_cons a b : a < b -> zrange a b = a :: zrange (a + 1) b.
Proof.
  intros H. rewrite <- (zrange_app a (a + 1) b) by lia. f_equal.
  unfold zrange. replace (Z.to_nat (a + 1 - a)) with 1%nat by lia. cbn. f_equal. lia.
Qed.

Lemma zrange_snoc a b : a <= b -> zrange a (b + 1) = zrange a b ++ [b].
Proof.
  intros H. rewrite <- (zrange_app a b (b + 1)) by lia. f_equal.
  rewrite zrange_cons by lia. unfold zrange. replace (Z.to_nat (b + 1 - (b + 1))) with 0%nat by lia. reflexivity.
Qed.

Lemma ranges_concat n ntask :
  0 <= n -> 0 < ntask ->
  concat (map (fun r => zrange (sr_lo n ntask r) (sr_hi n ntask r)) (zrange 0 ntask)) = zrange 0 n.
Proof.
  intros Hn Ht.
  assert (G : forall k, (k <= Z.to_nat ntask)%nat ->
     concat (map (fun r => zrange (sr_lo n ntask r) (sr_hi n ntask r)) (zrange 0 (Z.of_nat k)))
     = zrange 0 (sr_lo n ntask (Z.of_nat k))).
  { induction k as [|k IH]; intros Hk.
    - change (Z.of_nat 0) with 0. rewrite sr_first by assumption. reflexivity.
    - replace (Z.of_nat (S k)) with (Z.of_nat k + 1) by lia. rewrite zrange_snoc by lia.
      rewrite map_app, concat_app, IH by lia. cbn [map concat]. rewrite app_nil_r.
      rewrite <- sr_contiguous by lia. apply zrange_app. split.
      + apply sr_lo_nonneg; lia.
      + apply sr_mono; lia. }
  specialize (G (Z.to_nat ntask) ltac:(lia)). rewrite Z2Nat.id in G by lia. rewrite G.
  now rewrite sr_last by lia.
Qed.

(* ---- draw_samples ---- *)
Section Draw.
Variable Sd : Type.
Variable s0 : Sd.
Variable Y : Type.
Variable draw : Sd -> Y.
Variable Out : Type.
Variable post : bool -> Y -> Out.

Lemma nth_dup (seeds : list Sd) : forall k : nat,
  nth (2 * k + 1) (flat_map (fun s => [s; s]) seeds) s0 = nth (2 * k) (flat_map (fun s => [s; s]) seeds) s0.
Proof.
  induction seeds as [|s t IH]; intros k; cbn [flat_map app].
  - now destruct (2 * k + 1)%nat, (2 * k)%nat.
  - destruct k as [|k]; [reflexivity|].
    replace (2 * S k + 1)%nat with (S (S (2 * k + 1))) by lia.
    replace (2 * S k)%nat with (S (S (2 * k))) by lia. cbn [nth]. apply IH.
Qed.

Lemma pair_seed seeds i :
  0 <= i -> i mod 2 <> 0 ->
  seed_at Sd s0 (sseq_list Sd seeds true) i = seed_at Sd s0 (sseq_list Sd seeds true) (i - 1).
Proof.
  intros Hi Hodd. unfold seed_at, sseq_list.
  replace (Z.to_nat i) with (2 * Z.to_nat (i / 2) + 1)%nat by lia.
  replace (Z.to_nat (i - 1)) with (2 * Z.to_nat (i / 2))%nat by lia. apply nth_dup.
Qed.

Definition negf (mirror : bool) (i : Z) : bool := mirror && negb (i mod 2 =? 0).

Lemma task_loop_spec seeds mirror : forall (len : nat) (a : Z) (y : option Y),
  0 <= a ->
  (y = None \/ y = Some (draw (seed_at Sd s0 (sseq_list Sd seeds mirror) (a - 1)))) ->
  map (fun t => (fst (fst t), snd (fst t)))
      (task_loop Sd s0 Y draw Out post (sseq_list Sd seeds mirror) mirror (zrange a (a + Z.of_nat len)) y)
  = map (fun i => (post (negf mirror i) (draw (seed_at Sd s0 (sseq_list Sd seeds mirror) i)), negf mirror i))
        (zrange a (a + Z.of_nat len)).
Proof.
  induction len as [|len IH]; intros a y Ha Hy.
  - replace (a + Z.of_nat 0) with a by lia. unfold zrange. replace (Z.to_nat (a - a)) with 0%nat by lia. reflexivity.
  - rewrite zrange_cons by lia. cbn [task_loop map fst snd]. fold (negf mirror a).
    set (sseq := sseq_list Sd seeds mirror) in *.
    assert (E : (if negb (negf mirror a) || match y with None => true | Some _ => false end
                 then draw (seed_at Sd s0 sseq a)
                 else match y with Some v => v | None => draw (seed_at Sd s0 sseq a) end)
                = draw (seed_at Sd s0 sseq a)).
    { destruct (negf mirror a) eqn:N; cbn [negb orb]; [|reflexivity].
      destruct Hy as [->| ->]; [reflexivity|]. cbn.
      unfold negf in N. apply andb_true_iff in N. destruct N as [Nm No]. subst sseq. rewrite Nm.
      f_equal. symmetry. apply pair_seed; [assumption|lia]. }
    rewrite E. f_equal.
    replace (a + Z.of_nat (S len)) with (a + 1 + Z.of_nat len) by lia.
    apply IH; [lia|]. right. do 3 f_equal. lia.
Qed.

(* the local list of one task: the slice lo..hi of the global list *)
Lemma local_samples_spec seeds mirror ntask rank :
  0 < ntask -> 0 <= rank < ntask ->
  let n := Z.of_nat (length (sseq_list Sd seeds mirror)) in
  map (fun t => (fst (fst t), snd (fst t))) (local_samples Sd s0 Y draw Out post seeds mirror ntask rank)
  = map (fun i => (post (negf mirror i) (draw (seed_at Sd s0 (sseq_list Sd seeds mirror) i)), negf mirror i))
        (zrange (sr_lo n ntask rank) (sr_hi n ntask rank)).
Proof.
  intros Ht Hr n. unfold local_samples. fold n. unfold sr_lo, sr_hi.
  destruct (shareRange n ntask rank) as [lo hi] eqn:E. cbn [fst snd].
  assert (Hlo : 0 <= lo) by (pose proof (sr_lo_nonneg n ntask rank); unfold sr_lo in *; rewrite E in *; cbn in *; lia).
  assert (Hm : lo <= hi) by (pose proof (sr_mono n ntask rank); unfold sr_lo, sr_hi in *; rewrite E in *; cbn in *; lia).
  replace hi with (lo + Z.of_nat (Z.to_nat (hi - lo))) by lia.
  apply task_loop_spec; [assumption|now left].
Qed.

Lemma samples_independent seeds mirror ntask :
  0 < ntask ->
  concat (map (fun r => map (fun t => (fst (fst t), snd (fst t)))
                            (local_samples Sd s0 Y draw Out post seeds mirror ntask r)) (zrange 0 ntask))
  = global_samples Sd s0 Y draw Out post seeds mirror.
Proof.
  intros Ht. set (n := Z.of_nat (length (sseq_list Sd seeds mirror))).
  set (f := fun i => (post (negf mirror i) (draw (seed_at Sd s0 (sseq_list Sd seeds mirror) i)), negf mirror i)).
  rewrite (map_ext_in _ (fun r => map f (zrange (sr_lo n ntask r) (sr_hi n ntask r)))).
  - rewrite <- (map_map (fun r => zrange (sr_lo n ntask r) (sr_hi n ntask r)) (map f)).
    rewrite <- concat_map. rewrite ranges_concat by (unfold n; lia). reflexivity.
  - intros r Hr. apply In_zrange in Hr. apply local_samples_spec; lia.
Qed.
End Draw.

(* ---- reductions (allreduce_sum of C23) ---- *)
Lemma length_concat' {X} (ls : list (list X)) : length (concat ls) = list_sum (map (@length X) ls).
Proof. induction ls; cbn; [reflexivity|]. now rewrite app_length, IHls. Qed.

Lemma slice_length {X} (l : list X) ntask r :
  0 < ntask -> 0 <= r < ntask ->
  length (slice l ntask r) =
    Z.to_nat (sr_hi (Z.of_nat (length l)) ntask r - sr_lo (Z.of_nat (length l)) ntask r).
Proof.
  intros Ht Hr. unfold slice. set (n := Z.of_nat (length l)).
  pose proof (sr_lo_nonneg n ntask r ltac:(lia) ltac:(lia) ltac:(lia)).
  pose proof (sr_hi_le n ntask r ltac:(lia) ltac:(lia) ltac:(lia)).
  pose proof (sr_mono n ntask r ltac:(lia) ltac:(lia) ltac:(lia)).
  rewrite firstn_length, skipn_length. lia.
Qed.

Lemma share_part_sum {X} (l : list X) ntask :
  0 < ntask -> list_sum (share_part (Z.of_nat (length l)) ntask) = length l.
Proof.
  intros Ht. rewrite <- (slices_concat l ntask Ht) at 2. rewrite length_concat', map_map.
  unfold share_part, share_sizes. rewrite map_map. f_equal. apply map_ext_in.
  intros r Hr. apply In_zrange in Hr. rewrite slice_length by lia. reflexivity.
Qed.

Lemma share_part_nonempty n ntask : 0 < ntask -> share_part n ntask <> [].
Proof.
  intros Ht. unfold share_part, share_sizes. rewrite zrange_cons by lia. discriminate.
Qed.

Lemma reductions_independent (A : Type) (op : A -> A -> A) (vals : list A) (M B : nat) ntask :
  0 < ntask -> (1 <= M)%nat ->
  dist_run A op (share_part (Z.of_nat (length vals)) ntask) M B vals = seq_run A op vals.
Proof. intros Ht HM. apply dist_run_seq_run; [assumption|]. now apply share_part_sum. Qed.

(* ---- _compute_local_indices ---- *)
Lemma share_sizes_prefix n ntask : forall k : nat, 0 <= n -> 0 < ntask -> (k <= Z.to_nat ntask)%nat ->
  fold_right Z.add 0 (firstn k (share_sizes n ntask)) = sr_lo n ntask (Z.of_nat k).
Proof.
  intros k Hn Ht Hk. unfold share_sizes.
  rewrite <- (zrange_app 0 (Z.of_nat k) ntask) by lia. rewrite map_app.
  rewrite firstn_app. rewrite map_length, zrange_length.
  replace (k - Z.to_nat (Z.of_nat k - 0))%nat with 0%nat by lia. cbn [firstn]. rewrite app_nil_r.
  rewrite firstn_all2 by (rewrite map_length, zrange_length; lia).
  clear Hk. induction k as [|k IH].
  - change (Z.of_nat 0) with 0. rewrite sr_first by assumption. reflexivity.
  - replace (Z.of_nat (S k)) with (Z.of_nat k + 1) by lia. rewrite zrange_snoc by lia.
    rewrite map_app. cbn [map]. 
    assert (F : forall l x, fold_right Z.add 0 (l ++ [x]) = fold_right Z.add 0 l + x).
    { induction l; intros; cbn; [lia|]. rewrite IHl. lia. }
    rewrite F, IH. fold (sr_lo n ntask (Z.of_nat k)) (sr_hi n ntask (Z.of_nat k)).
    rewrite <- sr_contiguous by lia. lia.
Qed.

Lemma indices_consistent n ntask rank :
  0 <= n -> 0 < ntask -> 0 <= rank < ntask ->
  compute_local_indices (share_sizes n ntask) rank = zrange (sr_lo n ntask rank) (sr_hi n ntask rank).
Proof.
  intros Hn Ht Hr. unfold compute_local_indices.
  rewrite share_sizes_prefix by lia. rewrite Z2Nat.id by lia.
  assert (E : nth (Z.to_nat rank) (share_sizes n ntask) 0 = sr_hi n ntask rank - sr_lo n ntask rank).
  { unfold share_sizes. set (f := fun r => snd (shareRange n ntask r) - fst (shareRange n ntask r)).
    rewrite (nth_indep (map f (zrange 0 ntask)) 0 (f 0)) by (rewrite map_length, zrange_length; lia).
    rewrite map_nth. unfold zrange.
    rewrite (nth_indep _ 0 (0 + Z.of_nat 0)) by (rewrite map_length, seq_length; lia).
    rewrite (map_nth (fun i => 0 + Z.of_nat i)). rewrite seq_nth by lia.
    cbn [plus]. replace (0 + Z.of_nat (Z.to_nat rank)) with rank by lia. reflexivity. }
  rewrite E. f_equal. lia.
Qed.
