(* C22 -- executable model of the distribution of samples over MPI tasks (no proofs here).

   shareRange is the translated text of nifty/cl/utilities.py (coq/C26/Gen_helpers.v, regenerated
   from /repo on every run); allreduce_sum is the model of C23.

   nifty/cl/minimization/kl_energies.py, draw_samples:
       sseq = random.spawn_sseq(n_samples)
       if mirror_samples:
           sseq = reduce(lambda a, b: a+b, [[ss]*2 for ss in sseq])
       local_samples = [] ; local_neg = [] ; y = None
       ntask, rank, _ = get_MPI_params_from_comm(comm)
       for i in range( *shareRange(len(sseq), ntask, rank)):
           with random.Context(sseq[i]):
               neg = mirror_samples and (i % 2 != 0)
               if not neg or y is None:  # we really need to draw a sample
                   y, yi = met.special_draw_sample(True, device_id=device_id)
               if geometric:
                   ... en, _ = minimizer(en)
                   local_samples.append(en.position - sam_position) ; local_neg.append(False)
               else:
                   local_samples.append(yi) ; local_neg.append(neg)
       return ResidualSampleList(position, local_samples, local_neg, comm)

   nifty/cl/minimization/sample_list.py:
       def _compute_local_indices(n_local, comm):
           if comm is None: return range(n_local)
           n_locals = comm.allgather(n_local)
           start = sum(n_locals[:comm.Get_rank()])
           return range(start, start + n_local) *)
From Coq Require Import List ZArith Bool.
Import ListNotations.
Require Import NV.C26.Prelude NV.C26.Gen_helpers NV.C26.Model.
Open Scope Z_scope.

Section Draw.
Variable S : Type.            (* a seed sequence *)
Variable s0 : S.              (* default for the totalised list access; never used (Proofs) *)
Variable Y : Type.            (* what one call of special_draw_sample returns: (y, yi) *)
Variable draw : S -> Y.       (* special_draw_sample executed under random.Context(seed) *)
Variable Out : Type.
Variable post : bool -> Y -> Out.   (* what is appended for (neg, draw): yi / the geoVI minimisation *)

(* [[ss]*2 for ss in sseq] concatenated *)
Definition sseq_list (seeds : list S) (mirror : bool) : list S :=
  if mirror then flat_map (fun s => [s; s]) seeds else seeds.

Definition seed_at (sseq : list S) (i : Z) : S := nth (Z.to_nat i) sseq s0.

(* the loop body over this task's indices; y = the cached draw.  Each step records the
   appended sample, the neg flag and whether special_draw_sample was called. *)
Fixpoint task_loop (sseq : list S) (mirror : bool) (idxs : list Z) (y : option Y)
  : list (Out * bool * bool) :=
  match idxs with
  | [] => []
  | i :: rest =>
      let neg := mirror && negb (i mod 2 =? 0) in
      let need := negb neg || (match y with None => true | Some _ => false end) in
      let yv := if need then draw (seed_at sseq i) else (match y with Some v => v | None => draw (seed_at sseq i) end) in
      (post neg yv, neg, need) :: task_loop sseq mirror rest (Some yv)
  end.

Definition local_samples (seeds : list S) (mirror : bool) (ntask rank : Z) : list (Out * bool * bool) :=
  let sseq := sseq_list seeds mirror in
  let '(lo, hi) := shareRange (Z.of_nat (length sseq)) ntask rank in
  task_loop sseq mirror (zrange lo hi) None.

(* the single-process list *)
Definition global_samples (seeds : list S) (mirror : bool) : list (Out * bool) :=
  let sseq := sseq_list seeds mirror in
  map (fun i => (post (mirror && negb (i mod 2 =? 0)) (draw (seed_at sseq i)), mirror && negb (i mod 2 =? 0)))
      (zrange 0 (Z.of_nat (length sseq))).
End Draw.

(* _compute_local_indices *)
Definition compute_local_indices (n_locals : list Z) (rank : Z) : list Z :=
  let start := fold_right Z.add 0 (firstn (Z.to_nat rank) n_locals) in
  zrange start (start + nth (Z.to_nat rank) n_locals 0).

(* the per-task sample counts of a list of n samples distributed by shareRange *)
Definition share_sizes (n ntask : Z) : list Z :=
  map (fun r => snd (shareRange n ntask r) - fst (shareRange n ntask r)) (zrange 0 ntask).
Definition share_part (n ntask : Z) : list nat := map Z.to_nat (share_sizes n ntask).

(* ---- comparisons for the correspondence ---- *)
(* observed per task and local sample: (k, sgn, flag) where k is the number of the draw (pair)
   the sample stems from, sgn whether it is the mirrored member, flag the stored neg flag
   (non-geometric runs store yi with flag neg; geometric runs store the minimised sample with flag
   False); further the number of special_draw_sample calls of the task and its local_indices *)
Definition obs3_eqb (a b : Z * bool * bool) : bool :=
  (fst (fst a) =? fst (fst b)) && Bool.eqb (snd (fst a)) (snd (fst b)) && Bool.eqb (snd a) (snd b).

Definition task_obs_ok (ndraws : nat) (mirror geo : bool) (ntask rank : Z)
           (obs : list (Z * bool * bool)) (ncalls : Z) (lidx : list Z) : bool :=
  let seeds := map Z.of_nat (seq 0 ndraws) in
  let l := local_samples Z 0 Z (fun s => s) (Z * bool) (fun neg y => (y, neg)) seeds mirror ntask rank in
  let n := Z.of_nat (length (sseq_list Z seeds mirror)) in
  list_eqb obs3_eqb
           (map (fun t => (fst (fst (fst t)), snd (fst (fst t)), if geo then false else snd (fst t))) l) obs &&
  (Z.of_nat (length (filter (fun t => snd t) l)) =? ncalls) &&
  list_eqb Z.eqb (compute_local_indices (share_sizes n ntask) rank) lidx.
