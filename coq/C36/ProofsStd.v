(* C36 -- lemmas about the JAX sample standard deviation (population variance over the samples). *)
From Coq Require Import List ZArith Bool Lia QArith Qcanon Field.
Import ListNotations.
Require Import NV.C26.Prelude NV.C26.ProofsStat NV.C36.Model NV.C36.Proofs.
Open Scope Qc_scope.

Lemma qofZ_1 : Model.qofZ 1 = 1.
Proof. apply Qc_is_canon. reflexivity. Qed.

Lemma ovar_single x : ovar [Some x] = Some 0.
Proof.
  unfold ovar, omean. cbn [osum length map option_map Z.of_nat Pos.of_succ_nat].
  rewrite qofZ_1. cbn [osum map option_map length Z.of_nat Pos.of_succ_nat].
  try rewrite qofZ_1. f_equal. field. discriminate.
Qed.

Lemma ovar_none_l l : ovar (None :: l) = None.
Proof. reflexivity. Qed.

Lemma jax_rcs_var_one cplx l :
  has_nan l = false -> jax_rcs_var cplx [l] = Some 0.
Proof.
  intros H. unfold jax_rcs_var. cbn [map]. unfold jax_sample. rewrite H. cbn [j_rcs].
  apply ovar_single.
Qed.

Lemma jax_rcs_var_one_nan cplx l :
  has_nan l = true -> jax_rcs_var cplx [l] = None.
Proof.
  intros H. unfold jax_rcs_var. cbn [map]. unfold jax_sample. rewrite H. reflexivity.
Qed.

(* ---- the spread as mean squared deviation; non-negativity ---- *)
Definition sqdev (m v : Qc) : Qc := (v - m) * (v - m).

Lemma ovar_some xs : ovar (map Some xs) = Some (qmean (map (sqdev (qmean xs)) xs)).
Proof.
  unfold ovar. rewrite omean_some. rewrite map_map.
  rewrite (map_ext _ (fun x => Some (sqdev (qmean xs) x))) by reflexivity.
  apply (omean_some_map (sqdev (qmean xs)) xs).
Qed.

Lemma osum_all_some l s : osum l = Some s -> exists xs, l = map Some xs.
Proof.
  revert s. induction l as [|[x|] l IH]; intros s H.
  - exists []. reflexivity.
  - cbn in H. destruct (osum l) eqn:E; [|discriminate]. destruct (IH _ eq_refl) as [xs ->].
    exists (x :: xs). reflexivity.
  - discriminate.
Qed.

Lemma qsum_sq_nonneg m xs : 0 <= qsum (map (sqdev m) xs).
Proof.
  induction xs as [|x xs IH]; cbn; [apply Qcle_refl|].
  unfold sqdev at 1. 
  assert (H : 0 <= (x - m) * (x - m)).
  { destruct (Qclt_le_dec (x - m) 0) as [L|L].
    - replace ((x - m) * (x - m)) with ((- (x - m)) * (- (x - m))) by ring.
      assert (0 <= - (x - m)). { apply Qclt_le_weak in L. apply Qcopp_le_compat in L. exact L. }
      replace 0 with (0 * - (x - m)) by ring. apply Qcmult_le_compat_r; assumption.
    - replace 0 with (0 * (x - m)) by ring. apply Qcmult_le_compat_r; assumption. }
  replace 0 with (0 + 0) by ring. apply Qcplus_le_compat; assumption.
Qed.

Lemma qlen_nonneg {X} (xs : list X) : 0 <= Model.qofZ (Z.of_nat (length xs)).
Proof.
  unfold Model.qofZ, Qcle. cbn [this Q2Qc]. rewrite !Qred_correct. unfold Qle, inject_Z. cbn [Qnum Qden]. lia.
Qed.

Lemma ovar_nonneg l v : ovar l = Some v -> 0 <= v.
Proof.
  unfold ovar. destruct (omean l) as [m|] eqn:E; [|discriminate].
  unfold omean in E. destruct (osum l) as [s|] eqn:Es; [|discriminate].
  destruct (osum_all_some _ _ Es) as [xs ->].
  rewrite map_map. rewrite (map_ext _ (fun x => Some (sqdev m x))) by reflexivity.
  rewrite (omean_some_map (sqdev m) xs). intros [= <-].
  unfold qmean. rewrite qlen_map.
  pose proof (qsum_sq_nonneg m xs) as Hs. pose proof (qlen_nonneg xs) as Hn.
  destruct (Qc_eq_dec (Model.qofZ (Z.of_nat (length xs))) 0) as [Z0|NZ].
  - rewrite Z0. unfold Qcdiv. replace (/ 0) with 0 by reflexivity. rewrite Qcmult_0_r. apply Qcle_refl.
  - destruct (Qcle_lt_or_eq _ _ Hn) as [L|Eq]; [|congruence].
    apply (Qcmult_lt_0_le_reg_r _ _ _ L).
    replace (0 * Model.qofZ (Z.of_nat (length xs))) with 0 by ring.
    replace (qsum (map (sqdev m) xs) / Model.qofZ (Z.of_nat (length xs)) * Model.qofZ (Z.of_nat (length xs)))
      with (qsum (map (sqdev m) xs)) by (field; exact NZ).
    exact Hs.
Qed.
