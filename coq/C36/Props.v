(* C36 -- property theorems only. *)
From Coq Require Import List ZArith Bool QArith Qcanon.
Import ListNotations.
Require Import NV.C26.Prelude NV.C26.Gen_helpers NV.C26.Model NV.C26.ProofsStat.
Require Import NV.C36.Model NV.C36.Proofs NV.C36.ProofsStd.
Open Scope Qc_scope.

(* Classic minisanity, one key and one sample, for EVERY residual array (real or complex entries,
   any number of NaNs and exact zeros, also all ignored, also empty): the reduced chi^2 is the
   arithmetic mean of |r|^2 and the mean is the arithmetic mean of r over the entries that are
   neither NaN nor exactly zero (0 if there is none); ndof is their number and nigndof the number
   of the others (so ndof + nigndof = size). *)
Theorem C36_classic_sample :
  forall l : list entry,
    classic_sample l =
      mk_cstat (qmean (map abs2 (kept l))) (qmean (map re_of (kept l))) (qmean (map im_of (kept l)))
               (Z.of_nat (length (kept l))) (size l - Z.of_nat (length (kept l)))%Z.
Proof. exact classic_sample_spec. Qed.

Theorem C36_classic_counts :
  forall l : list entry,
    (c_ndof (classic_sample l) + c_nig (classic_sample l) = size l)%Z /\
    c_nig (classic_sample l) = (count is_nan l + count is_zero l)%Z.
Proof.
  intros l. split; [rewrite classic_sample_spec; cbn [c_ndof c_nig]; ring | reflexivity].
Qed.

(* The totalised division x/0 of the model is never a division of a non-zero number: when no entry
   is kept, both numerators are 0 (the source's `tmp == 0 and lsize == 0` branch is taken). *)
Theorem C36_classic_no_division_by_zero :
  forall l : list entry,
    c_ndof (classic_sample l) = 0%Z -> nansum_abs2 l = 0 /\ nansum_re l = 0 /\ nansum_im l = 0.
Proof. exact classic_no_div0. Qed.

(* Classic minisanity, one key, all samples (>= 1): no exception; the reported reduced chi^2 and
   mean are the arithmetic means over the samples of the per-sample values above (through the
   translated StatCalculator, C26_welford); the reported counts are those of the LAST sample. *)
Theorem C36_classic_sample_average :
  forall samples : list (list entry), samples <> [] ->
    exists r, classic_key samples = Ret r /\
      r_rcs r = qmean (map (fun l => qmean (map abs2 (kept l))) samples) /\
      r_re r = qmean (map (fun l => qmean (map re_of (kept l))) samples) /\
      r_im r = qmean (map (fun l => qmean (map im_of (kept l))) samples) /\
      r_ndof r = Z.of_nat (length (kept (last samples []))) /\
      r_nig r = (size (last samples []) - Z.of_nat (length (kept (last samples []))))%Z.
Proof. exact classic_key_spec. Qed.

(* JAX _residual_params: a NaN entry makes mean and reduced chi^2 NaN; otherwise mean = sum/size
   and reduced chi^2 = sum |r|^2 / ndof with ndof = size (real dtype) or 2*size (complex dtype);
   exact zeros are not ignored and no ignored-entry count exists. *)
Theorem C36_jax_sample :
  forall (cplx : bool) (l : list entry),
    (has_nan l = true -> j_mean (jax_sample cplx l) = None /\ j_rcs (jax_sample cplx l) = None) /\
    (has_nan l = false ->
     jax_sample cplx l =
       mk_jstat (Some (nansum_re l / Model.qofZ (size l), nansum_im l / Model.qofZ (size l)))
                (Some (nansum_abs2 l / Model.qofZ (if cplx then 2 * size l else size l)%Z))
                (if cplx then 2 * size l else size l)%Z).
Proof. intros cplx l. exact (conj (jax_sample_nan cplx l) (jax_sample_clean cplx l)). Qed.

(* JAX red_chisq_stat, second entry of reduced_chisq (jnp.std over the sample axis, modelled
   squared as the population variance): for EVERY single sample (MAP state, one-sample object;
   any size, real or complex dtype) without NaN the reported spread of the reduced chi^2 is
   exactly 0 (the docstring's "the second entry of this array is always zero"), and with a NaN
   entry it is NaN. *)
Theorem C36_jax_std_one_sample :
  forall (cplx : bool) (l : list entry),
    (has_nan l = false -> jax_rcs_var cplx [l] = Some 0) /\
    (has_nan l = true -> jax_rcs_var cplx [l] = None).
Proof. intros cplx l. exact (conj (jax_rcs_var_one cplx l) (jax_rcs_var_one_nan cplx l)). Qed.

(* For EVERY number of samples and all per-sample values (no NaN): the squared JAX spread is the
   arithmetic mean over the samples of the squared deviations from the sample mean (population
   variance, ddof = 0). *)
Theorem C36_jax_std_is_population_variance :
  forall xs : list Qc,
    ovar (map Some xs) = Some (qmean (map (sqdev (qmean xs)) xs)).
Proof. exact ovar_some. Qed.

(* Whatever the samples: the modelled squared spread is either NaN or non-negative (so the square
   root taken by jnp.std is of a non-negative number; the totalised division by a zero sample
   count yields 0 here and is never a negative value). *)
Theorem C36_jax_std_nonneg :
  forall (l : list (option Qc)) (v : Qc), ovar l = Some v -> 0 <= v.
Proof. exact ovar_nonneg. Qed.

(* Agreement -- PARTIAL (the property demands it for all inputs): on real residuals without NaNs
   and without exact zeros (non-empty arrays of one size, >= 1 samples) the classic and the JAX
   diagnostics report the same reduced chi^2, mean and ndof, and nothing is ignored. *)
Theorem C36_agree_partial :
  forall samples : list (list entry),
    samples <> [] -> (forall l, In l samples -> clean_real l) ->
    (forall l l', In l samples -> In l' samples -> length l = length l') ->
    exists r, classic_key samples = Ret r /\
      jr_rcs (jax_key false samples) = Some (r_rcs r) /\
      jr_re (jax_key false samples) = Some (r_re r) /\
      jr_im (jax_key false samples) = Some (r_im r) /\
      jr_ndof (jax_key false samples) = r_ndof r /\ r_nig r = 0%Z.
Proof. exact agree. Qed.

(* Outside that class the faithful models DISAGREE, i.e. the agreement clause of the property is
   refuted (known findings C36-F1, C36-F2; the witnesses are replayed on the implementations by
   the oracle): an exact zero (classic 1, JAX 1/2), a NaN (classic 1, JAX NaN), a complex entry
   (classic 2, JAX 1). *)
Theorem C36_agreement_refuted :
  (exists r, classic_key [[ev 1 0; ev 0 0]] = Ret r /\ this (r_rcs r) = 1%Q /\
             option_map this (jr_rcs (jax_key false [[ev 1 0; ev 0 0]])) = Some (1 # 2)%Q) /\
  (exists r, classic_key [[ev 1 0; ENan]] = Ret r /\ this (r_rcs r) = 1%Q /\
             jr_rcs (jax_key false [[ev 1 0; ENan]]) = None) /\
  (exists r, classic_key [[ev 1 1]] = Ret r /\ this (r_rcs r) = 2%Q /\
             option_map this (jr_rcs (jax_key true [[ev 1 1]])) = Some 1%Q).
Proof.
  repeat split; eexists; (split; [vm_compute; reflexivity|]); split; vm_compute; reflexivity.
Qed.

(* non-vacuity of the agreement theorem's hypotheses *)
Example C36_clean_real_inhabited : clean_real [ev 3 0; ev (-1 # 2) 0].
Proof.
  split; [discriminate|]. intros e [<-|[<-|[]]]; eexists; (split; [reflexivity|]); intro E;
    apply (f_equal this) in E; vm_compute in E; discriminate.
Qed.
