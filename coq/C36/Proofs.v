(* C36 -- lemmas about the diagnostics model. *)
From Coq Require Import List ZArith Bool Lia ZifyBool QArith Qcanon Field.
Import ListNotations.
Require Import NV.C26.Prelude NV.C26.Gen_helpers NV.C26.Model NV.C26.ProofsStat NV.C36.Model.

Open Scope Qc_scope.

Lemma qops_eq : qops = qc_ops.
Proof. reflexivity. Qed.

(* the entries that are not ignored *)
Definition kept (l : list entry) : list entry := filter (fun e => negb (ignored e)) l.
Definition abs2 (e : entry) : Qc := match e with ENan => 0 | EV re im => re * re + im * im end.
Definition re_of (e : entry) : Qc := match e with ENan => 0 | EV re _ => re end.
Definition im_of (e : entry) : Qc := match e with ENan => 0 | EV _ im => im end.
(* arithmetic mean; the empty mean is 0 (x/0 = 0 in Qc) *)
Definition qmean (xs : list Qc) : Qc := qsum xs / qlen xs.

Lemma Qc_eq_bool_true a b : Qc_eq_bool a b = true <-> a = b.
Proof. split; [apply Qc_eq_bool_correct|]. intros ->. unfold Qc_eq_bool. destruct (Qc_eq_dec b b); congruence. Qed.

Lemma is_zero_spec e : is_zero e = true <-> e = EV 0 0.
Proof.
  destruct e as [|re im]; cbn; [split; discriminate|]. rewrite andb_true_iff, !Qc_eq_bool_true.
  split; [intros [-> ->]; reflexivity|]. intros E; inversion E; auto.
Qed.

Lemma nansum_abs2_kept l : nansum_abs2 l = qsum (map abs2 (kept l)).
Proof.
  unfold nansum_abs2, kept, qsum. induction l as [|e l IH]; cbn [fold_right filter map]; [reflexivity|].
  destruct e as [|re im]; [cbn; exact IH|].
  change (ignored (EV re im)) with (is_zero (EV re im)). destruct (is_zero (EV re im)) eqn:Z; cbn [negb map fold_right abs2].
  - apply is_zero_spec in Z. inversion Z; subst. rewrite IH. ring.
  - rewrite IH. ring.
Qed.

Lemma nansum_re_kept l : nansum_re l = qsum (map re_of (kept l)).
Proof.
  unfold nansum_re, kept, qsum. induction l as [|e l IH]; cbn [fold_right filter map]; [reflexivity|].
  destruct e as [|re im]; [cbn; exact IH|].
  change (ignored (EV re im)) with (is_zero (EV re im)). destruct (is_zero (EV re im)) eqn:Z; cbn [negb map fold_right re_of].
  - apply is_zero_spec in Z. inversion Z; subst. rewrite IH. ring.
  - rewrite IH. ring.
Qed.

Lemma nansum_im_kept l : nansum_im l = qsum (map im_of (kept l)).
Proof.
  unfold nansum_im, kept, qsum. induction l as [|e l IH]; cbn [fold_right filter map]; [reflexivity|].
  destruct e as [|re im]; [cbn; exact IH|].
  change (ignored (EV re im)) with (is_zero (EV re im)). destruct (is_zero (EV re im)) eqn:Z; cbn [negb map fold_right im_of].
  - apply is_zero_spec in Z. inversion Z; subst. rewrite IH. ring.
  - rewrite IH. ring.
Qed.

Lemma lsize_kept l :
  (size l - count is_nan l - count is_zero l)%Z = Z.of_nat (length (kept l)).
Proof.
  unfold size, count, kept, ignored. induction l as [|e l IH]; cbn [filter length]; [reflexivity|].
  destruct e as [|re im]; cbn [is_nan orb negb].
  - cbn [is_zero length]. lia.
  - destruct (is_zero (EV re im)); cbn [negb length]; lia.
Qed.

Lemma nig_kept l :
  (count is_nan l + count is_zero l)%Z = (size l - Z.of_nat (length (kept l)))%Z.
Proof. rewrite <- lsize_kept. lia. Qed.

Lemma qlen_map {X} (f : X -> Qc) l : qlen (map f l) = Model.qofZ (Z.of_nat (length l)).
Proof. unfold qlen. now rewrite map_length. Qed.

(* one sample of one key: the reduced chi^2 is the mean of |r|^2 and the mean is the mean of r over
   the entries that are neither NaN nor exactly zero; ndof counts them, nigndof the others *)
Lemma classic_sample_spec l :
  classic_sample l =
    mk_cstat (qmean (map abs2 (kept l))) (qmean (map re_of (kept l))) (qmean (map im_of (kept l)))
             (Z.of_nat (length (kept l))) (size l - Z.of_nat (length (kept l)))%Z.
Proof.
  unfold classic_sample. rewrite lsize_kept, nig_kept.
  rewrite nansum_abs2_kept, nansum_re_kept, nansum_im_kept. unfold qmean. rewrite !qlen_map.
  destruct (kept l) as [|e k] eqn:K.
  - cbn [map length qsum fold_right]. change (Z.of_nat 0 =? 0)%Z with true.
    replace (Qc_eq_bool 0 0) with true by (symmetry; now apply Qc_eq_bool_true). cbn [andb].
    f_equal; unfold Qcdiv; ring.
  - replace (Z.of_nat (length (e :: k)) =? 0)%Z with false by (cbn [length]; lia).
    rewrite !andb_false_r. reflexivity.
Qed.

(* the `tmp == 0 and lsize == 0` branches: whenever lsize is 0 the numerators are 0, so the
   division by lsize is never a division of a non-zero number by zero *)
Lemma classic_no_div0 l :
  c_ndof (classic_sample l) = 0%Z -> nansum_abs2 l = 0 /\ nansum_re l = 0 /\ nansum_im l = 0.
Proof.
  rewrite classic_sample_spec. cbn [c_ndof]. intros H.
  rewrite nansum_abs2_kept, nansum_re_kept, nansum_im_kept.
  destruct (kept l); [cbn; auto|cbn [length] in H; lia].
Qed.

(* ---- the accumulator over the samples ---- *)
Lemma stat_spec xs :
  xs <> [] ->
  exists v, stat xs = Ret (qmean xs, v) /\
    ((2 <= length xs)%nat -> v = Some (qdev2 (qmean xs) xs / (qlen xs - 1))) /\
    (length xs = 1%nat -> v = None).
Proof.
  intros Hne. unfold stat. rewrite qops_eq.
  destruct (welford xs Hne) as (s & E & Ic & Em & _ & Ev). rewrite E. cbn [bind]. rewrite Em. cbn [bind].
  destruct (Nat.le_gt_cases 2 (length xs)) as [H2|H1].
  - rewrite (Ev H2). eexists. split; [reflexivity|]. split; [reflexivity|]. intros; lia.
  - unfold sc_var. rewrite Ic. replace (Z.of_nat (length xs) <? 2)%Z with true by lia.
    eexists. split; [reflexivity|]. split; [intros; lia|reflexivity].
Qed.

Lemma classic_key_spec samples :
  samples <> [] ->
  exists r, classic_key samples = Ret r /\
    r_rcs r = qmean (map (fun l => qmean (map abs2 (kept l))) samples) /\
    r_re r = qmean (map (fun l => qmean (map re_of (kept l))) samples) /\
    r_im r = qmean (map (fun l => qmean (map im_of (kept l))) samples) /\
    r_ndof r = Z.of_nat (length (kept (last samples []))) /\
    r_nig r = (size (last samples []) - Z.of_nat (length (kept (last samples []))))%Z.
Proof.
  intros Hne. unfold classic_key.
  assert (Hm : forall f : cstat -> Qc, map f (map classic_sample samples) <> []).
  { intros f. destruct samples; [contradiction|discriminate]. }
  destruct (stat_spec _ (Hm c_rcs)) as (v1 & E1 & _). rewrite E1. cbn [bind].
  destruct (stat_spec _ (Hm c_re)) as (v2 & E2 & _). rewrite E2. cbn [bind].
  destruct (stat_spec _ (Hm c_im)) as (v3 & E3 & _). rewrite E3. cbn [bind].
  eexists. split; [reflexivity|]. cbn [r_rcs r_re r_im r_ndof r_nig fst snd].
  rewrite !map_map.
  assert (L : last (map classic_sample samples) (mk_cstat 0 0 0 0%Z 0%Z) = classic_sample (last samples [])).
  { clear -Hne. induction samples as [|a [|b t] IH]; [contradiction|reflexivity|].
    change (last (map classic_sample (a :: b :: t)) (mk_cstat 0 0 0 0%Z 0%Z))
      with (last (map classic_sample (b :: t)) (mk_cstat 0 0 0 0%Z 0%Z)).
    rewrite IH by discriminate. reflexivity. }
  rewrite L. repeat split.
  - f_equal. apply map_ext. intros l. now rewrite classic_sample_spec.
  - f_equal. apply map_ext. intros l. now rewrite classic_sample_spec.
  - f_equal. apply map_ext. intros l. now rewrite classic_sample_spec.
  - now rewrite classic_sample_spec.
  - now rewrite classic_sample_spec.
Qed.

(* ---- JAX ---- *)
Lemma jax_sample_nan cplx l : has_nan l = true -> j_mean (jax_sample cplx l) = None /\ j_rcs (jax_sample cplx l) = None.
Proof. intros H. unfold jax_sample. rewrite H. auto. Qed.

Lemma jax_sample_clean cplx l :
  has_nan l = false ->
  jax_sample cplx l =
    mk_jstat (Some (nansum_re l / Model.qofZ (size l), nansum_im l / Model.qofZ (size l)))
             (Some (nansum_abs2 l / Model.qofZ (if cplx then 2 * size l else size l)%Z))
             (if cplx then 2 * size l else size l)%Z.
Proof. intros H. unfold jax_sample. rewrite H. reflexivity. Qed.

Lemma osum_some xs : osum (map Some xs) = Some (qsum xs).
Proof. induction xs; cbn; [reflexivity|]. now rewrite IHxs. Qed.

Lemma omean_some xs : omean (map Some xs) = Some (qmean xs).
Proof. unfold omean. rewrite osum_some, map_length. reflexivity. Qed.

Lemma omean_some_map {X} (f : X -> Qc) l : omean (map (fun x => Some (f x)) l) = Some (qmean (map f l)).
Proof. rewrite <- (map_map f Some). apply omean_some. Qed.

(* ---- agreement on clean real residuals ---- *)
Definition clean_real (l : list entry) : Prop :=
  l <> [] /\ forall e, In e l -> exists re, e = EV re 0 /\ re <> 0.

Lemma clean_kept l : clean_real l -> kept l = l /\ has_nan l = false.
Proof.
  intros [_ H]. induction l as [|e l IH]; [auto|].
  destruct (H e (or_introl eq_refl)) as (re & -> & Hre).
  destruct IH as [K N]; [intros; apply H; now right|].
  unfold kept, ignored in *. cbn [filter is_nan orb has_nan existsb].
  assert (Z : is_zero (EV re 0) = false).
  { destruct (is_zero (EV re 0)) eqn:Z; [|reflexivity]. apply is_zero_spec in Z. inversion Z. contradiction. }
  rewrite Z. cbn [negb]. rewrite K. split; [reflexivity|exact N].
Qed.

Lemma agree samples :
  samples <> [] -> (forall l, In l samples -> clean_real l) ->
  (forall l l', In l samples -> In l' samples -> length l = length l') ->
  exists r, classic_key samples = Ret r /\
    jr_rcs (jax_key false samples) = Some (r_rcs r) /\
    jr_re (jax_key false samples) = Some (r_re r) /\
    jr_im (jax_key false samples) = Some (r_im r) /\
    jr_ndof (jax_key false samples) = r_ndof r /\ r_nig r = 0%Z.
Proof.
  intros Hne Hc Hlen. destruct (classic_key_spec samples Hne) as (r & E & R1 & R2 & R3 & R4 & R5).
  exists r. split; [assumption|].
  assert (P : map (jax_sample false) samples =
              map (fun l => mk_jstat (Some (qmean (map re_of (kept l)), qmean (map im_of (kept l))))
                                     (Some (qmean (map abs2 (kept l)))) (Z.of_nat (length (kept l)))) samples).
  { apply map_ext_in. intros l Hl. destruct (clean_kept l (Hc l Hl)) as [K N].
    rewrite (jax_sample_clean false l N), K.
    rewrite nansum_abs2_kept, nansum_re_kept, nansum_im_kept, K. unfold qmean. rewrite !qlen_map. reflexivity. }
  unfold jax_key. rewrite P, !map_map. cbn [j_mean j_rcs j_ndof option_map fst snd].
  rewrite R1, R2, R3, R4, R5.
  rewrite !omean_some_map.
  assert (Hlast : In (last samples []) samples).
  { clear -Hne. induction samples as [|a [|b t] IH]; [contradiction|now left|].
    right. apply IH. discriminate. }
  destruct (clean_kept _ (Hc _ Hlast)) as [KL _].
  repeat split.
  - destruct samples as [|a t]; [contradiction|]. cbn [map].
    destruct (clean_kept a (Hc a (or_introl eq_refl))) as [Ka _]. rewrite Ka, KL.
    cbn [jr_ndof j_ndof]. f_equal. apply Hlen; [now left|assumption].
  - rewrite KL. unfold size. lia.
Qed.
