(* C36 -- executable model of the fit-quality diagnostics (no proofs in this file).

   Classic:  nifty/cl/extra.py  minisanity   (per key kk and sample ss):
       sskk = ss[kk].asnumpy()
       n_isnan = np.sum(np.isnan(sskk))
       n_iszero = np.sum(sskk == 0)
       lsize = sskk.size - n_isnan - n_iszero
       if (tmp:=np.nansum(abs(sskk) ** 2)) == 0 and lsize == 0:
           xredchisq[ii][kk].add(tmp)
       else:
           xredchisq[ii][kk].add(tmp / lsize)
       if (tmp:=np.nansum(sskk)) == 0 and lsize == 0:
           xscmean[ii][kk].add(tmp)
       else:
           xscmean[ii][kk].add(tmp / lsize)
       xndof[ii][kk] = lsize
       xnigndof[ii][kk] = n_isnan + n_iszero
   and after the loop over the samples
       rcs_mean = xredchisq[ii][kk].mean ; sc_mean = xscmean[ii][kk].mean
       try: rcs_std = np.sqrt(xredchisq[ii][kk].var) ... except RuntimeError: rcs_std = None
   The accumulators are StatCalculator objects: the translated code of C26 (Gen_helpers.v) is used.

   JAX:  nifty/re/minisanity.py
       def _residual_params(inp):
           ndof = inp.size if jnp.isrealobj(inp) else 2 * inp.size
           mean = jnp.sum(inp) / inp.size
           rchisq = jnp.vdot(inp, inp).real / ndof
           return mean, rchisq, ndof
       def red_chisq_stat(s):
           m, rx, nd = get_stats(s)                      (mapped over the sample axis)
           m = jnp.array([jnp.mean(m), jnp.std(m)])
           rx = jnp.array([jnp.mean(rx), jnp.std(rx)])
           return ChiSqStats(m, rx, nd[0])
   Only the [0] entries (sample means) and ndof are modelled; jnp.std is outside the property.

   Entries are exact rationals (real and imaginary part) or NaN; infinities are not modelled. *)
From Coq Require Import List ZArith Bool QArith Qabs Qcanon.
Import ListNotations.
Require Import NV.C26.Prelude NV.C26.Gen_helpers NV.C26.Model.

Inductive entry := ENan | EV (re im : Qc).

Definition qofZ (z : Z) : Qc := Q2Qc (inject_Z z).
Definition qops : fops Qc := mk_fops Qc 0%Qc 1%Qc Qcplus Qcminus Qcmult Qcdiv qofZ.

Open Scope Qc_scope.

Definition is_nan (e : entry) : bool := match e with ENan => true | EV _ _ => false end.
(* sskk == 0   (NaN == 0 is False) *)
Definition is_zero (e : entry) : bool :=
  match e with ENan => false | EV re im => Qc_eq_bool re 0 && Qc_eq_bool im 0 end.
Definition ignored (e : entry) : bool := is_nan e || is_zero e.

Definition count (f : entry -> bool) (l : list entry) : Z := Z.of_nat (length (filter f l)).
Definition size (l : list entry) : Z := Z.of_nat (length l).

(* np.nansum(abs(x) ** 2) *)
Definition nansum_abs2 (l : list entry) : Qc :=
  fold_right (fun e a => match e with ENan => a | EV re im => re * re + im * im + a end) 0 l.
(* np.nansum(x): real and imaginary part *)
Definition nansum_re (l : list entry) : Qc :=
  fold_right (fun e a => match e with ENan => a | EV re _ => re + a end) 0 l.
Definition nansum_im (l : list entry) : Qc :=
  fold_right (fun e a => match e with ENan => a | EV _ im => im + a end) 0 l.

Record cstat := mk_cstat { c_rcs : Qc; c_re : Qc; c_im : Qc; c_ndof : Z; c_nig : Z }.

(* one key, one sample *)
Definition classic_sample (l : list entry) : cstat :=
  let n_isnan := count is_nan l in
  let n_iszero := count is_zero l in
  let lsize := (size l - n_isnan - n_iszero)%Z in
  let tmp := nansum_abs2 l in
  let rcs := if Qc_eq_bool tmp 0 && (lsize =? 0)%Z then tmp else tmp / qofZ lsize in
  let tre := nansum_re l in
  let tim := nansum_im l in
  let z := Qc_eq_bool tre 0 && Qc_eq_bool tim 0 && (lsize =? 0)%Z in
  let mre := if z then tre else tre / qofZ lsize in
  let mim := if z then tim else tim / qofZ lsize in
  mk_cstat rcs mre mim lsize (n_isnan + n_iszero)%Z.

(* one StatCalculator fed with xs; (mean, Some var) or (mean, None) when var raises RuntimeError *)
Definition stat (xs : list Qc) : result (Qc * option Qc) :=
  bind (sc_add_all Qc qops (sc_init Qc qops) xs) (fun s =>
  bind (sc_mean Qc qops s) (fun m =>
  match sc_var Qc qops s with
  | Ret v => Ret (m, Some v)
  | Raise RuntimeError => Ret (m, None)
  | Raise e => Raise e
  | OutOfFuel => OutOfFuel
  end)).

Record creport := mk_creport {
  r_rcs : Qc; r_rcs_var : option Qc; r_re : Qc; r_im : Qc; r_re_var : option Qc; r_ndof : Z; r_nig : Z }.

(* one key, all samples (the list of per-sample arrays of that key, in iteration order).
   The mean of the complex accumulator is the pair of the means of its parts (its update
   `mean + delta*(1./count)` is linear with a real factor); its variance is reported for real
   residuals only. *)
Definition classic_key (samples : list (list entry)) : result creport :=
  let per := map classic_sample samples in
  bind (stat (map c_rcs per)) (fun a =>
  bind (stat (map c_re per)) (fun b =>
  bind (stat (map c_im per)) (fun c =>
  let lst := last per (mk_cstat 0 0 0 0%Z 0%Z) in
  Ret (mk_creport (fst a) (snd a) (fst b) (fst c) (snd b) (c_ndof lst) (c_nig lst))))).

(* ---- JAX ---- *)
Definition has_nan (l : list entry) : bool := existsb is_nan l.
Definition sum_abs2 := nansum_abs2.     (* used only when there is no NaN *)

Record jstat := mk_jstat { j_mean : option (Qc * Qc); j_rcs : option Qc; j_ndof : Z }.

Definition jax_sample (cplx : bool) (l : list entry) : jstat :=
  let ndof := if cplx then (2 * size l)%Z else size l in
  if has_nan l then mk_jstat None None ndof
  else mk_jstat (Some (nansum_re l / qofZ (size l), nansum_im l / qofZ (size l)))
                (Some (sum_abs2 l / qofZ ndof)) ndof.

Fixpoint osum (l : list (option Qc)) : option Qc :=
  match l with
  | [] => Some 0
  | None :: _ => None
  | Some x :: t => match osum t with Some s => Some (x + s) | None => None end
  end.

(* jnp.mean over the sample axis (NaN if any sample is NaN) *)
Definition omean (l : list (option Qc)) : option Qc :=
  match osum l with Some s => Some (s / qofZ (Z.of_nat (length l))) | None => None end.

Record jreport := mk_jreport { jr_re : option Qc; jr_im : option Qc; jr_rcs : option Qc; jr_ndof : Z }.

Definition jax_key (cplx : bool) (samples : list (list entry)) : jreport :=
  let per := map (jax_sample cplx) samples in
  mk_jreport (omean (map (fun s => option_map fst (j_mean s)) per))
             (omean (map (fun s => option_map snd (j_mean s)) per))
             (omean (map j_rcs per))
             (match per with s :: _ => j_ndof s | [] => 0%Z end).

(* jnp.std(rx) over the sample axis in red_chisq_stat:
       rx = jnp.array([jnp.mean(rx), jnp.std(rx)])
   jnp.std is the POPULATION standard deviation sqrt(mean(abs(x - x.mean())**2)) (ddof = 0);
   it is modelled squared (no square root over the rationals); NaN if any sample is NaN. *)
Definition ovar (l : list (option Qc)) : option Qc :=
  match omean l with
  | Some m => omean (map (option_map (fun v => (v - m) * (v - m))) l)
  | None => None
  end.

(* reduced_chisq[1] ** 2 of one key *)
Definition jax_rcs_var (cplx : bool) (samples : list (list entry)) : option Qc :=
  ovar (map (fun l => j_rcs (jax_sample cplx l)) samples).

(* ---- comparisons for the correspondence (exact rationals, explicit tolerance) ---- *)
Definition ev (re im : Q) : entry := EV (Q2Qc re) (Q2Qc im).

Definition close (tol : Q) (a : Qc) (b : Q) : bool := Qle_bool (Qabs (this a - b)) tol.
Definition oclose (tol : Q) (a : option Qc) (b : option Q) : bool :=
  match a, b with
  | Some x, Some y => close tol x y
  | None, None => true
  | _, _ => false
  end.

(* observed: redchisq mean, std^2 (None = std None), scmean re, im, std^2 (real residuals only),
   ndof, nigndof *)
Definition classic_ok (tol : Q) (samples : list (list entry))
           (rcs : Q) (rcs_var : option Q) (mre mim : Q) (re_var : option (option Q)) (ndof nig : Z) : bool :=
  match classic_key samples with
  | Ret r =>
      close tol (r_rcs r) rcs && oclose tol (r_rcs_var r) rcs_var &&
      close tol (r_re r) mre && close tol (r_im r) mim &&
      (match re_var with Some v => oclose tol (r_re_var r) v | None => true end) &&
      (r_ndof r =? ndof)%Z && (r_nig r =? nig)%Z
  | _ => false
  end.

(* observed: mean re, im, reduced chisq (None = NaN), ndof *)
Definition jax_ok (tol : Q) (cplx : bool) (samples : list (list entry))
           (mre mim rcs : option Q) (ndof : Z) : bool :=
  let r := jax_key cplx samples in
  oclose tol (jr_re r) mre && oclose tol (jr_im r) mim && oclose tol (jr_rcs r) rcs &&
  (jr_ndof r =? ndof)%Z.

(* observed: reduced_chisq[1] ** 2 (None = NaN) *)
Definition jax_var_ok (tol : Q) (cplx : bool) (samples : list (list entry)) (v : option Q) : bool :=
  oclose tol (jax_rcs_var cplx samples) v.
