(* C11 -- lemmas about the GENERATED per-pixel energies / transformations / metrics. *)
From Coq Require Import Reals Lra Lia.
From Coquelicot Require Import Coquelicot.
Require Import NV.Base.RealExpr NV.C11.Model NV.C11.Gen_Energies.
Open Scope R_scope.

Lemma sq_Derive (f : R -> R) x l : is_derive f x l -> (Derive f x) ^ 2 = l ^ 2.
Proof. intros H. rewrite (is_derive_unique _ _ _ H). reflexivity. Qed.

Lemma sqrt_sq x : 0 <= x -> sqrt x ^ 2 = x.
Proof. intros. replace (sqrt x ^ 2) with (sqrt x * sqrt x) by ring. apply sqrt_sqrt; auto. Qed.

(* ---------- Gaussian --------------------------------------------------------------------- *)
Lemma gauss_nll icov d x : 0 < icov ->
  gauss_quadform icov (gauss_residual d x) = - ln (gauss_pdf icov d x) + ln (sqrt (icov / (2 * PI))).
Proof.
  intros Hi. unfold gauss_quadform, gauss_residual, gauss_pdf.
  assert (0 < sqrt (icov / (2 * PI))).
  { apply sqrt_lt_R0. apply Rdiv_lt_0_compat; auto. pose proof PI_RGT_0. lra. }
  rewrite ln_mult; auto; [|apply exp_pos]. rewrite ln_exp. field.
Qed.

Lemma gauss_unit_nll d x :
  (1 / 2) * gauss_sqnorm (gauss_residual d x) = gauss_quadform 1 (gauss_residual d x).
Proof. unfold gauss_sqnorm, gauss_quadform. ring. Qed.

Lemma gauss_grad_ok icov d x :
  is_derive (fun y => gauss_quadform icov (gauss_residual d y)) x (gauss_grad icov d x).
Proof. unfold gauss_quadform, gauss_residual, gauss_grad. auto_derive; auto. field. Qed.

Lemma gauss_hess_ok icov d x : is_derive (fun y => gauss_grad icov d y) x icov.
Proof. unfold gauss_grad. auto_derive; auto. field. Qed.

(* ---------- Poisson ---------------------------------------------------------------------- *)
Lemma ln_pow_nat x (d : nat) : 0 < x -> ln (x ^ d) = INR d * ln x.
Proof.
  intros Hx. induction d. simpl. rewrite ln_1; ring.
  rewrite S_INR. simpl. rewrite ln_mult; auto. rewrite IHd. ring. apply pow_lt; auto.
Qed.

Lemma poisson_nll (d : nat) x : 0 < x ->
  poisson_E (INR d) x = - ln (poisson_pmf d x) - ln (INR (fact d)).
Proof.
  intros Hx. unfold poisson_E, poisson_pmf.
  assert (0 < x ^ d) by (apply pow_lt; auto).
  assert (0 < INR (fact d)) by (apply lt_0_INR, lt_O_fact).
  unfold Rdiv. rewrite ln_mult; [|apply Rmult_lt_0_compat; auto; apply exp_pos|apply Rinv_0_lt_compat; auto].
  rewrite ln_mult; auto; [|apply exp_pos]. rewrite ln_exp, ln_Rinv; auto.
  rewrite ln_pow_nat by auto. ring.
Qed.

Lemma poisson_grad_ok d x : 0 < x -> is_derive (fun y => poisson_E d y) x (poisson_grad d x).
Proof. intros. unfold poisson_E, poisson_grad. auto_derive. lra. field; lra. Qed.

Lemma poisson_hess_ok d x : 0 < x -> is_derive (fun y => poisson_grad d y) x (poisson_hess d x).
Proof. intros. unfold poisson_grad, poisson_hess. auto_derive. lra. field; lra. Qed.

Lemma poisson_pullback x : 0 < x -> (Derive poisson_t x) ^ 2 = 1 / x.
Proof.
  intros Hx. rewrite (sq_Derive _ _ (/ sqrt x)).
  - rewrite <- Rinv_pow by (apply Rgt_not_eq, sqrt_lt_R0; auto). rewrite sqrt_sq by lra. lra.
  - unfold poisson_t. auto_derive. lra. assert (0 < sqrt x) by (apply sqrt_lt_R0; auto). field; lra.
Qed.

Lemma poisson_fisher Ex x : expectation Ex -> 0 < x -> Ex (fun d => d) = x ->
  Ex (fun d => poisson_hess d x) = (Derive poisson_t x) ^ 2.
Proof.
  intros HE Hx Hm. rewrite poisson_pullback by auto.
  rewrite (ex_ext _ HE _ (fun d => 0 * d ^ 2 + / x ^ 2 * d + 0)).
  rewrite (ex_quad _ HE), Hm. field; lra.
  intros d. unfold poisson_hess. field; lra.
Qed.

(* ---------- Bernoulli -------------------------------------------------------------------- *)
Lemma bernoulli_nll (d : bool) x : 0 < x < 1 -> bernoulli_E (b2R d) x = - ln (bernoulli_pmf d x).
Proof. intros. unfold bernoulli_E, bernoulli_pmf, b2R. destruct d; ring. Qed.

Lemma bernoulli_grad_ok d x : 0 < x < 1 -> is_derive (fun y => bernoulli_E d y) x (bernoulli_grad d x).
Proof. intros. unfold bernoulli_E, bernoulli_grad. auto_derive. lra. field; lra. Qed.

Lemma bernoulli_hess_ok d x : 0 < x < 1 -> is_derive (fun y => bernoulli_grad d y) x (bernoulli_hess d x).
Proof. intros. unfold bernoulli_grad, bernoulli_hess. auto_derive. lra. field; lra. Qed.

Lemma bernoulli_t_derive x : 0 < x < 1 ->
  is_derive bernoulli_t x (/ (sqrt ((1 - x) / x) * x)).
Proof.
  intros [H0 H1]. unfold bernoulli_t.
  assert (Hq : 0 < (1 + -1 * x) * (1 / x)).
  { apply Rmult_lt_0_compat. lra. apply Rdiv_lt_0_compat; lra. }
  assert (Hs : 0 < sqrt ((1 + -1 * x) * (1 / x))) by (apply sqrt_lt_R0; auto).
  replace ((1 - x) / x) with ((1 + -1 * x) * (1 / x)) by (field; lra).
  auto_derive.
  - split; [lra|]. split; [|trivial]. unfold Rdiv in Hq. exact Hq.
  - unfold Rdiv in *. set (s := sqrt ((1 + -1 * x) * (1 * / x))) in *.
    assert (Es : s * s = (1 + -1 * x) * (1 * / x)) by (apply sqrt_sqrt; lra).
    assert (Es' : s * s * x = 1 - x) by (rewrite Es; field; lra).
    field_simplify; try lra.
    replace (2 * x ^ 2 * s ^ 3 + 2 * x ^ 2 * s) with (2 * x * s * (s * s * x) + 2 * x ^ 2 * s) by ring.
    rewrite Es'. assert (Hxs : 0 < x * s) by (apply Rmult_lt_0_compat; auto).
    replace (2 * x * s * (1 - x) + 2 * x ^ 2 * s) with (2 * (x * s)) by ring.
    field. split; lra.
Qed.

Lemma bernoulli_pullback x : 0 < x < 1 -> (Derive bernoulli_t x) ^ 2 = 1 / (x * (1 - x)).
Proof.
  intros Hx. rewrite (sq_Derive _ _ _ (bernoulli_t_derive x Hx)). destruct Hx as [H0 H1].
  assert (Hq : 0 < (1 - x) / x) by (apply Rdiv_lt_0_compat; lra).
  rewrite <- Rinv_pow. 2:{ apply Rgt_not_eq. apply Rmult_lt_0_compat; auto. apply sqrt_lt_R0; auto. }
  rewrite Rpow_mult_distr, sqrt_sq by lra. field; lra.
Qed.

(* Fisher information as a finite sum over the data space {0, 1} *)
Lemma bernoulli_fisher x : 0 < x < 1 ->
  bernoulli_pmf true x * bernoulli_hess (b2R true) x + bernoulli_pmf false x * bernoulli_hess (b2R false) x
  = (Derive bernoulli_t x) ^ 2.
Proof.
  intros Hx. rewrite bernoulli_pullback by auto. unfold bernoulli_pmf, bernoulli_hess, b2R. field; lra.
Qed.

(* the score has zero mean (gradient exactness sanity: sum_d p(d|x) dE/dx = 0) *)
Lemma bernoulli_score x : 0 < x < 1 ->
  bernoulli_pmf true x * bernoulli_grad (b2R true) x + bernoulli_pmf false x * bernoulli_grad (b2R false) x = 0.
Proof. intros. unfold bernoulli_pmf, bernoulli_grad, b2R. field; lra. Qed.

(* ---------- categorical (per category of a row; marginally Bernoulli(x)) ------------------- *)
Lemma categorical_nll (d : bool) x : 0 < x -> categorical_E (b2R d) x = - ln (if d then x else 1).
Proof. intros. unfold categorical_E, b2R. destruct d. ring. rewrite ln_1. ring. Qed.

Lemma categorical_grad_ok d x : 0 < x -> is_derive (fun y => categorical_E d y) x (categorical_grad d x).
Proof. intros. unfold categorical_E, categorical_grad. auto_derive. lra. field; lra. Qed.

Lemma categorical_hess_ok d x : 0 < x -> is_derive (fun y => categorical_grad d y) x (categorical_hess d x).
Proof. intros. unfold categorical_grad, categorical_hess. auto_derive. lra. field; lra. Qed.

Lemma categorical_pullback x : 0 < x -> (Derive categorical_t x) ^ 2 = 1 / x.
Proof. exact (poisson_pullback x). Qed.

Lemma categorical_fisher x : 0 < x ->
  x * categorical_hess (b2R true) x + (1 - x) * categorical_hess (b2R false) x = (Derive categorical_t x) ^ 2.
Proof. intros. rewrite categorical_pullback by auto. unfold categorical_hess, b2R. field; lra. Qed.

(* ---------- inverse gamma ---------------------------------------------------------------- *)
Lemma invgamma_nll alphap1 beta x : 0 < x ->
  invgamma_E alphap1 beta x = - ln (invgamma_kernel alphap1 beta x).
Proof.
  intros. unfold invgamma_E, invgamma_kernel.
  rewrite ln_mult; [|unfold Rpower; apply exp_pos|apply exp_pos].
  unfold Rpower. rewrite !ln_exp. field; lra.
Qed.

Lemma invgamma_grad_ok a b x : 0 < x -> is_derive (fun y => invgamma_E a b y) x (invgamma_grad a b x).
Proof. intros. unfold invgamma_E, invgamma_grad. auto_derive. split; [lra|]. split; [lra|trivial]. field; lra. Qed.

Lemma invgamma_hess_ok a b x : 0 < x -> is_derive (fun y => invgamma_grad a b y) x (invgamma_hess a b x).
Proof. intros. unfold invgamma_grad, invgamma_hess. auto_derive. split; [lra|]. split; [|trivial]. nra. field; lra. Qed.

Lemma invgamma_pullback a x : 0 <= a -> 0 < x -> (Derive (invgamma_t a) x) ^ 2 = a / x ^ 2.
Proof.
  intros Ha Hx. rewrite (sq_Derive _ _ (sqrt a / x)).
  - unfold Rdiv. rewrite Rpow_mult_distr, sqrt_sq by auto. rewrite Rinv_pow by lra. reflexivity.
  - unfold invgamma_t. auto_derive. lra. field; lra.
Qed.

Lemma invgamma_fisher Ex a x : expectation Ex -> 0 <= a -> 0 < x -> Ex (fun b => b) = a * x ->
  Ex (fun b => invgamma_hess a b x) = (Derive (invgamma_t a) x) ^ 2.
Proof.
  intros HE Ha Hx Hm. rewrite invgamma_pullback by auto.
  rewrite (ex_ext _ HE _ (fun b => 0 * b ^ 2 + (2 / x ^ 3) * b + (- a / x ^ 2))).
  rewrite (ex_quad _ HE), Hm. field; lra.
  intros b. unfold invgamma_hess. field; lra.
Qed.

(* ---------- Student-t -------------------------------------------------------------------- *)
Lemma studentt_nll theta x : 0 < theta -> studentt_E theta x = - ln (studentt_kernel theta x).
Proof. intros. unfold studentt_E, studentt_kernel, Rpower. rewrite ln_exp. ring. Qed.

Lemma studentt_grad_ok theta x : 0 < theta -> is_derive (fun y => studentt_E theta y) x (studentt_grad theta x).
Proof.
  intros. unfold studentt_E, studentt_grad.
  assert (0 <= x ^ 2) by apply pow2_ge_0.
  assert (0 < 1 + x ^ 2 / theta). { assert (0 <= x ^ 2 / theta). apply Rmult_le_pos; auto. left; apply Rinv_0_lt_compat; auto. lra. }
  auto_derive. simpl in *; lra. field. split; [|lra]. 
  replace (theta + x ^ 2) with (theta * (1 + x ^ 2 / theta)) by (field; lra). nra.
Qed.

Lemma studentt_pullback theta x : 0 < theta -> (Derive (studentt_t theta) x) ^ 2 = (theta + 1) / (theta + 3).
Proof.
  intros. rewrite (sq_Derive _ _ (sqrt ((theta + 1) / (theta + 3)))).
  - apply sqrt_sq. apply Rlt_le, Rdiv_lt_0_compat; lra.
  - unfold studentt_t. auto_derive; auto. field.
Qed.

(* ---------- variable-covariance Gaussian -------------------------------------------------- *)
Lemma vcg_real_nll r i : 0 < i -> vcg_real_E r i = - ln (vcg_real_pdf r i) + ln (sqrt (/ (2 * PI))).
Proof.
  intros Hi. unfold vcg_real_E, vcg_real_pdf. pose proof PI_RGT_0.
  assert (0 < / (2 * PI)) by (apply Rinv_0_lt_compat; lra).
  unfold Rdiv. rewrite sqrt_mult by lra.
  rewrite !ln_mult; try apply exp_pos; try (apply sqrt_lt_R0; auto).
  2:{ apply Rmult_lt_0_compat; apply sqrt_lt_R0; auto. }
  rewrite ln_exp. replace (ln (sqrt i)) with (ln i / 2). field.
  rewrite <- (sqrt_sq i) at 1 by lra. replace (sqrt i ^ 2) with (sqrt i * sqrt i) by ring.
  rewrite ln_mult by (apply sqrt_lt_R0; auto). lra.
Qed.

Lemma vcg_cplx_nll ra rb i : 0 < i -> vcg_cplx_E ra rb i = - ln (vcg_cplx_pdf ra rb i) + ln (/ (2 * PI)).
Proof.
  intros Hi. unfold vcg_cplx_E, vcg_cplx_pdf. pose proof PI_RGT_0.
  assert (0 < / (2 * PI)) by (apply Rinv_0_lt_compat; lra).
  unfold Rdiv. rewrite !ln_mult; try apply exp_pos; auto.
  2:{ apply Rmult_lt_0_compat; auto. }
  rewrite ln_exp. field.
Qed.

(* gradient and Hessian of the energies in (r, i) *)
Lemma vcg_real_derivs r i : 0 < i ->
  is_derive (fun y => vcg_real_E y i) r (vcg_real_grad_r r i) /\
  is_derive (fun j => vcg_real_E r j) i (vcg_real_grad_i r i) /\
  is_derive (fun y => vcg_real_grad_r y i) r (vcg_real_H_rr r i) /\
  is_derive (fun j => vcg_real_grad_r r j) i (vcg_real_H_ri r i) /\
  is_derive (fun y => vcg_real_grad_i y i) r (vcg_real_H_ri r i) /\
  is_derive (fun j => vcg_real_grad_i r j) i (vcg_real_H_ii r i).
Proof.
  intros Hi. unfold vcg_real_E, vcg_real_grad_r, vcg_real_grad_i, vcg_real_H_rr, vcg_real_H_ri, vcg_real_H_ii.
  split; [|split; [|split; [|split; [|split]]]].
  - auto_derive; auto. field.
  - auto_derive. lra. field; lra.
  - auto_derive; auto. field.
  - auto_derive; auto. field.
  - auto_derive; auto. field.
  - auto_derive. lra. field; lra.
Qed.

Lemma vcg_cplx_derivs ra rb i : 0 < i ->
  is_derive (fun y => vcg_cplx_E y rb i) ra (vcg_cplx_grad_a ra rb i) /\
  is_derive (fun y => vcg_cplx_E ra y i) rb (vcg_cplx_grad_a rb ra i) /\
  is_derive (fun j => vcg_cplx_E ra rb j) i (vcg_cplx_grad_i ra rb i) /\
  is_derive (fun y => vcg_cplx_grad_a y rb i) ra i /\
  is_derive (fun j => vcg_cplx_grad_a ra rb j) i ra /\
  is_derive (fun j => vcg_cplx_grad_i ra rb j) i (vcg_cplx_H_ii i).
Proof.
  intros Hi. unfold vcg_cplx_E, vcg_cplx_grad_a, vcg_cplx_grad_i, vcg_cplx_H_ii.
  split; [|split; [|split; [|split; [|split]]]].
  - auto_derive; auto. field.
  - auto_derive; auto. field.
  - auto_derive. lra. field; lra.
  - auto_derive; auto. field.
  - auto_derive; auto. field.
  - auto_derive. lra. field; lra.
Qed.

(* Fisher information = expectation of the Hessian over residuals with mean 0: the explicit metric *)
Lemma vcg_real_fisher Ex i : expectation Ex -> 0 < i -> Ex (fun r => r) = 0 ->
  Ex (fun r => vcg_real_H_rr r i) = vcg_real_M_r i /\
  Ex (fun r => vcg_real_H_ri r i) = 0 /\
  Ex (fun r => vcg_real_H_ii r i) = vcg_real_M_i i.
Proof.
  intros HE Hi Hm. unfold vcg_real_H_rr, vcg_real_H_ri, vcg_real_H_ii, vcg_real_M_r, vcg_real_M_i.
  split; [|split].
  - rewrite (ex_ext _ HE _ (fun r => 0 * r ^ 2 + 0 * r + i)) by (intros; ring). rewrite (ex_quad _ HE). ring.
  - rewrite (ex_ext _ HE _ (fun r => 0 * r ^ 2 + 1 * r + 0)) by (intros; ring). rewrite (ex_quad _ HE), Hm. ring.
  - rewrite (ex_ext _ HE _ (fun r => 0 * r ^ 2 + 0 * r + / (2 * i ^ 2))) by (intros; ring). rewrite (ex_quad _ HE). field; lra.
Qed.

Lemma vcg_cplx_fisher i : 0 < i -> vcg_cplx_M_r i = i /\ vcg_cplx_M_i i = vcg_cplx_H_ii i.
Proof. intros. unfold vcg_cplx_M_r, vcg_cplx_M_i, vcg_cplx_H_ii. split. reflexivity. field; lra. Qed.

(* Jacobian of the transformation (t_r, t_i) w.r.t. (r, i) *)
Lemma vcg_real_jac r i : 0 < i ->
  is_derive (fun y => vcg_real_t_r y i) r (sqrt i) /\
  is_derive (fun j => vcg_real_t_r r j) i (r / (2 * sqrt i)) /\
  is_derive vcg_real_t_i i (/ (2 * i)).
Proof.
  intros Hi. assert (0 < sqrt i) by (apply sqrt_lt_R0; auto). unfold vcg_real_t_r, vcg_real_t_i.
  split; [|split].
  - auto_derive; auto. field.
  - auto_derive. lra. field; lra.
  - auto_derive. lra. field; lra.
Qed.

(* Expected pull-back of the identity through the transformation over residuals with mean 0 and
   variance 1/i equals the explicit (full Fisher) metric: the transformation is a local
   approximation whose data average is exact. *)
Lemma vcg_real_expected_pullback Ex i : expectation Ex -> 0 < i ->
  Ex (fun r => r) = 0 -> Ex (fun r => r ^ 2) = / i ->
  Ex (fun r => Derive (fun y => vcg_real_t_r y i) r ^ 2) = vcg_real_M_r i /\
  Ex (fun r => Derive (fun y => vcg_real_t_r y i) r * Derive (fun j => vcg_real_t_r r j) i) = 0 /\
  Ex (fun r => Derive (fun j => vcg_real_t_r r j) i ^ 2 + Derive vcg_real_t_i i ^ 2) = vcg_real_M_i i.
Proof.
  intros HE Hi Hm Hv. assert (Hs : 0 < sqrt i) by (apply sqrt_lt_R0; auto).
  assert (Hss : sqrt i * sqrt i = i) by (apply sqrt_sqrt; lra).
  assert (D1 : forall r, Derive (fun y => vcg_real_t_r y i) r = sqrt i).
  { intros r. apply is_derive_unique. apply (vcg_real_jac r i Hi). }
  assert (D2 : forall r, Derive (fun j => vcg_real_t_r r j) i = r / (2 * sqrt i)).
  { intros r. apply is_derive_unique. apply (vcg_real_jac r i Hi). }
  assert (D3 : Derive vcg_real_t_i i = / (2 * i)).
  { apply is_derive_unique. apply (vcg_real_jac 0 i Hi). }
  unfold vcg_real_M_r, vcg_real_M_i. split; [|split].
  - rewrite (ex_ext _ HE _ (fun r => 0 * r ^ 2 + 0 * r + i)). rewrite (ex_quad _ HE). ring.
    intros r. rewrite D1. replace (sqrt i ^ 2) with (sqrt i * sqrt i) by ring. rewrite Hss. ring.
  - rewrite (ex_ext _ HE _ (fun r => 0 * r ^ 2 + / 2 * r + 0)). rewrite (ex_quad _ HE), Hm. ring.
    intros r. rewrite D1, D2. field; lra.
  - rewrite (ex_ext _ HE _ (fun r => / (4 * i) * r ^ 2 + 0 * r + / (4 * i ^ 2))).
    rewrite (ex_quad _ HE), Hv. field; lra.
    intros r. rewrite D2, D3. replace ((r / (2 * sqrt i)) ^ 2) with (r ^ 2 / (4 * (sqrt i * sqrt i))) by (field; lra).
    rewrite Hss. field; lra.
Qed.

Lemma vcg_cplx_jac r i : 0 < i ->
  is_derive (fun y => vcg_cplx_t_ra y i) r (sqrt i) /\
  is_derive (fun j => vcg_cplx_t_ra r j) i (r / (2 * sqrt i)) /\
  is_derive (fun y => vcg_cplx_t_rb y i) r (sqrt i) /\
  is_derive (fun j => vcg_cplx_t_rb r j) i (r / (2 * sqrt i)).
Proof.
  intros Hi. assert (0 < sqrt i) by (apply sqrt_lt_R0; auto). unfold vcg_cplx_t_ra, vcg_cplx_t_rb.
  split; [|split; [|split]].
  - auto_derive; auto. field.
  - auto_derive. lra. field; lra.
  - auto_derive; auto. field.
  - auto_derive. lra. field; lra.
Qed.

(* complex residual = two real data components a, b, each with mean 0 and variance 1/i *)
Lemma vcg_cplx_expected_pullback Exa Exb i : expectation Exa -> expectation Exb -> 0 < i ->
  Exa (fun a => a ^ 2) = / i -> Exb (fun b => b ^ 2) = / i ->
  Exa (fun a => Derive (fun y => vcg_cplx_t_ra y i) a ^ 2) = vcg_cplx_M_r i /\
  Exb (fun b => Derive (fun y => vcg_cplx_t_rb y i) b ^ 2) = vcg_cplx_M_r i /\
  Exa (fun a => Derive (fun j => vcg_cplx_t_ra a j) i ^ 2)
    + Exb (fun b => Derive (fun j => vcg_cplx_t_rb b j) i ^ 2) + Derive vcg_cplx_t_i i ^ 2 = vcg_cplx_M_i i.
Proof.
  intros HA HB Hi Hva Hvb. assert (Hs : 0 < sqrt i) by (apply sqrt_lt_R0; auto).
  assert (Hss : sqrt i * sqrt i = i) by (apply sqrt_sqrt; lra).
  assert (D1 : forall r, Derive (fun y => vcg_cplx_t_ra y i) r = sqrt i).
  { intros r. apply is_derive_unique. apply (vcg_cplx_jac r i Hi). }
  assert (D2 : forall r, Derive (fun j => vcg_cplx_t_ra r j) i = r / (2 * sqrt i)).
  { intros r. apply is_derive_unique. apply (vcg_cplx_jac r i Hi). }
  assert (D1b : forall r, Derive (fun y => vcg_cplx_t_rb y i) r = sqrt i).
  { intros r. apply is_derive_unique. apply (vcg_cplx_jac r i Hi). }
  assert (D2b : forall r, Derive (fun j => vcg_cplx_t_rb r j) i = r / (2 * sqrt i)).
  { intros r. apply is_derive_unique. apply (vcg_cplx_jac r i Hi). }
  assert (D3 : Derive vcg_cplx_t_i i ^ 2 = / (2 * i ^ 2)).
  { rewrite (sq_Derive _ _ (sqrt (1 / 2) / i)).
    - unfold Rdiv. rewrite Rpow_mult_distr, sqrt_sq by lra. field; lra.
    - unfold vcg_cplx_t_i. auto_derive. lra. field; lra. }
  assert (Q : forall r, (r / (2 * sqrt i)) ^ 2 = / (4 * i) * r ^ 2 + 0 * r + 0).
  { intros r. replace ((r / (2 * sqrt i)) ^ 2) with (r ^ 2 / (4 * (sqrt i * sqrt i))) by (field; lra).
    rewrite Hss. field; lra. }
  assert (S : forall r : R, sqrt i ^ 2 = 0 * r ^ 2 + 0 * r + i).
  { intros r. replace (sqrt i ^ 2) with (sqrt i * sqrt i) by ring. rewrite Hss. ring. }
  unfold vcg_cplx_M_r, vcg_cplx_M_i. split; [|split].
  - rewrite (ex_ext _ HA _ (fun r => 0 * r ^ 2 + 0 * r + i)). rewrite (ex_quad _ HA). ring.
    intros r. rewrite D1. apply S.
  - rewrite (ex_ext _ HB _ (fun r => 0 * r ^ 2 + 0 * r + i)). rewrite (ex_quad _ HB). ring.
    intros r. rewrite D1b. apply S.
  - rewrite (ex_ext _ HA _ (fun r => / (4 * i) * r ^ 2 + 0 * r + 0)) by (intros r; rewrite D2; apply Q).
    rewrite (ex_ext _ HB _ (fun r => / (4 * i) * r ^ 2 + 0 * r + 0)) by (intros r; rewrite D2b; apply Q).
    rewrite (ex_quad _ HA), (ex_quad _ HB), Hva, Hvb, D3. field; lra.
Qed.

(* ---------- _SpecialGammaEnergy (VCG with the residual held constant) ----------------------- *)
Lemma sgamma_real_fisher r x : 0 < x ->
  is_derive (fun y => sgamma_real_E r y) x (r ^ 2 / 2 - / (2 * x)) /\
  is_derive (fun y => r ^ 2 / 2 - / (2 * y)) x (/ (2 * x ^ 2)) /\
  Derive sgamma_real_t x ^ 2 = / (2 * x ^ 2).
Proof.
  intros Hx. unfold sgamma_real_E, sgamma_real_t. split; [|split].
  - auto_derive. lra. field; lra.
  - auto_derive. lra. field; lra.
  - rewrite (sq_Derive _ _ (sqrt (1 / 2) / x)).
    + unfold Rdiv. rewrite Rpow_mult_distr, sqrt_sq by lra. field; lra.
    + auto_derive. lra. field; lra.
Qed.

Lemma sgamma_cplx_fisher ra rb x : 0 < x ->
  is_derive (fun y => sgamma_cplx_E ra rb y) x ((ra ^ 2 + rb ^ 2) / 2 - / x) /\
  is_derive (fun y => (ra ^ 2 + rb ^ 2) / 2 - / y) x (/ x ^ 2) /\
  Derive sgamma_cplx_t x ^ 2 = / x ^ 2.
Proof.
  intros Hx. unfold sgamma_cplx_E, sgamma_cplx_t. split; [|split].
  - auto_derive. lra. field; lra.
  - auto_derive. lra. field; lra.
  - rewrite (sq_Derive _ _ (/ x)). rewrite Rinv_pow by lra. reflexivity.
    auto_derive. lra. field; lra.
Qed.

(* ---------- combinators: scaling, composition with a model, standard Hamiltonian -------------- *)
(* _LikelihoodChain with a ScalingOperator(f): trafo.scale(sqrt f); metric scales by f *)
Lemma scaled_pullback (t : R -> R) (f x l : R) : 0 <= f -> is_derive t x l ->
  Derive (fun y => sqrt f * t y) x ^ 2 = f * Derive t x ^ 2.
Proof.
  intros Hf Ht.
  replace (Derive t x) with l by (symmetry; apply is_derive_unique; auto).
  replace (Derive (fun y => sqrt f * t y) x) with (sqrt f * l).
  rewrite Rpow_mult_distr, sqrt_sq; auto.
  symmetry; apply is_derive_unique. apply is_derive_scal; auto.
Qed.

(* composition with a model g: metric = g'(x) * M(g x) * g'(x) *)
Lemma chain_pullback (t g : R -> R) (x lg lt : R) : is_derive g x lg -> is_derive t (g x) lt ->
  Derive (fun y => t (g y)) x ^ 2 = lg * Derive t (g x) ^ 2 * lg.
Proof.
  intros Hg Ht.
  replace (Derive t (g x)) with lt by (symmetry; apply is_derive_unique; auto).
  replace (Derive (fun y => t (g y)) x) with (lg * lt). ring.
  symmetry; apply is_derive_unique. apply (is_derive_comp t g x lt lg Ht Hg).
Qed.

(* StandardHamiltonian: H = E + x^2/2; Hessian (and metric) gain exactly 1 *)
Lemma hamiltonian_prior x : is_derive (fun y => gauss_quadform 1 y) x x /\ is_derive (fun y : R => y) x 1.
Proof. unfold gauss_quadform. split; auto_derive; auto; field. Qed.

(* ---------- the moment hypotheses are satisfiable ------------------------------------------ *)
(* For every mean m and variance v >= 0 there is a functional with the properties of [expectation]
   and these two moments (the two-point distribution at m +- sqrt v). *)
Lemma expectation_satisfiable m v : 0 <= v ->
  exists Ex, expectation Ex /\ Ex (fun d => d) = m /\ Ex (fun d => d ^ 2) = m ^ 2 + v.
Proof.
  intros Hv. exists (fun f => (f (m + sqrt v) + f (m - sqrt v)) / 2).
  assert (sqrt v * sqrt v = v) by (apply sqrt_sqrt; auto).
  split; [constructor|split].
  - intros a b c. field.
  - intros f g E. rewrite !E. reflexivity.
  - field.
  - replace ((m + sqrt v) ^ 2 + (m - sqrt v) ^ 2) with (2 * m ^ 2 + 2 * (sqrt v * sqrt v)) by ring.
    rewrite H. field.
Qed.
