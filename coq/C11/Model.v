(* C11 -- hand-written part of the model (no proofs).
   The per-pixel energies E, transformations t and explicit metrics M are GENERATED from
   nifty/cl/operators/energy_operators.py (Gen_Energies.v).  This file holds the documented
   probability densities / mass functions the energies are compared with, the explicit gradient
   and Hessian formulas (proved in Proofs.v to be the derivatives of the generated energies), and
   the abstract expectation functionals used where a Fisher information needs a moment of the data
   distribution that is not formalised (named hypotheses, see notes/C11.md). *)
From Coq Require Import Reals.
From Coquelicot Require Import Coquelicot.
Open Scope R_scope.

(* ---- documented distributions of the data d given the parameter x ---------------------------- *)
(* Gaussian with precision icov (per pixel): N(d; x, 1/icov) *)
Definition gauss_pdf (icov d x : R) : R := sqrt (icov / (2 * PI)) * exp (- (icov * (d - x) ^ 2 / 2)).
(* Poisson(d | x) = x^d e^-x / d! *)
Definition poisson_pmf (d : nat) (x : R) : R := x ^ d * exp (- x) / INR (fact d).
(* Bernoulli(d | x), d in {0,1} *)
Definition bernoulli_pmf (d : bool) (x : R) : R := if d then x else 1 - x.
Definition b2R (d : bool) : R := if d then 1 else 0.
(* Student-t kernel (1 + x^2/theta)^(-(theta+1)/2); the normalising constant does not depend on x *)
Definition studentt_kernel (theta x : R) : R := Rpower (1 + x ^ 2 / theta) (- ((theta + 1) / 2)).
(* inverse gamma likelihood of the scale x for data beta: x^-(alpha+1) exp(-beta/x) (times a function
   of beta alone); as a density of beta it is Gamma(shape alpha+1, scale x), whose mean is (alpha+1) x *)
Definition invgamma_kernel (alphap1 beta x : R) : R := Rpower x (- alphap1) * exp (- beta / x).
(* zero-mean Gaussian residual with inverse variance i: real, and complex (re, im independent with
   inverse variance i each, the convention under which E = 0.5 |r|^2 i - ln i) *)
Definition vcg_real_pdf (r i : R) : R := sqrt (i / (2 * PI)) * exp (- (i * r ^ 2 / 2)).
Definition vcg_cplx_pdf (ra rb i : R) : R := (i / (2 * PI)) * exp (- (i * (ra ^ 2 + rb ^ 2) / 2)).

(* ---- explicit gradients / Hessians (w.r.t. the parameter) ------------------------------------- *)
Definition poisson_grad (d x : R) : R := 1 - d / x.
Definition poisson_hess (d x : R) : R := d / x ^ 2.
Definition bernoulli_grad (d x : R) : R := - d / x + (1 - d) / (1 - x).
Definition bernoulli_hess (d x : R) : R := d / x ^ 2 + (1 - d) / (1 - x) ^ 2.
Definition categorical_grad (d x : R) : R := - d / x.
Definition categorical_hess (d x : R) : R := d / x ^ 2.
Definition invgamma_grad (alphap1 beta x : R) : R := alphap1 / x - beta / x ^ 2.
Definition invgamma_hess (alphap1 beta x : R) : R := - alphap1 / x ^ 2 + 2 * beta / x ^ 3.
Definition studentt_grad (theta x : R) : R := (theta + 1) * x / (theta + x ^ 2).
Definition gauss_grad (icov d x : R) : R := icov * (x - d).

(* ---- expectation over the data ---------------------------------------------------------------- *)
(* A linear, normalised functional on functions of one real datum, as far as polynomials of degree
   <= 2 are concerned.  The Fisher-information theorems need only this and one or two moments. *)
Record expectation (Ex : (R -> R) -> R) : Prop := {
  ex_quad : forall a b c, Ex (fun d => a * d ^ 2 + b * d + c) = a * Ex (fun d => d ^ 2) + b * Ex (fun d => d) + c;
  ex_ext : forall f g, (forall d, f d = g d) -> Ex f = Ex g
}.

(* ---- variable-covariance Gaussian: explicit gradient / Hessian entries in (r, i) ----------------- *)
Definition vcg_real_grad_r (r i : R) : R := r * i.
Definition vcg_real_grad_i (r i : R) : R := r ^ 2 / 2 - / (2 * i).
Definition vcg_real_H_rr (r i : R) : R := i.
Definition vcg_real_H_ri (r i : R) : R := r.
Definition vcg_real_H_ii (r i : R) : R := / (2 * i ^ 2).
Definition vcg_cplx_grad_a (ra rb i : R) : R := ra * i.
Definition vcg_cplx_grad_i (ra rb i : R) : R := (ra ^ 2 + rb ^ 2) / 2 - / i.
Definition vcg_cplx_H_ii (i : R) : R := / i ^ 2.
