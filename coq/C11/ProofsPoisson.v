(* C11 -- the Poisson Fisher information as a convergent series over the data d = 0, 1, 2, ...
   (no moment hypothesis): sum_d Poisson(d|x) * Hessian(d, x) = (Derive t x)^2 = 1/x. *)
From Coq Require Import Reals Lra Lia.
From Coquelicot Require Import Coquelicot.
Require Import NV.Base.RealExpr NV.Base.PoissonSeries NV.C11.Model NV.C11.Gen_Energies NV.C11.Proofs.
Open Scope R_scope.

Lemma poisson_fisher_series x : 0 < x ->
  is_series (fun d : nat => poisson_pmf d x) 1 /\
  is_series (fun d : nat => poisson_pmf d x * poisson_grad (INR d) x) 0 /\
  is_series (fun d : nat => poisson_pmf d x * poisson_hess (INR d) x) (Derive poisson_t x ^ 2).
Proof.
  intros Hx. split; [|split].
  - apply is_series_ext_R with (2 := pois_total x). intros d. reflexivity.
  - assert (E : (- / x) * x + 1 = 0) by (field; lra). apply (is_series_lim_eq _ _ _ E).
    apply is_series_ext_R with (2 := pois_affine x (- / x) 1).
    intros d. pose proof (fact_pos d). unfold poisson_pmf, pois, poisson_grad. field; split; lra.
  - rewrite poisson_pullback by auto.
    assert (E : (/ x ^ 2) * x + 0 = 1 / x) by (field; lra). apply (is_series_lim_eq _ _ _ E).
    apply is_series_ext_R with (2 := pois_affine x (/ x ^ 2) 0).
    intros d. pose proof (fact_pos d). unfold poisson_pmf, pois, poisson_hess. field; split; lra.
Qed.

Require Import NV.Base.LhCombinators.
Lemma poisson_instance x : 0 < x ->
  factored R Rmult Rmult (fun v => (Derive poisson_t x) ^ 2 * v) (fun w => Derive poisson_t x * w) (fun v => Derive poisson_t x * v).
Proof. intros Hx. split; intros; ring. Qed.
