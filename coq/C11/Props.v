(* C11 -- property theorems only (each closed by [exact] of a lemma of Proofs.v).
   All statements are about the per-pixel energies E, coordinate transformations t and explicit
   metrics M GENERATED from nifty/cl/operators/energy_operators.py (Gen_Energies.v); an energy of a
   field is the sum over pixels of E (checked numerically against the implementation on every run).
   nll      : E(x; d) = - ln p(d | x) + c, c independent of the parameter x
   gradient : explicit gradient / Hessian formulas are the derivatives of E
   pullback : (Derive t x)^2 = metric (the metric get_metric_at builds is J_t^T J_t)
   fisher   : the metric is the expectation over the data of the Hessian -- as a finite sum where the
              data space is finite (Bernoulli, categorical), through the named moment hypotheses
              [expectation Ex], Ex d = ... otherwise (see notes/C11.md). *)
From Coq Require Import Reals Lra.
From Coquelicot Require Import Coquelicot.
Require Import NV.Base.RealExpr NV.C11.Model NV.C11.Gen_Energies NV.C11.Proofs NV.C11.ProofsPoisson NV.Base.LhCombinators.
Open Scope R_scope.


(* Gaussian (diagonal precision icov; unit covariance = Squared2Norm/2) *)
Theorem C11_gauss_nll :
  forall icov d x,
  0 < icov ->
  gauss_quadform icov (gauss_residual d x) = - ln (gauss_pdf icov d x) + ln (sqrt (icov / (2 * PI))).
Proof. exact gauss_nll. Qed.
Theorem C11_gauss_unit_nll :
  forall d x,
  (1 / 2) * gauss_sqnorm (gauss_residual d x) = gauss_quadform 1 (gauss_residual d x).
Proof. exact gauss_unit_nll. Qed.
Theorem C11_gauss_gradient :
  forall icov d x,
  is_derive (fun y => gauss_quadform icov (gauss_residual d y)) x (gauss_grad icov d x).
Proof. exact gauss_grad_ok. Qed.
Theorem C11_gauss_fisher :
  forall icov d x,
  is_derive (fun y => gauss_grad icov d y) x icov.
Proof. exact gauss_hess_ok. Qed.

(* Poisson *)
Theorem C11_poisson_nll :
  forall (d : nat) x,
  0 < x ->
  poisson_E (INR d) x = - ln (poisson_pmf d x) - ln (INR (fact d)).
Proof. exact poisson_nll. Qed.
Theorem C11_poisson_gradient :
  forall d x,
  0 < x -> is_derive (fun y => poisson_E d y) x (poisson_grad d x).
Proof. exact poisson_grad_ok. Qed.
Theorem C11_poisson_hessian :
  forall d x,
  0 < x -> is_derive (fun y => poisson_grad d y) x (poisson_hess d x).
Proof. exact poisson_hess_ok. Qed.
Theorem C11_poisson_pullback :
  forall x,
  0 < x -> (Derive poisson_t x) ^ 2 = 1 / x.
Proof. exact poisson_pullback. Qed.
Theorem C11_poisson_fisher :
  forall Ex x,
  expectation Ex -> 0 < x -> Ex (fun d => d) = x ->
  Ex (fun d => poisson_hess d x) = (Derive poisson_t x) ^ 2.
Proof. exact poisson_fisher. Qed.

(* Bernoulli (Fisher information as a finite sum over d in {0,1}) *)
Theorem C11_bernoulli_nll :
  forall (d : bool) x,
  0 < x < 1 -> bernoulli_E (b2R d) x = - ln (bernoulli_pmf d x).
Proof. exact bernoulli_nll. Qed.
Theorem C11_bernoulli_gradient :
  forall d x,
  0 < x < 1 -> is_derive (fun y => bernoulli_E d y) x (bernoulli_grad d x).
Proof. exact bernoulli_grad_ok. Qed.
Theorem C11_bernoulli_hessian :
  forall d x,
  0 < x < 1 -> is_derive (fun y => bernoulli_grad d y) x (bernoulli_hess d x).
Proof. exact bernoulli_hess_ok. Qed.
Theorem C11_bernoulli_pullback :
  forall x,
  0 < x < 1 -> (Derive bernoulli_t x) ^ 2 = 1 / (x * (1 - x)).
Proof. exact bernoulli_pullback. Qed.
Theorem C11_bernoulli_fisher :
  forall x,
  0 < x < 1 ->
  bernoulli_pmf true x * bernoulli_hess (b2R true) x + bernoulli_pmf false x * bernoulli_hess (b2R false) x
  = (Derive bernoulli_t x) ^ 2.
Proof. exact bernoulli_fisher. Qed.
Theorem C11_bernoulli_score :
  forall x,
  0 < x < 1 ->
  bernoulli_pmf true x * bernoulli_grad (b2R true) x + bernoulli_pmf false x * bernoulli_grad (b2R false) x = 0.
Proof. exact bernoulli_score. Qed.

(* categorical (per category; assumes the row is normalised as the class documents) *)
Theorem C11_categorical_nll :
  forall (d : bool) x,
  0 < x -> categorical_E (b2R d) x = - ln (if d then x else 1).
Proof. exact categorical_nll. Qed.
Theorem C11_categorical_gradient :
  forall d x,
  0 < x -> is_derive (fun y => categorical_E d y) x (categorical_grad d x).
Proof. exact categorical_grad_ok. Qed.
Theorem C11_categorical_hessian :
  forall d x,
  0 < x -> is_derive (fun y => categorical_grad d y) x (categorical_hess d x).
Proof. exact categorical_hess_ok. Qed.
Theorem C11_categorical_pullback :
  forall x,
  0 < x -> (Derive categorical_t x) ^ 2 = 1 / x.
Proof. exact categorical_pullback. Qed.
Theorem C11_categorical_fisher :
  forall x,
  0 < x ->
  x * categorical_hess (b2R true) x + (1 - x) * categorical_hess (b2R false) x = (Derive categorical_t x) ^ 2.
Proof. exact categorical_fisher. Qed.

(* inverse gamma *)
Theorem C11_invgamma_nll :
  forall alphap1 beta x,
  0 < x ->
  invgamma_E alphap1 beta x = - ln (invgamma_kernel alphap1 beta x).
Proof. exact invgamma_nll. Qed.
Theorem C11_invgamma_gradient :
  forall a b x,
  0 < x -> is_derive (fun y => invgamma_E a b y) x (invgamma_grad a b x).
Proof. exact invgamma_grad_ok. Qed.
Theorem C11_invgamma_hessian :
  forall a b x,
  0 < x -> is_derive (fun y => invgamma_grad a b y) x (invgamma_hess a b x).
Proof. exact invgamma_hess_ok. Qed.
Theorem C11_invgamma_pullback :
  forall a x,
  0 <= a -> 0 < x -> (Derive (invgamma_t a) x) ^ 2 = a / x ^ 2.
Proof. exact invgamma_pullback. Qed.
Theorem C11_invgamma_fisher :
  forall Ex a x,
  expectation Ex -> 0 <= a -> 0 < x -> Ex (fun b => b) = a * x ->
  Ex (fun b => invgamma_hess a b x) = (Derive (invgamma_t a) x) ^ 2.
Proof. exact invgamma_fisher. Qed.

(* Student-t: the metric is the constant (theta+1)/(theta+3); that this constant is the Fisher information of the location parameter is taken from the literature (integral not formalised) *)
Theorem C11_studentt_nll :
  forall theta x,
  0 < theta -> studentt_E theta x = - ln (studentt_kernel theta x).
Proof. exact studentt_nll. Qed.
Theorem C11_studentt_gradient :
  forall theta x,
  0 < theta -> is_derive (fun y => studentt_E theta y) x (studentt_grad theta x).
Proof. exact studentt_grad_ok. Qed.
Theorem C11_studentt_metric_partial :
  forall theta x,
  0 < theta -> (Derive (studentt_t theta) x) ^ 2 = (theta + 1) / (theta + 3).
Proof. exact studentt_pullback. Qed.

(* variable-covariance Gaussian, real and complex residuals *)
Theorem C11_vcg_real_nll :
  forall r i,
  0 < i -> vcg_real_E r i = - ln (vcg_real_pdf r i) + ln (sqrt (/ (2 * PI))).
Proof. exact vcg_real_nll. Qed.
Theorem C11_vcg_real_gradient :
  forall r i,
  0 < i ->
  is_derive (fun y => vcg_real_E y i) r (vcg_real_grad_r r i) /\
  is_derive (fun j => vcg_real_E r j) i (vcg_real_grad_i r i) /\
  is_derive (fun y => vcg_real_grad_r y i) r (vcg_real_H_rr r i) /\
  is_derive (fun j => vcg_real_grad_r r j) i (vcg_real_H_ri r i) /\
  is_derive (fun y => vcg_real_grad_i y i) r (vcg_real_H_ri r i) /\
  is_derive (fun j => vcg_real_grad_i r j) i (vcg_real_H_ii r i).
Proof. exact vcg_real_derivs. Qed.
Theorem C11_vcg_real_fisher :
  forall Ex i,
  expectation Ex -> 0 < i -> Ex (fun r => r) = 0 ->
  Ex (fun r => vcg_real_H_rr r i) = vcg_real_M_r i /\
  Ex (fun r => vcg_real_H_ri r i) = 0 /\
  Ex (fun r => vcg_real_H_ii r i) = vcg_real_M_i i.
Proof. exact vcg_real_fisher. Qed.
Theorem C11_vcg_real_expected_pullback :
  forall Ex i,
  expectation Ex -> 0 < i ->
  Ex (fun r => r) = 0 -> Ex (fun r => r ^ 2) = / i ->
  Ex (fun r => Derive (fun y => vcg_real_t_r y i) r ^ 2) = vcg_real_M_r i /\
  Ex (fun r => Derive (fun y => vcg_real_t_r y i) r * Derive (fun j => vcg_real_t_r r j) i) = 0 /\
  Ex (fun r => Derive (fun j => vcg_real_t_r r j) i ^ 2 + Derive vcg_real_t_i i ^ 2) = vcg_real_M_i i.
Proof. exact vcg_real_expected_pullback. Qed.
Theorem C11_vcg_cplx_nll :
  forall ra rb i,
  0 < i -> vcg_cplx_E ra rb i = - ln (vcg_cplx_pdf ra rb i) + ln (/ (2 * PI)).
Proof. exact vcg_cplx_nll. Qed.
Theorem C11_vcg_cplx_gradient :
  forall ra rb i,
  0 < i ->
  is_derive (fun y => vcg_cplx_E y rb i) ra (vcg_cplx_grad_a ra rb i) /\
  is_derive (fun y => vcg_cplx_E ra y i) rb (vcg_cplx_grad_a rb ra i) /\
  is_derive (fun j => vcg_cplx_E ra rb j) i (vcg_cplx_grad_i ra rb i) /\
  is_derive (fun y => vcg_cplx_grad_a y rb i) ra i /\
  is_derive (fun j => vcg_cplx_grad_a ra rb j) i ra /\
  is_derive (fun j => vcg_cplx_grad_i ra rb j) i (vcg_cplx_H_ii i).
Proof. exact vcg_cplx_derivs. Qed.
Theorem C11_vcg_cplx_fisher :
  forall i,
  0 < i -> vcg_cplx_M_r i = i /\ vcg_cplx_M_i i = vcg_cplx_H_ii i.
Proof. exact vcg_cplx_fisher. Qed.
Theorem C11_vcg_cplx_expected_pullback :
  forall Exa Exb i,
  expectation Exa -> expectation Exb -> 0 < i ->
  Exa (fun a => a ^ 2) = / i -> Exb (fun b => b ^ 2) = / i ->
  Exa (fun a => Derive (fun y => vcg_cplx_t_ra y i) a ^ 2) = vcg_cplx_M_r i /\
  Exb (fun b => Derive (fun y => vcg_cplx_t_rb y i) b ^ 2) = vcg_cplx_M_r i /\
  Exa (fun a => Derive (fun j => vcg_cplx_t_ra a j) i ^ 2)
    + Exb (fun b => Derive (fun j => vcg_cplx_t_rb b j) i ^ 2) + Derive vcg_cplx_t_i i ^ 2 = vcg_cplx_M_i i.
Proof. exact vcg_cplx_expected_pullback. Qed.

(* _SpecialGammaEnergy *)
Theorem C11_sgamma_real_fisher :
  forall r x,
  0 < x ->
  is_derive (fun y => sgamma_real_E r y) x (r ^ 2 / 2 - / (2 * x)) /\
  is_derive (fun y => r ^ 2 / 2 - / (2 * y)) x (/ (2 * x ^ 2)) /\
  Derive sgamma_real_t x ^ 2 = / (2 * x ^ 2).
Proof. exact sgamma_real_fisher. Qed.
Theorem C11_sgamma_cplx_fisher :
  forall ra rb x,
  0 < x ->
  is_derive (fun y => sgamma_cplx_E ra rb y) x ((ra ^ 2 + rb ^ 2) / 2 - / x) /\
  is_derive (fun y => (ra ^ 2 + rb ^ 2) / 2 - / y) x (/ x ^ 2) /\
  Derive sgamma_cplx_t x ^ 2 = / x ^ 2.
Proof. exact sgamma_cplx_fisher. Qed.

(* combinators (scalar form): scaling by f, composition with a model g, standard Hamiltonian *)
Theorem C11_scaled :
  forall (t : R -> R) (f x l : R),
  0 <= f -> is_derive t x l ->
  Derive (fun y => sqrt f * t y) x ^ 2 = f * Derive t x ^ 2.
Proof. exact scaled_pullback. Qed.
Theorem C11_chain :
  forall (t g : R -> R) (x lg lt : R),
  is_derive g x lg -> is_derive t (g x) lt ->
  Derive (fun y => t (g y)) x ^ 2 = lg * Derive t (g x) ^ 2 * lg.
Proof. exact chain_pullback. Qed.
Theorem C11_hamiltonian :
  forall x,
  is_derive (fun y => gauss_quadform 1 y) x x /\ is_derive (fun y : R => y) x 1.
Proof. exact hamiltonian_prior. Qed.

(* ---- operator-level composition rules, for ALL spaces, maps and pairings (Base/LhCombinators.v) ----
   [factored K ipV ipW M L R] := (forall v, M v = L (R v)) /\ (forall w v, ipV (L w) v = ipW w (R v)),
   i.e. M = L o R and R = L^dagger. *)
Theorem C11_amend :
  forall (K V W X : Type) (ipV : V -> V -> K) (ipW : W -> W -> K) (ipX : X -> X -> K)
         (M : V -> V) (L : W -> V) (R : V -> W) (J : X -> V) (Jt : V -> X),
    (forall (v : V) (x : X), ipX (Jt v) x = ipV v (J x)) ->
    factored K ipV ipW M L R ->
    factored K ipX ipW (amend_M V X M J Jt) (amend_L V W X L Jt) (amend_R V W X R J) /\
    (forall x y : X, ipX (amend_M V X M J Jt x) y = ipV (M (J x)) (J y)).
Proof. exact amend_rules. Qed.

Theorem C11_sum :
  forall (K : Type) (kadd : K -> K -> K) (V W1 W2 : Type) (vadd : V -> V -> V) (ipV : V -> V -> K)
         (ipW1 : W1 -> W1 -> K) (ipW2 : W2 -> W2 -> K),
    (forall a b v : V, ipV (vadd a b) v = kadd (ipV a v) (ipV b v)) ->
    forall (M1 : V -> V) (L1 : W1 -> V) (R1 : V -> W1) (M2 : V -> V) (L2 : W2 -> V) (R2 : V -> W2),
    factored K ipV ipW1 M1 L1 R1 -> factored K ipV ipW2 M2 L2 R2 ->
    factored K ipV (ipW12 K kadd W1 W2 ipW1 ipW2) (sum_M V vadd M1 M2) (sum_L V W1 W2 vadd L1 L2) (sum_R V W1 W2 R1 R2).
Proof. exact sum_factored. Qed.

(* _LikelihoodChain with a ScalingOperator(f), f = s*s: transformation scaled by s = sqrt f *)
Theorem C11_scale_operator :
  forall (K : Type) (kmul : K -> K -> K) (V W : Type) (ipV : V -> V -> K) (ipW : W -> W -> K)
         (vscal : K -> V -> V) (wscal : K -> W -> W),
    (forall (s : K) (a v : V), ipV (vscal s a) v = kmul s (ipV a v)) ->
    (forall (s : K) (w b : W), ipW w (wscal s b) = kmul s (ipW w b)) ->
    (forall (s t : K) (a : V), vscal s (vscal t a) = vscal (kmul s t) a) ->
    forall (M : V -> V) (L : W -> V) (R : V -> W),
    (forall (s : K) (b : W), L (wscal s b) = vscal s (L b)) ->
    forall s : K, factored K ipV ipW M L R ->
    factored K ipV ipW (fun v : V => vscal (kmul s s) (M v)) (fun w : W => vscal s (L w)) (fun v : V => wscal s (R v)).
Proof. exact scale_factored. Qed.

(* StandardHamiltonian: likelihood + white prior: metric M + 1 with square roots (L | 1), (R ; 1) *)
Theorem C11_hamiltonian_operator :
  forall (K : Type) (kadd : K -> K -> K) (V W : Type) (vadd : V -> V -> V) (ipV : V -> V -> K) (ipW : W -> W -> K),
    (forall a b v : V, ipV (vadd a b) v = kadd (ipV a v) (ipV b v)) ->
    forall (M : V -> V) (L : W -> V) (R : V -> W),
    factored K ipV ipW M L R ->
    factored K ipV (ipW12 K kadd W V ipW ipV) (fun v : V => vadd (M v) v)
      (fun w : W * V => vadd (L (fst w)) (snd w)) (fun v : V => (R v, v)).
Proof. exact hamiltonian_factored. Qed.

(* the generated Poisson pixel with R := Derive t as right square root is an instance (non-vacuity) *)
Example C11_poisson_instance :
  forall x, 0 < x ->
    factored R Rmult Rmult (fun v => (Derive poisson_t x) ^ 2 * v) (fun w => Derive poisson_t x * w) (fun v => Derive poisson_t x * v).
Proof. exact poisson_instance. Qed.

(* Poisson Fisher information as a convergent series over the data d = 0, 1, 2, ... (no hypothesis):
   total mass 1, zero-mean score, sum_d Poisson(d|x) Hessian(d, x) = (Derive t x)^2 *)
Theorem C11_poisson_fisher_series :
  forall x, 0 < x ->
    is_series (fun d : nat => poisson_pmf d x) 1 /\
    is_series (fun d : nat => poisson_pmf d x * poisson_grad (INR d) x) 0 /\
    is_series (fun d : nat => poisson_pmf d x * poisson_hess (INR d) x) (Derive poisson_t x ^ 2).
Proof. exact poisson_fisher_series. Qed.

(* non-vacuity: the hypotheses [expectation Ex], Ex d = m, Ex d^2 = m^2 + v are consistent *)
Example C11_expectation_satisfiable :
  forall m v, 0 <= v ->
  exists Ex, expectation Ex /\ Ex (fun d => d) = m /\ Ex (fun d => d ^ 2) = m ^ 2 + v.
Proof. exact expectation_satisfiable. Qed.
