(* C09 -- the executable instance used by the correspondence (Gaussian rationals, axis lengths 1,2,4,
   the model's own geometry): all hypotheses of the generic theorems are discharged. *)
From Coq Require Import List Arith Bool PeanoNat Lia ZArith QArith Qcanon.
Import ListNotations.
Require Import NV.C09.Model NV.C09.Proofs NV.C09.ProofsH NV.C09.ProofsK.
Local Open Scope nat_scope.

Definition good_grid (shape : list nat) (dists : list Q) : Prop :=
  forallb axis_ok shape = true /\ length dists = length shape /\
  (forall d, In d (map Q2Qc dists) -> d <> 0%Qc).

Lemma good_pos shape dists : good_grid shape dists -> forall n, In n shape -> 0 < n.
Proof.
  intros (H & _ & _) n Hn. rewrite forallb_forall in H. apply axis_ok_pos, H, Hn.
Qed.

Lemma good_N shape dists : good_grid shape dists -> 0 < prodl shape.
Proof. intros H. apply prodl_pos. apply (good_pos shape dists H). Qed.

Section Inst.
  Variables (shape : list nat) (dists : list Q) (harm : bool).
  Hypothesis Hgood : good_grid shape dists.

  Local Notation N := (prodl shape).
  Local Notation g := (ggeo shape (map Q2Qc dists) harm).

  Lemma i_kernel : kernel_ok QcK N (gkern shape).
  Proof. apply gkern_kernel. apply Hgood. Qed.
  Lemma i_ncells : ncells g = N.
  Proof. reflexivity. Qed.
  Lemma i_inv : op_mul QcK (natR QcK N) (inv_n g) = op_1 QcK.
  Proof. apply ggeo_inv. apply (good_pos shape dists Hgood). Qed.
  Lemma i_vol : op_mul QcK (natR QcK N) (op_mul QcK (dvol_dom g) (dvol_tgt g)) = op_1 QcK.
  Proof.
    apply ggeo_vol.
    - rewrite map_length. apply Hgood.
    - apply (good_pos shape dists Hgood).
    - apply Hgood.
  Qed.

  Lemma i_fft_inverse x j :
    j < N -> g_fft shape dists harm INV (g_fft shape dists harm TIMES x) j = x j.
  Proof.
    destruct i_kernel as (S & Z & O & Rr).
    apply (fft_inverse_left QcK QcK_ring N (gkern shape) S O g i_ncells i_inv i_vol).
  Qed.

  Lemma i_fft_adjoint x y :
    dot QcK N (g_fft shape dists harm TIMES x) y = dot QcK N x (g_fft shape dists harm ADJ y).
  Proof. apply (fft_adjoint QcK QcK_ring N (gkern shape) g i_ncells i_inv). Qed.

  Lemma i_fft_adjoint_inverse x y :
    dot QcK N (g_fft shape dists harm ADJINV x) y = dot QcK N x (g_fft shape dists harm INV y).
  Proof. apply (fft_adjoint_inverse QcK QcK_ring N (gkern shape) g i_ncells i_inv). Qed.

  Lemma i_hartley_inverse c x j :
    j < N -> g_hartley c shape dists harm INV (g_hartley c shape dists harm TIMES x) j = x j.
  Proof.
    destruct i_kernel as (S & Z & O & Rr).
    apply (hartley_complex_inverse_left QcK QcK_ring N (gkern shape) S O Rr c g i_ncells i_vol).
  Qed.

  Lemma i_hartley_adjoint c x y :
    dot QcK N (g_hartley c shape dists harm TIMES x) y = dot QcK N x (g_hartley c shape dists harm ADJ y).
  Proof.
    destruct i_kernel as (S & Z & O & Rr).
    apply (hartley_complex_adjoint QcK QcK_ring N (gkern shape) S c g i_ncells).
  Qed.
End Inst.

(* zero mode on the flat array of a product domain: cell (b, 0, a) of the transform of a
   position-space field is dvol * (sum over the transformed sub-space of slice (b, :, a)) *)
Lemma i_fft_zero_mode_flat shape dists B A x b a :
  good_grid shape dists -> b < B -> a < A ->
  nth ((b * prodl shape + 0) * A + a) (g_flat (g_fft shape dists false TIMES) B shape A x) (c0 QcK)
  = cscal QcK (qprod (map Q2Qc dists)) (csum QcK (prodl shape) (slice QcK (prodl shape) A (map toQC x) b a)).
Proof.
  intros Hgood Hb Ha. unfold g_flat, QC.
  rewrite flat_apply_nth by (try assumption; apply (good_N shape dists Hgood)).
  destruct (i_kernel shape dists Hgood) as (S & Z & O & Rr).
  unfold g_fft.
  apply (fft_zero_mode_times QcK QcK_ring (prodl shape) (gkern shape) Z
           (ggeo shape (map Q2Qc dists) false) eq_refl).
  - apply (good_N shape dists Hgood).
  - reflexivity.
Qed.

Lemma i_hartley_zero_mode_flat c shape dists B A x b a :
  good_grid shape dists -> b < B -> a < A ->
  fst (nth ((b * prodl shape + 0) * A + a) (g_flat (g_hartley c shape dists false TIMES) B shape A x) (c0 QcK))
  = (qprod (map Q2Qc dists) *
     rsum QcK (prodl shape) (fun j => fst (slice QcK (prodl shape) A (map toQC x) b a j)))%Qc.
Proof.
  intros Hgood Hb Ha. unfold g_flat, QC.
  rewrite flat_apply_nth by (try assumption; apply (good_N shape dists Hgood)).
  destruct (i_kernel shape dists Hgood) as (S & Z & O & Rr).
  unfold g_hartley, hartley_apply. cbn [fst].
  apply (hartley_zero_mode_times QcK QcK_ring (prodl shape) (gkern shape) Z c
           (ggeo shape (map Q2Qc dists) false) eq_refl).
  apply (good_N shape dists Hgood).
Qed.

(* non-vacuity: a concrete 2-D grid meets the hypotheses *)
Lemma good_example : good_grid [4; 2] [(1 # 2)%Q; (2 # 1)%Q].
Proof.
  split; [reflexivity|]. split; [reflexivity|].
  intros d [<-|[<-|[]]]; intros E; apply (f_equal this) in E; vm_compute in E; discriminate.
Qed.
