(* C09 -- SHTOperator: the real packing of spherical-harmonic coefficients.  Executable model, NO proofs.

   harmonic_operators.py, SHTOperator:
     _slice_h2p(inp):   res = np.empty((len(inp)+self.lmax+1)//2, complex)
                        if len(res) != ((mmax+1)*(mmax+2))//2 + (mmax+1)*(lmax-mmax): raise ValueError
                        res[0:lmax+1] = inp[0:lmax+1]
                        res[lmax+1:]  = np.sqrt(0.5)*(inp[lmax+1::2] + 1j*inp[lmax+2::2])
                        -> ducc0.sht.synthesis(alm=res) / sqrt(4 pi)
     _slice_p2h(inp):   rr = ducc0.sht.adjoint_synthesis(map=inp)
                        if len(rr) != ((mmax+1)*(mmax+2))//2 + (mmax+1)*(lmax-mmax): raise ValueError
                        res = np.empty(2*len(rr)-lmax-1)
                        res[0:lmax+1]  = rr[0:lmax+1].real
                        res[lmax+1::2] = np.sqrt(2)*rr[lmax+1:].real
                        res[lmax+2::2] = np.sqrt(2)*rr[lmax+1:].imag
                        -> res / sqrt(4 pi)
   lm_space.py:  size = (l+1)**2 - (l-m)*(l-m+1)
   Scalars: any structure K with ring operations; s2 ~ sqrt(2), sh ~ sqrt(0.5) are symbols (the theorems
   assume s2*sh = 1 and 2*sh*sh = 1).  The spherical-harmonic kernels themselves are library code. *)
From Coq Require Import List Arith Bool PeanoNat.
Import ListNotations.
Require Import NV.C09.Model.

Definition n_alm (lmax mmax : nat) : nat := ((mmax + 1) * (mmax + 2)) / 2 + (mmax + 1) * (lmax - mmax).
Definition lm_size (lmax mmax : nat) : nat := (lmax + 1) * (lmax + 1) - (lmax - mmax) * (lmax - mmax + 1).

Section SHT.
  Variable K : ring_ops.
  Local Notation R := (carrier K).
  Local Notation r0 := (op_0 K).
  Local Notation radd := (op_add K).
  Local Notation rmul := (op_mul K).
  Variables s2 sh : R.

  (* inp[lmax+1::2], inp[lmax+2::2] zipped (a trailing odd element would be a numpy broadcasting error;
     excluded by the length hypothesis of the theorems) *)
  Fixpoint pairs (l : list R) : list (R * R) :=
    match l with a :: b :: r => (a, b) :: pairs r | _ => [] end.

  (* the alm array handed to ducc0.sht.synthesis *)
  Definition pack (lmax : nat) (inp : list R) : list (C K) :=
    map (fun a => (a, r0)) (firstn (S lmax) inp)
    ++ map (fun p => (rmul sh (fst p), rmul sh (snd p))) (pairs (skipn (S lmax) inp)).

  (* the real vector built from the alm array returned by ducc0.sht.adjoint_synthesis *)
  Definition unpack (lmax : nat) (rr : list (C K)) : list R :=
    map fst (firstn (S lmax) rr)
    ++ flat_map (fun p => [rmul s2 (fst p); rmul s2 (snd p)]) (skipn (S lmax) rr).

  (* the two ValueError guards *)
  Definition h2p_guard (lmax mmax : nat) (inp : list R) : bool :=
    (length inp + lmax + 1) / 2 =? n_alm lmax mmax.
  Definition p2h_guard (lmax mmax : nat) (rr : list (C K)) : bool :=
    length rr =? n_alm lmax mmax.

  (* inner products: plain on the real vectors; on coefficient lists the m = 0 entries count once and
     the m > 0 entries twice (they stand for +m and -m) *)
  Fixpoint rdotl (a b : list R) : R :=
    match a, b with x :: a', y :: b' => radd (rmul x y) (rdotl a' b') | _, _ => r0 end.
  Fixpoint cdotl (a b : list (C K)) : R :=
    match a, b with
    | x :: a', y :: b' => radd (radd (rmul (fst x) (fst y)) (rmul (snd x) (snd y))) (cdotl a' b')
    | _, _ => r0
    end.
  Definition wdot (lmax : nat) (a b : list (C K)) : R :=
    radd (cdotl (firstn (S lmax) a) (firstn (S lmax) b))
         (rmul (radd (op_1 K) (op_1 K)) (cdotl (skipn (S lmax) a) (skipn (S lmax) b))).
End SHT.

(* ---- executable instance: Q[sqrt 2] over Qc, a + b*sqrt(2) as the pair (a, b) -------------------- *)
From Coq Require Import ZArith QArith Qcanon Qabs Qminmax.

Definition Q2 : Type := (Qc * Qc)%type.
Definition q2add (x y : Q2) : Q2 := ((fst x + fst y)%Qc, (snd x + snd y)%Qc).
Definition q2sub (x y : Q2) : Q2 := ((fst x - fst y)%Qc, (snd x - snd y)%Qc).
Definition q2opp (x : Q2) : Q2 := ((- fst x)%Qc, (- snd x)%Qc).
Definition q2mul (x y : Q2) : Q2 :=
  ((fst x * fst y + Q2Qc 2 * (snd x * snd y))%Qc, (fst x * snd y + snd x * fst y)%Qc).
Definition Q2K : ring_ops := mkops Q2 (0%Qc, 0%Qc) (1%Qc, 0%Qc) q2add q2mul q2sub q2opp.
Definition q2_s2 : Q2 := (0%Qc, 1%Qc).                 (* sqrt 2 *)
Definition q2_sh : Q2 := (0%Qc, Q2Qc (1 # 2)).         (* sqrt(1/2) = sqrt(2)/2 *)
Definition q2_of (x : Q) : Q2 := (Q2Qc x, 0%Qc).

(* |a + b*sqrt2 - y| <= tol*max(1,|y|), with a rational enclosure of sqrt 2 (error < 1e-17) *)
Definition sqrt2_lo : Q := 141421356237309504 # 100000000000000000.
Definition sqrt2_hi : Q := 141421356237309505 # 100000000000000000.
Definition q2_close (tol : Q) (m : Q2) (y : Q) : bool :=
  let lo := (this (fst m) + this (snd m) * sqrt2_lo)%Q in
  let hi := (this (fst m) + this (snd m) * sqrt2_hi)%Q in
  let bound := (tol * Qmax 1 (Qabs y))%Q in
  Qle_bool (Qabs (lo - y)) bound && Qle_bool (Qabs (hi - y)) bound.

Fixpoint q2_all_close (tol : Q) (m : list Q2) (y : list Q) : bool :=
  match m, y with
  | [], [] => true
  | a :: m', b :: y' => q2_close tol a b && q2_all_close tol m' y'
  | _, _ => false
  end.

(* alm captured at ducc0.sht.synthesis (re, im interleaved in [y]) vs pack *)
Definition c_pack (tol : Q) (lmax mmax : nat) (inp : list Q) (y : list (Q * Q)) : bool :=
  h2p_guard Q2K lmax mmax (map q2_of inp) &&
  let p := pack Q2K q2_sh lmax (map q2_of inp) in
  q2_all_close tol (map fst p) (map fst y) && q2_all_close tol (map snd p) (map snd y).

(* result of _slice_p2h (times sqrt(4 pi)) for a prescribed rr vs unpack *)
Definition c_unpack (tol : Q) (lmax mmax : nat) (rr : list (Q * Q)) (y : list Q) : bool :=
  let r := map (fun p => (q2_of (fst p), q2_of (snd p))) rr in
  p2h_guard Q2K lmax mmax r && q2_all_close tol (unpack Q2K q2_s2 lmax r) y.

Definition c_sizes (lmax mmax size : nat) : bool :=
  (lm_size lmax mmax =? size) && (2 * n_alm lmax mmax =? size + lmax + 1).
