(* C09 -- property theorems only.  Each is closed by [exact] of a lemma from Proofs*.v.

   Reading guide.  K is ANY structure with ring operations satisfying the commutative-ring laws
   ([is_ring K]); scalars (volumes) live in K, field values in K[i] = K*K.  W is the kernel matrix of
   the library FFT (W j k ~ e^{+2 pi i jk/N}); what is assumed about it is exactly
     kernel_sym  : W j k = W k j
     kernel_zero : W j 0 = 1
     kernel_orth : sum_k conj(W j k) W l k = N [j = l]
     kernel_real : sum_k W j k W l k is real                      (only for Hartley)
   and these are PROVED (theorems C09_kernel_...) for one axis of any length from the laws of a twiddle table,
   for tensor products (multi-axis grids), and unconditionally over the Gaussian rationals for all
   grids with axis lengths 1, 2, 4.  [g] carries the geometry of the transformed sub-space:
   ncells, harmonic flag of the operator's domain, the two pixel volumes, and the 1/N used by ifftn.
   All statements are per slice of the product domain; C09_subspace ties slices to the flat array. *)
From Coq Require Import List Arith Bool PeanoNat Lia Ring_theory ZArith QArith Qcanon.
Import ListNotations.
Require Import NV.C09.Model NV.C09.Proofs NV.C09.ProofsH NV.C09.ProofsK NV.C09.ProofsI NV.C09.ModelSHT NV.C09.ProofsSHT NV.C09.ModelSeq NV.C09.ProofsS.
Local Open Scope nat_scope.

Definition is_ring (K : ring_ops) : Prop :=
  ring_theory (op_0 K) (op_1 K) (op_add K) (op_mul K) (op_sub K) (op_opp K) eq.

(* ---- volume convention: zero mode of the transform of a position-space field = its integral ---- *)

(* operator domain = position space: TIMES gives dvol(domain) * sum *)
Theorem C09_fft_zero_mode_times :
  forall K, is_ring K -> forall N W, kernel_zero K N W -> forall g : geo K, ncells g = N ->
  forall x, 0 < N -> dom_harm g = false ->
  fft_apply K W g TIMES x 0 = cscal K (dvol_dom g) (csum K N x).
Proof. exact fft_zero_mode_times. Qed.

(* operator domain = harmonic space: the position space is the target, INVERSE_TIMES transforms it *)
Theorem C09_fft_zero_mode_inverse :
  forall K, is_ring K -> forall N W, kernel_zero K N W -> forall g : geo K, ncells g = N ->
  forall x, 0 < N -> dom_harm g = true ->
  fft_apply K W g INV x 0 = cscal K (dvol_tgt g) (csum K N x).
Proof. exact fft_zero_mode_inverse. Qed.

Theorem C09_hartley_zero_mode_times :
  forall K, is_ring K -> forall N W, kernel_zero K N W -> forall noncanon (g : geo K), ncells g = N ->
  forall x, 0 < N -> hartley_cart K noncanon W g TIMES x 0 = op_mul K (dvol_dom g) (rsum K N x).
Proof. exact hartley_zero_mode_times. Qed.

Theorem C09_hartley_zero_mode_inverse :
  forall K, is_ring K -> forall N W, kernel_zero K N W -> forall noncanon (g : geo K), ncells g = N ->
  forall x, 0 < N -> hartley_cart K noncanon W g INV x 0 = op_mul K (dvol_tgt g) (rsum K N x).
Proof. exact hartley_zero_mode_inverse. Qed.

(* ---- the four modes of FFTOperator use consistent factors -------------------------------------- *)

(* ADJOINT_TIMES is the conjugate transpose of TIMES (both orientations of the operator) *)
Theorem C09_fft_adjoint :
  forall K, is_ring K -> forall N W (g : geo K), ncells g = N ->
  op_mul K (natR K N) (inv_n g) = op_1 K ->
  forall x y, dot K N (fft_apply K W g TIMES x) y = dot K N x (fft_apply K W g ADJ y).
Proof. exact fft_adjoint. Qed.

Theorem C09_fft_adjoint_inverse :
  forall K, is_ring K -> forall N W (g : geo K), ncells g = N ->
  op_mul K (natR K N) (inv_n g) = op_1 K ->
  forall x y, dot K N (fft_apply K W g ADJINV x) y = dot K N x (fft_apply K W g INV y).
Proof. exact fft_adjoint_inverse. Qed.

(* INVERSE_TIMES o TIMES = id, given N * dvol * dvol' = 1 (RGSpace.check_codomain) *)
Theorem C09_fft_inverse_left :
  forall K, is_ring K -> forall N W, kernel_sym K N W -> kernel_orth K N W ->
  forall g : geo K, ncells g = N ->
  op_mul K (natR K N) (inv_n g) = op_1 K ->
  op_mul K (natR K N) (op_mul K (dvol_dom g) (dvol_tgt g)) = op_1 K ->
  forall x j, j < N -> fft_apply K W g INV (fft_apply K W g TIMES x) j = x j.
Proof. exact fft_inverse_left. Qed.

Theorem C09_fft_inverse_right :
  forall K, is_ring K -> forall N W, kernel_sym K N W -> kernel_orth K N W ->
  forall g : geo K, ncells g = N ->
  op_mul K (natR K N) (inv_n g) = op_1 K ->
  op_mul K (natR K N) (op_mul K (dvol_dom g) (dvol_tgt g)) = op_1 K ->
  forall y k, k < N -> fft_apply K W g TIMES (fft_apply K W g INV y) k = y k.
Proof. exact fft_inverse_right. Qed.

Theorem C09_fft_adjoint_inverse_left :
  forall K, is_ring K -> forall N W, kernel_sym K N W -> kernel_orth K N W ->
  forall g : geo K, ncells g = N ->
  op_mul K (natR K N) (inv_n g) = op_1 K ->
  op_mul K (natR K N) (op_mul K (dvol_dom g) (dvol_tgt g)) = op_1 K ->
  forall y k, k < N -> fft_apply K W g ADJINV (fft_apply K W g ADJ y) k = y k.
Proof. exact fft_adjoint_inverse_left. Qed.

(* ---- Hartley transform: Re +/- Im of the DFT, both conventions ---------------------------------- *)

(* its real kernel matrix is cos -/+ sin *)
Theorem C09_hartley_matrix :
  forall K, is_ring K -> forall N W noncanon x k,
  hartley K noncanon W N x k = rsum K N (fun j => op_mul K (hmat K W noncanon j k) (x j)).
Proof. exact hartley_matrix. Qed.

(* real-linear *)
Theorem C09_hartley_linear_scal :
  forall K, is_ring K -> forall N W noncanon s x k,
  hartley K noncanon W N (fun j => op_mul K s (x j)) k = op_mul K s (hartley K noncanon W N x k).
Proof. exact hartley_scal. Qed.

Theorem C09_hartley_linear_add :
  forall K, is_ring K -> forall N W noncanon x y k,
  hartley K noncanon W N (fun j => op_add K (x j) (y j)) k
  = op_add K (hartley K noncanon W N x k) (hartley K noncanon W N y k).
Proof. exact hartley_add. Qed.

(* its own inverse up to N, under both conventions *)
Theorem C09_hartley_involution :
  forall K, is_ring K -> forall N W, kernel_sym K N W -> kernel_orth K N W -> kernel_real K N W ->
  forall noncanon x l, l < N ->
  hartley K noncanon W N (hartley K noncanon W N x) l = op_mul K (natR K N) (x l).
Proof. exact hartley_involution. Qed.

(* symmetric *)
Theorem C09_hartley_symmetric :
  forall K, is_ring K -> forall N W, kernel_sym K N W -> forall noncanon x y,
  rdot K N (hartley K noncanon W N x) y = rdot K N x (hartley K noncanon W N y).
Proof. exact hartley_symmetric. Qed.

(* ---- the four modes of HartleyOperator ---------------------------------------------------------- *)
Theorem C09_hartley_adjoint :
  forall K, is_ring K -> forall N W, kernel_sym K N W -> forall noncanon (g : geo K), ncells g = N ->
  forall x y, rdot K N (hartley_cart K noncanon W g TIMES x) y = rdot K N x (hartley_cart K noncanon W g ADJ y).
Proof. exact hartley_adjoint. Qed.

Theorem C09_hartley_adjoint_inverse :
  forall K, is_ring K -> forall N W, kernel_sym K N W -> forall noncanon (g : geo K), ncells g = N ->
  forall x y, rdot K N (hartley_cart K noncanon W g ADJINV x) y = rdot K N x (hartley_cart K noncanon W g INV y).
Proof. exact hartley_adjoint_inverse. Qed.

Theorem C09_hartley_inverse_left :
  forall K, is_ring K -> forall N W, kernel_sym K N W -> kernel_orth K N W -> kernel_real K N W ->
  forall noncanon (g : geo K), ncells g = N ->
  op_mul K (natR K N) (op_mul K (dvol_dom g) (dvol_tgt g)) = op_1 K ->
  forall x j, j < N -> hartley_cart K noncanon W g INV (hartley_cart K noncanon W g TIMES x) j = x j.
Proof. exact hartley_inverse_left. Qed.

Theorem C09_hartley_inverse_right :
  forall K, is_ring K -> forall N W, kernel_sym K N W -> kernel_orth K N W -> kernel_real K N W ->
  forall noncanon (g : geo K), ncells g = N ->
  op_mul K (natR K N) (op_mul K (dvol_dom g) (dvol_tgt g)) = op_1 K ->
  forall y k, k < N -> hartley_cart K noncanon W g TIMES (hartley_cart K noncanon W g INV y) k = y k.
Proof. exact hartley_inverse_right. Qed.

Theorem C09_hartley_adjoint_inverse_left :
  forall K, is_ring K -> forall N W, kernel_sym K N W -> kernel_orth K N W -> kernel_real K N W ->
  forall noncanon (g : geo K), ncells g = N ->
  op_mul K (natR K N) (op_mul K (dvol_dom g) (dvol_tgt g)) = op_1 K ->
  forall y k, k < N -> hartley_cart K noncanon W g ADJINV (hartley_cart K noncanon W g ADJ y) k = y k.
Proof. exact hartley_adjoint_inverse_left. Qed.

(* complex input (real and imaginary part transformed separately) *)
Theorem C09_hartley_complex_inverse :
  forall K, is_ring K -> forall N W, kernel_sym K N W -> kernel_orth K N W -> kernel_real K N W ->
  forall noncanon (g : geo K), ncells g = N ->
  op_mul K (natR K N) (op_mul K (dvol_dom g) (dvol_tgt g)) = op_1 K ->
  forall x j, j < N ->
  hartley_apply K noncanon W g INV (hartley_apply K noncanon W g TIMES x) j = x j.
Proof. exact hartley_complex_inverse_left. Qed.

Theorem C09_hartley_complex_adjoint :
  forall K, is_ring K -> forall N W, kernel_sym K N W -> forall noncanon (g : geo K), ncells g = N ->
  forall x y, dot K N (hartley_apply K noncanon W g TIMES x) y = dot K N x (hartley_apply K noncanon W g ADJ y).
Proof. exact hartley_complex_adjoint. Qed.

(* ---- harmonic smoothing = Hartley.inverse(diag(Hartley)) ---------------------------------------- *)

(* a kernel that is 1 everywhere (zero width) gives the identity *)
Theorem C09_smoothing_unit_kernel :
  forall K, is_ring K -> forall N W, kernel_sym K N W -> kernel_orth K N W -> kernel_real K N W ->
  forall noncanon (g : geo K), ncells g = N ->
  op_mul K (natR K N) (op_mul K (dvol_dom g) (dvol_tgt g)) = op_1 K ->
  forall ker x j, (forall k, k < N -> ker k = op_1 K) -> j < N -> smooth K noncanon W g ker x j = x j.
Proof. exact smooth_unit_kernel. Qed.

Theorem C09_smoothing_selfadjoint :
  forall K, is_ring K -> forall N W, kernel_sym K N W -> forall noncanon (g : geo K), ncells g = N ->
  forall ker x y, rdot K N (smooth K noncanon W g ker x) y = rdot K N x (smooth K noncanon W g ker y).
Proof. exact smooth_selfadjoint. Qed.

(* the integral of the smoothed field is ker(0) times the integral of the input *)
Theorem C09_smoothing_integral :
  forall K, is_ring K -> forall N W,
  kernel_sym K N W -> kernel_zero K N W -> kernel_orth K N W -> kernel_real K N W ->
  forall noncanon (g : geo K), ncells g = N ->
  op_mul K (natR K N) (op_mul K (dvol_dom g) (dvol_tgt g)) = op_1 K ->
  forall ker x, 0 < N -> rsum K N (smooth K noncanon W g ker x) = op_mul K (ker 0) (rsum K N x).
Proof. exact smooth_integral. Qed.

(* ---- the factory HarmonicSmoothingOperator(domain, sigma, space): its sigma branches ------------- *)

(* the constructor raises exactly for sigma < 0 *)
Theorem C09_smoothing_op_raises_iff :
  forall K sg noncanon W (g : geo K) ker x, smooth_op K sg noncanon W g ker x = None <-> sg = Lt.
Proof. exact smooth_op_raises_iff. Qed.

(* the sigma == 0 shortcut (ScalingOperator 1) is the identity AND equals what the general branch
   Hartley.inverse(diag(Hartley)) gives for the zero-width kernel (== 1): no jump at sigma = 0 *)
Theorem C09_smoothing_op_zero_width :
  forall K, is_ring K -> forall N W, kernel_sym K N W -> kernel_orth K N W -> kernel_real K N W ->
  forall noncanon (g : geo K), ncells g = N ->
  op_mul K (natR K N) (op_mul K (dvol_dom g) (dvol_tgt g)) = op_1 K ->
  forall ker x, (forall k, k < N -> ker k = op_1 K) ->
  forall r0 r1, smooth_op K Eq noncanon W g ker x = Some r0 -> smooth_op K Gt noncanon W g ker x = Some r1 ->
  (forall j, r0 j = x j) /\ (forall j, j < N -> r0 j = r1 j).
Proof. exact smooth_op_zero_width. Qed.

(* whichever branch the factory takes, the operator it returns is self-adjoint *)
Theorem C09_smoothing_op_selfadjoint :
  forall K, is_ring K -> forall N W, kernel_sym K N W -> forall noncanon (g : geo K), ncells g = N ->
  forall sg ker x y rx ry,
  smooth_op K sg noncanon W g ker x = Some rx -> smooth_op K sg noncanon W g ker y = Some ry ->
  rdot K N rx y = rdot K N x ry.
Proof. exact smooth_op_selfadjoint. Qed.

(* ---- where the kernel facts come from ----------------------------------------------------------- *)

(* one axis of ANY length n: from a twiddle table w (w e ~ omega^e) with
   w 0 = 1, w (a+b) = w a * w b, conj(w a) * w a = 1, w n = 1, sum_k w(d k) = 0 for 0 < d < n *)
Theorem C09_kernel_one_axis :
  forall K, is_ring K -> forall n w, twiddle_ok K n w -> kernel_ok K n (fun j k => w (j * k)).
Proof. exact one_axis_kernel. Qed.

(* multi-axis grids: tensor products of good kernels are good *)
Theorem C09_kernel_tensor :
  forall K, is_ring K -> forall n1 n2 W1 W2, 0 < n2 -> kernel_ok K n1 W1 -> kernel_ok K n2 W2 ->
  kernel_ok K (n1 * n2) (tensor K n2 W1 W2).
Proof. exact tensor_kernel. Qed.

Theorem C09_kernel_grid :
  forall K, is_ring K -> forall w shape,
  (forall n, In n shape -> 0 < n /\ twiddle_ok K n (w n)) -> kernel_ok K (prodl shape) (kern K w shape).
Proof. exact kern_kernel. Qed.

(* Gaussian rationals: the laws hold for the tables of lengths 1, 2, 4 -- no hypotheses left *)
Theorem C09_kernel_gauss_twiddle :
  forall n, axis_ok n = true -> twiddle_ok QcK n (gw n).
Proof. exact gw_twiddle. Qed.

Theorem C09_kernel_gauss_grid :
  forall shape, forallb axis_ok shape = true -> kernel_ok QcK (prodl shape) (gkern shape).
Proof. exact gkern_kernel. Qed.

(* ---- sub-spaces of product domains: the flat (B, N, A) array is transformed slice by slice ------ *)
Theorem C09_subspace :
  forall K (f : (nat -> C K) -> nat -> C K) B N A x b k a, b < B -> k < N -> a < A ->
  nth ((b * N + k) * A + a) (flat_apply K f B N A x) (c0 K) = f (slice K N A x b a) k.
Proof. exact flat_apply_nth. Qed.

(* ---- the model's own geometry (distances d, codomain distances 1/(n d)) has N dvol dvol' = 1 ---- *)
Theorem C09_geometry_volume :
  forall shape harm dists, length dists = length shape ->
  (forall n, In n shape -> 0 < n) -> (forall d, In d dists -> d <> 0%Qc) ->
  (natR QcK (prodl shape) * (dvol_dom (ggeo shape dists harm) * dvol_tgt (ggeo shape dists harm)))%Qc = 1%Qc.
Proof. exact ggeo_vol. Qed.

(* ---- the executable instance used in the correspondence: nothing assumed ------------------------ *)
Theorem C09_instance_fft_inverse :
  forall shape dists harm, good_grid shape dists -> forall x j, j < prodl shape ->
  g_fft shape dists harm INV (g_fft shape dists harm TIMES x) j = x j.
Proof. exact i_fft_inverse. Qed.

Theorem C09_instance_fft_adjoint :
  forall shape dists harm, good_grid shape dists -> forall x y,
  dot QcK (prodl shape) (g_fft shape dists harm TIMES x) y = dot QcK (prodl shape) x (g_fft shape dists harm ADJ y).
Proof. exact i_fft_adjoint. Qed.

Theorem C09_instance_fft_adjoint_inverse :
  forall shape dists harm, good_grid shape dists -> forall x y,
  dot QcK (prodl shape) (g_fft shape dists harm ADJINV x) y = dot QcK (prodl shape) x (g_fft shape dists harm INV y).
Proof. exact i_fft_adjoint_inverse. Qed.

Theorem C09_instance_hartley_inverse :
  forall shape dists harm, good_grid shape dists -> forall c x j, j < prodl shape ->
  g_hartley c shape dists harm INV (g_hartley c shape dists harm TIMES x) j = x j.
Proof. exact i_hartley_inverse. Qed.

Theorem C09_instance_hartley_adjoint :
  forall shape dists harm, good_grid shape dists -> forall c x y,
  dot QcK (prodl shape) (g_hartley c shape dists harm TIMES x) y
  = dot QcK (prodl shape) x (g_hartley c shape dists harm ADJ y).
Proof. exact i_hartley_adjoint. Qed.

(* zero mode on the flat array of a product domain = dvol * sum over the transformed sub-space *)
Theorem C09_instance_fft_zero_mode_flat :
  forall shape dists B A x b a, good_grid shape dists -> b < B -> a < A ->
  nth ((b * prodl shape + 0) * A + a) (g_flat (g_fft shape dists false TIMES) B shape A x) (c0 QcK)
  = cscal QcK (qprod (map Q2Qc dists)) (csum QcK (prodl shape) (slice QcK (prodl shape) A (map toQC x) b a)).
Proof. exact i_fft_zero_mode_flat. Qed.

Theorem C09_instance_hartley_zero_mode_flat :
  forall c shape dists B A x b a, good_grid shape dists -> b < B -> a < A ->
  fst (nth ((b * prodl shape + 0) * A + a) (g_flat (g_hartley c shape dists false TIMES) B shape A x) (c0 QcK))
  = (qprod (map Q2Qc dists) *
     rsum QcK (prodl shape) (fun j => fst (slice QcK (prodl shape) A (map toQC x) b a j)))%Qc.
Proof. exact i_hartley_zero_mode_flat. Qed.

(* ---- SHTOperator: the real packing of the a_lm (s2 ~ sqrt 2, sh ~ sqrt(1/2) are symbols) ---------- *)

(* array lengths: twice the number of complex coefficients = LMSpace.size + lmax + 1, so that the
   lengths computed by _slice_h2p / _slice_p2h are the ones their guards demand *)
Theorem C09_sht_sizes :
  forall lmax mmax, mmax <= lmax -> 2 * n_alm lmax mmax = lm_size lmax mmax + lmax + 1.
Proof. exact sht_sizes. Qed.

Theorem C09_sht_h2p_length :
  forall lmax mmax, mmax <= lmax -> (lm_size lmax mmax + lmax + 1) / 2 = n_alm lmax mmax.
Proof. exact sht_h2p_length. Qed.

Theorem C09_sht_p2h_length :
  forall lmax mmax, mmax <= lmax -> 2 * n_alm lmax mmax - lmax - 1 = lm_size lmax mmax.
Proof. exact sht_p2h_length. Qed.

(* the packing is a bijection between LM-space vectors and coefficient lists (m = 0 real, m > 0 complex) *)
Theorem C09_sht_unpack_pack :
  forall K, is_ring K -> forall s2 sh, op_mul K s2 sh = op_1 K ->
  forall lmax k x, length x = S lmax + 2 * k -> unpack K s2 lmax (pack K sh lmax x) = x.
Proof. exact unpack_pack. Qed.

Theorem C09_sht_pack_unpack :
  forall K, is_ring K -> forall s2 sh, op_mul K s2 sh = op_1 K ->
  forall lmax rr, S lmax <= length rr -> Forall (fun p => snd p = op_0 K) (firstn (S lmax) rr) ->
  pack K sh lmax (unpack K s2 lmax rr) = rr.
Proof. exact pack_unpack. Qed.

(* the two packings are adjoint to each other (m > 0 counted twice on the coefficient side), which is
   why adjoint_times uses sqrt(2) where times uses sqrt(1/2) ... *)
Theorem C09_sht_pack_adjoint :
  forall K, is_ring K -> forall s2 sh, op_mul K (op_add K (op_1 K) (op_1 K)) sh = s2 ->
  forall lmax k x rr, length x = S lmax + 2 * k -> S lmax <= length rr ->
  wdot K lmax (pack K sh lmax x) rr = rdotl K x (unpack K s2 lmax rr).
Proof. exact pack_adjoint. Qed.

(* ... and the packing is an isometry: |x|^2 = sum_{m=0} |a_l0|^2 + 2 sum_{m>0} |a_lm|^2 *)
Theorem C09_sht_pack_isometry :
  forall K, is_ring K -> forall s2 sh, op_mul K s2 sh = op_1 K ->
  op_mul K (op_add K (op_1 K) (op_1 K)) sh = s2 ->
  forall lmax k x, length x = S lmax + 2 * k ->
  wdot K lmax (pack K sh lmax x) (pack K sh lmax x) = rdotl K x x.
Proof. exact pack_isometry. Qed.

(* non-vacuity: Q[sqrt 2] is a ring in which sqrt 2 and sqrt(1/2) satisfy the two hypotheses *)
Theorem C09_sht_symbols_exist :
  is_ring Q2K /\ op_mul Q2K q2_s2 q2_sh = op_1 Q2K /\
  op_mul Q2K (op_add Q2K (op_1 Q2K) (op_1 Q2K)) q2_sh = q2_s2.
Proof. exact (conj Q2K_ring Q2K_symbols). Qed.

(* non-vacuity: the hypotheses are satisfiable, and the model computes what one expects on a
   4 x 2 grid with distances (1/2, 2): zero mode of the all-ones field = volume = 4*2*(1/2)*2 = 8 *)
Example C09_good_grid_example : good_grid [4; 2] [(1 # 2)%Q; (2 # 1)%Q].
Proof. exact good_example. Qed.

Example C09_zero_mode_example :
  qceqb (g_fft [4; 2] [(1 # 2)%Q; (2 # 1)%Q] false TIMES (fun _ => (1%Qc, 0%Qc)) 0) (Q2Qc (8 # 1), 0%Qc) = true /\
  qceqb (g_fft [4; 2] [(1 # 2)%Q; (2 # 1)%Q] false TIMES (fun _ => (1%Qc, 0%Qc)) 3) (0%Qc, 0%Qc) = true.
Proof. split; vm_compute; reflexivity. Qed.
