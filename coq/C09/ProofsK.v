(* C09 -- where the DFT kernel facts come from:
     (1) one axis of any length n: from a twiddle table with the group laws and the orthogonality sums;
     (2) tensor products (multi-axis RGSpaces), hence [kern] of any shape;
     (3) n in {1,2,4}: the twiddle laws are PROVED over the Gaussian rationals;
   plus: the flat (B, N, A) array model applies the transform slice by slice, and the model's own
   geometry satisfies N * dvol * dvol' = 1. *)
From Coq Require Import List Arith Bool PeanoNat Lia Ring Ring_theory.
Import ListNotations.
Require Import NV.C09.Model NV.C09.Proofs.

Section Kernels.
  Variable K : ring_ops.
  Local Notation R := (carrier K).
  Local Notation r0 := (op_0 K).
  Local Notation r1 := (op_1 K).
  Local Notation radd := (op_add K).
  Local Notation rmul := (op_mul K).
  Local Notation rsub := (op_sub K).
  Local Notation ropp := (op_opp K).
  Local Notation C := (C K).
  Local Notation c0 := (c0 K).
  Local Notation c1 := (c1 K).
  Local Notation cadd := (cadd K).
  Local Notation cmul := (cmul K).
  Local Notation csub := (csub K).
  Local Notation copp := (copp K).
  Local Notation cconj := (cconj K).
  Local Notation ofR := (ofR K).
  Local Notation csum := (csum K).
  Local Notation natR := (natR K).
  Local Notation natC := (natC K).

  Hypothesis Rth : ring_theory r0 r1 radd rmul rsub ropp eq.
  Add Ring Rring : Rth.
  Add Ring Cring : (Cth K Rth).

  Definition kernel_ok (N : nat) (W : nat -> nat -> C) : Prop :=
    kernel_sym K N W /\ kernel_zero K N W /\ kernel_orth K N W /\ kernel_real K N W.

  Lemma natR_add a b : natR (a + b) = radd (natR a) (natR b).
  Proof. induction b; [rewrite Nat.add_0_r; cbn; ring|]. rewrite Nat.add_succ_r. cbn. rewrite IHb. ring. Qed.
  Lemma natR_mul a b : natR (a * b) = rmul (natR a) (natR b).
  Proof.
    induction a; cbn [Nat.mul]; [cbn; ring|].
    rewrite natR_add, IHa. cbn. ring.
  Qed.
  Lemma natC_mul a b : natC (a * b) = cmul (natC a) (natC b).
  Proof. unfold Proofs.natC. rewrite natR_mul. apply ofR_mul. exact Rth. Qed.
  Lemma snd_natC a : snd (natC a) = r0.
  Proof. reflexivity. Qed.

  Lemma csum_app a b f : csum (a + b) f = cadd (csum a f) (csum b (fun i => f (a + i))).
  Proof.
    induction b.
    - rewrite Nat.add_0_r. cbn. ring.
    - rewrite Nat.add_succ_r. cbn. rewrite IHb. ring.
  Qed.

  (* ---- (1) one axis -------------------------------------------------------------------------- *)
  Definition twiddle_ok (n : nat) (w : nat -> C) : Prop :=
    w 0 = c1 /\
    (forall a b, w (a + b) = cmul (w a) (w b)) /\
    (forall a, cmul (cconj (w a)) (w a) = c1) /\
    w n = c1 /\
    (forall d, 0 < d -> d < n -> csum n (fun k => w (d * k)) = c0).

  Section OneAxis.
    Variable n : nat.
    Variable w : nat -> C.
    Hypothesis Hw : twiddle_ok n w.

    Let w0 := proj1 Hw.
    Let wadd := proj1 (proj2 Hw).
    Let wunit := proj1 (proj2 (proj2 Hw)).
    Let wn := proj1 (proj2 (proj2 (proj2 Hw))).
    Let worth := proj2 (proj2 (proj2 (proj2 Hw))).

    Lemma w_period k : w (n * k) = c1.
    Proof.
      induction k.
      - rewrite Nat.mul_0_r. exact w0.
      - rewrite Nat.mul_succ_r, Nat.add_comm, wadd, wn, IHk. ring.
    Qed.

    Lemma one_axis_kernel : kernel_ok n (fun j k => w (j * k)).
    Proof.
      repeat split.
      - intros j k _ _. rewrite Nat.mul_comm. reflexivity.
      - intros j _. rewrite Nat.mul_0_r. exact w0.
      - intros j l Hj Hl.
        destruct (Nat.eqb_spec j l) as [->|Hne].
        + rewrite (csum_ext K n _ (fun _ => c1)) by (intros; apply wunit).
          rewrite (csum_const K Rth). ring.
        + destruct (Nat.lt_ge_cases j l) as [Hlt|Hge].
          * set (d := l - j).
            rewrite (csum_ext K n _ (fun k => w (d * k))).
            -- apply worth; unfold d; lia.
            -- intros k Hk. replace (l * k) with (j * k + d * k) by (unfold d; nia).
               rewrite wadd.
               transitivity (cmul (cmul (cconj (w (j * k))) (w (j * k))) (w (d * k))); [ring|].
               rewrite wunit. ring.
          * set (d := j - l).
            rewrite (csum_ext K n _ (fun k => cconj (w (d * k)))).
            -- rewrite <- (cconj_csum K Rth), worth by (unfold d; lia). apply (cconj_c0 K Rth).
            -- intros k Hk. replace (j * k) with (l * k + d * k) by (unfold d; nia).
               rewrite wadd, (cconj_mul K Rth).
               transitivity (cmul (cmul (cconj (w (l * k))) (w (l * k))) (cconj (w (d * k)))); [ring|].
               rewrite wunit. ring.
      - intros j l Hj Hl.
        rewrite (csum_ext K n _ (fun k => w ((j + l) * k))).
        2:{ intros k Hk. rewrite Nat.mul_add_distr_r, wadd. reflexivity. }
        destruct (Nat.eq_dec (j + l) 0) as [E0|N0].
        { rewrite E0. rewrite (csum_ext K n _ (fun _ => c1)) by (intros; cbn; exact w0).
          rewrite (csum_const K Rth). cbn. ring. }
        destruct (Nat.lt_ge_cases (j + l) n) as [Hlt|Hge].
        { rewrite worth by lia. reflexivity. }
        destruct (Nat.eq_dec (j + l) n) as [En|Nn].
        { rewrite En. rewrite (csum_ext K n _ (fun _ => c1)) by (intros; apply w_period).
          rewrite (csum_const K Rth). cbn. ring. }
        set (d := j + l - n).
        rewrite (csum_ext K n _ (fun k => w (d * k))).
        + rewrite worth by (unfold d; lia). reflexivity.
        + intros k Hk. replace ((j + l) * k) with (n * k + d * k) by (unfold d; nia).
          rewrite wadd, w_period. ring.
    Qed.
  End OneAxis.

  (* ---- (2) tensor products -------------------------------------------------------------------- *)
  Lemma csum_prod n1 n2 (f : nat -> nat -> C) :
    0 < n2 ->
    csum (n1 * n2) (fun k => f (k / n2) (k mod n2)) = csum n1 (fun a => csum n2 (fun b => f a b)).
  Proof.
    intros H2. induction n1.
    - reflexivity.
    - cbn [Nat.mul Model.csum]. rewrite Nat.add_comm, csum_app, IHn1. f_equal.
      apply (csum_ext K). intros i Hi.
      replace (n1 * n2 + i) with (i + n1 * n2) by lia.
      rewrite Nat.div_add by lia. rewrite Nat.mod_add by lia.
      rewrite Nat.div_small, Nat.mod_small by exact Hi. reflexivity.
  Qed.

  Lemma csum_sep n1 n2 (A B : nat -> C) :
    csum n1 (fun a => csum n2 (fun b => cmul (A a) (B b))) = cmul (csum n1 A) (csum n2 B).
  Proof.
    rewrite <- (csum_mul_r K Rth). apply (csum_ext K). intros a Ha.
    apply (csum_mul_l K Rth).
  Qed.

  Lemma csum_tensor n1 n2 (A B : nat -> C) :
    0 < n2 ->
    csum (n1 * n2) (fun k => cmul (A (k / n2)) (B (k mod n2))) = cmul (csum n1 A) (csum n2 B).
  Proof.
    intros H2. pose proof (csum_prod n1 n2 (fun a b => cmul (A a) (B b)) H2) as E. cbv beta in E.
    rewrite E. apply csum_sep.
  Qed.

  Section Tensor.
    Variables n1 n2 : nat.
    Variables W1 W2 : nat -> nat -> C.
    Hypothesis H2pos : 0 < n2.
    Hypothesis HK1 : kernel_ok n1 W1.
    Hypothesis HK2 : kernel_ok n2 W2.

    Definition tensor (j k : nat) : C := cmul (W1 (j / n2) (k / n2)) (W2 (j mod n2) (k mod n2)).

    Lemma idx_bounds j : j < n1 * n2 -> j / n2 < n1 /\ j mod n2 < n2.
    Proof.
      intros Hj. split.
      - apply Nat.div_lt_upper_bound; lia.
      - apply Nat.mod_upper_bound. lia.
    Qed.

    Lemma idx_eq j l : (j =? l) = ((j / n2 =? l / n2) && (j mod n2 =? l mod n2)).
    Proof.
      destruct (Nat.eqb_spec j l) as [->|Hne].
      - rewrite !Nat.eqb_refl. reflexivity.
      - destruct (Nat.eqb_spec (j / n2) (l / n2)) as [E1|]; [|reflexivity].
        destruct (Nat.eqb_spec (j mod n2) (l mod n2)) as [E2|]; [|reflexivity].
        exfalso. apply Hne.
        rewrite (Nat.div_mod j n2), (Nat.div_mod l n2) by lia. rewrite E1, E2. reflexivity.
    Qed.

    Lemma tensor_kernel : kernel_ok (n1 * n2) tensor.
    Proof.
      destruct HK1 as (S1 & Z1 & O1 & R1). destruct HK2 as (S2 & Z2 & O2 & R2).
      repeat split.
      - intros j k Hj Hk. unfold tensor.
        destruct (idx_bounds j Hj), (idx_bounds k Hk).
        rewrite S1, S2 by assumption. reflexivity.
      - intros j Hj. unfold tensor. destruct (idx_bounds j Hj).
        rewrite Nat.div_0_l, Nat.mod_0_l by lia. rewrite Z1, Z2 by assumption. ring.
      - intros j l Hj Hl. unfold tensor.
        destruct (idx_bounds j Hj) as [Hj1 Hj2], (idx_bounds l Hl) as [Hl1 Hl2].
        pose proof (csum_tensor n1 n2 (fun a => cmul (cconj (W1 (j / n2) a)) (W1 (l / n2) a))
                      (fun b => cmul (cconj (W2 (j mod n2) b)) (W2 (l mod n2) b)) H2pos) as E.
        cbv beta in E.
        rewrite (csum_ext K (n1 * n2) _
          (fun k => cmul (cmul (cconj (W1 (j / n2) (k / n2))) (W1 (l / n2) (k / n2)))
                         (cmul (cconj (W2 (j mod n2) (k mod n2))) (W2 (l mod n2) (k mod n2))))).
        2:{ intros k Hk. rewrite (cconj_mul K Rth). ring. }
        rewrite E.
        rewrite O1, O2 by assumption. rewrite (idx_eq j l).
        destruct (j / n2 =? l / n2), (j mod n2 =? l mod n2); cbn [andb]; try ring.
        rewrite natC_mul. reflexivity.
      - intros j l Hj Hl. unfold tensor.
        destruct (idx_bounds j Hj) as [Hj1 Hj2], (idx_bounds l Hl) as [Hl1 Hl2].
        pose proof (csum_tensor n1 n2 (fun a => cmul (W1 (j / n2) a) (W1 (l / n2) a))
                      (fun b => cmul (W2 (j mod n2) b) (W2 (l mod n2) b)) H2pos) as E.
        cbv beta in E.
        rewrite (csum_ext K (n1 * n2) _
          (fun k => cmul (cmul (W1 (j / n2) (k / n2)) (W1 (l / n2) (k / n2)))
                         (cmul (W2 (j mod n2) (k mod n2)) (W2 (l mod n2) (k mod n2))))).
        2:{ intros k Hk. ring. }
        rewrite E.
        pose proof (R1 _ _ Hj1 Hl1) as E1. pose proof (R2 _ _ Hj2 Hl2) as E2.
        destruct (csum n1 _) as [a1 b1], (csum n2 _) as [a2 b2]. cbn in *. subst. ring.
    Qed.
  End Tensor.

  Lemma unit_kernel : kernel_ok 1 (fun _ _ => c1).
  Proof.
    split; [|split; [|split]].
    - intros j k _ _. reflexivity.
    - intros j _. reflexivity.
    - intros j l Hj Hl. assert (j = 0) by lia. assert (l = 0) by lia. subst.
      cbn. unfold Proofs.natC, Model.ofR, Model.cmul, Model.cconj, Model.cadd, Model.c0, Model.c1.
      cbn. f_equal; ring.
    - intros j l Hj Hl. cbn. ring.
  Qed.

  Lemma kernel_ok_ext N W W' :
    (forall j k, j < N -> k < N -> W j k = W' j k) -> kernel_ok N W -> kernel_ok N W'.
  Proof.
    intros E (S & Z & O & Rr). repeat split.
    - intros j k Hj Hk. rewrite <- !E by assumption. apply S; assumption.
    - intros j Hj. rewrite <- E by lia. apply Z; assumption.
    - intros j l Hj Hl. rewrite <- (O j l Hj Hl). apply (csum_ext K). intros k Hk.
      rewrite !E by assumption. reflexivity.
    - intros j l Hj Hl. rewrite <- (Rr j l Hj Hl). f_equal. apply (csum_ext K). intros k Hk.
      rewrite !E by assumption. reflexivity.
  Qed.

  Lemma prodl_pos shape : (forall n, In n shape -> 0 < n) -> 0 < prodl shape.
  Proof.
    induction shape; intros H; cbn; [lia|].
    assert (0 < a) by (apply H; left; reflexivity).
    assert (0 < prodl shape) by (apply IHshape; intros; apply H; right; assumption). nia.
  Qed.

  (* the kernel of any multi-axis grid whose axes all have a good twiddle table *)
  Lemma kern_kernel (w : nat -> nat -> C) shape :
    (forall n, In n shape -> 0 < n /\ twiddle_ok n (w n)) ->
    kernel_ok (prodl shape) (kern K w shape).
  Proof.
    induction shape as [|n rest IH]; intros H.
    - exact unit_kernel.
    - cbn [prodl kern].
      assert (Hn : 0 < n /\ twiddle_ok n (w n)) by (apply H; left; reflexivity).
      assert (Hrest : forall m, In m rest -> 0 < m /\ twiddle_ok m (w m)) by (intros; apply H; right; assumption).
      assert (Hpos : 0 < prodl rest) by (apply prodl_pos; intros m Hm; apply Hrest; exact Hm).
      exact (tensor_kernel n (prodl rest) (fun j k => w n (j * k)) (kern K w rest) Hpos
               (one_axis_kernel n (w n) (proj2 Hn)) (IH Hrest)).
  Qed.

  (* ---- the flat (B, N, A) array model applies f slice by slice -------------------------------- *)
  Lemma flat_apply_nth (f : (nat -> C) -> nat -> C) B N A x b k a :
    b < B -> k < N -> a < A ->
    nth ((b * N + k) * A + a) (flat_apply K f B N A x) c0 = f (slice K N A x b a) k.
  Proof.
    intros Hb Hk Ha. unfold flat_apply.
    set (p := (b * N + k) * A + a).
    assert (H1 : b * N + k + 1 <= B * N) by nia.
    assert (H2 : (b * N + k + 1) * A <= B * N * A) by (apply Nat.mul_le_mono_r; exact H1).
    assert (Hp : p < B * N * A) by (unfold p; nia).
    set (gfun := fun p0 => f (slice K N A x (p0 / (N * A)) (p0 mod A)) ((p0 / A) mod N)).
    rewrite (nth_indep _ c0 (gfun 0)) by (rewrite map_length, seq_length; exact Hp).
    rewrite map_nth, seq_nth by exact Hp. cbn [Nat.add]. unfold gfun.
    assert (E1 : p / A = b * N + k).
    { unfold p. rewrite Nat.div_add_l by lia. rewrite Nat.div_small by exact Ha. lia. }
    assert (E2 : p mod A = a).
    { unfold p. rewrite Nat.add_comm, Nat.mod_add by lia. apply Nat.mod_small. exact Ha. }
    assert (E3 : p / (N * A) = b).
    { rewrite (Nat.mul_comm N A), <- Nat.div_div by lia. rewrite E1.
      rewrite Nat.div_add_l by lia. rewrite Nat.div_small by exact Hk. lia. }
    rewrite E1, E2, E3.
    replace ((b * N + k) mod N) with k.
    - reflexivity.
    - rewrite Nat.add_comm, Nat.mod_add by lia. symmetry. apply Nat.mod_small. exact Hk.
  Qed.

  Lemma flat_apply_length (f : (nat -> C) -> nat -> C) B N A x :
    length (flat_apply K f B N A x) = B * N * A.
  Proof. unfold flat_apply. rewrite map_length, seq_length. reflexivity. Qed.
End Kernels.

(* ================================================================================================
   (3) Gaussian rationals: the twiddle tables of lengths 1, 2, 4 satisfy the laws (proved).
   ================================================================================================ *)
From Coq Require Import ZArith QArith Qcanon Field.
Local Open Scope nat_scope.

Lemma QcK_ring : ring_theory (op_0 QcK) (op_1 QcK) (op_add QcK) (op_mul QcK) (op_sub QcK) (op_opp QcK) eq.
Proof. exact Qcrt. Qed.

Lemma qc_pair_eq (a b : QC) :
  (this (fst a) == this (fst b))%Q -> (this (snd a) == this (snd b))%Q -> a = b.
Proof.
  intros H1 H2. destruct a, b. cbn in *. f_equal; apply Qc_is_canon; assumption.
Qed.

Ltac qc_compute := apply qc_pair_eq; vm_compute; reflexivity.

Lemma ipow_mod e : ipow e = ipow (e mod 4).
Proof. unfold ipow. rewrite Nat.mod_mod by discriminate. reflexivity. Qed.

Lemma ipow_add a b : ipow (a + b) = Model.cmul QcK (ipow a) (ipow b).
Proof.
  rewrite (ipow_mod (a + b)), (ipow_mod a), (ipow_mod b).
  rewrite Nat.add_mod by discriminate.
  pose proof (Nat.mod_upper_bound a 4 ltac:(discriminate)) as Ha.
  pose proof (Nat.mod_upper_bound b 4 ltac:(discriminate)) as Hb.
  destruct (a mod 4) as [|[|[|[|?]]]]; try lia;
    destruct (b mod 4) as [|[|[|[|?]]]]; try lia; qc_compute.
Qed.

Lemma ipow_unit a : Model.cmul QcK (Model.cconj QcK (ipow a)) (ipow a) = Model.c1 QcK.
Proof.
  rewrite (ipow_mod a).
  pose proof (Nat.mod_upper_bound a 4 ltac:(discriminate)) as Ha.
  destruct (a mod 4) as [|[|[|[|?]]]]; try lia; qc_compute.
Qed.

Lemma gw_twiddle n : axis_ok n = true -> twiddle_ok QcK n (gw n).
Proof.
  intros Hn. unfold axis_ok in Hn.
  assert (Hc : n = 1 \/ n = 2 \/ n = 4).
  { destruct (Nat.eqb_spec n 1); [auto|]. destruct (Nat.eqb_spec n 2); [auto|].
    destruct (Nat.eqb_spec n 4); [auto|]. discriminate. }
  unfold twiddle_ok, gw. split; [|split; [|split; [|split]]].
  - qc_compute.
  - intros a b. rewrite Nat.mul_add_distr_r. apply ipow_add.
  - intros a. apply ipow_unit.
  - destruct Hc as [->|[->| ->]]; qc_compute.
  - intros d Hd0 Hdn. destruct Hc as [->|[->| ->]].
    + lia.
    + assert (d = 1) by lia. subst. qc_compute.
    + assert (d = 1 \/ d = 2 \/ d = 3) as [->|[->| ->]] by lia; qc_compute.
Qed.

Lemma axis_ok_pos n : axis_ok n = true -> 0 < n.
Proof.
  unfold axis_ok. destruct n; [discriminate|lia].
Qed.

(* every grid with axis lengths in {1,2,4} has a kernel with all four facts, over Qc[i] *)
Lemma gkern_kernel shape :
  forallb axis_ok shape = true -> kernel_ok QcK (prodl shape) (gkern shape).
Proof.
  intros H. apply kern_kernel; [exact QcK_ring|].
  intros n Hn. rewrite forallb_forall in H. specialize (H n Hn).
  split; [apply axis_ok_pos; exact H | apply gw_twiddle; exact H].
Qed.

(* ---- the model's own geometry satisfies N * dvol * dvol' = 1 and N * (1/N) = 1 ------------------ *)
Lemma qnat_S n : qnat (S n) = (qnat n + 1)%Qc.
Proof.
  apply Qc_is_canon. unfold qnat, Qcplus, Q2Qc. cbn [this].
  rewrite !Qred_correct. rewrite Nat2Z.inj_succ. unfold Z.succ. rewrite inject_Z_plus. reflexivity.
Qed.

Lemma natR_qnat n : Model.natR QcK n = qnat n.
Proof.
  induction n.
  - apply Qc_is_canon. reflexivity.
  - cbn [Model.natR]. rewrite IHn, qnat_S. reflexivity.
Qed.

Lemma qnat_nonzero n : 0 < n -> qnat n <> 0%Qc.
Proof.
  intros Hn E. apply (f_equal this) in E. unfold qnat, Q2Qc in E. cbn [this] in E.
  assert (Qred (inject_Z (Z.of_nat n)) == 0)%Q as E' by (rewrite E; reflexivity).
  rewrite Qred_correct in E'. unfold Qeq, inject_Z in E'. cbn in E'. lia.
Qed.

Lemma ggeo_inv shape harm dists :
  (forall n, In n shape -> 0 < n) ->
  (Model.natR QcK (prodl shape) * inv_n (ggeo shape dists harm))%Qc = 1%Qc.
Proof.
  intros Hpos. cbn [ggeo inv_n]. rewrite natR_qnat.
  assert (qnat (prodl shape) <> 0%Qc) by (apply qnat_nonzero, prodl_pos, Hpos).
  field. assumption.
Qed.

Lemma ggeo_vol shape harm : forall dists,
  length dists = length shape ->
  (forall n, In n shape -> 0 < n) -> (forall d, In d dists -> d <> 0%Qc) ->
  (Model.natR QcK (prodl shape) * (dvol_dom (ggeo shape dists harm) * dvol_tgt (ggeo shape dists harm)))%Qc = 1%Qc.
Proof.
  cbn [ggeo dvol_dom dvol_tgt].
  induction shape as [|n rest IH]; intros dists Hlen Hpos Hd.
  - destruct dists; [|discriminate]. cbn. apply Qc_is_canon. reflexivity.
  - destruct dists as [|d ds]; [discriminate|].
    cbn [prodl]. rewrite (natR_mul QcK QcK_ring).
    unfold codists. cbn [combine map qprod fst snd]. fold (codists rest ds).
    assert (Hn : qnat n <> 0%Qc) by (apply qnat_nonzero, Hpos; left; reflexivity).
    assert (Hd0 : d <> 0%Qc) by (apply Hd; left; reflexivity).
    specialize (IH ds ltac:(cbn in Hlen; lia) ltac:(intros; apply Hpos; right; assumption)
                   ltac:(intros; apply Hd; right; assumption)).
    rewrite natR_qnat in IH. rewrite !natR_qnat. cbn [op_mul QcK] in *.
    transitivity ((qnat n * d * / (qnat n * d)) * (qnat (prodl rest) * (qprod ds * qprod (codists rest ds))))%Qc.
    + cbn [op_mul QcK]. field. split; assumption.
    + cbn [op_mul QcK] in IH. rewrite IH. field. split; assumption.
Qed.
