(* C09 -- Hartley transform (both sign conventions), HartleyOperator's four modes, smoothing. *)
From Coq Require Import List Arith Bool PeanoNat Lia Ring Ring_theory.
Import ListNotations.
Require Import NV.C09.Model NV.C09.Proofs.

Section Hartley.
  Variable K : ring_ops.
  Local Notation R := (carrier K).
  Local Notation r0 := (op_0 K).
  Local Notation r1 := (op_1 K).
  Local Notation radd := (op_add K).
  Local Notation rmul := (op_mul K).
  Local Notation rsub := (op_sub K).
  Local Notation ropp := (op_opp K).
  Local Notation C := (C K).
  Local Notation ofR := (ofR K).
  Local Notation csum := (csum K).
  Local Notation rsum := (rsum K).
  Local Notation natR := (natR K).

  Hypothesis Rth : ring_theory r0 r1 radd rmul rsub ropp eq.
  Add Ring Rring : Rth.

  Ltac cdestr :=
    repeat match goal with x : Model.C K |- _ => destruct x end;
    unfold Model.cadd, Model.cmul, Model.csub, Model.copp, Model.cconj, Model.cscal, Model.ofR,
           Model.c0, Model.c1 in *; cbn [fst snd] in *.

  (* ---- real finite sums ------------------------------------------------------------------------ *)
  Lemma rsum_zero n : rsum n (fun _ => r0) = r0.
  Proof. induction n; cbn; [reflexivity|]. rewrite IHn. ring. Qed.
  Lemma rsum_add n f g : rsum n (fun j => radd (f j) (g j)) = radd (rsum n f) (rsum n g).
  Proof. induction n; cbn; [ring|]. rewrite IHn. ring. Qed.
  Lemma rsum_sub n f g : rsum n (fun j => rsub (f j) (g j)) = rsub (rsum n f) (rsum n g).
  Proof. induction n; cbn; [ring|]. rewrite IHn. ring. Qed.
  Lemma rsum_opp n f : rsum n (fun j => ropp (f j)) = ropp (rsum n f).
  Proof. induction n; cbn; [ring|]. rewrite IHn. ring. Qed.
  Lemma rsum_mul_l n a f : rsum n (fun j => rmul a (f j)) = rmul a (rsum n f).
  Proof. induction n; cbn; [ring|]. rewrite IHn. ring. Qed.
  Lemma rsum_mul_r n a f : rsum n (fun j => rmul (f j) a) = rmul (rsum n f) a.
  Proof. induction n; cbn; [ring|]. rewrite IHn. ring. Qed.
  Lemma rsum_swap n m (f : nat -> nat -> R) :
    rsum n (fun j => rsum m (fun k => f j k)) = rsum m (fun k => rsum n (fun j => f j k)).
  Proof.
    induction n; cbn.
    - rewrite rsum_zero. reflexivity.
    - rewrite IHn. rewrite <- rsum_add. reflexivity.
  Qed.
  Lemma rsum_delta n j (f : nat -> R) (a : R) :
    j < n -> rsum n (fun l => rmul (f l) (if l =? j then a else r0)) = rmul (f j) a.
  Proof.
    induction n; intros Hj; [lia|]. cbn.
    destruct (Nat.eq_dec j n) as [->|Hne].
    - rewrite Nat.eqb_refl.
      rewrite (rsum_ext K n _ (fun _ => r0)).
      + rewrite rsum_zero. ring.
      + intros l Hl. destruct (Nat.eqb_spec l n); [lia|]. ring.
    - rewrite IHn by lia. destruct (Nat.eqb_spec n j); [lia|]. ring.
  Qed.

  Definition rdot (N : nat) (a b : nat -> R) : R := rsum N (fun k => rmul (a k) (b k)).

  Section Kernel.
    Variable N : nat.
    Variable W : nat -> nat -> C.
    Hypothesis Hsym : kernel_sym K N W.
    Hypothesis Hzero : kernel_zero K N W.
    Hypothesis Horth : kernel_orth K N W.
    Hypothesis Hreal : kernel_real K N W.
    Variable noncanon : bool.

    (* the real kernel matrix of the Hartley transform: cos -/+ sin
       (non-canonical = Re + Im of e^{-i..} = cos - sin; canonical = Re - Im = cos + sin = cas) *)
    Definition hmat (j k : nat) : R :=
      if noncanon then rsub (fst (W j k)) (snd (W j k)) else radd (fst (W j k)) (snd (W j k)).

    Local Notation H := (hartley K noncanon W N).

    Lemma hartley_matrix x k : H x k = rsum N (fun j => rmul (hmat j k) (x j)).
    Proof.
      unfold hartley, fftn, hmat. rewrite fst_csum, snd_csum.
      destruct noncanon.
      - rewrite <- rsum_add. apply rsum_ext. intros j Hj.
        destruct (W j k) as [c s]. cbn. ring.
      - rewrite <- rsum_sub. apply rsum_ext. intros j Hj.
        destruct (W j k) as [c s]. cbn. ring.
    Qed.

    Lemma hmat_sym j k : j < N -> k < N -> hmat j k = hmat k j.
    Proof. intros Hj Hk. unfold hmat. rewrite (Hsym j k Hj Hk). reflexivity. Qed.

    Lemma hmat_zero j : j < N -> hmat j 0 = r1.
    Proof. intros Hj. unfold hmat. rewrite (Hzero j Hj). cbn. destruct noncanon; ring. Qed.

    Lemma hmat_orth j l : j < N -> l < N ->
      rsum N (fun k => rmul (hmat j k) (hmat l k)) = if j =? l then natR N else r0.
    Proof.
      intros Hj Hl.
      pose proof (f_equal fst (Horth j l Hj Hl)) as HA.
      pose proof (Hreal j l Hj Hl) as HB.
      rewrite fst_csum in HA. rewrite snd_csum in HB.
      assert (HA' : rsum N (fun k => radd (rmul (fst (W j k)) (fst (W l k))) (rmul (snd (W j k)) (snd (W l k))))
                    = if j =? l then natR N else r0).
      { rewrite <- (rsum_ext K N (fun k => fst (Model.cmul K (Model.cconj K (W j k)) (W l k)))).
        - rewrite HA. destruct (j =? l); reflexivity.
        - intros k Hk. destruct (W j k), (W l k). cbn. ring. }
      assert (HB' : rsum N (fun k => radd (rmul (fst (W j k)) (snd (W l k))) (rmul (snd (W j k)) (fst (W l k)))) = r0).
      { rewrite <- HB. apply rsum_ext. intros k Hk. destruct (W j k), (W l k). cbn. ring. }
      unfold hmat. destruct noncanon.
      - rewrite (rsum_ext K N _ (fun k => rsub
           (radd (rmul (fst (W j k)) (fst (W l k))) (rmul (snd (W j k)) (snd (W l k))))
           (radd (rmul (fst (W j k)) (snd (W l k))) (rmul (snd (W j k)) (fst (W l k)))))).
        + rewrite rsum_sub, HA', HB'. ring.
        + intros k Hk. ring.
      - rewrite (rsum_ext K N _ (fun k => radd
           (radd (rmul (fst (W j k)) (fst (W l k))) (rmul (snd (W j k)) (snd (W l k))))
           (radd (rmul (fst (W j k)) (snd (W l k))) (rmul (snd (W j k)) (fst (W l k)))))).
        + rewrite rsum_add, HA', HB'. ring.
        + intros k Hk. ring.
    Qed.

    Lemma hartley_ext x x' k : (forall j, j < N -> x j = x' j) -> H x k = H x' k.
    Proof.
      intros E. rewrite !hartley_matrix. apply rsum_ext. intros j Hj. rewrite E by exact Hj. reflexivity.
    Qed.

    (* real-linearity *)
    Lemma hartley_scal s x k : H (fun j => rmul s (x j)) k = rmul s (H x k).
    Proof.
      rewrite !hartley_matrix, <- rsum_mul_l. apply rsum_ext. intros; ring.
    Qed.
    Lemma hartley_add x y k : H (fun j => radd (x j) (y j)) k = radd (H x k) (H y k).
    Proof.
      rewrite !hartley_matrix, <- rsum_add. apply rsum_ext. intros; ring.
    Qed.

    Lemma hartley_zero_mode x : 0 < N -> H x 0 = rsum N x.
    Proof.
      intros HN. rewrite hartley_matrix. apply rsum_ext. intros j Hj. rewrite hmat_zero by exact Hj. ring.
    Qed.

    (* self-inverse up to N, both conventions *)
    Lemma hartley_involution x l : l < N -> H (H x) l = rmul (natR N) (x l).
    Proof.
      intros Hl. rewrite hartley_matrix.
      rewrite (rsum_ext K N _ (fun k => rsum N (fun j => rmul (rmul (hmat l k) (hmat j k)) (x j)))).
      2:{ intros k Hk. rewrite hartley_matrix, <- rsum_mul_l. apply rsum_ext. intros j Hj.
          rewrite (hmat_sym k l Hk Hl). ring. }
      rewrite rsum_swap.
      rewrite (rsum_ext K N _ (fun j => rmul (x j) (if j =? l then natR N else r0))).
      - rewrite rsum_delta by exact Hl. ring.
      - intros j Hj. rewrite rsum_mul_r, (hmat_orth l j Hl Hj), (Nat.eqb_sym l j). ring.
    Qed.

    (* symmetric (self-adjoint on real vectors) *)
    Lemma hartley_symmetric x y : rdot N (H x) y = rdot N x (H y).
    Proof.
      unfold rdot.
      rewrite (rsum_ext K N _ (fun k => rsum N (fun j => rmul (rmul (hmat j k) (x j)) (y k)))).
      2:{ intros k Hk. rewrite hartley_matrix, <- rsum_mul_r. reflexivity. }
      rewrite rsum_swap. apply rsum_ext. intros j Hj.
      rewrite hartley_matrix, <- rsum_mul_l. apply rsum_ext. intros k Hk.
      rewrite (hmat_sym j k Hj Hk). ring.
    Qed.

    (* sum of all output cells = N * zero mode of the input *)
    Lemma hartley_total x : 0 < N -> rsum N (H x) = rmul (natR N) (x 0).
    Proof.
      intros HN.
      rewrite (rsum_ext K N _ (fun j => rsum N (fun k => rmul (hmat k j) (x k)))).
      2:{ intros j Hj. apply hartley_matrix. }
      rewrite rsum_swap.
      rewrite (rsum_ext K N _ (fun k => rmul (x k) (if k =? 0 then natR N else r0))).
      - rewrite rsum_delta by exact HN. ring.
      - intros k Hk.
        transitivity (rmul (rsum N (fun j => rmul (hmat k j) (hmat 0 j))) (x k)).
        + rewrite <- rsum_mul_r. apply rsum_ext. intros j Hj.
          rewrite (hmat_sym 0 j HN Hj), hmat_zero by exact Hj. ring.
        + rewrite (hmat_orth k 0 Hk HN). ring.
    Qed.

    (* ---- HartleyOperator ------------------------------------------------------------------------ *)
    Section HOp.
      Variable g : geo K.
      Hypothesis Hg : ncells g = N.
      Hypothesis Hvol : rmul (natR N) (rmul (dvol_dom g) (dvol_tgt g)) = r1.

      Local Notation cart := (hartley_cart K noncanon W g).

      Lemma cart_eq m x k : cart m x k = rmul (hartley_fct K g m) (H x k).
      Proof. unfold hartley_cart. rewrite Hg. reflexivity. Qed.

      (* zero mode = integral, whichever side is the position space *)
      Lemma hartley_zero_mode_times x : 0 < N -> cart TIMES x 0 = rmul (dvol_dom g) (rsum N x).
      Proof. intros HN. rewrite cart_eq, hartley_zero_mode by exact HN. reflexivity. Qed.
      Lemma hartley_zero_mode_inverse x : 0 < N -> cart INV x 0 = rmul (dvol_tgt g) (rsum N x).
      Proof. intros HN. rewrite cart_eq, hartley_zero_mode by exact HN. reflexivity. Qed.

      Lemma rdot_scal_l s a b : rdot N (fun k => rmul s (a k)) b = rmul s (rdot N a b).
      Proof. unfold rdot. rewrite <- rsum_mul_l. apply rsum_ext. intros; ring. Qed.
      Lemma rdot_scal_r s a b : rdot N a (fun k => rmul s (b k)) = rmul s (rdot N a b).
      Proof. unfold rdot. rewrite <- rsum_mul_l. apply rsum_ext. intros; ring. Qed.
      Lemma rdot_ext a a' b b' :
        (forall k, k < N -> a k = a' k) -> (forall k, k < N -> b k = b' k) -> rdot N a b = rdot N a' b'.
      Proof. intros Ha Hb. unfold rdot. apply rsum_ext. intros k Hk. rewrite Ha, Hb by exact Hk. reflexivity. Qed.

      Lemma cart_adjoint_gen m m' x y :
        hartley_fct K g m = hartley_fct K g m' -> rdot N (cart m x) y = rdot N x (cart m' y).
      Proof.
        intros E.
        rewrite (rdot_ext _ (fun k => rmul (hartley_fct K g m) (H x k)) y y)
          by (intros; try apply cart_eq; reflexivity).
        rewrite (rdot_ext x x _ (fun k => rmul (hartley_fct K g m') (H y k)))
          by (intros; try apply cart_eq; reflexivity).
        rewrite rdot_scal_l, rdot_scal_r, hartley_symmetric, E. reflexivity.
      Qed.

      Lemma hartley_adjoint x y : rdot N (cart TIMES x) y = rdot N x (cart ADJ y).
      Proof. apply cart_adjoint_gen. reflexivity. Qed.
      Lemma hartley_adjoint_inverse x y : rdot N (cart ADJINV x) y = rdot N x (cart INV y).
      Proof. apply cart_adjoint_gen. reflexivity. Qed.

      Lemma cart_inverse_gen m m' x j :
        rmul (natR N) (rmul (hartley_fct K g m) (hartley_fct K g m')) = r1 ->
        j < N -> cart m (cart m' x) j = x j.
      Proof.
        intros E Hj. rewrite cart_eq.
        rewrite (hartley_ext _ (fun k => rmul (hartley_fct K g m') (H x k))) by (intros; apply cart_eq).
        rewrite hartley_scal, hartley_involution by exact Hj.
        transitivity (rmul (rmul (natR N) (rmul (hartley_fct K g m) (hartley_fct K g m'))) (x j)); [ring|].
        rewrite E. ring.
      Qed.

      Lemma hartley_inverse_left x j : j < N -> cart INV (cart TIMES x) j = x j.
      Proof. apply cart_inverse_gen. cbn. rewrite <- Hvol. ring. Qed.
      Lemma hartley_inverse_right y k : k < N -> cart TIMES (cart INV y) k = y k.
      Proof. apply cart_inverse_gen. cbn. exact Hvol. Qed.
      Lemma hartley_adjoint_inverse_left y k : k < N -> cart ADJINV (cart ADJ y) k = y k.
      Proof. apply cart_inverse_gen. cbn. rewrite <- Hvol. ring. Qed.

      (* complex input: parts are transformed separately, so the inverse relations carry over *)
      Lemma hartley_complex_inverse_left (x : nat -> C) j :
        j < N -> hartley_apply K noncanon W g INV (hartley_apply K noncanon W g TIMES x) j = x j.
      Proof.
        intros Hj. unfold hartley_apply. cbn [fst snd].
        rewrite !hartley_inverse_left by exact Hj. destruct (x j); reflexivity.
      Qed.

      (* sesquilinear adjointness for complex input *)
      Lemma hartley_complex_adjoint (x y : nat -> C) :
        dot K N (hartley_apply K noncanon W g TIMES x) y = dot K N x (hartley_apply K noncanon W g ADJ y).
      Proof.
        unfold dot, hartley_apply.
        apply injective_projections.
        - rewrite !fst_csum.
          transitivity (radd (rdot N (cart TIMES (fun j => fst (x j))) (fun k => fst (y k)))
                             (rdot N (cart TIMES (fun j => snd (x j))) (fun k => snd (y k)))).
          { unfold rdot. rewrite <- rsum_add. apply rsum_ext. intros k Hk. cbn. ring. }
          rewrite !hartley_adjoint. unfold rdot. rewrite <- rsum_add. apply rsum_ext. intros k Hk. cbn. ring.
        - rewrite !snd_csum.
          transitivity (rsub (rdot N (cart TIMES (fun j => fst (x j))) (fun k => snd (y k)))
                             (rdot N (cart TIMES (fun j => snd (x j))) (fun k => fst (y k)))).
          { unfold rdot. rewrite <- rsum_sub. apply rsum_ext. intros k Hk. cbn. ring. }
          rewrite !hartley_adjoint. unfold rdot. rewrite <- rsum_sub. apply rsum_ext. intros k Hk. cbn. ring.
      Qed.

      (* ---- HarmonicSmoothingOperator = Hartley.inverse(diag(Hartley)) --------------------------- *)
      Local Notation smooth := (smooth K noncanon W g).

      Lemma smooth_unit_kernel ker x j :
        (forall k, k < N -> ker k = r1) -> j < N -> smooth ker x j = x j.
      Proof.
        intros Hk Hj. unfold Model.smooth.
        rewrite cart_eq.
        rewrite (hartley_ext _ (cart TIMES x)).
        - rewrite <- cart_eq. apply hartley_inverse_left. exact Hj.
        - intros k Hk'. rewrite Hk by exact Hk'. ring.
      Qed.

      Lemma smooth_selfadjoint ker x y : rdot N (smooth ker x) y = rdot N x (smooth ker y).
      Proof.
        unfold Model.smooth.
        rewrite (cart_adjoint_gen INV INV) by reflexivity.
        symmetry.
        rewrite <- (cart_adjoint_gen INV INV) by reflexivity.
        rewrite (rdot_ext (cart INV x) (fun k => rmul (hartley_fct K g INV) (H x k)) _
                          (fun k => rmul (ker k) (rmul (hartley_fct K g TIMES) (H y k)))).
        2:{ intros; apply cart_eq. }
        2:{ intros. rewrite cart_eq. reflexivity. }
        rewrite (rdot_ext _ (fun k => rmul (ker k) (rmul (hartley_fct K g TIMES) (H x k))) (cart INV y)
                          (fun k => rmul (hartley_fct K g INV) (H y k))).
        2:{ intros. rewrite cart_eq. reflexivity. }
        2:{ intros; apply cart_eq. }
        unfold rdot. apply rsum_ext. intros k Hk. ring.
      Qed.

      (* the smoothed field has  ker(0) * (integral of the input)  as its integral *)
      Lemma smooth_integral ker x :
        0 < N -> rsum N (smooth ker x) = rmul (ker 0) (rsum N x).
      Proof.
        intros HN. unfold Model.smooth.
        rewrite (rsum_ext K N _ (fun j => rmul (hartley_fct K g INV)
                    (H (fun k => rmul (ker k) (cart TIMES x k)) j))) by (intros; apply cart_eq).
        rewrite rsum_mul_l, hartley_total by exact HN.
        rewrite hartley_zero_mode_times by exact HN. cbn.
        transitivity (rmul (rmul (natR N) (rmul (dvol_dom g) (dvol_tgt g))) (rmul (ker 0) (rsum N x))); [ring|].
        rewrite Hvol. ring.
      Qed.
    End HOp.
  End Kernel.
End Hartley.
