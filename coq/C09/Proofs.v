(* C09 -- lemmas about the model: algebra of R[i], finite sums, abstract DFT kernel facts,
   the four modes of FFTOperator / HartleyOperator, smoothing. *)
From Coq Require Import List Arith Bool PeanoNat Lia Ring Ring_theory.
Import ListNotations.
Require Import NV.C09.Model.

Section Alg.
  Variable K : ring_ops.
  Local Notation R := (carrier K).
  Local Notation r0 := (op_0 K).
  Local Notation r1 := (op_1 K).
  Local Notation radd := (op_add K).
  Local Notation rmul := (op_mul K).
  Local Notation rsub := (op_sub K).
  Local Notation ropp := (op_opp K).
  Local Notation C := (C K).
  Local Notation c0 := (c0 K).
  Local Notation c1 := (c1 K).
  Local Notation cadd := (cadd K).
  Local Notation cmul := (cmul K).
  Local Notation csub := (csub K).
  Local Notation copp := (copp K).
  Local Notation cconj := (cconj K).
  Local Notation cscal := (cscal K).
  Local Notation ofR := (ofR K).
  Local Notation csum := (csum K).
  Local Notation rsum := (rsum K).
  Local Notation natR := (natR K).

  Hypothesis Rth : ring_theory r0 r1 radd rmul rsub ropp eq.
  Add Ring Rring : Rth.

  Ltac cdestr :=
    repeat match goal with x : Model.C K |- _ => destruct x end;
    unfold Model.cadd, Model.cmul, Model.csub, Model.copp, Model.cconj, Model.cscal, Model.ofR,
           Model.c0, Model.c1 in *; cbn [fst snd] in *.

  Lemma Cth : ring_theory c0 c1 cadd cmul csub copp eq.
  Proof.
    constructor; intros; cdestr; f_equal; ring.
  Qed.
  Add Ring Cring : Cth.

  Lemma cconj_add a b : cconj (cadd a b) = cadd (cconj a) (cconj b).
  Proof. cdestr; f_equal; ring. Qed.
  Lemma cconj_mul a b : cconj (cmul a b) = cmul (cconj a) (cconj b).
  Proof. cdestr; f_equal; ring. Qed.
  Lemma cconj_invol a : cconj (cconj a) = a.
  Proof. cdestr; f_equal; ring. Qed.
  Lemma cconj_c0 : cconj c0 = c0.
  Proof. cdestr; f_equal; ring. Qed.
  Lemma cconj_c1 : cconj c1 = c1.
  Proof. cdestr; f_equal; ring. Qed.
  Lemma cconj_ofR s : cconj (ofR s) = ofR s.
  Proof. cdestr; f_equal; ring. Qed.
  Lemma cscal_mul s a : cscal s a = cmul (ofR s) a.
  Proof. cdestr; f_equal; ring. Qed.
  Lemma ofR_mul s t : ofR (rmul s t) = cmul (ofR s) (ofR t).
  Proof. cdestr; f_equal; ring. Qed.
  Lemma ofR_add s t : ofR (radd s t) = cadd (ofR s) (ofR t).
  Proof. cdestr; f_equal; ring. Qed.
  Lemma ofR_1 : ofR r1 = c1.
  Proof. reflexivity. Qed.
  Lemma ofR_0 : ofR r0 = c0.
  Proof. reflexivity. Qed.

  Definition natC (n : nat) : C := ofR (natR n).

  (* ---- finite sums --------------------------------------------------------------------------- *)
  Lemma csum_ext n f g : (forall j, j < n -> f j = g j) -> csum n f = csum n g.
  Proof.
    induction n; intros H; cbn; [reflexivity|].
    rewrite IHn by (intros; apply H; lia). rewrite H by lia. reflexivity.
  Qed.

  Lemma csum_add n f g : csum n (fun j => cadd (f j) (g j)) = cadd (csum n f) (csum n g).
  Proof. induction n; cbn; [ring|]. rewrite IHn. ring. Qed.

  Lemma csum_mul_l n a f : csum n (fun j => cmul a (f j)) = cmul a (csum n f).
  Proof. induction n; cbn; [ring|]. rewrite IHn. ring. Qed.

  Lemma csum_mul_r n a f : csum n (fun j => cmul (f j) a) = cmul (csum n f) a.
  Proof. induction n; cbn; [ring|]. rewrite IHn. ring. Qed.

  Lemma csum_zero n : csum n (fun _ => c0) = c0.
  Proof. induction n; cbn; [reflexivity|]. rewrite IHn. ring. Qed.

  Lemma csum_const n a : csum n (fun _ => a) = cmul (natC n) a.
  Proof.
    induction n; cbn.
    - unfold natC. cbn. rewrite ofR_0. ring.
    - rewrite IHn. unfold natC. cbn. rewrite ofR_add, ofR_1. ring.
  Qed.

  Lemma csum_swap n m (f : nat -> nat -> C) :
    csum n (fun j => csum m (fun k => f j k)) = csum m (fun k => csum n (fun j => f j k)).
  Proof.
    induction n; cbn.
    - rewrite csum_zero. reflexivity.
    - rewrite IHn. rewrite <- csum_add. reflexivity.
  Qed.

  Lemma cconj_csum n f : cconj (csum n f) = csum n (fun j => cconj (f j)).
  Proof. induction n; cbn; [apply cconj_c0|]. rewrite cconj_add, IHn. reflexivity. Qed.

  Lemma csum_delta n j (f : nat -> C) (a : C) :
    j < n -> csum n (fun l => cmul (f l) (if l =? j then a else c0)) = cmul (f j) a.
  Proof.
    induction n; intros Hj; [lia|]. cbn.
    destruct (Nat.eq_dec j n) as [->|Hne].
    - rewrite Nat.eqb_refl.
      rewrite (csum_ext n _ (fun _ => c0)).
      + rewrite csum_zero. ring.
      + intros l Hl. destruct (Nat.eqb_spec l n); [lia|]. ring.
    - rewrite IHn by lia. destruct (Nat.eqb_spec n j); [lia|]. ring.
  Qed.

  Lemma rsum_ext n f g : (forall j, j < n -> f j = g j) -> rsum n f = rsum n g.
  Proof.
    induction n; intros H; cbn; [reflexivity|].
    rewrite IHn by (intros; apply H; lia). rewrite H by lia. reflexivity.
  Qed.

  Lemma fst_csum n f : fst (csum n f) = rsum n (fun j => fst (f j)).
  Proof. induction n; cbn; [reflexivity|]. rewrite IHn. reflexivity. Qed.
  Lemma snd_csum n f : snd (csum n f) = rsum n (fun j => snd (f j)).
  Proof. induction n; cbn; [reflexivity|]. rewrite IHn. reflexivity. Qed.

  Lemma csum_ofR n (f : nat -> R) : csum n (fun j => ofR (f j)) = ofR (rsum n f).
  Proof. induction n; cbn; [reflexivity|]. rewrite IHn. cdestr. f_equal; ring. Qed.

  Lemma ofR_inj a b : ofR a = ofR b -> a = b.
  Proof. intros H. injection H. auto. Qed.

  (* sesquilinear inner product  <a, b> = sum_k conj(a k) * b k  over the N cells of one slice *)
  Definition dot (N : nat) (a b : nat -> C) : C := csum N (fun k => cmul (cconj (a k)) (b k)).

  (* ==============================================================================================
     Abstract DFT kernel: a matrix W (W j k ~ e^{+2 pi i jk/N}) with the three facts used.
     ============================================================================================== *)
  Section Kernel.
    Variable N : nat.
    Variable W : nat -> nat -> C.

    Definition kernel_sym := forall j k, j < N -> k < N -> W j k = W k j.
    Definition kernel_zero := forall j, j < N -> W j 0 = c1.
    Definition kernel_orth := forall j l, j < N -> l < N ->
      csum N (fun k => cmul (cconj (W j k)) (W l k)) = if j =? l then natC N else c0.
    (* only needed for the Hartley transform: sum_k W j k * W l k is real *)
    Definition kernel_real := forall j l, j < N -> l < N ->
      snd (csum N (fun k => cmul (W j k) (W l k))) = r0.

    Hypothesis Hsym : kernel_sym.
    Hypothesis Hzero : kernel_zero.
    Hypothesis Horth : kernel_orth.

    Local Notation fftn := (fftn K W N).
    Local Notation Fi := (Fi K W N).

    Lemma fftn_zero_mode x : 0 < N -> fftn x 0 = csum N x.
    Proof.
      intros HN. unfold Model.fftn. apply csum_ext. intros j Hj.
      rewrite Hzero by exact Hj. rewrite cconj_c1. ring.
    Qed.

    Lemma Fi_fftn x j : j < N -> Fi (fftn x) j = cmul (natC N) (x j).
    Proof.
      intros Hj. unfold Model.Fi, Model.fftn.
      rewrite (csum_ext N _ (fun k => csum N (fun l => cmul (cmul (W j k) (cconj (W l k))) (x l)))).
      2:{ intros k Hk. rewrite <- csum_mul_l. apply csum_ext. intros; ring. }
      rewrite csum_swap.
      rewrite (csum_ext N _ (fun l => cmul (x l) (if l =? j then natC N else c0))).
      - rewrite csum_delta by exact Hj. ring.
      - intros l Hl. rewrite csum_mul_r. rewrite <- (Horth l j Hl Hj).
        rewrite (csum_ext N (fun k => cmul (W j k) (cconj (W l k))) (fun k => cmul (cconj (W l k)) (W j k)))
          by (intros; ring).
        ring.
    Qed.

    Lemma fftn_Fi y k : k < N -> fftn (Fi y) k = cmul (natC N) (y k).
    Proof.
      intros Hk. unfold Model.Fi, Model.fftn.
      rewrite (csum_ext N _ (fun j => csum N (fun l => cmul (cmul (cconj (W k j)) (W l j)) (y l)))).
      2:{ intros j Hj. rewrite <- csum_mul_l. apply csum_ext. intros l Hl.
          rewrite (Hsym j k Hj Hk), (Hsym j l Hj Hl). ring. }
      rewrite csum_swap.
      rewrite (csum_ext N _ (fun l => cmul (y l) (if l =? k then natC N else c0))).
      - rewrite csum_delta by exact Hk. ring.
      - intros l Hl. rewrite csum_mul_r. rewrite (Horth k l Hk Hl).
        rewrite (Nat.eqb_sym k l). ring.
    Qed.

    (* F^dagger = Fi *)
    Lemma fftn_adjoint x y : dot N (fftn x) y = dot N x (Fi y).
    Proof.
      unfold dot, Model.fftn, Model.Fi.
      rewrite (csum_ext N _ (fun k => csum N (fun j => cmul (cmul (cconj (x j)) (W j k)) (y k)))).
      2:{ intros k Hk. rewrite cconj_csum, <- csum_mul_r. apply csum_ext. intros j Hj.
          rewrite cconj_mul, cconj_invol. ring. }
      rewrite csum_swap. apply csum_ext. intros j Hj.
      rewrite <- csum_mul_l. apply csum_ext. intros; ring.
    Qed.

    Lemma Fi_adjoint x y : dot N (Fi x) y = dot N x (fftn y).
    Proof.
      unfold dot, Model.fftn, Model.Fi.
      rewrite (csum_ext N _ (fun j => csum N (fun k => cmul (cmul (cconj (x k)) (cconj (W j k))) (y j)))).
      2:{ intros j Hj. rewrite cconj_csum, <- csum_mul_r. apply csum_ext. intros k Hk.
          rewrite cconj_mul. ring. }
      rewrite csum_swap. apply csum_ext. intros k Hk.
      rewrite <- csum_mul_l. apply csum_ext. intros; ring.
    Qed.

    Lemma dot_scal_l s a b : dot N (fun k => cscal s (a k)) b = cmul (ofR s) (dot N a b).
    Proof.
      unfold dot. rewrite <- csum_mul_l. apply csum_ext. intros k Hk.
      rewrite cscal_mul, cconj_mul, cconj_ofR. ring.
    Qed.
    Lemma dot_scal_r s a b : dot N a (fun k => cscal s (b k)) = cmul (ofR s) (dot N a b).
    Proof.
      unfold dot. rewrite <- csum_mul_l. apply csum_ext. intros k Hk.
      rewrite cscal_mul. ring.
    Qed.
    Lemma dot_ext a a' b b' :
      (forall k, k < N -> a k = a' k) -> (forall k, k < N -> b k = b' k) -> dot N a b = dot N a' b'.
    Proof. intros Ha Hb. unfold dot. apply csum_ext. intros k Hk. rewrite Ha, Hb by exact Hk. reflexivity. Qed.

    Lemma fftn_ext x x' k : (forall j, j < N -> x j = x' j) -> fftn x k = fftn x' k.
    Proof. intros H. unfold Model.fftn. apply csum_ext. intros j Hj. rewrite H by exact Hj. reflexivity. Qed.
    Lemma Fi_ext x x' k : (forall j, j < N -> x j = x' j) -> Fi x k = Fi x' k.
    Proof. intros H. unfold Model.Fi. apply csum_ext. intros j Hj. rewrite H by exact Hj. reflexivity. Qed.
    Lemma fftn_scal s x k : fftn (fun j => cscal s (x j)) k = cscal s (fftn x k).
    Proof.
      unfold Model.fftn. rewrite cscal_mul, <- csum_mul_l. apply csum_ext. intros j Hj.
      rewrite cscal_mul. ring.
    Qed.
    Lemma Fi_scal s x k : Fi (fun j => cscal s (x j)) k = cscal s (Fi x k).
    Proof.
      unfold Model.Fi. rewrite cscal_mul, <- csum_mul_l. apply csum_ext. intros j Hj.
      rewrite cscal_mul. ring.
    Qed.

    (* ---- FFTOperator ------------------------------------------------------------------------- *)
    Section FFTOp.
      Variable g : geo K.
      Hypothesis Hg : ncells g = N.
      Hypothesis HinvN : rmul (natR N) (inv_n g) = r1.
      (* RGSpace.check_codomain: n * d * d' = 1 on every axis, hence N * dvol * dvol' = 1 *)
      Hypothesis Hvol : rmul (natR N) (rmul (dvol_dom g) (dvol_tgt g)) = r1.

      Local Notation app := (fft_apply K W g).

      (* the effective linear maps of the four modes *)
      Lemma fft_apply_pos_in m x k :
        x_harmonic K g m = false ->
        app m x k = cscal (if in_times_adj m then dvol_dom g else dvol_tgt g) (fftn x k).
      Proof.
        intros H. unfold fft_apply, fft_fct. rewrite H, Hg. cdestr. f_equal; ring.
      Qed.

      Lemma fft_apply_harm_in m x k :
        x_harmonic K g m = true ->
        app m x k = cscal (if in_times_adj m then dvol_dom g else dvol_tgt g) (Fi x k).
      Proof.
        intros H. unfold fft_apply, fft_fct, ifftn. rewrite H, Hg.
        set (d := if in_times_adj m then dvol_dom g else dvol_tgt g).
        rewrite !cscal_mul.
        transitivity (cmul (cmul (ofR d) (ofR (rmul (natR N) (inv_n g)))) (Model.Fi K W N x k)).
        - rewrite !ofR_mul. ring.
        - rewrite HinvN, ofR_1. ring.
      Qed.

      (* zero mode of the transform of a position-space field = dvol(position) * sum = integral.
         dom_harm = false: the position space is the domain, TIMES transforms it;
         dom_harm = true : the position space is the target, INVERSE_TIMES transforms it. *)
      Lemma fft_zero_mode_times x :
        0 < N -> dom_harm g = false -> app TIMES x 0 = cscal (dvol_dom g) (csum N x).
      Proof.
        intros HN Hh. rewrite fft_apply_pos_in by (unfold x_harmonic; cbn; exact Hh).
        cbn. rewrite fftn_zero_mode by exact HN. reflexivity.
      Qed.

      Lemma fft_zero_mode_inverse x :
        0 < N -> dom_harm g = true -> app INV x 0 = cscal (dvol_tgt g) (csum N x).
      Proof.
        intros HN Hh. rewrite fft_apply_pos_in by (unfold x_harmonic; cbn; rewrite Hh; reflexivity).
        cbn. rewrite fftn_zero_mode by exact HN. reflexivity.
      Qed.

      (* ADJOINT_TIMES is the conjugate transpose of TIMES *)
      Lemma fft_adjoint x y : dot N (app TIMES x) y = dot N x (app ADJ y).
      Proof.
        destruct (dom_harm g) eqn:Hh.
        - rewrite (dot_ext _ (fun k => cscal (dvol_dom g) (Fi x k)) y y).
          2:{ intros k Hk. apply fft_apply_harm_in. unfold x_harmonic. cbn. exact Hh. }
          2:{ reflexivity. }
          rewrite (dot_ext x x _ (fun k => cscal (dvol_dom g) (fftn y k))).
          2:{ reflexivity. }
          2:{ intros k Hk. apply fft_apply_pos_in. unfold x_harmonic. cbn. rewrite Hh. reflexivity. }
          rewrite dot_scal_l, dot_scal_r, Fi_adjoint. reflexivity.
        - rewrite (dot_ext _ (fun k => cscal (dvol_dom g) (fftn x k)) y y).
          2:{ intros k Hk. apply fft_apply_pos_in. unfold x_harmonic. cbn. exact Hh. }
          2:{ reflexivity. }
          rewrite (dot_ext x x _ (fun k => cscal (dvol_dom g) (Fi y k))).
          2:{ reflexivity. }
          2:{ intros k Hk. apply fft_apply_harm_in. unfold x_harmonic. cbn. rewrite Hh. reflexivity. }
          rewrite dot_scal_l, dot_scal_r, fftn_adjoint. reflexivity.
      Qed.

      (* ADJOINT_INVERSE_TIMES is the conjugate transpose of INVERSE_TIMES *)
      Lemma fft_adjoint_inverse x y : dot N (app ADJINV x) y = dot N x (app INV y).
      Proof.
        destruct (dom_harm g) eqn:Hh.
        - rewrite (dot_ext _ (fun k => cscal (dvol_tgt g) (Fi x k)) y y).
          2:{ intros k Hk. apply fft_apply_harm_in. unfold x_harmonic. cbn. exact Hh. }
          2:{ reflexivity. }
          rewrite (dot_ext x x _ (fun k => cscal (dvol_tgt g) (fftn y k))).
          2:{ reflexivity. }
          2:{ intros k Hk. apply fft_apply_pos_in. unfold x_harmonic. cbn. rewrite Hh. reflexivity. }
          rewrite dot_scal_l, dot_scal_r, Fi_adjoint. reflexivity.
        - rewrite (dot_ext _ (fun k => cscal (dvol_tgt g) (fftn x k)) y y).
          2:{ intros k Hk. apply fft_apply_pos_in. unfold x_harmonic. cbn. exact Hh. }
          2:{ reflexivity. }
          rewrite (dot_ext x x _ (fun k => cscal (dvol_tgt g) (Fi y k))).
          2:{ reflexivity. }
          2:{ intros k Hk. apply fft_apply_harm_in. unfold x_harmonic. cbn. rewrite Hh. reflexivity. }
          rewrite dot_scal_l, dot_scal_r, fftn_adjoint. reflexivity.
      Qed.

      Lemma vol_collapse (a b : R) (z : C) :
        rmul (natR N) (rmul a b) = r1 ->
        cscal a (cscal b (cmul (natC N) z)) = z.
      Proof.
        intros H. rewrite !cscal_mul. unfold natC.
        transitivity (cmul (ofR (rmul (natR N) (rmul a b))) z).
        - rewrite !ofR_mul. ring.
        - rewrite H, ofR_1. ring.
      Qed.

      Lemma Hvol' : rmul (natR N) (rmul (dvol_tgt g) (dvol_dom g)) = r1.
      Proof. rewrite <- Hvol. ring. Qed.

      (* INVERSE_TIMES o TIMES = id  and  TIMES o INVERSE_TIMES = id *)
      Lemma fft_inverse_left x j : j < N -> app INV (app TIMES x) j = x j.
      Proof.
        intros Hj. destruct (dom_harm g) eqn:Hh.
        - rewrite fft_apply_pos_in by (unfold x_harmonic; cbn; rewrite Hh; reflexivity). cbn.
          rewrite (fftn_ext _ (fun k => cscal (dvol_dom g) (Fi x k))).
          2:{ intros k Hk. apply fft_apply_harm_in. unfold x_harmonic. cbn. exact Hh. }
          rewrite fftn_scal, fftn_Fi by exact Hj. apply vol_collapse, Hvol'.
        - rewrite fft_apply_harm_in by (unfold x_harmonic; cbn; rewrite Hh; reflexivity). cbn.
          rewrite (Fi_ext _ (fun k => cscal (dvol_dom g) (fftn x k))).
          2:{ intros k Hk. apply fft_apply_pos_in. unfold x_harmonic. cbn. exact Hh. }
          rewrite Fi_scal, Fi_fftn by exact Hj. apply vol_collapse, Hvol'.
      Qed.

      Lemma fft_inverse_right y k : k < N -> app TIMES (app INV y) k = y k.
      Proof.
        intros Hk. destruct (dom_harm g) eqn:Hh.
        - rewrite fft_apply_harm_in by (unfold x_harmonic; cbn; exact Hh). cbn.
          rewrite (Fi_ext _ (fun j => cscal (dvol_tgt g) (fftn y j))).
          2:{ intros j Hj. apply fft_apply_pos_in. unfold x_harmonic. cbn. rewrite Hh. reflexivity. }
          rewrite Fi_scal, Fi_fftn by exact Hk. apply vol_collapse, Hvol.
        - rewrite fft_apply_pos_in by (unfold x_harmonic; cbn; exact Hh). cbn.
          rewrite (fftn_ext _ (fun j => cscal (dvol_tgt g) (Fi y j))).
          2:{ intros j Hj. apply fft_apply_harm_in. unfold x_harmonic. cbn. rewrite Hh. reflexivity. }
          rewrite fftn_scal, fftn_Fi by exact Hk. apply vol_collapse, Hvol.
      Qed.

      (* ADJOINT_INVERSE_TIMES o ADJOINT_TIMES = id *)
      Lemma fft_adjoint_inverse_left y k : k < N -> app ADJINV (app ADJ y) k = y k.
      Proof.
        intros Hk. destruct (dom_harm g) eqn:Hh.
        - rewrite fft_apply_harm_in by (unfold x_harmonic; cbn; exact Hh). cbn.
          rewrite (Fi_ext _ (fun j => cscal (dvol_dom g) (fftn y j))).
          2:{ intros j Hj. apply fft_apply_pos_in. unfold x_harmonic. cbn. rewrite Hh. reflexivity. }
          rewrite Fi_scal, Fi_fftn by exact Hk. apply vol_collapse, Hvol'.
        - rewrite fft_apply_pos_in by (unfold x_harmonic; cbn; exact Hh). cbn.
          rewrite (fftn_ext _ (fun j => cscal (dvol_dom g) (Fi y j))).
          2:{ intros j Hj. apply fft_apply_harm_in. unfold x_harmonic. cbn. rewrite Hh. reflexivity. }
          rewrite fftn_scal, fftn_Fi by exact Hk. apply vol_collapse, Hvol'.
      Qed.
    End FFTOp.
  End Kernel.
End Alg.
