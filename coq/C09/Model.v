(* C09 -- Harmonic transforms follow the volume convention.   Executable model, NO proofs.

   Mirrors the factor bookkeeping of
     nifty/cl/operators/harmonic_operators.py : FFTOperator.apply, HartleyOperator.apply,
         HartleyOperator._apply_cartesian, HarmonicSmoothingOperator
     nifty/cl/operators/linear_operator.py    : _dom / _tgt (which side the input lives on)
     nifty/cl/ducc_dispatch.py                : fftn / ifftn / _scipy_hartley (Re +/- Im by convention)
     nifty/re/correlated_field.py             : hartley
   over an arbitrary commutative ring R (scalars are R, complex numbers are pairs R*R).
   The FFT kernels themselves (ducc0.fft.c2c, scipy.fft.fftn, jax.numpy.fft.fftn) are library code;
   they are modelled by the unnormalised DFT sums against a kernel matrix W:
       fftn  x k =            sum_j conj(W j k) * x j          (numpy sign convention  e^{-2 pi i jk/n})
       ifftn x j = (1/N)  *   sum_k      W j k  * x k          (ducc c2c inorm=2, forward=False)
   For a (multi-axis) RGSpace of shape [n1;...;nd] the kernel is the tensor product of the 1-D
   twiddle tables w n e = omega_n^e  (function [kern]). *)
From Coq Require Import List Arith Bool PeanoNat.
Import ListNotations.

Inductive mode := TIMES | ADJ | INV | ADJINV.

(* linear_operator.py:  def _dom(self, mode): return self.domain if (mode & 9) else self.target
   (TIMES = 1, ADJOINT_INVERSE_TIMES = 8) *)
Definition input_on_domain (m : mode) : bool :=
  match m with TIMES | ADJINV => true | _ => false end.

(* harmonic_operators.py:  if mode & (LinearOperator.TIMES | LinearOperator.ADJOINT_TIMES): *)
Definition in_times_adj (m : mode) : bool :=
  match m with TIMES | ADJ => true | _ => false end.

Fixpoint prodl (l : list nat) : nat :=
  match l with [] => 1 | n :: r => n * prodl r end.

(* the scalars: any structure with ring operations (the theorems assume the ring laws) *)
Record ring_ops := mkops {
  carrier : Type;
  op_0 : carrier; op_1 : carrier;
  op_add : carrier -> carrier -> carrier;
  op_mul : carrier -> carrier -> carrier;
  op_sub : carrier -> carrier -> carrier;
  op_opp : carrier -> carrier
}.

Section Generic.
  Variable K : ring_ops.
  Local Notation R := (carrier K).
  Local Notation r0 := (op_0 K).
  Local Notation r1 := (op_1 K).
  Local Notation radd := (op_add K).
  Local Notation rmul := (op_mul K).
  Local Notation rsub := (op_sub K).
  Local Notation ropp := (op_opp K).

  Definition C : Type := (R * R)%type.
  Definition c0 : C := (r0, r0).
  Definition c1 : C := (r1, r0).
  Definition ofR (s : R) : C := (s, r0).
  Definition cadd (a b : C) : C := (radd (fst a) (fst b), radd (snd a) (snd b)).
  Definition csub (a b : C) : C := (rsub (fst a) (fst b), rsub (snd a) (snd b)).
  Definition copp (a : C) : C := (ropp (fst a), ropp (snd a)).
  Definition cmul (a b : C) : C :=
    (rsub (rmul (fst a) (fst b)) (rmul (snd a) (snd b)),
     radd (rmul (fst a) (snd b)) (rmul (snd a) (fst b))).
  Definition cconj (a : C) : C := (fst a, ropp (snd a)).
  (* Field * python float *)
  Definition cscal (s : R) (a : C) : C := (rmul s (fst a), rmul s (snd a)).

  Fixpoint natR (n : nat) : R := match n with 0 => r0 | S m => radd (natR m) r1 end.

  Fixpoint rsum (n : nat) (f : nat -> R) : R :=
    match n with 0 => r0 | S m => radd (rsum m f) (f m) end.
  Fixpoint csum (n : nat) (f : nat -> C) : C :=
    match n with 0 => c0 | S m => cadd (csum m f) (f m) end.

  (* ---- library kernels (oracle), as sums against the kernel matrix W ------------------------- *)
  Definition fftn (W : nat -> nat -> C) (N : nat) (x : nat -> C) (k : nat) : C :=
    csum N (fun j => cmul (cconj (W j k)) (x j)).
  Definition Fi (W : nat -> nat -> C) (N : nat) (x : nat -> C) (j : nat) : C :=
    csum N (fun k => cmul (W j k) (x k)).
  (* my_fft.c2c(a, axes=axes, inorm=2, forward=False): normalised by invN = 1/N *)
  Definition ifftn (W : nat -> nat -> C) (N : nat) (invN : R) (x : nat -> C) (j : nat) : C :=
    cscal invN (Fi W N x j).

  (* ---- geometry of the transformed sub-space ------------------------------------------------- *)
  Record geo := mkgeo {
    ncells   : nat;   (* x.domain[self._space].size *)
    dom_harm : bool;  (* self._domain[self._space].harmonic *)
    dvol_dom : R;     (* self._domain[self._space].scalar_dvol *)
    dvol_tgt : R;     (* self._target[self._space].scalar_dvol *)
    inv_n    : R      (* the 1/N used inside ifftn *)
  }.

  (* x.domain[self._space].harmonic, where x.domain = self._dom(mode) (checked by _check_input) *)
  Definition x_harmonic (g : geo) (m : mode) : bool :=
    if input_on_domain m then dom_harm g else negb (dom_harm g).

  (* FFTOperator.apply:
        ncells = x.domain[self._space].size
        if x.domain[self._space].harmonic:  # harmonic -> position
            func = ifftn ; fct = ncells
        else:
            func = fftn ; fct = 1.
        ...
        tmp = func(x.val, axes=axes)
        if mode & (LinearOperator.TIMES | LinearOperator.ADJOINT_TIMES):
            fct *= self._domain[self._space].scalar_dvol
        else:
            fct *= self._target[self._space].scalar_dvol
        return Tval if fct == 1 else Tval*fct                                           *)
  Definition fft_fct (g : geo) (m : mode) : R :=
    rmul (if x_harmonic g m then natR (ncells g) else r1)
         (if in_times_adj m then dvol_dom g else dvol_tgt g).

  Definition fft_apply (W : nat -> nat -> C) (g : geo) (m : mode) (x : nat -> C) (k : nat) : C :=
    cscal (fft_fct g m)
          (if x_harmonic g m then ifftn W (ncells g) (inv_n g) x k else fftn W (ncells g) x k).

  (* _scipy_hartley / re.correlated_field.hartley:
        tmp = fftn(a)
        add_or_sub = operator.add if c == "non_canonical_hartley" else operator.sub
        return add_or_sub(tmp.real, tmp.imag)
     [noncanon = true]  <->  hartley_convention == "non_canonical_hartley" (the default) *)
  Definition hartley (noncanon : bool) (W : nat -> nat -> C) (N : nat) (x : nat -> R) (k : nat) : R :=
    let t := fftn W N (fun j => ofR (x j)) k in
    if noncanon then radd (fst t) (snd t) else rsub (fst t) (snd t).

  (* HartleyOperator._apply_cartesian:
        tmp = hartley(x.val, axes=axes)
        if mode & (LinearOperator.TIMES | LinearOperator.ADJOINT_TIMES):
            fct = self._domain[self._space].scalar_dvol
        else:
            fct = self._target[self._space].scalar_dvol
        return Tval if fct == 1 else Tval*fct                                           *)
  Definition hartley_fct (g : geo) (m : mode) : R :=
    if in_times_adj m then dvol_dom g else dvol_tgt g.

  Definition hartley_cart (noncanon : bool) (W : nat -> nat -> C) (g : geo) (m : mode)
             (x : nat -> R) (k : nat) : R :=
    rmul (hartley_fct g m) (hartley noncanon W (ncells g) x k).

  (* HartleyOperator.apply, complex dtype:
        return (self._apply_cartesian(x.real, mode) + 1j*self._apply_cartesian(x.imag, mode)) *)
  Definition hartley_apply (noncanon : bool) (W : nat -> nat -> C) (g : geo) (m : mode)
             (x : nat -> C) (k : nat) : C :=
    (hartley_cart noncanon W g m (fun j => fst (x j)) k,
     hartley_cart noncanon W g m (fun j => snd (x j)) k).

  (* HarmonicSmoothingOperator (sigma > 0):
        Hartley = HartleyOperator(domain, space=space)           # position -> harmonic
        diag = DiagonalOperator(kernel, ddom, space)
        return Hartley.inverse(diag(Hartley))
     [ker k] is the value of the smoothing kernel at mode k. *)
  Definition smooth (noncanon : bool) (W : nat -> nat -> C) (g : geo) (ker : nat -> R)
             (x : nat -> R) (j : nat) : R :=
    hartley_cart noncanon W g INV
      (fun k => rmul (ker k) (hartley_cart noncanon W g TIMES x k)) j.

  (* ---- kernel matrix of a multi-axis RGSpace (C order: first axis slowest) --------------------- *)
  Fixpoint kern (w : nat -> nat -> C) (shape : list nat) (j k : nat) : C :=
    match shape with
    | [] => c1
    | n :: rest =>
        let m := prodl rest in
        cmul (w n ((j / m) * (k / m))) (kern w rest (j mod m) (k mod m))
    end.

  (* ---- transform on one sub-space of a product domain ----------------------------------------
     The field is a C-ordered array of shape (B, N, A): B = cells of the sub-domains before the
     transformed space, N = its cells, A = cells after it.  The transform acts on every slice
     (b, :, a) separately (axes=x.domain.axes[self._space]). *)
  Definition slice (N A : nat) (x : list C) (b a : nat) : nat -> C :=
    fun j => nth ((b * N + j) * A + a) x c0.

  Definition flat_apply (f : (nat -> C) -> nat -> C) (B N A : nat) (x : list C) : list C :=
    map (fun p => f (slice N A x (p / (N * A)) (p mod A)) ((p / A) mod N)) (seq 0 (B * N * A)).

End Generic.

Arguments mkgeo {K}.
Arguments ncells {K}.
Arguments dom_harm {K}.
Arguments dvol_dom {K}.
Arguments dvol_tgt {K}.
Arguments inv_n {K}.

(* ================================================================================================
   Executable instance: Gaussian rationals Qc[i].  Axis lengths 1, 2, 4 have their primitive root of
   unity (1, -1, i) in this ring, so the model is exact there; other lengths are refused ([axis_ok]).
   ================================================================================================ *)
From Coq Require Import ZArith QArith Qcanon.

Definition QcK : ring_ops := mkops Qc 0%Qc 1%Qc Qcplus Qcmult Qcminus Qcopp.
Definition QC : Type := C QcK.

Definition ipow (e : nat) : QC :=
  match (e mod 4)%nat with
  | 0%nat => (1%Qc, 0%Qc)
  | 1%nat => (0%Qc, 1%Qc)
  | 2%nat => ((-(1))%Qc, 0%Qc)
  | _ => (0%Qc, (-(1))%Qc)
  end.

(* omega_n^e = i^(e * 4/n) for n in {1,2,4} *)
Definition gw (n e : nat) : QC := ipow (e * (4 / n))%nat.

Definition axis_ok (n : nat) : bool := ((n =? 1) || (n =? 2) || (n =? 4))%nat.

Definition gkern (shape : list nat) : nat -> nat -> QC :=
  kern QcK gw shape.

Definition qnat (n : nat) : Qc := Q2Qc (inject_Z (Z.of_nat n)).

Fixpoint qprod (l : list Qc) : Qc := match l with [] => 1%Qc | a :: r => (a * qprod r)%Qc end.

(* rg_space.py: codomain distances 1/(n*d) (get_default_codomain / check_codomain);
   scalar_dvol = product of the distances.  [dists] are the distances of the operator's DOMAIN
   sub-space (harmonic distances if that sub-space is harmonic). *)
Definition codists (shape : list nat) (dists : list Qc) : list Qc :=
  map (fun nd => (/ (qnat (fst nd) * snd nd))%Qc) (combine shape dists).

Definition ggeo (shape : list nat) (dists : list Qc) (harm : bool) : geo QcK :=
  @mkgeo QcK (prodl shape) harm (qprod dists) (qprod (codists shape dists)) (/ qnat (prodl shape))%Qc.

Definition toQC (p : Q * Q) : QC := (Q2Qc (fst p), Q2Qc (snd p)).

Definition g_fft (shape : list nat) (dists : list Q) (harm : bool) (m : mode) : (nat -> QC) -> nat -> QC :=
  fft_apply QcK (gkern shape) (ggeo shape (map Q2Qc dists) harm) m.

Definition g_hartley (noncanon : bool) (shape : list nat) (dists : list Q) (harm : bool) (m : mode)
  : (nat -> QC) -> nat -> QC :=
  hartley_apply QcK noncanon (gkern shape)
                (ggeo shape (map Q2Qc dists) harm) m.

Definition g_flat (f : (nat -> QC) -> nat -> QC) (B : nat) (shape : list nat) (A : nat) (x : list (Q * Q))
  : list QC :=
  flat_apply QcK f B (prodl shape) A (map toQC x).

Definition qceqb (a b : QC) : bool := Qc_eq_bool (fst a) (fst b) && Qc_eq_bool (snd a) (snd b).

Fixpoint qclist_eqb (a b : list QC) : bool :=
  match a, b with
  | [], [] => true
  | x :: a', y :: b' => qceqb x y && qclist_eqb a' b'
  | _, _ => false
  end.

Definition wf (B : nat) (shape : list nat) (dists : list Q) (A : nat) (x : list (Q * Q)) : bool :=
  forallb axis_ok shape && (length dists =? length shape) && (length x =? B * prodl shape * A).

(* the correspondence checks: model output == implementation output, exactly *)
Definition check_fft (B : nat) (shape : list nat) (dists : list Q) (A : nat) (harm : bool) (m : mode)
           (x y : list (Q * Q)) : bool :=
  wf B shape dists A x && qclist_eqb (g_flat (g_fft shape dists harm m) B shape A x) (map toQC y).

Definition check_hartley (noncanon : bool) (B : nat) (shape : list nat) (dists : list Q) (A : nat)
           (harm : bool) (m : mode) (x y : list (Q * Q)) : bool :=
  wf B shape dists A x &&
  qclist_eqb (g_flat (g_hartley noncanon shape dists harm m) B shape A x) (map toQC y).

(* bare kernels (ducc_dispatch.fftn / ifftn / hartley, re.correlated_field.hartley) on a whole array
   of the given shape *)
Definition check_kernel_fftn (shape : list nat) (x y : list (Q * Q)) : bool :=
  forallb axis_ok shape && (length x =? prodl shape) &&
  qclist_eqb (g_flat (fftn QcK (gkern shape) (prodl shape)) 1 shape 1 x)
             (map toQC y).

Definition check_kernel_ifftn (shape : list nat) (x y : list (Q * Q)) : bool :=
  forallb axis_ok shape && (length x =? prodl shape) &&
  qclist_eqb (g_flat (ifftn QcK (gkern shape) (prodl shape) (/ qnat (prodl shape))%Qc)
                     1 shape 1 x)
             (map toQC y).

Definition check_kernel_hartley (noncanon : bool) (shape : list nat) (x y : list (Q * Q)) : bool :=
  forallb axis_ok shape && (length x =? prodl shape) &&
  qclist_eqb (g_flat (fun v k => (hartley QcK noncanon (gkern shape) (prodl shape)
                                          (fun j => fst (v j)) k, 0%Qc)) 1 shape 1 x)
             (map toQC y).
