(* C09 -- SHTOperator's real packing: sizes, bijection, adjointness and isometry. *)
From Coq Require Import List Arith Bool PeanoNat Lia Ring Ring_theory.
Import ListNotations.
Require Import NV.C09.Model NV.C09.ModelSHT.

(* ---- array lengths: 2 * (number of complex a_lm) = LMSpace.size + lmax + 1 ----------------------- *)
Lemma tri_even m : exists q, (m + 1) * (m + 2) = 2 * q.
Proof.
  induction m as [|m [q Hq]].
  - exists 1. reflexivity.
  - exists (q + m + 2). nia.
Qed.

Lemma sht_sizes lmax mmax : mmax <= lmax -> 2 * n_alm lmax mmax = lm_size lmax mmax + lmax + 1.
Proof.
  intros H. unfold n_alm, lm_size. destruct (tri_even mmax) as [q Hq]. rewrite Hq.
  rewrite (Nat.mul_comm 2 q), Nat.div_mul by discriminate.
  set (d := lmax - mmax). assert (lmax = mmax + d) by (unfold d; lia).
  nia.
Qed.

(* hence the lengths computed by the code are the right ones *)
Lemma sht_h2p_length lmax mmax : mmax <= lmax -> (lm_size lmax mmax + lmax + 1) / 2 = n_alm lmax mmax.
Proof.
  intros H. rewrite <- (sht_sizes lmax mmax H), Nat.mul_comm, Nat.div_mul by discriminate. reflexivity.
Qed.
Lemma sht_p2h_length lmax mmax : mmax <= lmax -> 2 * n_alm lmax mmax - lmax - 1 = lm_size lmax mmax.
Proof. intros H. rewrite (sht_sizes lmax mmax H). lia. Qed.

Section Packing.
  Variable K : ring_ops.
  Local Notation R := (carrier K).
  Local Notation r0 := (op_0 K).
  Local Notation r1 := (op_1 K).
  Local Notation radd := (op_add K).
  Local Notation rmul := (op_mul K).
  Local Notation rsub := (op_sub K).
  Local Notation ropp := (op_opp K).
  Hypothesis Rth : ring_theory r0 r1 radd rmul rsub ropp eq.
  Add Ring Rring : Rth.

  Variables s2 sh : R.
  Hypothesis Hinv : rmul s2 sh = r1.                 (* sqrt(2) * sqrt(1/2) = 1 *)

  Local Notation pairs := (pairs K).
  Local Notation pack := (pack K sh).
  Local Notation unpack := (unpack K s2).

  Lemma firstn_app_exact {A} n (a b : list A) : length a = n -> firstn n (a ++ b) = a.
  Proof. intros <-. rewrite firstn_app, Nat.sub_diag, firstn_all. cbn. apply app_nil_r. Qed.
  Lemma skipn_app_exact {A} n (a b : list A) : length a = n -> skipn n (a ++ b) = b.
  Proof. intros <-. rewrite skipn_app, Nat.sub_diag, skipn_all. reflexivity. Qed.

  Lemma pairs_length k : forall y, length y = 2 * k -> length (pairs y) = k.
  Proof.
    induction k; intros y H.
    - destruct y; [reflexivity|discriminate].
    - destruct y as [|a [|b y]]; cbn in H; try lia. cbn. f_equal. apply IHk. lia.
  Qed.

  Lemma unpack_pairs k : forall y, length y = 2 * k ->
    flat_map (fun p : Model.C K => [rmul s2 (fst p); rmul s2 (snd p)])
             (map (fun p => (rmul sh (fst p), rmul sh (snd p))) (pairs y)) = y.
  Proof.
    induction k; intros y H.
    - destruct y; [reflexivity|discriminate].
    - destruct y as [|a [|b y]]; cbn in H; try lia. cbn [ModelSHT.pairs map flat_map fst snd app].
      rewrite IHk by lia. f_equal; [|f_equal].
      + transitivity (rmul (rmul s2 sh) a); [ring|]. rewrite Hinv. ring.
      + transitivity (rmul (rmul s2 sh) b); [ring|]. rewrite Hinv. ring.
  Qed.

  Lemma pairs_flat (b : list (Model.C K)) :
    map (fun p => (rmul sh (fst p), rmul sh (snd p)))
        (pairs (flat_map (fun p : Model.C K => [rmul s2 (fst p); rmul s2 (snd p)]) b)) = b.
  Proof.
    induction b as [|[x y] b IH]; [reflexivity|]. cbn [flat_map app ModelSHT.pairs map fst snd].
    rewrite IH. f_equal. f_equal.
    - transitivity (rmul (rmul s2 sh) x); [ring|]. rewrite Hinv. ring.
    - transitivity (rmul (rmul s2 sh) y); [ring|]. rewrite Hinv. ring.
  Qed.

  Lemma pack_length lmax k x : length x = S lmax + 2 * k -> length (pack lmax x) = S lmax + k.
  Proof.
    intros H. unfold ModelSHT.pack. rewrite app_length, !map_length, firstn_length_le by lia.
    rewrite (pairs_length k) by (rewrite skipn_length; lia). reflexivity.
  Qed.

  (* p2h-packing after h2p-packing is the identity on LM-space vectors ... *)
  Lemma unpack_pack lmax k x : length x = S lmax + 2 * k -> unpack lmax (pack lmax x) = x.
  Proof.
    intros H. unfold ModelSHT.unpack, ModelSHT.pack.
    assert (L1 : length (map (fun a : R => (a, r0)) (firstn (S lmax) x)) = S lmax)
      by (rewrite map_length, firstn_length_le; lia).
    rewrite (firstn_app_exact _ _ _ L1), (skipn_app_exact _ _ _ L1).
    rewrite map_map. cbn [fst]. rewrite map_id.
    rewrite (unpack_pairs k) by (rewrite skipn_length; lia).
    apply firstn_skipn.
  Qed.

  (* ... and the other way round on coefficient lists whose m = 0 entries are real: a bijection *)
  Lemma pack_unpack lmax rr :
    S lmax <= length rr -> Forall (fun p => snd p = r0) (firstn (S lmax) rr) ->
    pack lmax (unpack lmax rr) = rr.
  Proof.
    intros Hl Hreal. unfold ModelSHT.unpack, ModelSHT.pack.
    assert (L1 : length (map fst (firstn (S lmax) rr)) = S lmax)
      by (rewrite map_length, firstn_length_le; lia).
    rewrite (firstn_app_exact _ _ _ L1), (skipn_app_exact _ _ _ L1).
    rewrite pairs_flat, map_map.
    rewrite <- (firstn_skipn (S lmax) rr) at 3. f_equal.
    clear L1. revert Hreal. generalize (firstn (S lmax) rr). intros A HA.
    induction HA as [|[a b] l Hab _ IH]; [reflexivity|]. cbn in *. subst. rewrite IH. reflexivity.
  Qed.

  (* ---- adjointness and isometry ------------------------------------------------------------------ *)
  Hypothesis Htwo : rmul (radd r1 r1) sh = s2.       (* 2 * sqrt(1/2) = sqrt(2) *)

  Local Notation rdotl := (rdotl K).
  Local Notation cdotl := (cdotl K).
  Local Notation wdot := (wdot K).

  Lemma rdotl_app a a' b b' : length a = length a' -> rdotl (a ++ b) (a' ++ b') = radd (rdotl a a') (rdotl b b').
  Proof.
    revert a'. induction a as [|x a IH]; intros [|y a'] H; try discriminate; cbn.
    - ring.
    - rewrite IH by (cbn in H; lia). ring.
  Qed.

  Lemma dot_first (a : list R) (b : list (Model.C K)) :
    cdotl (map (fun x => (x, r0)) a) b = rdotl a (map fst b).
  Proof.
    revert b. induction a as [|x a IH]; intros [|[u v] b]; cbn; try reflexivity.
    rewrite IH. ring.
  Qed.

  Lemma dot_rest k : forall (y : list R) (b : list (Model.C K)), length y = 2 * k ->
    rmul (radd r1 r1) (cdotl (map (fun p => (rmul sh (fst p), rmul sh (snd p))) (pairs y)) b)
    = rdotl y (flat_map (fun p : Model.C K => [rmul s2 (fst p); rmul s2 (snd p)]) b).
  Proof.
    induction k; intros y b H.
    - destruct y; [|discriminate]. cbn. ring.
    - destruct y as [|a [|c y]]; cbn in H; try lia.
      destruct b as [|[u v] b]; cbn [ModelSHT.pairs map ModelSHT.cdotl flat_map app ModelSHT.rdotl fst snd].
      + ring.
      + rewrite <- (IHk y b) by lia. rewrite <- Htwo. ring.
  Qed.

  (* h2p-packing and p2h-packing are adjoint to each other w.r.t. the plain inner product on LM-space
     vectors and the inner product on coefficient lists that counts m > 0 twice *)
  Lemma pack_adjoint lmax k x rr :
    length x = S lmax + 2 * k -> S lmax <= length rr ->
    wdot lmax (pack lmax x) rr = rdotl x (unpack lmax rr).
  Proof.
    intros Hx Hr. unfold ModelSHT.wdot, ModelSHT.pack, ModelSHT.unpack.
    assert (L1 : length (map (fun a : R => (a, r0)) (firstn (S lmax) x)) = S lmax)
      by (rewrite map_length, firstn_length_le; lia).
    rewrite (firstn_app_exact _ _ _ L1), (skipn_app_exact _ _ _ L1).
    rewrite dot_first, (dot_rest k) by (rewrite skipn_length; lia).
    rewrite <- (firstn_skipn (S lmax) x) at 3.
    rewrite rdotl_app; [reflexivity|]. rewrite map_length, !firstn_length_le by lia. reflexivity.
  Qed.

  (* isometry: |x|^2 = sum_{m=0} |a|^2 + 2 sum_{m>0} |a|^2 *)
  Lemma pack_isometry lmax k x :
    length x = S lmax + 2 * k -> wdot lmax (pack lmax x) (pack lmax x) = rdotl x x.
  Proof.
    intros Hx. rewrite (pack_adjoint lmax k x (pack lmax x) Hx).
    - rewrite (unpack_pack lmax k x Hx). reflexivity.
    - rewrite (pack_length lmax k x Hx). lia.
  Qed.
End Packing.

(* non-vacuity: Q[sqrt 2] is a commutative ring in which the two symbols satisfy the hypotheses *)
From Coq Require Import ZArith QArith Qcanon.

Lemma Q2K_ring : ring_theory (op_0 Q2K) (op_1 Q2K) (op_add Q2K) (op_mul Q2K) (op_sub Q2K) (op_opp Q2K) eq.
Proof.
  constructor; intros; repeat match goal with x : carrier Q2K |- _ => destruct x end;
    cbn; unfold q2add, q2mul, q2sub, q2opp; cbn [fst snd]; f_equal; ring.
Qed.

Lemma Q2K_symbols :
  op_mul Q2K q2_s2 q2_sh = op_1 Q2K /\ op_mul Q2K (op_add Q2K (op_1 Q2K) (op_1 Q2K)) q2_sh = q2_s2.
Proof.
  split; cbn; unfold q2mul, q2add, q2_s2, q2_sh; cbn [fst snd]; f_equal; apply Qc_is_canon; vm_compute; reflexivity.
Qed.
