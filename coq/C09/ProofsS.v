(* C09 -- the sigma branches of the factory HarmonicSmoothingOperator (ModelSeq.smooth_op). *)
From Coq Require Import List Arith Bool PeanoNat Lia Ring_theory.
Require Import NV.C09.Model NV.C09.Proofs NV.C09.ProofsH NV.C09.ModelSeq.

Lemma smooth_op_raises_iff K sg noncanon W g ker x :
  smooth_op K sg noncanon W g ker x = None <-> sg = Lt.
Proof. destruct sg; cbn; split; intro H; try reflexivity; discriminate. Qed.

(* the sigma == 0 shortcut returns what the general branch returns for the zero-width kernel (== 1) *)
Lemma smooth_op_zero_width K (HK : ring_theory (op_0 K) (op_1 K) (op_add K) (op_mul K) (op_sub K) (op_opp K) eq) N W :
  kernel_sym K N W -> kernel_orth K N W -> kernel_real K N W ->
  forall noncanon (g : geo K), ncells g = N ->
  op_mul K (natR K N) (op_mul K (dvol_dom g) (dvol_tgt g)) = op_1 K ->
  forall ker x, (forall k, k < N -> ker k = op_1 K) ->
  forall r0 r1, smooth_op K Eq noncanon W g ker x = Some r0 -> smooth_op K Gt noncanon W g ker x = Some r1 ->
  (forall j, r0 j = x j) /\ (forall j, j < N -> r0 j = r1 j).
Proof.
  intros Hs Ho Hr noncanon g Hg Hv ker x Hk r0 r1 H0 H1. cbn in H0, H1.
  injection H0 as <-. injection H1 as <-. split; [reflexivity|].
  intros j Hj. symmetry. eapply smooth_unit_kernel; eauto.
Qed.

(* whatever the branch, the returned operator is self-adjoint *)
Lemma smooth_op_selfadjoint K (HK : ring_theory (op_0 K) (op_1 K) (op_add K) (op_mul K) (op_sub K) (op_opp K) eq) N W :
  kernel_sym K N W -> forall noncanon (g : geo K), ncells g = N ->
  forall sg ker x y rx ry,
  smooth_op K sg noncanon W g ker x = Some rx -> smooth_op K sg noncanon W g ker y = Some ry ->
  rdot K N rx y = rdot K N x ry.
Proof.
  intros Hs noncanon g Hg sg ker x y rx ry Hx Hy. destruct sg; cbn in Hx, Hy; try discriminate.
  - injection Hx as <-. injection Hy as <-. reflexivity.
  - injection Hx as <-. injection Hy as <-. eapply smooth_selfadjoint; eauto.
Qed.
