(* C09 -- checks used for operation SEQUENCES (several operators built / applied in one process, each
   step compared with the model evaluated on that step's arguments alone).  Executable, NO proofs.
   Smoothing: [ker] are the values exp(-2 pi^2 sigma^2 k^2) computed by the harness from the step's own
   sigma and grid (never taken from the implementation); the model is Model.smooth =
   Hartley.inverse(diag(ker)(Hartley)) over Qc, compared with tolerance inside Coq (the implementation
   rounds its products with the irrational kernel values). *)
From Coq Require Import List Arith Bool ZArith QArith Qcanon Qabs Qminmax.
Import ListNotations.
Require Import NV.C09.Model.

Definition qc_close (tol : Q) (m : Qc) (y : Q) : bool :=
  Qle_bool (Qabs (this m - y)) (tol * Qmax 1 (Qabs y)).

Fixpoint qc_all_close (tol : Q) (m : list Qc) (y : list Q) : bool :=
  match m, y with
  | [], [] => true
  | a :: m', b :: y' => qc_close tol a b && qc_all_close tol m' y'
  | _, _ => false
  end.

(* real field of shape (B, N, A); smoothing acts on the middle sub-domain *)
Definition g_smooth (noncanon : bool) (shape : list nat) (dists : list Q) (ker : list Q) (B A : nat) (x : list Q)
  : list Qc :=
  let f := fun (v : nat -> QC) (k : nat) =>
             (smooth QcK noncanon (gkern shape) (ggeo shape (map Q2Qc dists) false)
                     (fun i => nth i (map Q2Qc ker) 0%Qc) (fun j => fst (v j)) k, 0%Qc) in
  map fst (g_flat f B shape A (map (fun q => (q, 0%Q)) x)).

Definition check_smooth (tol : Q) (noncanon : bool) (B : nat) (shape : list nat) (dists : list Q) (A : nat)
           (ker x y : list Q) : bool :=
  forallb axis_ok shape && (length dists =? length shape)%nat && (length ker =? prodl shape)%nat &&
  (length x =? B * prodl shape * A)%nat &&
  qc_all_close tol (g_smooth noncanon shape dists ker B A x) y.
