(* C09 -- checks used for operation SEQUENCES (several operators built / applied in one process, each
   step compared with the model evaluated on that step's arguments alone).  Executable, NO proofs.
   Smoothing: [ker] are the values exp(-2 pi^2 sigma^2 k^2) computed by the harness from the step's own
   sigma and grid (never taken from the implementation); the model is Model.smooth =
   Hartley.inverse(diag(ker)(Hartley)) over Qc, compared with tolerance inside Coq (the implementation
   rounds its products with the irrational kernel values). *)
From Coq Require Import List Arith Bool ZArith QArith Qcanon Qabs Qminmax.
Import ListNotations.
Require Import NV.C09.Model.

Definition qc_close (tol : Q) (m : Qc) (y : Q) : bool :=
  Qle_bool (Qabs (this m - y)) (tol * Qmax 1 (Qabs y)).

Fixpoint qc_all_close (tol : Q) (m : list Qc) (y : list Q) : bool :=
  match m, y with
  | [], [] => true
  | a :: m', b :: y' => qc_close tol a b && qc_all_close tol m' y'
  | _, _ => false
  end.

(* real field of shape (B, N, A); smoothing acts on the middle sub-domain *)
Definition g_smooth (noncanon : bool) (shape : list nat) (dists : list Q) (ker : list Q) (B A : nat) (x : list Q)
  : list Qc :=
  let f := fun (v : nat -> QC) (k : nat) =>
             (smooth QcK noncanon (gkern shape) (ggeo shape (map Q2Qc dists) false)
                     (fun i => nth i (map Q2Qc ker) 0%Qc) (fun j => fst (v j)) k, 0%Qc) in
  map fst (g_flat f B shape A (map (fun q => (q, 0%Q)) x)).

Definition check_smooth (tol : Q) (noncanon : bool) (B : nat) (shape : list nat) (dists : list Q) (A : nat)
           (ker x y : list Q) : bool :=
  forallb axis_ok shape && (length dists =? length shape)%nat && (length ker =? prodl shape)%nat &&
  (length x =? B * prodl shape * A)%nat &&
  qc_all_close tol (g_smooth noncanon shape dists ker B A x) y.

(* ---- nifty.re CorrelatedFieldMaker.finalize: the harmonic transform of a product of sub-grids ------
     for sgrid in self._target_grids:
         sub_shp = sgrid.harmonic_grid.shape ; excitation_shape += sub_shp ; n = len(excitation_shape)
         harmonic_dvol = 1.0 / sgrid.total_volume
         axes = tuple(range(n - len(sub_shp), n)) ; trafo = partial(hartley, axes=axes)
     def outer_harmonic_transform(p):
         outer = harmonic_dvol_0 * ht_0(p)
         for harmonic_dvol, ht in harmonic_transforms[1:]: outer = harmonic_dvol * ht(outer)
   i.e. sub-grid i is transformed along ITS OWN axes: in the flat C-ordered array it is the middle factor
   of (B, N_i, A) with B = cells of the sub-grids before it and A = cells of those after it. *)
Fixpoint outer_ht (noncanon : bool) (before : nat) (shapes : list (list nat)) (vols : list Q) (x : list QC)
  : list QC :=
  match shapes, vols with
  | sh :: rest, v :: vrest =>
      let N := prodl sh in
      let A := prodl (map prodl rest) in
      let f := fun (u : nat -> QC) (k : nat) =>
                 ((/ Q2Qc v) * hartley QcK noncanon (gkern sh) N (fun j => fst (u j)) k, 0)%Qc in
      outer_ht noncanon (before * N) rest vrest (flat_apply QcK f before N A x)
  | _, _ => x
  end.

Definition unit_vec (n j : nat) : list QC :=
  map (fun i => if (i =? j)%nat then (1%Qc, 0%Qc) else (0%Qc, 0%Qc)) (seq 0 n).

(* column j of the transform (response to the j-th excitation divided by its coefficient) *)
Definition check_outer_ht (tol : Q) (noncanon : bool) (shapes : list (list nat)) (vols : list Q) (j : nat) (col : list Q)
  : bool :=
  forallb (forallb axis_ok) shapes && (length vols =? length shapes)%nat &&
  (length col =? prodl (map prodl shapes))%nat &&
  qc_all_close tol (map fst (outer_ht noncanon 1 shapes vols (unit_vec (prodl (map prodl shapes)) j))) col.

(* ---- the factory HarmonicSmoothingOperator(domain, sigma, space) with its sigma branches -----------
     sigma = float(sigma)
     if sigma < 0.:  raise ValueError("sigma must be non-negative")
     if sigma == 0.: return ScalingOperator(domain, 1.)          # applied to x: x itself
     ... return Hartley.inverse(diag(Hartley))                   # Model.smooth
   [sg] is the comparison of sigma with 0; None = the constructor raises. *)
Definition smooth_op (K : ring_ops) (sg : comparison) (noncanon : bool) (W : nat -> nat -> C K) (g : geo K)
           (ker : nat -> carrier K) (x : nat -> carrier K) : option (nat -> carrier K) :=
  match sg with
  | Lt => None
  | Eq => Some x
  | Gt => Some (smooth K noncanon W g ker x)
  end.

Definition g_smooth_op (sigma : Q) (noncanon : bool) (shape : list nat) (dists : list Q) (ker : list Q)
           (B A : nat) (x : list Q) : option (list Qc) :=
  let sg := (sigma ?= 0)%Q in
  let W := gkern shape in
  let g := ggeo shape (map Q2Qc dists) false in
  let kf := fun i => nth i (map Q2Qc ker) 0%Qc in
  match smooth_op QcK sg noncanon W g kf (fun _ => 0%Qc) with
  | None => None
  | Some _ =>
      let f := fun (v : nat -> QC) (k : nat) =>
                 (match smooth_op QcK sg noncanon W g kf (fun j => fst (v j)) with
                  | Some r => r k
                  | None => 0%Qc
                  end, 0%Qc) in
      Some (map fst (g_flat f B shape A (map (fun q => (q, 0%Q)) x)))
  end.

(* [y = None]: the implementation raised ValueError.  sigma = 0 is compared EXACTLY (tolerance 0). *)
Definition check_smooth_op (tol : Q) (sigma : Q) (noncanon : bool) (B : nat) (shape : list nat) (dists : list Q)
           (A : nat) (ker x : list Q) (y : option (list Q)) : bool :=
  match g_smooth_op sigma noncanon shape dists ker B A x, y with
  | None, None => true
  | Some m, Some y' =>
      forallb axis_ok shape && (length dists =? length shape)%nat && (length ker =? prodl shape)%nat &&
      (length x =? B * prodl shape * A)%nat &&
      qc_all_close (match (sigma ?= 0)%Q with Eq => 0 | _ => tol end) m y'
  | _, _ => false
  end.
