(* C23 -- executable model of the message-KIND protocols of _send / _recv / _bcast
   (nifty/cl/utilities.py), no proofs in this file.

   Kind of a point-to-point message / collective as seen by the communicator:
     p2p:         0 = pickled object (comm.send / comm.recv)    1 = raw buffer (comm.Send / comm.Recv)
     collective:  0 = comm.bcast   1 = comm.Bcast   2 = comm.allgather   3 = comm.allreduce
   A rendezvous only completes correctly when a `send` meets a `recv` and a `Send` meets a `Recv`;
   Model.v only counted messages (nmsgs / nbcast), this file says which call each one is. *)
From Coq Require Import List Arith Bool.
Import ListNotations.
Require Import NV.C23.Model.

Fixpoint rep_app {X} (k : nat) (l : list X) : list X :=
  match k with O => [] | S k' => l ++ rep_app k' l end.

(* _send:
     if dtype is np.ndarray:  comm.send((obj.shape, obj.dtype), dest=dest); comm.Send(obj, dest=dest)
     elif dtype is Field:     comm.send((obj.domain, type(obj.val)), dest=dest)
                              _send(comm, obj.val, dest, type(obj.val))   [val is not an ndarray: 1 pickled msg]
     elif dtype is MultiField: _send(comm, keys, dest, tuple); for kk, vv: _send(comm, vv, dest, Field)
     return comm.send(obj, dest=dest) *)
Definition send_other : list nat := [0].
Definition send_nd : list nat := [0; 1].
Definition send_field : list nat := 0 :: send_other.
Definition send_kinds (t : vtype) : list nat :=
  match t with
  | TOther => send_other
  | TNdarray => send_nd
  | TNd0 _ => send_nd
  | TField => send_field
  | TMulti k => send_other ++ rep_app k send_field
  end.

(* _recv:
     if dtype is np.ndarray:  shape, dtype = comm.recv(source=source); comm.Recv(buf, source)
     elif dtype is Field:     dom, dtype = comm.recv(source=source); Field(dom, _recv(comm, source, dtype))
     elif dtype is MultiField: keys = _recv(comm, source, tuple); for kk in keys: _recv(comm, source, Field)
     return comm.recv(source=source) *)
Definition recv_other : list nat := [0].
Definition recv_nd : list nat := [0; 1].
Definition recv_field : list nat := 0 :: recv_other.
Fixpoint recv_multi (k : nat) : list nat :=
  match k with O => [] | S k' => recv_field ++ recv_multi k' end.
Definition recv_kinds (t : vtype) : list nat :=
  match t with
  | TOther => recv_other
  | TNdarray => recv_nd
  | TNd0 _ => recv_nd
  | TField => recv_field
  | TMulti k => recv_other ++ recv_multi k
  end.

(* _bcast:
     dtype = comm.bcast(type(obj), root=root)
     ndarray:    comm.bcast((shape, dtype)); comm.Bcast(data)
     Field:      comm.bcast((dom, dtype)); _bcast(comm, val, root)     [val: bcast(type), bcast(obj)]
     MultiField: comm.bcast(keys); for kk in keys: _bcast(comm, obj[kk], root)
     return comm.bcast(obj, root=root) *)
Definition bcast_other : list nat := [0; 0].
Definition bcast_nd : list nat := [0; 0; 1].
Definition bcast_field : list nat := [0; 0] ++ bcast_other.
Definition bcast_kinds (t : vtype) : list nat :=
  match t with
  | TOther => bcast_other
  | TNdarray => bcast_nd
  | TNd0 single => if single then bcast_nd else bcast_other
  | TField => bcast_field
  | TMulti k => [0; 0] ++ rep_app k bcast_field
  end.

(* default 9 is no kind at all: were it ever used, no observation could match it *)
Definition bad_kind := 9.

(* What rank r does at event e, with the kind of the call: ((class, peer), kind).
   The receiver's i-th call is the i-th entry of recv_kinds, the sender's of send_kinds.
   Set-up collectives: Coll 0 = allgather(len(vals)), Coll 1 = allreduce(types); Coll (2+c) = c-th
   collective of _bcast. *)
Definition kaction (part : list nat) (t : vtype) (r : nat) (e : ev) : (nat * nat) * nat :=
  (action part r e,
   match snd e with
   | Local _ _ => 0
   | Msg j _ i _ => if r =? who part j then nth i (recv_kinds t) bad_kind else nth i (send_kinds t) bad_kind
   | Coll 0 => 2
   | Coll 1 => 3
   | Coll (S (S c)) => nth c (bcast_kinds t) bad_kind
   end).

Definition rank_kind_program (part : list nat) (t : vtype) (r : nat) : list ((nat * nat) * nat) :=
  filter (fun a => negb (fst (fst a) =? 1))
    (map (kaction part t r) (filter (involves_b part r) (G part (nmsgs t) (nbcast t)))).

Definition pk_eqb (a b : (nat * nat) * nat) : bool := pair_eqb (fst a) (fst b) && (snd a =? snd b).

Definition kind_ok (part : list nat) (t : vtype) (obs : list (list ((nat * nat) * nat))) : bool :=
  list_eqb (list_eqb pk_eqb) (map (rank_kind_program part t) (seq 0 (length part))) obs.
