(* C23 -- the program that tr/c23_allreduce.py translates from the source of allreduce_sum
   (Gen_Allreduce.v, regenerated on every run) is, for every task, the projection of the model's
   global event list that Model.v / Proofs.v reason about. *)
From Coq Require Import List Arith Lia Bool.
Import ListNotations.
Require Import NV.C23.Model NV.C23.Proofs NV.C23.Py NV.C23.Gen_Allreduce.

(* what task r does for the logical summation event (j, k), read off the model *)
Definition lproj (who : nat -> nat) (r : nat) (e : nat * nat) : list lact :=
  let '(j, k) := e in
  if r =? who j then (if who j =? who k then [LAdd j k] else [LRecv j (who k)])
  else if r =? who k then [LSend k (who j)] else [].

(* ---- the translated loop body ---- *)
Lemma Gen_body_spec who n r step j :
  Gen_body who n r step j = if j + step <? n then lproj who r (j, j + step) else [].
Proof.
  unfold Gen_body, lproj.
  repeat match goal with
         | |- context [if ?c then _ else _] => destruct c eqn:?
         end;
    try reflexivity;
    repeat match goal with
           | H : (_ =? _) = true |- _ => apply Nat.eqb_eq in H
           | H : (_ =? _) = false |- _ => apply Nat.eqb_neq in H
           | H : (_ <? _) = true |- _ => apply Nat.ltb_lt in H
           | H : (_ <? _) = false |- _ => apply Nat.ltb_ge in H
           end;
    try congruence; try (exfalso; lia).
Qed.

Lemma body_tail_nil who n r step : forall f j, n <= j + step ->
  flat_map (Gen_body who n r step) (py_range_f f j n (2 * step)) = [].
Proof.
  induction f as [|f IH]; intros j H; [reflexivity|].
  cbn [py_range_f]. destruct (j <? n); [|reflexivity].
  cbn [flat_map]. rewrite Gen_body_spec.
  destruct (j + step <? n) eqn:E; [apply Nat.ltb_lt in E; lia|].
  cbn [app]. apply IH. lia.
Qed.

Lemma for_is_pairs who n r step : forall f j,
  flat_map (Gen_body who n r step) (py_range_f f j n (2 * step)) =
  flat_map (lproj who r) (pairs_step n step j f).
Proof.
  induction f as [|f IH]; intros j; [reflexivity|].
  cbn [py_range_f pairs_step].
  destruct (j + step <? n) eqn:E.
  - apply Nat.ltb_lt in E.
    assert (Hj : (j <? n) = true) by (apply Nat.ltb_lt; lia). rewrite Hj.
    cbn [flat_map]. rewrite Gen_body_spec.
    assert (E' : (j + step <? n) = true) by (apply Nat.ltb_lt; lia). rewrite E'.
    f_equal. apply IH.
  - apply Nat.ltb_ge in E. destruct (j <? n); [|reflexivity].
    cbn [flat_map]. rewrite Gen_body_spec.
    assert (E' : (j + step <? n) = false) by (apply Nat.ltb_ge; lia). rewrite E'.
    cbn [app]. apply body_tail_nil. lia.
Qed.

(* ---- the translated while loop: never out of fuel, lists the model's events ---- *)
Lemma while_is_events who n r : forall f step, 1 <= step -> n <= step + f ->
  Gen_while (S f) who n r step = Some (flat_map (lproj who r) (events_from n step (S f))).
Proof.
  induction f as [|f IH]; intros step Hs H.
  - cbn [Gen_while events_from].
    destruct (step <? n) eqn:E; [apply Nat.ltb_lt in E; lia|reflexivity].
  - change (Gen_while (S (S f)) who n r step) with
      (if step <? n then
         match Gen_while (S f) who n r (step * 2) with
         | Some rest => Some (flat_map (Gen_body who n r step) (py_range 0 n (2 * step)) ++ rest)
         | None => None
         end
       else Some []).
    change (events_from n step (S (S f))) with
      (if step <? n then pairs_step n step 0 n ++ events_from n (2 * step) (S f) else []).
    destruct (step <? n); [|reflexivity].
    rewrite (Nat.mul_comm step 2). rewrite IH by lia.
    unfold py_range. rewrite for_is_pairs, flat_map_app. reflexivity.
Qed.

Lemma Gen_prog_is_projection who n r :
  Gen_prog who n r = Some (flat_map (lproj who r) (all_events n)).
Proof.
  unfold Gen_prog. rewrite while_is_events by lia.
  rewrite (events_from_more_fuel n (S n)) by lia. reflexivity.
Qed.

(* ---- from logical actions to what the recording communicator sees ---- *)
Definition expand_l (M r : nat) (a : lact) : list (nat * nat) :=
  match a with
  | LAdd _ _ => [(1, r)]
  | LRecv _ src => repeat (2, src) M
  | LSend _ dst => repeat (3, dst) M
  end.

Lemma map_filter_tag {X} (f : rawev -> X) (g : rawev -> bool) : forall (l : list rawev) a,
  map (fun e : ev => f (snd e)) (filter (fun e : ev => g (snd e)) (combine (seq a (length l)) l)) =
  map f (filter g l).
Proof.
  induction l as [|x l IH]; intros a; [reflexivity|].
  cbn [length seq combine filter snd]. destruct (g x); cbn [map snd]; rewrite IH; reflexivity.
Qed.

Lemma map_filter_app {X Y} (f : X -> Y) (g : X -> bool) (a b : list X) :
  map f (filter g (a ++ b)) = map f (filter g a) ++ map f (filter g b).
Proof. rewrite filter_app, map_app. reflexivity. Qed.

Lemma map_filter_flat {X Y Z} (f : Y -> Z) (g : Y -> bool) (h : X -> list Y) (l : list X) :
  map f (filter g (flat_map h l)) = flat_map (fun x => map f (filter g (h x))) l.
Proof.
  induction l as [|x l IH]; [reflexivity|].
  cbn [flat_map]. rewrite map_filter_app, IH. reflexivity.
Qed.

Lemma flat_flat {X Y Z} (f : Y -> list Z) (g : X -> list Y) (l : list X) :
  flat_map f (flat_map g l) = flat_map (fun x => flat_map f (g x)) l.
Proof.
  induction l as [|x l IH]; [reflexivity|].
  cbn [flat_map]. rewrite flat_map_app, IH. reflexivity.
Qed.

Section Rank.
Variable part : list nat.
Variable M B r : nat.
Hypothesis Hr : r < length part.

Let inv (x : rawev) : bool := existsb (Nat.eqb r) (parts part (0, x)).
Let act (x : rawev) : nat * nat := action part r (0, x).

Lemma msgs_all j k : forall m i,
  map act (filter inv (msgs j k m i)) =
  if (r =? who part j) || (r =? who part k)
  then repeat (if r =? who part j then (2, who part k) else (3, who part j)) m else [].
Proof.
  assert (One : forall i b, map act (filter inv [Msg j k i b]) =
                if (r =? who part j) || (r =? who part k)
                then [if r =? who part j then (2, who part k) else (3, who part j)] else []).
  { intros i b. unfold inv, act, action. cbn [filter parts snd existsb].
    rewrite orb_false_r. destruct ((r =? who part j) || (r =? who part k)); reflexivity. }
  induction m as [|m IH]; intros i.
  - cbn [msgs filter map repeat]. destruct ((r =? who part j) || (r =? who part k)); reflexivity.
  - destruct m as [|m'].
    + cbn [msgs]. rewrite One. destruct ((r =? who part j) || (r =? who part k)); reflexivity.
    + change (msgs j k (S (S m')) i) with ([Msg j k i false] ++ msgs j k (S m') (S i)).
      rewrite map_filter_app, One, IH.
      destruct ((r =? who part j) || (r =? who part k)); reflexivity.
Qed.

Lemma expand_proj (e : nat * nat) :
  map act (filter inv (expand part M e)) = flat_map (expand_l M r) (lproj (who part) r e).
Proof.
  destruct e as [j k]. unfold expand, lproj.
  destruct (who part j =? who part k) eqn:E.
  - apply Nat.eqb_eq in E. unfold inv, act, action. cbn [filter parts snd existsb].
    rewrite orb_false_r, <- E, orb_diag.
    destruct (r =? who part j); reflexivity.
  - rewrite msgs_all.
    destruct (r =? who part j) eqn:Ej; cbn [orb].
    + cbn [flat_map expand_l]. rewrite app_nil_r. reflexivity.
    + destruct (r =? who part k); cbn [flat_map expand_l]; [rewrite app_nil_r|]; reflexivity.
Qed.

Lemma colls_all (cs : list nat) :
  map act (filter inv (map Coll cs)) = repeat (4, 0) (length cs).
Proof.
  assert (I : forall c, inv (Coll c) = true).
  { intros c. unfold inv. cbn [parts snd]. apply existsb_exists. exists r. split.
    - apply in_seq. unfold ntasks. lia.
    - apply Nat.eqb_refl. }
  induction cs as [|c cs IH]; [reflexivity|].
  cbn [map filter length repeat]. rewrite I. cbn [map]. rewrite IH. reflexivity.
Qed.

Lemma rank_program_of_actions :
  rank_program part M B r =
  [(4, 0); (4, 0)] ++
  flat_map (expand_l M r) (flat_map (lproj (who part) r) (all_events (list_sum part))) ++
  repeat (4, 0) B.
Proof.
  unfold rank_program, G, tag.
  change (involves_b part r) with (fun e : ev => inv (snd e)).
  change (action part r) with (fun e : ev => act (snd e)).
  rewrite (map_filter_tag act inv). unfold raw_events.
  rewrite map_filter_app, map_filter_app.
  change [Coll 0; Coll 1] with (map Coll [0; 1]). rewrite colls_all.
  rewrite map_filter_flat.
  rewrite <- (map_map (fun c => 2 + c) Coll), colls_all, map_length, seq_length.
  cbn [length repeat]. f_equal. f_equal.
  rewrite flat_flat. apply flat_map_ext. intros e. apply expand_proj.
Qed.

End Rank.

(* The theorem used in Props.v: for every partition, message multiplicity, number of broadcast
   collectives and every valid task number, the loop translated from the source terminates (never
   out of fuel) with a list of actions whose expansion -- two set-up collectives in front, M
   point-to-point messages per transfer, B broadcast collectives behind -- is exactly the rank
   program of the model, i.e. the program whose every interleaving C23_value / C23_no_deadlock
   are about. *)
Theorem source_rank_program (part : list nat) (M B r : nat) :
  r < length part ->
  exists acts,
    Gen_prog (who part) (list_sum part) r = Some acts /\
    rank_program part M B r =
      [(4, 0); (4, 0)] ++ flat_map (expand_l M r) acts ++ repeat (4, 0) B.
Proof.
  intros Hr. eexists. split; [apply Gen_prog_is_projection|].
  apply rank_program_of_actions. exact Hr.
Qed.

(* comm=None: rank 0 owns everything, the translated loop performs exactly the model's local
   additions, in the model's order. *)
Section Seq.
Variable A : Type.
Variable op : A -> A -> A.

Definition exec_local (l : arr A) (a : lact) : arr A :=
  match a with LAdd j k => addat A op l j k | _ => l end.

Theorem source_sequential (vals : list A) :
  exists acts,
    Gen_prog (fun _ => 0) (length vals) 0 = Some acts /\
    fold_left exec_local acts (map Some vals) = seq_run A op vals /\
    Gen_result_index = 0.
Proof.
  eexists. split; [apply Gen_prog_is_projection|]. split; [|reflexivity].
  unfold seq_run. generalize (map Some vals). generalize (all_events (length vals)).
  induction l as [|[j k] l IH]; intros s; [reflexivity|].
  cbn [flat_map lproj fold_left fst snd app Nat.eqb exec_local]. apply IH.
Qed.
End Seq.

(* The broadcast root named in the source is the owner of the cell the result lives in. *)
Lemma source_bcast_root (part : list nat) :
  Gen_bcast_root (who part) = who part Gen_result_index.
Proof. reflexivity. Qed.
