(* C23 -- executable model of nifty.cl.utilities.allreduce_sum (no proofs in this file).

   Source mirrored (nifty/cl/utilities.py, allreduce_sum):
       step = 1
       while step < nobj:
           for j in range(0, nobj, 2*step):
               if j+step < nobj:
                   if rank == who[j]:
                       if who[j] == who[j+step]:  vals[j] = vals[j] + vals[j+step]; vals[j+step] = None
                       else:                      vals[j] = vals[j] + _recv(comm, source=who[j+step])
                   elif rank == who[j+step]:      _send(comm, vals[j+step], dest=who[j]); vals[j+step] = None
           step *= 2
       return vals[0]            (comm is None)      /   _bcast(comm, vals[0], root=who[0])

   Values live in an arbitrary magma (A, op): NO associativity or commutativity is assumed, so
   "same result" below means the same parenthesisation -- which is what makes the floating-point
   result bit-identical for every partition. *)
From Coq Require Import List Arith Lia Bool.
Import ListNotations.

(* ---- the global list of summation events, in loop order ---- *)
Fixpoint pairs_step (n step j fuel : nat) : list (nat * nat) :=
  match fuel with
  | O => []
  | S f => if j + step <? n then (j, j + step) :: pairs_step n step (j + 2 * step) f else []
  end.
(* NB: `for j in range(0, nobj, 2*step): if j+step < nobj` -- once j+step >= nobj every later j
   fails the test too, so stopping at the first failure lists the same pairs. *)

Fixpoint events_from (n step fuel : nat) : list (nat * nat) :=
  match fuel with
  | O => []
  | S f => if step <? n then pairs_step n step 0 n ++ events_from n (2 * step) f else []
  end.

Definition all_events (n : nat) : list (nat * nat) := events_from n 1 n.

Section Magma.
Variable A : Type.
Variable op : A -> A -> A.

Definition arr := list (option A).

Fixpoint upd (l : arr) (i : nat) (v : option A) : arr :=
  match l, i with
  | [], _ => []
  | _ :: t, O => v :: t
  | x :: t, S i' => x :: upd t i' v
  end.

Definition cell (l : arr) (i : nat) : option A := nth i l None.

(* vals[j] = vals[j] + vals[k]; vals[k] = None.   A missing operand cannot occur in a run of the
   real code; the model then leaves the array unchanged and the theorems exclude it. *)
Definition addat (l : arr) (j k : nat) : arr :=
  match cell l j, cell l k with
  | Some a, Some b => upd (upd l j (Some (op a b))) k None
  | _, _ => l
  end.

Definition seq_run (vals : list A) : arr :=
  fold_left (fun l e => addat l (fst e) (snd e)) (all_events (length vals)) (map Some vals).

(* comm=None result *)
Definition seq_sum (vals : list A) : option A := cell (seq_run vals) 0.

(* ---- distributed execution ---- *)

(* who[i] from the per-task counts (allgather(len(vals)) + cumsum) *)
Fixpoint who_list (part : list nat) (r : nat) : list nat :=
  match part with
  | [] => []
  | c :: t => repeat r c ++ who_list t (S r)
  end.
Definition who (part : list nat) (i : nat) : nat := nth i (who_list part 0) 0.

(* Raw events.  A logical transfer whose payload type needs M point-to-point messages
   (ndarray: 2, Field: 2, MultiField with K keys: 1+2K, anything else: 1) is expanded into M
   consecutive rendezvous events between the same two ranks; only the last one changes the
   merged array.  Collectives involve every rank. *)
Inductive rawev :=
| Local (j k : nat)                      (* same owner: add in place *)
| Msg (j k : nat) (i : nat) (last : bool)  (* i-th message of the transfer of vals[k] to who[j] *)
| Coll (c : nat).                        (* allgather / allreduce(type) / bcast parts *)

Definition ev := (nat * rawev)%type.     (* tagged with its position in the global list *)

Fixpoint msgs (j k M i : nat) : list rawev :=
  match M with
  | O => []
  | S O => [Msg j k i true]
  | S M' => Msg j k i false :: msgs j k M' (S i)
  end.

Definition expand (part : list nat) (M : nat) (e : nat * nat) : list rawev :=
  let '(j, k) := e in
  if who part j =? who part k then [Local j k] else msgs j k M 0.

Definition raw_events (part : list nat) (M B : nat) (n : nat) : list rawev :=
  [Coll 0; Coll 1] ++ flat_map (expand part M) (all_events n) ++ map (fun c => Coll (2 + c)) (seq 0 B).

Definition tag (l : list rawev) : list ev := combine (seq 0 (length l)) l.

Definition G (part : list nat) (M B : nat) : list ev :=
  tag (raw_events part M B (list_sum part)).

Definition ntasks (part : list nat) := length part.

Definition parts (part : list nat) (e : ev) : list nat :=
  match snd e with
  | Local j k => [who part j; who part k]   (* equal for the events of G: expand tests who j = who k *)
  | Msg j k _ _ => [who part j; who part k]
  | Coll _ => seq 0 (ntasks part)
  end.

(* effect on the merged array (cell i lives on rank who[i]) *)
Definition fire (s : arr) (e : ev) : arr :=
  match snd e with
  | Local j k => addat s j k
  | Msg j k _ true => addat s j k
  | Msg _ _ _ false => s
  | Coll _ => s
  end.

(* What rank r does, as observed through a recording communicator:
   1 = local add, 2 = receive from peer, 3 = send to peer, 4 = collective. *)
Definition action (part : list nat) (r : nat) (e : ev) : nat * nat :=
  match snd e with
  | Local _ _ => (1, r)
  | Msg j k _ _ => if r =? who part j then (2, who part k) else (3, who part j)
  | Coll _ => (4, 0)
  end.

Definition involves_b (part : list nat) (r : nat) (e : ev) : bool :=
  existsb (Nat.eqb r) (parts part e).

Definition rank_program (part : list nat) (M B : nat) (r : nat) : list (nat * nat) :=
  map (action part r) (filter (involves_b part r) (G part M B)).

(* communication actions only (what the fake communicator can see) *)
Definition rank_comm_program (part : list nat) (M B : nat) (r : nat) : list (nat * nat) :=
  filter (fun a => negb (fst a =? 1)) (rank_program part M B r).

(* result of the canonical (G-ordered) distributed run on the merged array *)
Definition dist_run (part : list nat) (M B : nat) (vals : list A) : arr :=
  fold_left fire (G part M B) (map Some vals).

End Magma.

(* ---- symbolic magma used by the correspondence: expression trees ---- *)
Inductive tm := V (i : nat) | P (a b : tm).

Fixpoint tm_eqb (a b : tm) : bool :=
  match a, b with
  | V i, V j => i =? j
  | P a1 a2, P b1 b2 => tm_eqb a1 b1 && tm_eqb a2 b2
  | _, _ => false
  end.

Definition otm_eqb (a b : option tm) : bool :=
  match a, b with Some x, Some y => tm_eqb x y | None, None => true | _, _ => false end.

Definition sym_vals (n : nat) : list tm := map V (seq 0 n).

Definition pair_eqb (a b : nat * nat) : bool := (fst a =? fst b) && (snd a =? snd b).
Fixpoint list_eqb {X} (eqb : X -> X -> bool) (a b : list X) : bool :=
  match a, b with
  | [], [] => true
  | x :: a', y :: b' => eqb x y && list_eqb eqb a' b'
  | _, _ => false
  end.

(* Number of point-to-point messages of one `_send`/`_recv` and of collectives of one `_bcast`,
   per payload type (nifty/cl/utilities.py: _send, _recv, _bcast):
     other      : comm.send(obj)                                 / bcast(type), bcast(obj)
     ndarray    : send((shape,dtype)), Send(data)                / bcast(type), bcast((shape,dtype)), Bcast
     Field      : send((domain,type(val))), _send(val) [1 msg]   / bcast(type), bcast((dom,dtype)), _bcast(val) [2]
     MultiField : _send(keys), then one Field per key            / bcast(type), bcast(keys), one Field each *)
Inductive vtype := TOther | TNdarray | TField | TMulti (k : nat) | TNd0 (single : bool).
(* TNd0: 0-d arrays.  They travel like arrays (2 messages), but the sum of two of them is a NumPy
   scalar, so the total is broadcast like "other" (2 collectives) unless there is a single summand. *)
Definition nmsgs (t : vtype) : nat :=
  match t with TOther => 1 | TNdarray => 2 | TField => 2 | TMulti k => 1 + 2 * k | TNd0 _ => 2 end.
Definition nbcast (t : vtype) : nat :=
  match t with TOther => 2 | TNdarray => 3 | TField => 4 | TMulti k => 2 + 4 * k
             | TNd0 single => if single then 3 else 2 end.

Definition comm_ok (part : list nat) (t : vtype) (obs : list (list (nat * nat))) : bool :=
  list_eqb (list_eqb pair_eqb)
    (map (rank_comm_program part (nmsgs t) (nbcast t)) (seq 0 (length part))) obs.

(* one correspondence case: the implementation, run with the recording communicator on the
   partition [part] of symbolic summands v0..v(n-1), produced the tree [t] on every rank and the
   per-rank communication sequences [obs]. *)
Definition case_ok (part : list nat) (M B : nat) (t : tm) (obs : list (list (nat * nat))) : bool :=
  let n := list_sum part in
  otm_eqb (seq_sum tm P (sym_vals n)) (Some t) &&
  otm_eqb (cell tm (dist_run tm P part M B (sym_vals n)) 0) (Some t) &&
  list_eqb (list_eqb pair_eqb) (map (rank_comm_program part M B) (seq 0 (length part))) obs.
