(* C23 -- property theorems only.  Each is closed by [exact] of a lemma from Proofs.v / Base. *)
From Coq Require Import List Arith Lia Bool.
Import ListNotations.
Require Import NV.Base.Trace NV.C23.Model NV.C23.Proofs.

(* Partition independence, for every magma (no associativity assumed => same parenthesisation,
   hence bit-identical floating-point sums), every number of summands, every partition of them
   over any number of tasks (empty tasks allowed), every message multiplicity M >= 1 and every
   number B of broadcast collectives, and EVERY interleaving of the rank-local programs under
   synchronous (rendezvous) sends: a terminated execution leaves the merged array equal to the
   single-process array; in particular cell 0, which is what every task returns, is
   [seq_sum vals]. *)
Theorem C23_value :
  forall (A : Type) (op : A -> A -> A) (part : list nat) (M B : nat) (vals : list A)
         (p : Trace.pcfg (arr A) ev),
    part <> [] -> 1 <= M -> list_sum part = length vals ->
    Trace.psteps (arr A) ev (fire A op) (parts part)
      (Trace.pinit (arr A) ev (parts part) (G part M B) (map Some vals)) p ->
    (forall r, rems _ _ p r = []) ->
    st _ _ p = seq_run A op vals.
Proof. exact value. Qed.

(* No deadlock: in every reachable configuration in which some task still has an action to
   perform, some event (local add, matched send/receive pair, or collective) can fire. *)
Theorem C23_no_deadlock :
  forall (A : Type) (op : A -> A -> A) (part : list nat) (M B : nat) (vals : list A)
         (p : Trace.pcfg (arr A) ev),
    part <> [] ->
    Trace.psteps (arr A) ev (fire A op) (parts part)
      (Trace.pinit (arr A) ev (parts part) (G part M B) (map Some vals)) p ->
    (exists r, rems _ _ p r <> []) ->
    exists q, Trace.pstep (arr A) ev (fire A op) (parts part) p q.
Proof. exact no_deadlock. Qed.

(* The per-rank action sequences that the correspondence check compares with the recording
   communicator are exactly the programs the machine above executes. *)
Theorem C23_rank_program_is_projection :
  forall (part : list nat) (M B r : nat),
    rank_program part M B r = map (action part r) (Trace.prog ev (parts part) (G part M B) r).
Proof. exact rank_program_projection. Qed.

(* The canonical distributed run equals the single-process run on the whole array. *)
Theorem C23_canonical_run :
  forall (A : Type) (op : A -> A -> A) (part : list nat) (M B : nat) (vals : list A),
    1 <= M -> list_sum part = length vals ->
    dist_run A op part M B vals = seq_run A op vals.
Proof. exact dist_run_seq_run. Qed.

(* The fuel of the model's loops is never exhausted: more fuel lists the same events. *)
Theorem C23_fuel_irrelevant :
  forall n f, n <= f -> events_from n 1 f = all_events n.
Proof. exact events_from_more_fuel. Qed.

(* Non-vacuity: a concrete partition with an empty task meets the hypotheses, and its model
   result is the documented pairwise tree. *)
Example C23_hyps_satisfiable :
  [3; 0; 4] <> [] /\ 1 <= 2 /\ list_sum [3; 0; 4] = length (sym_vals 7) /\
  seq_sum tm P (sym_vals 7) =
    Some (P (P (P (V 0) (V 1)) (P (V 2) (V 3))) (P (P (V 4) (V 5)) (V 6))).
Proof. repeat split; try discriminate; try lia. Qed.

(* The evaluated tree is a sum of ALL summands, each exactly once and in order, for every n >= 1:
   its in-order leaf sequence over symbolic summands v0..v(n-1) is 0..n-1. *)
Require NV.C23.Leaves.

Theorem C23_tree_leaves_in_order :
  forall n, 1 <= n ->
    exists t, seq_sum tm P (sym_vals n) = Some t /\ Leaves.leaves t = seq 0 n.
Proof. exact Leaves.tree_leaves. Qed.

(* The run over ANY magma is the evaluation of that one symbolic tree (the tree shape does not
   depend on the values)... *)
Theorem C23_run_is_tree_evaluation :
  forall (A : Type) (op : A -> A -> A) (f : nat -> A) (n : nat),
    seq_sum A op (map f (seq 0 n)) = option_map (Leaves.eval A op f) (seq_sum tm P (sym_vals n)).
Proof. exact Leaves.seq_sum_is_eval. Qed.

(* ... hence for an associative operation (exact arithmetic) the result is the ordinary sum
   f 0 + f 1 + ... + f (n-1); for floating point it is this particular parenthesisation. *)
Theorem C23_associative_sum :
  forall (A : Type) (op : A -> A -> A) (f : nat -> A),
    (forall a b c, op a (op b c) = op (op a b) c) ->
    forall n, 1 <= n ->
      seq_sum A op (map f (seq 0 n)) = Some (Leaves.fold1 A op (f 0) (map f (seq 1 (n - 1)))).
Proof. exact Leaves.seq_sum_assoc. Qed.

(* ---- tie to the source: the per-task program translated from `allreduce_sum` itself ---- *)
Require NV.C23.Py NV.C23.Gen_Allreduce NV.C23.ProofsGen.

(* For every partition (empty tasks allowed), message multiplicity M, number B of broadcast
   collectives and every task r: the loop nest that tr/c23_allreduce.py translated from the current
   source (Gen_Allreduce.v, regenerated on every run) never runs out of fuel, and the actions it
   lists for task r -- two set-up collectives in front, every transfer expanded into M
   point-to-point messages, B collectives behind -- are exactly the rank program of the model,
   i.e. the programs whose every interleaving C23_value and C23_no_deadlock quantify over. *)
Theorem C23_source_rank_program :
  forall (part : list nat) (M B r : nat),
    r < length part ->
    exists acts,
      Gen_Allreduce.Gen_prog (who part) (list_sum part) r = Some acts /\
      rank_program part M B r =
        [(4, 0); (4, 0)] ++ flat_map (ProofsGen.expand_l M r) acts ++ repeat (4, 0) B.
Proof. exact ProofsGen.source_rank_program. Qed.

(* comm=None (one task owning everything): the translated loop performs exactly the model's local
   additions in the model's order, and returns the cell the model reads. *)
Theorem C23_source_sequential :
  forall (A : Type) (op : A -> A -> A) (vals : list A),
    exists acts,
      Gen_Allreduce.Gen_prog (fun _ => 0) (length vals) 0 = Some acts /\
      fold_left (ProofsGen.exec_local A op) acts (map Some vals) = seq_run A op vals /\
      Gen_Allreduce.Gen_result_index = 0.
Proof. exact ProofsGen.source_sequential. Qed.

(* The broadcast root named in the source is the owner of the returned cell. *)
Theorem C23_source_bcast_root :
  forall part : list nat,
    Gen_Allreduce.Gen_bcast_root (who part) = who part Gen_Allreduce.Gen_result_index.
Proof. exact ProofsGen.source_bcast_root. Qed.

(* ---- message-kind protocols of _send / _recv / _bcast (ModelProto.v) ---- *)
Require NV.C23.ModelProto NV.C23.ProofsProto.

(* For EVERY payload type (MultiFields with any number k of keys included) the sequence of call kinds
   (pickled `recv` / raw-buffer `Recv`) that `_recv` performs is exactly the sequence (`send` / `Send`)
   that `_send` performs: every rendezvous of a transfer pairs calls of the same kind. *)
Theorem C23_send_recv_protocols_match :
  forall t : vtype, ModelProto.recv_kinds t = ModelProto.send_kinds t.
Proof. exact ProofsProto.recv_send_match. Qed.

(* The message counts that the event model uses (M = nmsgs t, B = nbcast t) are the lengths of these
   protocols, and every payload type needs at least one message -- the hypothesis 1 <= M of
   C23_value / C23_canonical_run holds for every payload type. *)
Theorem C23_protocol_lengths :
  forall t : vtype,
    length (ModelProto.send_kinds t) = nmsgs t /\ length (ModelProto.recv_kinds t) = nmsgs t /\
    length (ModelProto.bcast_kinds t) = nbcast t /\ 1 <= nmsgs t.
Proof. exact ProofsProto.proto_lengths. Qed.

(* The kind-annotated per-task program compared with the recording communicator refines the program
   that C23_value / C23_no_deadlock quantify over: forgetting the kinds gives rank_comm_program, for
   every partition, payload type and task. *)
Theorem C23_kind_program_projects :
  forall (part : list nat) (t : vtype) (r : nat),
    map fst (ModelProto.rank_kind_program part t r) = rank_comm_program part (nmsgs t) (nbcast t) r.
Proof. exact ProofsProto.kind_program_projects. Qed.

(* The [nth] defaults in ModelProto.kaction are unreachable: every message index / broadcast index
   occurring in the global event list lies inside the protocol of its payload type. *)
Theorem C23_kinds_defined :
  forall (part : list nat) (t : vtype) (e : ev),
    In e (G part (nmsgs t) (nbcast t)) ->
    match snd e with
    | Msg _ _ i _ => i < length (ModelProto.send_kinds t) /\ i < length (ModelProto.recv_kinds t)
    | Coll (S (S c)) => c < length (ModelProto.bcast_kinds t)
    | _ => True
    end.
Proof. exact ProofsProto.kinds_defined. Qed.

(* Non-vacuity: a MultiField with two keys travels as keys + 2 x (header, value). *)
Example C23_multi2_protocol :
  ModelProto.send_kinds (TMulti 2) = [0; 0; 0; 0; 0] /\ ModelProto.bcast_kinds TNdarray = [0; 0; 1] /\
  ModelProto.rank_kind_program [1; 1] TNdarray 1 =
    [((4, 0), 2); ((4, 0), 3); ((3, 0), 0); ((3, 0), 1); ((4, 0), 0); ((4, 0), 0); ((4, 0), 1)].
Proof. repeat split. Qed.
