(* C23 -- lemmas about the message-kind protocols (ModelProto.v). *)
From Coq Require Import List Arith Lia Bool.
Import ListNotations.
Require Import NV.C23.Model NV.C23.ModelProto.

Lemma recv_multi_rep : forall k, recv_multi k = rep_app k send_field.
Proof. induction k; simpl; [reflexivity|]. rewrite IHk. reflexivity. Qed.

Lemma recv_send_match : forall t, recv_kinds t = send_kinds t.
Proof. destruct t; simpl; try reflexivity. rewrite recv_multi_rep. reflexivity. Qed.

Lemma rep_app_length : forall X k (l : list X), length (rep_app k l) = k * length l.
Proof. induction k; intros; simpl; [reflexivity|]. rewrite app_length, IHk. reflexivity. Qed.

Lemma proto_lengths : forall t,
  length (send_kinds t) = nmsgs t /\ length (recv_kinds t) = nmsgs t /\
  length (bcast_kinds t) = nbcast t /\ 1 <= nmsgs t.
Proof.
  intros t. rewrite recv_send_match.
  destruct t as [ | | | k | s]; simpl; try (repeat split; lia).
  - rewrite !rep_app_length. simpl. repeat split; lia.
  - destruct s; simpl; repeat split; lia.
Qed.

Lemma map_fst_filter : forall X Y Z (g : X -> Y * Z) (p : Y -> bool) (l : list X),
  map fst (filter (fun a => p (fst a)) (map g l)) = filter p (map (fun x => fst (g x)) l).
Proof.
  induction l; simpl; [reflexivity|]. destruct (p (fst (g a))); simpl; rewrite IHl; reflexivity.
Qed.

Lemma kind_program_projects : forall part t r,
  map fst (rank_kind_program part t r) = rank_comm_program part (nmsgs t) (nbcast t) r.
Proof.
  intros. unfold rank_kind_program, rank_comm_program, rank_program.
  rewrite (map_fst_filter _ _ _ (kaction part t r) (fun a => negb (fst a =? 1))).
  reflexivity.
Qed.

(* ---- the defaults of [nth] in kaction are unreachable ---- *)
Lemma msgs_index : forall j k M i0 e, In e (msgs j k M i0) ->
  exists i l, e = Msg j k i l /\ i0 <= i < i0 + M.
Proof.
  induction M as [|M' IH]; intros i0 e H; simpl in H; [contradiction|].
  destruct M' as [|M''].
  - destruct H as [H|[]]. subst. exists i0, true. split; [reflexivity|lia].
  - destruct H as [H|H].
    + subst. exists i0, false. split; [reflexivity|lia].
    + apply IH in H. destruct H as (i & l & -> & Hi). exists i, l. split; [reflexivity|lia].
Qed.

Definition in_range (M B : nat) (x : rawev) : Prop :=
  match x with
  | Msg _ _ i _ => i < M
  | Coll (S (S c)) => c < B
  | _ => True
  end.

Lemma raw_in_range : forall part M B n x, In x (raw_events part M B n) -> in_range M B x.
Proof.
  intros part M B n x H. unfold raw_events in H.
  apply in_app_or in H. destruct H as [H|H].
  - simpl in H. destruct H as [<-|[<-|[]]]; exact I.
  - apply in_app_or in H. destruct H as [H|H].
    + apply in_flat_map in H. destruct H as ([j k] & _ & H). unfold expand in H.
      destruct (who part j =? who part k).
      * destruct H as [<-|[]]. exact I.
      * apply msgs_index in H. destruct H as (i & l & -> & Hi). simpl. lia.
    + apply in_map_iff in H. destruct H as (c & <- & Hc). apply in_seq in Hc. simpl. lia.
Qed.

Lemma kinds_defined : forall part t e, In e (G part (nmsgs t) (nbcast t)) ->
  match snd e with
  | Msg _ _ i _ => i < length (send_kinds t) /\ i < length (recv_kinds t)
  | Coll (S (S c)) => c < length (bcast_kinds t)
  | _ => True
  end.
Proof.
  intros part t [p x] H. unfold G, tag in H. apply in_combine_r in H.
  apply raw_in_range in H. destruct (proto_lengths t) as (Hs & Hr & Hb & _).
  simpl. rewrite Hs, Hr, Hb. destruct x as [| |c]; simpl in *; auto.
Qed.
