(* C23 -- the summation tree is a sum of ALL summands, each once, in order (unbounded), the
   run over any magma is the evaluation of the symbolic tree, and for an associative operation
   the result is the ordinary sum of the list. *)
From Coq Require Import List Arith Lia Bool.
Import ListNotations.
Require Import NV.C23.Model NV.C23.Proofs.

Fixpoint leaves (t : tm) : list nat :=
  match t with V i => [i] | P a b => leaves a ++ leaves b end.

Section Sym.
Notation cellT := (cell tm).
Notation addatT := (addat tm P).

Lemma cell_upd_eq {A} (l : list (option A)) i v : i < length l -> cell A (upd A l i v) i = v.
Proof.
  unfold cell. revert i; induction l as [|x l IH]; intros [|i] H; simpl in *; try lia; auto.
  apply IH; lia.
Qed.

Lemma addat_cells (l : list (option tm)) j k a b :
  j <> k -> j < length l -> k < length l ->
  cellT l j = Some a -> cellT l k = Some b ->
  cellT (addatT l j k) j = Some (P a b) /\ cellT (addatT l j k) k = None /\
  (forall i, i <> j -> i <> k -> cellT (addatT l j k) i = cellT l i) /\
  length (addatT l j k) = length l.
Proof.
  intros Hjk Hj Hk Ca Cb. unfold addat. rewrite Ca, Cb. repeat split.
  - rewrite (cell_upd_neq tm) by lia. apply cell_upd_eq. exact Hj.
  - apply cell_upd_eq. rewrite (upd_length tm). exact Hk.
  - intros i Hij Hik. rewrite !(cell_upd_neq tm) by lia. reflexivity.
  - rewrite !(upd_length tm). reflexivity.
Qed.

Variable n : nat.

(* every multiple s*q below n holds a tree over the block [s*q, s*q + s) cut at n *)
Definition Inv (s : nat) (l : list (option tm)) : Prop :=
  length l = n /\
  forall q, s * q < n -> exists t, cellT l (s * q) = Some t /\ leaves t = seq (s * q) (Nat.min s (n - s * q)).

(* m pairs of the round with distance s have been processed *)
Definition PInv (s m : nat) (l : list (option tm)) : Prop :=
  length l = n /\
  (forall q, q < m -> 2 * s * q < n ->
     exists t, cellT l (2 * s * q) = Some t /\ leaves t = seq (2 * s * q) (Nat.min (2 * s) (n - 2 * s * q))) /\
  (forall q, 2 * m <= q -> s * q < n ->
     exists t, cellT l (s * q) = Some t /\ leaves t = seq (s * q) (Nat.min s (n - s * q))).

Definition step_pair (l : list (option tm)) (e : nat * nat) := addatT l (fst e) (snd e).

Lemma seq_app_len a x y : seq a x ++ seq (a + x) y = seq a (x + y).
Proof. symmetry. apply seq_app. Qed.

Lemma round_inner s : 1 <= s -> forall fuel m l,
  n <= 2 * s * (m + fuel) -> PInv s m l ->
  Inv (2 * s) (fold_left step_pair (pairs_step n s (2 * s * m) fuel) l).
Proof.
  intros Hs. induction fuel as [|fuel IH]; intros m l Hf [Hlen [A1 A2]].
  - cbn [pairs_step fold_left]. split; [exact Hlen|]. intros q Hq. apply A1; nia.
  - cbn [pairs_step]. destruct (2 * s * m + s <? n) eqn:E.
    + apply Nat.ltb_lt in E. cbn [fold_left].
      destruct (A2 (2 * m) (le_n _)) as [a [Ca La]]; [nia|].
      destruct (A2 (2 * m + 1)) as [b [Cb Lb]]; [lia|nia|].
      replace (s * (2 * m)) with (2 * s * m) in * by nia.
      replace (s * (2 * m + 1)) with (2 * s * m + s) in * by nia.
      destruct (addat_cells l (2 * s * m) (2 * s * m + s) a b) as [Nj [Nk [No Nl]]];
        [lia|lia|lia|exact Ca|exact Cb|].
      replace (2 * s * m + 2 * s) with (2 * s * (S m)) by nia.
      apply IH; [nia|]. unfold step_pair; cbn [fst snd]. split; [lia|]. split.
      * intros q Hq Hn. destruct (Nat.eq_dec q m) as [->|Hne].
        -- exists (P a b). split; [exact Nj|]. cbn [leaves]. rewrite La, Lb.
           replace (Nat.min s (n - 2 * s * m)) with s by lia.
           rewrite seq_app_len. f_equal. lia.
        -- destruct (A1 q) as [t [Ct Lt]]; [lia|exact Hn|]. exists t. split; [|exact Lt].
           rewrite No; [exact Ct|nia|nia].
      * intros q Hq Hn. destruct (A2 q) as [t [Ct Lt]]; [lia|exact Hn|]. exists t. split; [|exact Lt].
        rewrite No; [exact Ct|nia|nia].
    + apply Nat.ltb_ge in E. cbn [fold_left]. split; [exact Hlen|]. intros q Hq.
      destruct (lt_dec q m) as [Hlt|Hge].
      * apply A1; assumption.
      * assert (q = m) as -> by nia.
        destruct (A2 (2 * m) (le_n _)) as [t [Ct Lt]]; [nia|].
        replace (s * (2 * m)) with (2 * s * m) in * by nia.
        exists t. split; [exact Ct|]. rewrite Lt. f_equal. lia.
Qed.

Lemma round s l : 1 <= s -> Inv s l ->
  Inv (2 * s) (fold_left step_pair (pairs_step n s 0 n) l).
Proof.
  intros Hs [Hlen A].
  assert (PI : PInv s 0 l).
  { split; [exact Hlen|]. split; [intros q Hq; lia|]. intros q _ Hq. apply A. exact Hq. }
  pose proof (round_inner s Hs n 0 l ltac:(nia) PI) as R. rewrite Nat.mul_0_r in R. exact R.
Qed.

Lemma rounds : 1 <= n -> forall fuel s l, 1 <= s -> n <= s + fuel -> Inv s l ->
  exists t, cellT (fold_left step_pair (events_from n s fuel) l) 0 = Some t /\ leaves t = seq 0 n.
Proof.
  intros Hn. induction fuel as [|fuel IH]; intros s l Hs Hf [Hlen A].
  - cbn [events_from fold_left].
    destruct (A 0) as [t [Ct Lt]]; [lia|]. rewrite Nat.mul_0_r in *. exists t. split; [exact Ct|].
    rewrite Lt. f_equal. lia.
  - cbn [events_from]. destruct (s <? n) eqn:E.
    + apply Nat.ltb_lt in E. rewrite fold_left_app. apply IH; [lia|lia|]. apply round; [exact Hs|split; assumption].
    + apply Nat.ltb_ge in E. cbn [fold_left].
      destruct (A 0) as [t [Ct Lt]]; [lia|]. rewrite Nat.mul_0_r in *. exists t. split; [exact Ct|].
      rewrite Lt. f_equal. lia.
Qed.

End Sym.

Theorem tree_leaves n : 1 <= n ->
  exists t, seq_sum tm P (sym_vals n) = Some t /\ leaves t = seq 0 n.
Proof.
  intros Hn. unfold seq_sum, seq_run, all_events.
  assert (L : length (sym_vals n) = n) by (unfold sym_vals; rewrite map_length, seq_length; reflexivity).
  rewrite L.
  apply (rounds n Hn n 1 (map Some (sym_vals n))); [lia|lia|].
  split; [rewrite map_length; exact L|]. intros q Hq. rewrite Nat.mul_1_l in *.
  exists (V q). split.
  - unfold cell, sym_vals. rewrite map_map. rewrite (nth_indep _ None (Some (V 0))) by (rewrite map_length, seq_length; exact Hq).
    rewrite (map_nth (fun x => Some (V x)) (seq 0 n) 0 q). rewrite seq_nth by exact Hq. reflexivity.
  - cbn [leaves]. replace (Nat.min 1 (n - q)) with 1 by lia. reflexivity.
Qed.

(* ---- the run over any magma is the evaluation of the symbolic tree ---- *)
Section Eval.
Variable A : Type.
Variable op : A -> A -> A.
Variable f : nat -> A.

Fixpoint eval (t : tm) : A :=
  match t with V i => f i | P a b => op (eval a) (eval b) end.

Definition emap (l : list (option tm)) : list (option A) := map (option_map eval) l.

Lemma emap_cell l i : cell A (emap l) i = option_map eval (cell tm l i).
Proof.
  unfold cell, emap. revert i; induction l as [|x l IH]; intros [|i]; simpl; auto.
Qed.
Lemma emap_upd l i v : emap (upd tm l i v) = upd A (emap l) i (option_map eval v).
Proof. revert i; induction l as [|x l IH]; intros [|i]; simpl; auto. f_equal. apply IH. Qed.

Lemma emap_addat l j k : emap (addat tm P l j k) = addat A op (emap l) j k.
Proof.
  unfold addat. rewrite !emap_cell.
  destruct (cell tm l j) as [a|]; destruct (cell tm l k) as [b|]; cbn [option_map]; try reflexivity.
  rewrite !emap_upd. reflexivity.
Qed.

Lemma emap_fold evs l :
  emap (fold_left (fun l e => addat tm P l (fst e) (snd e)) evs l) =
  fold_left (fun l e => addat A op l (fst e) (snd e)) evs (emap l).
Proof. revert l; induction evs as [|e evs IH]; intros l; [reflexivity|]. cbn [fold_left]. rewrite IH, emap_addat. reflexivity. Qed.

Theorem seq_sum_is_eval n :
  seq_sum A op (map f (seq 0 n)) = option_map eval (seq_sum tm P (sym_vals n)).
Proof.
  unfold seq_sum, seq_run. rewrite <- emap_cell, emap_fold.
  unfold sym_vals. rewrite !map_length. unfold emap. rewrite !map_map. reflexivity.
Qed.

(* for an associative operation: evaluation of a tree = left fold over its leaves *)
Hypothesis op_assoc : forall a b c, op a (op b c) = op (op a b) c.

Fixpoint fold1 (x : A) (l : list A) : A := match l with [] => x | y :: t => fold1 (op x y) t end.

Lemma fold1_app x l1 y l2 : fold1 x (l1 ++ y :: l2) = op (fold1 x l1) (fold1 y l2).
Proof.
  revert x y l1. induction l2 as [|z l2 IH]; intros x y l1.
  - revert x; induction l1 as [|w l1 IH1]; intros x; cbn [app fold1]; [reflexivity|apply IH1].
  - cbn [fold1]. rewrite <- (IH x (op y z) l1).
    clear IH. revert x. induction l1 as [|w l1 IH1]; intros x; cbn [app fold1].
    + rewrite op_assoc. reflexivity.
    + apply IH1.
Qed.

Lemma eval_fold1 t : exists i l, leaves t = i :: l /\ eval t = fold1 (f i) (map f l).
Proof.
  induction t as [i|a [ia [la [La Ea]]] b [ib [lb [Lb Eb]]]].
  - exists i, []. split; reflexivity.
  - exists ia, (la ++ ib :: lb). cbn [leaves eval]. rewrite La, Lb. split; [reflexivity|].
    rewrite map_app. cbn [map]. rewrite fold1_app, Ea, Eb. reflexivity.
Qed.

Theorem seq_sum_assoc n : 1 <= n ->
  seq_sum A op (map f (seq 0 n)) = Some (fold1 (f 0) (map f (seq 1 (n - 1)))).
Proof.
  intros Hn. rewrite seq_sum_is_eval. destruct (tree_leaves n Hn) as [t [E L]]. rewrite E. cbn [option_map].
  destruct (eval_fold1 t) as [i [l [Ll Ev]]]. rewrite Ev. rewrite L in Ll.
  destruct n as [|n']; [lia|]. cbn [seq] in Ll. inversion Ll; subst. replace (S n' - 1) with n' by lia. reflexivity.
Qed.

End Eval.
