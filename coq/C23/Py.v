(* C23 -- the few Python constructs the translator tr/c23_allreduce.py maps `allreduce_sum` onto
   (definitions only; proofs are in ProofsGen.v). *)
From Coq Require Import List Arith.
Import ListNotations.

(* range(lo, hi, st) for st >= 1: at most hi elements, so fuel hi is never exhausted.
   (Python raises ValueError for st = 0; the translated loop has st = 2*step with step >= 1,
   which ProofsGen.v carries as an invariant.) *)
Fixpoint py_range_f (fuel lo hi st : nat) : list nat :=
  match fuel with
  | O => []
  | S f => if lo <? hi then lo :: py_range_f f (lo + st) hi st else []
  end.
Definition py_range (lo hi st : nat) : list nat := py_range_f hi lo hi st.

(* What one task does in one loop-body execution of allreduce_sum, as recognised by the translator:
     vals[j] = vals[j] + vals[k]; vals[k] = None                      LAdd j k
     vals[j] = vals[j] + _recv(comm, source=s, dtype=dtype)           LRecv j s
     _send(comm, vals[k], dest=d, dtype=dtype); vals[k] = None        LSend k d            *)
Inductive lact := LAdd (j k : nat) | LRecv (j src : nat) | LSend (k dst : nat).
