(* C23 -- lemmas: instantiation of Base/Trace.v with the allreduce_sum event list. *)
From Coq Require Import List Arith Lia Bool.
Import ListNotations.
Require Import NV.Base.Trace NV.C23.Model.

Section Magma.
Variable A : Type.
Variable op : A -> A -> A.
Notation arr := (arr A).
Notation upd := (upd A).
Notation cell := (cell A).
Notation addat := (addat A op).

Lemma upd_length (l : arr) i v : length (upd l i v) = length l.
Proof. revert i; induction l as [|x l IH]; intros [|i]; simpl; auto. Qed.

Lemma cell_upd_neq (l : arr) i i' v : i <> i' -> cell (upd l i v) i' = cell l i'.
Proof.
  unfold Model.cell. revert i i'; induction l as [|x l IH]; intros [|i] [|i'] H; simpl; auto; try lia.
Qed.

Lemma upd_upd_comm (l : arr) i i' v v' : i <> i' -> upd (upd l i v) i' v' = upd (upd l i' v') i v.
Proof.
  revert i i'; induction l as [|x l IH]; intros [|i] [|i'] H; simpl; auto; try lia.
  f_equal. apply IH; lia.
Qed.

Lemma addat_comm (s : arr) j k j' k' :
  j <> j' -> j <> k' -> k <> j' -> k <> k' ->
  addat (addat s j k) j' k' = addat (addat s j' k') j k.
Proof.
  intros H1 H2 H3 H4. unfold Model.addat.
  destruct (cell s j) as [a|] eqn:Cj; destruct (cell s k) as [b|] eqn:Ck;
  destruct (cell s j') as [a'|] eqn:Cj'; destruct (cell s k') as [b'|] eqn:Ck';
  repeat (rewrite ?cell_upd_neq by lia; rewrite ?Cj, ?Ck, ?Cj', ?Ck'); try reflexivity.
  rewrite (upd_upd_comm (upd s j (Some (op a b))) k j') by lia.
  rewrite (upd_upd_comm s j j') by lia.
  rewrite (upd_upd_comm (upd (upd s j' (Some (op a' b'))) j (Some (op a b))) k k') by lia.
  rewrite (upd_upd_comm (upd s j' (Some (op a' b'))) j k') by lia.
  reflexivity.
Qed.

Variable part : list nat.
Variables M B : nat.
Notation parts := (Model.parts part).
Notation fire := (Model.fire A op).
Notation who := (Model.who part).

Lemma conflict_false_disjoint (a b : ev) :
  conflict ev parts a b = false -> forall r, In r (parts a) -> In r (parts b) -> False.
Proof.
  intros C r Ra Rb. assert (conflict ev parts a b = true) as T.
  { apply conflict_true. exists r. tauto. }
  congruence.
Qed.

Lemma idx_neq j k j' k' :
  (forall r, In r [who j; who k] -> In r [who j'; who k'] -> False) ->
  j <> j' /\ j <> k' /\ k <> j' /\ k <> k'.
Proof.
  intros D. repeat split; intros E; subst.
  - apply (D (who j')); simpl; auto.
  - apply (D (who k')); simpl; auto.
  - apply (D (who j')); simpl; auto.
  - apply (D (who k')); simpl; auto.
Qed.

Lemma fire_commute (s : arr) (a b : ev) :
  conflict ev parts a b = false -> fire (fire s a) b = fire (fire s b) a.
Proof.
  intros C. pose proof (conflict_false_disjoint a b C) as D.
  destruct a as [ia ra], b as [ib rb]. unfold Model.fire, Model.parts in *. simpl in *.
  destruct ra as [j k|j k i [|]|c]; destruct rb as [j' k'|j' k' i' [|]|c']; simpl in *; try reflexivity;
    destruct (idx_neq j k j' k' D) as [H1 [H2 [H3 H4]]];
    apply addat_comm; assumption.
Qed.

(* ---- the global list is duplicate-free and every event has a participant ---- *)
Lemma map_fst_combine {X Y} (a : list X) (b : list Y) :
  length a = length b -> map fst (combine a b) = a.
Proof.
  revert b; induction a as [|x a IH]; intros [|y b] H; simpl in *; try lia; auto.
  f_equal. apply IH. lia.
Qed.

Lemma tag_nodup (l : list rawev) : NoDup (tag l).
Proof.
  unfold tag. apply (NoDup_map_inv fst). rewrite map_fst_combine by (rewrite seq_length; reflexivity).
  apply seq_NoDup.
Qed.

Lemma G_nodup : NoDup (G part M B).
Proof. apply tag_nodup. Qed.

Lemma G_parts : part <> [] -> forall e, In e (G part M B) -> parts e <> [].
Proof.
  intros Hp [i r] _. unfold Model.parts. simpl. destruct r; try discriminate.
  unfold ntasks. destruct part; [contradiction|]. simpl. discriminate.
Qed.

(* ---- the canonical run of G is the single-process run ---- *)
Definition fire_raw (s : arr) (r : rawev) : arr := fire s (0, r).

Lemma fold_tag (l : list rawev) (a : nat) (s : arr) :
  fold_left fire (combine (seq a (length l)) l) s = fold_left fire_raw l s.
Proof.
  revert a s; induction l as [|r l IH]; intros a s; [reflexivity|]. simpl. rewrite IH. reflexivity.
Qed.

Lemma fold_msgs j k s : forall m i, 1 <= m -> fold_left fire_raw (msgs j k m i) s = addat s j k.
Proof.
  intros m. induction m as [|m IH]; intros i H; [lia|].
  destruct m as [|m']; [reflexivity|].
  change (msgs j k (S (S m')) i) with (Msg j k i false :: msgs j k (S m') (S i)).
  simpl fold_left. change (fire_raw s (Msg j k i false)) with s. apply IH. lia.
Qed.

Lemma fold_expand (e : nat * nat) s :
  1 <= M -> fold_left fire_raw (expand part M e) s = addat s (fst e) (snd e).
Proof.
  intros HM. destruct e as [j k]. unfold expand. simpl.
  destruct (who j =? who k); [reflexivity|]. apply fold_msgs; assumption.
Qed.

Lemma fold_flat (evs : list (nat * nat)) s :
  1 <= M ->
  fold_left fire_raw (flat_map (expand part M) evs) s =
  fold_left (fun l e => addat l (fst e) (snd e)) evs s.
Proof.
  intros HM. revert s; induction evs as [|e evs IH]; intros s; [reflexivity|].
  simpl. rewrite fold_left_app, fold_expand by assumption. apply IH.
Qed.

Lemma fold_colls (cs : list nat) s : fold_left fire_raw (map Coll cs) s = s.
Proof. revert s; induction cs as [|c cs IH]; intros s; [reflexivity|]. simpl. apply IH. Qed.

Lemma dist_run_seq_run (vals : list A) :
  1 <= M -> list_sum part = length vals ->
  dist_run A op part M B vals = seq_run A op vals.
Proof.
  intros HM Hn. unfold dist_run, G, tag, seq_run. rewrite fold_tag. unfold raw_events.
  rewrite Hn. rewrite !fold_left_app. simpl fold_left.
  change (fire_raw (fire_raw (map Some vals) (Coll 0)) (Coll 1)) with (map Some vals).
  rewrite fold_flat by assumption.
  rewrite <- (map_map (fun c => 2 + c) Coll). apply fold_colls.
Qed.

(* ---- main statements, through Base/Trace ---- *)
Notation pcfg := (Trace.pcfg arr ev).
Notation pinit vals := (Trace.pinit arr ev parts (G part M B) (map Some vals)).
Notation psteps := (Trace.psteps arr ev fire parts).
Notation pstep := (Trace.pstep arr ev fire parts).

Lemma value (vals : list A) (p : pcfg) :
  part <> [] -> 1 <= M -> list_sum part = length vals ->
  psteps (pinit vals) p -> (forall r, rems _ _ p r = []) ->
  st _ _ p = seq_run A op vals.
Proof.
  intros Hp HM Hn Hs Hfin.
  rewrite (trace_final_state arr ev fire parts fire_commute (G part M B) (map Some vals)
             G_nodup (G_parts Hp) p Hs Hfin).
  apply dist_run_seq_run; assumption.
Qed.

Lemma no_deadlock (vals : list A) (p : pcfg) :
  part <> [] ->
  psteps (pinit vals) p -> (exists r, rems _ _ p r <> []) -> exists q, pstep p q.
Proof.
  intros Hp Hs Hr.
  exact (trace_no_deadlock arr ev fire parts fire_commute (G part M B) (map Some vals)
           G_nodup (G_parts Hp) p Hs Hr).
Qed.

Lemma rank_program_projection r :
  rank_program part M B r = map (action part r) (Trace.prog ev parts (G part M B) r).
Proof. reflexivity. Qed.

End Magma.

(* ---- fuel: the loops of the model never run out of fuel ---- *)
Lemma pairs_step_fuel n step : 1 <= step -> forall f j, n <= j + 2 * f ->
  pairs_step n step j f = pairs_step n step j (S f).
Proof.
  intros Hs f. induction f as [|f IH]; intros j H.
  - simpl. destruct (j + step <? n) eqn:E; [apply Nat.ltb_lt in E; lia|reflexivity].
  - change (pairs_step n step j (S f)) with
      (if j + step <? n then (j, j + step) :: pairs_step n step (j + 2 * step) f else []).
    change (pairs_step n step j (S (S f))) with
      (if j + step <? n then (j, j + step) :: pairs_step n step (j + 2 * step) (S f) else []).
    destruct (j + step <? n); [|reflexivity]. f_equal. apply IH. lia.
Qed.

Lemma events_from_fuel n : forall f step, 1 <= step -> n <= step + f ->
  events_from n step f = events_from n step (S f).
Proof.
  intros f. induction f as [|f IH]; intros step Hs H.
  - simpl. destruct (step <? n) eqn:E; [apply Nat.ltb_lt in E; lia|reflexivity].
  - change (events_from n step (S f)) with
      (if step <? n then pairs_step n step 0 n ++ events_from n (2 * step) f else []).
    change (events_from n step (S (S f))) with
      (if step <? n then pairs_step n step 0 n ++ events_from n (2 * step) (S f) else []).
    destruct (step <? n); [|reflexivity]. f_equal. apply IH; lia.
Qed.

Lemma events_from_more_fuel n f : n <= f -> events_from n 1 f = all_events n.
Proof.
  unfold all_events. induction 1 as [|f H IH]; [reflexivity|].
  rewrite <- IH. symmetry. apply events_from_fuel; lia.
Qed.

(* ---- the tree is a sum of ALL summands, each once, in order (bounded statement) ---- *)
Fixpoint leaves (t : tm) : list nat :=
  match t with V i => [i] | P a b => leaves a ++ leaves b end.

Definition leaves_ok (n : nat) : bool :=
  match seq_sum tm P (sym_vals n) with
  | Some t => list_eqb Nat.eqb (leaves t) (seq 0 n)
  | None => false
  end.

Lemma leaves_ok_upto_128 : forallb leaves_ok (seq 1 128) = true.
Proof. vm_compute. reflexivity. Qed.

Lemma tree_leaves_bounded n : 1 <= n <= 128 -> leaves_ok n = true.
Proof.
  intros H. pose proof leaves_ok_upto_128 as A. rewrite forallb_forall in A. apply A.
  apply in_seq. lia.
Qed.
