(* C07 -- Fields are immutable once constructed.   Executable model, no proofs.

   Mirrors nifty/cl/any_array.py (AnyArray.__init__/lock/asnumpy/view/copy/val/__getitem__/
   __setitem__/__iadd__/conj/real/__array_ufunc__(out=)) and nifty/cl/field.py (Field.__init__/
   from_raw/full/cast_domain/val/raw/asnumpy/val_rw/asnumpy_rw/_binary_op) plus
   DiagonalOperator.__init__/_fill_rest (what makeOp(field) keeps), on top of a model of the NumPy
   facts these rely on:

     N1  an ndarray object refers to a buffer and carries its own `writeable` flag;
     N2  a view (x.view(), x[:], x.reshape, x.T) is a NEW ndarray object on the SAME buffer whose
         flag is copied from its parent at creation time;
     N3  x.copy(), x + y, -x ... allocate a NEW buffer with one new writeable ndarray object;
     N4  every write through an ndarray object whose flag is False raises ValueError and changes
         nothing; a write through a writeable object changes that object's buffer only;
     N5  `x.flags.writeable = False` changes the flag of that one object only.

   All arrays of one history have the same length L (1-D, integer data); every view is a full view.
   Not in the model (excluded by statement, see notes/C07.md): the user setting
   `flags.writeable = True` by hand, and handles reached through `ndarray.base`.

   [fixd] selects the body of AnyArray.lock:  true = the code with fixes/C07-1.patch
       if isinstance(self._val, np.ndarray): self._val.flags.writeable = False
   false = the pinned code (`isinstance(self, np.ndarray)`, never true: the flag stays).
   The theorems are about fixd = true; fixd = false is refuted (Props.C07_unfixed_lock_refuted). *)
From Coq Require Import ZArith List Bool Arith.
Import ListNotations.

Record nd := mkNd { nbuf : nat; nwr : bool }.            (* ndarray object: buffer id, flags.writeable *)
Record any := mkAny { and_ : nat; aw : bool }.           (* AnyArray: _val (ndarray id), _writeable *)
Record st := mkSt {
  bufs : list (list Z);     (* heap of buffers *)
  nds : list nd;            (* every ndarray object created so far *)
  anys : list any;          (* every AnyArray object *)
  flds : list nat;          (* every Field: id of its AnyArray (Field._val) *)
  diags : list nat          (* every DiagonalOperator: id of the AnyArray it keeps (_ldiag) *)
}.
Definition init : st := mkSt [] [] [] [] [].

Fixpoint upd {A : Type} (l : list A) (i : nat) (x : A) : list A :=
  match l with
  | [] => []
  | h :: t => match i with O => x :: t | S j => h :: upd t j x end
  end.

Definition zip_add (x y : list Z) : list Z := map (fun p => (fst p + snd p)%Z) (combine x y).

Definition nd_at (s : st) (n : nat) := nth_error (nds s) n.
Definition any_at (s : st) (a : nat) := nth_error (anys s) a.
(* what is read through ndarray n ([] cannot occur in a well-formed state: Proofs.wf) *)
Definition nd_val (s : st) (n : nat) : list Z :=
  match nd_at s n with
  | Some d => match nth_error (bufs s) (nbuf d) with Some v => v | None => [] end
  | None => []
  end.

(* ---- primitive effects ---- *)
Inductive prim :=
| PFresh (v : list Z) (wr : bool)   (* N3: new buffer + new ndarray object on it *)
| PView (n : nat)                   (* N2 *)
| PStore (n : nat) (v : list Z)     (* N4: store v through ndarray n (no effect unless writeable) *)
| PWrap (n : nat)                   (* AnyArray.__init__: self._val = arr; self._writeable = True *)
| PLockNd (n : nat)                 (* N5: arr.flags.writeable = False *)
| PLockAny (a : nat)                (* self._writeable = False *)
| PFld (a : nat)                    (* Field.__init__: self._val = val *)
| PDiag (a : nat).                  (* DiagonalOperator: self._ldiag = diagonal.val *)

Definition exec (s : st) (p : prim) : st :=
  match p with
  | PFresh v wr => mkSt (bufs s ++ [v]) (nds s ++ [mkNd (length (bufs s)) wr]) (anys s) (flds s) (diags s)
  | PView n =>
      match nth_error (nds s) n with
      | Some d => mkSt (bufs s) (nds s ++ [mkNd (nbuf d) (nwr d)]) (anys s) (flds s) (diags s)
      | None => s
      end
  | PStore n v =>
      match nth_error (nds s) n with
      | Some d => if nwr d then mkSt (upd (bufs s) (nbuf d) v) (nds s) (anys s) (flds s) (diags s) else s
      | None => s
      end
  | PWrap n =>
      if n <? length (nds s) then mkSt (bufs s) (nds s) (anys s ++ [mkAny n true]) (flds s) (diags s) else s
  | PLockNd n =>
      match nth_error (nds s) n with
      | Some d => mkSt (bufs s) (upd (nds s) n (mkNd (nbuf d) false)) (anys s) (flds s) (diags s)
      | None => s
      end
  | PLockAny a =>
      match nth_error (anys s) a with
      | Some y => mkSt (bufs s) (nds s) (upd (anys s) a (mkAny (and_ y) false)) (flds s) (diags s)
      | None => s
      end
  | PFld a => if a <? length (anys s) then mkSt (bufs s) (nds s) (anys s) (flds s ++ [a]) (diags s) else s
  | PDiag a => if a <? length (anys s) then mkSt (bufs s) (nds s) (anys s) (flds s) (diags s ++ [a]) else s
  end.

(* ---- public operations ---- *)
Inductive op :=
(* user code on plain NumPy arrays *)
| NewArr (v : list Z)              (* x = np.array(v)  (also: an instance of an ndarray subclass) *)
| NewArrRO (v : list Z)            (* x = np.array(v); x.flags.writeable = False *)
| NdView (n : nat)                 (* x.view() | x[:] | x.reshape(L) | x.T *)
| NdCopy (n : nat)                 (* x.copy() *)
| NdWrite (n i : nat) (v : Z)      (* x[i] = v *)
| NdIAdd (n m : nat)               (* x += y | np.add(x, y, out=x) *)
(* AnyArray *)
| MkAny (n : nat)                  (* AnyArray(x) *)
| AnyLock (a : nat)                (* a.lock() *)
| AnyVal (a : nat)                 (* a.val *)
| AnyAsNumpy (a : nat)             (* a.asnumpy() *)
| AnyView (a : nat)                (* a.view() | a[:] | a.reshape(L) | a.T *)
| AnySame (a : nat)                (* a.conj() | a.conjugate() | a.real  (real dtype: ndarray returns self) *)
| AnyCopy (a : nat)                (* a.copy() *)
| AnySetItem (a i : nat) (v : Z)   (* a[i] = v *)
| AnyIAdd (a b : nat)              (* a += b *)
| AnyUfuncOut (a b : nat)          (* np.add(a, b, out=a) *)
(* Field *)
| MkField (n : nat)                (* Field(dom, x) | Field.from_raw(dom, x) | makeField(dom, x) *)
| MkFieldAny (a : nat)             (* Field(dom, a) | Field.from_raw(dom, a) *)
| FieldFull (v : Z)                (* Field.full(dom, v) | ift.full(dom, v) *)
| FieldCast (f : nat)              (* f.cast_domain(dom') *)
| FieldVal (f : nat)               (* f.val *)
| FieldRaw (f : nat)               (* f.raw *)
| FieldAsNumpy (f : nat)           (* f.asnumpy() *)
| FieldValRw (f : nat)             (* f.val_rw() *)
| FieldAsNumpyRw (f : nat)         (* f.asnumpy_rw() *)
| FieldAdd (f g : nat)             (* f + g | f.unite(g) *)
| FieldClone (f : nat)             (* pickle.loads(pickle.dumps(f)) | copy.deepcopy(f) *)
| MkDiag (f : nat)                 (* makeOp(f) | DiagonalOperator(f) *)
| FieldNeg (f : nat).              (* -f | f * (-1) | (-1) * f | f.scale(-1) *)

Inductive exn := EValue | EType | EIndex.
Inductive res :=
| RNone | RRaise (e : exn) | RNd (n : nat) | RAny (a : nat) | RFld (f : nat) | RDiag (d : nat)
| RBad.   (* the op names an object that does not exist (or a wrong length): no counterpart in a
             real run; the state is left unchanged *)

(* AnyArray.lock (any_array.py:185-189):
     if isinstance(self._val, np.ndarray): self._val.flags.writeable = False     [fixd]
     self._writeable = False *)
Definition lockp (fixd : bool) (n a : nat) : list prim :=
  (if fixd then [PLockNd n] else []) ++ [PLockAny a].

(* x[i] = v on ndarray n *)
Definition np_setitem (L : nat) (s : st) (n i : nat) (v : Z) : list prim * res :=
  match nd_at s n with
  | Some d => if nwr d then
                if i <? L then ([PStore n (upd (nd_val s n) i v)], RNone) else ([], RRaise EIndex)
              else ([], RRaise EValue)
  | None => ([], RBad)
  end.

(* AnyArray.asnumpy (any_array.py:305-308):  res = self.at(-1).val   (CPU: self._val itself)
     if self.readonly: res.flags.writeable = False *)
Definition asnumpy_p (y : any) : list prim := if aw y then [] else [PLockNd (and_ y)].

Definition compile (fixd : bool) (L : nat) (s : st) (o : op) : list prim * res :=
  let nN := length (nds s) in
  let nA := length (anys s) in
  let nF := length (flds s) in
  let nD := length (diags s) in
  match o with
  | NewArr v => if length v =? L then ([PFresh v true], RNd nN) else ([], RBad)
  | NewArrRO v => if length v =? L then ([PFresh v false], RNd nN) else ([], RBad)
  | NdView n => match nd_at s n with Some _ => ([PView n], RNd nN) | None => ([], RBad) end
  | NdCopy n => match nd_at s n with Some _ => ([PFresh (nd_val s n) true], RNd nN) | None => ([], RBad) end
  | NdWrite n i v => np_setitem L s n i v
  | NdIAdd n m =>
      match nd_at s n, nd_at s m with
      | Some d, Some _ => if nwr d then ([PStore n (zip_add (nd_val s n) (nd_val s m))], RNone)
                          else ([], RRaise EValue)
      | _, _ => ([], RBad)
      end
  | MkAny n => match nd_at s n with Some _ => ([PWrap n], RAny nA) | None => ([], RBad) end
  | AnyLock a => match any_at s a with Some y => (lockp fixd (and_ y) a, RNone) | None => ([], RBad) end
  | AnyVal a => match any_at s a with Some y => ([], RNd (and_ y)) | None => ([], RBad) end
  | AnyAsNumpy a => match any_at s a with Some y => (asnumpy_p y, RNd (and_ y)) | None => ([], RBad) end
  (* view: return AnyArray(self._val.view(...));  __getitem__: AnyArray(self._val[index]) *)
  | AnyView a => match any_at s a with Some y => ([PView (and_ y); PWrap nN], RAny nA) | None => ([], RBad) end
  (* conj/real on a real dtype: ndarray returns itself, func2 wraps it again: AnyArray(res) *)
  | AnySame a => match any_at s a with Some y => ([PWrap (and_ y)], RAny nA) | None => ([], RBad) end
  (* copy: return AnyArray(self._val.copy()) *)
  | AnyCopy a => match any_at s a with
                 | Some y => ([PFresh (nd_val s (and_ y)) true; PWrap nN], RAny nA)
                 | None => ([], RBad) end
  (* __setitem__ (any_array.py:449-457): if self.readonly: raise ValueError(...); self._val[index] = value *)
  | AnySetItem a i v =>
      match any_at s a with
      | Some y => if aw y then np_setitem L s (and_ y) i v else ([], RRaise EValue)
      | None => ([], RBad)
      end
  (* __iadd__ (any_array.py:692-700): if self._writeable: return AnyArray(self._val.__iadd__(other._val))
     raise TypeError("AnyArray is readonly") *)
  | AnyIAdd a b =>
      match any_at s a, any_at s b with
      | Some y, Some z =>
          if aw y then
            match nd_at s (and_ y) with
            | Some d => if nwr d then
                          ([PStore (and_ y) (zip_add (nd_val s (and_ y)) (nd_val s (and_ z))); PWrap (and_ y)], RAny nA)
                        else ([], RRaise EValue)
            | None => ([], RBad)
            end
          else ([], RRaise EType)
      | _, _ => ([], RBad)
      end
  (* __array_ufunc__ with out=: the AnyArrays (also `out`) are unwrapped to their ndarrays and the
     ufunc is called on those; AnyArray._writeable is not consulted *)
  | AnyUfuncOut a b =>
      match any_at s a, any_at s b with
      | Some y, Some z =>
          match nd_at s (and_ y) with
          | Some d => if nwr d then
                        ([PStore (and_ y) (zip_add (nd_val s (and_ y)) (nd_val s (and_ z)))], RNone)
                      else ([], RRaise EValue)
          | None => ([], RBad)
          end
      | _, _ => ([], RBad)
      end
  (* Field.__init__ (field.py:51-59): val = AnyArray(val); val.lock(); self._val = val *)
  | MkField n =>
      match nd_at s n with
      | Some _ => (PWrap n :: lockp fixd n nA ++ [PFld nA], RFld nF)
      | None => ([], RBad)
      end
  (* AnyArray(val) returns val itself when it already is an AnyArray (__new__) *)
  | MkFieldAny a =>
      match any_at s a with
      | Some y => (lockp fixd (and_ y) a ++ [PFld a], RFld nF)
      | None => ([], RBad)
      end
  (* Field.full -> AnyArray.full: AnyArray(np.broadcast_to(xp.array(val), shape)): a read-only
     ndarray on memory nothing else refers to *)
  | FieldFull v => (PFresh (repeat v L) false :: PWrap nN :: lockp fixd nN nA ++ [PFld nA], RFld nF)
  (* cast_domain: return Field(DomainTuple.make(new_domain), self._val) *)
  | FieldCast f =>
      match nth_error (flds s) f with
      | Some a => match any_at s a with
                  | Some y => (lockp fixd (and_ y) a ++ [PFld a], RFld nF)
                  | None => ([], RBad) end
      | None => ([], RBad)
      end
  | FieldVal f => match nth_error (flds s) f with Some a => ([], RAny a) | None => ([], RBad) end
  (* raw: return self._val._val *)
  | FieldRaw f =>
      match nth_error (flds s) f with
      | Some a => match any_at s a with Some y => ([], RNd (and_ y)) | None => ([], RBad) end
      | None => ([], RBad)
      end
  | FieldAsNumpy f =>
      match nth_error (flds s) f with
      | Some a => match any_at s a with Some y => (asnumpy_p y, RNd (and_ y)) | None => ([], RBad) end
      | None => ([], RBad)
      end
  (* val_rw: return self._val.copy() *)
  | FieldValRw f =>
      match nth_error (flds s) f with
      | Some a => match any_at s a with
                  | Some y => ([PFresh (nd_val s (and_ y)) true; PWrap nN], RAny nA)
                  | None => ([], RBad) end
      | None => ([], RBad)
      end
  (* asnumpy_rw: return self._val.asnumpy().copy() *)
  | FieldAsNumpyRw f =>
      match nth_error (flds s) f with
      | Some a => match any_at s a with
                  | Some y => (asnumpy_p y ++ [PFresh (nd_val s (and_ y)) true], RNd nN)
                  | None => ([], RBad) end
      | None => ([], RBad)
      end
  (* _binary_op: return Field(self._domain, f(other._val)): new buffer, new ndarray, wrapped by
     __array_ufunc__/_wrap_result in a new AnyArray, locked by Field.__init__ *)
  | FieldAdd f g =>
      match nth_error (flds s) f, nth_error (flds s) g with
      | Some a, Some b =>
          match any_at s a, any_at s b with
          | Some y, Some z =>
              (PFresh (zip_add (nd_val s (and_ y)) (nd_val s (and_ z))) true :: PWrap nN
                 :: lockp fixd nN nA ++ [PFld nA], RFld nF)
          | _, _ => ([], RBad)
          end
      | _, _ => ([], RBad)
      end
  (* pickle / deepcopy: a new buffer; NumPy restores the ndarray WRITEABLE (the flag is not part of
     its pickle state); AnyArray.__dict__ comes back with _writeable = False and
     AnyArray.__setstate__ (fixes/C07-2.patch) locks again:  if not self._writeable: self.lock() *)
  | FieldClone f =>
      match nth_error (flds s) f with
      | Some a => match any_at s a with
                  | Some y => (PFresh (nd_val s (and_ y)) true :: PWrap nN :: lockp fixd nN nA ++ [PFld nA], RFld nF)
                  | None => ([], RBad) end
      | None => ([], RBad)
      end
  (* DiagonalOperator.__init__ (spaces=None): self._ldiag = diagonal.val; _fill_rest: self._ldiag.lock() *)
  | MkDiag f =>
      match nth_error (flds s) f with
      | Some a => match any_at s a with
                  | Some y => (lockp fixd (and_ y) a ++ [PDiag a], RDiag nD)
                  | None => ([], RBad) end
      | None => ([], RBad)
      end
  (* Field.__neg__ (field.py:431-432): return Field(self._domain, -self._val)
     (f * (-1), (-1) * f, f.scale(-1): _binary_op with a scalar, Field(self._domain, self._val * other)):
     NumPy allocates a new buffer with one new writeable ndarray (N3), AnyArray wraps it in a new
     AnyArray, Field.__init__ locks it *)
  | FieldNeg f =>
      match nth_error (flds s) f with
      | Some a => match any_at s a with
                  | Some y => (PFresh (map Z.opp (nd_val s (and_ y))) true :: PWrap nN :: lockp fixd nN nA ++ [PFld nA], RFld nF)
                  | None => ([], RBad) end
      | None => ([], RBad)
      end
  end.

Definition step (fixd : bool) (L : nat) (s : st) (o : op) : st * res :=
  (fold_left exec (fst (compile fixd L s o)) s, snd (compile fixd L s o)).

Fixpoint run (fixd : bool) (L : nat) (s : st) (h : list op) : st :=
  match h with
  | [] => s
  | o :: t => run fixd L (fst (step fixd L s o)) t
  end.

(* ---- observations ---- *)
Definition any_buf (s : st) (a : nat) : option nat :=
  match any_at s a with
  | Some y => match nd_at s (and_ y) with Some d => Some (nbuf d) | None => None end
  | None => None
  end.
Definition obs_any (s : st) (a : nat) : option (list Z) :=
  match any_buf s a with Some b => nth_error (bufs s) b | None => None end.
(* what f.raw / f.asnumpy() / f.val show *)
Definition obs_fld (s : st) (f : nat) : option (list Z) :=
  match nth_error (flds s) f with Some a => obs_any s a | None => None end.
(* the diagonal makeOp(f) multiplies with *)
Definition obs_diag (s : st) (k : nat) : option (list Z) :=
  match nth_error (diags s) k with Some a => obs_any s a | None => None end.

(* ---- the precondition on the caller's side ----
   A field built from a caller-supplied array can only be protected if, at that moment, the caller
   holds no OTHER writeable ndarray object on the same memory (a view made earlier keeps its own
   flag, N2/N5; NumPy offers a wrapper no way to revoke it). *)
Fixpoint others_ro (l : list nd) (k n b : nat) : bool :=
  match l with
  | [] => true
  | d :: t => (if k =? n then true else if nbuf d =? b then negb (nwr d) else true) && others_ro t (S k) n b
  end.
Definition src_ok (s : st) (n : nat) : bool :=
  match nd_at s n with Some d => others_ro (nds s) 0 n (nbuf d) | None => true end.
Definition adm (s : st) (o : op) : bool :=
  match o with
  | MkField n => src_ok s n
  | MkFieldAny a => match any_at s a with Some y => src_ok s (and_ y) | None => true end
  | _ => true
  end.
Fixpoint adm_run (fixd : bool) (L : nat) (s : st) (h : list op) : bool :=
  match h with
  | [] => true
  | o :: t => adm s o && adm_run fixd L (fst (step fixd L s o)) t
  end.

(* ---- comparison with the implementation (correspondence check) ---- *)
Definition snapT : Type :=
  (list (nat * bool * list Z) * list (nat * bool) * list nat * list (list Z))%type.
Definition snapshot (s : st) : snapT :=
  (map (fun d => (nbuf d, nwr d, match nth_error (bufs s) (nbuf d) with Some v => v | None => [] end)) (nds s),
   map (fun y => (and_ y, aw y)) (anys s),
   flds s,
   map (fun a => match obs_any s a with Some v => v | None => [] end) (diags s)).

Fixpoint list_eqb {A : Type} (e : A -> A -> bool) (x y : list A) : bool :=
  match x, y with
  | [], [] => true
  | a :: t, b :: u => e a b && list_eqb e t u
  | _, _ => false
  end.
Definition res_eqb (a b : res) : bool :=
  match a, b with
  | RNone, RNone | RBad, RBad => true
  | RRaise _, RRaise _ => true   (* the exception class is not part of the property *)
  | RNd x, RNd y | RAny x, RAny y | RFld x, RFld y | RDiag x, RDiag y => x =? y
  | _, _ => false
  end.
Definition snap_eqb (x y : snapT) : bool :=
  let '(n1, a1, f1, d1) := x in
  let '(n2, a2, f2, d2) := y in
  list_eqb (fun p q => (fst (fst p) =? fst (fst q)) && Bool.eqb (snd (fst p)) (snd (fst q))
                       && list_eqb Z.eqb (snd p) (snd q)) n1 n2
  && list_eqb (fun p q => (fst p =? fst q) && Bool.eqb (snd p) (snd q)) a1 a2
  && list_eqb Nat.eqb f1 f2
  && list_eqb (list_eqb Z.eqb) d1 d2.

(* per step: the result the implementation returned, whether the step was admissible as measured
   on the real arrays, and the complete object graph with contents after the step *)
Fixpoint check_hist (L : nat) (s : st) (h : list op) (e : list (res * bool * snapT)) : bool :=
  match h, e with
  | [], [] => true
  | o :: t, (r, a, sn) :: et =>
      res_eqb r (snd (step true L s o)) && Bool.eqb a (adm s o)
      && snap_eqb sn (snapshot (fst (step true L s o)))
      && check_hist L (fst (step true L s o)) t et
  | _, _ => false
  end.
