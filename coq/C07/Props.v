(* C07 -- property theorems only.  Each is closed by [exact] of a lemma from Proofs.v.
   Everything is about the code WITH fixes/C07-1.patch (fixd = true) except C07_unfixed_lock_refuted.

   History = list of public operations (Model.op), of any length.  [adm_run] is the caller-side
   precondition, made explicit by C07_admissible_means_no_other_writer: whenever a field is built
   from a caller-supplied array (MkField / MkFieldAny), the caller holds no OTHER writeable ndarray
   object on the same memory at that moment.  All other operations are unconstrained.
   Excluded by the model's vocabulary (no such op): setting flags.writeable = True by hand, and
   handles reached through ndarray.base. *)
From Coq Require Import ZArith List Bool Arith Lia.
Import ListNotations.
Require Import NV.C07.Model NV.C07.Proofs NV.C07.ProofsNeg.

(* Immutability: for every admissible history h1 ++ h2 (unbounded), a field that shows value v after
   h1 shows v after h1 ++ h2: whatever later happens through the source array, .raw/.val/
   .asnumpy() handles, views, re-wrapped AnyArrays, in-place operators, ufuncs with out=. *)
Theorem C07_fields_immutable :
  forall (L : nat) (h1 h2 : list op) (f : nat) (v : list Z),
    adm_run true L init (h1 ++ h2) = true ->
    obs_fld (run true L init h1) f = Some v ->
    obs_fld (run true L init (h1 ++ h2)) f = Some v.
Proof. exact fields_immutable. Qed.

(* ... and every field that was ever created has a value to observe (the premise above is not
   vacuous for any existing field). *)
Theorem C07_fields_observable :
  forall (L : nat) (h : list op) (f : nat),
    adm_run true L init h = true -> f < length (flds (run true L init h)) ->
    exists v, obs_fld (run true L init h) f = Some v.
Proof. exact fields_observable. Qed.

(* Once nothing writeable reaches an AnyArray's buffer and it is locked ([covered]), it shows the same
   values after ANY continuation, admissible or not, and also with the unfixed lock: the
   precondition matters only at the moment a field is constructed. *)
Theorem C07_protected_forever :
  forall (fixd : bool) (L : nat) (s : st) (a : nat) (h : list op),
    covered s a -> covered (run fixd L s h) a /\ obs_any (run fixd L s h) a = obs_any s a.
Proof. exact covered_forever. Qed.

(* What the precondition says. *)
Theorem C07_admissible_means_no_other_writer :
  forall (s : st) (n : nat) (d : nd), nth_error (nds s) n = Some d ->
    (adm s (MkField n) = true <->
     forall j d', nth_error (nds s) j = Some d' -> j <> n -> nbuf d' = nbuf d -> nwr d' = false).
Proof. exact src_ok_spec. Qed.

(* Operators keep their meaning: the diagonal kept by makeOp(f) / DiagonalOperator(f) is f's value
   at construction, after every admissible continuation. *)
Theorem C07_operators_keep_meaning :
  forall (L : nat) (h1 h2 : list op) (f : nat) (v : list Z),
    adm_run true L init (h1 ++ MkDiag f :: h2) = true ->
    obs_fld (run true L init h1) f = Some v ->
    obs_diag (run true L init (h1 ++ MkDiag f :: h2)) (length (diags (run true L init h1))) = Some v.
Proof. exact diag_keeps_meaning. Qed.

(* The handles a field gives out (.val, .raw) are read-only objects, and every write through them
   -- x[i] = v, x += y, a[i] = v, a += b, np.add(a, b, out=a) -- raises and leaves the state
   unchanged. *)
Theorem C07_field_handles_reject_writes :
  forall (L : nat) (h : list op) (f a : nat),
    adm_run true L init h = true ->
    nth_error (flds (run true L init h)) f = Some a ->
    let s := run true L init h in
    exists y d, any_at s a = Some y /\ aw y = false /\ nd_at s (and_ y) = Some d /\ nwr d = false /\
      step true L s (FieldVal f) = (s, RAny a) /\
      step true L s (FieldRaw f) = (s, RNd (and_ y)) /\
      (forall i v, step true L s (NdWrite (and_ y) i v) = (s, RRaise EValue)) /\
      (forall m, nd_at s m <> None -> step true L s (NdIAdd (and_ y) m) = (s, RRaise EValue)) /\
      (forall i v, step true L s (AnySetItem a i v) = (s, RRaise EValue)) /\
      (forall b, any_at s b <> None -> step true L s (AnyIAdd a b) = (s, RRaise EType)) /\
      (forall b, any_at s b <> None -> step true L s (AnyUfuncOut a b) = (s, RRaise EValue)).
Proof. exact field_handles. Qed.

(* asnumpy_rw hands out a writeable ndarray on a NEW buffer holding the field's value. *)
Theorem C07_rw_copies_are_fresh :
  forall (L : nat) (h : list op) (f a : nat),
    adm_run true L init h = true ->
    nth_error (flds (run true L init h)) f = Some a ->
    let s := run true L init h in
    let s1 := fst (step true L s (FieldAsNumpyRw f)) in
    snd (step true L s (FieldAsNumpyRw f)) = RNd (length (nds s)) /\
    nd_at s1 (length (nds s)) = Some (mkNd (length (bufs s)) true) /\
    nth_error (bufs s1) (length (bufs s)) = obs_fld s f.
Proof. exact rw_copies_fresh. Qed.

(* Derived fields: -f (Field.__neg__; also f * (-1), (-1) * f, f.scale(-1)) returns a NEW field, the
   next field id, which shows the negated value f had at that moment after every admissible
   continuation h2 (unbounded), and f itself keeps its value: NIFTy needs no hypothesis for fields it
   builds itself (FieldNeg is unconstrained in adm). *)
Theorem C07_negated_field_fixed_and_parent_kept :
  forall (L : nat) (h1 h2 : list op) (f : nat) (v : list Z),
    adm_run true L init (h1 ++ FieldNeg f :: h2) = true ->
    obs_fld (run true L init h1) f = Some v ->
    snd (step true L (run true L init h1) (FieldNeg f)) = RFld (length (flds (run true L init h1))) /\
    obs_fld (run true L init (h1 ++ FieldNeg f :: h2)) (length (flds (run true L init h1))) = Some (map Z.opp v) /\
    obs_fld (run true L init (h1 ++ FieldNeg f :: h2)) f = Some v.
Proof. exact neg_field_value. Qed.

(* non-vacuity: -f of a field built from a caller array; writes through the source, through the
   handles of -f and through a view of its raw array all raise or miss; values stay [1;-2] / [-1;2] *)
Example C07_negated_field_example :
  let h := [NewArr [1; -2]%Z; MkField 0; FieldNeg 0; FieldRaw 1; NdWrite 1 0 9%Z; NdView 1;
            NdWrite 2 1 5%Z; NdWrite 0 0 7%Z; FieldVal 1; AnySetItem 1 0 4%Z] in
  adm_run true 2 init h = true /\
  map (obs_fld (run true 2 init h)) [0; 1] = [Some [1; -2]; Some [-1; 2]]%Z.
Proof. vm_compute. repeat split. Qed.

(* Totalisations of the model are unreachable: every buffer of every history has length L, so
   zip_add never truncates and nd_val never falls back to []. *)
Theorem C07_all_buffers_have_length_L :
  forall (fixd : bool) (L : nat) (h : list op) (b : nat) (v : list Z),
    nth_error (bufs (run fixd L init h)) b = Some v -> length v = L.
Proof. exact all_lengths. Qed.

(* The pinned code (AnyArray.lock tests isinstance(self, np.ndarray), which is never true) violates
   the property: an admissible 3-step history changes a field (DESIGN.md 7-F2). *)
Theorem C07_unfixed_lock_refuted :
  exists (L : nat) (h : list op) (f : nat) (v : list Z),
    adm_run false L init h = true /\
    obs_fld (run false L init (firstn 2 h)) f = Some v /\
    obs_fld (run false L init h) f <> Some v.
Proof.
  exists 2, [NewArr [1; 2]%Z; MkField 0; NdWrite 0 0 9%Z], 0, [1; 2]%Z.
  vm_compute. repeat split; congruence.
Qed.

(* Non-vacuity: a history that builds fields in four ways, takes handles, and tries to write
   through all of them is admissible; the fields keep [1;2] / [7;7] / [2;4]; the inadmissible
   variant (a writeable view made BEFORE the field) is rejected by adm_run and does change it. *)
Example C07_hyps_satisfiable :
  let h := [NewArr [1; 2]%Z; MkField 0; NdWrite 0 0 9%Z; FieldRaw 0; NdView 0; NdWrite 1 1 5%Z;
            FieldFull 7%Z; FieldAdd 0 0; FieldValRw 2; AnySetItem 3 0 8%Z; AnySame 0;
            AnyUfuncOut 4 4; MkDiag 0] in
  adm_run true 2 init h = true /\
  map (obs_fld (run true 2 init h)) [0; 1; 2] = [Some [1; 2]; Some [7; 7]; Some [2; 4]]%Z /\
  obs_diag (run true 2 init h) 0 = Some [1; 2]%Z /\
  adm_run true 2 init [NewArr [1; 2]%Z; NdView 0; MkField 0] = false /\
  obs_fld (run true 2 init [NewArr [1; 2]%Z; NdView 0; MkField 0; NdWrite 1 0 9%Z]) 0 = Some [9; 2]%Z.
Proof. vm_compute. repeat split. Qed.
