(* C07 -- lemmas about derived fields (Field.__neg__ and the scalar products that give the same
   object graph): the derived field shows the negated value of its parent at construction, forever,
   and the parent is unchanged. *)
From Coq Require Import ZArith List Bool Arith Lia.
Import ListNotations.
Require Import NV.C07.Model NV.C07.Proofs.

(* a fresh array, wrapped, locked (fixed lock) and made a field: the new field is the next field id,
   its AnyArray is the next AnyArray id, and it shows exactly the stored values *)
Lemma fresh_field_obs : forall s vv,
  let s1 := fold_left exec (PFresh vv true :: PWrap (length (nds s))
                              :: lockp true (length (nds s)) (length (anys s)) ++ [PFld (length (anys s))]) s in
  nth_error (flds s1) (length (flds s)) = Some (length (anys s)) /\
  obs_any s1 (length (anys s)) = Some vv.
Proof.
  intros s vv. destruct s as [B N A F D]. unfold lockp.
  cbn [fold_left app exec bufs nds anys flds diags].
  assert (length N <? length (N ++ [mkNd (length B) true]) = true) as E1
    by (apply Nat.ltb_lt; rewrite app_length; simpl; lia).
  rewrite E1. cbn [bufs nds anys flds diags].
  rewrite nth_error_snoc_eq. cbn [bufs nds anys flds diags nbuf nwr].
  rewrite nth_error_snoc_eq. cbn [bufs nds anys flds diags and_ aw].
  assert (length A <? length (upd (A ++ [mkAny (length N) true]) (length A) (mkAny (length N) false)) = true) as E2
    by (apply Nat.ltb_lt; rewrite upd_length, app_length; simpl; lia).
  rewrite E2. cbn [bufs nds anys flds diags].
  split; [apply nth_error_snoc_eq |].
  unfold obs_any, any_buf, any_at, nd_at. cbn [bufs nds anys flds diags].
  rewrite nth_error_upd_eq by (rewrite app_length; simpl; lia). cbn [and_].
  rewrite nth_error_upd_eq by (rewrite app_length; simpl; lia). cbn [nbuf].
  apply nth_error_snoc_eq.
Qed.

(* what a field shows is what is read through its ndarray *)
Lemma obs_fld_nd_val : forall s f a y v, wf s ->
  nth_error (flds s) f = Some a -> any_at s a = Some y -> obs_fld s f = Some v -> nd_val s (and_ y) = v.
Proof.
  intros s f a y v W Ef Ha O. unfold obs_fld in O. rewrite Ef in O.
  unfold obs_any, any_buf in O. rewrite Ha in O. unfold nd_val.
  destruct (nd_at s (and_ y)) as [d |]; [| discriminate]. rewrite O. reflexivity.
Qed.

Local Opaque lockp.
Lemma neg_field_value : forall L h1 h2 f v,
  adm_run true L init (h1 ++ FieldNeg f :: h2) = true ->
  obs_fld (run true L init h1) f = Some v ->
  snd (step true L (run true L init h1) (FieldNeg f)) = RFld (length (flds (run true L init h1))) /\
  obs_fld (run true L init (h1 ++ FieldNeg f :: h2)) (length (flds (run true L init h1))) = Some (map Z.opp v) /\
  obs_fld (run true L init (h1 ++ FieldNeg f :: h2)) f = Some v.
Proof.
  intros L h1 h2 f v A O.
  split; [| split]; [| | apply fields_immutable; auto].
  - unfold obs_fld in O. unfold step. simpl.
    destruct (nth_error (flds (run true L init h1)) f) as [a |]; [| discriminate].
    unfold obs_any, any_buf in O. destruct (any_at (run true L init h1) a); [reflexivity | discriminate].
  - rewrite adm_run_app in A. apply andb_prop in A. destruct A as [A1 A2].
    simpl in A2. rewrite run_app.
    set (s := run true L init h1) in *.
    change (run true L s (FieldNeg f :: h2)) with (run true L (fst (step true L s (FieldNeg f))) h2).
    assert (inv s) as I by (apply run_inv; auto; apply inv_init).
    pose proof I as (W & F & D).
    set (s1 := fst (step true L s (FieldNeg f))) in *.
    assert (inv s1) as I1 by (apply step_inv; auto).
    apply immutable_from; auto.
    pose proof O as O'. unfold obs_fld in O'.
    destruct (nth_error (flds s) f) as [a |] eqn:Ef; [| discriminate].
    destruct (any_at s a) as [y |] eqn:Ha;
      [| unfold obs_any, any_buf in O'; rewrite Ha in O'; discriminate].
    unfold s1, step. simpl compile. rewrite Ef, Ha. cbn [fst].
    rewrite (obs_fld_nd_val s f a y v W Ef Ha O).
    destruct (fresh_field_obs s (map Z.opp v)) as [E1 E2].
    unfold obs_fld. rewrite E1. exact E2.
Qed.
