(* C07 -- lemmas.  Invariant: every ndarray object that reaches a field's buffer is non-writeable. *)
From Coq Require Import ZArith List Bool Arith Lia.
Import ListNotations.
Require Import NV.C07.Model.

(* ---------- lists ---------- *)
Lemma upd_length : forall (A : Type) (l : list A) i x, length (upd l i x) = length l.
Proof. induction l; destruct i; simpl; intros; auto. Qed.

Lemma nth_error_upd_eq : forall (A : Type) (l : list A) i x, i < length l -> nth_error (upd l i x) i = Some x.
Proof. induction l; destruct i; simpl; intros; try lia; auto. apply IHl. lia. Qed.

Lemma nth_error_upd_neq : forall (A : Type) (l : list A) i j x, i <> j -> nth_error (upd l i x) j = nth_error l j.
Proof. induction l; destruct i; destruct j; simpl; intros; try congruence; auto. Qed.

Lemma nth_error_snoc_lt : forall (A : Type) (l : list A) x j, j < length l -> nth_error (l ++ [x]) j = nth_error l j.
Proof. intros. apply nth_error_app1. auto. Qed.

Lemma nth_error_snoc_some : forall (A : Type) (l : list A) x j y,
  nth_error l j = Some y -> nth_error (l ++ [x]) j = Some y.
Proof.
  intros. rewrite nth_error_snoc_lt; auto. apply nth_error_Some. congruence.
Qed.

Lemma nth_error_snoc_eq : forall (A : Type) (l : list A) x, nth_error (l ++ [x]) (length l) = Some x.
Proof. intros. rewrite nth_error_app2 by lia. rewrite Nat.sub_diag. reflexivity. Qed.

Lemma nth_error_snoc_inv : forall (A : Type) (l : list A) x j y,
  nth_error (l ++ [x]) j = Some y -> (j < length l /\ nth_error l j = Some y) \/ (j = length l /\ y = x).
Proof.
  intros. destruct (Nat.lt_ge_cases j (length l)).
  - left. rewrite nth_error_snoc_lt in H; auto.
  - right. rewrite nth_error_app2 in H by lia.
    destruct (j - length l) eqn:E; simpl in H.
    + split; [lia | congruence].
    + destruct n; discriminate.
Qed.

Lemma nth_error_lt : forall (A : Type) (l : list A) j y, nth_error l j = Some y -> j < length l.
Proof. intros. apply nth_error_Some. congruence. Qed.

(* ---------- predicates ---------- *)
(* buffer b is protected: no writeable ndarray object refers to it *)
Definition prot (s : st) (b : nat) : Prop :=
  forall j d, nth_error (nds s) j = Some d -> nbuf d = b -> nwr d = false.

Record wf (s : st) : Prop := {
  wf_nd : forall j d, nth_error (nds s) j = Some d -> nbuf d < length (bufs s);
  wf_any : forall a y, nth_error (anys s) a = Some y -> and_ y < length (nds s);
  wf_fld : forall f a, nth_error (flds s) f = Some a -> a < length (anys s);
  wf_diag : forall k a, nth_error (diags s) k = Some a -> a < length (anys s) }.

(* s' extends s: objects keep their identity and referents, flags only go from writeable to
   read-only, protected buffers stay protected and keep their contents *)
Record good (s s' : st) : Prop := {
  g_nd : forall j d, nth_error (nds s) j = Some d ->
         exists d', nth_error (nds s') j = Some d' /\ nbuf d' = nbuf d /\ (nwr d = false -> nwr d' = false);
  g_any : forall a y, nth_error (anys s) a = Some y ->
          exists y', nth_error (anys s') a = Some y' /\ and_ y' = and_ y /\ (aw y = false -> aw y' = false);
  g_fld : forall f a, nth_error (flds s) f = Some a -> nth_error (flds s') f = Some a;
  g_diag : forall k a, nth_error (diags s) k = Some a -> nth_error (diags s') k = Some a;
  g_prot : forall b, b < length (bufs s) -> prot s b ->
           prot s' b /\ nth_error (bufs s') b = nth_error (bufs s) b;
  g_len : length (bufs s) <= length (bufs s') }.

(* the AnyArray a is locked and everything that reaches its buffer is read-only *)
Definition covered (s : st) (a : nat) : Prop :=
  exists y d, nth_error (anys s) a = Some y /\ aw y = false /\ nth_error (nds s) (and_ y) = Some d /\
              nbuf d < length (bufs s) /\ prot s (nbuf d).

Definition inv (s : st) : Prop :=
  wf s /\ (forall f a, nth_error (flds s) f = Some a -> covered s a)
       /\ (forall k a, nth_error (diags s) k = Some a -> covered s a).

Lemma good_refl : forall s, good s s.
Proof.
  intros. constructor; intros; eauto.
Qed.

Lemma good_trans : forall s1 s2 s3, good s1 s2 -> good s2 s3 -> good s1 s3.
Proof.
  intros s1 s2 s3 A B. constructor; intros.
  - destruct (g_nd _ _ A _ _ H) as (d' & H1 & H2 & H3).
    destruct (g_nd _ _ B _ _ H1) as (d'' & H4 & H5 & H6).
    exists d''. repeat split; auto; congruence.
  - destruct (g_any _ _ A _ _ H) as (d' & H1 & H2 & H3).
    destruct (g_any _ _ B _ _ H1) as (d'' & H4 & H5 & H6).
    exists d''. repeat split; auto; congruence.
  - apply (g_fld _ _ B). apply (g_fld _ _ A). auto.
  - apply (g_diag _ _ B). apply (g_diag _ _ A). auto.
  - destruct (g_prot _ _ A _ H H0) as (P1 & E1).
    assert (b < length (bufs s2)) by (pose proof (g_len _ _ A); lia).
    destruct (g_prot _ _ B _ H1 P1) as (P2 & E2).
    split; auto. congruence.
  - pose proof (g_len _ _ A). pose proof (g_len _ _ B). lia.
Qed.

(* ---------- every primitive effect extends the state ---------- *)
Lemma exec_good : forall s p, good s (exec s p).
Proof.
  intros s p. destruct p; simpl.
  - (* PFresh *)
    constructor; simpl; intros; eauto.
    + exists d. split; auto. apply nth_error_snoc_some; auto.
    + split.
      * intros j d Hj Hb. apply nth_error_snoc_inv in Hj. destruct Hj as [[_ Hj] | [_ Hj]].
        -- eapply H0; eauto.
        -- subst d. simpl in Hb. lia.
      * apply nth_error_snoc_lt; auto.
    + rewrite app_length. simpl. lia.
  - (* PView *)
    destruct (nth_error (nds s) n) as [d0 |] eqn:E; [| apply good_refl].
    constructor; simpl; intros; eauto.
    + exists d. split; auto. apply nth_error_snoc_some; auto.
    + split; auto.
      intros j d Hj Hb. apply nth_error_snoc_inv in Hj. destruct Hj as [[_ Hj] | [_ Hj]].
      * eapply H0; eauto.
      * subst d. simpl in *. eapply H0; eauto.
  - (* PStore *)
    destruct (nth_error (nds s) n) as [d0 |] eqn:E; [| apply good_refl].
    destruct (nwr d0) eqn:W; [| apply good_refl].
    constructor; simpl; intros; eauto.
    + split; auto.
      apply nth_error_upd_neq. intro. subst b.
      rewrite (H0 _ _ E eq_refl) in W. discriminate.
    + rewrite upd_length. lia.
  - (* PWrap *)
    destruct (n <? length (nds s)); [| apply good_refl].
    constructor; simpl; intros; eauto.
    exists y. split; auto. apply nth_error_snoc_some; auto.
  - (* PLockNd *)
    destruct (nth_error (nds s) n) as [d0 |] eqn:E; [| apply good_refl].
    assert (forall j d, nth_error (nds s) j = Some d ->
              exists d', nth_error (upd (nds s) n (mkNd (nbuf d0) false)) j = Some d' /\
                         nbuf d' = nbuf d /\ (nwr d = false -> nwr d' = false)) as G.
    { intros j d Hj. destruct (Nat.eq_dec n j).
      - subst j. exists (mkNd (nbuf d0) false). rewrite nth_error_upd_eq by (eapply nth_error_lt; eauto).
        simpl. repeat split; auto. congruence.
      - exists d. rewrite nth_error_upd_neq; auto. }
    constructor; simpl; intros; eauto.
    split; auto.
    intros j d Hj Hb. simpl in Hj. destruct (Nat.eq_dec n j).
    + subst j. rewrite nth_error_upd_eq in Hj by (eapply nth_error_lt; eauto). inversion Hj. reflexivity.
    + rewrite nth_error_upd_neq in Hj; auto. eapply H0; eauto.
  - (* PLockAny *)
    destruct (nth_error (anys s) a) as [y0 |] eqn:E; [| apply good_refl].
    constructor; simpl; intros; eauto.
    destruct (Nat.eq_dec a a0).
    + subst a0. exists (mkAny (and_ y0) false). rewrite nth_error_upd_eq by (eapply nth_error_lt; eauto).
      simpl. repeat split; auto. congruence.
    + exists y. rewrite nth_error_upd_neq; auto.
  - (* PFld *)
    destruct (a <? length (anys s)); [| apply good_refl].
    constructor; simpl; intros; eauto. apply nth_error_snoc_some; auto.
  - (* PDiag *)
    destruct (a <? length (anys s)); [| apply good_refl].
    constructor; simpl; intros; eauto. apply nth_error_snoc_some; auto.
Qed.

Lemma execs_good : forall ps s, good s (fold_left exec ps s).
Proof.
  induction ps; simpl; intros. apply good_refl.
  eapply good_trans. apply exec_good. apply IHps.
Qed.

Lemma exec_wf : forall s p, wf s -> wf (exec s p).
Proof.
  intros s p W. destruct W as [W1 W2 W3 W4]. destruct p; simpl.
  - constructor; simpl; intros; eauto.
    + rewrite app_length. simpl. apply nth_error_snoc_inv in H. destruct H as [[_ H] | [_ H]].
      * apply W1 in H. lia.
      * subst d. simpl. lia.
    + rewrite app_length. simpl. apply W2 in H. lia.
  - destruct (nth_error (nds s) n) as [d0 |] eqn:E; [| constructor; auto].
    constructor; simpl; intros; eauto.
    + apply nth_error_snoc_inv in H. destruct H as [[_ H] | [_ H]].
      * eauto.
      * subst d. simpl. eauto.
    + rewrite app_length. simpl. apply W2 in H. lia.
  - destruct (nth_error (nds s) n) as [d0 |] eqn:E; [| constructor; auto].
    destruct (nwr d0); [| constructor; auto].
    constructor; simpl; intros; eauto. rewrite upd_length. eauto.
  - destruct (n <? length (nds s)) eqn:E; [| constructor; auto].
    apply Nat.ltb_lt in E.
    constructor; simpl; intros; eauto.
    + apply nth_error_snoc_inv in H. destruct H as [[_ H] | [_ H]]; eauto. subst y. simpl. auto.
    + rewrite app_length. simpl. apply W3 in H. lia.
    + rewrite app_length. simpl. apply W4 in H. lia.
  - destruct (nth_error (nds s) n) as [d0 |] eqn:E; [| constructor; auto].
    constructor; simpl; intros; eauto.
    + destruct (Nat.eq_dec n j).
      * subst j. rewrite nth_error_upd_eq in H by (eapply nth_error_lt; eauto). inversion H. simpl. eauto.
      * rewrite nth_error_upd_neq in H; eauto.
    + rewrite upd_length. eauto.
  - destruct (nth_error (anys s) a) as [y0 |] eqn:E; [| constructor; auto].
    constructor; simpl; intros; eauto.
    + destruct (Nat.eq_dec a a0).
      * subst a0. rewrite nth_error_upd_eq in H by (eapply nth_error_lt; eauto). inversion H. simpl. eauto.
      * rewrite nth_error_upd_neq in H; eauto.
    + rewrite upd_length. eauto.
    + rewrite upd_length. eauto.
  - destruct (a <? length (anys s)) eqn:E; [| constructor; auto].
    apply Nat.ltb_lt in E.
    constructor; simpl; intros; eauto.
    apply nth_error_snoc_inv in H. destruct H as [[_ H] | [_ H]]; eauto. subst a0. auto.
  - destruct (a <? length (anys s)) eqn:E; [| constructor; auto].
    apply Nat.ltb_lt in E.
    constructor; simpl; intros; eauto.
    apply nth_error_snoc_inv in H. destruct H as [[_ H] | [_ H]]; eauto. subst a0. auto.
Qed.

Lemma execs_wf : forall ps s, wf s -> wf (fold_left exec ps s).
Proof. induction ps; simpl; intros; auto. apply IHps. apply exec_wf. auto. Qed.

(* ---------- protected stays protected and unchanged ---------- *)
Lemma good_covered : forall s s' a, good s s' -> covered s a ->
  covered s' a /\ obs_any s' a = obs_any s a.
Proof.
  intros s s' a G (y & d & Ha & Hw & Hn & Hb & Hp).
  destruct (g_any _ _ G _ _ Ha) as (y' & Ha' & Ey & Hw').
  destruct (g_nd _ _ G _ _ Hn) as (d' & Hn' & Ed & _).
  destruct (g_prot _ _ G _ Hb Hp) as (Hp' & Eb).
  split.
  - exists y', d'. rewrite Ey, Ed. repeat split; auto.
    pose proof (g_len _ _ G). lia.
  - unfold obs_any, any_buf, any_at, nd_at. rewrite Ha, Ha', Ey, Hn, Hn', Ed. auto.
Qed.

Definition nofld (ps : list prim) : bool :=
  forallb (fun p => match p with PFld _ | PDiag _ => false | _ => true end) ps.

Lemma execs_nofld : forall ps s, nofld ps = true ->
  flds (fold_left exec ps s) = flds s /\ diags (fold_left exec ps s) = diags s.
Proof.
  induction ps; simpl; intros; auto.
  apply andb_prop in H. destruct H as [H1 H2].
  destruct (IHps (exec s a) H2) as [E1 E2]. rewrite E1, E2.
  destruct a; simpl in *; try discriminate; auto;
    repeat match goal with |- context [match ?x with _ => _ end] => destruct x end; auto.
Qed.

Lemma inv_nofld : forall ps s, inv s -> nofld ps = true -> inv (fold_left exec ps s).
Proof.
  intros ps s (W & F & D) N.
  destruct (execs_nofld ps s N) as [E1 E2].
  pose proof (execs_good ps s) as G.
  split; [apply execs_wf; auto |]. rewrite E1, E2.
  split; intros.
  - apply (good_covered _ _ _ G). eauto.
  - apply (good_covered _ _ _ G). eauto.
Qed.

Lemma covered_ext : forall s s' a,
  bufs s' = bufs s -> nds s' = nds s -> anys s' = anys s -> covered s a -> covered s' a.
Proof.
  unfold covered, prot. intros s s' a E1 E2 E3 H. rewrite E1, E2, E3. auto.
Qed.

Lemma inv_push_fld : forall s a, inv s -> covered s a -> inv (exec s (PFld a)).
Proof.
  intros s a I C. pose proof I as (W & F & D). simpl.
  destruct (a <? length (anys s)) eqn:E; auto.
  split; [apply (exec_wf s (PFld a)) in W; simpl in W; rewrite E in W; auto |].
  split; simpl; intros.
  - apply covered_ext with s; auto.
    apply nth_error_snoc_inv in H. destruct H as [[_ H] | [_ H]]; eauto. subst a0. auto.
  - apply covered_ext with s; eauto.
Qed.

Lemma inv_push_diag : forall s a, inv s -> covered s a -> inv (exec s (PDiag a)).
Proof.
  intros s a I C. pose proof I as (W & F & D). simpl.
  destruct (a <? length (anys s)) eqn:E; auto.
  split; [apply (exec_wf s (PDiag a)) in W; simpl in W; rewrite E in W; auto |].
  split; simpl; intros.
  - apply covered_ext with s; eauto.
  - apply covered_ext with s; auto.
    apply nth_error_snoc_inv in H. destruct H as [[_ H] | [_ H]]; eauto. subst a0. auto.
Qed.

(* ---------- the caller-side precondition ---------- *)
Lemma others_ro_spec : forall l k n b,
  others_ro l k n b = true <->
  (forall j d, nth_error l j = Some d -> k + j <> n -> nbuf d = b -> nwr d = false).
Proof.
  induction l; simpl; intros.
  - split; auto. intros _ j d H. destruct j; discriminate.
  - rewrite andb_true_iff, IHl. split.
    + intros [H1 H2] j d Hj Hn Hb. destruct j; simpl in Hj.
      * inversion Hj. subst a. destruct (Nat.eqb_spec k n); [lia |].
        rewrite Hb, Nat.eqb_refl in H1. destruct (nwr d); auto; discriminate.
      * apply (H2 j d Hj); auto. lia.
    + intros H. split.
      * destruct (Nat.eqb_spec k n); auto. destruct (Nat.eqb_spec (nbuf a) b); auto.
        rewrite (H 0 a); auto. lia.
      * intros j d Hj Hn Hb. apply (H (S j) d); auto. lia.
Qed.

Lemma src_ok_spec : forall s n d, nth_error (nds s) n = Some d ->
  (src_ok s n = true <->
   forall j d', nth_error (nds s) j = Some d' -> j <> n -> nbuf d' = nbuf d -> nwr d' = false).
Proof.
  intros. unfold src_ok, nd_at. rewrite H. rewrite others_ro_spec. simpl. tauto.
Qed.

(* AnyArray.lock (fixed) on an AnyArray whose ndarray has no other writeable alias *)
Lemma lock_covered : forall s a y d,
  wf s -> nth_error (anys s) a = Some y -> nth_error (nds s) (and_ y) = Some d ->
  src_ok s (and_ y) = true ->
  covered (fold_left exec (lockp true (and_ y) a) s) a.
Proof.
  intros s a y d W Ha Hn Hs. simpl. rewrite Hn. simpl. rewrite Ha.
  rewrite (src_ok_spec _ _ _ Hn) in Hs.
  exists (mkAny (and_ y) false), (mkNd (nbuf d) false). simpl.
  rewrite nth_error_upd_eq by (eapply nth_error_lt; eauto).
  rewrite nth_error_upd_eq by (eapply nth_error_lt; eauto).
  repeat split; auto.
  - eapply wf_nd; eauto.
  - intros j d' Hj Hb. simpl in Hj. destruct (Nat.eq_dec (and_ y) j).
    + subst j. rewrite nth_error_upd_eq in Hj by (eapply nth_error_lt; eauto). inversion Hj. auto.
    + rewrite nth_error_upd_neq in Hj; auto. eapply Hs; eauto.
Qed.

(* a fresh ndarray on a fresh buffer, wrapped: nothing else can reach the buffer *)
Lemma fresh_src_ok : forall s v wr, wf s ->
  let s0 := exec (exec s (PFresh v wr)) (PWrap (length (nds s))) in
  wf s0 /\
  nth_error (anys s0) (length (anys s)) = Some (mkAny (length (nds s)) true) /\
  nth_error (nds s0) (length (nds s)) = Some (mkNd (length (bufs s)) wr) /\
  src_ok s0 (length (nds s)) = true.
Proof.
  intros s v wr W s0.
  assert (wf s0) as W0 by (unfold s0; apply exec_wf; apply exec_wf; auto).
  unfold s0. simpl. rewrite app_length. simpl.
  replace (length (nds s) <? length (nds s) + 1) with true by (symmetry; apply Nat.ltb_lt; lia).
  simpl. split; [| split; [apply nth_error_snoc_eq | split; [apply nth_error_snoc_eq |]]].
  - unfold s0 in W0. simpl in W0. rewrite app_length in W0. simpl in W0.
    replace (length (nds s) <? length (nds s) + 1) with true in W0 by (symmetry; apply Nat.ltb_lt; lia).
    exact W0.
  - unfold src_ok, nd_at. simpl. rewrite nth_error_snoc_eq. simpl.
    apply others_ro_spec. intros j d Hj Hne Hb.
    apply nth_error_snoc_inv in Hj. destruct Hj as [[_ Hj] | [Hj _]].
    + apply (wf_nd _ W) in Hj. lia.
    + simpl in Hne. lia.
Qed.

Lemma fold_left_exec_app : forall ps qs s, fold_left exec (ps ++ qs) s = fold_left exec qs (fold_left exec ps s).
Proof. intros. apply fold_left_app. Qed.

(* constructing a field over an AnyArray that is already covered (cast_domain, makeOp) *)
Lemma relock_covered : forall s a n, covered s a -> covered (fold_left exec (lockp true n a) s) a.
Proof.
  intros. apply (good_covered s _ a (execs_good _ s) H).
Qed.

Ltac inv_id I := (* state unchanged *)
  simpl; exact I.

(* ---------- every admissible step preserves the invariant ---------- *)
Lemma nofld_lockp : forall fixd n a, nofld (lockp fixd n a) = true.
Proof. destruct fixd; reflexivity. Qed.

Local Opaque lockp.
Lemma step_inv : forall L s o, inv s -> adm s o = true -> inv (fst (step true L s o)).
Proof.
  intros L s o I A. pose proof I as (W & F & D). unfold step. simpl fst.
  destruct o; simpl compile.
  - (* NewArr *) destruct (length v =? L); [apply inv_nofld; auto | exact I].
  - (* NewArrRO *) destruct (length v =? L); [apply inv_nofld; auto | exact I].
  - (* NdView *) destruct (nd_at s n); [apply inv_nofld; auto | exact I].
  - (* NdCopy *) destruct (nd_at s n); [apply inv_nofld; auto | exact I].
  - (* NdWrite *) unfold np_setitem. destruct (nd_at s n) as [d |]; [| exact I].
    destruct (nwr d); [| exact I]. destruct (i <? L); [apply inv_nofld; auto | exact I].
  - (* NdIAdd *) destruct (nd_at s n) as [d |]; [| exact I]. destruct (nd_at s m); [| exact I].
    destruct (nwr d); [apply inv_nofld; auto | exact I].
  - (* MkAny *) destruct (nd_at s n); [apply inv_nofld; auto | exact I].
  - (* AnyLock *) destruct (any_at s a); [apply inv_nofld; auto | exact I].
  - (* AnyVal *) destruct (any_at s a); exact I.
  - (* AnyAsNumpy *) destruct (any_at s a) as [y |]; [| exact I].
    apply inv_nofld; auto. unfold asnumpy_p. destruct (aw y); auto.
  - (* AnyView *) destruct (any_at s a); [apply inv_nofld; auto | exact I].
  - (* AnySame *) destruct (any_at s a); [apply inv_nofld; auto | exact I].
  - (* AnyCopy *) destruct (any_at s a); [apply inv_nofld; auto | exact I].
  - (* AnySetItem *) destruct (any_at s a) as [y |]; [| exact I]. destruct (aw y); [| exact I].
    unfold np_setitem. destruct (nd_at s (and_ y)) as [d |]; [| exact I].
    destruct (nwr d); [| exact I]. destruct (i <? L); [apply inv_nofld; auto | exact I].
  - (* AnyIAdd *) destruct (any_at s a) as [y |]; [| exact I]. destruct (any_at s b); [| exact I].
    destruct (aw y); [| exact I]. destruct (nd_at s (and_ y)) as [d |]; [| exact I].
    destruct (nwr d); [apply inv_nofld; auto | exact I].
  - (* AnyUfuncOut *) destruct (any_at s a) as [y |]; [| exact I]. destruct (any_at s b); [| exact I].
    destruct (nd_at s (and_ y)) as [d |]; [| exact I].
    destruct (nwr d); [apply inv_nofld; auto | exact I].
  - (* MkField *)
    simpl in A. destruct (nd_at s n) as [d |] eqn:E; [| exact I]. unfold nd_at in E.
    simpl fst. change (PWrap n :: lockp true n (length (anys s)) ++ [PFld (length (anys s))])
      with ([PWrap n] ++ lockp true n (length (anys s)) ++ [PFld (length (anys s))]).
    rewrite !fold_left_exec_app.
    set (s0 := fold_left exec [PWrap n] s).
    assert (inv s0) as I0 by (apply inv_nofld; auto).
    assert (n < length (nds s)) as Hn by (eapply nth_error_lt; eauto).
    assert (s0 = mkSt (bufs s) (nds s) (anys s ++ [mkAny n true]) (flds s) (diags s)) as E0.
    { unfold s0. simpl. apply Nat.ltb_lt in Hn. rewrite Hn. reflexivity. }
    assert (covered (fold_left exec (lockp true n (length (anys s))) s0) (length (anys s))) as C.
    { apply (lock_covered s0 (length (anys s)) (mkAny n true) d).
      - apply I0.
      - rewrite E0. simpl. apply nth_error_snoc_eq.
      - rewrite E0. simpl. auto.
      - unfold src_ok, nd_at in *. rewrite E0. simpl. rewrite E in *. auto. }
    apply (inv_push_fld _ _ (inv_nofld _ _ I0 (nofld_lockp _ _ _)) C).
  - (* MkFieldAny *)
    simpl in A. destruct (any_at s a) as [y |] eqn:E; [| exact I]. unfold any_at in E.
    simpl fst. rewrite fold_left_exec_app.
    assert (and_ y < length (nds s)) as Hn by (eapply wf_any; eauto).
    destruct (nth_error (nds s) (and_ y)) as [d |] eqn:En; [| apply nth_error_None in En; lia].
    apply (inv_push_fld _ _ (inv_nofld _ _ I (nofld_lockp _ _ _))).
    apply (lock_covered s a y d); auto.
  - (* FieldFull *)
    simpl fst.
    change (PFresh (repeat v L) false :: PWrap (length (nds s)) :: lockp true (length (nds s)) (length (anys s)) ++ [PFld (length (anys s))])
      with ([PFresh (repeat v L) false; PWrap (length (nds s))] ++ lockp true (length (nds s)) (length (anys s)) ++ [PFld (length (anys s))]).
    rewrite !fold_left_exec_app.
    set (s0 := fold_left exec [PFresh (repeat v L) false; PWrap (length (nds s))] s).
    assert (inv s0) as I0 by (apply inv_nofld; auto).
    destruct (fresh_src_ok s (repeat v L) false W) as (_ & Ha & Hd & Hs).
    apply (inv_push_fld _ _ (inv_nofld _ _ I0 (nofld_lockp _ _ _))).
    apply (lock_covered s0 (length (anys s)) (mkAny (length (nds s)) true) _ (proj1 I0) Ha Hd Hs).
  - (* FieldCast *)
    destruct (nth_error (flds s) f) as [a |] eqn:Ef; [| exact I].
    destruct (any_at s a) as [y |] eqn:E; [| exact I].
    simpl fst. rewrite fold_left_exec_app.
    apply (inv_push_fld _ _ (inv_nofld _ _ I (nofld_lockp _ _ _))).
    apply relock_covered. eauto.
  - (* FieldVal *) destruct (nth_error (flds s) f); exact I.
  - (* FieldRaw *) destruct (nth_error (flds s) f) as [a |]; [| exact I]. destruct (any_at s a); exact I.
  - (* FieldAsNumpy *) destruct (nth_error (flds s) f) as [a |]; [| exact I].
    destruct (any_at s a) as [y |]; [| exact I].
    apply inv_nofld; auto. unfold asnumpy_p. destruct (aw y); auto.
  - (* FieldValRw *) destruct (nth_error (flds s) f) as [a |]; [| exact I].
    destruct (any_at s a); [apply inv_nofld; auto | exact I].
  - (* FieldAsNumpyRw *) destruct (nth_error (flds s) f) as [a |]; [| exact I].
    destruct (any_at s a) as [y |]; [| exact I].
    apply inv_nofld; auto. unfold asnumpy_p. destruct (aw y); auto.
  - (* FieldAdd *)
    destruct (nth_error (flds s) f) as [a |]; [| exact I].
    destruct (nth_error (flds s) g) as [b |]; [| exact I].
    destruct (any_at s a) as [y |]; [| exact I]. destruct (any_at s b) as [z |]; [| exact I].
    simpl fst.
    match goal with |- inv (fold_left exec (PFresh ?v true :: _) s) =>
      change (inv (fold_left exec ([PFresh v true; PWrap (length (nds s))] ++ lockp true (length (nds s)) (length (anys s)) ++ [PFld (length (anys s))]) s));
      set (vv := v) end.
    rewrite !fold_left_exec_app.
    set (s0 := fold_left exec [PFresh vv true; PWrap (length (nds s))] s).
    assert (inv s0) as I0 by (apply inv_nofld; auto).
    destruct (fresh_src_ok s vv true W) as (_ & Ha & Hd & Hs).
    apply (inv_push_fld _ _ (inv_nofld _ _ I0 (nofld_lockp _ _ _))).
    apply (lock_covered s0 (length (anys s)) (mkAny (length (nds s)) true) _ (proj1 I0) Ha Hd Hs).
  - (* FieldClone *)
    destruct (nth_error (flds s) f) as [a |]; [| exact I].
    destruct (any_at s a) as [y |]; [| exact I].
    simpl fst.
    match goal with |- inv (fold_left exec (PFresh ?v true :: _) s) =>
      change (inv (fold_left exec ([PFresh v true; PWrap (length (nds s))] ++ lockp true (length (nds s)) (length (anys s)) ++ [PFld (length (anys s))]) s));
      set (vv := v) end.
    rewrite !fold_left_exec_app.
    set (s0 := fold_left exec [PFresh vv true; PWrap (length (nds s))] s).
    assert (inv s0) as I0 by (apply inv_nofld; auto).
    destruct (fresh_src_ok s vv true W) as (_ & Ha & Hd & Hs).
    apply (inv_push_fld _ _ (inv_nofld _ _ I0 (nofld_lockp _ _ _))).
    apply (lock_covered s0 (length (anys s)) (mkAny (length (nds s)) true) _ (proj1 I0) Ha Hd Hs).
  - (* MkDiag *)
    destruct (nth_error (flds s) f) as [a |] eqn:Ef; [| exact I].
    destruct (any_at s a) as [y |] eqn:E; [| exact I].
    simpl fst. rewrite fold_left_exec_app.
    apply (inv_push_diag _ _ (inv_nofld _ _ I (nofld_lockp _ _ _))).
    apply relock_covered. eauto.
  - (* FieldNeg *)
    destruct (nth_error (flds s) f) as [a |]; [| exact I].
    destruct (any_at s a) as [y |]; [| exact I].
    simpl fst.
    match goal with |- inv (fold_left exec (PFresh ?v true :: _) s) =>
      change (inv (fold_left exec ([PFresh v true; PWrap (length (nds s))] ++ lockp true (length (nds s)) (length (anys s)) ++ [PFld (length (anys s))]) s));
      set (vv := v) end.
    rewrite !fold_left_exec_app.
    set (s0 := fold_left exec [PFresh vv true; PWrap (length (nds s))] s).
    assert (inv s0) as I0 by (apply inv_nofld; auto).
    destruct (fresh_src_ok s vv true W) as (_ & Ha & Hd & Hs).
    apply (inv_push_fld _ _ (inv_nofld _ _ I0 (nofld_lockp _ _ _))).
    apply (lock_covered s0 (length (anys s)) (mkAny (length (nds s)) true) _ (proj1 I0) Ha Hd Hs).
Qed.

Local Transparent lockp.

Lemma step_good : forall fixd L s o, good s (fst (step fixd L s o)).
Proof. intros. unfold step. simpl. apply execs_good. Qed.

Lemma run_good : forall fixd L h s, good s (run fixd L s h).
Proof.
  induction h; simpl; intros. apply good_refl.
  eapply good_trans. apply step_good. apply IHh.
Qed.

Lemma run_inv : forall L h s, inv s -> adm_run true L s h = true -> inv (run true L s h).
Proof.
  induction h; simpl; intros; auto.
  apply andb_prop in H0. destruct H0. apply IHh; auto. apply step_inv; auto.
Qed.

Lemma run_app : forall fixd L h1 h2 s, run fixd L s (h1 ++ h2) = run fixd L (run fixd L s h1) h2.
Proof. induction h1; simpl; intros; auto. Qed.

Lemma adm_run_app : forall fixd L h1 h2 s,
  adm_run fixd L s (h1 ++ h2) = adm_run fixd L s h1 && adm_run fixd L (run fixd L s h1) h2.
Proof.
  induction h1; simpl; intros; auto. rewrite IHh1. rewrite andb_assoc. reflexivity.
Qed.

Lemma inv_init : inv init.
Proof.
  split; [constructor | split]; simpl; intros j x H; destruct j; discriminate.
Qed.

(* ---------- main results ---------- *)
(* once covered, an AnyArray shows the same values after ANY continuation (admissible or not) *)
Lemma covered_forever : forall fixd L s a h, covered s a ->
  covered (run fixd L s h) a /\ obs_any (run fixd L s h) a = obs_any s a.
Proof. intros. apply good_covered; auto. apply run_good. Qed.

Lemma immutable_from : forall L s h f v, inv s -> obs_fld s f = Some v -> obs_fld (run true L s h) f = Some v.
Proof.
  intros L s h f v (W & F & D) O. unfold obs_fld in *.
  destruct (nth_error (flds s) f) as [a |] eqn:E; [| discriminate].
  rewrite (g_fld _ _ (run_good true L h s) _ _ E).
  destruct (covered_forever true L s a h (F _ _ E)) as [_ Eo]. congruence.
Qed.

Lemma fields_immutable : forall L h1 h2 f v,
  adm_run true L init (h1 ++ h2) = true ->
  obs_fld (run true L init h1) f = Some v ->
  obs_fld (run true L init (h1 ++ h2)) f = Some v.
Proof.
  intros. rewrite adm_run_app in H. apply andb_prop in H. destruct H as [H1 H2].
  rewrite run_app. apply immutable_from; auto. apply run_inv; auto. apply inv_init.
Qed.

Lemma covered_obs : forall s a, covered s a -> exists v, obs_any s a = Some v.
Proof.
  intros s a (y & d & Ha & _ & Hn & Hb & _).
  unfold obs_any, any_buf, any_at, nd_at. rewrite Ha, Hn.
  destruct (nth_error (bufs s) (nbuf d)) eqn:E; eauto. apply nth_error_None in E. lia.
Qed.

Lemma fields_observable : forall L h f,
  adm_run true L init h = true -> f < length (flds (run true L init h)) ->
  exists v, obs_fld (run true L init h) f = Some v.
Proof.
  intros. destruct (run_inv L h init inv_init H) as (W & F & D).
  unfold obs_fld. destruct (nth_error (flds (run true L init h)) f) as [a |] eqn:E.
  - apply covered_obs. eauto.
  - apply nth_error_None in E. lia.
Qed.

(* the diagonal kept by makeOp(f) is f's value at construction, forever *)
Lemma diag_keeps_meaning : forall L h1 h2 f v,
  adm_run true L init (h1 ++ MkDiag f :: h2) = true ->
  obs_fld (run true L init h1) f = Some v ->
  obs_diag (run true L init (h1 ++ MkDiag f :: h2)) (length (diags (run true L init h1))) = Some v.
Proof.
  intros L h1 h2 f v A O.
  rewrite adm_run_app in A. apply andb_prop in A. destruct A as [A1 A2].
  simpl in A2. rewrite run_app.
  set (s := run true L init h1) in *.
  change (run true L s (MkDiag f :: h2)) with (run true L (fst (step true L s (MkDiag f))) h2).
  assert (inv s) as I by (apply run_inv; auto; apply inv_init).
  pose proof I as (W & F & D).
  unfold obs_fld in O. destruct (nth_error (flds s) f) as [a |] eqn:Ef; [| discriminate].
  destruct (F _ _ Ef) as (y & d & Ha & Hw & Hn & Hb & Hp).
  set (s1 := fst (step true L s (MkDiag f))) in *.
  assert (inv s1) as I1 by (apply step_inv; auto).
  assert (nth_error (diags s1) (length (diags s)) = Some a) as Ed.
  { unfold s1, step. simpl. rewrite Ef. unfold any_at. rewrite Ha. simpl.
    rewrite Hn. simpl. rewrite Ha. simpl. rewrite upd_length.
    replace (a <? length (anys s)) with true by (symmetry; apply Nat.ltb_lt; eapply nth_error_lt; eauto).
    simpl. apply nth_error_snoc_eq. }
  pose proof (run_good true L h2 s1) as G.
  unfold obs_diag. rewrite (g_diag _ _ G _ _ Ed).
  destruct I1 as (_ & _ & D1).
  destruct (good_covered _ _ _ G (D1 _ _ Ed)) as [_ E2]. rewrite E2.
  destruct (good_covered _ _ _ (step_good true L s (MkDiag f)) (F _ _ Ef)) as [_ E1].
  fold s1 in E1. rewrite E1. exact O.
Qed.

(* the handles a field gives out are read-only, and writing through them raises *)
Lemma field_handles : forall L h f a,
  adm_run true L init h = true ->
  nth_error (flds (run true L init h)) f = Some a ->
  let s := run true L init h in
  exists y d, any_at s a = Some y /\ aw y = false /\ nd_at s (and_ y) = Some d /\ nwr d = false /\
    step true L s (FieldVal f) = (s, RAny a) /\
    step true L s (FieldRaw f) = (s, RNd (and_ y)) /\
    (forall i v, step true L s (NdWrite (and_ y) i v) = (s, RRaise EValue)) /\
    (forall m, nd_at s m <> None -> step true L s (NdIAdd (and_ y) m) = (s, RRaise EValue)) /\
    (forall i v, step true L s (AnySetItem a i v) = (s, RRaise EValue)) /\
    (forall b, any_at s b <> None -> step true L s (AnyIAdd a b) = (s, RRaise EType)) /\
    (forall b, any_at s b <> None -> step true L s (AnyUfuncOut a b) = (s, RRaise EValue)).
Proof.
  intros L h f a A E s.
  destruct (run_inv L h init inv_init A) as (W & F & D). fold s in W, F, D, E.
  destruct (F _ _ E) as (y & d & Ha & Hw & Hn & Hb & Hp).
  assert (nwr d = false) as Hd by (eapply Hp; eauto).
  exists y, d. unfold any_at, nd_at. repeat split; auto.
  - unfold step. simpl. rewrite E. reflexivity.
  - unfold step. simpl. rewrite E. unfold any_at. rewrite Ha. reflexivity.
  - intros. unfold step. simpl. unfold np_setitem, nd_at. rewrite Hn, Hd. reflexivity.
  - intros m Hm. unfold step. simpl. unfold nd_at in *. rewrite Hn.
    destruct (nth_error (nds s) m); [| congruence]. rewrite Hd. reflexivity.
  - intros. unfold step. simpl. unfold any_at. rewrite Ha, Hw. reflexivity.
  - intros b Hb'. unfold step. simpl. unfold any_at in *. rewrite Ha.
    destruct (nth_error (anys s) b); [| congruence]. rewrite Hw. reflexivity.
  - intros b Hb'. unfold step. simpl. unfold any_at, nd_at in *. rewrite Ha.
    destruct (nth_error (anys s) b); [| congruence]. rewrite Hn, Hd. reflexivity.
Qed.

(* the copies handed out by val_rw / asnumpy_rw are writeable and live on a new buffer *)
Lemma rw_copies_fresh : forall L h f a,
  adm_run true L init h = true ->
  nth_error (flds (run true L init h)) f = Some a ->
  let s := run true L init h in
  let s1 := fst (step true L s (FieldAsNumpyRw f)) in
  snd (step true L s (FieldAsNumpyRw f)) = RNd (length (nds s)) /\
  nd_at s1 (length (nds s)) = Some (mkNd (length (bufs s)) true) /\
  nth_error (bufs s1) (length (bufs s)) = obs_fld s f.
Proof.
  intros L h f a A E s s1.
  destruct (run_inv L h init inv_init A) as (W & F & D). fold s in W, F, D, E.
  destruct (F _ _ E) as (y & d & Ha & Hw & Hn & Hb & Hp).
  unfold s1, step. simpl. rewrite E. unfold any_at. rewrite Ha. simpl.
  split; auto. unfold asnumpy_p. rewrite Hw. simpl. rewrite Hn. simpl.
  unfold nd_at. simpl. split.
  - rewrite <- (upd_length _ (nds s) (and_ y) (mkNd (nbuf d) false)) at 1. apply nth_error_snoc_eq.
  - rewrite nth_error_snoc_eq. unfold obs_fld, obs_any, any_buf, any_at, nd_at, nd_val, nd_at.
    rewrite E, Ha, Hn. destruct (nth_error (bufs s) (nbuf d)) eqn:Eb; auto.
    apply nth_error_None in Eb. lia.
Qed.

(* ---------- all buffers of a history have length L ---------- *)
Definition len_ok (L : nat) (s : st) : Prop := forall b v, nth_error (bufs s) b = Some v -> length v = L.

Definition vals_ok (L : nat) (p : prim) : Prop :=
  match p with PFresh v _ | PStore _ v => length v = L | _ => True end.

Lemma exec_len_ok : forall L s p, len_ok L s -> vals_ok L p -> len_ok L (exec s p).
Proof.
  intros L s p H V. destruct p; simpl in *; auto;
    try (repeat match goal with |- context [match ?x with _ => _ end] => destruct x end; auto; fail).
  - intros b w Hb. simpl in Hb. apply nth_error_snoc_inv in Hb. destruct Hb as [[_ Hb] | [_ Hb]]; eauto. congruence.
  - destruct (nth_error (nds s) n) as [d |]; auto. destruct (nwr d); auto.
    intros b w Hb. simpl in Hb. destruct (Nat.eq_dec (nbuf d) b).
    + subst b. destruct (Nat.lt_ge_cases (nbuf d) (length (bufs s))).
      * rewrite nth_error_upd_eq in Hb; auto. congruence.
      * assert (nth_error (upd (bufs s) (nbuf d) v) (nbuf d) = None) by (apply nth_error_None; rewrite upd_length; auto).
        congruence.
    + rewrite nth_error_upd_neq in Hb; eauto.
Qed.

Lemma execs_len_ok : forall L ps s, len_ok L s -> Forall (vals_ok L) ps -> len_ok L (fold_left exec ps s).
Proof.
  induction ps; simpl; intros; auto. inversion H0. subst. apply IHps; auto. apply exec_len_ok; auto.
Qed.

Lemma nd_val_len : forall L s n d, wf s -> len_ok L s -> nd_at s n = Some d -> length (nd_val s n) = L.
Proof.
  intros. unfold nd_val. rewrite H1. unfold nd_at in H1.
  destruct (nth_error (bufs s) (nbuf d)) eqn:E; eauto.
  apply nth_error_None in E. apply (wf_nd _ H) in H1. lia.
Qed.

Lemma zip_add_len : forall L x y, length x = L -> length y = L -> length (zip_add x y) = L.
Proof. intros. unfold zip_add. rewrite map_length, combine_length. lia. Qed.

Lemma any_nd : forall s a y, wf s -> any_at s a = Some y -> exists d, nd_at s (and_ y) = Some d.
Proof.
  intros. unfold any_at, nd_at in *. apply (wf_any _ H) in H0.
  destruct (nth_error (nds s) (and_ y)) eqn:E; eauto. apply nth_error_None in E. lia.
Qed.

Lemma fld_any : forall s f a, wf s -> nth_error (flds s) f = Some a -> exists y, any_at s a = Some y.
Proof.
  intros. unfold any_at. apply (wf_fld _ H) in H0.
  destruct (nth_error (anys s) a) eqn:E; eauto. apply nth_error_None in E. lia.
Qed.

Lemma Forall_app_intro : forall (A : Type) (P : A -> Prop) l1 l2, Forall P l1 -> Forall P l2 -> Forall P (l1 ++ l2).
Proof. intros. apply Forall_app. auto. Qed.

Lemma lockp_vals : forall L fixd n a, Forall (vals_ok L) (lockp fixd n a).
Proof. intros. unfold lockp. destruct fixd; simpl; repeat constructor. Qed.

Lemma asnumpy_vals : forall L y, Forall (vals_ok L) (asnumpy_p y).
Proof. intros. unfold asnumpy_p. destruct (aw y); repeat constructor. Qed.

Lemma compile_vals_ok : forall fixd L s o, wf s -> len_ok L s -> Forall (vals_ok L) (fst (compile fixd L s o)).
Proof.
  intros fixd L s o W Ln.
  assert (forall n i v, Forall (vals_ok L) (fst (np_setitem L s n i v))) as SI.
  { intros. unfold np_setitem. destruct (nd_at s n) as [d |] eqn:E; simpl; auto.
    destruct (nwr d); simpl; auto. destruct (i <? L); simpl; auto.
    repeat constructor. simpl. rewrite upd_length. eapply nd_val_len; eauto. }
  destruct o; simpl.
  - destruct (length v =? L) eqn:E; simpl; auto. apply Nat.eqb_eq in E. repeat constructor. auto.
  - destruct (length v =? L) eqn:E; simpl; auto. apply Nat.eqb_eq in E. repeat constructor. auto.
  - destruct (nd_at s n); simpl; auto. repeat constructor.
  - destruct (nd_at s n) eqn:E; simpl; auto. repeat constructor. simpl. eapply nd_val_len; eauto.
  - apply SI.
  - destruct (nd_at s n) as [d |] eqn:E; simpl; auto. destruct (nd_at s m) eqn:E2; simpl; auto.
    destruct (nwr d); simpl; auto. repeat constructor. simpl.
    apply zip_add_len; eapply nd_val_len; eauto.
  - destruct (nd_at s n); simpl; auto. repeat constructor.
  - destruct (any_at s a); simpl; auto. apply lockp_vals.
  - destruct (any_at s a); simpl; auto.
  - destruct (any_at s a); simpl; auto. apply asnumpy_vals.
  - destruct (any_at s a); simpl; auto. repeat constructor.
  - destruct (any_at s a); simpl; auto. repeat constructor.
  - destruct (any_at s a) as [y |] eqn:E; simpl; auto. destruct (any_nd _ _ _ W E) as [d Hd].
    repeat constructor. simpl. eapply nd_val_len; eauto.
  - destruct (any_at s a) as [y |]; simpl; auto. destruct (aw y); simpl; auto.
  - destruct (any_at s a) as [y |] eqn:E; simpl; auto. destruct (any_at s b) as [z |] eqn:E2; simpl; auto.
    destruct (aw y); simpl; auto. destruct (nd_at s (and_ y)) as [d |] eqn:E3; simpl; auto.
    destruct (nwr d); simpl; auto. destruct (any_nd _ _ _ W E2) as [d2 Hd2].
    repeat constructor. simpl. apply zip_add_len; eapply nd_val_len; eauto.
  - destruct (any_at s a) as [y |] eqn:E; simpl; auto. destruct (any_at s b) as [z |] eqn:E2; simpl; auto.
    destruct (nd_at s (and_ y)) as [d |] eqn:E3; simpl; auto.
    destruct (nwr d); simpl; auto. destruct (any_nd _ _ _ W E2) as [d2 Hd2].
    repeat constructor. simpl. apply zip_add_len; eapply nd_val_len; eauto.
  - destruct (nd_at s n); simpl; auto. constructor; simpl; auto.
    apply Forall_app_intro; [apply lockp_vals | repeat constructor].
  - destruct (any_at s a); simpl; auto.
    apply Forall_app_intro; [apply lockp_vals | repeat constructor].
  - constructor; [simpl; apply repeat_length |]. constructor; simpl; auto.
    apply Forall_app_intro; [apply lockp_vals | repeat constructor].
  - destruct (nth_error (flds s) f); simpl; auto. destruct (any_at s n); simpl; auto.
    apply Forall_app_intro; [apply lockp_vals | repeat constructor].
  - destruct (nth_error (flds s) f); simpl; auto.
  - destruct (nth_error (flds s) f); simpl; auto. destruct (any_at s n); simpl; auto.
  - destruct (nth_error (flds s) f); simpl; auto. destruct (any_at s n); simpl; auto. apply asnumpy_vals.
  - destruct (nth_error (flds s) f); simpl; auto. destruct (any_at s n) as [y |] eqn:E; simpl; auto.
    destruct (any_nd _ _ _ W E) as [d Hd]. repeat constructor. simpl. eapply nd_val_len; eauto.
  - destruct (nth_error (flds s) f); simpl; auto. destruct (any_at s n) as [y |] eqn:E; simpl; auto.
    destruct (any_nd _ _ _ W E) as [d Hd].
    apply Forall_app_intro; [apply asnumpy_vals | repeat constructor]. simpl. eapply nd_val_len; eauto.
  - destruct (nth_error (flds s) f) as [a |]; simpl; auto. destruct (nth_error (flds s) g) as [b |]; simpl; auto.
    destruct (any_at s a) as [y |] eqn:E; simpl; auto. destruct (any_at s b) as [z |] eqn:E2; simpl; auto.
    destruct (any_nd _ _ _ W E) as [d Hd]. destruct (any_nd _ _ _ W E2) as [d2 Hd2].
    constructor; [simpl; apply zip_add_len; eapply nd_val_len; eauto |]. constructor; simpl; auto.
    apply Forall_app_intro; [apply lockp_vals | repeat constructor].
  - destruct (nth_error (flds s) f); simpl; auto. destruct (any_at s n) as [y |] eqn:E; simpl; auto.
    destruct (any_nd _ _ _ W E) as [d Hd].
    constructor; [simpl; eapply nd_val_len; eauto |]. constructor; simpl; auto.
    apply Forall_app_intro; [apply lockp_vals | repeat constructor].
  - destruct (nth_error (flds s) f); simpl; auto. destruct (any_at s n); simpl; auto.
    apply Forall_app_intro; [apply lockp_vals | repeat constructor].
  - destruct (nth_error (flds s) f); simpl; auto. destruct (any_at s n) as [y |] eqn:E; simpl; auto.
    destruct (any_nd _ _ _ W E) as [d Hd].
    constructor; [simpl; rewrite map_length; eapply nd_val_len; eauto |]. constructor; simpl; auto.
    apply Forall_app_intro; [apply lockp_vals | repeat constructor].
Qed.

Lemma run_wf_len : forall fixd L h s, wf s -> len_ok L s -> wf (run fixd L s h) /\ len_ok L (run fixd L s h).
Proof.
  induction h; simpl; intros; auto. apply IHh.
  - unfold step. simpl. apply execs_wf. auto.
  - unfold step. simpl. apply execs_len_ok; auto. apply compile_vals_ok; auto.
Qed.

Lemma all_lengths : forall fixd L h b v, nth_error (bufs (run fixd L init h)) b = Some v -> length v = L.
Proof.
  intros. destruct (run_wf_len fixd L h init) as [_ Ln].
  - apply inv_init.
  - intros j w Hj. destruct j; discriminate.
  - eauto.
Qed.
