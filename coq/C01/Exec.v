(* C01 -- executable instance of the model used by the correspondence check:
   scalars = Gaussian rationals Q[i] (normalised with Qred, so Leibniz-comparable by Qeq_bool),
   library leaves = dense matrices per mode, measured on the implementation itself
   (the leaves' own correctness is C02's business; C01 is about the algebra around them). *)
From Coq Require Import ZArith QArith List Bool Arith.
Import ListNotations.
Require Import NV.C01.Gen_Tables NV.C01.Model.

Open Scope Q_scope.
Definition CQ := (Q * Q)%type.
Definition qr (q : Q) : Q := Qred q.
Definition c0 : CQ := (0, 0).
Definition c1 : CQ := (1, 0).
Definition cadd (a b : CQ) : CQ := (qr (fst a + fst b), qr (snd a + snd b)).
Definition csub (a b : CQ) : CQ := (qr (fst a - fst b), qr (snd a - snd b)).
Definition cmul (a b : CQ) : CQ :=
  (qr (fst a * fst b - snd a * snd b), qr (fst a * snd b + snd a * fst b)).
Definition cconj (a : CQ) : CQ := (fst a, qr (- snd a)).
Definition cneg (a : CQ) : CQ := (qr (- fst a), qr (- snd a)).
Definition cdiv (a b : CQ) : CQ :=
  let n := fst b * fst b + snd b * snd b in
  (qr ((fst a * fst b + snd a * snd b) / n), qr ((snd a * fst b - fst a * snd b) / n)).
Definition ceqb (a b : CQ) : bool := Qeq_bool (fst a) (fst b) && Qeq_bool (snd a) (snd b).

Definition CQA : arith :=
  {| T := CQ; zero := c0; one := c1; add := cadd; sub := csub; mul := cmul; div := cdiv;
     neg := cneg; conj := cconj; eqb := ceqb;
     is_real := fun a => Qeq_bool (snd a) 0; re := fun a => (fst a, 0) |}.

(* materialise a vector on indices 0..n-1 (shares the computation under vm_compute) *)
Definition tab (n : nat) (f : nat -> CQ) : nat -> CQ :=
  let l := map f (seq 0 n) in fun i => nth i l c0.

Fixpoint dot (row : list CQ) (x : nat -> CQ) (j : nat) : CQ :=
  match row with [] => c0 | a :: t => cadd (cmul a (x j)) (dot t x (S j)) end.

(* leaves: per leaf, per mode index (ilog m = 0..3), an n x n matrix as a list of rows *)
Definition leaf_tab := list (list (list (list CQ))).
Definition leaf_apply_exec (n : nat) (lt : leaf_tab) (l : nat) (m : Z) (x : nat -> CQ) : nat -> CQ :=
  let M := nth (Z.to_nat (ilog m)) (nth l lt []) [] in
  tab n (fun i => dot (nth i M []) x 0).

Definition vec_of (l : list CQ) : nat -> CQ := fun i => nth i l c0.
Definition basis (j : nat) : nat -> CQ := fun i => if Nat.eqb i j then c1 else c0.

(* |a - b|^2 <= eps^2 * (1 + |b|^2), eps = 2^-30 : float64 rounding of the implementation never
   exceeds this on the generated cases; a wrong sign / factor / conjugation is far outside *)
Definition close (a b : CQ) : bool :=
  let dr := fst a - fst b in let di := snd a - snd b in
  Qle_bool (dr * dr + di * di)
           ((1 # 1152921504606846976) * (1 + fst b * fst b + snd b * snd b)).

Fixpoint all2 {X Y} (f : X -> Y -> bool) (a : list X) (b : list Y) : bool :=
  match a, b with
  | [], [] => true
  | x :: a', y :: b' => f x y && all2 f a' b'
  | _, _ => false
  end.

(* the model's outputs (one list per input vector) of operator o in mode m; the inputs are the
   basis vectors e_0..e_(n-1) followed by one complex vector *)
Definition dense (n : nat) (lt : leaf_tab) (extra : list CQ) (o : op CQA) (m : Z) : list (list CQ) :=
  map (fun x => let y := apply CQA (leaf_apply_exec n lt) o m x in map y (seq 0 n))
      (map basis (seq 0 n) ++ [vec_of extra]).

Definition mode_ok (n : nat) (lt : leaf_tab) (extra : list CQ) (o : op CQA) (m : Z) (cols : list (list CQ)) : bool :=
  all2 (all2 close) (dense n lt extra o m) cols.

(* One correspondence case.  [capI] is the implementation's capability, [mats] its outputs in the
   modes 1,2,4,8 -- an empty list for a mode that is not advertised or whose result is not finite. *)
Definition case_ok_x (n : nat) (lt : leaf_tab) (extra : list CQ) (e : expr CQA) (capI : Z)
           (mats : list (list (list CQ))) : bool :=
  let o := build CQA e in
  Z.eqb (cap CQA o) capI &&
  all2 (fun m cols => match cols with [] => true | _ => mode_ok n lt extra o m cols end) [1; 2; 4; 8]%Z mats.
