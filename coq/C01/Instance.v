(* C01 -- non-vacuity: the hypotheses of the soundness theorems are satisfiable.
   Scalars = canonical rationals Qc with the identity as conjugation; leaves = the identity map. *)
From Coq Require Import ZArith QArith Qcanon List Bool Ring Field Field_theory.
Import ListNotations.
Require Import NV.C01.Gen_Tables NV.C01.Model NV.C01.Laws.

Definition QcA : arith :=
  {| T := Qc; zero := 0%Qc; one := 1%Qc; add := Qcplus; sub := Qcminus; mul := Qcmult; div := Qcdiv;
     neg := Qcopp; conj := fun x => x; eqb := Qc_eq_bool;
     is_real := fun _ => true; re := fun x => x |}.

Lemma Qcdiv_1 (x : Qc) : Qcdiv 1 x = Qcinv x.
Proof. unfold Qcdiv. ring. Qed.

Lemma Qcinv_involutive (x : Qc) : Qcinv (Qcinv x) = x.
Proof.
  apply Qc_is_canon. unfold Qcinv, Q2Qc. cbn [this].
  etransitivity; [apply Qred_correct|]. etransitivity; [apply Qinv_comp; apply Qred_correct|].
  apply Qinv_involutive.
Qed.

Lemma QcA_laws : laws QcA.
Proof.
  constructor; cbn [T zero one add sub mul div neg conj eqb is_real re QcA]; unfold inv;
    cbn [T zero one add sub mul div neg conj eqb is_real re QcA]; intros; rewrite ?Qcdiv_1; try reflexivity.
  - constructor.
    + exact Qcrt.
    + exact Q_apart_0_1.
    + intros p q. rewrite Qcdiv_1. reflexivity.
    + intros p Hp. rewrite Qcdiv_1. apply Qcmult_inv_l. exact Hp.
  - apply Qcinv_mult_distr.
  - apply Qcinv_involutive.
  - split; [apply Qc_eq_bool_correct|]. intros ->. unfold Qc_eq_bool. destruct (Qc_eq_dec b b); [reflexivity|contradiction].
  - split; reflexivity.
Qed.

(* identity leaves, except the reserved NullOperator leaf *)
Definition id_leaf (l : nat) (m : Z) (x : vec QcA) : vec QcA :=
  if Nat.eqb l null_id then (fun _ => 0%Qc) else x.
Lemma id_leaf_null : forall m (x : vec QcA) i, id_leaf null_id m x i = zero QcA.
Proof. reflexivity. Qed.
Lemma id_leaf_ext : forall l m (x y : vec QcA), (forall i, x i = y i) -> forall i, id_leaf l m x i = id_leaf l m y i.
Proof. intros l m x y H i. unfold id_leaf. destruct (Nat.eqb l null_id); [reflexivity|apply H]. Qed.
Lemma id_leaf_homog : forall l m (x : vec QcA) c i,
  id_leaf l m (fun j => mul QcA (x j) c) i = mul QcA (id_leaf l m x i) c.
Proof.
  intros l m x c i. unfold id_leaf. destruct (Nat.eqb l null_id); [|reflexivity].
  change (0%Qc = Qcmult 0%Qc c). ring.
Qed.
