(* C01 -- executable model of BlockDiagonalOperator (block_diagonal_operator.py): __init__
   (capability), apply, _combine_chain, _combine_sum.  No proofs in this file.

   A BlockDiagonalOperator over a MultiDomain with keys k_0..k_(n-1) is its tuple
     self._ops = tuple(operators[key] if key in operators else None for key in domain.keys())
   i.e. a list of optional operators (None = missing key = unity operator); a MultiField over that
   domain is the list of its per-key fields. *)
From Coq Require Import ZArith List Bool.
Import ListNotations.
Require Import NV.C01.Gen_Tables NV.C01.Model.

Section Blk.
Variable A : arith.
Variable leaf_apply : nat -> Z -> vec A -> vec A.

Definition bdo := list (option (op A)).

(* self._capability = self._all_ops; for op in self._ops: if op is not None: self._capability &= op.capability *)
Fixpoint bd_cap (b : bdo) : Z :=
  match b with
  | [] => t_all_ops
  | None :: t => bd_cap t
  | Some o :: t => Z.land (bd_cap t) (cap A o)
  end.

(* val = tuple(op.apply(v, mode=mode) if op is not None else v for op, v in zip(self._ops, x.values())) *)
Definition blk_apply (o : option (op A)) (m : Z) (x : vec A) : vec A :=
  match o with Some a => apply A leaf_apply a m x | None => x end.

Fixpoint bd_apply (b : bdo) (m : Z) (xs : list (vec A)) : list (vec A) :=
  match b, xs with
  | o :: b', x :: xs' => blk_apply o m x :: bd_apply b' m xs'
  | _, _ => []
  end.

(* _combine_chain:  for key, v1, v2 in zip(keys, self._ops, op._ops):
       if v1 is None and v2 is None: continue          (key stays missing in the result)
       res[key] = v2 if v1 is None else (v1 if v2 is None else v1(v2))
   v1(v2) = LinearOperator.__call__ = v1 @ v2 = LinearOperator.__matmul__  (Model.matmul) *)
Definition chain_blk (v1 v2 : option (op A)) : option (op A) :=
  match v1, v2 with
  | None, None => None
  | None, Some b => Some b
  | Some a, None => Some a
  | Some a, Some b => Some (matmul A a b)
  end.

Fixpoint bd_chain (b1 b2 : bdo) : bdo :=
  match b1, b2 with
  | v1 :: t1, v2 :: t2 => chain_blk v1 v2 :: bd_chain t1 t2
  | _, _ => []
  end.

(* _combine_sum(self, op, selfneg, opneg):
       if v1 is None: v1 = ScalingOperator(self._domain[key], 1.)
       if v2 is None: v2 = ScalingOperator(self._domain[key], 1.)
       res[key] = SumOperator.make([v1, v2], [selfneg, opneg])        (every key present) *)
Definition unity_blk (v : option (op A)) : op A :=
  match v with Some a => a | None => Scal (one A) None end.

Definition sum_blk (n1 n2 : bool) (v1 v2 : option (op A)) : option (op A) :=
  Some (mk_sum A [(unity_blk v1, n1); (unity_blk v2, n2)]).

Fixpoint bd_sum (b1 b2 : bdo) (n1 n2 : bool) : bdo :=
  match b1, b2 with
  | v1 :: t1, v2 :: t2 => sum_blk n1 n2 v1 v2 :: bd_sum t1 t2 n1 n2
  | _, _ => []
  end.

(* ---- the block-matrix meaning (specification side) ---- *)
(* product of two block-diagonal matrices in mode m: B1 B2 x in the forward modes (TIMES,
   ADJOINT_INVERSE_TIMES), B2' B1' x in the backward ones, where ' is the mode's transform *)
Definition bd_prod_sem (b1 b2 : bdo) (m : Z) (xs : list (vec A)) : list (vec A) :=
  if Z.eqb (Z.land m t_backwards) 0
  then bd_apply b1 m (bd_apply b2 m xs)
  else bd_apply b2 m (bd_apply b1 m xs).

(* signed sum of two block-diagonal matrices: per key (+-)B1_key x_key + (+-)B2_key x_key *)
Fixpoint bd_sum_sem (b1 b2 : bdo) (n1 n2 : bool) (m : Z) (xs : list (vec A)) : list (vec A) :=
  match b1, b2, xs with
  | v1 :: t1, v2 :: t2, x :: xs' =>
      (fun i => add A (sgn A n1 (blk_apply v1 m x i)) (sgn A n2 (blk_apply v2 m x i)))
        :: bd_sum_sem t1 t2 n1 n2 m xs'
  | _, _, _ => []
  end.

End Blk.
