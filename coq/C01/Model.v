(* C01 -- executable model of the linear-operator algebra of nifty.cl (no proofs in this file).

   Mirrors, statement by statement where it matters:
     linear_operator.py   mode/capability tables (from Gen_Tables.v, regenerated from the source),
                          _flip_modes, adjoint/inverse, __matmul__, _check_mode
     operator.py          scale, __neg__
     scaling_operator.py  apply, _flip_modes, isIdentity
     diagonal_operator.py _get_actual_diag, _scale, _add, _combine_prod, _combine_sum, apply, _flip_modes
     operator_adapter.py  __init__ (capability), _flip_modes, apply
     sum_operator.py      simplify, make, adjoint, apply, capability
     chain_operator.py    simplify, make, _flip_modes, apply, capability
   for operators that all live on ONE domain (so SumOperator.simplify has a single
   (domain,target) group and all domain identity checks pass).  Not modelled here (covered only by
   the direct oracle of the check): BlockDiagonalOperator, MultiDomain sums, device placement,
   sampling (C13).  NullOperator is the library leaf with the reserved id [null_id] and capability
   TIMES|ADJOINT_TIMES; ChainOperator.simplify collapses every chain containing one.

   Vectors are index functions nat -> T: equality in theorems is pointwise, so no functional
   extensionality is needed.  Scalars live in an arbitrary structure [arith] WITHOUT laws. *)
From Coq Require Import ZArith List Bool Arith.
Import ListNotations.
Require Import NV.C01.Gen_Tables.

Record arith := {
  T : Type;
  zero : T; one : T;
  add : T -> T -> T; sub : T -> T -> T; mul : T -> T -> T; div : T -> T -> T;
  neg : T -> T; conj : T -> T;
  eqb : T -> T -> bool;
  is_real : T -> bool;      (* `op._factor.imag == 0` *)
  re : T -> T               (* `op._factor.real` *)
}.

(* ---- modes, transforms, tables ---- *)
Definition zn (z : Z) : nat := Z.to_nat z.
Definition ilog (m : Z) : Z := nth (zn m) t_ilog (-1)%Z.
Definition validMode (m : Z) : bool := nth (zn m) t_validMode false.
Definition modeTable (tr : Z) (k : Z) : Z := nth (zn k) (nth (zn tr) t_modeTable []) 0%Z.
Definition capTable (tr : Z) (c : Z) : Z := nth (zn c) (nth (zn tr) t_capTable []) 0%Z.

Section Alg.
Variable A : arith.
Notation T := (T A).
Definition vec := nat -> T.

Definition vzero : vec := fun _ => zero A.
Definition vadd (x y : vec) : vec := fun i => add A (x i) (y i).
Definition vsub (x y : vec) : vec := fun i => sub A (x i) (y i).
Definition vneg (x : vec) : vec := fun i => neg A (x i).

(* sampling-dtype tag: None or an abstract id *)
Definition dtag := option nat.
Definition dtag_eqb (a b : dtag) : bool :=
  match a, b with
  | None, None => true
  | Some x, Some y => Nat.eqb x y
  | _, _ => false
  end.

Inductive op :=
| Scal (c : T) (dt : dtag)                       (* ScalingOperator(domain, factor, sampling_dtype) *)
| Diag (d : vec) (tr : Z) (dt : dtag)            (* DiagonalOperator: _ldiag, _trafo, _dtype *)
| Leaf (l : nat) (cp : Z)                        (* a library operator with its capability *)
| Sum (ops : list (op * bool))                   (* SumOperator: _ops, _neg *)
| Chain (ops : list op)                          (* ChainOperator: _ops *)
| Adapter (o : op) (tr : Z)                      (* OperatorAdapter: _op, _trafo *)
| Sandw (bun cheese inner : op).                 (* SandwichOperator: _bun, _cheese, _op *)

Variable leaf_apply : nat -> Z -> vec -> vec.    (* library operator l applied in mode m *)

(* ---- capability ---- *)
Fixpoint cap (o : op) : Z :=
  match o with
  | Scal _ _ => t_all_ops
  | Diag _ _ _ => t_all_ops
  | Leaf _ cp => cp
  | Sum ops =>
      (fix go (l : list (op * bool)) : Z :=
         match l with [] => Z.lor t_TIMES t_ADJOINT_TIMES | (a, _) :: t => Z.land (go t) (cap a) end) ops
  | Chain ops =>
      (fix go (l : list op) : Z :=
         match l with [] => t_all_ops | a :: t => Z.land (go t) (cap a) end) ops
  | Adapter o tr => capTable tr (cap o)
  | Sandw _ _ i => cap i                         (* self._capability = op._capability *)
  end.

(* ---- DiagonalOperator helpers ---- *)
(* _get_actual_diag (np.conj of a real array is the array itself, so conj is applied always) *)
Definition actual_diag (d : vec) (tr : Z) : vec :=
  if Z.eqb tr 0 then d
  else if Z.eqb tr 1 then (fun i => conj A (d i))
  else if Z.eqb tr 2 then (fun i => div A (one A) (d i))
  else (fun i => conj A (div A (one A) (d i))).

Definition is_diag (o : op) : bool := match o with Diag _ _ _ => true | _ => false end.
Definition is_scal (o : op) : bool := match o with Scal _ _ => true | _ => false end.

(* NullOperator(domain, target): self._capability = self.TIMES | self.ADJOINT_TIMES; apply returns
   the zero field (the leaf family is assumed to map [null_id] to the zero map in the theorems, and
   the correspondence passes no matrix for it, which evaluates to zero). *)
Definition null_id : nat := 99.
Definition null_cap : Z := Z.lor t_TIMES t_ADJOINT_TIMES.
Definition null_op : op := Leaf null_id null_cap.
Definition is_null (o : op) : bool :=        (* isinstance(op, NullOperator) *)
  match o with Leaf l cp => Nat.eqb l null_id && Z.eqb cp null_cap | _ => false end.

(* ScalingOperator.isIdentity; every other operator: False *)
Definition isIdentity (o : op) : bool :=
  match o with Scal c _ => eqb A c (one A) | _ => false end.

Definition sgn (ng : bool) (v : T) : T := if ng then neg A v else v.      (* v * (-1 if ng else 1) *)

(* ---- apply ---- *)
Definition apply_scal (c : T) (m : Z) (x : vec) : vec :=
  if eqb A c (one A) then x
  else if eqb A c (zero A) then vzero
  else
    let f1 := if Z.eqb (Z.land m (Z.lor t_ADJOINT_TIMES t_ADJOINT_INVERSE_TIMES)) 0 then c else conj A c in
    let f2 := if Z.eqb (Z.land m (Z.lor t_INVERSE_TIMES t_ADJOINT_INVERSE_TIMES)) 0 then f1 else div A (one A) f1 in
    fun i => mul A (x i) f2.

Definition apply_diag (d : vec) (tr : Z) (m : Z) (x : vec) : vec :=
  let t := Z.lxor (ilog m) tr in
  if Z.eqb t 0 then (fun i => mul A (x i) (d i))
  else if Z.eqb t 1 then (fun i => mul A (x i) (conj A (d i)))
  else if Z.eqb t 2 then (fun i => div A (x i) (d i))
  else (fun i => div A (x i) (conj A (d i))).

Fixpoint apply (o : op) (m : Z) (x : vec) : vec :=
  match o with
  | Scal c _ => apply_scal c m x
  | Diag d tr _ => apply_diag d tr m x
  | Leaf l _ => leaf_apply l m x
  | Sum ops =>
      (* res = None; for op, neg: tmp = op.apply(x, mode); res = -tmp if neg else tmp  /  res.flexible_addsub(tmp, neg) *)
      match ops with
      | [] => vzero
      | (a, ng) :: t =>
          (fix go (l : list (op * bool)) (res : vec) : vec :=
             match l with
             | [] => res
             | (b, nb) :: t' => go t' (if nb then vsub res (apply b m x) else vadd res (apply b m x))
             end) t (if ng then vneg (apply a m x) else apply a m x)
      end
  | Chain ops =>
      (* t_ops = self._ops if mode & self._backwards else reversed(self._ops); for op in t_ops: x = op.apply(x, mode) *)
      if Z.eqb (Z.land m t_backwards) 0
      then (fix go (l : list op) : vec := match l with [] => x | a :: t => apply a m (go t) end) ops
      else (fix go (l : list op) (y : vec) : vec := match l with [] => y | a :: t => go t (apply a m y) end) ops x
  | Adapter o tr => apply o (modeTable tr (ilog m)) x
  | Sandw _ _ i => apply i m x                   (* return self._op.apply(x, mode) *)
  end.

(* ---- ChainOperator.simplify / make ---- *)
Definition unpack_chain (ops : list op) : list op :=
  flat_map (fun o => match o with Chain l => l | _ => [o] end) ops.

(* fct *= op._factor.real for real ScalingOperators; the others are kept in order *)
Fixpoint collect_chain_scal (ops : list op) (fct : T) : T * list op :=
  match ops with
  | [] => (fct, [])
  | Scal c dt :: t =>
      if is_real A c then collect_chain_scal t (mul A fct (re A c))
      else let '(f, r) := collect_chain_scal t fct in (f, Scal c dt :: r)
  | o :: t => let '(f, r) := collect_chain_scal t fct in (f, o :: r)
  end.

(* opsnew[i] = opsnew[i]._scale(fct) for the first DiagonalOperator; returns None if there is none *)
Fixpoint absorb_scale (ops : list op) (fct : T) : option (list op) :=
  match ops with
  | [] => None
  | Diag d tr dt :: t => Some (Diag (fun i => mul A (actual_diag d tr i) fct) 0 dt :: t)
  | o :: t => match absorb_scale t fct with Some r => Some (o :: r) | None => None end
  end.

Definition dt_merge (a b : dtag) : dtag := if dtag_eqb a b then a else None.

(* combine adjacent DiagonalOperators: opsnew[-1] = opsnew[-1]._combine_prod(op) *)
Fixpoint combine_prod (ops : list op) (acc : list op) : list op :=   (* acc is opsnew reversed *)
  match ops with
  | [] => rev acc
  | Diag d2 t2 dt2 :: t =>
      match acc with
      | Diag d1 t1 dt1 :: acc' =>
          combine_prod t (Diag (fun i => mul A (actual_diag d1 t1 i) (actual_diag d2 t2 i)) 0 (dt_merge dt1 dt2) :: acc')
      | _ => combine_prod t (Diag d2 t2 dt2 :: acc)
      end
  | o :: t => combine_prod t (o :: acc)
  end.

(* the part of ChainOperator.simplify after the two early returns, when no NullOperator occurs *)
Definition chain_nonull (ops : list op) : list op :=
  let ops1 := unpack_chain ops in
  let '(fct, ops2) := collect_chain_scal ops1 (one A) in
  let '(fct', ops3) :=
    if negb (eqb A fct (one A))
    then match absorb_scale ops2 fct with Some r => (one A, r) | None => (fct, ops2) end
    else (fct, ops2) in
  let ops4 :=
    if negb (eqb A fct' (one A)) || (match ops3 with [] => true | _ => false end)
    then ops3 ++ [Scal fct' None] else ops3 in
  combine_prod ops4 [].

(* if any(isinstance(op, NullOperator) for op in ops): ops = (NullOperator(ops[-1].domain, ops[0].target),)
   (tested on the unpacked list; the remaining steps leave a single NullOperator unchanged) *)
Definition chain_general (ops : list op) : list op :=
  if existsb is_null (unpack_chain ops) then [null_op] else chain_nonull ops.

Definition chain_simplify (ops : list op) : list op :=
  match ops with
  | [o] => [o]                                   (* if len(ops) == 1: return ops *)
  | [a; b] =>                                    (* if len(ops)==2: identity shortcuts *)
      if isIdentity a then [b] else if isIdentity b then [a] else chain_general ops
  | _ => chain_general ops
  end.

Definition mk_chain (ops : list op) : op :=
  match chain_simplify ops with
  | [o] => o
  | l => Chain l
  end.

(* Operator.scale: `if factor == 1: return self`; ScalingOperator(self.target, factor)(self)
   = ScalingOperator @ self = (LinearOperator.__matmul__) ChainOperator.make([scaling, self])
   unless self.isIdentity(), in which case the scaling operator itself is returned. *)
Definition matmul (a b : op) : op := if isIdentity b then a else mk_chain [a; b].
Definition scale (c : T) (o : op) : op :=
  if eqb A c (one A) then o else matmul (Scal c None) o.
Definition negate (o : op) : op := scale (neg A (one A)) o.

(* ---- SumOperator.simplify / make ---- *)
Definition unpack_sum (l : list (op * bool)) : list (op * bool) :=
  flat_map (fun p => match p with
                     | (Sum l', ng) => map (fun q => (fst q, xorb ng (snd q))) l'
                     | _ => [p] end) l.

(* sum += op._factor * (-1 if ng else 1); dtype.append(op._dtype); others kept in order *)
Fixpoint collect_sum_scal (l : list (op * bool)) (s : T) : T * list dtag * list (op * bool) :=
  match l with
  | [] => (s, [], [])
  | (Scal c dt, ng) :: t =>
      let '(s', dts, r) := collect_sum_scal t (add A s (sgn ng c)) in (s', dt :: dts, r)
  | p :: t => let '(s', dts, r) := collect_sum_scal t s in (s', dts, p :: r)
  end.

Definition sum_dtype (dts : list dtag) : dtag :=
  match dts with
  | [] => None
  | d :: t => if forallb (dtag_eqb d) t then d else None
  end.

(* absorb into the first DiagonalOperator whose _dtype equals dtype:
   sum *= (-1 if negnew[i] else 1); opsnew[i] = opsnew[i]._add(sum) *)
Fixpoint absorb_add (l : list (op * bool)) (s : T) (dtype : dtag) : option (list (op * bool)) :=
  match l with
  | [] => None
  | (Diag d tr dt, ng) :: t =>
      if dtag_eqb dt dtype
      then Some ((Diag (fun i => add A (actual_diag d tr i) (sgn ng s)) 0 dt, ng) :: t)
      else match absorb_add t s dtype with Some r => Some ((Diag d tr dt, ng) :: r) | None => None end
  | p :: t => match absorb_add t s dtype with Some r => Some (p :: r) | None => None end
  end.

(* merge into (d, ng, dt) every later DiagonalOperator with the same _dtype as the first one;
   returns the merged diagonal (always stored un-negated after the first merge) and the rest *)
Fixpoint merge_diags (d : vec) (ng : bool) (dt0 dtcur : dtag) (l : list (op * bool))
  : vec * bool * dtag * list (op * bool) :=
  match l with
  | [] => (d, ng, dtcur, [])
  | (Diag d2 t2 dt2, n2) :: t =>
      if dtag_eqb dt0 dt2
      then merge_diags (fun i => add A (sgn ng (d i)) (sgn n2 (actual_diag d2 t2 i))) false dt0 (dt_merge dtcur dt2) t
      else let '(d', ng', dt', r) := merge_diags d ng dt0 dtcur t in (d', ng', dt', (Diag d2 t2 dt2, n2) :: r)
  | p :: t => let '(d', ng', dt', r) := merge_diags d ng dt0 dtcur t in (d', ng', dt', p :: r)
  end.

(* Step 4 of simplify; fuel = length of the list (each round removes the head) *)
Fixpoint combine_sum (fuel : nat) (l : list (op * bool)) : list (op * bool) :=
  match fuel with
  | O => l
  | S f =>
    match l with
    | [] => []
    | (Diag d tr dt, ng) :: t =>
        (* the first operand keeps its _trafo and sign unless something is merged into it *)
        if existsb (fun p => match fst p with Diag _ _ dt2 => dtag_eqb dt dt2 | _ => false end) t
        then let '(d', ng', dt', r) := merge_diags (actual_diag d tr) ng dt dt t in
             (Diag d' 0 dt', ng') :: combine_sum f r
        else (Diag d tr dt, ng) :: combine_sum f t
    | p :: t => p :: combine_sum f t
    end
  end.

Definition sum_simplify (l : list (op * bool)) : list (op * bool) :=
  let l1 := unpack_sum l in
  let '(s, dts, l2) := collect_sum_scal l1 (zero A) in
  let dtype := sum_dtype dts in
  let '(s', l3) :=
    if negb (eqb A s (zero A))
    then match absorb_add l2 s dtype with Some r => (zero A, r) | None => (s, l2) end
    else (s, l2) in
  let l4 :=
    if negb (eqb A s' (zero A)) || (match l3 with [] => true | _ => false end)
    then l3 ++ [(Scal s' dtype, false)] else l3 in
  combine_sum (length l4) l4.

Definition mk_sum (l : list (op * bool)) : op :=
  match sum_simplify l with
  | [(o, ng)] => if ng then negate o else o
  | l' => Sum l'
  end.

(* ---- _flip_modes / adjoint / inverse ---- *)
Definition has_adj (t : Z) : bool := negb (Z.eqb (Z.land t t_ADJOINT_BIT) 0).
Definition has_inv (t : Z) : bool := negb (Z.eqb (Z.land t t_INVERSE_BIT) 0).

Fixpoint flip (t : Z) (o : op) : op :=
  if Z.eqb t 0 then o else
  match o with
  | Scal c dt =>
      let c1 := if has_adj t then conj A c else c in
      let c2 := if has_inv t then div A (one A) c1 else c1 in
      Scal c2 dt
  | Diag d tr dt => Diag d (Z.lxor tr t) dt
  | Chain ops =>
      if Z.eqb t 3 then mk_chain (map (flip t) ops)
      else mk_chain (rev (map (flip t) ops))   (* = [op._flip_modes(t) for op in reversed(ops)] *)
  | Adapter o' tr =>
      let nt := Z.lxor t tr in if Z.eqb nt 0 then o' else Adapter o' nt
  | Leaf _ _ | Sum _ | Sandw _ _ _ => Adapter o t
  end.

(* the `adjoint` property: SumOperator overrides it, everything else is _flip_modes(ADJOINT_BIT) *)
Fixpoint adjoint_prop (o : op) : op :=
  match o with
  | Sum ops => mk_sum (map (fun p => match p with (a, ng) => (adjoint_prop a, ng) end) ops)
  | _ => flip t_ADJOINT_BIT o
  end.
Definition inverse_prop (o : op) : op := flip t_INVERSE_BIT o.

(* ---- SandwichOperator.make(bun, cheese) ---- *)
Definition is_sandw (o : op) : bool := match o with Sandw _ _ _ => true | _ => false end.

Definition mk_sandwich (bun cheese : op) : op :=
  (* if isinstance(cheese, SandwichOperator): cheese = old._cheese; bun = old._bun @ bun *)
  let '(bun, cheese) :=
    match cheese with
    | Sandw b0 c0 _ => (matmul b0 bun, c0)
    | _ => (bun, cheese)
    end in
  match bun with
  | Scal f _ =>
      (* fct = abs(bun._factor)**2; if fct == 1.: return cheese; op = cheese.scale(fct) *)
      let fct := mul A f (conj A f) in
      if eqb A fct (one A) then cheese else Sandw bun cheese (scale fct cheese)
  | _ =>
      (* op = bun.adjoint @ cheese @ bun *)
      Sandw bun cheese (matmul (matmul (adjoint_prop bun) cheese) bun)
  end.

(* ---- expressions: what a user writes with + - @ scalar* .adjoint .inverse ---- *)
Inductive expr :=
| EPrim (o : op)                 (* Scal / Diag / Leaf given directly *)
| EAdd (a b : expr) | ESub (a b : expr) | EComp (a b : expr)
| EScale (c : T) (a : expr) | ENeg (a : expr) | EAdj (a : expr) | EInv (a : expr)
| ESandwich (bun cheese : expr).   (* SandwichOperator.make(bun, cheese) *)

Fixpoint build (e : expr) : op :=
  match e with
  | EPrim o => o
  | EAdd a b => mk_sum [(build a, false); (build b, false)]
  | ESub a b => mk_sum [(build a, false); (build b, true)]
  | EComp a b => matmul (build a) (build b)
  | EScale c a => scale c (build a)
  | ENeg a => negate (build a)
  | EAdj a => adjoint_prop (build a)
  | EInv a => inverse_prop (build a)
  | ESandwich b c => mk_sandwich (build b) (build c)
  end.

End Alg.

Arguments Scal {A}. Arguments Diag {A}. Arguments Leaf {A}. Arguments Sum {A}. Arguments Chain {A}.
Arguments Adapter {A}. Arguments Sandw {A}. Arguments ESandwich {A}.
Arguments EPrim {A}. Arguments EAdd {A}. Arguments ESub {A}. Arguments EComp {A}. Arguments EScale {A}.
Arguments ENeg {A}. Arguments EAdj {A}. Arguments EInv {A}.
