(* C01 -- the algebraic setting of the soundness theorems: a field with a total inverse that
   satisfies the usual "meadow" identities and an involutive conjugation.  Everything is a Section
   hypothesis; Coq's Q/Qc/R and pairs over them (complex numbers) satisfy all of them.  For entries
   equal to zero the inverse modes have no matrix meaning; there the theorems only say that the
   simplified operator and the un-simplified expression agree under the same total inverse. *)
From Coq Require Import ZArith List Bool Ring Field_theory.
Import ListNotations.
Require Import NV.C01.Gen_Tables NV.C01.Model.

Section Laws.
Variable A : arith.
Notation T := (T A).
Notation "0" := (zero A).
Notation "1" := (one A).
Infix "+" := (add A).
Infix "*" := (mul A).
Infix "-" := (sub A).
Notation "- x" := (neg A x).
Definition inv (x : T) : T := div A 1 x.

Record laws := {
  Fth : field_theory 0 1 (add A) (mul A) (sub A) (neg A) (div A) inv eq;
  inv_mul : forall a b, inv (a * b) = inv a * inv b;
  inv_inv : forall a, inv (inv a) = a;
  inv_zero : inv 0 = 0;
  conj_add : forall a b, conj A (a + b) = conj A a + conj A b;
  conj_mul : forall a b, conj A (a * b) = conj A a * conj A b;
  conj_neg : forall a, conj A (- a) = - conj A a;
  conj_one : conj A 1 = 1;
  conj_zero : conj A 0 = 0;
  conj_invol : forall a, conj A (conj A a) = a;
  conj_inv : forall a, conj A (inv a) = inv (conj A a);
  eqb_spec : forall a b, eqb A a b = true <-> a = b;
  real_spec : forall c, is_real A c = true -> re A c = c /\ conj A c = c
}.
End Laws.
