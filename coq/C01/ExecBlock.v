(* C01 -- executable correspondence cases for the BlockDiagonalOperator model (Block.v). *)
From Coq Require Import ZArith QArith List Bool Arith.
Import ListNotations.
Require Import NV.C01.Gen_Tables NV.C01.Model NV.C01.Exec NV.C01.Block.

(* outputs of the block operator b in mode m: per input vector (the same vector is put on every
   key: basis vectors, then one complex vector), per key, the n output values *)
Definition bd_dense (n : nat) (lt : leaf_tab) (extra : list CQ) (b : bdo CQA) (m : Z) : list (list (list CQ)) :=
  map (fun x => map (fun y : nat -> CQ => map y (seq 0 n))
                    (bd_apply CQA (leaf_apply_exec n lt) b m (map (fun _ => x) b)))
      (map basis (seq 0 n) ++ [vec_of extra]).

Definition is_some {X} (o : option X) : bool := match o with Some _ => true | None => false end.

(* One case: b1._combine_chain(b2) (chain = true) or b1._combine_sum(b2, n1, n2).  [capI]: the
   implementation's capability of the result, [presI]: which entries of its _ops are not None,
   [mats]: its outputs in the modes 1,2,4,8 ([] = not advertised / not finite). *)
Definition bd_case_ok (n : nat) (lt : leaf_tab) (extra : list CQ) (chain : bool) (n1 n2 : bool)
           (e1 e2 : list (option (expr CQA))) (capI : Z) (presI : list bool)
           (mats : list (list (list (list CQ)))) : bool :=
  let mk := map (fun o => match o with Some e => Some (build CQA e) | None => None end) in
  let b1 := mk e1 in let b2 := mk e2 in
  let r := if chain then bd_chain CQA b1 b2 else bd_sum CQA b1 b2 n1 n2 in
  Z.eqb (bd_cap CQA r) capI &&
  all2 Bool.eqb (map is_some r) presI &&
  all2 (fun m cols => match cols with [] => true | _ => all2 (all2 (all2 close)) (bd_dense n lt extra r m) cols end)
       [1; 2; 4; 8]%Z mats.
