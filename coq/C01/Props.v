(* C01 -- property theorems (table part; algebra theorems are added below as they are proved). *)
From Coq Require Import ZArith List Bool.
Import ListNotations.
Require Import NV.C01.Gen_Tables NV.C01.Model NV.C01.Proofs.

Theorem C01_tables_mode :
  forall t k, In t [0;1;2;3]%Z -> In k [0;1;2;3]%Z ->
    modeTable t k = Z.shiftl 1 (Z.lxor k t) /\ ilog (Z.shiftl 1 k) = k /\ validMode (Z.shiftl 1 k) = true.
Proof. exact tables_mode. Qed.

Theorem C01_tables_cap :
  forall t c b, In t [0;1;2;3]%Z -> (0 <= c < 16)%Z -> In b [0;1;2;3]%Z ->
    Z.testbit (capTable t c) b = Z.testbit c (Z.lxor b t).
Proof. exact tables_cap. Qed.

Theorem C01_tables_addInverse :
  forall c, (0 <= c < 16)%Z -> nth (Z.to_nat c) t_addInverse 0%Z = Z.lor c (capTable 2 c).
Proof. exact tables_addInverse. Qed.

Theorem C01_tables_masks :
  forall k, In k [0;1;2;3]%Z ->
    (* _dom(mode) is the domain iff the mode has no INVERSE-xor-ADJOINT "backwards" flavour *)
    (negb (Z.eqb (Z.land (Z.shiftl 1 k) t_dom_mask) 0) = (Z.eqb k 0 || Z.eqb k 3)) /\
    (negb (Z.eqb (Z.land (Z.shiftl 1 k) t_tgt_mask) 0) = (Z.eqb k 1 || Z.eqb k 2)) /\
    t_backwards = t_tgt_mask /\ t_all_ops = 15%Z.
Proof. exact tables_masks. Qed.

(* ------------------------------------------------------------------------------------------
   The algebra: for EVERY expression tree (any depth) over well-formed primitives, every field
   with conjugation satisfying [laws] (Laws.v), every family of library leaves that are
   extensional and homogeneous and whose reserved member [null_id] (NullOperator) is the zero map,
   and every mode index k that the advertised-mode rule [advk]
   grants: the operator that NIFTy's construction-time simplifications build (model [build])
   advertises mode k and acts exactly as the compositional matrix meaning [sem] of the
   expression.  Modes: k = 0 TIMES, 1 ADJOINT, 2 INVERSE, 3 ADJOINT_INVERSE; mode = 2^k. *)
From Coq Require Import QArith Qcanon.
Require Import NV.C01.Laws NV.C01.ProofsAlg NV.C01.Instance.

Theorem C01_build_sound :
  forall (A : arith), laws A ->
  forall leaf_apply : nat -> Z -> vec A -> vec A,
    (forall (l : nat) (m : Z) (x y : vec A), (forall i, x i = y i) -> forall i, leaf_apply l m x i = leaf_apply l m y i) ->
    (forall (l : nat) (m : Z) (x : vec A) (c : T A) (i : nat),
        leaf_apply l m (fun j => mul A (x j) c) i = mul A (leaf_apply l m x i) c) ->
    (forall (m : Z) (x : vec A) (i : nat), leaf_apply null_id m x i = zero A) ->
  forall e : expr A, wfe A e ->
  forall k : Z, In k [0;1;2;3]%Z -> advk A e k = true ->
    Z.testbit (cap A (build A e)) k = true /\
    forall (x : vec A) (i : nat),
      apply A leaf_apply (build A e) (Z.shiftl 1 k) x i = sem A leaf_apply e k x i.
Proof. exact build_sound_full. Qed.

(* _flip_modes / .adjoint / .inverse of ANY well-formed operator object: the result acts as the
   original in the mode with the transform bits XOR-ed in, and advertises (at least) the remapped
   capability bits (flip group: t = 0 is the identity, t o t' = t xor t').  "At least": re-making a
   flipped chain can expose a NullOperator that was hidden behind an adapter, and the collapsed
   chain then advertises TIMES|ADJOINT_TIMES whatever its other factors provide -- see
   C01_flip_caps_not_exact below; this is NIFTy's behaviour, and it is sound (the action is zero). *)
Theorem C01_flip_sound :
  forall (A : arith), laws A ->
  forall leaf_apply : nat -> Z -> vec A -> vec A,
    (forall (l : nat) (m : Z) (x y : vec A), (forall i, x i = y i) -> forall i, leaf_apply l m x i = leaf_apply l m y i) ->
    (forall (l : nat) (m : Z) (x : vec A) (c : T A) (i : nat),
        leaf_apply l m (fun j => mul A (x j) c) i = mul A (leaf_apply l m x i) c) ->
    (forall (m : Z) (x : vec A) (i : nat), leaf_apply null_id m x i = zero A) ->
  forall (o : op A) (t : Z), wf A o -> In t [0;1;2;3]%Z ->
    wf A (flip A t o) /\
    forall k : Z, In k [0;1;2;3]%Z ->
      (Z.testbit (cap A o) (Z.lxor k t) = true -> Z.testbit (cap A (flip A t o)) k = true) /\
      forall (x : vec A) (i : nat),
        apply A leaf_apply (flip A t o) (Z.shiftl 1 k) x i = apply A leaf_apply o (Z.shiftl 1 (Z.lxor k t)) x i.
Proof. exact flip_sound_full. Qed.

(* ... and exactly the remapped capability bits when no NullOperator occurs anywhere in the operator
   ([nonull]: no leaf of the object is the reserved NullOperator leaf). *)
Theorem C01_flip_caps_exact_without_null :
  forall (A : arith), laws A ->
  forall leaf_apply : nat -> Z -> vec A -> vec A,
    (forall (l : nat) (m : Z) (x y : vec A), (forall i, x i = y i) -> forall i, leaf_apply l m x i = leaf_apply l m y i) ->
    (forall (l : nat) (m : Z) (x : vec A) (c : T A) (i : nat),
        leaf_apply l m (fun j => mul A (x j) c) i = mul A (leaf_apply l m x i) c) ->
    (forall (m : Z) (x : vec A) (i : nat), leaf_apply null_id m x i = zero A) ->
  forall (o : op A) (t : Z), wf A o -> nonull A o -> In t [0;1;2;3]%Z ->
    forall k : Z, In k [0;1;2;3]%Z ->
      Z.testbit (cap A (flip A t o)) k = Z.testbit (cap A o) (Z.lxor k t).
Proof. exact flip_caps_exact_full. Qed.

(* SumOperator.make on ANY list of well-formed operators with signs: the simplified result
   (unpacking, scaling absorption with the sign fix, diagonal merging, single-operand collapse)
   acts as the signed sum of its operands in the two modes a sum supports. *)
Theorem C01_sum_simplify_sound :
  forall (A : arith), laws A ->
  forall leaf_apply : nat -> Z -> vec A -> vec A,
    (forall (l : nat) (m : Z) (x y : vec A), (forall i, x i = y i) -> forall i, leaf_apply l m x i = leaf_apply l m y i) ->
    (forall (l : nat) (m : Z) (x : vec A) (c : T A) (i : nat),
        leaf_apply l m (fun j => mul A (x j) c) i = mul A (leaf_apply l m x i) c) ->
    (forall (m : Z) (x : vec A) (i : nat), leaf_apply null_id m x i = zero A) ->
  forall l : list (op A * bool), Forall (fun p => wf A (fst p)) l ->
    wf A (mk_sum A l) /\
    forall k : Z, (k = 0 \/ k = 1)%Z -> forall (x : vec A) (i : nat),
      apply A leaf_apply (mk_sum A l) (Z.shiftl 1 k) x i = sum_sem A leaf_apply l (Z.shiftl 1 k) x i.
Proof. exact mk_sum_sound_full. Qed.

(* ChainOperator.make on ANY list of well-formed operators: the simplified result (identity
   shortcuts, unpacking, collection of real scalings, absorption into the first diagonal, merging
   of adjacent diagonals, collapse to a NullOperator when one occurs) acts as the composition in
   all four modes and advertises the conjunction of the operands' capabilities -- exactly when no
   NullOperator occurs, at least otherwise (the collapsed chain is a fresh NullOperator). *)
Theorem C01_chain_simplify_sound :
  forall (A : arith), laws A ->
  forall leaf_apply : nat -> Z -> vec A -> vec A,
    (forall (l : nat) (m : Z) (x y : vec A), (forall i, x i = y i) -> forall i, leaf_apply l m x i = leaf_apply l m y i) ->
    (forall (l : nat) (m : Z) (x : vec A) (c : T A) (i : nat),
        leaf_apply l m (fun j => mul A (x j) c) i = mul A (leaf_apply l m x i) c) ->
    (forall (m : Z) (x : vec A) (i : nat), leaf_apply null_id m x i = zero A) ->
  forall l : list (op A), Forall (wf A) l ->
    wf A (mk_chain A l) /\
    forall k : Z, In k [0;1;2;3]%Z ->
      (forallb (fun a => Z.testbit (cap A a) k) l = true -> Z.testbit (cap A (mk_chain A l)) k = true) /\
      (existsb (is_null A) (unpack_chain A l) = false ->
       Z.testbit (cap A (mk_chain A l)) k = forallb (fun a => Z.testbit (cap A a) k) l) /\
      forall (x : vec A) (i : nat),
        apply A leaf_apply (mk_chain A l) (Z.shiftl 1 k) x i = comp A leaf_apply l k x i.
Proof. exact mk_chain_sound_full. Qed.

(* The capability equality of C01_flip_sound cannot be exact: a chain whose NullOperator is hidden
   behind an adjoint adapter, next to a TIMES-only leaf, advertises TIMES only; its adjoint is
   re-made from [leaf.adjoint; Null], collapses to a NullOperator and advertises TIMES as well,
   although the original does not advertise ADJOINT_TIMES. *)
Example C01_flip_caps_not_exact :
  let o : op QcA := Chain [Adapter (null_op QcA) 1; @Leaf QcA 1%nat 1] in
  wf QcA o /\ Z.testbit (cap QcA (flip QcA 1 o)) 0 = true /\ Z.testbit (cap QcA o) (Z.lxor 0 1) = false.
Proof. vm_compute. repeat split; try discriminate; try tauto. Qed.

(* Non-vacuity: the hypotheses are satisfiable (rationals, identity leaves) and a concrete
   expression  D - 2*(L^dagger @ D')  with a negative-sign absorption meets wfe and advk. *)
Example C01_hyps_satisfiable :
  laws QcA /\
  (forall l m (x y : vec QcA), (forall i, x i = y i) -> forall i, id_leaf l m x i = id_leaf l m y i) /\
  (forall m (x : vec QcA) i, id_leaf null_id m x i = zero QcA) /\
  let D  : op QcA := @Diag QcA (fun i => Q2Qc (Qmake (Z.of_nat i + 1) 1)) 0 None in
  let D' : op QcA := @Diag QcA (fun i => Q2Qc (Qmake 3 1)) 2 (Some 1%nat) in
  let e := @ESub QcA (@EPrim QcA D) (@EScale QcA (Q2Qc (Qmake 2 1)) (@EComp QcA (@EAdj QcA (@EPrim QcA (@Leaf QcA 0%nat 3))) (@EPrim QcA D'))) in
  wfe QcA e /\ advk QcA e 0 = true /\ advk QcA e 1 = true /\ advk QcA e 2 = false.
Proof.
  split; [exact QcA_laws|]. split; [exact id_leaf_ext|]. split; [exact id_leaf_null|].
  cbn. repeat split; try (left; reflexivity); try (right; right; left; reflexivity); try discriminate; try reflexivity.
Qed.

(* ------------------------------------------------------------------------------------------
   BlockDiagonalOperator over a MultiDomain with ANY number of keys (model Block.v: the tuple
   _ops with None for a missing key, MultiFields as lists of per-key fields). *)
Require Import NV.C01.Block NV.C01.ProofsBlock.

(* BlockDiagonalOperator._combine_chain: for two block-diagonal operators on the same MultiDomain
   (equal number of keys) whose present blocks are well-formed operator objects, the combined
   operator (missing+missing stays missing, one missing -> the other block, both present ->
   v1 @ v2 with its simplifications) acts in all four modes as the block-matrix product: B1 (B2 x)
   in the forward modes, B2' (B1' x) in the backward ones, a missing key being the identity. *)
Theorem C01_blockdiag_combine_chain_sound :
  forall (A : arith), laws A ->
  forall leaf_apply : nat -> Z -> vec A -> vec A,
    (forall (l : nat) (m : Z) (x y : vec A), (forall i, x i = y i) -> forall i, leaf_apply l m x i = leaf_apply l m y i) ->
    (forall (l : nat) (m : Z) (x : vec A) (c : T A) (i : nat),
        leaf_apply l m (fun j => mul A (x j) c) i = mul A (leaf_apply l m x i) c) ->
    (forall (m : Z) (x : vec A) (i : nat), leaf_apply null_id m x i = zero A) ->
  forall b1 b2 : bdo A, length b1 = length b2 -> wfb A b1 -> wfb A b2 ->
    wfb A (bd_chain A b1 b2) /\ length (bd_chain A b1 b2) = length b1 /\
    forall k : Z, In k [0;1;2;3]%Z -> forall xs : list (vec A), length xs = length b1 ->
      mpeq A (bd_apply A leaf_apply (bd_chain A b1 b2) (Z.shiftl 1 k) xs)
             (bd_prod_sem A leaf_apply b1 b2 (Z.shiftl 1 k) xs).
Proof. exact bd_chain_sound. Qed.

(* BlockDiagonalOperator._combine_sum(op, selfneg, opneg): every key of the result is present and
   the result acts, in the two modes a sum supports, as the signed block-matrix sum
   (+-)B1_key x_key + (+-)B2_key x_key on every key, a missing key being the identity. *)
Theorem C01_blockdiag_combine_sum_sound :
  forall (A : arith), laws A ->
  forall leaf_apply : nat -> Z -> vec A -> vec A,
    (forall (l : nat) (m : Z) (x y : vec A), (forall i, x i = y i) -> forall i, leaf_apply l m x i = leaf_apply l m y i) ->
    (forall (l : nat) (m : Z) (x : vec A) (c : T A) (i : nat),
        leaf_apply l m (fun j => mul A (x j) c) i = mul A (leaf_apply l m x i) c) ->
    (forall (m : Z) (x : vec A) (i : nat), leaf_apply null_id m x i = zero A) ->
  forall (n1 n2 : bool) (b1 b2 : bdo A), length b1 = length b2 -> wfb A b1 -> wfb A b2 ->
    wfb A (bd_sum A b1 b2 n1 n2) /\ length (bd_sum A b1 b2 n1 n2) = length b1 /\
    Forall (fun o => o <> None) (bd_sum A b1 b2 n1 n2) /\
    forall k : Z, (k = 0 \/ k = 1)%Z -> forall xs : list (vec A), length xs = length b1 ->
      mpeq A (bd_apply A leaf_apply (bd_sum A b1 b2 n1 n2) (Z.shiftl 1 k) xs)
             (bd_sum_sem A leaf_apply b1 b2 n1 n2 (Z.shiftl 1 k) xs).
Proof. exact bd_sum_sound. Qed.

(* Non-vacuity: two 3-key operators with missing keys in different places; the chain keeps the key
   that is missing in both missing, the sum has every key present. *)
Example C01_blockdiag_nonvacuous :
  let D : op QcA := @Diag QcA (fun i => Q2Qc (Qmake (Z.of_nat i + 1) 1)) 0 None in
  let b1 : bdo QcA := [Some D; None; None] in
  let b2 : bdo QcA := [Some (@Leaf QcA 0%nat 3); Some D; None] in
  wfb QcA b1 /\ wfb QcA b2 /\ length b1 = length b2 /\
  nth 2 (bd_chain QcA b1 b2) (Some D) = None /\ nth 2 (bd_sum QcA b1 b2 false true) None <> None.
Proof.
  cbn. repeat split; try discriminate; repeat constructor; try (left; reflexivity); try discriminate.
Qed.
