(* C01 -- property theorems (table part; algebra theorems are added below as they are proved). *)
From Coq Require Import ZArith List Bool.
Import ListNotations.
Require Import NV.C01.Gen_Tables NV.C01.Model NV.C01.Proofs.

Theorem C01_tables_mode :
  forall t k, In t [0;1;2;3]%Z -> In k [0;1;2;3]%Z ->
    modeTable t k = Z.shiftl 1 (Z.lxor k t) /\ ilog (Z.shiftl 1 k) = k /\ validMode (Z.shiftl 1 k) = true.
Proof. exact tables_mode. Qed.

Theorem C01_tables_cap :
  forall t c b, In t [0;1;2;3]%Z -> (0 <= c < 16)%Z -> In b [0;1;2;3]%Z ->
    Z.testbit (capTable t c) b = Z.testbit c (Z.lxor b t).
Proof. exact tables_cap. Qed.

Theorem C01_tables_addInverse :
  forall c, (0 <= c < 16)%Z -> nth (Z.to_nat c) t_addInverse 0%Z = Z.lor c (capTable 2 c).
Proof. exact tables_addInverse. Qed.

Theorem C01_tables_masks :
  forall k, In k [0;1;2;3]%Z ->
    (* _dom(mode) is the domain iff the mode has no INVERSE-xor-ADJOINT "backwards" flavour *)
    (negb (Z.eqb (Z.land (Z.shiftl 1 k) t_dom_mask) 0) = (Z.eqb k 0 || Z.eqb k 3)) /\
    (negb (Z.eqb (Z.land (Z.shiftl 1 k) t_tgt_mask) 0) = (Z.eqb k 1 || Z.eqb k 2)) /\
    t_backwards = t_tgt_mask /\ t_all_ops = 15%Z.
Proof. exact tables_masks. Qed.
