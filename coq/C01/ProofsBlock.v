(* C01 -- proofs about the BlockDiagonalOperator model (Block.v): _combine_chain is the
   block-matrix product, _combine_sum the signed block-matrix sum, missing keys = unity. *)
From Coq Require Import ZArith List Bool.
Import ListNotations.
Require Import NV.C01.Gen_Tables NV.C01.Model NV.C01.Laws NV.C01.ProofsAlg NV.C01.Block.

Section BlkProofs.
Variable A : arith.
Variable L : laws A.
Variable leaf_apply : nat -> Z -> vec A -> vec A.
Hypothesis leaf_ext : forall (l : nat) (m : Z) (x y : vec A), (forall i, x i = y i) -> forall i, leaf_apply l m x i = leaf_apply l m y i.
Hypothesis leaf_homog : forall (l : nat) (m : Z) (x : vec A) (c : T A) (i : nat),
    leaf_apply l m (fun j => mul A (x j) c) i = mul A (leaf_apply l m x i) c.
Hypothesis leaf_null : forall (m : Z) (x : vec A) (i : nat), leaf_apply null_id m x i = zero A.

Add Ring TRB : (Rth A L).

(* every present block is a well-formed operator object *)
Definition wfb (b : bdo A) : Prop := Forall (fun o => match o with Some a => wf A a | None => True end) b.

(* pointwise equality of multi-fields *)
Definition mpeq (xs ys : list (vec A)) : Prop := Forall2 (fun u v => forall i, u i = v i) xs ys.

Lemma chain_blk_sound k v1 v2 : kvalid k ->
  match v1 with Some a => wf A a | None => True end ->
  match v2 with Some a => wf A a | None => True end ->
  match chain_blk A v1 v2 with Some a => wf A a | None => True end /\
  forall x i, blk_apply A leaf_apply (chain_blk A v1 v2) (mode_of k) x i =
    (if Z.eqb (Z.land (mode_of k) t_backwards) 0
     then blk_apply A leaf_apply v1 (mode_of k) (blk_apply A leaf_apply v2 (mode_of k) x)
     else blk_apply A leaf_apply v2 (mode_of k) (blk_apply A leaf_apply v1 (mode_of k) x)) i.
Proof.
  intros Hk H1 H2. destruct v1 as [a|], v2 as [b|]; cbn [chain_blk blk_apply].
  - destruct (matmul_sound A L leaf_apply leaf_ext leaf_homog leaf_null k a b Hk H1 H2) as [W S].
    split; [exact W|]. intros x i. rewrite (S x i). unfold comp, backwards.
    destruct (Z.eqb (Z.land (mode_of k) t_backwards) 0); reflexivity.
  - split; [exact H1|]. intros x i. destruct (Z.eqb (Z.land (mode_of k) t_backwards) 0); reflexivity.
  - split; [exact H2|]. intros x i. destruct (Z.eqb (Z.land (mode_of k) t_backwards) 0); reflexivity.
  - split; [exact I|]. intros x i. destruct (Z.eqb (Z.land (mode_of k) t_backwards) 0); reflexivity.
Qed.

Lemma bd_chain_sound b1 : forall b2, length b1 = length b2 -> wfb b1 -> wfb b2 ->
  wfb (bd_chain A b1 b2) /\ length (bd_chain A b1 b2) = length b1 /\
  forall k, kvalid k -> forall xs, length xs = length b1 ->
    mpeq (bd_apply A leaf_apply (bd_chain A b1 b2) (mode_of k) xs)
         (bd_prod_sem A leaf_apply b1 b2 (mode_of k) xs).
Proof.
  induction b1 as [|v1 t1 IH]; intros [|v2 t2] Hl W1 W2; try discriminate.
  - split; [constructor|]. split; [reflexivity|]. intros k Hk [|x xs] Hx; try discriminate.
    unfold bd_prod_sem. destruct (Z.eqb (Z.land (mode_of k) t_backwards) 0); constructor.
  - inversion W1 as [|? ? Hv1 Ht1]; subst. inversion W2 as [|? ? Hv2 Ht2]; subst.
    injection Hl as Hl. destruct (IH t2 Hl Ht1 Ht2) as [Wt [Lt St]].
    cbn [bd_chain]. split.
    + constructor; [|exact Wt]. apply (chain_blk_sound 0%Z v1 v2 kvalid_0 Hv1 Hv2).
    + split; [cbn [length]; rewrite Lt; reflexivity|].
      intros k Hk [|x xs] Hx; try discriminate. injection Hx as Hx.
      specialize (St k Hk xs Hx). destruct (chain_blk_sound k v1 v2 Hk Hv1 Hv2) as [_ S].
      unfold bd_prod_sem in *. cbn [bd_apply].
      destruct (Z.eqb (Z.land (mode_of k) t_backwards) 0); (constructor; [intros i; apply S|exact St]).
Qed.

Lemma unity_apply m x : apply A leaf_apply (Scal (one A) None) m x = x.
Proof. apply isIdentity_apply. cbn [isIdentity]. apply (eqb_spec A L). reflexivity. Qed.

Lemma unity_blk_apply v m x : apply A leaf_apply (unity_blk A v) m x = blk_apply A leaf_apply v m x.
Proof. destruct v; [reflexivity|apply unity_apply]. Qed.

Lemma unity_blk_wf v : match v with Some a => wf A a | None => True end -> wf A (unity_blk A v).
Proof. destruct v; [auto|intros _; exact I]. Qed.

Lemma bd_sum_sound n1 n2 b1 : forall b2, length b1 = length b2 -> wfb b1 -> wfb b2 ->
  wfb (bd_sum A b1 b2 n1 n2) /\ length (bd_sum A b1 b2 n1 n2) = length b1 /\
  Forall (fun o => o <> None) (bd_sum A b1 b2 n1 n2) /\
  forall k, kadj k -> forall xs, length xs = length b1 ->
    mpeq (bd_apply A leaf_apply (bd_sum A b1 b2 n1 n2) (mode_of k) xs)
         (bd_sum_sem A leaf_apply b1 b2 n1 n2 (mode_of k) xs).
Proof.
  induction b1 as [|v1 t1 IH]; intros [|v2 t2] Hl W1 W2; try discriminate.
  - split; [constructor|]. split; [reflexivity|]. split; [constructor|].
    intros k Hk [|x xs] Hx; try discriminate. constructor.
  - inversion W1 as [|? ? Hv1 Ht1]; subst. inversion W2 as [|? ? Hv2 Ht2]; subst.
    injection Hl as Hl. destruct (IH t2 Hl Ht1 Ht2) as [Wt [Lt [Nt St]]].
    assert (Hw : Forall (fun p : op A * bool => wf A (fst p)) [(unity_blk A v1, n1); (unity_blk A v2, n2)]).
    { repeat constructor; cbn [fst]; apply unity_blk_wf; assumption. }
    destruct (mk_sum_sound_full A L leaf_apply leaf_ext leaf_homog leaf_null _ Hw) as [W S].
    cbn [bd_sum]. split; [constructor; [exact W|exact Wt]|].
    split; [cbn [length]; rewrite Lt; reflexivity|].
    split; [constructor; [discriminate|exact Nt]|].
    intros k Hk [|x xs] Hx; try discriminate. injection Hx as Hx.
    cbn [bd_apply bd_sum_sem]. constructor; [|apply St; assumption].
    intros i. unfold sum_blk. cbn [blk_apply]. rewrite (S k Hk x i). cbn [sum_sem].
    rewrite !unity_blk_apply. unfold sg, sgn. destruct n1, n2; ring.
Qed.

End BlkProofs.
