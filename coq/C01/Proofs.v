(* C01 -- lemmas. *)
From Coq Require Import ZArith List Bool Lia.
Import ListNotations.
Require Import NV.C01.Gen_Tables NV.C01.Model.
Open Scope Z_scope.

(* ---- finite table facts, by exhaustive computation ---- *)
Definition trs : list Z := [0;1;2;3].
Definition caps16 : list Z := [0;1;2;3;4;5;6;7;8;9;10;11;12;13;14;15].

Lemma in4_cases (P : Z -> Prop) : P 0 -> P 1 -> P 2 -> P 3 -> forall t, In t trs -> P t.
Proof. intros H0 H1 H2 H3 t [<-|[<-|[<-|[<-|[]]]]]; assumption. Qed.

Lemma tables_mode t k : In t trs -> In k trs ->
  modeTable t k = Z.shiftl 1 (Z.lxor k t) /\ ilog (Z.shiftl 1 k) = k /\ validMode (Z.shiftl 1 k) = true.
Proof.
  intros Ht Hk. revert t Ht. apply in4_cases; revert k Hk; apply in4_cases; vm_compute; auto.
Qed.

Lemma range16 c : 0 <= c < 16 -> In c caps16.
Proof. intros H. unfold caps16. simpl. lia. Qed.

Lemma tables_cap_b : forallb (fun t => forallb (fun c => forallb (fun b =>
    Bool.eqb (Z.testbit (capTable t c) b) (Z.testbit c (Z.lxor b t))) trs) caps16) trs = true.
Proof. vm_compute. reflexivity. Qed.

Lemma tables_cap t c b : In t trs -> 0 <= c < 16 -> In b trs ->
  Z.testbit (capTable t c) b = Z.testbit c (Z.lxor b t).
Proof.
  intros Ht Hc Hb. pose proof tables_cap_b as H.
  rewrite forallb_forall in H. specialize (H t Ht).
  rewrite forallb_forall in H. specialize (H c (range16 c Hc)).
  rewrite forallb_forall in H. specialize (H b Hb).
  apply Bool.eqb_prop in H. exact H.
Qed.

Lemma tables_addInverse_b : forallb (fun c =>
    Z.eqb (nth (Z.to_nat c) t_addInverse 0) (Z.lor c (capTable 2 c))) caps16 = true.
Proof. vm_compute. reflexivity. Qed.

Lemma tables_addInverse c : 0 <= c < 16 -> nth (Z.to_nat c) t_addInverse 0 = Z.lor c (capTable 2 c).
Proof.
  intros Hc. pose proof tables_addInverse_b as H. rewrite forallb_forall in H.
  specialize (H c (range16 c Hc)). apply Z.eqb_eq in H. exact H.
Qed.

Lemma tables_masks k : In k trs ->
    (negb (Z.eqb (Z.land (Z.shiftl 1 k) t_dom_mask) 0) = (Z.eqb k 0 || Z.eqb k 3)) /\
    (negb (Z.eqb (Z.land (Z.shiftl 1 k) t_tgt_mask) 0) = (Z.eqb k 1 || Z.eqb k 2)) /\
    t_backwards = t_tgt_mask /\ t_all_ops = 15.
Proof. revert k. apply in4_cases; vm_compute; auto. Qed.

(* ---- ranges ---- *)
Lemma land_range_b : forallb (fun a => forallb (fun b => existsb (Z.eqb (Z.land a b)) caps16) caps16) caps16 = true.
Proof. vm_compute. reflexivity. Qed.

Lemma in16_range c : In c caps16 -> 0 <= c < 16.
Proof. unfold caps16. simpl. intros H. repeat (destruct H as [<-|H]; [lia|]). contradiction. Qed.

Lemma land_range a b : 0 <= a < 16 -> 0 <= b < 16 -> 0 <= Z.land a b < 16.
Proof.
  intros Ha Hb. pose proof land_range_b as H. rewrite forallb_forall in H.
  specialize (H a (range16 a Ha)). rewrite forallb_forall in H. specialize (H b (range16 b Hb)).
  apply existsb_exists in H as [c [Hc E]]. apply Z.eqb_eq in E. rewrite E. apply in16_range. exact Hc.
Qed.

Lemma capTable_range_b : forallb (fun t => forallb (fun c => existsb (Z.eqb (capTable t c)) caps16) caps16) trs = true.
Proof. vm_compute. reflexivity. Qed.

Lemma capTable_range t c : In t trs -> 0 <= c < 16 -> 0 <= capTable t c < 16.
Proof.
  intros Ht Hc. pose proof capTable_range_b as H. rewrite forallb_forall in H.
  specialize (H t Ht). rewrite forallb_forall in H. specialize (H c (range16 c Hc)).
  apply existsb_exists in H as [c' [Hc' E]]. apply Z.eqb_eq in E. rewrite E. apply in16_range. exact Hc'.
Qed.

Lemma testbit_all_ops k : In k trs -> Z.testbit t_all_ops k = true.
Proof. revert k. apply in4_cases; reflexivity. Qed.

Lemma testbit_fwd_adj k : In k trs ->
  Z.testbit (Z.lor t_TIMES t_ADJOINT_TIMES) k = (Z.eqb k 0 || Z.eqb k 1)%bool.
Proof. revert k. apply in4_cases; reflexivity. Qed.
