(* C01 -- soundness of the construction-time simplifications (lemmas). *)
From Coq Require Import ZArith List Bool Ring Field_theory Lia.
Import ListNotations.
Require Import NV.C01.Gen_Tables NV.C01.Model NV.C01.Laws NV.C01.Proofs.

Section Alg.
Variable A : arith.
Variable L : laws A.
Notation T := (T A).
Notation "0" := (zero A).
Notation "1" := (one A).
Infix "+" := (add A).
Infix "*" := (mul A).
Infix "-" := (sub A).
Notation "- x" := (neg A x).
Notation inv := (inv A).
Notation cj := (conj A).
Notation vec := (vec A).
Notation op := (op A).

Lemma Rth : ring_theory 0 1 (add A) (mul A) (sub A) (neg A) eq.
Proof. exact (F_R (Fth A L)). Qed.
Add Ring TR : Rth.

Lemma div_def a b : div A a b = a * inv b.
Proof. exact (Fdiv_def (Fth A L) a b). Qed.

Lemma one_mul a : 1 * a = a.
Proof. ring. Qed.

Lemma inv_one : inv 1 = 1.
Proof.
  transitivity (inv 1 * 1); [ring|]. apply (Finv_l (Fth A L)). apply (F_1_neq_0 (Fth A L)).
Qed.

Variable leaf_apply : nat -> Z -> vec -> vec.
Hypothesis leaf_ext : forall l m (x y : vec), (forall i, x i = y i) -> forall i, leaf_apply l m x i = leaf_apply l m y i.
Hypothesis leaf_homog : forall l m (x : vec) c i, leaf_apply l m (fun j => x j * c) i = leaf_apply l m x i * c.
(* the reserved leaf is NullOperator: the zero map *)
Hypothesis leaf_null : forall m (x : vec) i, leaf_apply null_id m x i = 0.
Notation apply := (apply A leaf_apply).

(* ---- modes ---- *)
Definition mode_of (k : Z) : Z := Z.shiftl 1 k.
Definition kvalid (k : Z) : Prop := In k [0;1;2;3]%Z.

Lemma ilog_mode k : kvalid k -> ilog (mode_of k) = k.
Proof. intros H. exact (proj1 (proj2 (tables_mode 0 k (or_introl eq_refl) H))). Qed.

Lemma modeTable_xor t k : kvalid t -> kvalid k -> modeTable t k = mode_of (Z.lxor k t).
Proof. intros Ht Hk. exact (proj1 (tables_mode t k Ht Hk)). Qed.

Lemma kvalid_xor a b : kvalid a -> kvalid b -> kvalid (Z.lxor a b).
Proof.
  unfold kvalid. intros Ha Hb. simpl in *.
  destruct Ha as [<-|[<-|[<-|[<-|[]]]]]; destruct Hb as [<-|[<-|[<-|[<-|[]]]]]; vm_compute; tauto.
Qed.

(* scalar factor of ScalingOperator(c) in mode index k *)
Definition scal_fct (c : T) (k : Z) : T :=
  if Z.eqb k 0 then c else if Z.eqb k 1 then cj c else if Z.eqb k 2 then inv c else inv (cj c).

Lemma eqb_true a b : eqb A a b = true -> a = b.
Proof. apply (eqb_spec A L). Qed.

Lemma apply_scal_fct c k (x : vec) i : kvalid k ->
  apply_scal A c (mode_of k) x i = x i * scal_fct c k.
Proof.
  intros Hk. unfold apply_scal.
  destruct (eqb A c 1) eqn:E1.
  { apply eqb_true in E1. subst c. unfold scal_fct.
    destruct Hk as [<-|[<-|[<-|[<-|[]]]]]; cbn;
      rewrite ?(conj_one A L); try ring.
    - rewrite inv_one. ring.
    - rewrite inv_one. ring. }
  destruct (eqb A c 0) eqn:E0.
  { apply eqb_true in E0. subst c. unfold scal_fct, vzero.
    destruct Hk as [<-|[<-|[<-|[<-|[]]]]]; cbn;
      rewrite ?(conj_zero A L), ?(inv_zero A L); ring. }
  unfold scal_fct.
  destruct Hk as [<-|[<-|[<-|[<-|[]]]]]; cbn;
    rewrite ?div_def; ring.
Qed.

(* ---- diagonal: semantics via the "actual" diagonal ---- *)
Definition diag_fct (a : T) (k : Z) : T := scal_fct a k.

Lemma apply_diag_nf (d : vec) tr k (x : vec) i : kvalid tr -> kvalid k ->
  apply_diag A d tr (mode_of k) x i = x i * scal_fct (actual_diag A d tr i) k.
Proof.
  intros Ht Hk. unfold apply_diag. rewrite (ilog_mode k Hk). unfold actual_diag, scal_fct.
  destruct Ht as [<-|[<-|[<-|[<-|[]]]]]; destruct Hk as [<-|[<-|[<-|[<-|[]]]]];
    cbn;
    rewrite ?div_def, ?one_mul;
    rewrite ?(conj_inv A L), ?(conj_invol A L), ?(inv_inv A L); try ring.
Qed.

(* ---- induction over operators (nested lists) ---- *)
Section OpInd.
Variable P : op -> Prop.
Hypothesis HScal : forall c dt, P (Scal c dt).
Hypothesis HDiag : forall d tr dt, P (Diag d tr dt).
Hypothesis HLeaf : forall l cp, P (Leaf l cp).
Hypothesis HSum : forall l, Forall (fun p => P (fst p)) l -> P (Sum l).
Hypothesis HChain : forall l, Forall P l -> P (Chain l).
Hypothesis HAdapter : forall o t, P o -> P (Adapter o t).
Hypothesis HSandw : forall b c i, P b -> P c -> P i -> P (Sandw b c i).
Fixpoint op_ind' (o : op) : P o :=
  match o with
  | Scal c dt => HScal c dt
  | Diag d tr dt => HDiag d tr dt
  | Leaf l cp => HLeaf l cp
  | Sum l => HSum l ((fix go (l : list (op * bool)) : Forall (fun p => P (fst p)) l :=
                        match l with
                        | [] => Forall_nil _
                        | p :: t => Forall_cons p (op_ind' (fst p)) (go t)
                        end) l)
  | Chain l => HChain l ((fix go (l : list op) : Forall P l :=
                            match l with [] => Forall_nil _ | a :: t => Forall_cons a (op_ind' a) (go t) end) l)
  | Adapter o t => HAdapter o t (op_ind' o)
  | Sandw b c i => HSandw b c i (op_ind' b) (op_ind' c) (op_ind' i)
  end.
End OpInd.

(* ---- readable forms of apply on sums and chains ---- *)
Definition sg (ng : bool) (v : T) : T := if ng then - v else v.

Fixpoint sum_sem (l : list (op * bool)) (m : Z) (x : vec) (i : nat) : T :=
  match l with
  | [] => 0
  | (a, ng) :: t => sg ng (apply a m x i) + sum_sem t m x i
  end.

Lemma apply_Sum l m x i : apply (Sum l) m x i = sum_sem l m x i.
Proof.
  destruct l as [|[a ng] t]; [reflexivity|].
  cbn [Model.apply sum_sem].
  assert (G : forall (l : list (op * bool)) (res : vec),
             (fix go (l0 : list (op * bool)) (res0 : vec) {struct l0} : vec :=
                match l0 with
                | [] => res0
                | (b, nb) :: t' => go t' (if nb then vsub A res0 (apply b m x) else vadd A res0 (apply b m x))
                end) l res i = res i + sum_sem l m x i).
  { induction l as [|[b nb] l IH]; intros res; cbn [sum_sem].
    - ring.
    - rewrite IH. destruct nb; unfold vsub, vadd, sg; ring. }
  rewrite G. destruct ng; unfold vneg, sg; ring.
Qed.

(* forward composition a1 (a2 (... x)) and backward composition ... a2 (a1 x) *)
Fixpoint comp_fwd (l : list op) (m : Z) (x : vec) : vec :=
  match l with [] => x | a :: t => apply a m (comp_fwd t m x) end.
Fixpoint comp_bwd (l : list op) (m : Z) (x : vec) : vec :=
  match l with [] => x | a :: t => comp_bwd t m (apply a m x) end.

Definition backwards (m : Z) : bool := negb (Z.eqb (Z.land m t_backwards) 0).

Lemma apply_Chain l m x :
  apply (Chain l) m x = if backwards m then comp_bwd l m x else comp_fwd l m x.
Proof.
  unfold backwards. cbn [Model.apply]. destruct (Z.eqb (Z.land m t_backwards) 0); cbn [negb].
  - induction l as [|a t IH]; [reflexivity|]. cbn [comp_fwd]. rewrite <- IH. reflexivity.
  - revert x. induction l as [|a t IH]; intros x; [reflexivity|]. cbn [comp_bwd]. rewrite <- IH. reflexivity.
Qed.

(* ---- extensionality and homogeneity of apply, for every operator ---- *)
Definition ext_op (o : op) : Prop :=
  forall m (x y : vec), (forall i, x i = y i) -> forall i, apply o m x i = apply o m y i.

Lemma comp_fwd_ext l m : Forall ext_op l -> forall x y, (forall i, x i = y i) ->
  forall i, comp_fwd l m x i = comp_fwd l m y i.
Proof.
  induction 1 as [|a t Ha Ht IH]; intros x y H i; cbn [comp_fwd]; [apply H|].
  apply Ha. intros j. apply IH. exact H.
Qed.
Lemma comp_bwd_ext l m : Forall ext_op l -> forall x y, (forall i, x i = y i) ->
  forall i, comp_bwd l m x i = comp_bwd l m y i.
Proof.
  induction 1 as [|a t Ha Ht IH]; intros x y H i; cbn [comp_bwd]; [apply H|].
  apply IH. intros j. apply Ha. exact H.
Qed.

Lemma apply_ext : forall o, ext_op o.
Proof.
  apply op_ind'; unfold ext_op.
  - intros c dt m x y H i. cbn [Model.apply]. unfold apply_scal.
    destruct (eqb A c 1); [apply H|]. destruct (eqb A c 0); [reflexivity|]. cbn beta. rewrite H. reflexivity.
  - intros d tr dt m x y H i. cbn [Model.apply]. unfold apply_diag.
    repeat match goal with |- context [if ?b then _ else _] => destruct b end; rewrite H; reflexivity.
  - intros l cp m x y H i. cbn [Model.apply]. apply leaf_ext. exact H.
  - intros l Hl m x y H i. rewrite !apply_Sum.
    induction Hl as [|[a ng] t Ha Ht IH]; [reflexivity|]. cbn [sum_sem]. rewrite IH.
    cbn [fst] in Ha. rewrite (Ha m x y H i). reflexivity.
  - intros l Hl m x y H i. rewrite !apply_Chain. destruct (backwards m).
    + apply comp_bwd_ext; assumption.
    + apply comp_fwd_ext; assumption.
  - intros o t IH m x y H i. cbn [Model.apply]. apply IH. exact H.
  - intros b c0 i0 _ _ IH m x y H i. cbn [Model.apply]. apply IH. exact H.
Qed.

Definition vscale (x : vec) (c : T) : vec := fun j => x j * c.

Definition homog_op (o : op) : Prop :=
  forall m (x : vec) c i, apply o m (vscale x c) i = apply o m x i * c.

Lemma apply_homog : forall o, homog_op o.
Proof.
  apply op_ind'; unfold homog_op.
  - intros c dt m x c' i. cbn [Model.apply]. unfold apply_scal, vscale.
    destruct (eqb A c 1); [reflexivity|]. destruct (eqb A c 0); [unfold vzero; ring|]. cbn beta. ring.
  - intros d tr dt m x c' i. cbn [Model.apply]. unfold apply_diag, vscale.
    repeat match goal with |- context [if ?b then _ else _] => destruct b end; rewrite ?div_def; ring.
  - intros l cp m x c' i. cbn [Model.apply]. apply leaf_homog.
  - intros l Hl m x c' i. rewrite !apply_Sum.
    induction Hl as [|[a ng] t Ha Ht IH]; cbn [sum_sem]; [ring|]. rewrite IH.
    cbn [fst] in Ha. rewrite (Ha m x c' i). destruct ng; unfold sg; ring.
  - intros l Hl m x c' i. rewrite !apply_Chain. destruct (backwards m).
    + revert x. induction Hl as [|a t Ha Ht IH]; intros x; cbn [comp_bwd]; [reflexivity|].
      rewrite <- IH. apply comp_bwd_ext; [apply Forall_forall; intros; apply apply_ext|].
      intros j. apply Ha.
    + revert i. induction Hl as [|a t Ha Ht IH]; intros i; cbn [comp_fwd]; [reflexivity|].
      rewrite <- Ha. apply apply_ext. intros j. apply IH.
  - intros o t IH m x c' i. cbn [Model.apply]. apply IH.
  - intros b c0 i0 _ _ IH m x c' i. cbn [Model.apply]. apply IH.
Qed.

(* ---- well-formed operators: every stored transform is one of 0..3 ---- *)
Fixpoint wf (o : op) : Prop :=
  match o with
  | Scal _ _ => True
  | Diag _ tr _ => kvalid tr
  | Leaf _ cp => (0 <= cp < 16)%Z
  | Sum l => (fix go (l : list (op * bool)) : Prop := match l with [] => True | p :: t => wf (fst p) /\ go t end) l
  | Chain l => (fix go (l : list op) : Prop := match l with [] => True | a :: t => wf a /\ go t end) l
  | Adapter o t => wf o /\ kvalid t
  | Sandw b c i => wf b /\ wf c /\ wf i
  end.

Lemma wf_Sum l : wf (Sum l) <-> Forall (fun p => wf (fst p)) l.
Proof.
  cbn [wf]. induction l as [|p t IH].
  - split; intros; [constructor|exact I].
  - split.
    + intros [H1 H2]. constructor; [exact H1|]. apply IH. exact H2.
    + intros H. inversion H; subst. split; [assumption|]. apply IH. assumption.
Qed.
Lemma wf_Chain l : wf (Chain l) <-> Forall wf l.
Proof.
  cbn [wf]. induction l as [|p t IH].
  - split; intros; [constructor|exact I].
  - split.
    + intros [H1 H2]. constructor; [exact H1|]. apply IH. exact H2.
    + intros H. inversion H; subst. split; [assumption|]. apply IH. assumption.
Qed.

(* ---- chains ---- *)
Definition comp (l : list op) (k : Z) (x : vec) : vec :=
  if backwards (mode_of k) then comp_bwd l (mode_of k) x else comp_fwd l (mode_of k) x.

Definition peq (x y : vec) : Prop := forall i, x i = y i.

Lemma comp_fwd_app l1 l2 m x : comp_fwd (l1 ++ l2) m x = comp_fwd l1 m (comp_fwd l2 m x).
Proof. induction l1 as [|a t IH]; cbn [app comp_fwd]; [reflexivity|]. rewrite IH. reflexivity. Qed.
Lemma comp_bwd_app l1 l2 m x : comp_bwd (l1 ++ l2) m x = comp_bwd l2 m (comp_bwd l1 m x).
Proof. revert x; induction l1 as [|a t IH]; intros x; cbn [app comp_bwd]; [reflexivity|]. apply IH. Qed.

Lemma all_ext l : Forall ext_op l.
Proof. apply Forall_forall. intros; apply apply_ext. Qed.

Lemma comp_ext l k x y : peq x y -> peq (comp l k x) (comp l k y).
Proof.
  intros H i. unfold comp. destruct (backwards (mode_of k)).
  - apply comp_bwd_ext; [apply all_ext|exact H].
  - apply comp_fwd_ext; [apply all_ext|exact H].
Qed.

Lemma comp_app l1 l2 k x :
  peq (comp (l1 ++ l2) k x)
      (if backwards (mode_of k) then comp l2 k (comp l1 k x) else comp l1 k (comp l2 k x)).
Proof.
  intros i. unfold comp. destruct (backwards (mode_of k)).
  - rewrite comp_bwd_app. reflexivity.
  - rewrite comp_fwd_app. reflexivity.
Qed.

(* replacing a middle segment by an equivalent one *)
Lemma comp_congr l1 a b l2 k :
  (forall x, peq (comp a k x) (comp b k x)) ->
  forall x, peq (comp (l1 ++ a ++ l2) k x) (comp (l1 ++ b ++ l2) k x).
Proof.
  intros H x i. unfold comp in *. destruct (backwards (mode_of k)).
  - rewrite !comp_bwd_app. apply comp_bwd_ext; [apply all_ext|]. intros j. apply H.
  - rewrite !comp_fwd_app. apply comp_fwd_ext; [apply all_ext|]. intros j.
    rewrite (H (comp_fwd l2 (mode_of k) x) j). reflexivity.
Qed.

Lemma comp_homog l k x c i : comp l k (vscale x c) i = comp l k x i * c.
Proof.
  pose proof (apply_homog (Chain l) (mode_of k) x c i) as H. rewrite !apply_Chain in H.
  unfold comp. destruct (backwards (mode_of k)); exact H.
Qed.

Lemma comp_single a k x : comp [a] k x = apply a (mode_of k) x.
Proof. unfold comp. destruct (backwards (mode_of k)); reflexivity. Qed.

Lemma comp_cons a l k x :
  peq (comp (a :: l) k x)
      (if backwards (mode_of k) then comp l k (apply a (mode_of k) x) else apply a (mode_of k) (comp l k x)).
Proof. intros i. unfold comp. destruct (backwards (mode_of k)); reflexivity. Qed.

Lemma apply_Chain_comp l k x : apply (Chain l) (mode_of k) x = comp l k x.
Proof. rewrite apply_Chain. reflexivity. Qed.

(* unpack *)
Lemma unpack_chain_sound l k x : peq (comp (unpack_chain A l) k x) (comp l k x).
Proof.
  revert x. induction l as [|a t IH]; intros x i; [reflexivity|].
  change (unpack_chain A (a :: t)) with ((match a with Chain l' => l' | _ => [a] end) ++ unpack_chain A t).
  rewrite (comp_app _ _ k x i), (comp_cons a t k x i).
  assert (E : forall y, peq (comp (match a with Chain l' => l' | _ => [a] end) k y) (apply a (mode_of k) y)).
  { intros y j. destruct a; try (rewrite comp_single; reflexivity). rewrite apply_Chain_comp. reflexivity. }
  destruct (backwards (mode_of k)).
  - rewrite IH. apply comp_ext. apply E.
  - rewrite E. apply apply_ext. apply IH.
Qed.

(* real factors *)
Definition rfct (c : T) (k : Z) : T := if Z.eqb k 0 || Z.eqb k 1 then c else inv c.

Lemma scal_fct_real c k : kvalid k -> cj c = c -> scal_fct c k = rfct c k.
Proof.
  intros Hk Hc. unfold scal_fct, rfct. destruct Hk as [<-|[<-|[<-|[<-|[]]]]]; cbn; rewrite ?Hc; reflexivity.
Qed.
Lemma rfct_mul a b k : rfct (a * b) k = rfct a k * rfct b k.
Proof. unfold rfct. destruct (Z.eqb k 0 || Z.eqb k 1); [reflexivity|apply (inv_mul A L)]. Qed.
Lemma rfct_one k : rfct 1 k = 1.
Proof. unfold rfct. destruct (Z.eqb k 0 || Z.eqb k 1); [reflexivity|apply inv_one]. Qed.

Lemma scal_fct_mul a b k : kvalid k -> scal_fct (a * b) k = scal_fct a k * scal_fct b k.
Proof.
  intros Hk. unfold scal_fct. destruct Hk as [<-|[<-|[<-|[<-|[]]]]]; cbn;
    rewrite ?(conj_mul A L), ?(inv_mul A L); reflexivity.
Qed.

Lemma apply_Scal c dt k x i : kvalid k -> apply (Scal c dt) (mode_of k) x i = x i * scal_fct c k.
Proof. intros Hk. cbn [Model.apply]. apply apply_scal_fct. exact Hk. Qed.

Lemma apply_Diag d tr dt k x i : kvalid tr -> kvalid k ->
  apply (Diag d tr dt) (mode_of k) x i = x i * scal_fct (actual_diag A d tr i) k.
Proof. intros. cbn [Model.apply]. apply apply_diag_nf; assumption. Qed.

(* pulling a pointwise factor through a composition *)
Lemma comp_cons_scaled a l k x (f : T) (y : vec) :
  (forall z, peq (apply a (mode_of k) z) (vscale z f) ) ->
  peq (comp (a :: l) k x) (vscale (comp l k x) f).
Proof.
  intros H i. rewrite (comp_cons a l k x i). destruct (backwards (mode_of k)).
  - transitivity (comp l k (vscale x f) i).
    + apply comp_ext. apply H.
    + apply comp_homog.
  - apply H.
Qed.

Lemma collect_chain_scal_sound k : kvalid k -> forall l fct0 fct r,
  cj fct0 = fct0 ->
  collect_chain_scal A l fct0 = (fct, r) ->
  cj fct = fct /\ forall x i, comp l k x i * rfct fct0 k = comp r k x i * rfct fct k.
Proof.
  intros Hk. induction l as [|a t IH]; intros fct0 fct r Hc E.
  - cbn in E. inversion E; subst. split; [assumption|]. intros; reflexivity.
  - destruct a as [c dt|d tr dt|lf cp|sl|cl|o tr|sb sc si];
      cbn [collect_chain_scal] in E.
    1: { destruct (is_real A c) eqn:R.
         - destruct (real_spec A L c R) as [Rre Rcj]. rewrite Rre in E.
           assert (Hc' : cj (fct0 * c) = fct0 * c) by (rewrite (conj_mul A L), Hc, Rcj; reflexivity).
           destruct (IH _ _ _ Hc' E) as [H1 H2]. split; [assumption|]. intros x i.
           rewrite <- H2. rewrite rfct_mul.
           rewrite (comp_cons_scaled (Scal c dt) t k x (scal_fct c k) x).
           + unfold vscale. rewrite (scal_fct_real c k Hk Rcj). ring.
           + intros z j. apply apply_Scal. exact Hk.
         - destruct (collect_chain_scal A t fct0) as [f r'] eqn:E'. inversion E; subst.
           destruct (IH _ _ _ Hc E') as [H1 H2]. split; [assumption|]. intros x i.
           rewrite (comp_cons (Scal c dt) t k x i), (comp_cons (Scal c dt) r' k x i).
           destruct (backwards (mode_of k)).
           + apply H2.
           + rewrite !apply_Scal by exact Hk.
             transitivity ((comp t k x i * rfct fct0 k) * scal_fct c k); [ring|]. rewrite H2. ring. }
    all: destruct (collect_chain_scal A t fct0) as [f r'] eqn:E'; inversion E; subst;
         destruct (IH _ _ _ Hc E') as [H1 H2]; (split; [assumption|]); intros x i;
         match goal with |- comp (?a :: _) _ _ _ * _ = _ =>
           rewrite (comp_cons a t k x i), (comp_cons a r' k x i);
           destruct (backwards (mode_of k)); [apply H2|];
           rewrite <- !(apply_homog a); apply apply_ext; intros j; apply H2 end.
Qed.

Lemma actual_diag_0 (d : vec) : actual_diag A d 0 = d.
Proof. reflexivity. Qed.

Lemma kvalid_0 : kvalid 0%Z.
Proof. left; reflexivity. Qed.

Lemma absorb_scale_sound k : kvalid k -> forall l f r,
  Forall wf l -> cj f = f -> absorb_scale A l f = Some r ->
  Forall wf r /\ forall x i, comp r k x i = comp l k x i * rfct f k.
Proof.
  intros Hk. induction l as [|a t IH]; intros f r Hw Hf E; [discriminate|].
  inversion Hw as [|? ? Hwa Hwt]; subst.
  destruct a as [c dt|d tr dt|lf cp|sl|cl|o tr|sb sc si]; cbn [absorb_scale] in E.
  2: { inversion E; subst. split; [constructor; [exact kvalid_0|assumption]|]. intros x i.
       cbn [wf] in Hwa.
       rewrite (comp_cons _ t k x i), (comp_cons (Diag d tr dt) t k x i).
       destruct (backwards (mode_of k)).
       - rewrite <- comp_homog. apply comp_ext. intros j. unfold vscale.
         rewrite !apply_Diag by (assumption || exact kvalid_0). rewrite actual_diag_0.
         rewrite (scal_fct_mul _ _ k Hk), (scal_fct_real f k Hk Hf). ring.
       - rewrite !apply_Diag by (assumption || exact kvalid_0). rewrite actual_diag_0.
         rewrite (scal_fct_mul _ _ k Hk), (scal_fct_real f k Hk Hf). ring. }
  all: destruct (absorb_scale A t f) as [r'|] eqn:E'; [|discriminate]; inversion E; subst;
       destruct (IH f r' Hwt Hf E') as [H1 H2]; (split; [constructor; assumption|]); intros x i;
       match goal with |- comp (?a :: _) _ _ _ = _ =>
         rewrite (comp_cons a r' k x i), (comp_cons a t k x i);
         destruct (backwards (mode_of k)); [apply H2|];
         rewrite <- (apply_homog a); apply apply_ext; intros j; apply H2 end.
Qed.

Lemma append_scal_sound k l f dt x i : kvalid k ->
  comp (l ++ [Scal f dt]) k x i = comp l k x i * scal_fct f k.
Proof.
  intros Hk. rewrite (comp_app l [Scal f dt] k x i). destruct (backwards (mode_of k)).
  - rewrite comp_single. apply apply_Scal. exact Hk.
  - rewrite <- comp_homog. apply comp_ext. intros j. rewrite comp_single. apply apply_Scal. exact Hk.
Qed.

Lemma diag_pair k d1 t1 dt1 d2 t2 dt2 dt : kvalid k -> kvalid t1 -> kvalid t2 -> forall x,
  peq (comp [Diag d1 t1 dt1; Diag d2 t2 dt2] k x)
      (comp [Diag (fun i => actual_diag A d1 t1 i * actual_diag A d2 t2 i) 0 dt] k x).
Proof.
  intros Hk H1 H2 x i. rewrite comp_single, apply_Diag by (assumption || exact kvalid_0).
  rewrite actual_diag_0, (scal_fct_mul _ _ k Hk).
  rewrite (comp_cons _ _ k x i). destruct (backwards (mode_of k)); rewrite comp_single;
    rewrite !apply_Diag by assumption; ring.
Qed.

Lemma combine_prod_sound k : kvalid k -> forall ops acc,
  Forall wf ops -> Forall wf acc ->
  Forall wf (combine_prod A ops acc) /\
  forall x, peq (comp (combine_prod A ops acc) k x) (comp (rev acc ++ ops) k x).
Proof.
  intros Hk. induction ops as [|o t IH]; intros acc Hwo Hwa.
  - cbn [combine_prod]. rewrite app_nil_r. split; [apply Forall_rev; assumption|intros x i; reflexivity].
  - inversion Hwo as [|? ? Hw1 Hw2]; subst.
    assert (Gen : Forall wf (combine_prod A t (o :: acc)) /\
                  forall x, peq (comp (combine_prod A t (o :: acc)) k x) (comp (rev acc ++ o :: t) k x)).
    { destruct (IH (o :: acc) Hw2 (Forall_cons _ Hw1 Hwa)) as [G1 G2]. split; [assumption|].
      intros x i. rewrite G2. cbn [rev]. rewrite <- app_assoc. reflexivity. }
    destruct o as [c dt|d2 t2 dt2|lf cp|sl|cl|o' tr|sb sc si]; cbn [combine_prod]; try exact Gen.
    destruct acc as [|[c dt|d1 t1 dt1|lf cp|sl|cl|o' tr|sb sc si] acc']; try exact Gen.
    inversion Hwa as [|? ? Hwd1 Hwa']; subst. cbn [wf] in Hw1, Hwd1.
    destruct (IH (Diag (fun i => actual_diag A d1 t1 i * actual_diag A d2 t2 i) 0 (dt_merge dt1 dt2) :: acc') Hw2)
      as [G1 G2]; [constructor; [exact kvalid_0|assumption]|].
    split; [assumption|]. intros x i. rewrite G2. cbn [rev]. rewrite <- !app_assoc.
    symmetry. apply (comp_congr (rev acc') [Diag d1 t1 dt1; Diag d2 t2 dt2] _ t k).
    intros y. apply diag_pair; assumption.
Qed.

Lemma isIdentity_apply a m x : isIdentity A a = true -> apply a m x = x.
Proof.
  destruct a; cbn [isIdentity]; try discriminate. intros H. cbn [Model.apply]. unfold apply_scal. rewrite H. reflexivity.
Qed.

Lemma chain_nonull_sound k : kvalid k -> forall l, Forall wf l ->
  Forall wf (chain_nonull A l) /\ forall x, peq (comp (chain_nonull A l) k x) (comp l k x).
Proof.
  intros Hk l Hw. unfold chain_nonull.
  { cbv zeta.
    assert (Hw1 : Forall wf (unpack_chain A l)).
    { clear -Hw. induction Hw as [|a t Ha Ht IH]; [constructor|].
      change (unpack_chain A (a :: t)) with ((match a with Chain l' => l' | _ => [a] end) ++ unpack_chain A t).
      apply Forall_app. split; [|exact IH].
      destruct a; try (constructor; [assumption|constructor]). apply wf_Chain. exact Ha. }
    destruct (collect_chain_scal A (unpack_chain A l) 1) as [fct ops2] eqn:E1.
    destruct (collect_chain_scal_sound k Hk _ _ _ _ (conj_one A L) E1) as [Hreal H2].
    assert (Hw2 : Forall wf ops2).
    { clear -E1 Hw1. revert E1. generalize 1 as f0. revert fct ops2.
      induction Hw1 as [|a t Ha Ht IH]; intros fct ops2 f0 E; cbn [collect_chain_scal] in E.
      - inversion E; constructor.
      - destruct a; try (destruct (collect_chain_scal A t f0) as [f r] eqn:E'; inversion E; subst;
                         constructor; [assumption|eapply IH; eassumption]).
        destruct (is_real A c).
        + eapply IH; eassumption.
        + destruct (collect_chain_scal A t f0) as [f r] eqn:E'; inversion E; subst.
          constructor; [assumption|eapply IH; eassumption]. }
    (* after absorption: comp ops3 * rfct fct' = comp ops2 * rfct fct, fct' real *)
    assert (Abs : exists fct' ops3,
      (if negb (eqb A fct 1)
       then match absorb_scale A ops2 fct with Some r => (1, r) | None => (fct, ops2) end
       else (fct, ops2)) = (fct', ops3) /\ Forall wf ops3 /\ cj fct' = fct' /\
      forall x i, comp ops3 k x i * rfct fct' k = comp ops2 k x i * rfct fct k).
    { destruct (negb (eqb A fct 1)).
      - destruct (absorb_scale A ops2 fct) as [r|] eqn:E2.
        + destruct (absorb_scale_sound k Hk _ _ _ Hw2 Hreal E2) as [W S].
          exists 1, r. repeat split; [assumption|apply (conj_one A L)|]. intros x i. rewrite S, rfct_one. ring.
        + exists fct, ops2. repeat split; assumption.
      - exists fct, ops2. repeat split; assumption. }
    destruct Abs as [fct' [ops3 [E3 [Hw3 [Hreal' H3]]]]]. rewrite E3.
    assert (H4 : forall x i, comp ops3 k x i * rfct fct' k = comp l k x i).
    { intros x i. rewrite H3, <- H2, rfct_one. rewrite unpack_chain_sound. ring. }
    set (ops4 := if negb (eqb A fct' 1) || match ops3 with [] => true | _ :: _ => false end
                 then ops3 ++ [Scal fct' None] else ops3).
    assert (H5 : Forall wf ops4 /\ forall x i, comp ops4 k x i = comp l k x i).
    { unfold ops4. destruct (eqb A fct' 1) eqn:Ef; cbn [negb orb].
      - apply eqb_true in Ef. subst fct'.
        assert (forall x i, comp ops3 k x i = comp l k x i) as H4'.
        { intros x i. rewrite <- H4, rfct_one. ring. }
        destruct ops3 as [|o3 t3].
        + split; [repeat constructor|]. intros x i. rewrite append_scal_sound by exact Hk.
          rewrite <- (scal_fct_real 1 k Hk (conj_one A L)) in H4. apply H4.
        + split; assumption.
      - split; [apply Forall_app; split; [assumption|repeat constructor]|].
        intros x i. rewrite append_scal_sound by exact Hk.
        rewrite (scal_fct_real fct' k Hk Hreal'). apply H4. }
    destruct H5 as [Hw4 H5].
    destruct (combine_prod_sound k Hk ops4 [] Hw4 (Forall_nil _)) as [G1 G2].
    split; [assumption|]. intros x i. rewrite G2. cbn [rev app]. apply H5. }
Qed.

(* ---- NullOperator: a chain containing one is the zero map, in every mode ---- *)
Lemma apply_zero o m (x : vec) : (forall j, x j = 0) -> forall i, apply o m x i = 0.
Proof.
  intros Hx i. transitivity (apply o m (vscale x 0) i).
  - apply apply_ext. intros j. unfold vscale. rewrite Hx. ring.
  - rewrite (apply_homog o). ring.
Qed.

Lemma is_null_spec o : is_null A o = true -> o = null_op A.
Proof.
  destruct o; cbn [is_null]; try discriminate. intros H. apply andb_true_iff in H as [H1 H2].
  apply Nat.eqb_eq in H1. apply Z.eqb_eq in H2. subst. reflexivity.
Qed.

Lemma apply_null m x i : apply (null_op A) m x i = 0.
Proof. unfold null_op. cbn [Model.apply]. apply leaf_null. Qed.

Lemma wf_null : wf (null_op A).
Proof. unfold null_op. cbn [wf]. vm_compute. split; [discriminate|reflexivity]. Qed.

Lemma comp_fwd_null l m : existsb (is_null A) l = true -> forall x i, comp_fwd l m x i = 0.
Proof.
  induction l as [|a t IH]; cbn [existsb]; [discriminate|]. intros H x i. cbn [comp_fwd].
  destruct (is_null A a) eqn:Ea.
  - rewrite (is_null_spec a Ea). apply apply_null.
  - cbn [orb] in H. apply apply_zero. intros j. apply IH. exact H.
Qed.

Lemma comp_bwd_zero l m : forall x, (forall j, x j = 0) -> forall i, comp_bwd l m x i = 0.
Proof.
  induction l as [|a t IH]; intros x Hx i; cbn [comp_bwd]; [apply Hx|].
  apply IH. intros j. apply apply_zero. exact Hx.
Qed.

Lemma comp_bwd_null l m : existsb (is_null A) l = true -> forall x i, comp_bwd l m x i = 0.
Proof.
  induction l as [|a t IH]; cbn [existsb]; [discriminate|]. intros H x i. cbn [comp_bwd].
  destruct (is_null A a) eqn:Ea.
  - apply comp_bwd_zero. intros j. rewrite (is_null_spec a Ea). apply apply_null.
  - cbn [orb] in H. apply IH. exact H.
Qed.

Lemma comp_null l k : existsb (is_null A) l = true -> forall x i, comp l k x i = 0.
Proof.
  intros H x i. unfold comp. destruct (backwards (mode_of k)); [apply comp_bwd_null|apply comp_fwd_null]; exact H.
Qed.

Lemma chain_general_sound k : kvalid k -> forall l, Forall wf l ->
  Forall wf (chain_general A l) /\ forall x, peq (comp (chain_general A l) k x) (comp l k x).
Proof.
  intros Hk l Hw. unfold chain_general. destruct (existsb (is_null A) (unpack_chain A l)) eqn:E.
  - split; [constructor; [apply wf_null|constructor]|]. intros x i.
    rewrite comp_single, apply_null. symmetry. rewrite <- (unpack_chain_sound l k x i). apply comp_null. exact E.
  - apply chain_nonull_sound; assumption.
Qed.

Lemma chain_simplify_sound k : kvalid k -> forall l, Forall wf l ->
  Forall wf (chain_simplify A l) /\ forall x, peq (comp (chain_simplify A l) k x) (comp l k x).
Proof.
  intros Hk l Hw. pose proof (chain_general_sound k Hk l Hw) as General.
  destruct l as [|a [|b [|c t]]]; cbn [chain_simplify].
  - exact General.
  - split; [assumption|intros x i; reflexivity].
  - destruct (isIdentity A a) eqn:Ia.
    + inversion Hw as [|? ? Hwa Hwb]; subst. split; [assumption|]. intros x i.
      rewrite (comp_cons a [b] k x i). destruct (backwards (mode_of k)).
      * rewrite (isIdentity_apply a _ _ Ia). reflexivity.
      * rewrite (isIdentity_apply a _ _ Ia). reflexivity.
    + destruct (isIdentity A b) eqn:Ib.
      * inversion Hw as [|? ? Hwa Hwb]; subst. split; [repeat constructor; assumption|]. intros x i.
        rewrite (comp_cons a [b] k x i), !comp_single. rewrite !(isIdentity_apply b _ _ Ib).
        destruct (backwards (mode_of k)); reflexivity.
      * exact General.
  - exact General.
Qed.

Lemma mk_chain_sound k l : kvalid k -> Forall wf l ->
  wf (mk_chain A l) /\ forall x, peq (apply (mk_chain A l) (mode_of k) x) (comp l k x).
Proof.
  intros Hk Hw. destruct (chain_simplify_sound k Hk l Hw) as [W S]. unfold mk_chain.
  destruct (chain_simplify A l) as [|o [|o2 t]] eqn:E.
  - split; [exact I|]. intros x i. rewrite apply_Chain_comp. apply S.
  - inversion W; subst. split; [assumption|]. intros x i. rewrite <- S, comp_single. reflexivity.
  - split; [apply wf_Chain; assumption|]. intros x i. rewrite apply_Chain_comp. apply S.
Qed.

(* ---- matmul / scale / negate ---- *)
Lemma matmul_sound k a b : kvalid k -> wf a -> wf b ->
  wf (matmul A a b) /\ forall x, peq (apply (matmul A a b) (mode_of k) x) (comp [a; b] k x).
Proof.
  intros Hk Ha Hb. unfold matmul. destruct (isIdentity A b) eqn:Ib.
  - split; [assumption|]. intros x i. rewrite (comp_cons a [b] k x i), !comp_single.
    rewrite !(isIdentity_apply b _ _ Ib). destruct (backwards (mode_of k)); reflexivity.
  - apply mk_chain_sound; [assumption|repeat constructor; assumption].
Qed.

Lemma scale_sound k c o : kvalid k -> wf o ->
  wf (scale A c o) /\ forall x i, apply (scale A c o) (mode_of k) x i = apply o (mode_of k) x i * scal_fct c k.
Proof.
  intros Hk Ho. unfold scale. destruct (eqb A c 1) eqn:E.
  - apply eqb_true in E. subst c. split; [assumption|]. intros x i.
    pose proof (apply_scal_fct 1 k (apply o (mode_of k) x) i Hk) as H. unfold apply_scal in H.
    destruct (eqb A 1 1) eqn:E1.
    + exact H.
    + exfalso. assert (eqb A 1 1 = true) by (apply (eqb_spec A L); reflexivity). congruence.
  - destruct (matmul_sound k (Scal c None) o Hk I Ho) as [W S]. split; [assumption|]. intros x i.
    rewrite S, (comp_cons _ _ k x i), !comp_single. destruct (backwards (mode_of k)).
    + rewrite <- (apply_homog o). apply apply_ext. intros j. apply apply_Scal. exact Hk.
    + apply apply_Scal. exact Hk.
Qed.

Definition kadj (k : Z) : Prop := k = 0%Z \/ k = 1%Z.
Lemma kadj_valid k : kadj k -> kvalid k.
Proof. intros [->| ->]; [left|right; left]; reflexivity. Qed.

Lemma scal_fct_add a b k : kadj k -> scal_fct (a + b) k = scal_fct a k + scal_fct b k.
Proof. intros [->| ->]; unfold scal_fct; cbn; [reflexivity|apply (conj_add A L)]. Qed.
Lemma scal_fct_neg a k : kadj k -> scal_fct (- a) k = - scal_fct a k.
Proof. intros [->| ->]; unfold scal_fct; cbn; [reflexivity|apply (conj_neg A L)]. Qed.
Lemma scal_fct_sgn ng a k : kadj k -> scal_fct (sgn A ng a) k = sg ng (scal_fct a k).
Proof. intros Hk. destruct ng; cbn [sgn sg]; [apply scal_fct_neg; assumption|reflexivity]. Qed.
Lemma scal_fct_zero k : kadj k -> scal_fct 0 k = 0.
Proof. intros [->| ->]; unfold scal_fct; cbn; [reflexivity|apply (conj_zero A L)]. Qed.

Lemma negate_sound k o : kadj k -> wf o ->
  wf (negate A o) /\ forall x i, apply (negate A o) (mode_of k) x i = - apply o (mode_of k) x i.
Proof.
  intros Hk Ho. destruct (scale_sound k (neg A (one A)) o (kadj_valid k Hk) Ho) as [W S]. split; [exact W|].
  intros x i. unfold negate. rewrite S, (scal_fct_neg 1 k Hk).
  destruct Hk as [->| ->]; unfold scal_fct; cbn; rewrite ?(conj_one A L); ring.
Qed.

(* ---- sums ---- *)
Notation ssem l k x i := (sum_sem l (mode_of k) x i).

Lemma sum_sem_app l1 l2 m x i : sum_sem (l1 ++ l2) m x i = sum_sem l1 m x i + sum_sem l2 m x i.
Proof.
  induction l1 as [|[a ng] t IH]; cbn [app sum_sem]; [ring|]. rewrite IH. ring.
Qed.

Lemma sum_sem_sign l ng m x i :
  sum_sem (map (fun q => (fst q, xorb ng (snd q))) l) m x i = sg ng (sum_sem l m x i).
Proof.
  induction l as [|[a n] t IH]; cbn [map sum_sem fst snd].
  - destruct ng; cbn [sg]; ring.
  - rewrite IH. destruct ng, n; cbn [xorb sg]; ring.
Qed.

Lemma unpack_sum_sound l m x i : sum_sem (unpack_sum A l) m x i = sum_sem l m x i.
Proof.
  induction l as [|[a ng] t IH]; [reflexivity|].
  change (unpack_sum A ((a, ng) :: t)) with
    ((match a with Sum l' => map (fun q => (fst q, xorb ng (snd q))) l' | _ => [(a, ng)] end) ++ unpack_sum A t).
  rewrite sum_sem_app, IH. cbn [sum_sem]. f_equal.
  destruct a; try (cbn [sum_sem]; ring). rewrite sum_sem_sign, apply_Sum. reflexivity.
Qed.

Lemma unpack_sum_wf l : Forall (fun p => wf (fst p)) l -> Forall (fun p => wf (fst p)) (unpack_sum A l).
Proof.
  induction 1 as [|[a ng] t Ha Ht IH]; [constructor|].
  change (unpack_sum A ((a, ng) :: t)) with
    ((match a with Sum l' => map (fun q => (fst q, xorb ng (snd q))) l' | _ => [(a, ng)] end) ++ unpack_sum A t).
  apply Forall_app. split; [|exact IH]. cbn [fst] in Ha.
  destruct a; try (constructor; [exact Ha|constructor]).
  apply wf_Sum in Ha. apply Forall_forall. intros q Hq. apply in_map_iff in Hq as [q' [<- Hq']].
  cbn [fst]. rewrite Forall_forall in Ha. apply Ha. exact Hq'.
Qed.

Notation wfl := (Forall (fun p : op * bool => wf (fst p))).

Lemma collect_sum_scal_sound k : kadj k -> forall l s0 s dts r,
  wfl l -> collect_sum_scal A l s0 = (s, dts, r) ->
  wfl r /\ forall x i, ssem l k x i + x i * scal_fct s0 k = ssem r k x i + x i * scal_fct s k.
Proof.
  intros Hk. induction l as [|[a ng] t IH]; intros s0 s dts r Hw E.
  - cbn in E. inversion E; subst. split; [constructor|]. intros; reflexivity.
  - inversion Hw as [|? ? Hwa Hwt]; subst. cbn [fst] in Hwa.
    destruct a as [c dt|d tr dt|lf cp|sl|cl|o tr|sb sc si]; cbn [collect_sum_scal] in E.
    1: { destruct (collect_sum_scal A t (s0 + sgn A ng c)) as [[s' dts'] r'] eqn:E'. inversion E; subst.
         destruct (IH _ _ _ _ Hwt E') as [W S]. split; [assumption|]. intros x i. rewrite <- S.
         cbn [sum_sem]. rewrite apply_Scal by (apply kadj_valid; assumption).
         rewrite (scal_fct_add _ _ k Hk), (scal_fct_sgn ng c k Hk). destruct ng; cbn [sg]; ring. }
    all: destruct (collect_sum_scal A t s0) as [[s' dts'] r'] eqn:E'; inversion E; subst;
         destruct (IH _ _ _ _ Hwt E') as [W S]; (split; [constructor; assumption|]); intros x i;
         cbn [sum_sem]; rewrite <- (Radd_assoc Rth), S; ring.
Qed.

Lemma sg_sg ng v : sg ng (sg ng v) = v.
Proof. destruct ng; cbn [sg]; ring. Qed.

Lemma absorb_add_sound k : kadj k -> forall l s dtype r,
  wfl l -> absorb_add A l s dtype = Some r ->
  wfl r /\ forall x i, ssem r k x i = ssem l k x i + x i * scal_fct s k.
Proof.
  intros Hk. pose proof (kadj_valid k Hk) as Hv.
  induction l as [|[a ng] t IH]; intros s dtype r Hw E; [discriminate|].
  inversion Hw as [|? ? Hwa Hwt]; subst. cbn [fst] in Hwa.
  destruct a as [c dt|d tr dt|lf cp|sl|cl|o tr|sb sc si]; cbn [absorb_add] in E.
  2: { destruct (dtag_eqb dt dtype).
       - inversion E; subst. split; [constructor; [exact kvalid_0|assumption]|]. intros x i.
         cbn [sum_sem]. cbn [wf] in Hwa.
         rewrite !apply_Diag by (assumption || exact kvalid_0). rewrite actual_diag_0.
         rewrite (scal_fct_add _ _ k Hk), (scal_fct_sgn ng s k Hk).
         destruct ng; cbn [sg]; ring.
       - destruct (absorb_add A t s dtype) as [r'|] eqn:E'; [|discriminate]. inversion E; subst.
         destruct (IH _ _ _ Hwt E') as [W S]. split; [constructor; assumption|]. intros x i.
         cbn [sum_sem]. rewrite S. ring. }
  all: destruct (absorb_add A t s dtype) as [r'|] eqn:E'; [|discriminate]; inversion E; subst;
       destruct (IH _ _ _ Hwt E') as [W S]; (split; [constructor; assumption|]); intros x i;
       cbn [sum_sem]; rewrite S; ring.
Qed.

Lemma merge_diags_sound k : kadj k -> forall l d ng dt0 dtcur d' ng' dt' r dtx,
  wfl l -> merge_diags A d ng dt0 dtcur l = (d', ng', dt', r) ->
  wfl r /\ forall x i, ssem ((Diag d 0 dtx, ng) :: l) k x i = ssem ((Diag d' 0 dt', ng') :: r) k x i.
Proof.
  intros Hk. pose proof (kadj_valid k Hk) as Hv.
  induction l as [|[a n2] t IH]; intros d ng dt0 dtcur d' ng' dt' r dtx Hw E.
  - cbn in E. inversion E; subst. split; [constructor|]. intros x i. cbn [sum_sem].
    rewrite !apply_Diag by (assumption || exact kvalid_0). reflexivity.
  - inversion Hw as [|? ? Hwa Hwt]; subst. cbn [fst] in Hwa.
    destruct a as [c dt|d2 t2 dt2|lf cp|sl|cl|o tr|sb sc si]; cbn [merge_diags] in E.
    2: { destruct (dtag_eqb dt0 dt2).
         - destruct (IH _ _ _ _ _ _ _ _ dtx Hwt E) as [W S]. split; [assumption|]. intros x i.
           rewrite <- S. cbn [sum_sem]. cbn [wf] in Hwa.
           rewrite !apply_Diag by (assumption || exact kvalid_0). rewrite !actual_diag_0.
           rewrite (scal_fct_add _ _ k Hk), !(scal_fct_sgn _ _ k Hk).
           destruct ng, n2; cbn [sg]; ring.
         - destruct (merge_diags A d ng dt0 dtcur t) as [[[d1 n1] dt1] r1] eqn:E'. inversion E; subst.
           destruct (IH _ _ _ _ _ _ _ _ dtx Hwt E') as [W S]. split; [constructor; assumption|]. intros x i.
           specialize (S x i). cbn [sum_sem] in *.
           transitivity (sg n2 (apply (Diag d2 t2 dt2) (mode_of k) x i) +
                         (sg ng (apply (Diag d 0 dtx) (mode_of k) x i) + sum_sem t (mode_of k) x i)); [ring|].
           rewrite S. ring. }
    all: destruct (merge_diags A d ng dt0 dtcur t) as [[[d1 n1] dt1] r1] eqn:E'; inversion E; subst;
         destruct (IH _ _ _ _ _ _ _ _ dtx Hwt E') as [W S]; (split; [constructor; assumption|]); intros x i;
         specialize (S x i); cbn [sum_sem] in *;
         match goal with |- _ + (?u + _) = _ =>
           transitivity (u + (sg ng (apply (Diag d 0 dtx) (mode_of k) x i) + sum_sem t (mode_of k) x i)); [ring|] end;
         rewrite S; ring.
Qed.

Lemma combine_sum_sound k : kadj k -> forall fuel l,
  wfl l -> wfl (combine_sum A fuel l) /\ forall x i, ssem (combine_sum A fuel l) k x i = ssem l k x i.
Proof.
  intros Hk. pose proof (kadj_valid k Hk) as Hv.
  induction fuel as [|f IH]; intros l Hw; [split; [assumption|reflexivity]|].
  destruct l as [|[a ng] t]; cbn [combine_sum]; [split; [constructor|reflexivity]|].
  inversion Hw as [|? ? Hwa Hwt]; subst. cbn [fst] in Hwa.
  assert (Keep : wfl ((a, ng) :: combine_sum A f t) /\
                 forall x i, ssem ((a, ng) :: combine_sum A f t) k x i = ssem ((a, ng) :: t) k x i).
  { destruct (IH t Hwt) as [W S]. split; [constructor; assumption|]. intros x i. cbn [sum_sem]. rewrite S. reflexivity. }
  destruct a as [c dt|d tr dt|lf cp|sl|cl|o tr|sb sc si]; try exact Keep.
  destruct (existsb _ t); [|exact Keep].
  destruct (merge_diags A (actual_diag A d tr) ng dt dt t) as [[[d' ng'] dt'] r] eqn:E.
  destruct (merge_diags_sound k Hk t _ _ _ _ _ _ _ _ dt Hwt E) as [W S].
  destruct (IH r W) as [W2 S2]. split; [constructor; [exact kvalid_0|assumption]|]. intros x i.
  cbn [sum_sem]. rewrite S2. specialize (S x i). cbn [sum_sem] in S. rewrite <- S.
  cbn [wf] in Hwa. rewrite !apply_Diag by (assumption || exact kvalid_0). rewrite actual_diag_0. reflexivity.
Qed.

Lemma sum_simplify_sound k : kadj k -> forall l, wfl l ->
  wfl (sum_simplify A l) /\ forall x i, ssem (sum_simplify A l) k x i = ssem l k x i.
Proof.
  intros Hk l Hw. pose proof (kadj_valid k Hk) as Hv. unfold sum_simplify.
  pose proof (unpack_sum_wf l Hw) as Hw1.
  destruct (collect_sum_scal A (unpack_sum A l) 0) as [[s dts] l2] eqn:E1.
  destruct (collect_sum_scal_sound k Hk _ _ _ _ _ Hw1 E1) as [Hw2 S2].
  assert (Abs : exists s' l3,
    (if negb (eqb A s 0)
     then match absorb_add A l2 s (sum_dtype dts) with Some r => (0, r) | None => (s, l2) end
     else (s, l2)) = (s', l3) /\ wfl l3 /\
    forall x i, ssem l3 k x i + x i * scal_fct s' k = ssem l2 k x i + x i * scal_fct s k).
  { destruct (negb (eqb A s 0)).
    - destruct (absorb_add A l2 s (sum_dtype dts)) as [r|] eqn:E2.
      + destruct (absorb_add_sound k Hk _ _ _ _ Hw2 E2) as [W S]. exists 0, r. repeat split; [assumption|].
        intros x i. rewrite S, (scal_fct_zero k Hk). ring.
      + exists s, l2. repeat split; assumption.
    - exists s, l2. repeat split; assumption. }
  destruct Abs as [s' [l3 [E3 [Hw3 S3]]]]. rewrite E3.
  assert (S4 : forall x i, ssem l3 k x i + x i * scal_fct s' k = ssem l k x i).
  { intros x i. rewrite S3, <- S2, (scal_fct_zero k Hk), unpack_sum_sound. ring. }
  set (l4 := if negb (eqb A s' 0) || match l3 with [] => true | _ :: _ => false end
             then l3 ++ [(Scal s' (sum_dtype dts), false)] else l3).
  assert (H5 : wfl l4 /\ forall x i, ssem l4 k x i = ssem l k x i).
  { assert (App : wfl (l3 ++ [(Scal s' (sum_dtype dts), false)]) /\
                  forall x i, ssem (l3 ++ [(Scal s' (sum_dtype dts), false)]) k x i = ssem l k x i).
    { split; [apply Forall_app; split; [assumption|repeat constructor]|]. intros x i.
      rewrite sum_sem_app. cbn [sum_sem sg]. rewrite apply_Scal by exact Hv. rewrite <- S4. ring. }
    unfold l4. destruct (eqb A s' 0) eqn:Es; cbn [negb orb]; [|exact App].
    destruct l3 as [|p3 t3]; [exact App|]. split; [assumption|]. intros x i.
    apply eqb_true in Es. subst s'. rewrite <- S4, (scal_fct_zero k Hk). ring. }
  destruct H5 as [Hw4 H5]. destruct (combine_sum_sound k Hk (length l4) l4 Hw4) as [W S].
  split; [assumption|]. intros x i. rewrite S. apply H5.
Qed.

Lemma mk_sum_sound k l : kadj k -> wfl l ->
  wf (mk_sum A l) /\ forall x i, apply (mk_sum A l) (mode_of k) x i = ssem l k x i.
Proof.
  intros Hk Hw. destruct (sum_simplify_sound k Hk l Hw) as [W S]. unfold mk_sum.
  destruct (sum_simplify A l) as [|[o ng] [|p t]] eqn:E.
  - split; [exact I|]. intros x i. rewrite apply_Sum. apply S.
  - inversion W as [|? ? Wo _]; subst. cbn [fst] in Wo. destruct ng.
    + destruct (negate_sound k o Hk Wo) as [W2 S2]. split; [assumption|]. intros x i.
      rewrite S2, <- S. cbn [sum_sem sg]. ring.
    + split; [assumption|]. intros x i. rewrite <- S. cbn [sum_sem sg]. ring.
  - split; [apply wf_Sum; assumption|]. intros x i. rewrite apply_Sum. apply S.
Qed.

(* ---- capability, one boolean per mode index ---- *)
Definition kadjb (k : Z) : bool := Z.eqb k 0 || Z.eqb k 1.
Lemma kadjb_spec k : kadjb k = true <-> kadj k.
Proof.
  unfold kadjb, kadj. rewrite orb_true_iff, !Z.eqb_eq. tauto.
Qed.

Fixpoint capk (o : op) (k : Z) : bool :=
  match o with
  | Scal _ _ => true
  | Diag _ _ _ => true
  | Leaf _ cp => Z.testbit cp k
  | Sum l => kadjb k && (fix go (l : list (op * bool)) : bool :=
                           match l with [] => true | p :: t => capk (fst p) k && go t end) l
  | Chain l => (fix go (l : list op) : bool := match l with [] => true | a :: t => capk a k && go t end) l
  | Adapter o t => capk o (Z.lxor k t)
  | Sandw _ _ i => capk i k
  end.

Definition allcap (l : list op) (k : Z) : bool := forallb (fun a => capk a k) l.
Definition allcaps (l : list (op * bool)) (k : Z) : bool := forallb (fun p => capk (fst p) k) l.

Lemma capk_Chain l k : capk (Chain l) k = allcap l k.
Proof. cbn [capk]. unfold allcap. induction l as [|a t IH]; [reflexivity|]. cbn [forallb]. rewrite <- IH. reflexivity. Qed.
Lemma capk_Sum l k : capk (Sum l) k = kadjb k && allcaps l k.
Proof.
  cbn [capk]. unfold allcaps.
  assert (H : (fix go (l0 : list (op * bool)) : bool :=
                 match l0 with [] => true | p :: t => capk (fst p) k && go t end) l
              = forallb (fun p => capk (fst p) k) l).
  { induction l as [|a t IH]; [reflexivity|]. cbn [forallb]. rewrite <- IH. reflexivity. }
  rewrite H. reflexivity.
Qed.

Lemma allcap_app l1 l2 k : allcap (l1 ++ l2) k = allcap l1 k && allcap l2 k.
Proof. apply forallb_app. Qed.
Lemma allcaps_app l1 l2 k : allcaps (l1 ++ l2) k = allcaps l1 k && allcaps l2 k.
Proof. apply forallb_app. Qed.

(* chains: the capability of make(ops) in mode k is exactly the conjunction over ops *)
Lemma allcap_unpack l k : allcap (unpack_chain A l) k = allcap l k.
Proof.
  induction l as [|a t IH]; [reflexivity|].
  change (unpack_chain A (a :: t)) with ((match a with Chain l' => l' | _ => [a] end) ++ unpack_chain A t).
  rewrite allcap_app, IH. cbn [allcap forallb]. f_equal.
  destruct a; cbn [allcap forallb]; rewrite ?andb_true_r; try reflexivity.
  all: try (rewrite capk_Chain; reflexivity).
Qed.

Lemma allcap_collect l : forall f0 f r k, collect_chain_scal A l f0 = (f, r) -> allcap r k = allcap l k.
Proof.
  induction l as [|a t IH]; intros f0 f r k E; cbn [collect_chain_scal] in E.
  - inversion E; reflexivity.
  - destruct a; try (destruct (collect_chain_scal A t f0) as [f' r'] eqn:E'; inversion E; subst;
                     cbn [allcap forallb]; f_equal; eapply IH; eassumption).
    destruct (is_real A c).
    + cbn [allcap forallb capk]. rewrite andb_true_l. eapply IH; eassumption.
    + destruct (collect_chain_scal A t f0) as [f' r'] eqn:E'; inversion E; subst.
      cbn [allcap forallb]. f_equal. eapply IH; eassumption.
Qed.

Lemma allcap_absorb l : forall f r k, absorb_scale A l f = Some r -> allcap r k = allcap l k.
Proof.
  induction l as [|a t IH]; intros f r k E; [discriminate|]. cbn [absorb_scale] in E.
  destruct a; try (destruct (absorb_scale A t f) as [r'|] eqn:E'; [|discriminate]; inversion E; subst;
                   cbn [allcap forallb]; f_equal; eapply IH; eassumption).
  inversion E; subst. reflexivity.
Qed.

Lemma allcap_rev l k : allcap (rev l) k = allcap l k.
Proof.
  induction l as [|a t IH]; [reflexivity|]. cbn [rev]. rewrite allcap_app, IH. cbn [allcap forallb].
  rewrite andb_true_r. apply andb_comm.
Qed.

Lemma allcap_combine ops : forall acc k, allcap (combine_prod A ops acc) k = allcap acc k && allcap ops k.
Proof.
  induction ops as [|o t IH]; intros acc k.
  - cbn [combine_prod]. rewrite allcap_rev. cbn [allcap forallb]. rewrite andb_true_r. reflexivity.
  - assert (Gen : allcap (combine_prod A t (o :: acc)) k = allcap acc k && allcap (o :: t) k).
    { rewrite IH. cbn [allcap forallb]. rewrite !andb_assoc. f_equal. apply andb_comm. }
    destruct o; cbn [combine_prod]; try exact Gen.
    destruct acc as [|[] acc']; try exact Gen.
    rewrite IH. reflexivity.
Qed.

Lemma allcap_nonull l k : allcap (chain_nonull A l) k = allcap l k.
Proof.
  unfold chain_nonull.
  destruct (collect_chain_scal A (unpack_chain A l) 1) as [fct ops2] eqn:E1.
  pose proof (allcap_collect _ _ _ _ k E1) as H1. rewrite allcap_unpack in H1.
  assert (Abs : exists fct' ops3,
      (if negb (eqb A fct 1)
       then match absorb_scale A ops2 fct with Some r => (1, r) | None => (fct, ops2) end
       else (fct, ops2)) = (fct', ops3) /\ allcap ops3 k = allcap l k).
  { destruct (negb (eqb A fct 1)).
    - destruct (absorb_scale A ops2 fct) as [r|] eqn:E2.
      + exists 1, r. split; [reflexivity|]. rewrite (allcap_absorb _ _ _ k E2). exact H1.
      + exists fct, ops2. split; [reflexivity|exact H1].
    - exists fct, ops2. split; [reflexivity|exact H1]. }
  destruct Abs as [fct' [ops3 [E3 H3]]]. rewrite E3. rewrite allcap_combine. cbn [allcap forallb]. cbn [andb].
  fold (allcap ops3 k).
  destruct (negb (eqb A fct' 1) || match ops3 with [] => true | _ :: _ => false end).
  - fold (allcap (ops3 ++ [Scal fct' None]) k). rewrite allcap_app. cbn [allcap forallb capk]. rewrite andb_true_r. exact H3.
  - exact H3.
Qed.

Lemma isIdentity_capk a k : isIdentity A a = true -> capk a k = true.
Proof. destruct a; cbn [isIdentity]; try discriminate. reflexivity. Qed.

(* With a NullOperator in the (unpacked) list the chain collapses to a fresh NullOperator, which
   advertises TIMES|ADJOINT_TIMES whatever the other operands provide: the capability of make(ops)
   then CONTAINS the conjunction over ops; without one it is exactly the conjunction. *)
Lemma allcap_null l k : existsb (is_null A) l = true -> allcap l k = true -> capk (null_op A) k = true.
Proof.
  intros E H. apply existsb_exists in E as [a [Ia Na]]. unfold allcap in H.
  rewrite forallb_forall in H. rewrite <- (is_null_spec a Na). apply H. exact Ia.
Qed.

Lemma allcap_general_ge l k : allcap l k = true -> allcap (chain_general A l) k = true.
Proof.
  intros H. unfold chain_general. destruct (existsb (is_null A) (unpack_chain A l)) eqn:E.
  - cbn [allcap forallb]. rewrite andb_true_r. apply (allcap_null _ k E). rewrite allcap_unpack. exact H.
  - rewrite allcap_nonull. exact H.
Qed.

Lemma allcap_general_eq l k :
  existsb (is_null A) (unpack_chain A l) = false -> allcap (chain_general A l) k = allcap l k.
Proof. intros E. unfold chain_general. rewrite E. apply allcap_nonull. Qed.

Lemma allcap_simplify_ge l k : allcap l k = true -> allcap (chain_simplify A l) k = true.
Proof.
  intros H. destruct l as [|a [|b [|c t]]]; cbn [chain_simplify];
    try (apply allcap_general_ge; exact H); try exact H.
  destruct (isIdentity A a) eqn:Ia.
  - cbn [allcap forallb] in H |- *. apply andb_true_iff in H as [_ H]. exact H.
  - destruct (isIdentity A b) eqn:Ib.
    + cbn [allcap forallb] in H |- *. apply andb_true_iff in H as [H _]. rewrite H. reflexivity.
    + apply allcap_general_ge. exact H.
Qed.

Lemma allcap_simplify_eq l k :
  existsb (is_null A) (unpack_chain A l) = false -> allcap (chain_simplify A l) k = allcap l k.
Proof.
  intros E. destruct l as [|a [|b [|c t]]]; cbn [chain_simplify];
    try (apply allcap_general_eq; exact E); try reflexivity.
  destruct (isIdentity A a) eqn:Ia.
  - cbn [allcap forallb]. rewrite (isIdentity_capk a k Ia). reflexivity.
  - destruct (isIdentity A b) eqn:Ib.
    + cbn [allcap forallb]. rewrite (isIdentity_capk b k Ib). reflexivity.
    + apply allcap_general_eq. exact E.
Qed.

Lemma capk_of_simplified l k : capk (mk_chain A l) k = allcap (chain_simplify A l) k.
Proof.
  unfold mk_chain. destruct (chain_simplify A l) as [|o [|o2 t]].
  - reflexivity.
  - cbn [allcap forallb]. rewrite andb_true_r. reflexivity.
  - apply capk_Chain.
Qed.

Lemma capk_mk_chain_ge l k : allcap l k = true -> capk (mk_chain A l) k = true.
Proof. intros H. rewrite capk_of_simplified. apply allcap_simplify_ge. exact H. Qed.

Lemma capk_mk_chain_eq l k :
  existsb (is_null A) (unpack_chain A l) = false -> capk (mk_chain A l) k = allcap l k.
Proof. intros E. rewrite capk_of_simplified. apply allcap_simplify_eq. exact E. Qed.

Lemma capk_matmul a b k : capk a k = true -> capk b k = true -> capk (matmul A a b) k = true.
Proof.
  intros Ha Hb. unfold matmul. destruct (isIdentity A b); [exact Ha|].
  apply capk_mk_chain_ge. cbn [allcap forallb]. rewrite Ha, Hb. reflexivity.
Qed.

Lemma capk_scale c o k : capk o k = true -> capk (scale A c o) k = true.
Proof.
  intros H. unfold scale. destruct (eqb A c 1); [exact H|]. apply capk_matmul; [reflexivity|exact H].
Qed.

(* sums: in the forward/adjoint modes make(ops) advertises at least the conjunction *)
Lemma allcaps_map_sign (l : list (op * bool)) ng k :
  allcaps (map (fun q => (fst q, xorb ng (snd q))) l) k = allcaps l k.
Proof. induction l as [|q t IH]; [reflexivity|]. cbn [map allcaps forallb fst]. f_equal. exact IH. Qed.

Lemma allcaps_unpack l k : kadjb k = true -> allcaps (unpack_sum A l) k = allcaps l k.
Proof.
  intros Hk. induction l as [|[a ng] t IH]; [reflexivity|].
  change (unpack_sum A ((a, ng) :: t)) with
    ((match a with Sum l' => map (fun q => (fst q, xorb ng (snd q))) l' | _ => [(a, ng)] end) ++ unpack_sum A t).
  rewrite allcaps_app, IH. cbn [allcaps forallb fst]. f_equal.
  destruct a; cbn [allcaps forallb fst]; rewrite ?andb_true_r; try reflexivity.
  rewrite capk_Sum, Hk. cbn [andb]. rewrite allcaps_map_sign. reflexivity.
Qed.

Lemma allcaps_collect l : forall s0 s dts r k, collect_sum_scal A l s0 = (s, dts, r) -> allcaps r k = allcaps l k.
Proof.
  induction l as [|[a ng] t IH]; intros s0 s dts r k E; cbn [collect_sum_scal] in E.
  - inversion E; reflexivity.
  - destruct a;
      try (destruct (collect_sum_scal A t s0) as [[s' dts'] r'] eqn:E'; inversion E; subst;
           cbn [allcaps forallb]; f_equal; eapply IH; eassumption).
    destruct (collect_sum_scal A t (s0 + sgn A ng c)) as [[s' dts'] r'] eqn:E'. inversion E; subst.
    cbn [allcaps forallb fst capk]. rewrite andb_true_l. eapply IH; eassumption.
Qed.

Lemma allcaps_absorb l : forall s dtype r k, absorb_add A l s dtype = Some r -> allcaps r k = allcaps l k.
Proof.
  induction l as [|[a ng] t IH]; intros s dtype r k E; [discriminate|]. cbn [absorb_add] in E.
  destruct a;
    try (destruct (absorb_add A t s dtype) as [r'|] eqn:E'; [|discriminate]; inversion E; subst;
         cbn [allcaps forallb]; f_equal; eapply IH; eassumption).
  destruct (dtag_eqb dt dtype).
  - inversion E; subst. reflexivity.
  - destruct (absorb_add A t s dtype) as [r'|] eqn:E'; [|discriminate]; inversion E; subst.
    cbn [allcaps forallb]. f_equal. eapply IH; eassumption.
Qed.

Lemma allcaps_merge l : forall d ng dt0 dtcur d' ng' dt' r k,
  merge_diags A d ng dt0 dtcur l = (d', ng', dt', r) -> allcaps r k = allcaps l k.
Proof.
  induction l as [|[a n2] t IH]; intros d ng dt0 dtcur d' ng' dt' r k E; cbn [merge_diags] in E.
  - inversion E; reflexivity.
  - destruct a;
      try (destruct (merge_diags A d ng dt0 dtcur t) as [[[d1 n1] dt1] r1] eqn:E'; inversion E; subst;
           cbn [allcaps forallb]; f_equal; eapply IH; eassumption).
    destruct (dtag_eqb dt0 dt).
    + cbn [allcaps forallb fst capk]. rewrite andb_true_l. eapply IH; eassumption.
    + destruct (merge_diags A d ng dt0 dtcur t) as [[[d1 n1] dt1] r1] eqn:E'; inversion E; subst.
      cbn [allcaps forallb]. f_equal. eapply IH; eassumption.
Qed.

Lemma allcaps_combine fuel : forall l k, allcaps (combine_sum A fuel l) k = allcaps l k.
Proof.
  induction fuel as [|f IH]; intros l k; [reflexivity|].
  destruct l as [|[a ng] t]; cbn [combine_sum]; [reflexivity|].
  assert (Keep : allcaps ((a, ng) :: combine_sum A f t) k = allcaps ((a, ng) :: t) k).
  { cbn [allcaps forallb]. f_equal. apply IH. }
  destruct a; try exact Keep.
  destruct (existsb _ t); [|exact Keep].
  destruct (merge_diags A (actual_diag A d tr) ng dt dt t) as [[[d' ng'] dt'] r] eqn:E.
  cbn [allcaps forallb fst capk]. rewrite !andb_true_l. fold (allcaps (combine_sum A f r) k). fold (allcaps t k).
  rewrite IH. eapply allcaps_merge; eassumption.
Qed.

Lemma allcaps_simplify l k : kadjb k = true -> allcaps (sum_simplify A l) k = allcaps l k.
Proof.
  intros Hk. unfold sum_simplify.
  destruct (collect_sum_scal A (unpack_sum A l) 0) as [[s dts] l2] eqn:E1.
  pose proof (allcaps_collect _ _ _ _ _ k E1) as H1. rewrite (allcaps_unpack l k Hk) in H1.
  assert (Abs : exists s' l3,
    (if negb (eqb A s 0)
     then match absorb_add A l2 s (sum_dtype dts) with Some r => (0, r) | None => (s, l2) end
     else (s, l2)) = (s', l3) /\ allcaps l3 k = allcaps l k).
  { destruct (negb (eqb A s 0)).
    - destruct (absorb_add A l2 s (sum_dtype dts)) as [r|] eqn:E2.
      + exists 0, r. split; [reflexivity|]. rewrite (allcaps_absorb _ _ _ _ k E2). exact H1.
      + exists s, l2. split; [reflexivity|exact H1].
    - exists s, l2. split; [reflexivity|exact H1]. }
  destruct Abs as [s' [l3 [E3 H3]]]. rewrite E3. rewrite allcaps_combine.
  destruct (negb (eqb A s' 0) || match l3 with [] => true | _ :: _ => false end).
  - rewrite allcaps_app. cbn [allcaps forallb fst capk]. rewrite andb_true_r. exact H3.
  - exact H3.
Qed.

Lemma capk_mk_sum l k : kadjb k = true -> allcaps l k = true -> capk (mk_sum A l) k = true.
Proof.
  intros Hk Hl. rewrite <- (allcaps_simplify l k Hk) in Hl. unfold mk_sum.
  destruct (sum_simplify A l) as [|[o ng] [|p t]].
  - rewrite capk_Sum, Hk. reflexivity.
  - cbn [allcaps forallb fst] in Hl. rewrite andb_true_r in Hl.
    destruct ng; [unfold negate; apply capk_scale; exact Hl|exact Hl].
  - rewrite capk_Sum, Hk. exact Hl.
Qed.

(* ---- _flip_modes ---- *)
Lemma flip_0 o : flip A 0 o = o.
Proof. destruct o; reflexivity. Qed.

Definition flipc (t : Z) (c : T) : T :=
  let c1 := if has_adj t then cj c else c in if has_inv t then div A 1 c1 else c1.

Lemma scal_fct_flip t c k : kvalid t -> kvalid k -> scal_fct (flipc t c) k = scal_fct c (Z.lxor k t).
Proof.
  intros Ht Hk. unfold flipc, scal_fct.
  destruct Ht as [<-|[<-|[<-|[<-|[]]]]]; destruct Hk as [<-|[<-|[<-|[<-|[]]]]]; cbn;
    rewrite ?div_def, ?one_mul; rewrite ?(conj_inv A L), ?(conj_invol A L), ?(inv_inv A L); reflexivity.
Qed.

Lemma comp_fwd_rev l m x : comp_fwd (rev l) m x = comp_bwd l m x.
Proof.
  revert x; induction l as [|a t IH]; intros x; cbn [rev comp_bwd]; [reflexivity|].
  rewrite comp_fwd_app. cbn [comp_fwd]. apply IH.
Qed.
Lemma comp_bwd_rev l m x : comp_bwd (rev l) m x = comp_fwd l m x.
Proof.
  induction l as [|a t IH]; cbn [rev comp_fwd]; [reflexivity|].
  rewrite comp_bwd_app. cbn [comp_bwd]. rewrite IH. reflexivity.
Qed.

Lemma backwards_xor t k : kvalid t -> kvalid k ->
  backwards (mode_of (Z.lxor k t)) =
  if Z.eqb t 0 || Z.eqb t 3 then backwards (mode_of k) else negb (backwards (mode_of k)).
Proof.
  intros Ht Hk. destruct Ht as [<-|[<-|[<-|[<-|[]]]]]; destruct Hk as [<-|[<-|[<-|[<-|[]]]]]; reflexivity.
Qed.

Section MapEquiv.
Variable f : op -> op.
Variables m m' : Z.
Lemma map_comp_fwd l : Forall (fun a => forall x, peq (apply (f a) m x) (apply a m' x)) l ->
  forall x, peq (comp_fwd (map f l) m x) (comp_fwd l m' x).
Proof.
  induction 1 as [|a t Ha Ht IH]; intros x i; cbn [map comp_fwd]; [reflexivity|].
  rewrite <- Ha. apply apply_ext. apply IH.
Qed.
Lemma map_comp_bwd l : Forall (fun a => forall x, peq (apply (f a) m x) (apply a m' x)) l ->
  forall x, peq (comp_bwd (map f l) m x) (comp_bwd l m' x).
Proof.
  induction 1 as [|a t Ha Ht IH]; intros x i; cbn [map comp_bwd]; [reflexivity|].
  rewrite IH. apply comp_bwd_ext; [apply all_ext|]. apply Ha.
Qed.
End MapEquiv.

Definition flip_ok (o : op) : Prop :=
  wf o -> forall t k, kvalid t -> kvalid k ->
    wf (flip A t o) /\
    (forall x, peq (apply (flip A t o) (mode_of k) x) (apply o (mode_of (Z.lxor k t)) x)) /\
    (capk o (Z.lxor k t) = true -> capk (flip A t o) k = true).

Lemma lxor_valid_assoc k t tr : Z.lxor k (Z.lxor t tr) = Z.lxor (Z.lxor k t) tr.
Proof. symmetry. apply Z.lxor_assoc. Qed.

Lemma flip_sound : forall o, flip_ok o.
Proof.
  apply op_ind'; unfold flip_ok.
  - (* Scal *)
    intros c dt _ t k Ht Hk. destruct (Z.eqb t 0) eqn:E0.
    { apply Z.eqb_eq in E0. subst t. rewrite flip_0, Z.lxor_0_r. repeat split; try assumption; try (intros x i; reflexivity); try (intros Hc; exact Hc). }
    cbn [flip]. rewrite E0. fold (flipc t c). split; [exact I|]. split; [|reflexivity]. intros x i.
    rewrite !apply_Scal by (try apply kvalid_xor; assumption). rewrite scal_fct_flip by assumption. reflexivity.
  - (* Diag *)
    intros d tr dt Hw t k Ht Hk. cbn [wf] in Hw. destruct (Z.eqb t 0) eqn:E0.
    { apply Z.eqb_eq in E0. subst t. rewrite flip_0, Z.lxor_0_r. repeat split; try assumption; try (intros x i; reflexivity); try (intros Hc; exact Hc). }
    cbn [flip]. rewrite E0. split; [cbn [wf]; apply kvalid_xor; assumption|]. split; [|intros Hc; exact Hc].
    intros x i. cbn [Model.apply]. unfold apply_diag.
    rewrite !ilog_mode by (try apply kvalid_xor; assumption).
    replace (Z.lxor k (Z.lxor tr t)) with (Z.lxor (Z.lxor k t) tr); [reflexivity|].
    rewrite (Z.lxor_comm tr t). apply Z.lxor_assoc.
  - (* Leaf *)
    intros l cp Hw t k Ht Hk. destruct (Z.eqb t 0) eqn:E0.
    { apply Z.eqb_eq in E0. subst t. rewrite flip_0, Z.lxor_0_r.
      split; [exact Hw|]. split; [intros x i; reflexivity|intros Hc; exact Hc]. }
    cbn [flip]. rewrite E0. split; [split; assumption|]. split; [|intros Hc; exact Hc].
    intros x i. cbn [Model.apply]. rewrite (ilog_mode k Hk), (modeTable_xor t k Ht Hk). reflexivity.
  - (* Sum *)
    intros l _ Hw t k Ht Hk. destruct (Z.eqb t 0) eqn:E0.
    { apply Z.eqb_eq in E0. subst t. rewrite flip_0, Z.lxor_0_r. repeat split; try assumption; try (intros x i; reflexivity); try (intros Hc; exact Hc). }
    cbn [flip]. rewrite E0. split; [split; assumption|]. split; [|intros Hc; exact Hc].
    intros x i. change (apply (Adapter (Sum l) t) (mode_of k) x i)
      with (apply (Sum l) (modeTable t (ilog (mode_of k))) x i).
    rewrite (ilog_mode k Hk), (modeTable_xor t k Ht Hk). reflexivity.
  - (* Chain *)
    intros l IHl Hw t k Ht Hk. destruct (Z.eqb t 0) eqn:E0.
    { apply Z.eqb_eq in E0. subst t. rewrite flip_0, Z.lxor_0_r. repeat split; try assumption; try (intros x i; reflexivity); try (intros Hc; exact Hc). }
    apply wf_Chain in Hw.
    assert (El : Forall (fun a => wf (flip A t a) /\
                   (forall x, peq (apply (flip A t a) (mode_of k) x) (apply a (mode_of (Z.lxor k t)) x)) /\
                   (capk a (Z.lxor k t) = true -> capk (flip A t a) k = true)) l).
    { clear -IHl Hw Ht Hk. induction IHl as [|a r Ha Hr IH]; [constructor|]. inversion Hw; subst.
      constructor; [apply Ha; assumption|apply IH; assumption]. }
    assert (Wm : Forall wf (map (flip A t) l)).
    { clear -El. induction El as [|a r [Ha _] Hr IH]; cbn [map]; constructor; assumption. }
    assert (Em : Forall (fun a => forall x, peq (apply (flip A t a) (mode_of k) x) (apply a (mode_of (Z.lxor k t)) x)) l).
    { clear -El. induction El as [|a r [_ [Ha _]] Hr IH]; constructor; assumption. }
    assert (Cm : allcap l (Z.lxor k t) = true -> allcap (map (flip A t) l) k = true).
    { clear -El. induction El as [|a r [_ [_ Ha]] Hr IH]; [reflexivity|]. cbn [map allcap forallb].
      intros H. apply andb_true_iff in H as [H1 H2]. rewrite (Ha H1). exact (IH H2). }
    pose proof (backwards_xor t k Ht Hk) as Bx. rewrite E0 in Bx. cbn [orb] in Bx.
    cbn [flip]. rewrite E0. destruct (Z.eqb t 3) eqn:E3.
    + destruct (mk_chain_sound k (map (flip A t) l) Hk Wm) as [W S].
      split; [assumption|]. split.
      * intros x i. rewrite S. rewrite apply_Chain. rewrite Bx. unfold comp.
        destruct (backwards (mode_of k)).
        -- apply map_comp_bwd. exact Em.
        -- apply map_comp_fwd. exact Em.
      * rewrite capk_Chain. intros Hc. apply capk_mk_chain_ge. exact (Cm Hc).
    + destruct (mk_chain_sound k (rev (map (flip A t) l)) Hk (Forall_rev Wm)) as [W S].
      split; [assumption|]. split.
      * intros x i. rewrite S. rewrite apply_Chain. rewrite Bx. unfold comp.
        destruct (backwards (mode_of k)); cbn [negb].
        -- rewrite comp_bwd_rev. apply map_comp_fwd. exact Em.
        -- rewrite comp_fwd_rev. apply map_comp_bwd. exact Em.
      * rewrite capk_Chain. intros Hc. apply capk_mk_chain_ge. rewrite allcap_rev. exact (Cm Hc).
  - (* Adapter *)
    intros o tr IH Hw t k Ht Hk. cbn [wf] in Hw. destruct Hw as [Hwo Htr]. destruct (Z.eqb t 0) eqn:E0.
    { apply Z.eqb_eq in E0. subst t. rewrite flip_0, Z.lxor_0_r. repeat split; try assumption; try (intros x i; reflexivity); try (intros Hc; exact Hc). }
    cbn [flip]. rewrite E0.
    assert (Hm : forall x i, apply (Adapter o tr) (mode_of (Z.lxor k t)) x i = apply o (mode_of (Z.lxor (Z.lxor k t) tr)) x i).
    { intros x i. cbn [Model.apply]. rewrite ilog_mode, modeTable_xor by (try apply kvalid_xor; assumption). reflexivity. }
    destruct (Z.eqb (Z.lxor t tr) 0) eqn:En.
    + apply Z.eqb_eq in En. apply Z.lxor_eq in En. subst tr.
      assert (Z.lxor (Z.lxor k t) t = k) as Ek by (rewrite Z.lxor_assoc, Z.lxor_nilpotent, Z.lxor_0_r; reflexivity).
      split; [assumption|]. split.
      * intros x i. rewrite Hm, Ek. reflexivity.
      * cbn [capk]. rewrite Ek. intros Hc; exact Hc.
    + split; [split; [assumption|apply kvalid_xor; assumption]|]. split.
      * intros x i. rewrite Hm. cbn [Model.apply].
        rewrite ilog_mode, modeTable_xor by (try apply kvalid_xor; assumption).
        rewrite lxor_valid_assoc. reflexivity.
      * cbn [capk]. rewrite lxor_valid_assoc. intros Hc; exact Hc.
  - (* Sandw: _flip_modes is not overridden -> OperatorAdapter *)
    intros b c0 i0 _ _ _ Hw t k Ht Hk. destruct (Z.eqb t 0) eqn:E0.
    { apply Z.eqb_eq in E0. subst t. rewrite flip_0, Z.lxor_0_r.
      split; [exact Hw|]. split; [intros x i; reflexivity|intros Hc; exact Hc]. }
    cbn [flip]. rewrite E0. split; [split; assumption|]. split; [|intros Hc; exact Hc].
    intros x i. change (apply (Adapter (Sandw b c0 i0) t) (mode_of k) x i)
      with (apply (Sandw b c0 i0) (modeTable t (ilog (mode_of k))) x i).
    rewrite (ilog_mode k Hk), (modeTable_xor t k Ht Hk). reflexivity.
Qed.

(* ---- the `adjoint` property (SumOperator overrides it) ---- *)
Definition adjoint_ok (o : op) : Prop :=
  wf o -> forall k, kvalid k -> capk o (Z.lxor k 1) = true ->
    wf (adjoint_prop A o) /\
    (forall x, peq (apply (adjoint_prop A o) (mode_of k) x) (apply o (mode_of (Z.lxor k 1)) x)) /\
    capk (adjoint_prop A o) k = true.

Lemma kvalid_1 : kvalid 1%Z. Proof. right; left; reflexivity. Qed.
Lemma kvalid_2 : kvalid 2%Z. Proof. right; right; left; reflexivity. Qed.

Lemma adjoint_by_flip o : adjoint_prop A o = flip A 1 o -> adjoint_ok o.
Proof.
  intros E Hw k Hk Hc. rewrite E. destruct (flip_sound o Hw 1%Z k kvalid_1 Hk) as [W [S C]].
  split; [assumption|]. split; [assumption|]. apply C. exact Hc.
Qed.

Lemma kadjb_xor1 k : kvalid k -> kadjb (Z.lxor k 1) = kadjb k.
Proof. intros Hk. destruct Hk as [<-|[<-|[<-|[<-|[]]]]]; reflexivity. Qed.

Lemma adjoint_sound : forall o, adjoint_ok o.
Proof.
  apply op_ind'.
  - intros. apply adjoint_by_flip. reflexivity.
  - intros. apply adjoint_by_flip. reflexivity.
  - intros. apply adjoint_by_flip. reflexivity.
  - intros l IHl Hw k Hk Hc. apply wf_Sum in Hw. rewrite capk_Sum in Hc.
    apply andb_true_iff in Hc as [Hc1 Hc2]. rewrite (kadjb_xor1 k Hk) in Hc1.
    pose proof (proj1 (kadjb_spec k) Hc1) as Hka.
    set (l' := map (fun p : op * bool => match p with (a, ng) => (adjoint_prop A a, ng) end) l).
    assert (El : Forall (fun p => wf (adjoint_prop A (fst p)) /\
                    (forall x, peq (apply (adjoint_prop A (fst p)) (mode_of k) x) (apply (fst p) (mode_of (Z.lxor k 1)) x)) /\
                    capk (adjoint_prop A (fst p)) k = true) l).
    { clear -IHl Hw Hc2 Hk. unfold allcaps in Hc2. induction IHl as [|p r Hp Hr IH]; [constructor|].
      inversion Hw; subst. cbn [forallb] in Hc2. apply andb_true_iff in Hc2 as [C1 C2].
      constructor; [apply Hp; assumption|apply IH; assumption]. }
    assert (Wl : wfl l').
    { unfold l'. clear -El. induction El as [|[a ng] r [Ha _] Hr IH]; cbn [map]; constructor; assumption. }
    assert (Sl : forall x i, ssem l' k x i = ssem l (Z.lxor k 1) x i).
    { intros x i. unfold l'. clear -El. induction El as [|[a ng] r [_ [Ha _]] Hr IH]; [reflexivity|].
      cbn [map sum_sem]. cbn [fst] in Ha. rewrite Ha, IH. reflexivity. }
    assert (Cl : allcaps l' k = true).
    { unfold l'. clear -El. induction El as [|[a ng] r [_ [_ Ha]] Hr IH]; [reflexivity|].
      cbn [map allcaps forallb fst]. cbn [fst] in Ha. rewrite Ha. exact IH. }
    destruct (mk_sum_sound k l' Hka Wl) as [W S].
    change (adjoint_prop A (Sum l)) with (mk_sum A l').
    split; [assumption|]. split.
    + intros x i. rewrite S, Sl, apply_Sum. reflexivity.
    + apply (capk_mk_sum l' k Hc1). exact Cl.
  - intros. apply adjoint_by_flip. reflexivity.
  - intros. apply adjoint_by_flip. reflexivity.
  - intros. apply adjoint_by_flip. reflexivity.
Qed.

(* ---- expressions ---- *)
Notation expr := (expr A).

(* The matrix meaning of an expression in mode index k (0 TIMES, 1 ADJOINT, 2 INVERSE, 3 ADJOINT
   INVERSE), compositional: a product is applied right-to-left in the forward-type modes and
   left-to-right in the backward-type ones, a sum is the sum of its parts, adjoint and inverse
   remap the mode, a scalar multiplies by c, conj c, 1/c, 1/conj c. *)
Fixpoint sem (e : expr) (k : Z) (x : vec) : vec :=
  match e with
  | EPrim o => apply o (mode_of k) x
  | EAdd a b => fun i => sem a k x i + sem b k x i
  | ESub a b => fun i => sem a k x i - sem b k x i
  | EComp a b => if backwards (mode_of k) then sem b k (sem a k x) else sem a k (sem b k x)
  | EScale c a => fun i => sem a k x i * scal_fct c k
  | ENeg a => fun i => - sem a k x i
  | EAdj a => sem a (Z.lxor k 1) x
  | EInv a => sem a (Z.lxor k 2) x
  | ESandwich b c =>                       (* bun^dagger cheese bun *)
      if backwards (mode_of k)
      then sem b k (sem c k (sem b (Z.lxor k 1) x))
      else sem b (Z.lxor k 1) (sem c k (sem b k x))
  end.

(* The advertised-mode rule of the property: a mode is advertised when all constituents provide
   the modes it requires; sums advertise only forward and adjoint application. *)
Fixpoint advk (e : expr) (k : Z) : bool :=
  match e with
  | EPrim o => capk o k
  | EAdd a b | ESub a b => kadjb k && advk a k && advk b k
  | EComp a b => advk a k && advk b k
  | EScale _ a | ENeg a => advk a k
  | EAdj a => advk a (Z.lxor k 1)
  | EInv a => advk a (Z.lxor k 2)
  | ESandwich b c => advk b (Z.lxor k 1) && advk c k && advk b k
  end.

Fixpoint wfe (e : expr) : Prop :=
  match e with
  | EPrim o => wf o
  | EAdd a b | ESub a b | EComp a b => wfe a /\ wfe b
  | EScale _ a | ENeg a | EAdj a | EInv a => wfe a
  (* the nested-sandwich unpacking of SandwichOperator.make (cheese itself a sandwich) is in the
     executable model but outside this theorem *)
  | ESandwich b c => wfe b /\ wfe c /\ is_sandw A (build A c) = false
  end.

Definition m1 : T := neg A (one A).
Lemma inv_neg_one : inv m1 = m1.
Proof.
  assert (N : m1 <> 0).
  { intros H. apply (F_1_neq_0 (Fth A L)). transitivity (neg A m1); [unfold m1; ring|]. rewrite H. ring. }
  transitivity (inv m1 * (m1 * m1)); [unfold m1; ring|].
  rewrite (Rmul_assoc Rth). rewrite (Finv_l (Fth A L) _ N). ring.
Qed.

Lemma negate_sound_all k o : kvalid k -> wf o ->
  wf (negate A o) /\ forall x i, apply (negate A o) (mode_of k) x i = - apply o (mode_of k) x i.
Proof.
  intros Hk Ho. destruct (scale_sound k (neg A (one A)) o Hk Ho) as [W S]. split; [exact W|].
  intros x i. unfold negate. rewrite S. unfold scal_fct.
  destruct Hk as [<-|[<-|[<-|[<-|[]]]]]; cbn;
    rewrite ?(conj_neg A L), ?(conj_one A L); fold m1; rewrite ?inv_neg_one; unfold m1; ring.
Qed.

Lemma adjoint_wf : forall o, wf o -> wf (adjoint_prop A o).
Proof.
  apply (op_ind' (fun o => wf o -> wf (adjoint_prop A o))).
  - intros c dt H. apply (flip_sound _ H 1%Z 0%Z kvalid_1 kvalid_0).
  - intros d tr dt H. apply (flip_sound _ H 1%Z 0%Z kvalid_1 kvalid_0).
  - intros l cp H. apply (flip_sound _ H 1%Z 0%Z kvalid_1 kvalid_0).
  - intros l Hl Hwl. apply wf_Sum in Hwl.
    change (adjoint_prop A (Sum l)) with
      (mk_sum A (map (fun p : op * bool => match p with (a1, n1) => (adjoint_prop A a1, n1) end) l)).
    apply (mk_sum_sound 0%Z _ (or_introl eq_refl)).
    induction Hl as [|[a1 n1] r1 H1 Hr1 IH1]; cbn [map]; [constructor|].
    inversion Hwl; subst. constructor; [cbn [fst] in *; apply H1; assumption|apply IH1; assumption].
  - intros l Hl H. apply (flip_sound _ H 1%Z 0%Z kvalid_1 kvalid_0).
  - intros o t IH H. apply (flip_sound _ H 1%Z 0%Z kvalid_1 kvalid_0).
  - intros b c0 i0 _ _ _ H. apply (flip_sound _ H 1%Z 0%Z kvalid_1 kvalid_0).
Qed.

(* ---- SandwichOperator.make ---- *)
Lemma scal_fct_one k : kvalid k -> scal_fct 1 k = 1.
Proof.
  intros Hk. unfold scal_fct. destruct Hk as [<-|[<-|[<-|[<-|[]]]]]; cbn;
    rewrite ?(conj_one A L), ?inv_one; reflexivity.
Qed.

Lemma scal_fct_sandwich f k : kvalid k ->
  scal_fct f k * scal_fct f (Z.lxor k 1) = scal_fct (f * cj f) k.
Proof.
  intros Hk. unfold scal_fct. destruct Hk as [<-|[<-|[<-|[<-|[]]]]]; cbn;
    rewrite ?(conj_mul A L), ?(conj_invol A L), ?(inv_mul A L); ring.
Qed.

Definition sandwich_sem (bun cheese : op) (k : Z) (x : vec) : vec :=
  if backwards (mode_of k)
  then apply bun (mode_of k) (apply cheese (mode_of k) (apply bun (mode_of (Z.lxor k 1)) x))
  else apply bun (mode_of (Z.lxor k 1)) (apply cheese (mode_of k) (apply bun (mode_of k) x)).

Lemma mk_sandwich_sound bun cheese : wf bun -> wf cheese -> is_sandw A cheese = false ->
  wf (mk_sandwich A bun cheese) /\
  forall k, kvalid k -> capk bun (Z.lxor k 1) = true -> capk cheese k = true -> capk bun k = true ->
    capk (mk_sandwich A bun cheese) k = true /\
    forall x, peq (apply (mk_sandwich A bun cheese) (mode_of k) x) (sandwich_sem bun cheese k x).
Proof.
  intros Wb Wc Hs. unfold mk_sandwich.
  assert (E : (match cheese with Sandw b0 c0 _ => (matmul A b0 bun, c0) | _ => (bun, cheese) end) = (bun, cheese)).
  { destruct cheese; try reflexivity. discriminate. }
  rewrite E. clear E.
  destruct (is_scal A bun) eqn:Isc.
  - (* scaling bun: |f|^2 * cheese *)
    destruct bun as [f dt| | | | | |]; try discriminate.
    assert (Sem : forall k, kvalid k -> forall x i,
              sandwich_sem (Scal f dt) cheese k x i = apply cheese (mode_of k) x i * scal_fct (f * cj f) k).
    { intros k Hk x i. unfold sandwich_sem. rewrite <- (scal_fct_sandwich f k Hk).
      pose proof (kvalid_xor _ _ Hk kvalid_1) as Hk1.
      destruct (backwards (mode_of k)).
      - rewrite apply_Scal by exact Hk.
        transitivity (apply cheese (mode_of k) (vscale x (scal_fct f (Z.lxor k 1))) i * scal_fct f k).
        + f_equal. apply apply_ext. intros j. apply apply_Scal. exact Hk1.
        + rewrite (apply_homog cheese). ring.
      - rewrite apply_Scal by exact Hk1.
        transitivity (apply cheese (mode_of k) (vscale x (scal_fct f k)) i * scal_fct f (Z.lxor k 1)).
        + f_equal. apply apply_ext. intros j. apply apply_Scal. exact Hk.
        + rewrite (apply_homog cheese). ring. }
    destruct (eqb A (f * cj f) 1) eqn:E1.
    + apply eqb_true in E1. split; [exact Wc|]. intros k Hk _ Cc _. split; [exact Cc|].
      intros x i. rewrite (Sem k Hk), E1, (scal_fct_one k Hk). ring.
    + destruct (scale_sound 0%Z (f * cj f) cheese kvalid_0 Wc) as [Ws _].
      split; [cbn [wf]; repeat split; assumption|]. intros k Hk _ Cc _.
      destruct (scale_sound k (f * cj f) cheese Hk Wc) as [_ S]. split.
      * cbn [capk]. apply capk_scale. exact Cc.
      * intros x i. cbn [Model.apply]. rewrite S, (Sem k Hk). reflexivity.
  - (* general bun: (bun.adjoint @ cheese) @ bun *)
    assert (E : (match bun with
                 | Scal f _ => if eqb A (f * cj f) 1 then cheese else Sandw bun cheese (scale A (f * cj f) cheese)
                 | _ => Sandw bun cheese (matmul A (matmul A (adjoint_prop A bun) cheese) bun)
                 end) = Sandw bun cheese (matmul A (matmul A (adjoint_prop A bun) cheese) bun)).
    { destruct bun; try reflexivity. discriminate. }
    rewrite E. clear E.
    pose proof (adjoint_wf bun Wb) as Wa.
    destruct (matmul_sound 0%Z (adjoint_prop A bun) cheese kvalid_0 Wa Wc) as [W1 _].
    destruct (matmul_sound 0%Z _ bun kvalid_0 W1 Wb) as [W2 _].
    split; [cbn [wf]; repeat split; assumption|]. intros k Hk Cb1 Cc Cb.
    destruct (adjoint_sound bun Wb k Hk Cb1) as [_ [Sa Ca]].
    destruct (matmul_sound k (adjoint_prop A bun) cheese Hk Wa Wc) as [_ S1].
    destruct (matmul_sound k _ bun Hk W1 Wb) as [_ S2]. split.
    + cbn [capk]. apply capk_matmul; [apply capk_matmul; assumption|exact Cb].
    + intros x i. cbn [Model.apply]. rewrite S2, (comp_cons _ _ k x i), !comp_single. unfold sandwich_sem.
      destruct (backwards (mode_of k)) eqn:Bw.
      * apply apply_ext. intros j. rewrite S1, (comp_cons _ _ k x j), Bw, comp_single.
        apply apply_ext. intros j'. apply Sa.
      * rewrite S1, (comp_cons _ _ k _ i), Bw, comp_single. apply Sa.
Qed.

Definition build_ok (e : expr) : Prop :=
  wfe e ->
  wf (build A e) /\
  forall k, kvalid k -> advk e k = true ->
    capk (build A e) k = true /\ forall x, peq (apply (build A e) (mode_of k) x) (sem e k x).

Lemma build_sum_case a b ng :
  build_ok a -> build_ok b -> wfe a -> wfe b ->
  wf (mk_sum A [(build A a, false); (build A b, ng)]) /\
  forall k, kvalid k -> kadjb k && advk a k && advk b k = true ->
    capk (mk_sum A [(build A a, false); (build A b, ng)]) k = true /\
    forall x i, apply (mk_sum A [(build A a, false); (build A b, ng)]) (mode_of k) x i
                = sem a k x i + sg ng (sem b k x i).
Proof.
  intros IHa IHb Wa Wb. destruct (IHa Wa) as [Wba Sa]. destruct (IHb Wb) as [Wbb Sb].
  assert (Wl : wfl [(build A a, false); (build A b, ng)]) by (repeat constructor; assumption).
  split.
  - (* well-formedness does not depend on the mode: use k = 0 *)
    apply (mk_sum_sound 0%Z _ (or_introl eq_refl) Wl).
  - intros k Hk Hadv. apply andb_true_iff in Hadv as [Hadv Hb']. apply andb_true_iff in Hadv as [Hkk Ha'].
    pose proof (proj1 (kadjb_spec k) Hkk) as Hka.
    destruct (Sa k Hk Ha') as [Ca Ea]. destruct (Sb k Hk Hb') as [Cb Eb].
    destruct (mk_sum_sound k _ Hka Wl) as [_ S]. split.
    + apply (capk_mk_sum _ k Hkk). cbn [allcaps forallb fst]. rewrite Ca, Cb. reflexivity.
    + intros x i. rewrite S. cbn [sum_sem sg]. rewrite Ea, Eb. ring.
Qed.

Lemma build_sound : forall e, build_ok e.
Proof.
  induction e as [o|a IHa b IHb|a IHa b IHb|a IHa b IHb|c a IHa|a IHa|a IHa|a IHa|b IHb c0 IHc];
    intros Hw; cbn [wfe] in Hw.
  - (* EPrim *) cbn [build]. split; [assumption|]. intros k Hk Hc. split; [exact Hc|]. intros x i. reflexivity.
  - (* EAdd *) destruct Hw as [Wa Wb]. destruct (build_sum_case a b false IHa IHb Wa Wb) as [W S].
    cbn [build]. split; [assumption|]. intros k Hk Hadv. destruct (S k Hk Hadv) as [C E]. split; [assumption|].
    intros x i. rewrite E. cbn [sem sg]. reflexivity.
  - (* ESub *) destruct Hw as [Wa Wb]. destruct (build_sum_case a b true IHa IHb Wa Wb) as [W S].
    cbn [build]. split; [assumption|]. intros k Hk Hadv. destruct (S k Hk Hadv) as [C E]. split; [assumption|].
    intros x i. rewrite E. cbn [sem sg]. ring.
  - (* EComp *) destruct Hw as [Wa Wb]. destruct (IHa Wa) as [Wba Sa]. destruct (IHb Wb) as [Wbb Sb].
    cbn [build]. split; [apply (matmul_sound 0%Z _ _ kvalid_0 Wba Wbb)|].
    intros k Hk Hadv. cbn [advk] in Hadv. apply andb_true_iff in Hadv as [Ha' Hb'].
    destruct (Sa k Hk Ha') as [Ca Ea]. destruct (Sb k Hk Hb') as [Cb Eb].
    destruct (matmul_sound k _ _ Hk Wba Wbb) as [_ S]. split.
    + apply capk_matmul; assumption.
    + intros x i. rewrite S, (comp_cons _ _ k x i), !comp_single. cbn [sem].
      destruct (backwards (mode_of k)).
      * rewrite <- Eb. apply apply_ext. apply Ea.
      * rewrite <- Ea. apply apply_ext. apply Eb.
  - (* EScale *) destruct (IHa Hw) as [Wba Sa]. cbn [build].
    split; [apply (scale_sound 0%Z c _ kvalid_0 Wba)|].
    intros k Hk Hadv. cbn [advk] in Hadv. destruct (Sa k Hk Hadv) as [Ca Ea].
    destruct (scale_sound k c _ Hk Wba) as [_ S]. split; [apply capk_scale; exact Ca|].
    intros x i. rewrite S, Ea. reflexivity.
  - (* ENeg *) destruct (IHa Hw) as [Wba Sa]. cbn [build].
    split; [apply (negate_sound_all 0%Z _ kvalid_0 Wba)|].
    intros k Hk Hadv. cbn [advk] in Hadv. destruct (Sa k Hk Hadv) as [Ca Ea].
    destruct (negate_sound_all k _ Hk Wba) as [_ S]. split; [unfold negate; apply capk_scale; exact Ca|].
    intros x i. rewrite S, Ea. reflexivity.
  - (* EAdj *) destruct (IHa Hw) as [Wba Sa]. cbn [build].
    pose proof (adjoint_wf _ Wba) as W.
    split; [exact W|].
    intros k Hk Hadv. cbn [advk] in Hadv.
    destruct (Sa (Z.lxor k 1) (kvalid_xor _ _ Hk kvalid_1) Hadv) as [Ca Ea].
    destruct (adjoint_sound (build A a) Wba k Hk Ca) as [_ [S C]]. split; [exact C|].
    intros x i. rewrite S, Ea. reflexivity.
  - (* EInv *) destruct (IHa Hw) as [Wba Sa]. cbn [build]. unfold inverse_prop.
    change t_INVERSE_BIT with 2%Z.
    split; [apply (flip_sound _ Wba 2%Z 0%Z kvalid_2 kvalid_0)|].
    intros k Hk Hadv. cbn [advk] in Hadv.
    destruct (Sa (Z.lxor k 2) (kvalid_xor _ _ Hk kvalid_2) Hadv) as [Ca Ea].
    destruct (flip_sound _ Wba 2%Z k kvalid_2 Hk) as [_ [S C]]. split; [apply C; exact Ca|].
    intros x i. rewrite S, Ea. reflexivity.
  - (* ESandwich *) destruct Hw as [Wb [Wc Hns]].
    destruct (IHb Wb) as [Wbb Sb]. destruct (IHc Wc) as [Wbc Sc]. cbn [build].
    destruct (mk_sandwich_sound (build A b) (build A c0) Wbb Wbc Hns) as [W S]. split; [exact W|].
    intros k Hk Hadv. cbn [advk] in Hadv.
    apply andb_true_iff in Hadv as [Hadv Hb']. apply andb_true_iff in Hadv as [Hb1 Hc'].
    pose proof (kvalid_xor _ _ Hk kvalid_1) as Hk1.
    destruct (Sb k Hk Hb') as [Cb Eb]. destruct (Sb _ Hk1 Hb1) as [Cb1 Eb1]. destruct (Sc k Hk Hc') as [Cc Ec].
    destruct (S k Hk Cb1 Cc Cb) as [C E]. split; [exact C|].
    intros x i. rewrite E. unfold sandwich_sem. cbn [sem]. destruct (backwards (mode_of k)).
    + rewrite <- Eb. apply apply_ext. intros j. rewrite <- Ec. apply apply_ext. intros j'. apply Eb1.
    + rewrite <- Eb1. apply apply_ext. intros j. rewrite <- Ec. apply apply_ext. intros j'. apply Eb.
Qed.

(* ---- capk is the bit of the real capability ---- *)
Definition cap_ok (o : op) : Prop :=
  wf o -> (0 <= cap A o < 16)%Z /\ forall k, kvalid k -> Z.testbit (cap A o) k = capk o k.

Lemma capk_spec : forall o, cap_ok o.
Proof.
  apply op_ind'; unfold cap_ok.
  - intros c dt _. cbn [cap capk]. split; [vm_compute; split; [discriminate|reflexivity]|]. intros k Hk. apply testbit_all_ops. exact Hk.
  - intros d tr dt _. cbn [cap capk]. split; [vm_compute; split; [discriminate|reflexivity]|]. intros k Hk. apply testbit_all_ops. exact Hk.
  - intros l cp Hw. cbn [cap capk]. split; [exact Hw|]. intros; reflexivity.
  - intros l IHl Hw. apply wf_Sum in Hw.
    cbn [cap].
    assert (G : (0 <= (fix go (l0 : list (op * bool)) : Z :=
                  match l0 with [] => Z.lor t_TIMES t_ADJOINT_TIMES | (a, _) :: t => Z.land (go t) (cap A a) end) l < 16)%Z /\
                forall k, kvalid k ->
                  Z.testbit ((fix go (l0 : list (op * bool)) : Z :=
                    match l0 with [] => Z.lor t_TIMES t_ADJOINT_TIMES | (a, _) :: t => Z.land (go t) (cap A a) end) l) k
                  = kadjb k && allcaps l k).
    { induction IHl as [|[a ng] r Ha Hr IH].
      - split; [vm_compute; split; [discriminate|reflexivity]|]. intros k Hk. cbn [allcaps forallb]. rewrite andb_true_r.
        apply testbit_fwd_adj. exact Hk.
      - inversion Hw; subst. destruct (IH H2) as [R B]. cbn [fst] in *. destruct (Ha H1) as [Ra Ba]. split.
        + apply land_range; assumption.
        + intros k Hk. rewrite Z.land_spec, (B k Hk), (Ba k Hk). cbn [allcaps forallb fst].
          fold (allcaps r k). destruct (kadjb k), (capk a k), (allcaps r k); reflexivity. }
    destruct G as [R B]. split; [exact R|]. intros k Hk. rewrite capk_Sum. apply B. exact Hk.
  - intros l IHl Hw. apply wf_Chain in Hw. cbn [cap].
    assert (G : (0 <= (fix go (l0 : list op) : Z :=
                  match l0 with [] => t_all_ops | a :: t => Z.land (go t) (cap A a) end) l < 16)%Z /\
                forall k, kvalid k ->
                  Z.testbit ((fix go (l0 : list op) : Z :=
                    match l0 with [] => t_all_ops | a :: t => Z.land (go t) (cap A a) end) l) k = allcap l k).
    { induction IHl as [|a r Ha Hr IH].
      - split; [vm_compute; split; [discriminate|reflexivity]|]. intros k Hk. apply testbit_all_ops. exact Hk.
      - inversion Hw; subst. destruct (IH H2) as [R B]. destruct (Ha H1) as [Ra Ba]. split.
        + apply land_range; assumption.
        + intros k Hk. rewrite Z.land_spec, (B k Hk), (Ba k Hk). cbn [allcap forallb]. apply andb_comm. }
    destruct G as [R B]. split; [exact R|]. intros k Hk. rewrite capk_Chain. apply B. exact Hk.
  - intros o t IH [Hwo Ht]. destruct (IH Hwo) as [R B]. cbn [cap capk]. split.
    + apply capTable_range; assumption.
    + intros k Hk. rewrite (tables_cap t (cap A o) k Ht R Hk). apply B. apply kvalid_xor; assumption.
  - intros b c0 i0 _ _ IH [_ [_ Hwi]]. cbn [cap capk]. apply IH. exact Hwi.
Qed.

(* ---- without NullOperator the capability of a flipped operator is EXACTLY the permuted one ---- *)
Fixpoint nonull (o : op) : Prop :=
  match o with
  | Scal _ _ => True
  | Diag _ _ _ => True
  | Leaf l cp => is_null A (Leaf l cp) = false
  | Sum l => (fix go (l : list (op * bool)) : Prop := match l with [] => True | p :: t => nonull (fst p) /\ go t end) l
  | Chain l => (fix go (l : list op) : Prop := match l with [] => True | a :: t => nonull a /\ go t end) l
  | Adapter o _ => nonull o
  | Sandw b c i => nonull b /\ nonull c /\ nonull i
  end.

Lemma nonull_Chain l : nonull (Chain l) <-> Forall nonull l.
Proof.
  cbn [nonull]. induction l as [|p t IH].
  - split; intros; [constructor|exact I].
  - split.
    + intros [H1 H2]. constructor; [exact H1|]. apply IH. exact H2.
    + intros H. inversion H; subst. split; [assumption|]. apply IH. assumption.
Qed.

Lemma nonull_not_null o : nonull o -> is_null A o = false.
Proof. destruct o; cbn [nonull is_null]; intros H; try reflexivity. exact H. Qed.

Lemma nonull_existsb l : Forall nonull l -> existsb (is_null A) l = false.
Proof.
  induction 1 as [|a t Ha Ht IH]; [reflexivity|]. cbn [existsb]. rewrite (nonull_not_null a Ha). exact IH.
Qed.

Lemma nonull_unpack l : Forall nonull l -> Forall nonull (unpack_chain A l).
Proof.
  induction 1 as [|a t Ha Ht IH]; [constructor|].
  change (unpack_chain A (a :: t)) with ((match a with Chain l' => l' | _ => [a] end) ++ unpack_chain A t).
  apply Forall_app. split; [|exact IH].
  destruct a; try (constructor; [assumption|constructor]). apply nonull_Chain. exact Ha.
Qed.

Lemma nonull_collect l : Forall nonull l -> forall f0 f r, collect_chain_scal A l f0 = (f, r) -> Forall nonull r.
Proof.
  induction 1 as [|a t Ha Ht IH]; intros f0 f r E; cbn [collect_chain_scal] in E.
  - inversion E; constructor.
  - destruct a; try (destruct (collect_chain_scal A t f0) as [f' r'] eqn:E'; inversion E; subst;
                     constructor; [assumption|eapply IH; eassumption]).
    destruct (is_real A c).
    + eapply IH; eassumption.
    + destruct (collect_chain_scal A t f0) as [f' r'] eqn:E'; inversion E; subst.
      constructor; [assumption|eapply IH; eassumption].
Qed.

Lemma nonull_absorb l : Forall nonull l -> forall f r, absorb_scale A l f = Some r -> Forall nonull r.
Proof.
  induction 1 as [|a t Ha Ht IH]; intros f r E; [discriminate|]. cbn [absorb_scale] in E.
  destruct a; try (destruct (absorb_scale A t f) as [r'|] eqn:E'; [|discriminate]; inversion E; subst;
                   constructor; [assumption|eapply IH; eassumption]).
  inversion E; subst. constructor; [exact I|assumption].
Qed.

Lemma nonull_combine ops : forall acc, Forall nonull ops -> Forall nonull acc -> Forall nonull (combine_prod A ops acc).
Proof.
  induction ops as [|o t IH]; intros acc Ho Ha.
  - cbn [combine_prod]. apply Forall_rev. exact Ha.
  - inversion Ho as [|? ? H1 H2]; subst.
    assert (Gen : Forall nonull (combine_prod A t (o :: acc))) by (apply IH; [assumption|constructor; assumption]).
    destruct o; cbn [combine_prod]; try exact Gen.
    destruct acc as [|[] acc']; try exact Gen.
    inversion Ha; subst. apply IH; [assumption|constructor; [exact I|assumption]].
Qed.

Lemma nonull_chain_nonull l : Forall nonull l -> Forall nonull (chain_nonull A l).
Proof.
  intros H. unfold chain_nonull. pose proof (nonull_unpack l H) as H1.
  destruct (collect_chain_scal A (unpack_chain A l) 1) as [fct ops2] eqn:E1.
  pose proof (nonull_collect _ H1 _ _ _ E1) as H2.
  assert (Abs : forall p, (if negb (eqb A fct 1)
       then match absorb_scale A ops2 fct with Some r => (1, r) | None => (fct, ops2) end
       else (fct, ops2)) = p -> Forall nonull (snd p)).
  { intros p <-. destruct (negb (eqb A fct 1)); [|exact H2].
    destruct (absorb_scale A ops2 fct) as [r|] eqn:E2; [|exact H2]. cbn [snd]. exact (nonull_absorb _ H2 _ _ E2). }
  destruct (if negb (eqb A fct 1)
       then match absorb_scale A ops2 fct with Some r => (1, r) | None => (fct, ops2) end
       else (fct, ops2)) as [fct' ops3] eqn:E3.
  pose proof (Abs _ eq_refl) as H3. cbn [snd] in H3.
  apply nonull_combine; [|constructor].
  destruct (negb (eqb A fct' 1) || match ops3 with [] => true | _ :: _ => false end); [|exact H3].
  apply Forall_app. split; [exact H3|constructor; [exact I|constructor]].
Qed.

Lemma nonull_mk_chain l : Forall nonull l -> nonull (mk_chain A l).
Proof.
  intros H.
  assert (G : Forall nonull (chain_general A l)).
  { unfold chain_general. rewrite (nonull_existsb _ (nonull_unpack l H)). apply nonull_chain_nonull. exact H. }
  assert (S : Forall nonull (chain_simplify A l)).
  { destruct l as [|a [|b [|c t]]]; cbn [chain_simplify]; try exact G; try exact H.
    inversion H as [|? ? Ha Hb]; subst.
    destruct (isIdentity A a); [exact Hb|]. destruct (isIdentity A b); [constructor; [exact Ha|constructor]|exact G]. }
  unfold mk_chain. destruct (chain_simplify A l) as [|o [|o2 t]].
  - exact I.
  - inversion S; subst. assumption.
  - apply nonull_Chain. exact S.
Qed.

Lemma nonull_flip : forall o t, nonull o -> nonull (flip A t o).
Proof.
  intros o t. revert o. apply (op_ind' (fun o => nonull o -> nonull (flip A t o)));
    try (intros; destruct (Z.eqb t 0) eqn:E0;
         [apply Z.eqb_eq in E0; subst t; rewrite flip_0; assumption|cbn [flip]; rewrite E0; cbn [nonull]; assumption]).
  - (* Chain *) intros l IHl Hn. destruct (Z.eqb t 0) eqn:E0.
    { apply Z.eqb_eq in E0; subst t; rewrite flip_0; assumption. }
    apply nonull_Chain in Hn. cbn [flip]. rewrite E0.
    assert (M : Forall nonull (map (flip A t) l)).
    { clear -IHl Hn. induction IHl as [|a r Ha Hr IH]; cbn [map]; [constructor|].
      inversion Hn; subst. constructor; [apply Ha; assumption|apply IH; assumption]. }
    destruct (Z.eqb t 3); apply nonull_mk_chain; [exact M|apply Forall_rev; exact M].
  - (* Adapter *) intros o tr IH Hn. cbn [nonull] in Hn. destruct (Z.eqb t 0) eqn:E0.
    { apply Z.eqb_eq in E0; subst t; rewrite flip_0; exact Hn. }
    cbn [flip]. rewrite E0. destruct (Z.eqb (Z.lxor t tr) 0); exact Hn.
Qed.

Definition flip_exact (o : op) : Prop :=
  wf o -> nonull o -> forall t k, kvalid t -> kvalid k -> capk (flip A t o) k = capk o (Z.lxor k t).

Lemma flip_caps_exact : forall o, flip_exact o.
Proof.
  apply op_ind'; unfold flip_exact;
    try (intros; destruct (Z.eqb t 0) eqn:E0;
         [apply Z.eqb_eq in E0; subst t; rewrite flip_0, Z.lxor_0_r; reflexivity|cbn [flip]; rewrite E0; reflexivity]).
  - (* Chain *) intros l IHl Hw Hn t k Ht Hk. destruct (Z.eqb t 0) eqn:E0.
    { apply Z.eqb_eq in E0; subst t; rewrite flip_0, Z.lxor_0_r; reflexivity. }
    apply wf_Chain in Hw. apply nonull_Chain in Hn.
    assert (Cm : allcap (map (flip A t) l) k = allcap l (Z.lxor k t)).
    { clear -IHl Hw Hn Ht Hk. induction IHl as [|a r Ha Hr IH]; [reflexivity|]. inversion Hw; subst. inversion Hn; subst.
      cbn [map allcap forallb]. rewrite (Ha H1 H3 t k Ht Hk). f_equal. apply IH; assumption. }
    assert (M : Forall nonull (map (flip A t) l)).
    { clear -Hn. induction Hn as [|a r Ha Hr IH]; cbn [map]; constructor; [apply nonull_flip; assumption|assumption]. }
    cbn [flip]. rewrite E0. rewrite capk_Chain. destruct (Z.eqb t 3).
    + rewrite capk_mk_chain_eq; [exact Cm|]. apply nonull_existsb, nonull_unpack. exact M.
    + rewrite capk_mk_chain_eq; [rewrite allcap_rev; exact Cm|]. apply nonull_existsb, nonull_unpack, Forall_rev. exact M.
  - (* Adapter *) intros o tr IH Hw Hn t k Ht Hk. cbn [wf] in Hw. destruct Hw as [Hwo Htr]. destruct (Z.eqb t 0) eqn:E0.
    { apply Z.eqb_eq in E0; subst t; rewrite flip_0, Z.lxor_0_r; reflexivity. }
    cbn [flip]. rewrite E0. destruct (Z.eqb (Z.lxor t tr) 0) eqn:En.
    + apply Z.eqb_eq in En. apply Z.lxor_eq in En. subst tr. cbn [capk].
      rewrite Z.lxor_assoc, Z.lxor_nilpotent, Z.lxor_0_r. reflexivity.
    + cbn [capk]. rewrite lxor_valid_assoc. reflexivity.
Qed.

Lemma flip_caps_exact_full o t : wf o -> nonull o -> kvalid t -> forall k, kvalid k ->
  Z.testbit (cap A (flip A t o)) k = Z.testbit (cap A o) (Z.lxor k t).
Proof.
  intros Hw Hn Ht k Hk. destruct (flip_sound o Hw t 0%Z Ht kvalid_0) as [W _].
  destruct (capk_spec _ W) as [_ B1]. destruct (capk_spec _ Hw) as [_ B2].
  rewrite (B1 k Hk), (B2 _ (kvalid_xor _ _ Hk Ht)). apply flip_caps_exact; assumption.
Qed.

(* ---- the statements exported to Props.v ---- *)
Lemma build_sound_full e : wfe e -> forall k, kvalid k -> advk e k = true ->
  Z.testbit (cap A (build A e)) k = true /\
  forall x i, apply (build A e) (mode_of k) x i = sem e k x i.
Proof.
  intros Hw k Hk Ha. destruct (build_sound e Hw) as [W S]. destruct (S k Hk Ha) as [C E].
  split; [|exact E]. destruct (capk_spec _ W) as [_ B]. rewrite (B k Hk). exact C.
Qed.

Lemma flip_sound_full o t : wf o -> kvalid t ->
  wf (flip A t o) /\
  forall k, kvalid k ->
    (Z.testbit (cap A o) (Z.lxor k t) = true -> Z.testbit (cap A (flip A t o)) k = true) /\
    forall x i, apply (flip A t o) (mode_of k) x i = apply o (mode_of (Z.lxor k t)) x i.
Proof.
  intros Hw Ht. destruct (flip_sound o Hw t 0%Z Ht kvalid_0) as [W _]. split; [exact W|].
  intros k Hk. destruct (flip_sound o Hw t k Ht Hk) as [_ [S C]].
  destruct (capk_spec _ W) as [_ B1]. destruct (capk_spec _ Hw) as [_ B2].
  split; [|exact S]. rewrite (B1 k Hk), (B2 _ (kvalid_xor _ _ Hk Ht)). exact C.
Qed.

Lemma mk_sum_sound_full l : wfl l ->
  wf (mk_sum A l) /\ forall k, kadj k -> forall x i, apply (mk_sum A l) (mode_of k) x i = sum_sem l (mode_of k) x i.
Proof.
  intros Hw. split; [apply (mk_sum_sound 0%Z l (or_introl eq_refl) Hw)|].
  intros k Hk. apply (mk_sum_sound k l Hk Hw).
Qed.

Lemma mk_chain_sound_full l : Forall wf l ->
  wf (mk_chain A l) /\ forall k, kvalid k ->
    (forallb (fun a => Z.testbit (cap A a) k) l = true -> Z.testbit (cap A (mk_chain A l)) k = true) /\
    (existsb (is_null A) (unpack_chain A l) = false ->
     Z.testbit (cap A (mk_chain A l)) k = forallb (fun a => Z.testbit (cap A a) k) l) /\
    forall x i, apply (mk_chain A l) (mode_of k) x i = comp l k x i.
Proof.
  intros Hw. destruct (mk_chain_sound 0%Z l kvalid_0 Hw) as [W _]. split; [exact W|].
  intros k Hk. destruct (mk_chain_sound k l Hk Hw) as [_ S].
  destruct (capk_spec _ W) as [_ B]. rewrite (B k Hk).
  assert (E : forallb (fun a => Z.testbit (cap A a) k) l = allcap l k).
  { unfold allcap. clear -Hw Hk. induction Hw as [|a t Ha Ht IH]; [reflexivity|]. cbn [forallb]. rewrite IH.
    destruct (capk_spec _ Ha) as [_ Ba]. rewrite (Ba k Hk). reflexivity. }
  rewrite E. split; [apply capk_mk_chain_ge|]. split; [apply capk_mk_chain_eq|exact S].
Qed.

End Alg.

