(* C26 -- lemmas about file names: decimal printing/parsing, split, the regular expression. *)
From Coq Require Import List ZArith Bool Ascii String Lia.
From Coq Require Import DecimalString DecimalN DecimalPos DecimalFacts.
Import ListNotations.
Require Import NV.C26.Prelude NV.C26.Gen_helpers.
Open Scope Z_scope.

Lemma name_eqb_eq a b : name_eqb a b = true <-> a = b.
Proof.
  revert b. induction a as [|x a IH]; destruct b as [|y b]; cbn; split; try congruence; try reflexivity.
  - intros H. apply andb_true_iff in H. destruct H as [H1 H2].
    apply Ascii.eqb_eq in H1. apply IH in H2. now subst.
  - intros H. inversion H; subst. rewrite Ascii.eqb_refl. cbn. now apply IH.
Qed.

Lemma name_eqb_refl a : name_eqb a a = true.
Proof. now apply name_eqb_eq. Qed.

Lemma name_eqb_neq a b : name_eqb a b = false <-> a <> b.
Proof. rewrite <- name_eqb_eq. destruct (name_eqb a b); split; congruence. Qed.

(* ---- split ---- *)
Lemma split_on_nonnil c s : split_on c s <> [].
Proof.
  destruct s as [|x s]; cbn; [discriminate|].
  destruct (Ascii.eqb x c); [discriminate|]. destruct (split_on c s); discriminate.
Qed.

Lemma split_on_app c a b : split_on c (a ++ c :: b) = (split_on c a ++ split_on c b)%list.
Proof.
  induction a as [|x a IH]; cbn.
  - now rewrite Ascii.eqb_refl.
  - destruct (Ascii.eqb x c); [now rewrite IH|].
    rewrite IH. pose proof (split_on_nonnil c a). destruct (split_on c a); [contradiction|reflexivity].
Qed.

Lemma split_on_none c s :
  forallb (fun x => negb (Ascii.eqb x c)) s = true -> split_on c s = [s].
Proof.
  induction s as [|x s IH]; cbn; [reflexivity|]. intros H. apply andb_true_iff in H.
  destruct H as [H1 H2]. destruct (Ascii.eqb x c); [discriminate|]. now rewrite IH.
Qed.

Lemma nth_from_end_2 {T} (l : list T) a b : nth_from_end 2 (l ++ [a; b]) = Ret a.
Proof. unfold nth_from_end. rewrite rev_app_distr. reflexivity. Qed.

(* ---- f"{i}" and int() ---- *)
Lemma digits_string d : forallb is_digit (list_ascii_of_string (NilEmpty.string_of_uint d)) = true.
Proof. induction d; cbn [NilEmpty.string_of_uint list_ascii_of_string forallb]; try reflexivity; rewrite IHd; reflexivity. Qed.

Lemma dec_digits i : forallb is_digit (dec i) = true.
Proof.
  unfold dec, str, NilZero.string_of_uint.
  destruct (N.to_uint (Z.to_N i)) eqn:E; try (rewrite <- E; apply digits_string); reflexivity.
Qed.

Lemma to_uint_nonnil n : N.to_uint n <> Decimal.Nil.
Proof.
  destruct n; cbn; [discriminate|]. apply Unsigned.to_uint_nonnil.
Qed.

Lemma dec_nonempty i : dec i <> [].
Proof.
  unfold dec, str, NilZero.string_of_uint. pose proof (to_uint_nonnil (Z.to_N i)).
  destruct (N.to_uint (Z.to_N i)); cbn; congruence.
Qed.

Lemma int_of_dec i : 0 <= i -> int_of_name (dec i) = Ret i.
Proof.
  intros. unfold int_of_name, dec, str. rewrite string_of_list_ascii_of_string.
  rewrite NilZero.usu by apply to_uint_nonnil.
  rewrite DecimalN.Unsigned.of_to. f_equal. lia.
Qed.

Lemma digit_not_dot x : is_digit x = true -> negb (Ascii.eqb x "."%char) = true.
Proof.
  intros H. destruct (Ascii.eqb x ".") eqn:E; [|reflexivity].
  apply Ascii.eqb_eq in E. subst. discriminate.
Qed.

Lemma digits_no_dot s : forallb is_digit s = true -> forallb (fun x => negb (Ascii.eqb x "."%char)) s = true.
Proof.
  induction s; cbn; [reflexivity|]. intros H. apply andb_true_iff in H. destruct H.
  rewrite digit_not_dot, IHs; auto.
Qed.

(* ---- the generated name functions ---- *)
Lemma file_index_sample base i : 0 <= i -> file_index (sample_file_name base i) = Ret i.
Proof.
  intros. unfold file_index, sample_file_name.
  change (str ".") with ["."%char]. change (str ".pickle") with ("."%char :: str "pickle").
  cbn [app]. rewrite split_on_app. rewrite split_on_app.
  rewrite (split_on_none _ (dec i)) by (apply digits_no_dot, dec_digits).
  change (split_on "." (str "pickle")) with [str "pickle"].
  change ([dec i] ++ [str "pickle"])%list with [dec i; str "pickle"].
  rewrite nth_from_end_2. cbn [bind]. now apply int_of_dec.
Qed.

Lemma sample_file_name_inj base i j :
  0 <= i -> 0 <= j -> sample_file_name base i = sample_file_name base j -> i = j.
Proof.
  intros Hi Hj E. pose proof (file_index_sample base i Hi) as A.
  rewrite E, (file_index_sample base j Hj) in A. congruence.
Qed.

(* ---- the regular expression ---- *)
Lemma rmatch_lit_prefix base p s : rmatch (map RLit base ++ p) (base ++ s) = rmatch p s.
Proof. induction base as [|x b IH]; cbn; [reflexivity|]. now rewrite Ascii.eqb_refl. Qed.

Lemma star_digits_app k ds t :
  forallb is_digit ds = true -> k t = true -> star_digits k (ds ++ t)%list = true.
Proof.
  induction ds as [|y ds IH]; cbn; intros Hd Hk.
  - destruct t; cbn; [assumption|]. rewrite Hk. apply orb_true_r.
  - apply andb_true_iff in Hd. destruct Hd as [H1 H2]. rewrite H1, IH by assumption. reflexivity.
Qed.

Lemma sample_name_matches base i : rmatch (sample_pattern base) (sample_file_name base i) = true.
Proof.
  unfold sample_pattern, sample_file_name. rewrite rmatch_lit_prefix.
  change (str ".") with ["."%char]. cbn [app rmatch].
  pose proof (dec_digits i) as D. pose proof (dec_nonempty i) as N.
  destruct (dec i) as [|x ds]; [contradiction|]. cbn [forallb] in D.
  apply andb_true_iff in D. destruct D as [D1 D2].
  cbn [app]. rewrite D1. cbn [is_newline]. 
  replace (negb (is_newline ".")) with true by reflexivity. cbn [andb].
  apply star_digits_app; [assumption|reflexivity].
Qed.

Lemma mean_name_no_match base : rmatch (sample_pattern base) (mean_file_name base) = false.
Proof. unfold sample_pattern, mean_file_name. rewrite rmatch_lit_prefix. reflexivity. Qed.

Lemma sample_name_not_mean base i : sample_file_name base i <> mean_file_name base.
Proof.
  intros E. pose proof (sample_name_matches base i) as A. rewrite E, mean_name_no_match in A. discriminate.
Qed.
