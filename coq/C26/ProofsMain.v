(* C26 -- round trip save -> load, task partition, well-formedness along histories. *)
From Coq Require Import List ZArith Bool Ascii Lia.
Import ListNotations.
Require Import NV.C26.Prelude NV.C26.Gen_helpers NV.C26.Model NV.C26.ProofsShare NV.C26.ProofsNames NV.C26.ProofsFS.
Open Scope Z_scope.

Section Main.
Variable A : Type.
Notation content := (content A).
Notation dir := (dir A).
Notation lookup := (lookup A).
Notation sfn := sample_file_name.

(* the slice of the global list that task [rank] of [ntask] holds after a load *)
Definition slice {X} (l : list X) (ntask rank : Z) : list X :=
  let n := Z.of_nat (length l) in
  firstn (Z.to_nat (sr_hi n ntask rank - sr_lo n ntask rank)) (skipn (Z.to_nat (sr_lo n ntask rank)) l).

Lemma firstn_map' {X Y} (f : X -> Y) l k : firstn k (map f l) = map f (firstn k l).
Proof. revert l; induction k; intros [|x l]; cbn; try reflexivity. now rewrite IHk. Qed.
Lemma skipn_map' {X Y} (f : X -> Y) l k : skipn k (map f l) = map f (skipn k l).
Proof. revert l; induction k; intros [|x l]; cbn; try reflexivity. now rewrite IHk. Qed.

Lemma mapM_get_plain (l : list A) : mapM (get_plain A) (map Plain l) = Ret l.
Proof. induction l; cbn; [reflexivity|]. now rewrite IHl. Qed.
Lemma mapM_get_resid (l : list (A * bool)) :
  mapM (get_resid A) (map (fun rn => Resid (fst rn) (snd rn)) l) = Ret l.
Proof. induction l as [|[r n] l IH]; cbn; [reflexivity|]. now rewrite IH. Qed.

(* reading task [rank]'s files from a directory that holds [objs] under the sample names 0..n-1 *)
Lemma load_block d base (objs : list content) ntask rank :
  1 <= Z.of_nat (length objs) -> disk_has A d base (Z.of_nat (length objs)) ->
  (forall k, (k < length objs)%nat -> lookup d (sfn base (Z.of_nat k)) = nth_error objs k) ->
  0 < ntask -> 0 <= rank < ntask ->
  bind (list_local_sample_files A d base ntask rank) (fun files => mapM (load_from_disk A d) files)
  = Ret (slice objs ntask rank).
Proof.
  intros H1 D Hk Ht Hr. rewrite (list_local_sample_files_ok A d base _ ntask rank H1 D Ht Hr).
  cbn [bind]. set (n := Z.of_nat (length objs)) in *.
  pose proof (sr_lo_nonneg n ntask rank ltac:(lia) ltac:(lia) ltac:(lia)) as Hlo.
  pose proof (sr_hi_le n ntask rank ltac:(lia) ltac:(lia) ltac:(lia)) as Hhi.
  pose proof (sr_mono n ntask rank ltac:(lia) ltac:(lia) ltac:(lia)) as Hm.
  rewrite zrange_nat by assumption. rewrite map_map.
  unfold slice. fold n. apply mapM_block. intros k Hkr.
  assert (Hkn : (k < length objs)%nat) by lia.
  destruct (nth_error objs k) as [y|] eqn:E; [|apply nth_error_None in E; lia].
  exists y. split; [reflexivity|]. unfold load_from_disk. rewrite Hk by assumption. now rewrite E.
Qed.

Lemma saved_disk_has d d' base objs mean rm :
  wf A d base -> saved A d d' base objs mean rm -> disk_has A d' base (Z.of_nat (length objs)).
Proof.
  intros W S. split; [eapply saved_wf; eassumption|]. destruct S as (S1 & S2 & _). split; [|assumption].
  intros k Hk. replace k with (Z.of_nat (Z.to_nat k)) by lia. rewrite S1 by lia.
  intro E. apply nth_error_None in E. lia.
Qed.

(* ---- round trip: SampleList ---- *)
Lemma roundtrip_plain d base (parts : list (list A)) ov ntask rank :
  wf A d base -> (1 <= length (concat parts))%nat ->
  can_save A d base (Z.of_nat (length (concat parts))) None ov ->
  0 < ntask -> 0 <= rank < ntask ->
  snd (save_plain A d base parts ov) = Ret tt /\
  load_plain A (fst (save_plain A d base parts ov)) base ntask rank = Ret (slice (concat parts) ntask rank).
Proof.
  intros W H1 Hc Ht Hr. unfold save_plain.
  assert (Ec : concat (map (map Plain) parts) = map Plain (concat parts)) by (symmetry; apply concat_map).
  assert (El : length (concat (map (map Plain) parts)) = length (concat parts)) by (rewrite Ec; apply map_length).
  destruct (save_list_ok A d base (map (map Plain) parts) None plain_save_unlinks_mean ov) as [S1 S2]; [now rewrite El|].
  split; [assumption|]. set (d' := fst (save_list A d base (map (map Plain) parts) None plain_save_unlinks_mean ov)) in *.
  pose proof (saved_disk_has d d' base _ None _ W S2) as D.
  unfold load_plain.
  assert (B := load_block d' base (concat (map (map Plain) parts)) ntask rank ltac:(lia) D (proj1 S2) Ht Hr).
  destruct (list_local_sample_files A d' base ntask rank) as [files| |]; cbn [bind] in B |- *; try discriminate.
  rewrite B. cbn [bind]. rewrite Ec. unfold slice. rewrite map_length.
  rewrite skipn_map', firstn_map'. apply mapM_get_plain.
Qed.

(* ---- round trip: ResidualSampleList ---- *)
Lemma roundtrip_resid d base m (parts : list (list (A * bool))) ov ntask rank :
  wf A d base -> (1 <= length (concat parts))%nat ->
  can_save A d base (Z.of_nat (length (concat parts))) (Some (MeanC m)) ov ->
  0 < ntask -> 0 <= rank < ntask ->
  snd (save_resid A d base m parts ov) = Ret tt /\
  load_resid A (fst (save_resid A d base m parts ov)) base ntask rank = Ret (m, slice (concat parts) ntask rank).
Proof.
  intros W H1 Hc Ht Hr. unfold save_resid. set (R := fun rn : A * bool => Resid (fst rn) (snd rn)).
  assert (Ec : concat (map (map R) parts) = map R (concat parts)) by (symmetry; apply concat_map).
  assert (El : length (concat (map (map R) parts)) = length (concat parts)) by (rewrite Ec; apply map_length).
  destruct (save_list_ok A d base (map (map R) parts) (Some (MeanC m)) false ov) as [S1 S2]; [now rewrite El|].
  split; [assumption|]. set (d' := fst (save_list A d base (map (map R) parts) (Some (MeanC m)) false ov)) in *.
  pose proof (saved_disk_has d d' base _ _ _ W S2) as D.
  unfold load_resid, load_from_disk at 1.
  destruct S2 as (S2a & S2b & S2c & S2d & S2e). rewrite (S2c _ eq_refl). cbn [bind].
  assert (B := load_block d' base (concat (map (map R) parts)) ntask rank ltac:(lia) D S2a Ht Hr).
  destruct (list_local_sample_files A d' base ntask rank) as [files| |]; cbn [bind] in B |- *; try discriminate.
  rewrite B. cbn [bind]. rewrite Ec. unfold slice. rewrite map_length.
  rewrite skipn_map', firstn_map'. unfold R. rewrite mapM_get_resid. reflexivity.
Qed.

(* ---- the slices of all tasks, in rank order, are the whole list ---- *)
Lemma slices_concat {X} (l : list X) ntask :
  0 < ntask -> concat (map (slice l ntask) (zrange 0 ntask)) = l.
Proof.
  intros Ht. set (n := Z.of_nat (length l)).
  assert (G : forall k, (k <= Z.to_nat ntask)%nat ->
            concat (map (slice l ntask) (zrange 0 (Z.of_nat k))) = firstn (Z.to_nat (sr_lo n ntask (Z.of_nat k))) l).
  { induction k as [|k IH]; intros Hk.
    - change (Z.of_nat 0) with 0. change (zrange 0 0) with (@nil Z). cbn [map concat].
      rewrite sr_first by assumption. reflexivity.
    - rewrite <- (zrange_app 0 (Z.of_nat k) (Z.of_nat (S k))) by lia.
      rewrite map_app, concat_app, IH by lia.
      replace (zrange (Z.of_nat k) (Z.of_nat (S k))) with [Z.of_nat k].
      2:{ unfold zrange. replace (Z.to_nat (Z.of_nat (S k) - Z.of_nat k)) with 1%nat by lia. cbn. f_equal. lia. }
      cbn [map concat]. rewrite app_nil_r. unfold slice. fold n.
      replace (Z.of_nat (S k)) with (Z.of_nat k + 1) by lia.
      rewrite <- sr_contiguous by lia.
      pose proof (sr_lo_nonneg n ntask (Z.of_nat k) ltac:(lia) ltac:(lia) ltac:(lia)).
      pose proof (sr_mono n ntask (Z.of_nat k) ltac:(lia) ltac:(lia) ltac:(lia)).
      pose proof (firstn_skipn_split l 0 (Z.to_nat (sr_lo n ntask (Z.of_nat k))) (Z.to_nat (sr_hi n ntask (Z.of_nat k))) ltac:(lia)) as F.
      cbn [skipn] in F. rewrite !Nat.sub_0_r in F. rewrite F. f_equal. f_equal. lia. }
  specialize (G (Z.to_nat ntask) ltac:(lia)). rewrite Z2Nat.id in G by lia. rewrite G.
  rewrite sr_last by lia. unfold n. rewrite Nat2Z.id. apply firstn_all.
Qed.

(* ---- every save, successful or not, keeps a directory well formed ---- *)
Lemma wf_remove d base f : wf A d base -> wf A (remove A d f) base.
Proof.
  intros W g Hg Hm. apply W; [|assumption]. rewrite lookup_remove in Hg.
  destruct (name_eqb f g); congruence.
Qed.

Lemma wf_write d base f c :
  wf A d base -> (rmatch (sample_pattern base) f = true -> exists i, 0 <= i /\ f = sfn base i) ->
  wf A (write A d f c) base.
Proof.
  intros W Hf g Hg Hm. rewrite lookup_write in Hg.
  destruct (name_eqb f g) eqn:E; [apply name_eqb_eq in E; subst; auto|]. now apply W.
Qed.

Lemma wf_save_to_disk d base f c ov :
  wf A d base -> (rmatch (sample_pattern base) f = true -> exists i, 0 <= i /\ f = sfn base i) ->
  wf A (fst (save_to_disk A d f c ov)) base.
Proof.
  intros W Hf. unfold save_to_disk. destruct (negb ov && isfile A d f); cbn [fst]; [assumption|].
  apply wf_write; [|assumption]. destruct (ov && isfile A d f); [now apply wf_remove|assumption].
Qed.

Lemma wf_save_local base ov : forall objs d start,
  0 <= start -> wf A d base -> wf A (fst (save_local A d base start objs ov)) base.
Proof.
  induction objs as [|o rest IH]; intros d start Hs W; cbn [save_local]; [assumption|].
  pose proof (wf_save_to_disk d base (sfn base start) o ov W) as W1.
  destruct (save_to_disk A d (sfn base start) o ov) as [d1 [|]]; cbn [fst] in *.
  - apply W1. intros _. exists start. auto.
  - apply IH; [lia|]. apply W1. intros _. exists start. auto.
Qed.

Lemma wf_save_tasks base ov : forall parts d start,
  0 <= start -> wf A d base -> wf A (fst (save_tasks A d base start parts ov)) base.
Proof.
  induction parts as [|p rest IH]; intros d start Hs W; cbn [save_tasks]; [assumption|].
  pose proof (wf_save_local base ov p d start Hs W) as W1.
  destruct (save_local A d base start p ov) as [d1 r1]. cbn [fst] in W1.
  specialize (IH d1 (start + Z.of_nat (length p)) ltac:(lia) W1).
  destruct (save_tasks A d1 base (start + Z.of_nat (length p)) rest ov) as [d2 r2]. assumption.
Qed.

Lemma wf_save_list d base parts mean rm ov :
  wf A d base -> wf A (fst (save_list A d base parts mean rm ov)) base.
Proof.
  intros W. unfold save_list, ensure_ending.
  set (n := Z.of_nat (length (concat parts))).
  assert (W1 : wf A (fst (if ov then (remove A d (sfn base n), false)
                          else if isfile A d (sfn base n) then (d, true) else (d, false))) base).
  { destruct ov; [now apply wf_remove|]. now destruct (isfile A d (sfn base n)). }
  destruct (if ov then (remove A d (sfn base n), false)
            else if isfile A d (sfn base n) then (d, true) else (d, false)) as [d0 [|]]; cbn [fst] in *; [assumption|].
  assert (W1' : wf A (if rm && ov then remove A d0 (mean_file_name base) else d0) base).
  { destruct (rm && ov); [now apply wf_remove|assumption]. }
  set (d1 := if rm && ov then remove A d0 (mean_file_name base) else d0) in *.
  pose proof (wf_save_tasks base ov parts d1 0 ltac:(lia) W1') as W2.
  destruct (save_tasks A d1 base 0 parts ov) as [d2 [|]]; cbn [fst] in *; [assumption|].
  destruct mean as [m|]; [|assumption].
  pose proof (wf_save_to_disk d2 base (mean_file_name base) m ov W2) as W3.
  destruct (save_to_disk A d2 (mean_file_name base) m ov) as [d3 [|]]; cbn [fst] in *; apply W3;
    intros Hm; rewrite mean_name_no_match in Hm; discriminate.
Qed.

(* a history of saves of either kind *)
Inductive save_op :=
| SavePlain (parts : list (list A)) (ov : bool)
| SaveResid (m : A) (parts : list (list (A * bool))) (ov : bool).

Definition run_op (d : dir) (base : name) (o : save_op) : dir :=
  match o with
  | SavePlain parts ov => fst (save_plain A d base parts ov)
  | SaveResid m parts ov => fst (save_resid A d base m parts ov)
  end.

Lemma wf_history base : forall ops d, wf A d base -> wf A (fold_left (fun d o => run_op d base o) ops d) base.
Proof.
  induction ops as [|o ops IH]; intros d W; cbn [fold_left]; [assumption|].
  apply IH. destruct o; cbn [run_op]; apply wf_save_list; assumption.
Qed.

Lemma wf_empty base : wf A [] base.
Proof. intros f Hf. cbn in Hf. congruence. Qed.

End Main.
