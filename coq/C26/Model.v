(* C26 -- executable model of sample-list persistence and statistics (no proofs in this file).

   Translated parts (Gen_helpers.v, regenerated from /repo on every run): shareRange,
   _consecutive_length, _sample_file_name, the mean file name, the regular expression and the index
   extraction of _list_local_sample_files, StatCalculator.__init__/add/mean/var.
   Hand-modelled parts (this file, tied by the correspondence check): the directory, _save_to_disk,
   _ensure_proper_sample_list_ending, the save loops of SampleList / ResidualSampleList, the control
   flow of _list_local_sample_files and load, sample_stat / average.

   A directory is a finite map from file names (the entries of ONE directory, the one that contains
   `file_name_base`) to contents; `base` is the last path component of `file_name_base`. *)
From Coq Require Import List ZArith Bool Ascii.
Import ListNotations.
Require Import NV.C26.Prelude NV.C26.Gen_helpers.
Require NV.C23.Model.
Open Scope Z_scope.

Section FS.
Variable A : Type.          (* a pickled Field / MultiField *)

(* what a pickle file holds:  SampleList: the sample;  ResidualSampleList: [residual, neg];
   `<base>.mean.pickle`: the mean *)
Inductive content := Plain (a : A) | Resid (r : A) (neg : bool) | MeanC (m : A).

Definition dir := list (name * content).

Fixpoint lookup (d : dir) (n : name) : option content :=
  match d with
  | [] => None
  | (m, c) :: d' => if name_eqb m n then Some c else lookup d' n
  end.

(* os.path.isfile *)
Definition isfile (d : dir) (n : name) : bool :=
  match lookup d n with Some _ => true | None => false end.

(* os.remove / Path.unlink(missing_ok=True) *)
Definition remove (d : dir) (n : name) : dir :=
  filter (fun e => negb (name_eqb (fst e) n)) d.

(* with open(file_name, "wb") as f: pickle.dump(obj, f)     (creates or truncates) *)
Definition write (d : dir) (n : name) (c : content) : dir := (n, c) :: remove d n.

(* def _save_to_disk(file_name, obj, overwrite=False):
       if not overwrite and os.path.isfile(file_name):
           raise RuntimeError(f"{file_name} already exists")
       if overwrite and os.path.isfile(file_name):
           os.remove(file_name)
       with open(file_name, "wb") as f:
           pickle.dump(obj, f, pickle.HIGHEST_PROTOCOL) *)
Definition save_to_disk (d : dir) (fname : name) (obj : content) (overwrite : bool) : dir * bool :=
  if negb overwrite && isfile d fname then (d, true)
  else
    let d := if overwrite && isfile d fname then remove d fname else d in
    (write d fname obj, false).

(* def _ensure_proper_sample_list_ending(fname, overwrite, comm):     (the master's action)
       if MPI_master:
           if overwrite:
               pathlib.Path(fname).unlink(missing_ok=True)
           else:
               if os.path.isfile(fname):
                   raise RuntimeError(...) *)
Definition ensure_ending (d : dir) (fname : name) (overwrite : bool) : dir * bool :=
  if overwrite then (remove d fname, false)
  else if isfile d fname then (d, true) else (d, false).

(* one task:   for ii, isample in enumerate(self.local_indices):
                   _save_to_disk(_sample_file_name(file_name_base, isample), obj_ii, overwrite)
   local_indices = range(start, start + n_local).  An exception ends this task's loop. *)
Fixpoint save_local (d : dir) (base : name) (start : Z) (objs : list content) (overwrite : bool)
  : dir * bool :=
  match objs with
  | [] => (d, false)
  | o :: rest =>
      match save_to_disk d (sample_file_name base start) o overwrite with
      | (d', false) => save_local d' base (start + 1) rest overwrite
      | (d', true) => (d', true)
      end
  end.

(* all tasks, in rank order (the tasks write pairwise different files, see
   Proofs.save_tasks_lookup: the outcome does not depend on the interleaving).
   _compute_local_indices: start = sum(n_locals[:rank]).  A task that raised does not stop the
   others (ensure_all_tasks_succeed collects the flags afterwards). *)
Fixpoint save_tasks (d : dir) (base : name) (start : Z) (parts : list (list content))
         (overwrite : bool) : dir * bool :=
  match parts with
  | [] => (d, false)
  | p :: rest =>
      let '(d1, r1) := save_local d base start p overwrite in
      let '(d2, r2) := save_tasks d1 base (start + Z.of_nat (length p)) rest overwrite in
      (d2, r1 || r2)
  end.

(* SampleList.save (mean = None) / ResidualSampleList.save (mean = Some m):
       _ensure_proper_sample_list_ending(_sample_file_name(file_name_base, self.n_samples), overwrite, comm)
       [SampleList only, when present in the source (flag rm_mean = plain_save_unlinks_mean):
        with ensure_all_tasks_succeed(self.comm):
            if overwrite and self.MPI_master:
                pathlib.Path(f"{file_name_base}.mean.pickle").unlink(missing_ok=True) ]
       with ensure_all_tasks_succeed(comm): <save_local on every task>
       with ensure_all_tasks_succeed(comm): if master: _save_to_disk(mean file, self._m, overwrite)
   Every failure surfaces as RuntimeError on every task (ensure_all_tasks_succeed). *)
Definition save_list (d : dir) (base : name) (parts : list (list content)) (mean : option content)
           (rm_mean : bool) (overwrite : bool) : dir * result unit :=
  let n := Z.of_nat (length (concat parts)) in
  match ensure_ending d (sample_file_name base n) overwrite with
  | (d1, true) => (d1, Raise RuntimeError)
  | (d1, false) =>
      let d1 := if rm_mean && overwrite then remove d1 (mean_file_name base) else d1 in
      match save_tasks d1 base 0 parts overwrite with
      | (d2, true) => (d2, Raise RuntimeError)
      | (d2, false) =>
          match mean with
          | None => (d2, Ret tt)
          | Some m =>
              match save_to_disk d2 (mean_file_name base) m overwrite with
              | (d3, true) => (d3, Raise RuntimeError)
              | (d3, false) => (d3, Ret tt)
              end
          end
      end
  end.

Definition save_plain d base (parts : list (list A)) overwrite :=
  save_list d base (map (map Plain) parts) None plain_save_unlinks_mean overwrite.
Definition save_resid d base (m : A) (parts : list (list (A * bool))) overwrite :=
  save_list d base (map (map (fun rn => Resid (fst rn) (snd rn))) parts) (Some (MeanC m)) false overwrite.

(* ---- loading ---- *)
Fixpoint mapM {X Y} (f : X -> result Y) (l : list X) : result (list Y) :=
  match l with
  | [] => Ret []
  | x :: t => bind (f x) (fun y => bind (mapM f t) (fun ys => Ret (y :: ys)))
  end.

(* range(lo, hi) *)
Definition zrange (lo hi : Z) : list Z := map (fun i => lo + Z.of_nat i) (seq 0 (Z.to_nat (hi - lo))).

(* def _list_local_sample_files(cls, file_name_base, comm=None):
       base_dir, base_file = os.path.split(os.path.abspath(file_name_base))
       files = [ff for ff in os.listdir(base_dir) if re.match(f"{base_file}.[0-9]+.pickle", ff)]
       if len(files) == 0:
           raise RuntimeError(f"No files matching `{file_name_base}.*.pickle`")
       n_samples = _consecutive_length(list(map(lambda x: int(x.split(".")[-2]), files)))
       ntask, rank, _ = get_MPI_params_from_comm(comm)
       local_indices = range( *shareRange(n_samples, ntask, rank))
       files = [f"{file_name_base}.{ii}.pickle" for ii in local_indices]
       for ff in files:
           if not os.path.isfile(ff):
               raise RuntimeError(f"File {ff} not found")
       return files
   NB the last list comprehension repeats the format of _sample_file_name; the translator checks
   only _sample_file_name, this line is tied by the correspondence. *)
Definition n_samples_on_disk (d : dir) (base : name) : result Z :=
  let files := filter (rmatch (sample_pattern base)) (map fst d) in
  if (length files =? 0)%nat then Raise RuntimeError
  else bind (mapM file_index files) consecutive_length.

Definition list_local_sample_files (d : dir) (base : name) (ntask rank : Z) : result (list name) :=
  bind (n_samples_on_disk d base) (fun n_samples =>
  let '(lo, hi) := shareRange n_samples ntask rank in
  let files := map (sample_file_name base) (zrange lo hi) in
  if forallb (isfile d) files then Ret files else Raise RuntimeError).

(* _load_from_disk; a missing file is FileNotFoundError (reported as OtherError) *)
Definition load_from_disk (d : dir) (f : name) : result content :=
  match lookup d f with Some c => Ret c | None => Raise OtherError end.

Definition get_plain (c : content) : result A :=
  match c with Plain a => Ret a | _ => Raise OtherError end.
Definition get_resid (c : content) : result (A * bool) :=
  match c with Resid r n => Ret (r, n) | _ => Raise OtherError end.

(* SampleList.load on task `rank` of `ntask`:
       files = cls._list_local_sample_files(file_name_base, comm)
       samples = [_load_from_disk(ff) for ff in files]
       return cls(samples, comm=comm, domain=dom)
   (a file that does not hold a field makes the constructor fail: OtherError) *)
Definition load_plain (d : dir) (base : name) (ntask rank : Z) : result (list A) :=
  bind (list_local_sample_files d base ntask rank) (fun files =>
  bind (mapM (load_from_disk d) files) (mapM get_plain)).

(* ResidualSampleList.load:
       mean = _load_from_disk(f"{file_name_base}.mean.pickle")
       files = cls._list_local_sample_files(file_name_base, comm)
       tmp = [_load_from_disk(ff) for ff in files]
       res = [aa[0] for aa in tmp];  neg = [aa[1] for aa in tmp]
       return cls(mean, res, neg, comm=comm) *)
Definition load_resid (d : dir) (base : name) (ntask rank : Z) : result (A * list (A * bool)) :=
  bind (load_from_disk d (mean_file_name base)) (fun mc =>
  bind (list_local_sample_files d base ntask rank) (fun files =>
  bind (mapM (load_from_disk d) files) (fun tmp =>
  bind (mapM get_resid tmp) (fun rs =>
  match mc with MeanC m => Ret (m, rs) | _ => Raise OtherError end)))).

(* ResidualSampleList.load_mean (a classmethod without communicator: every task reads the file):
       @classmethod
       def load_mean(cls, file_name_base):
           return _load_from_disk(f"{file_name_base}.mean.pickle")
   returns whatever object the pickle holds (no check); a missing file is FileNotFoundError
   (OtherError).  The translator checks that this f-string is the one of save/load. *)
Definition load_mean (d : dir) (base : name) : result content :=
  load_from_disk d (mean_file_name base).

(* all tasks of a load *)
Definition load_plain_all d base (ntask : Z) : list (result (list A)) :=
  map (load_plain d base ntask) (zrange 0 ntask).

End FS.

Arguments Plain {A}. Arguments Resid {A}. Arguments MeanC {A}.

(* ---- statistics (sample_stat / average) over an abstract value type ---- *)
Section Stats.
Variable F : Type.
Variable O : fops F.

Definition sc_add_all (s : sc F) (xs : list F) : result (sc F) :=
  fold_left (fun r x => bind r (fun s => sc_add F O s x)) xs (Ret s).

(* def average(self, op=None):
       res = self._prepare_average(op);  n = self.n_samples
       return utilities.allreduce_sum(res, self.comm) / n
   allreduce_sum is the pairwise tree of C23 (the same for every task count: C23_value). *)
Definition average (outs : list F) : result F :=
  match NV.C23.Model.seq_sum F (o_add F O) outs with
  | Some s => Ret (o_div F O s (o_ofZ F O (Z.of_nat (length outs))))
  | None => Raise OtherError           (* empty list: vals[0] raises IndexError *)
  end.

(* def sample_stat(self, op=None):
       if self.n_samples == 1:
           res = self.average(op)
           return res, 0*res
       sc = StatCalculator()
       for ss in self.iterator(op):
           sc.add(ss)
       return sc.mean, sc.var *)
Definition sample_stat (outs : list F) : result (F * F) :=
  if Z.of_nat (length outs) =? 1 then
    bind (average outs) (fun res => Ret (res, o_mul F O (o_ofZ F O 0) res))
  else
    bind (sc_add_all (sc_init F O) outs) (fun s =>
    bind (sc_mean F O s) (fun m =>
    bind (sc_var F O s) (fun v => Ret (m, v)))).
End Stats.

(* ---- helpers for the correspondence (decidable comparisons) ---- *)
Fixpoint list_eqb {X} (eqb : X -> X -> bool) (a b : list X) : bool :=
  match a, b with
  | [], [] => true
  | x :: a', y :: b' => eqb x y && list_eqb eqb a' b'
  | _, _ => false
  end.

Definition val := list Z.      (* the raw integer entries of a sample *)
Definition val_eqb : val -> val -> bool := list_eqb Z.eqb.

Definition content_eqb (a b : content val) : bool :=
  match a, b with
  | Plain x, Plain y => val_eqb x y
  | Resid x n, Resid y m => val_eqb x y && Bool.eqb n m
  | MeanC x, MeanC y => val_eqb x y
  | _, _ => false
  end.

(* same directory: same number of entries and every observed entry is found in the model
   (model directories never hold a name twice) *)
Definition dir_eqb (model obs : dir val) : bool :=
  (length model =? length obs)%nat &&
  forallb (fun e => match lookup val model (fst e) with
                    | Some c => content_eqb c (snd e) | None => false end) obs.

Definition res_eqb {X} (eqb : X -> X -> bool) (a b : result X) : bool :=
  match a, b with
  | Ret x, Ret y => eqb x y
  | Raise e, Raise f => exn_eqb e f
  | _, _ => false
  end.

Definition save_ok (r : dir val * result unit) (obs_dir : dir val) (obs_res : result unit) : bool :=
  dir_eqb (fst r) obs_dir && res_eqb (fun _ _ => true) (snd r) obs_res.

Definition rn_eqb (a b : val * bool) : bool := val_eqb (fst a) (fst b) && Bool.eqb (snd a) (snd b).

Definition load_plain_ok (d : dir val) (base : name) (ntask : Z) (obs : list (result (list val))) : bool :=
  list_eqb (res_eqb (list_eqb val_eqb)) (map (load_plain val d base ntask) (zrange 0 ntask)) obs.

Definition load_resid_ok (d : dir val) (base : name) (ntask : Z)
           (obs : list (result (val * list (val * bool)))) : bool :=
  list_eqb (res_eqb (fun a b => val_eqb (fst a) (fst b) && list_eqb rn_eqb (snd a) (snd b)))
           (map (load_resid val d base ntask) (zrange 0 ntask)) obs.

(* load_mean on the directory observed after a step *)
Definition load_mean_ok (d : dir val) (base : name) (obs : result (content val)) : bool :=
  res_eqb content_eqb (load_mean val d base) obs.

(* ---- IEEE binary64 instance for the bit-exact comparison of StatCalculator / average ---- *)
From Coq Require Import PrimFloat Uint63.

Definition float_ops : fops float :=
  mk_fops float 0%float 1%float PrimFloat.add PrimFloat.sub PrimFloat.mul PrimFloat.div
          (fun z => PrimFloat.of_uint63 (Uint63.of_Z z)).

(* same bits (no NaNs occur in the generated cases; eqb identifies +0 and -0, so the sign of a
   zero is compared through 1/x) *)
Definition feq (a b : float) : bool :=
  PrimFloat.eqb a b && PrimFloat.eqb (PrimFloat.div 1 a) (PrimFloat.div 1 b).

Definition stat_ok (xs : list float) (m v : float) : bool :=
  match sample_stat float float_ops xs with
  | Ret (m', v') => feq m m' && feq v v'
  | _ => false
  end.

Definition avg_ok (xs : list float) (m : float) : bool :=
  match average float float_ops xs with Ret m' => feq m m' | _ => false end.

Definition sharerange_ok (nwork nshares myshare lo hi : Z) : bool :=
  let r := shareRange nwork nshares myshare in (fst r =? lo) && (snd r =? hi).

Definition conslen_ok (lst : list Z) (obs : result Z) : bool :=
  res_eqb Z.eqb (consecutive_length lst) obs.
