(* C26 -- lemmas about shareRange, range lists and _consecutive_length (generated definitions). *)
From Coq Require Import List ZArith Bool Lia ZifyBool FinFun.
Import ListNotations.
Require Import NV.C26.Prelude NV.C26.Gen_helpers NV.C26.Model.
Open Scope Z_scope.
Ltac Zify.zify_post_hook ::= Z.to_euclidean_division_equations.

(* ---- shareRange ---- *)
Definition sr_lo nwork nshares r := fst (shareRange nwork nshares r).
Definition sr_hi nwork nshares r := snd (shareRange nwork nshares r).

Lemma sr_first nwork nshares : 0 < nshares -> sr_lo nwork nshares 0 = 0.
Proof. unfold sr_lo, shareRange; cbn [fst]. intros. nia. Qed.

Lemma sr_contiguous nwork nshares r :
  0 < nshares -> 0 <= nwork -> 0 <= r -> sr_hi nwork nshares r = sr_lo nwork nshares (r + 1).
Proof.
  unfold sr_lo, sr_hi, shareRange; cbn [fst snd]. intros.
  destruct (r <? nwork mod nshares) eqn:E; nia.
Qed.

Lemma sr_last nwork nshares :
  0 < nshares -> 0 <= nwork -> sr_lo nwork nshares nshares = nwork.
Proof. unfold sr_lo, shareRange; cbn [fst]. intros. nia. Qed.

Lemma sr_size nwork nshares r :
  0 < nshares -> 0 <= nwork -> 0 <= r < nshares ->
  sr_hi nwork nshares r - sr_lo nwork nshares r =
    nwork / nshares + (if r <? nwork mod nshares then 1 else 0).
Proof. unfold sr_lo, sr_hi, shareRange; cbn [fst snd]. intros. lia. Qed.

Lemma sr_mono nwork nshares r :
  0 < nshares -> 0 <= nwork -> 0 <= r -> sr_lo nwork nshares r <= sr_hi nwork nshares r.
Proof.
  unfold sr_lo, sr_hi, shareRange; cbn [fst snd]. intros.
  assert (0 <= nwork / nshares) by (apply Z.div_pos; lia).
  destruct (r <? nwork mod nshares) eqn:E; lia.
Qed.

Lemma sr_lo_nonneg nwork nshares r :
  0 < nshares -> 0 <= nwork -> 0 <= r -> 0 <= sr_lo nwork nshares r.
Proof.
  unfold sr_lo, shareRange; cbn [fst]. intros.
  assert (0 <= nwork / nshares) by (apply Z.div_pos; lia).
  assert (0 <= nwork mod nshares) by (apply Z.mod_pos_bound; lia). nia.
Qed.

Lemma sr_lo_mono nwork nshares r r' :
  0 < nshares -> 0 <= nwork -> 0 <= r <= r' -> sr_lo nwork nshares r <= sr_lo nwork nshares r'.
Proof.
  unfold sr_lo, shareRange; cbn [fst]. intros.
  assert (0 <= nwork / nshares) by (apply Z.div_pos; lia).
  assert (r * (nwork / nshares) <= r' * (nwork / nshares)) by nia. lia.
Qed.

Lemma sr_hi_le nwork nshares r :
  0 < nshares -> 0 <= nwork -> 0 <= r < nshares -> sr_hi nwork nshares r <= nwork.
Proof.
  intros. rewrite sr_contiguous by lia. rewrite <- (sr_last nwork nshares) at 2 by lia.
  apply sr_lo_mono; lia.
Qed.

(* ---- range(lo, hi) ---- *)
Lemma In_zrange lo hi i : In i (zrange lo hi) <-> lo <= i < hi.
Proof.
  unfold zrange. rewrite in_map_iff. split.
  - intros (k & <- & Hk). apply in_seq in Hk. lia.
  - intros H. exists (Z.to_nat (i - lo)). split; [lia|]. apply in_seq. lia.
Qed.

Lemma zrange_nat lo hi :
  0 <= lo -> zrange lo hi = map Z.of_nat (seq (Z.to_nat lo) (Z.to_nat (hi - lo))).
Proof.
  intros. unfold zrange. generalize (Z.to_nat (hi - lo)) as len. intro len.
  assert (G : forall s, map (fun i => lo + Z.of_nat i) (seq s len) =
                        map Z.of_nat (seq (Z.to_nat lo + s) len)).
  { induction len; intros; cbn; [reflexivity|]. f_equal; [lia|].
    rewrite IHlen. f_equal. f_equal. lia. }
  rewrite G. f_equal. f_equal. lia.
Qed.

Lemma zrange_length lo hi : length (zrange lo hi) = Z.to_nat (hi - lo).
Proof. unfold zrange. now rewrite map_length, seq_length. Qed.

Lemma zrange_app a b c : a <= b <= c -> zrange a b ++ zrange b c = zrange a c.
Proof.
  intros. unfold zrange.
  replace (Z.to_nat (c - a)) with (Z.to_nat (b - a) + Z.to_nat (c - b))%nat by lia.
  rewrite seq_app, map_app. f_equal. cbn [plus].
  generalize (Z.to_nat (c - b)) as len; intro len.
  assert (G : forall s, map (fun i => b + Z.of_nat i) (seq s len) =
                    map (fun i => a + Z.of_nat i) (seq (Z.to_nat (b - a) + s) len)).
  { induction len; intros; cbn; [reflexivity|]. f_equal; [lia|].
    rewrite IHlen. f_equal. f_equal. lia. }
  rewrite G. f_equal. f_equal. lia.
Qed.

Lemma NoDup_zrange lo hi : NoDup (zrange lo hi).
Proof.
  unfold zrange. apply FinFun.Injective_map_NoDup; [|apply seq_NoDup].
  intros x y. lia.
Qed.

(* ---- `in` ---- *)
Lemma memZ_In x l : memZ x l = true <-> In x l.
Proof.
  unfold memZ. rewrite existsb_exists. split.
  - intros (y & Hy & E). apply Z.eqb_eq in E. now subst.
  - intros. exists x. split; [assumption|apply Z.eqb_refl].
Qed.

Lemma memZ_false x l : memZ x l = false <-> ~ In x l.
Proof. rewrite <- memZ_In. destruct (memZ x l); split; congruence. Qed.

(* ---- _consecutive_length ---- *)
Definition cl_loop (lst : list Z) :=
  fix loop (fuel : nat) (res : Z) {struct fuel} : result Z :=
    match fuel with
    | O => OutOfFuel
    | S fuel => if negb (memZ (res + 1) lst) then Ret (res + 1) else loop fuel (res + 1)
    end.

Lemma consecutive_length_unfold lst :
  consecutive_length lst =
    if negb (memZ 0 lst) then Raise ValueError else cl_loop lst (S (length lst)) 0.
Proof. reflexivity. Qed.

Lemma cl_loop_spec lst n :
  ~ In n lst ->
  forall fuel res, 0 <= res < n -> (forall i, res < i < n -> In i lst) ->
    (Z.to_nat (n - res) <= fuel)%nat -> cl_loop lst fuel res = Ret n.
Proof.
  intros Hn. induction fuel as [|f IH]; intros res Hr Hin Hf; [lia|].
  cbn [cl_loop]. destruct (memZ (res + 1) lst) eqn:E; cbn [negb].
  - apply memZ_In in E. assert (res + 1 <> n) by (intro; subst; contradiction).
    apply IH; [lia| intros; apply Hin; lia | lia].
  - apply memZ_false in E. assert (res + 1 = n).
    { destruct (Z.eq_dec (res + 1) n); [assumption|]. exfalso. apply E, Hin. lia. }
    now subst.
Qed.

Lemma consecutive_length_spec lst n :
  1 <= n -> (forall i, 0 <= i < n -> In i lst) -> ~ In n lst -> consecutive_length lst = Ret n.
Proof.
  intros H1 Hin Hn. rewrite consecutive_length_unfold.
  assert (E : memZ 0 lst = true) by (apply memZ_In, Hin; lia). rewrite E. cbn [negb].
  apply cl_loop_spec; [assumption|lia|intros; apply Hin; lia|].
  assert (length (zrange 0 n) <= length lst)%nat.
  { apply NoDup_incl_length; [apply NoDup_zrange|]. intros i Hi. apply In_zrange in Hi. apply Hin. lia. }
  rewrite zrange_length in H. lia.
Qed.

(* the fuel of the generated loop is never exhausted, whatever the list *)
Lemma filter_gt_shorter (l : list Z) res :
  In (res + 1) l ->
  (length (filter (fun x => (res + 1 <? x)%Z) l) < length (filter (fun x => (res <? x)%Z) l))%nat.
Proof.
  induction l as [|y l IH]; intros Hin; [destruct Hin|].
  assert (Hle : forall l', (length (filter (fun x => (res + 1 <? x)%Z) l') <= length (filter (fun x => (res <? x)%Z) l'))%nat).
  { induction l' as [|z l' IH']; cbn; [lia|].
    destruct (res + 1 <? z) eqn:E1, (res <? z) eqn:E2; cbn; lia. }
  cbn [filter]. destruct Hin as [->|Hin].
  - replace (res + 1 <? res + 1) with false by lia. replace (res <? res + 1) with true by lia.
    cbn [length]. specialize (Hle l). lia.
  - specialize (IH Hin). destruct (res + 1 <? y) eqn:E1, (res <? y) eqn:E2; cbn [length]; lia.
Qed.

Lemma cl_loop_fuel lst :
  forall fuel res, (length (filter (fun x => (res <? x)%Z) lst) < fuel)%nat ->
    cl_loop lst fuel res <> OutOfFuel.
Proof.
  induction fuel as [|f IH]; intros res Hf; [lia|].
  cbn [cl_loop]. destruct (memZ (res + 1) lst) eqn:E; cbn [negb]; [|discriminate].
  apply IH. apply memZ_In in E. pose proof (filter_gt_shorter lst res E). lia.
Qed.

Lemma consecutive_length_fuel lst : consecutive_length lst <> OutOfFuel.
Proof.
  rewrite consecutive_length_unfold. destruct (negb (memZ 0 lst)); [discriminate|].
  apply cl_loop_fuel.
  assert (forall (f : Z -> bool) l, (length (filter f l) <= length l)%nat) as Hf.
  { induction l as [|z l IH]; cbn; [lia|]. destruct (f z); cbn; lia. }
  specialize (Hf (fun x => (0 <? x)%Z) lst). lia.
Qed.
