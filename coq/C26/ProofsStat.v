(* C26 -- StatCalculator (Welford) over the rationals: exact mean and unbiased variance. *)
From Coq Require Import List ZArith Bool Lia ZifyBool QArith Qcanon Field.
Import ListNotations.
Require Import NV.C26.Prelude NV.C26.Gen_helpers NV.C26.Model NV.C26.ProofsTree.

Definition qofZ (z : Z) : Qc := Q2Qc (inject_Z z).
Definition qc_ops : fops Qc := mk_fops Qc 0%Qc 1%Qc Qcplus Qcminus Qcmult Qcdiv qofZ.

Open Scope Qc_scope.

Definition qsum (xs : list Qc) : Qc := fold_right Qcplus 0 xs.
Definition qsumsq (xs : list Qc) : Qc := fold_right (fun x a => x * x + a) 0 xs.
Definition qlen (xs : list Qc) : Qc := qofZ (Z.of_nat (length xs)).
(* sum of squared deviations from m *)
Definition qdev2 (m : Qc) (xs : list Qc) : Qc := fold_right (fun x a => (x - m) * (x - m) + a) 0 xs.

Lemma qofZ_add a b : qofZ (a + b) = qofZ a + qofZ b.
Proof.
  unfold qofZ, Qcplus. apply Q2Qc_eq_iff. cbn [this Q2Qc]. rewrite !Qred_correct. rewrite inject_Z_plus. reflexivity.
Qed.

Lemma qofZ_1 : qofZ 1 = 1.
Proof. apply Qc_is_canon. reflexivity. Qed.

Lemma qofZ_0 : qofZ 0 = 0.
Proof. apply Qc_is_canon. reflexivity. Qed.

Lemma qofZ_nonzero z : z <> 0%Z -> qofZ z <> 0.
Proof.
  intros Hz E. unfold qofZ in E. change 0 with (Q2Qc 0%Q) in E. apply Q2Qc_eq_iff in E.
  unfold Qeq, inject_Z in E. cbn in E. lia.
Qed.

Lemma qsum_app xs x : qsum (xs ++ [x]) = qsum xs + x.
Proof. unfold qsum. induction xs; cbn; [ring|]. rewrite IHxs. ring. Qed.

Lemma qsumsq_app xs x : qsumsq (xs ++ [x]) = qsumsq xs + x * x.
Proof. unfold qsumsq. induction xs; cbn; [ring|]. rewrite IHxs. ring. Qed.

Lemma qlen_app xs x : qlen (xs ++ [x]) = qlen xs + 1.
Proof. unfold qlen. rewrite app_length. cbn [length]. rewrite Nat2Z.inj_add, qofZ_add. change (Z.of_nat 1) with 1%Z. rewrite qofZ_1. reflexivity. Qed.

Lemma qdev2_expand m xs : qdev2 m xs = qsumsq xs - (1 + 1) * m * qsum xs + qlen xs * m * m.
Proof.
  unfold qdev2, qsumsq, qsum, qlen. induction xs as [|x xs IH]; cbn [fold_right length].
  - change (Z.of_nat 0) with 0%Z. rewrite qofZ_0. ring.
  - rewrite IH. rewrite Nat2Z.inj_succ. unfold Z.succ. rewrite qofZ_add, qofZ_1. ring.
Qed.

(* the invariant of the accumulator after adding the non-empty list xs *)
Definition inv (s : sc Qc) (xs : list Qc) : Prop :=
  sc_count Qc s = Z.of_nat (length xs) /\
  sc_mean_ Qc s = qsum xs / qlen xs /\
  sc_M2 Qc s = qsumsq xs - qsum xs * qsum xs / qlen xs.

Lemma qlen_nonzero xs : xs <> [] -> qlen xs <> 0.
Proof. intros H. apply qofZ_nonzero. destruct xs; [contradiction|]. cbn [length]. lia. Qed.

Lemma add_first x : exists s, sc_add Qc qc_ops (sc_init Qc qc_ops) x = Ret s /\ inv s [x].
Proof.
  cbv beta iota zeta delta [sc_add sc_init set_sc_count set_sc_mean_ set_sc_M2 sc_count sc_mean_ sc_M2
                            Z.add Z.eqb Pos.eqb Pos.add].
  eexists. split; [reflexivity|]. unfold inv, qlen, qsum, qsumsq.
  cbn [sc_count sc_mean_ sc_M2 length fold_right o_mul o_one o_zero qc_ops].
  change (Z.of_nat 1) with 1%Z. rewrite qofZ_1. repeat split; field; discriminate.
Qed.

Lemma add_next s xs x :
  xs <> [] -> inv s xs -> exists s', sc_add Qc qc_ops s x = Ret s' /\ inv s' (xs ++ [x]).
Proof.
  intros Hne (Ic & Im & I2). pose proof (qlen_nonzero xs Hne) as Hn.
  assert (Hn1 : qlen xs + 1 <> 0).
  { rewrite <- qlen_app with (x := x). apply qlen_nonzero. now destruct xs. }
  assert (Hlen : (1 <= Z.of_nat (length xs))%Z) by (destruct xs; [contradiction|cbn [length]; lia]).
  unfold sc_add. cbn [set_sc_count set_sc_mean_ set_sc_M2 sc_count sc_mean_ sc_M2].
  rewrite Ic.
  replace (Z.of_nat (length xs) + 1 =? 1)%Z with false by lia.
  unfold sc_mean. cbn [set_sc_count set_sc_mean_ set_sc_M2 sc_count sc_mean_ sc_M2].
  replace (Z.of_nat (length xs) + 1 =? 0)%Z with false by lia. cbn [bind].
  eexists. split; [reflexivity|]. unfold inv.
  cbn [set_sc_count set_sc_mean_ set_sc_M2 sc_count sc_mean_ sc_M2 o_add o_sub o_mul o_div o_one o_ofZ qc_ops].
  rewrite qsum_app, qsumsq_app, qlen_app, app_length, Im, I2, qofZ_add, qofZ_1.
  fold (qlen xs). cbn [length]. repeat split.
  - lia.
  - field. split; assumption.
  - field. split; assumption.
Qed.

Lemma add_all xs : xs <> [] -> exists s, sc_add_all Qc qc_ops (sc_init Qc qc_ops) xs = Ret s /\ inv s xs.
Proof.
  induction xs as [|x xs IH] using rev_ind; [contradiction|]. intros _.
  unfold sc_add_all. rewrite fold_left_app. cbn [fold_left]. fold (sc_add_all Qc qc_ops (sc_init Qc qc_ops) xs).
  destruct xs as [|y ys].
  - cbn [sc_add_all fold_left bind app]. apply add_first.
  - destruct IH as (s & E & I); [discriminate|]. rewrite E. cbn [bind]. apply add_next; [discriminate|assumption].
Qed.

(* mean and unbiased variance reported by the accumulator *)
Lemma welford xs :
  xs <> [] ->
  exists s, sc_add_all Qc qc_ops (sc_init Qc qc_ops) xs = Ret s /\
    sc_count Qc s = Z.of_nat (length xs) /\
    sc_mean Qc qc_ops s = Ret (qsum xs / qlen xs) /\
    sc_M2 Qc s = qdev2 (qsum xs / qlen xs) xs /\
    ((2 <= length xs)%nat -> sc_var Qc qc_ops s = Ret (qdev2 (qsum xs / qlen xs) xs / (qlen xs - 1))).
Proof.
  intros Hne. destruct (add_all xs Hne) as (s & E & Ic & Im & I2). exists s.
  pose proof (qlen_nonzero xs Hne) as Hn.
  assert (HM : sc_M2 Qc s = qdev2 (qsum xs / qlen xs) xs).
  { rewrite I2, qdev2_expand. field. assumption. }
  repeat split; try assumption.
  - unfold sc_mean. rewrite Ic. destruct xs; [contradiction|]. cbn [length].
    replace (Z.of_nat (S (length xs)) =? 0)%Z with false by lia.
    f_equal. rewrite Im. cbn [o_mul o_one qc_ops]. ring.
  - intros H2. unfold sc_var. rewrite Ic. replace (Z.of_nat (length xs) <? 2)%Z with false by lia.
    f_equal. rewrite HM. cbn [o_mul o_div o_one o_ofZ qc_ops].
    replace (Z.of_nat (length xs) - 1)%Z with (Z.of_nat (length xs) + (-1))%Z by lia.
    rewrite qofZ_add. fold (qlen xs).
    assert (Em : qofZ (-1) = - (1)) by (apply Qc_is_canon; reflexivity). rewrite Em.
    assert (qlen xs - 1 <> 0).
    { unfold qlen. replace 1 with (qofZ 1) by apply qofZ_1.
      intro E1. assert (qofZ (Z.of_nat (length xs) + (-1)) = 0).
      { rewrite qofZ_add. rewrite Em. rewrite <- E1. rewrite qofZ_1. ring. }
      revert H. apply qofZ_nonzero. lia. }
    field. replace (qlen xs + - (1)) with (qlen xs - 1) by ring. assumption.
Qed.

(* sample_stat *)
Lemma sample_stat_many xs :
  (2 <= length xs)%nat ->
  sample_stat Qc qc_ops xs =
    Ret (qsum xs / qlen xs, qdev2 (qsum xs / qlen xs) xs / (qlen xs - 1)).
Proof.
  intros H2. assert (Hne : xs <> []) by (destruct xs; [cbn in H2; lia|discriminate]).
  destruct (welford xs Hne) as (s & E & Ic & Em & _ & Ev). unfold sample_stat.
  replace (Z.of_nat (length xs) =? 1)%Z with false by lia.
  rewrite E. cbn [bind]. rewrite Em. cbn [bind]. rewrite (Ev H2). reflexivity.
Qed.

Lemma sample_stat_one x : sample_stat Qc qc_ops [x] = Ret (x, 0).
Proof.
  unfold sample_stat, average. cbn [length]. change (Z.of_nat 1 =? 1)%Z with true. cbv iota.
  change (NV.C23.Model.seq_sum Qc (o_add Qc qc_ops) [x]) with (Some x).
  cbn [bind o_div o_mul o_ofZ qc_ops]. change (Z.of_nat 1) with 1%Z. rewrite qofZ_1, qofZ_0.
  f_equal. f_equal; field; discriminate.
Qed.

(* average: the pairwise tree of allreduce_sum (C23) over the rationals is the plain sum *)
Lemma fold_left_qsum t : forall x, fold_left Qcplus t x = x + qsum t.
Proof. unfold qsum. induction t as [|y t IH]; intros x; cbn; [ring|]. rewrite IH. ring. Qed.

Lemma average_spec xs : xs <> [] -> average Qc qc_ops xs = Ret (qsum xs / qlen xs).
Proof.
  intros Hne. unfold average. cbn [o_add o_div o_ofZ qc_ops].
  rewrite (seq_sum_assoc Qc Qcplus Qcplus_assoc xs Hne).
  destruct xs as [|x t]; [contradiction|]. cbn [sumne]. rewrite fold_left_qsum. reflexivity.
Qed.
