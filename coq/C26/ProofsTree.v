(* C26 -- the pairwise summation tree of allreduce_sum (model of C23) is, for an ASSOCIATIVE
   operation, the plain left-to-right sum of the list.  (C23 proves that every task count and
   schedule yields this tree; here the tree is evaluated.)  Used for `average`. *)
From Coq Require Import List Arith Lia Bool.
Import ListNotations.
Require Import NV.C23.Model NV.C23.Proofs.

Section Tree.
Variable A : Type.
Variable op : A -> A -> A.
Hypothesis op_assoc : forall a b c, op a (op b c) = op (op a b) c.

Notation arr := (arr A).
Notation cell := (cell A).
Notation upd := (upd A).
Notation addat := (addat A op).

(* left-to-right sum of a non-empty list *)
Definition sumne (l : list A) : option A :=
  match l with [] => None | x :: t => Some (fold_left op t x) end.

Lemma fold_left_op_shift u : forall z y, fold_left op u (op z y) = op z (fold_left op u y).
Proof. induction u as [|w u IH]; intros z y; cbn; [reflexivity|]. rewrite <- op_assoc. apply IH. Qed.

Lemma sumne_app a b x y : sumne a = Some x -> sumne b = Some y -> sumne (a ++ b) = Some (op x y).
Proof.
  destruct a as [|a0 a]; [discriminate|]. destruct b as [|b0 b]; [discriminate|]. cbn.
  intros Ha Hb. inversion Ha; inversion Hb; subst. f_equal.
  rewrite fold_left_app. cbn. apply fold_left_op_shift.
Qed.

(* ---- arithmetic ---- *)
Lemma mod0_half s j : 0 < s -> j mod (2 * s) = 0 -> j mod s = 0.
Proof.
  intros Hs H. apply Nat.mod_divides in H; [|lia]. destruct H as [c ->].
  replace (2 * s * c) with ((2 * c) * s) by lia. apply Nat.mod_mul. lia.
Qed.

Lemma mod0_add m j : 0 < m -> j mod m = 0 -> (j + m) mod m = 0.
Proof.
  intros Hm H. apply Nat.mod_divides in H; [|lia]. destruct H as [c ->].
  replace (m * c + m) with ((c + 1) * m) by lia. apply Nat.mod_mul. lia.
Qed.

Lemma mod_between m j i : 0 < m -> j mod m = 0 -> j < i < j + m -> i mod m <> 0.
Proof.
  intros Hm H Hi. replace i with (j + (i - j)) by lia.
  rewrite Nat.add_mod by lia. rewrite H. cbn [plus]. rewrite Nat.mod_mod by lia.
  rewrite Nat.mod_small by lia. lia.
Qed.

(* ---- the array ---- *)
Lemma cell_upd_eq (l : arr) i v : i < length l -> cell (upd l i v) i = v.
Proof.
  unfold Model.cell. revert i. induction l as [|x l IH]; intros [|i] H; cbn in *; try lia; [reflexivity|].
  apply IH. lia.
Qed.

Lemma addat_effect (l : arr) j k a b :
  j <> k -> j < length l -> k < length l -> cell l j = Some a -> cell l k = Some b ->
  length (addat l j k) = length l /\
  cell (addat l j k) j = Some (op a b) /\ cell (addat l j k) k = None /\
  forall i, i <> j -> i <> k -> cell (addat l j k) i = cell l i.
Proof.
  intros Hjk Hj Hk Ca Cb. unfold Model.addat. rewrite Ca, Cb. repeat split.
  - now rewrite !upd_length.
  - rewrite cell_upd_neq by auto. now apply cell_upd_eq.
  - apply cell_upd_eq. now rewrite upd_length.
  - intros i H1 H2. rewrite !cell_upd_neq by auto. reflexivity.
Qed.

Variable vals : list A.
Notation n := (length vals).

(* sum of the block of (at most) s values starting at i *)
Definition blk (i s : nat) : option A := sumne (firstn s (skipn i vals)).

Lemma firstn_plus' {X} (l : list X) p q : firstn (p + q) l = firstn p l ++ firstn q (skipn p l).
Proof.
  revert l. induction p as [|p IH]; intros l; [reflexivity|].
  destruct l as [|x l]; cbn [plus firstn skipn app]; [now rewrite firstn_nil|]. now rewrite IH.
Qed.
Lemma skipn_plus' {X} (l : list X) p q : skipn q (skipn p l) = skipn (p + q) l.
Proof.
  revert l. induction p as [|p IH]; intros l; [reflexivity|].
  destruct l as [|x l]; cbn [plus skipn]; [now destruct q|]. apply IH.
Qed.

Lemma blk_some i s : 0 < s -> i < n -> exists x, blk i s = Some x.
Proof.
  intros Hs Hi. unfold blk. destruct (skipn i vals) as [|x t] eqn:E.
  - apply (f_equal (@length A)) in E. rewrite skipn_length in E. cbn in E. lia.
  - destruct s; [lia|]. cbn. eauto.
Qed.

Lemma blk_double j s : 0 < s -> j + s < n ->
  exists x y, blk j s = Some x /\ blk (j + s) s = Some y /\ blk j (2 * s) = Some (op x y).
Proof.
  intros Hs Hj. destruct (blk_some j s Hs ltac:(lia)) as [x Hx]. destruct (blk_some (j + s) s Hs Hj) as [y Hy].
  exists x, y. repeat split; try assumption. unfold blk in *.
  replace (2 * s) with (s + s) by lia. rewrite firstn_plus', skipn_plus'. now apply sumne_app.
Qed.

Lemma blk_tail j s : n <= j + s -> blk j (2 * s) = blk j s.
Proof.
  intros H. unfold blk. rewrite !firstn_all2; [reflexivity| |]; rewrite skipn_length; lia.
Qed.

Definition Inv (s : nat) (l : arr) : Prop :=
  length l = n /\ forall i, i < n -> cell l i = if i mod s =? 0 then blk i s else None.

(* during the round with distance s: cells below j are already merged *)
Definition Jv (s j : nat) (l : arr) : Prop :=
  length l = n /\
  forall i, i < n -> cell l i = if i <? j then (if i mod (2 * s) =? 0 then blk i (2 * s) else None)
                                else (if i mod s =? 0 then blk i s else None).

Definition run (evs : list (nat * nat)) (l : arr) : arr := fold_left (fun l e => addat l (fst e) (snd e)) evs l.

Lemma round_inner s : 0 < s -> forall fuel j l,
  j mod (2 * s) = 0 -> n <= j + 2 * s * fuel -> Jv s j l -> Inv (2 * s) (run (pairs_step n s j fuel) l).
Proof.
  intros Hs. induction fuel as [|f IH]; intros j l Hj Hn [Hl Hc].
  - cbn. split; [assumption|]. intros i Hi. rewrite Hc by assumption.
    replace (i <? j) with true by (symmetry; apply Nat.ltb_lt; lia). reflexivity.
  - cbn [pairs_step]. destruct (j + s <? n) eqn:E.
    + apply Nat.ltb_lt in E. cbn [run fold_left fst snd]. fold (run (pairs_step n s (j + 2 * s) f)).
      destruct (blk_double j s Hs E) as (x & y & Bx & By & Bxy).
      assert (Cj : cell l j = Some x).
      { rewrite Hc by lia. rewrite Nat.ltb_irrefl. rewrite (mod0_half s j Hs Hj). cbn. exact Bx. }
      assert (Ck : cell l (j + s) = Some y).
      { rewrite Hc by lia. replace (j + s <? j) with false by (symmetry; apply Nat.ltb_ge; lia).
        rewrite (mod0_add s j Hs (mod0_half s j Hs Hj)). cbn. exact By. }
      destruct (addat_effect l j (j + s) x y ltac:(lia) ltac:(lia) ltac:(lia) Cj Ck) as (L1 & L2 & L3 & L4).
      apply IH.
      * replace (j + 2 * s) with (j + (2 * s)) by lia. apply mod0_add; [lia|assumption].
      * lia.
      * split; [lia|]. intros i Hi.
        destruct (Nat.eq_dec i j) as [->|Nj].
        { rewrite L2. replace (j <? j + 2 * s) with true by (symmetry; apply Nat.ltb_lt; lia).
          rewrite Hj. change (0 =? 0) with true. cbv iota. now rewrite Bxy. }
        destruct (Nat.eq_dec i (j + s)) as [->|Nk].
        { rewrite L3. replace (j + s <? j + 2 * s) with true by (symmetry; apply Nat.ltb_lt; lia).
          assert (M : (j + s) mod (2 * s) <> 0) by (apply (mod_between (2 * s) j); lia).
          apply Nat.eqb_neq in M. now rewrite M. }
        rewrite L4 by assumption. rewrite Hc by assumption.
        destruct (i <? j) eqn:E1.
        { apply Nat.ltb_lt in E1. replace (i <? j + 2 * s) with true by (symmetry; apply Nat.ltb_lt; lia). reflexivity. }
        apply Nat.ltb_ge in E1.
        destruct (i <? j + 2 * s) eqn:E2; [|reflexivity].
        apply Nat.ltb_lt in E2.
        assert (M2 : i mod (2 * s) <> 0) by (apply (mod_between (2 * s) j); lia).
        assert (M1 : i mod s <> 0).
        { destruct (Nat.lt_ge_cases i (j + s)).
          - apply (mod_between s j); [lia|now apply mod0_half|lia].
          - apply (mod_between s (j + s)); [lia|apply mod0_add; [lia|now apply mod0_half]|lia]. }
        apply Nat.eqb_neq in M1, M2. now rewrite M1, M2.
    + apply Nat.ltb_ge in E. unfold run. cbn [fold_left]. split; [assumption|]. intros i Hi. rewrite Hc by assumption.
      destruct (i <? j) eqn:E1; [reflexivity|]. apply Nat.ltb_ge in E1.
      destruct (Nat.eq_dec i j) as [->|Nj].
      * rewrite Hj, (mod0_half s j Hs Hj). change (0 =? 0) with true. cbv iota. symmetry. now apply blk_tail.
      * assert (M2 : i mod (2 * s) <> 0) by (apply (mod_between (2 * s) j); lia).
        assert (M1 : i mod s <> 0) by (apply (mod_between s j); [lia|now apply mod0_half|lia]).
        apply Nat.eqb_neq in M1, M2. now rewrite M1, M2.
Qed.

Lemma rounds : forall fuel s l, 0 < s -> n <= s + fuel -> 0 < n -> Inv s l ->
  cell (run (events_from n s fuel) l) 0 = sumne vals.
Proof.
  assert (Base : forall s l, 0 < s -> n <= s -> 0 < n -> Inv s l -> cell l 0 = sumne vals).
  { intros s l Hs Hn H0 [Hl Hc]. rewrite Hc by assumption. rewrite Nat.mod_0_l by lia. cbn.
    unfold blk. cbn [skipn]. now rewrite firstn_all2 by lia. }
  induction fuel as [|f IH]; intros s l Hs Hn H0 HI.
  - cbn. apply (Base s); auto. lia.
  - cbn [events_from]. destruct (s <? n) eqn:E.
    + unfold run. rewrite fold_left_app. fold (run (pairs_step n s 0 n) l).
      fold (run (events_from n (2 * s) f)). apply IH; try lia.
      apply round_inner; [assumption|apply Nat.mod_0_l; lia|nia|].
      destruct HI as [Hl Hc]. split; [assumption|]. intros i Hi. now rewrite Hc.
    + apply Nat.ltb_ge in E. cbn. now apply (Base s).
Qed.

Lemma inv_init : Inv 1 (map Some vals).
Proof.
  split; [apply map_length|]. intros i Hi. rewrite Nat.mod_1_r. cbn [Nat.eqb].
  unfold Model.cell, blk. 
  destruct (nth_error vals i) as [x|] eqn:E; [|apply nth_error_None in E; lia].
  rewrite (nth_indep _ None (Some x)) by (rewrite map_length; lia). rewrite map_nth.
  apply nth_error_split in E. destruct E as (l1 & l2 & -> & Hl). subst i.
  rewrite skipn_app, skipn_all, Nat.sub_diag. cbn. now rewrite app_nth2, Nat.sub_diag by lia.
Qed.

(* the tree of allreduce_sum evaluates to the left-to-right sum *)
Theorem seq_sum_assoc : vals <> [] -> seq_sum A op vals = sumne vals.
Proof.
  intros Hne. unfold seq_sum, seq_run, all_events.
  apply (rounds n 1 (map Some vals)); try lia; [destruct vals; [contradiction|cbn; lia]|apply inv_init].
Qed.
End Tree.
