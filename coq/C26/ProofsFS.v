(* C26 -- lemmas about the directory model, save and load. *)
From Coq Require Import List ZArith Bool Ascii Lia.
Import ListNotations.
Require Import NV.C26.Prelude NV.C26.Gen_helpers NV.C26.Model NV.C26.ProofsShare NV.C26.ProofsNames.
Open Scope Z_scope.

Ltac neq x y := let E := fresh "E" in
  destruct (name_eqb x y) eqn:E; [apply name_eqb_eq in E | apply name_eqb_neq in E].

Section FS.
Variable A : Type.
Notation content := (content A).
Notation dir := (dir A).
Notation lookup := (lookup A).
Notation isfile := (isfile A).
Notation remove := (remove A).
Notation write := (write A).
Notation sfn := sample_file_name.

Lemma lookup_remove (d : dir) n m : lookup (remove d n) m = if name_eqb n m then None else lookup d m.
Proof.
  unfold Model.remove. induction d as [|[m' c] d IH]; cbn [filter fst Model.lookup].
  - now destruct (name_eqb n m).
  - neq m' n; cbn [negb Model.lookup].
    + subst m'. rewrite IH. now destruct (name_eqb n m).
    + rewrite IH. neq n m; [|reflexivity]. subst m. neq m' n; [contradiction|reflexivity].
Qed.

Lemma lookup_write (d : dir) n c m : lookup (write d n c) m = if name_eqb n m then Some c else lookup d m.
Proof. unfold Model.write. cbn. rewrite lookup_remove. now destruct (name_eqb n m). Qed.

Lemma in_names_lookup (d : dir) f : In f (map fst d) <-> lookup d f <> None.
Proof.
  induction d as [|[m c] d IH]; cbn; [tauto|]. neq m f.
  - split; [discriminate|auto].
  - rewrite <- IH. split; [intros [?|?]; [contradiction|assumption]|auto].
Qed.

Lemma isfile_true (d : dir) f : isfile d f = true <-> lookup d f <> None.
Proof. unfold Model.isfile. destruct (lookup d f); split; congruence. Qed.

Lemma isfile_false (d : dir) f : isfile d f = false <-> lookup d f = None.
Proof. unfold Model.isfile. destruct (lookup d f); split; congruence. Qed.

(* ---- _save_to_disk ---- *)
Lemma save_to_disk_ok (d : dir) f o ov :
  ov = true \/ lookup d f = None ->
  snd (save_to_disk A d f o ov) = false /\
  forall m, lookup (fst (save_to_disk A d f o ov)) m = if name_eqb f m then Some o else lookup d m.
Proof.
  intros H. unfold save_to_disk.
  destruct (negb ov && isfile d f) eqn:E.
  - exfalso. apply andb_true_iff in E. destruct E as [E1 E2]. destruct H as [->|H]; [discriminate|].
    apply isfile_true in E2. contradiction.
  - cbn [fst snd]. split; [reflexivity|]. intros m. rewrite lookup_write.
    destruct (ov && isfile d f); [|reflexivity]. rewrite lookup_remove. now destruct (name_eqb f m).
Qed.

(* [written d d' base start objs]: d' is d with objs stored under the sample names start, start+1, ... *)
Definition written (d d' : dir) (base : name) (start : Z) (objs : list content) : Prop :=
  (forall k, (k < length objs)%nat -> lookup d' (sfn base (start + Z.of_nat k)) = nth_error objs k) /\
  (forall m, (forall k, (k < length objs)%nat -> m <> sfn base (start + Z.of_nat k)) -> lookup d' m = lookup d m).

Lemma written_nil d base start : written d d base start [].
Proof. split; [cbn; intros; lia|reflexivity]. Qed.

Lemma written_app d d1 d2 base start p q :
  0 <= start ->
  written d d1 base start p -> written d1 d2 base (start + Z.of_nat (length p)) q ->
  written d d2 base start (p ++ q).
Proof.
  intros Hs [P1 P2] [Q1 Q2]. split.
  - intros k Hk. rewrite app_length in Hk. destruct (Nat.lt_ge_cases k (length p)) as [L|L].
    + rewrite nth_error_app1 by assumption. rewrite Q2; [now apply P1|].
      intros k' _ E. apply sample_file_name_inj in E; lia.
    + rewrite nth_error_app2 by assumption. rewrite <- Q1 by lia. f_equal. f_equal. lia.
  - intros m Hm. rewrite Q2, P2; [reflexivity| |].
    + intros k Hk. apply Hm. rewrite app_length. lia.
    + intros k Hk. replace (start + Z.of_nat (length p) + Z.of_nat k) with (start + Z.of_nat (length p + k)) by lia.
      apply Hm. rewrite app_length. lia.
Qed.

(* targets of a block of writes are free (or overwrite is on) *)
Definition fresh (d : dir) (base : name) (ov : bool) (start : Z) (len : nat) : Prop :=
  ov = true \/ forall k, (k < len)%nat -> lookup d (sfn base (start + Z.of_nat k)) = None.

Lemma save_local_ok base ov : forall objs d start,
  0 <= start -> fresh d base ov start (length objs) ->
  snd (save_local A d base start objs ov) = false /\
  written d (fst (save_local A d base start objs ov)) base start objs.
Proof.
  induction objs as [|o rest IH]; intros d start Hs Hf; cbn [save_local].
  - split; [reflexivity|apply written_nil].
  - assert (H0 : ov = true \/ lookup d (sfn base start) = None).
    { destruct Hf as [->|Hf]; [now left|right]. specialize (Hf 0%nat). cbn in Hf.
      rewrite Z.add_0_r in Hf. apply Hf. lia. }
    destruct (save_to_disk_ok d (sfn base start) o ov H0) as [S1 S2].
    destruct (save_to_disk A d (sfn base start) o ov) as [d1 r1]. cbn [fst snd] in S1, S2. subst r1.
    assert (W1 : written d d1 base start [o]).
    { split.
      - intros k Hk. cbn in Hk. assert (k = 0%nat) by lia. subst k. cbn. rewrite Z.add_0_r, S2.
        now rewrite name_eqb_refl.
      - intros m Hm. rewrite S2. neq (sfn base start) m; [|reflexivity].
        exfalso. apply (Hm 0%nat); [cbn; lia|]. cbn. now rewrite Z.add_0_r. }
    assert (Hf1 : fresh d1 base ov (start + 1) (length rest)).
    { destruct Hf as [->|Hf]; [now left|right]. intros k Hk. rewrite S2.
      neq (sfn base start) (sfn base (start + 1 + Z.of_nat k)).
      - apply sample_file_name_inj in E; lia.
      - replace (start + 1 + Z.of_nat k) with (start + Z.of_nat (S k)) by lia. apply Hf. cbn. lia. }
    destruct (IH d1 (start + 1) ltac:(lia) Hf1) as [R1 R2]. split; [assumption|].
    change (o :: rest) with ([o] ++ rest)%list. eapply written_app; [assumption|exact W1|exact R2].
Qed.

Lemma fresh_after d d1 base ov start p len :
  0 <= start -> written d d1 base start p -> fresh d base ov start (length p + len) ->
  fresh d1 base ov (start + Z.of_nat (length p)) len.
Proof.
  intros Hs [W1 W2] [->|Hf]; [now left|right]. intros k Hk. rewrite W2.
  - replace (start + Z.of_nat (length p) + Z.of_nat k) with (start + Z.of_nat (length p + k)) by lia.
    apply Hf. lia.
  - intros k' Hk' E. apply sample_file_name_inj in E; lia.
Qed.

Lemma save_tasks_ok base ov : forall parts d start,
  0 <= start -> fresh d base ov start (length (concat parts)) ->
  snd (save_tasks A d base start parts ov) = false /\
  written d (fst (save_tasks A d base start parts ov)) base start (concat parts).
Proof.
  induction parts as [|p rest IH]; intros d start Hs Hf; cbn [save_tasks concat].
  - split; [reflexivity|apply written_nil].
  - cbn [concat] in Hf. rewrite app_length in Hf.
    assert (Hfp : fresh d base ov start (length p)).
    { destruct Hf as [->|Hf]; [now left|right]. intros; apply Hf; lia. }
    destruct (save_local_ok base ov p d start Hs Hfp) as [L1 L2].
    destruct (save_local A d base start p ov) as [d1 r1]. cbn [fst snd] in L1, L2. subst r1.
    pose proof (fresh_after d d1 base ov start p _ Hs L2 Hf) as Hf1.
    assert (Hs1 : 0 <= start + Z.of_nat (length p)) by lia.
    destruct (IH d1 (start + Z.of_nat (length p)) Hs1 Hf1) as [R1 R2].
    destruct (save_tasks A d1 base (start + Z.of_nat (length p)) rest ov) as [d2 r2].
    cbn [fst snd] in *. subst r2. split; [reflexivity|]. eapply written_app; eassumption.
Qed.

(* ---- save ---- *)
(* the outcome of a successful save of [objs] (+ mean) over [d]; rm = the stale mean file of a
   plain list is unlinked *)
Definition saved (d d' : dir) (base : name) (objs : list content) (mean : option content) (rm : bool) : Prop :=
  let n := Z.of_nat (length objs) in
  (forall k, (k < length objs)%nat -> lookup d' (sfn base (Z.of_nat k)) = nth_error objs k) /\
  lookup d' (sfn base n) = None /\
  (forall m, mean = Some m -> lookup d' (mean_file_name base) = Some m) /\
  (mean = None -> lookup d' (mean_file_name base) = if rm then None else lookup d (mean_file_name base)) /\
  (forall f, (forall k, 0 <= k <= n -> f <> sfn base k) -> f <> mean_file_name base ->
             lookup d' f = lookup d f).

Definition can_save (d : dir) (base : name) (n : Z) (mean : option content) (ov : bool) : Prop :=
  ov = true \/
  ((forall k, 0 <= k <= n -> lookup d (sfn base k) = None) /\
   (mean <> None -> lookup d (mean_file_name base) = None)).

Lemma save_list_ok d base parts mean rm ov :
  can_save d base (Z.of_nat (length (concat parts))) mean ov ->
  snd (save_list A d base parts mean rm ov) = Ret tt /\
  saved d (fst (save_list A d base parts mean rm ov)) base (concat parts) mean (rm && ov).
Proof.
  intros Hc. unfold save_list. set (objs := concat parts) in *. set (n := Z.of_nat (length objs)) in *.
  assert (Hn0 : 0 <= n) by (unfold n; lia).
  (* the ending *)
  assert (exists d0, ensure_ending A d (sfn base n) ov = (d0, false) /\
                     forall m, lookup d0 m = if name_eqb (sfn base n) m then None else lookup d m) as (d0 & E1 & L0).
  { unfold ensure_ending. destruct ov.
    - eexists; split; [reflexivity|]. intros; apply lookup_remove.
    - destruct Hc as [?|[Hc _]]; [discriminate|]. specialize (Hc n ltac:(lia)).
      apply isfile_false in Hc as Hc'. rewrite Hc'. eexists; split; [reflexivity|].
      intros m. neq (sfn base n) m; [now subst|reflexivity]. }
  rewrite E1.
  (* the optional unlink of the mean file *)
  set (d1 := if rm && ov then remove d0 (mean_file_name base) else d0).
  assert (L1 : forall m, lookup d1 m =
                 if rm && ov && name_eqb (mean_file_name base) m then None
                 else if name_eqb (sfn base n) m then None else lookup d m).
  { intros m. unfold d1. destruct (rm && ov); cbn [andb].
    - rewrite lookup_remove, L0. now destruct (name_eqb (mean_file_name base) m).
    - apply L0. }
  assert (L1s : forall k, lookup d1 (sfn base k) = if name_eqb (sfn base n) (sfn base k) then None else lookup d (sfn base k)).
  { intros k. rewrite L1. neq (mean_file_name base) (sfn base k); [|now rewrite andb_false_r].
    symmetry in E. now apply sample_name_not_mean in E. }
  assert (Hf : fresh d1 base ov 0 (length objs)).
  { destruct Hc as [->|[Hc _]]; [now left|right]. intros k Hk. rewrite L1s.
    destruct (name_eqb (sfn base n) (sfn base (0 + Z.of_nat k))); [reflexivity|]. apply Hc. lia. }
  destruct (save_tasks_ok base ov parts d1 0 ltac:(lia) Hf) as [T1 [T2 T3]].
  fold objs in T2, T3.
  destruct (save_tasks A d1 base 0 parts ov) as [d2 r2]. cbn [fst snd] in T1, T2, T3. subst r2.
  assert (Hn : lookup d2 (sfn base n) = None).
  { rewrite T3; [rewrite L1s; now rewrite name_eqb_refl|].
    intros k Hk E. apply sample_file_name_inj in E; lia. }
  assert (Hk2 : forall k, (k < length objs)%nat -> lookup d2 (sfn base (Z.of_nat k)) = nth_error objs k).
  { intros k Hk. now rewrite <- T2 by assumption. }
  assert (Hnotsample : forall f, (forall k, 0 <= k <= n -> f <> sfn base k) -> lookup d2 f = lookup d1 f).
  { intros f Hfk. apply T3. intros k Hk. apply Hfk. lia. }
  assert (Ho2 : forall f, (forall k, 0 <= k <= n -> f <> sfn base k) -> f <> mean_file_name base ->
                          lookup d2 f = lookup d f).
  { intros f Hfk Hfm. rewrite Hnotsample by assumption. rewrite L1.
    neq (mean_file_name base) f; [exfalso; now apply Hfm|]. rewrite andb_false_r.
    neq (sfn base n) f; [|reflexivity]. exfalso. apply (Hfk n); [lia|now symmetry]. }
  assert (Hmean2 : lookup d2 (mean_file_name base) = if rm && ov then None else lookup d (mean_file_name base)).
  { rewrite Hnotsample; [|intros k _ E; symmetry in E; now apply sample_name_not_mean in E].
    rewrite L1, name_eqb_refl, andb_true_r. destruct (rm && ov); [reflexivity|].
    neq (sfn base n) (mean_file_name base); [now apply sample_name_not_mean in E|reflexivity]. }
  destruct mean as [m|].
  - assert (H0 : ov = true \/ lookup d2 (mean_file_name base) = None).
    { destruct Hc as [->|[_ Hc]]; [now left|right]. rewrite Hmean2. destruct (rm && ov); [reflexivity|].
      apply Hc. discriminate. }
    destruct (save_to_disk_ok d2 (mean_file_name base) m ov H0) as [S1 S2].
    destruct (save_to_disk A d2 (mean_file_name base) m ov) as [d3 r3]. cbn [fst snd] in S1, S2. subst r3.
    cbn [fst snd]. split; [reflexivity|]. unfold saved. fold objs. fold n. repeat split.
    + intros k Hk. rewrite S2. neq (mean_file_name base) (sfn base (Z.of_nat k)).
      * symmetry in E. now apply sample_name_not_mean in E.
      * now apply Hk2.
    + rewrite S2. neq (mean_file_name base) (sfn base n); [|assumption].
      symmetry in E. now apply sample_name_not_mean in E.
    + intros m' Hm. inversion Hm; subst. rewrite S2. now rewrite name_eqb_refl.
    + intros; discriminate.
    + intros f Hfk Hfm. rewrite S2. neq (mean_file_name base) f.
      * exfalso. apply Hfm. now symmetry.
      * now apply Ho2.
  - cbn [fst snd]. split; [reflexivity|]. unfold saved. fold objs. fold n. repeat split; try assumption.
    + intros; discriminate.
    + intros _. exact Hmean2.
Qed.

(* ---- well-formed directories: every entry that the listing pattern accepts is a sample file
        name of this base, as produced by NIFTy itself ---- *)
Definition wf (d : dir) (base : name) : Prop :=
  forall f, lookup d f <> None -> rmatch (sample_pattern base) f = true ->
            exists i, 0 <= i /\ f = sfn base i.

Lemma name_in_dec (f : name) (l : list name) : {In f l} + {~ In f l}.
Proof. apply in_dec. apply list_eq_dec. apply ascii_dec. Qed.

Lemma saved_wf d d' base objs mean rm : wf d base -> saved d d' base objs mean rm -> wf d' base.
Proof.
  intros W (S1 & S2 & S3 & _ & S4) f Hf Hm.
  set (n := Z.of_nat (length objs)) in *.
  destruct (name_in_dec f (map (sfn base) (zrange 0 (n + 1)))) as [I|I].
  - apply in_map_iff in I. destruct I as (k & <- & Hk). apply In_zrange in Hk. exists k. split; [lia|reflexivity].
  - assert (f <> mean_file_name base).
    { intros ->. rewrite mean_name_no_match in Hm. discriminate. }
    apply W; [|assumption]. rewrite <- S4; [assumption| |assumption].
    intros k Hk ->. apply I. apply in_map. apply In_zrange. lia.
Qed.

(* ---- listing ---- *)
Lemma mapM_file_index base files :
  (forall f, In f files -> exists i, 0 <= i /\ f = sfn base i) ->
  exists idxs, mapM file_index files = Ret idxs /\
               forall i, In i idxs <-> (0 <= i /\ In (sfn base i) files).
Proof.
  induction files as [|f files IH]; intros H.
  - exists []. split; [reflexivity|]. cbn. tauto.
  - destruct IH as (idxs & E & M); [intros; apply H; now right|].
    destruct (H f (or_introl eq_refl)) as (i & Hi & ->).
    exists (i :: idxs). split.
    + cbn [mapM]. rewrite file_index_sample by assumption. cbn [bind]. rewrite E. reflexivity.
    + intros j. cbn [In]. rewrite M. split.
      * intros [->|[? ?]]; auto.
      * intros [Hj [E'|?]]; [left; apply sample_file_name_inj in E'; auto|right; auto].
Qed.

Definition disk_has (d : dir) (base : name) (n : Z) : Prop :=
  wf d base /\ (forall k, 0 <= k < n -> lookup d (sfn base k) <> None) /\ lookup d (sfn base n) = None.

Lemma n_samples_on_disk_ok d base n :
  1 <= n -> disk_has d base n -> n_samples_on_disk A d base = Ret n.
Proof.
  intros H1 (W & Hk & Hn). unfold n_samples_on_disk.
  set (files := filter (rmatch (sample_pattern base)) (map fst d)).
  assert (Hfiles : forall f, In f files <-> lookup d f <> None /\ rmatch (sample_pattern base) f = true).
  { intros f. unfold files. rewrite filter_In, in_names_lookup. reflexivity. }
  assert (In (sfn base 0) files).
  { apply Hfiles. split; [apply Hk; lia|apply sample_name_matches]. }
  destruct files as [|f0 fs] eqn:Ef; [contradiction|]. rewrite <- Ef in *. 
  replace (length files =? 0)%nat with false by (rewrite Ef; reflexivity).
  destruct (mapM_file_index base files) as (idxs & E & M).
  { intros f Hf. apply Hfiles in Hf. destruct Hf. now apply W. }
  rewrite E. cbn [bind]. apply consecutive_length_spec; [assumption| |].
  - intros i Hi. apply M. split; [lia|]. apply Hfiles. split; [apply Hk; lia|apply sample_name_matches].
  - intros I. apply M in I. destruct I as [_ I]. apply Hfiles in I. destruct I. contradiction.
Qed.

Lemma list_local_sample_files_ok d base n ntask rank :
  1 <= n -> disk_has d base n -> 0 < ntask -> 0 <= rank < ntask ->
  list_local_sample_files A d base ntask rank =
    Ret (map (sfn base) (zrange (sr_lo n ntask rank) (sr_hi n ntask rank))).
Proof.
  intros H1 D Ht Hr. unfold list_local_sample_files. rewrite (n_samples_on_disk_ok d base n H1 D).
  cbn [bind]. unfold sr_lo, sr_hi. destruct (shareRange n ntask rank) as [lo hi] eqn:E. cbn [fst snd].
  assert (Hlo : 0 <= lo) by (pose proof (sr_lo_nonneg n ntask rank); unfold sr_lo in *; rewrite E in *; cbn in *; lia).
  assert (Hhi : hi <= n) by (pose proof (sr_hi_le n ntask rank); unfold sr_hi in *; rewrite E in *; cbn in *; lia).
  replace (forallb (isfile d) (map (sfn base) (zrange lo hi))) with true; [reflexivity|].
  symmetry. apply forallb_forall. intros f Hf. apply in_map_iff in Hf. destruct Hf as (k & <- & Hk).
  apply In_zrange in Hk. apply isfile_true. destruct D as (_ & D & _). apply D. lia.
Qed.

(* reading a block of consecutive sample files *)
Lemma skipn_nth_error {X} (l : list X) a y :
  nth_error l a = Some y -> skipn a l = y :: skipn (S a) l.
Proof.
  revert a. induction l as [|x l IH]; intros [|a] H; cbn in *; try discriminate.
  - now inversion H.
  - now apply IH.
Qed.

Lemma mapM_block {X Y} (f : X -> result Y) (g : nat -> X) (l : list Y) :
  forall len a,
  (forall k, (a <= k < a + len)%nat -> exists y, nth_error l k = Some y /\ f (g k) = Ret y) ->
  mapM f (map g (seq a len)) = Ret (firstn len (skipn a l)).
Proof.
  induction len as [|len IH]; intros a H; cbn [seq map mapM firstn]; [reflexivity|].
  destruct (H a ltac:(lia)) as (y & N & F). rewrite F. cbn [bind].
  rewrite IH by (intros; apply H; lia). cbn [bind].
  rewrite (skipn_nth_error l a y N). reflexivity.
Qed.

Lemma firstn_plus {X} (l : list X) p q :
  firstn (p + q) l = (firstn p l ++ firstn q (skipn p l))%list.
Proof.
  revert l. induction p as [|p IH]; intros l; [reflexivity|].
  destruct l as [|x l]; cbn [plus firstn skipn app]; [now rewrite firstn_nil|]. now rewrite IH.
Qed.

Lemma skipn_plus {X} (l : list X) p q : skipn q (skipn p l) = skipn (p + q) l.
Proof.
  revert l. induction p as [|p IH]; intros l; [reflexivity|].
  destruct l as [|x l]; cbn [plus skipn]; [now destruct q|]. apply IH.
Qed.

Lemma firstn_skipn_split {X} (l : list X) (a b c : nat) :
  (a <= b <= c)%nat ->
  firstn (c - a) (skipn a l) = (firstn (b - a) (skipn a l) ++ firstn (c - b) (skipn b l))%list.
Proof.
  intros H. replace (c - a)%nat with ((b - a) + (c - b))%nat by lia.
  rewrite firstn_plus. f_equal. rewrite skipn_plus. f_equal. f_equal. lia.
Qed.

End FS.
