(* C26 -- property theorems only.  Each is closed by [exact] of a lemma from Proofs*.v. *)
From Coq Require Import String List ZArith Bool Ascii QArith Qcanon.
Import ListNotations.
Require Import NV.C26.Prelude NV.C26.Gen_helpers NV.C26.Model.
Require Import NV.C26.ProofsShare NV.C26.ProofsNames NV.C26.ProofsFS NV.C26.ProofsMain NV.C26.ProofsStat NV.C26.ProofsMean.
Open Scope Z_scope.

(* Round trip of a SampleList.  For EVERY prior directory content d that is well formed for this
   base (every entry accepted by the listing pattern is a sample file name of this base produced by
   NIFTy: in particular any stale files base.<i>.pickle with arbitrary i, a stale mean file and
   arbitrary unrelated files), every distribution `parts` of >= 1 samples over any number of saving
   tasks (empty tasks allowed), every number ntask >= 1 of loading tasks: a save with
   overwrite=True (or with overwrite=False into a directory that holds none of the target files)
   succeeds, and task `rank` of the load gets exactly its shareRange slice of the GLOBAL list
   concat parts -- stale files with higher indices cannot leak. *)
Theorem C26_roundtrip_plain :
  forall (A : Type) (d : dir A) (base : name) (parts : list (list A)) (ov : bool) (ntask rank : Z),
    wf A d base -> (1 <= length (concat parts))%nat ->
    can_save A d base (Z.of_nat (length (concat parts))) None ov ->
    0 < ntask -> 0 <= rank < ntask ->
    snd (save_plain A d base parts ov) = Ret tt /\
    load_plain A (fst (save_plain A d base parts ov)) base ntask rank
      = Ret (slice (concat parts) ntask rank).
Proof. exact roundtrip_plain. Qed.

(* The same for a ResidualSampleList: mean, residuals and neg flags. *)
Theorem C26_roundtrip_resid :
  forall (A : Type) (d : dir A) (base : name) (m : A) (parts : list (list (A * bool))) (ov : bool)
         (ntask rank : Z),
    wf A d base -> (1 <= length (concat parts))%nat ->
    can_save A d base (Z.of_nat (length (concat parts))) (Some (MeanC m)) ov ->
    0 < ntask -> 0 <= rank < ntask ->
    snd (save_resid A d base m parts ov) = Ret tt /\
    load_resid A (fst (save_resid A d base m parts ov)) base ntask rank
      = Ret (m, slice (concat parts) ntask rank).
Proof. exact roundtrip_resid. Qed.

(* ResidualSampleList.load_mean after a successful ResidualSampleList.save: for EVERY prior directory
   (a stale mean file of an earlier list included), every distribution of samples over saving tasks
   (empty lists allowed) and every overwrite mode that can succeed, load_mean returns exactly the
   mean of the saved list. *)
Theorem C26_load_mean_roundtrip :
  forall (A : Type) (d : dir A) (base : name) (m : A) (parts : list (list (A * bool))) (ov : bool),
    can_save A d base (Z.of_nat (length (concat parts))) (Some (MeanC m)) ov ->
    snd (save_resid A d base m parts ov) = Ret tt /\
    load_mean A (fst (save_resid A d base m parts ov)) base = Ret (MeanC m).
Proof. exact load_mean_after_resid. Qed.

(* SampleList.save and the mean file: after a successful save with overwrite (when the source holds
   the unlink statement, flag plain_save_unlinks_mean re-translated on every run) no mean file is
   left, whatever the directory held -- load_mean raises; in every other case load_mean returns
   what it returned before the save (the save neither creates nor alters a mean file). *)
Theorem C26_plain_save_mean_file :
  forall (A : Type) (d : dir A) (base : name) (parts : list (list A)) (ov : bool),
    can_save A d base (Z.of_nat (length (concat parts))) None ov ->
    snd (save_plain A d base parts ov) = Ret tt /\
    load_mean A (fst (save_plain A d base parts ov)) base =
      if plain_save_unlinks_mean && ov then Raise OtherError else load_mean A d base.
Proof. exact load_mean_after_plain. Qed.

(* Hence a stale mean of an earlier ResidualSampleList cannot leak into a ResidualSampleList.load
   of samples written by SampleList.save(overwrite=True): that load raises on every task. *)
Theorem C26_no_stale_mean_after_plain_overwrite :
  forall (A : Type) (d : dir A) (base : name) (parts : list (list A)) (ntask rank : Z),
    plain_save_unlinks_mean = true ->
    load_resid A (fst (save_plain A d base parts true)) base ntask rank = Raise OtherError.
Proof. exact load_resid_after_plain_overwrite. Qed.

(* The slices of the loading tasks, concatenated in rank order, are the whole list (for every
   list, also when there are more tasks than samples). *)
Theorem C26_slices_partition :
  forall (X : Type) (l : list X) (ntask : Z),
    0 < ntask -> concat (map (slice l ntask) (zrange 0 ntask)) = l.
Proof. exact @slices_concat. Qed.

(* Any history of saves of either kind (successful or raising, any overwrite flags, any task
   distributions) keeps a directory well formed; the empty directory is well formed.  So the
   round-trip theorems apply after every history of earlier saves of the same base. *)
Theorem C26_history_wellformed :
  forall (A : Type) (base : name) (ops : list (save_op A)) (d : dir A),
    wf A d base -> wf A (fold_left (fun d o => run_op A d base o) ops d) base.
Proof. exact wf_history. Qed.

Theorem C26_empty_wellformed : forall (A : Type) (base : name), wf A [] base.
Proof. exact wf_empty. Qed.

(* File names (generated text of _sample_file_name, the regular expression, the index lambda):
   a sample name is accepted by the pattern, its index is recovered, the mean file is rejected.
   Partial: the converse (the pattern accepts ONLY such names) is false for the source's pattern
   (unescaped dots, no end anchor) -- it is the well-formedness hypothesis [wf] above. *)
Theorem C26_names_partial :
  forall (base : name) (i : Z), 0 <= i ->
    rmatch (sample_pattern base) (sample_file_name base i) = true /\
    file_index (sample_file_name base i) = Ret i /\
    rmatch (sample_pattern base) (mean_file_name base) = false.
Proof.
  intros base i Hi. exact (conj (sample_name_matches base i)
                                (conj (file_index_sample base i Hi) (mean_name_no_match base))).
Qed.

(* _consecutive_length returns the first missing index, and its loop never runs out of fuel. *)
Theorem C26_consecutive_length :
  forall (lst : list Z) (n : Z),
    1 <= n -> (forall i, 0 <= i < n -> In i lst) -> ~ In n lst -> consecutive_length lst = Ret n.
Proof. exact consecutive_length_spec. Qed.

Theorem C26_consecutive_length_total : forall lst, consecutive_length lst <> OutOfFuel.
Proof. exact consecutive_length_fuel. Qed.

(* StatCalculator over the rationals: after adding x1..xn (n >= 1) the count is n, the mean is
   (sum x)/n, M2 is the sum of squared deviations from that mean, and for n >= 2 the variance is
   M2/(n-1) -- the unbiased variance.  No exception is raised on the way. *)
Theorem C26_welford :
  forall xs : list Qc, xs <> [] ->
    exists s, sc_add_all Qc qc_ops (sc_init Qc qc_ops) xs = Ret s /\
      sc_count Qc s = Z.of_nat (length xs) /\
      sc_mean Qc qc_ops s = Ret (qsum xs / qlen xs)%Qc /\
      sc_M2 Qc s = qdev2 (qsum xs / qlen xs)%Qc xs /\
      ((2 <= length xs)%nat ->
       sc_var Qc qc_ops s = Ret (qdev2 (qsum xs / qlen xs)%Qc xs / (qlen xs - 1))%Qc).
Proof. exact welford. Qed.

(* sample_stat: arithmetic mean and unbiased variance for n >= 2; (x, 0) for a single sample. *)
Theorem C26_sample_stat :
  forall xs : list Qc, (2 <= length xs)%nat ->
    sample_stat Qc qc_ops xs =
      Ret ((qsum xs / qlen xs)%Qc, (qdev2 (qsum xs / qlen xs)%Qc xs / (qlen xs - 1))%Qc).
Proof. exact sample_stat_many. Qed.

(* average(op): allreduce_sum's pairwise tree (the same for every task count and schedule by
   C23_value) divided by n is the arithmetic mean -- the tree of an associative operation is the
   left-to-right sum (ProofsTree.seq_sum_assoc, for every list length). *)
Theorem C26_average :
  forall xs : list Qc, xs <> [] -> average Qc qc_ops xs = Ret (qsum xs / qlen xs)%Qc.
Proof. exact average_spec. Qed.

Theorem C26_sample_stat_single : forall x : Qc, sample_stat Qc qc_ops [x] = Ret (x, 0%Qc).
Proof. exact sample_stat_one. Qed.

(* Known finding C26-F1 (open): a save with overwrite=False that RAISES has already written other
   targets.  Witness: a 4-sample list distributed over 2 tasks saved over an existing 2-sample list:
   task 0 collides at index 0, task 1 writes indices 2 and 3; every task raises RuntimeError, and a
   later load returns the old samples 0, 1 followed by the new samples 2, 3. *)
Theorem C26_failed_save_mixture_refuted :
  let d : dir val := [(str "sl.0.pickle", Plain [1]); (str "sl.1.pickle", Plain [2])] in
  let r := save_plain val d (str "sl") [[[10]; [11]]; [[12]; [13]]] false in
  snd r = Raise RuntimeError /\
  load_plain val d (str "sl") 1 0 = Ret [[1]; [2]] /\
  load_plain val (fst r) (str "sl") 1 0 = Ret [[1]; [2]; [12]; [13]].
Proof. vm_compute. repeat split. Qed.

(* ---- non-vacuity ---- *)
(* a directory with stale sample files 4, 5 of an earlier longer list, a stale mean and a file of
   another base is well formed; saving 3 samples from 3 tasks (one empty) over it with
   overwrite=True and loading with 4 tasks gives the 3 samples and an empty fourth task *)
Definition ex_dir : dir val :=
  [(str "sl.3.pickle", Plain [3]); (str "sl.4.pickle", Plain [4]); (str "sl.5.pickle", Plain [5]);
   (str "sl.mean.pickle", MeanC [7]); (str "slx.0.pickle", Plain [9])].

Example C26_ex_roundtrip :
  load_plain_all val (fst (save_plain val ex_dir (str "sl") [[[10]; [11]]; []; [[12]]] true)) (str "sl") 4
  = [Ret [[10]]; Ret [[11]]; Ret [[12]]; Ret []].
Proof. vm_compute. reflexivity. Qed.

(* non-vacuity of the load_mean theorems: the stale mean [7] of ex_dir is replaced by the saved mean
   [8]; a plain overwrite save removes it *)
Example C26_ex_load_mean :
  load_mean val (fst (save_resid val ex_dir (str "sl") [8] [[([10], true)]; [([11], false)]] true)) (str "sl")
    = Ret (MeanC [8]) /\
  load_mean val ex_dir (str "sl") = Ret (MeanC [7]) /\
  load_mean val (fst (save_plain val ex_dir (str "sl") [[[10]]] true)) (str "sl")
    = if plain_save_unlinks_mean then Raise OtherError else Ret (MeanC [7]).
Proof. vm_compute. repeat split. Qed.

Example C26_ex_wf : wf val ex_dir (str "sl").
Proof.
  intros f Hf Hm. apply in_names_lookup in Hf. cbn in Hf.
  destruct Hf as [<-|[<-|[<-|[<-|[<-|[]]]]]]; try (vm_compute in Hm; discriminate).
  - exists 3. split; [discriminate|reflexivity].
  - exists 4. split; [discriminate|reflexivity].
  - exists 5. split; [discriminate|reflexivity].
Qed.

(* the listing pattern of the source is weaker than "base.<digits>.pickle": a foreign file such as
   `sl.12.pickle.bak` is accepted and makes the listing raise ValueError (the index lambda fails);
   such directories are outside [wf] *)
Example C26_ex_pattern_weak :
  rmatch (sample_pattern (str "sl")) (str "sl.12.pickle.bak") = true /\
  rmatch (sample_pattern (str "sl")) (str "slx12ypickle") = true /\
  file_index (str "sl.12.pickle.bak") = Raise ValueError.
Proof. vm_compute. repeat split. Qed.
