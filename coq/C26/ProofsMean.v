(* C26 -- ResidualSampleList.load_mean after a save: the mean written by the save is what load_mean
   returns; a SampleList save never leaves a mean file that it did not find (and removes a stale one
   when it overwrites, if the source contains the unlink statement). *)
From Coq Require Import List ZArith Bool Ascii Lia.
Import ListNotations.
Require Import NV.C26.Prelude NV.C26.Gen_helpers NV.C26.Model NV.C26.ProofsShare NV.C26.ProofsNames NV.C26.ProofsFS.
Open Scope Z_scope.

Section Mean.
Variable A : Type.

(* after a successful ResidualSampleList.save, load_mean returns exactly the saved mean --
   whatever the directory held before (stale mean of an earlier list included) *)
Lemma load_mean_after_resid (d : dir A) base m (parts : list (list (A * bool))) ov :
  can_save A d base (Z.of_nat (length (concat parts))) (Some (MeanC m)) ov ->
  snd (save_resid A d base m parts ov) = Ret tt /\
  load_mean A (fst (save_resid A d base m parts ov)) base = Ret (MeanC m).
Proof.
  intros Hc. unfold save_resid. set (R := fun rn : A * bool => Resid (fst rn) (snd rn)).
  assert (Ec : concat (map (map R) parts) = map R (concat parts)) by (symmetry; apply concat_map).
  assert (El : length (concat (map (map R) parts)) = length (concat parts)) by (rewrite Ec; apply map_length).
  destruct (save_list_ok A d base (map (map R) parts) (Some (MeanC m)) false ov) as [S1 S2]; [now rewrite El|].
  split; [assumption|].
  destruct S2 as (_ & _ & S2c & _). unfold load_mean, load_from_disk. now rewrite (S2c _ eq_refl).
Qed.

(* after a successful SampleList.save: with overwrite (and the unlink statement in the source) no
   mean file is left, so load_mean raises; otherwise load_mean returns what it returned before *)
Lemma load_mean_after_plain (d : dir A) base (parts : list (list A)) ov :
  can_save A d base (Z.of_nat (length (concat parts))) None ov ->
  snd (save_plain A d base parts ov) = Ret tt /\
  load_mean A (fst (save_plain A d base parts ov)) base =
    if plain_save_unlinks_mean && ov then Raise OtherError else load_mean A d base.
Proof.
  intros Hc. unfold save_plain.
  assert (Ec : concat (map (map Plain) parts) = map Plain (concat parts)) by (symmetry; apply concat_map).
  assert (El : length (concat (map (map Plain) parts)) = length (concat parts)) by (rewrite Ec; apply map_length).
  destruct (save_list_ok A d base (map (map Plain) parts) None plain_save_unlinks_mean ov) as [S1 S2]; [now rewrite El|].
  split; [assumption|].
  destruct S2 as (_ & _ & _ & S2d & _). unfold load_mean, load_from_disk. rewrite (S2d eq_refl).
  now destruct (plain_save_unlinks_mean && ov).
Qed.

(* consequently ResidualSampleList.load cannot combine the new plain samples with a stale mean *)
Lemma load_resid_after_plain_overwrite (d : dir A) base (parts : list (list A)) ntask rank :
  plain_save_unlinks_mean = true ->
  load_resid A (fst (save_plain A d base parts true)) base ntask rank = Raise OtherError.
Proof.
  intros Hu. destruct (load_mean_after_plain d base parts true (or_introl eq_refl)) as [_ L].
  rewrite Hu in L. cbn [andb] in L. unfold load_mean in L. unfold load_resid. now rewrite L.
Qed.

End Mean.
