(* C30 -- hand-written part of the model (no proofs).
   The prior transforms themselves are NOT written here: they are generated from /repo by
   tr/realexpr.py + tr/c30_spec.py into Gen_Prior.v on every run.  This file holds
   (1) the two SciPy functions that NIFTy's classic LaplaceOperator calls (SciPy is an oracle, not
       NIFTy code; the definitions below are compared numerically with scipy.stats.laplace in the
       correspondence step),
   (2) the documented target distributions (CDFs / quantile functions written out),
   (3) one segment of the linear interpolation used by the tabulated transforms. *)
From Coq Require Import Reals.
From Coquelicot Require Import Coquelicot.
Open Scope R_scope.

(* scipy.stats.laplace:  _ppf(q) = where(q > 0.5, -log(2*(1-q)), log(2*q));  ppf(q, loc, scale) =
   loc + scale*_ppf(q);  _cdf(x) = where(x > 0, 1 - 0.5*exp(-x), 0.5*exp(x));
   cdf(x, loc, scale) = _cdf((x-loc)/scale). *)
Definition laplace_ppf (p loc scale : R) : R :=
  loc + scale * (if Rlt_dec (1/2) p then - ln (2 * (1 - p)) else ln (2 * p)).
Definition laplace_cdf (y loc scale : R) : R :=
  if Rlt_dec 0 ((y - loc) / scale) then 1 - exp (- ((y - loc) / scale)) / 2
  else exp ((y - loc) / scale) / 2.

(* Documented targets.
   Laplace (re/num/stats_distributions.py laplace_prior): P(x|a) = exp(-|x|/a)/a/2. *)
Definition laplace_pdf (a x : R) : R := exp (- Rabs x / a) / a / 2.
(* Normal(mean, std) and log-normal: CDFs through the standard normal CDF [Phi]. *)
Definition normal_cdf (Phi : R -> R) (mean std y : R) : R := Phi ((y - mean) / std).
Definition lognormal_cdf (Phi : R -> R) (mu sigma y : R) : R := Phi ((ln y - mu) / sigma).
(* Mean and standard deviation of the log-normal with log-space parameters (mu, sigma). *)
Definition lognormal_mean (mu sigma : R) : R := exp (mu + sigma ^ 2 / 2).
Definition lognormal_std (mu sigma : R) : R := sqrt (exp (sigma ^ 2) - 1) * exp (mu + sigma ^ 2 / 2).
(* Uniform on [a, b]. *)
Definition uniform_quantile (a b p : R) : R := a + (b - a) * p.
Definition uniform_cdf (a b y : R) : R := (y - a) / (b - a).
(* Inverse gamma (alpha, q): mode q/(alpha+1), mean q/(alpha-1), variance q^2/((alpha-1)^2 (alpha-2)).
   Gamma (alpha, theta): mean alpha*theta, variance alpha*theta^2. *)
Definition invgamma_mode (alpha q : R) : R := q / (alpha + 1).
Definition invgamma_mean (alpha q : R) : R := q / (alpha - 1).

(* One segment of jnp.interp / the table lookup: value at x between nodes (x0,y0), (x1,y1). *)
Definition lerp (x0 y0 x1 y1 x : R) : R := y0 + (y1 - y0) * ((x - x0) / (x1 - x0)).

(* What is assumed about the standard normal CDF Phi, its density phi and its quantile function
   PhiInv (oracles: erfc-based jax.scipy / scipy implementations).  Every C30 theorem is stated
   for ALL triples of functions with these properties. *)
Record std_normal (Phi phi PhiInv : R -> R) : Prop := {
  sn_range : forall x, 0 < Phi x < 1;
  sn_incr : forall x y, x < y -> Phi x < Phi y;
  sn_sym : forall x, Phi (- x) = 1 - Phi x;
  sn_inv_l : forall x, PhiInv (Phi x) = x;
  sn_inv_r : forall p, 0 < p < 1 -> Phi (PhiInv p) = p;
  sn_deriv : forall x, is_derive Phi x (phi x)
}.
