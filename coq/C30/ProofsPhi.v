(* C30 -- lemmas that involve the standard normal CDF (uniform and Laplace transforms). *)
From Coq Require Import Reals Lra Lia.
From Coquelicot Require Import Coquelicot.
Require Import NV.Base.RealExpr NV.C30.Model NV.C30.Gen_Prior NV.C30.Proofs.
Open Scope R_scope.

(* ---------- the SciPy Laplace functions of Model.v --------------------------------------- *)
Lemma laplace_cdf_ppf p loc scale : 0 < scale -> 0 < p < 1 ->
  laplace_cdf (laplace_ppf p loc scale) loc scale = p.
Proof.
  intros Hs [H0 H1]. unfold laplace_cdf, laplace_ppf.
  destruct (Rlt_dec (1 / 2) p) as [Hp|Hp].
  - replace ((loc + scale * - ln (2 * (1 - p)) - loc) / scale) with (- ln (2 * (1 - p))) by (field; lra).
    assert (ln (2 * (1 - p)) < 0) by (apply ln_lt_0; lra).
    destruct (Rlt_dec 0 (- ln (2 * (1 - p)))); [|lra].
    rewrite Ropp_involutive, exp_ln; lra.
  - replace ((loc + scale * ln (2 * p) - loc) / scale) with (ln (2 * p)) by (field; lra).
    assert (ln (2 * p) <= 0).
    { destruct (Req_dec p (1/2)) as [->|]. replace (2 * (1/2)) with 1 by lra. rewrite ln_1; lra.
      left. apply ln_lt_0; lra. }
    destruct (Rlt_dec 0 (ln (2 * p))); [lra|].
    rewrite exp_ln; lra.
Qed.

Lemma laplace_ppf_mono p q loc scale : 0 < scale -> 0 < p -> p < q -> q < 1 ->
  laplace_ppf p loc scale < laplace_ppf q loc scale.
Proof.
  intros Hs H0 Hpq H1. unfold laplace_ppf.
  apply Rplus_lt_compat_l, Rmult_lt_compat_l; auto.
  destruct (Rlt_dec (1 / 2) p), (Rlt_dec (1 / 2) q); try lra.
  - apply Ropp_lt_contravar, ln_increasing; lra.
  - assert (ln (2 * (1 - q)) < 0) by (apply ln_lt_0; lra).
    assert (ln (2 * p) <= 0).
    { destruct (Req_dec p (1/2)) as [->|]. replace (2 * (1/2)) with 1 by lra. rewrite ln_1; lra.
      left. apply ln_lt_0; lra. }
    lra.
  - apply ln_increasing; lra.
Qed.

(* d/dy laplace_cdf(y; 0, a) = documented density exp(-|y|/a)/a/2, away from the kink. *)
Lemma laplace_cdf_density a y : 0 < a -> y <> 0 ->
  is_derive (fun t => laplace_cdf t 0 a) y (laplace_pdf a y).
Proof.
  intros Ha Hy. unfold laplace_pdf.
  destruct (Rlt_dec 0 y) as [Hp|Hn].
  - apply is_derive_ext_loc with (fun t => 1 - exp (- ((t - 0) / a)) / 2).
    + assert (Hpos : 0 < y) by lra.
      exists (mkposreal y Hpos). intros t Ht. unfold ball in Ht; simpl in Ht.
      unfold AbsRing_ball, abs, minus, plus, opp in Ht; simpl in Ht.
      apply Rabs_def2 in Ht. unfold laplace_cdf.
      assert (0 < (t - 0) / a) by (apply Rdiv_lt_0_compat; lra).
      destruct (Rlt_dec 0 ((t - 0) / a)); [reflexivity|lra].
    + rewrite Rabs_right by lra. auto_derive; [trivial|].
      replace (- y / a) with (- ((y + - 0) * / a)) by (field; lra). field; lra.
  - assert (Hneg : y < 0) by lra.
    apply is_derive_ext_loc with (fun t => exp ((t - 0) / a) / 2).
    + assert (Hpos : 0 < - y) by lra.
      exists (mkposreal (- y) Hpos). intros t Ht. unfold ball in Ht; simpl in Ht.
      unfold AbsRing_ball, abs, minus, plus, opp in Ht; simpl in Ht.
      apply Rabs_def2 in Ht. unfold laplace_cdf.
      assert ((t - 0) / a < 0).
      { unfold Rdiv. replace 0 with (0 * / a) by ring. apply Rmult_lt_compat_r. apply Rinv_0_lt_compat; lra. lra. }
      destruct (Rlt_dec 0 ((t - 0) / a)); [lra|reflexivity].
    + rewrite Rabs_left by lra. auto_derive; [trivial|].
      replace (- - y / a) with ((y + - 0) * / a) by (field; lra). field; lra.
Qed.

Section Phi.
Variables Phi phi PhiInv : R -> R.
Hypothesis SN : std_normal Phi phi PhiInv.

Let Phi_range := sn_range _ _ _ SN.
Let Phi_incr := sn_incr _ _ _ SN.
Let Phi_sym := sn_sym _ _ _ SN.
Let PhiInv_l := sn_inv_l _ _ _ SN.
Let PhiInv_r := sn_inv_r _ _ _ SN.
Let Phi_deriv := sn_deriv _ _ _ SN.

Lemma Phi_0 : Phi 0 = 1 / 2.
Proof. pose proof (Phi_sym 0) as H. rewrite Ropp_0 in H. lra. Qed.

Lemma Phi_neg x : x < 0 -> Phi x < 1 / 2.
Proof. intros. rewrite <- Phi_0. apply Phi_incr; auto. Qed.

Lemma Phi_pos x : 0 < x -> 1 / 2 < Phi x.
Proof. intros. rewrite <- Phi_0. apply Phi_incr; auto. Qed.

Lemma Derive_Phi x : Derive Phi x = phi x.
Proof. apply is_derive_unique, Phi_deriv. Qed.

Lemma ex_derive_Phi x : ex_derive Phi x.
Proof. exists (phi x). apply Phi_deriv. Qed.

(* ---------- uniform ---------------------------------------------------------------------- *)
Lemma re_uniform_quantile a b p : 0 < p < 1 ->
  re_uniform Phi a (re_uniform_scale a b) (PhiInv p) = uniform_quantile a b p.
Proof. intros. unfold re_uniform, re_uniform_scale, uniform_quantile. rewrite PhiInv_r; auto. Qed.

Lemma re_uniform_cdf a b x : a <> b ->
  uniform_cdf a b (re_uniform Phi a (re_uniform_scale a b) x) = Phi x.
Proof. intros. unfold re_uniform, re_uniform_scale, uniform_cdf. field. lra. Qed.

Lemma re_uniform_range a b x : a < b -> a < re_uniform Phi a (re_uniform_scale a b) x < b.
Proof. intros. unfold re_uniform, re_uniform_scale. pose proof (Phi_range x). nra. Qed.

Lemma re_uniform_mono a scale x y : 0 < scale -> x < y -> re_uniform Phi a scale x < re_uniform Phi a scale y.
Proof. intros. unfold re_uniform. pose proof (Phi_incr x y H0). nra. Qed.

Lemma cl_uniform_eq loc scale x : cl_uniform Phi loc scale x = re_uniform Phi loc scale x.
Proof. unfold cl_uniform, re_uniform. ring. Qed.

Lemma cl_uniform_inv_l loc scale x : scale <> 0 ->
  cl_uniform_inv PhiInv loc scale (cl_uniform Phi loc scale x) = x.
Proof.
  intros. unfold cl_uniform_inv, cl_uniform.
  replace ((scale * Phi x + loc - loc) / scale) with (Phi x) by (field; auto). apply PhiInv_l.
Qed.

Lemma cl_uniform_inv_r loc scale y : 0 < scale -> loc < y < loc + scale ->
  cl_uniform Phi loc scale (cl_uniform_inv PhiInv loc scale y) = y.
Proof.
  intros Hs [H0 H1]. unfold cl_uniform_inv, cl_uniform. rewrite PhiInv_r. field; lra.
  split. apply Rdiv_lt_0_compat; lra.
  apply Rmult_lt_reg_r with scale; auto. unfold Rdiv. rewrite Rmult_assoc, Rinv_l; lra.
Qed.

Lemma cl_uniform_jac_ok loc scale x :
  is_derive (fun t => cl_uniform Phi loc scale t) x (cl_uniform_jac phi loc scale x).
Proof.
  unfold cl_uniform, cl_uniform_jac. auto_derive.
  - apply ex_derive_Phi.
  - rewrite Derive_Phi. ring.
Qed.

(* ---------- Laplace, JAX ----------------------------------------------------------------- *)
Lemma re_laplace_is_ppf alpha x : re_laplace Phi alpha x = laplace_ppf (Phi x) 0 alpha.
Proof.
  unfold re_laplace, laplace_ppf. pose proof (Phi_range x) as [R0 R1].
  destruct (Rtotal_order x 0) as [Hx|[Hx|Hx]].
  - rewrite ind_lt_true, ind_gt_false by lra. pose proof (Phi_neg x Hx).
    destruct (Rlt_dec (1 / 2) (Phi x)); [lra|]. rewrite ln_mult by lra. ring.
  - subst x. rewrite ind_lt_false, ind_gt_false by lra. rewrite Phi_0.
    destruct (Rlt_dec (1 / 2) (1 / 2)); [lra|]. replace (2 * (1 / 2)) with 1 by lra. rewrite ln_1. ring.
  - rewrite ind_lt_false, ind_gt_true by lra. pose proof (Phi_pos x Hx).
    destruct (Rlt_dec (1 / 2) (Phi x)); [|lra]. rewrite Phi_sym, ln_mult by lra. ring.
Qed.

Lemma re_laplace_quantile alpha p : 0 < p < 1 ->
  re_laplace Phi alpha (PhiInv p) = laplace_ppf p 0 alpha.
Proof. intros. rewrite re_laplace_is_ppf, PhiInv_r; auto. Qed.

Lemma re_laplace_cdf alpha x : 0 < alpha -> laplace_cdf (re_laplace Phi alpha x) 0 alpha = Phi x.
Proof. intros. rewrite re_laplace_is_ppf. apply laplace_cdf_ppf; auto. Qed.

Lemma re_laplace_mono alpha x y : 0 < alpha -> x < y -> re_laplace Phi alpha x < re_laplace Phi alpha y.
Proof.
  intros. rewrite !re_laplace_is_ppf. apply laplace_ppf_mono; auto.
  apply Phi_range. apply Phi_range.
Qed.

(* ---------- Laplace, classic ------------------------------------------------------------- *)
Lemma cl_laplace_cdf loc scale x : 0 < scale ->
  laplace_cdf (cl_laplace Phi laplace_ppf loc scale x) loc scale = Phi x.
Proof. intros. unfold cl_laplace. apply laplace_cdf_ppf; auto. Qed.

Lemma cl_laplace_mono loc scale x y : 0 < scale -> x < y ->
  cl_laplace Phi laplace_ppf loc scale x < cl_laplace Phi laplace_ppf loc scale y.
Proof. intros. unfold cl_laplace. apply laplace_ppf_mono; auto. apply Phi_range. apply Phi_range. Qed.

Lemma cl_laplace_inv_l loc scale x : 0 < scale ->
  cl_laplace_inv PhiInv laplace_cdf loc scale (cl_laplace Phi laplace_ppf loc scale x) = x.
Proof. intros. unfold cl_laplace_inv. rewrite cl_laplace_cdf; auto. Qed.

Lemma cl_laplace_re alpha x :
  cl_laplace Phi laplace_ppf 0 alpha x = re_laplace Phi alpha x.
Proof. rewrite re_laplace_is_ppf. reflexivity. Qed.

Lemma cl_laplace_jac_ok loc scale x : x <> 0 ->
  is_derive (fun t => cl_laplace Phi laplace_ppf loc scale t) x (cl_laplace_jac Phi phi loc scale x).
Proof.
  intros Hx. unfold cl_laplace, cl_laplace_jac, laplace_ppf.
  pose proof (Phi_range x) as [R0 R1].
  destruct (Rlt_dec 0 x) as [Hp|Hn].
  - pose proof (Phi_pos x Hp). rewrite where_gt_true by lra.
    apply is_derive_ext_loc with (fun t => loc + scale * - ln (2 * (1 - Phi t))).
    + exists (mkposreal x Hp). intros t Ht. unfold ball in Ht; simpl in Ht.
      unfold AbsRing_ball, abs, minus, plus, opp in Ht; simpl in Ht. apply Rabs_def2 in Ht.
      assert (0 < t) by lra. pose proof (Phi_pos t H0).
      destruct (Rlt_dec (1 / 2) (Phi t)); [reflexivity|lra].
    + auto_derive.
      * split; [apply ex_derive_Phi|]. split; [lra|trivial].
      * rewrite Derive_Phi. field. lra.
  - assert (Hneg : x < 0) by lra. pose proof (Phi_neg x Hneg). rewrite where_gt_false by lra.
    apply is_derive_ext_loc with (fun t => loc + scale * ln (2 * Phi t)).
    + assert (Hpos : 0 < - x) by lra.
      exists (mkposreal (- x) Hpos). intros t Ht. unfold ball in Ht; simpl in Ht.
      unfold AbsRing_ball, abs, minus, plus, opp in Ht; simpl in Ht. apply Rabs_def2 in Ht.
      assert (t < 0) by lra. pose proof (Phi_neg t H0).
      destruct (Rlt_dec (1 / 2) (Phi t)); [lra|reflexivity].
    + auto_derive.
      * split; [apply ex_derive_Phi|]. split; [lra|trivial].
      * rewrite Derive_Phi. field. lra.
Qed.

End Phi.

(* ---------- the hypotheses are satisfiable (logistic distribution) ------------------------- *)
Definition lgs (x : R) : R := / (1 + exp (- x)).
Definition lgs_pdf (x : R) : R := exp (- x) / (1 + exp (- x)) ^ 2.
Definition lgs_inv (p : R) : R := ln (p / (1 - p)).

Lemma std_normal_logistic : exists Phi phi PhiInv, std_normal Phi phi PhiInv.
Proof.
  exists lgs, lgs_pdf, lgs_inv.
  assert (E : forall x, 0 < exp (- x)) by (intros; apply exp_pos).
  constructor; unfold lgs, lgs_pdf, lgs_inv.
  - intros x. specialize (E x). split. apply Rinv_0_lt_compat; lra.
    rewrite <- Rinv_1 at 2. apply Rinv_lt_contravar; lra.
  - intros x y Hxy. pose proof (E x). pose proof (E y).
    apply Rinv_lt_contravar. apply Rmult_lt_0_compat; lra.
    apply Rplus_lt_compat_l. apply exp_increasing. lra.
  - intros x. rewrite Ropp_involutive. pose proof (E x). rewrite (exp_Ropp x). 
    assert (0 < exp x) by apply exp_pos. field. split; lra.
  - intros x. pose proof (E x).
    replace (/ (1 + exp (- x)) / (1 - / (1 + exp (- x)))) with (/ exp (- x)) by (field; split; lra).
    rewrite ln_Rinv by lra. rewrite ln_exp. ring.
  - intros p [H0 H1].
    assert (0 < p / (1 - p)) by (apply Rdiv_lt_0_compat; lra).
    rewrite exp_Ropp, exp_ln by auto. field. split; lra.
  - intros x. pose proof (E x). auto_derive. lra. field. lra.
Qed.
