(* C30 -- lemmas about the GENERATED definitions of Gen_Prior.v and the targets of Model.v. *)
From Coq Require Import Reals Lra Lia.
From Coquelicot Require Import Coquelicot.
Require Import NV.Base.RealExpr NV.C30.Model NV.C30.Gen_Prior.
Open Scope R_scope.

(* ---------- elementary facts ------------------------------------------------------------- *)
Lemma ln_lt_0 x : 0 < x < 1 -> ln x < 0.
Proof. intros [H0 H1]. rewrite <- ln_1. apply ln_increasing; lra. Qed.

Lemma ln_ge_0 x : 1 <= x -> 0 <= ln x.
Proof.
  intros H. destruct (Req_dec x 1) as [->|Hn]. rewrite ln_1; lra.
  left. rewrite <- ln_1. apply ln_increasing; lra.
Qed.

Lemma sqrt_sq_ln1p t : (sqrt (ln (1 + t ^ 2))) ^ 2 = ln (1 + t ^ 2).
Proof.
  assert (H : 0 <= ln (1 + t ^ 2)).
  { apply ln_ge_0. assert (0 <= t ^ 2) by (apply pow2_ge_0). lra. }
  set (u := ln (1 + t ^ 2)) in *. replace (sqrt u ^ 2) with (sqrt u * sqrt u) by ring.
  apply sqrt_sqrt; auto.
Qed.

(* ---------- log-normal moment matching (both implementations) ---------------------------- *)
Lemma lognormal_moments_generic mean std mu sigma :
  0 < mean -> 0 < std ->
  sigma = sqrt (ln (1 + (std / mean) ^ 2)) -> mu = ln mean - sigma ^ 2 / 2 ->
  lognormal_mean mu sigma = mean /\ lognormal_std mu sigma = std.
Proof.
  intros Hm Hs -> ->. unfold lognormal_mean, lognormal_std.
  rewrite sqrt_sq_ln1p.
  replace (ln mean - ln (1 + (std / mean) ^ 2) / 2 + ln (1 + (std / mean) ^ 2) / 2) with (ln mean) by lra.
  rewrite !exp_ln; try lra.
  2:{ assert (0 <= (std / mean) ^ 2) by (apply pow2_ge_0). lra. }
  split; [reflexivity|].
  replace (1 + (std / mean) ^ 2 - 1) with ((std / mean) ^ 2) by lra.
  replace ((std / mean) ^ 2) with (Rsqr (std / mean)) by (unfold Rsqr; ring).
  rewrite sqrt_Rsqr. field; lra.
  apply Rlt_le, Rdiv_lt_0_compat; lra.
Qed.

Lemma re_lognormal_moments mean std : 0 < mean -> 0 < std ->
  lognormal_mean (re_lognormal_logmean mean std) (re_lognormal_logstd mean std) = mean /\
  lognormal_std (re_lognormal_logmean mean std) (re_lognormal_logstd mean std) = std.
Proof.
  intros. apply lognormal_moments_generic; auto.
  unfold re_lognormal_logmean, re_lognormal_logstd. lra.
Qed.

Lemma cl_lognormal_moments mean sigma : 0 < mean -> 0 < sigma ->
  lognormal_mean (cl_lognormal_logmean mean sigma) (cl_lognormal_logsigma mean sigma) = mean /\
  lognormal_std (cl_lognormal_logmean mean sigma) (cl_lognormal_logsigma mean sigma) = sigma.
Proof.
  intros. apply lognormal_moments_generic; auto.
Qed.

Lemma lognormal_moments_agree mean std :
  re_lognormal_logmean mean std = cl_lognormal_logmean mean std /\
  re_lognormal_logstd mean std = cl_lognormal_logsigma mean std.
Proof. unfold re_lognormal_logmean, cl_lognormal_logmean, re_lognormal_logstd, cl_lognormal_logsigma. split; lra. Qed.

Lemma lognormal_logstd_pos mean std : 0 < mean -> 0 < std -> 0 < re_lognormal_logstd mean std.
Proof.
  intros. unfold re_lognormal_logstd. apply sqrt_lt_R0.
  rewrite <- ln_1. apply ln_increasing; try lra.
  assert (0 < (std / mean) ^ 2). { apply pow_lt. apply Rdiv_lt_0_compat; lra. } lra.
Qed.

(* ---------- normal / log-normal -------------------------------------------------------- *)
Lemma re_normal_cdf Phi mean std x : std <> 0 ->
  normal_cdf Phi mean std (re_normal mean std x) = Phi x.
Proof. intros. unfold normal_cdf, re_normal. f_equal. field; auto. Qed.

Lemma re_normal_mono mean std x y : 0 < std -> x < y -> re_normal mean std x < re_normal mean std y.
Proof. intros. unfold re_normal. nra. Qed.

Lemma re_normal_inv_l mean std x : std <> 0 -> re_normal_inv mean std (re_normal mean std x) = x.
Proof. intros. unfold re_normal_inv, re_normal. field; auto. Qed.

Lemma re_normal_inv_r mean std y : std <> 0 -> re_normal mean std (re_normal_inv mean std y) = y.
Proof. intros. unfold re_normal_inv, re_normal. field; auto. Qed.

Lemma cl_normal_eq mean sigma x : cl_normal mean sigma x = re_normal mean sigma x.
Proof. reflexivity. Qed.

Lemma re_lognormal_cdf Phi mu sigma x : sigma <> 0 ->
  lognormal_cdf Phi mu sigma (re_lognormal mu sigma x) = Phi x.
Proof. intros. unfold lognormal_cdf, re_lognormal. rewrite ln_exp. f_equal. field; auto. Qed.

Lemma re_lognormal_pos mu sigma x : 0 < re_lognormal mu sigma x.
Proof. apply exp_pos. Qed.

Lemma re_lognormal_mono mu sigma x y : 0 < sigma -> x < y -> re_lognormal mu sigma x < re_lognormal mu sigma y.
Proof. intros. unfold re_lognormal. apply exp_increasing. nra. Qed.

Lemma re_lognormal_inv_l mu sigma x : sigma <> 0 -> re_lognormal_inv mu sigma (re_lognormal mu sigma x) = x.
Proof. intros. unfold re_lognormal_inv, re_lognormal. rewrite ln_exp. field; auto. Qed.

Lemma re_lognormal_inv_r mu sigma y : sigma <> 0 -> 0 < y -> re_lognormal mu sigma (re_lognormal_inv mu sigma y) = y.
Proof.
  intros. unfold re_lognormal_inv, re_lognormal.
  replace (mu + sigma * ((ln y - mu) / sigma)) with (ln y) by (field; auto). apply exp_ln; auto.
Qed.

Lemma cl_lognormal_eq mu sigma x : cl_lognormal mu sigma x = re_lognormal mu sigma x.
Proof. reflexivity. Qed.

(* ---------- inverse gamma / gamma parameter conversions ----------------------------------- *)
Lemma invgamma_params mean mode : 0 < mode -> mode < mean ->
  let a := cl_invgamma_alpha_of_mm mean mode in
  let q := cl_invgamma_q_of_mm mean mode in
  1 < a /\ 0 < q /\ cl_invgamma_mode_of_aq a q = mode /\ cl_invgamma_mean_of_aq a q = mean.
Proof.
  intros Hm Hlt. cbv zeta.
  unfold cl_invgamma_alpha_of_mm, cl_invgamma_q_of_mm, cl_invgamma_mode_of_aq, cl_invgamma_mean_of_aq.
  assert (Hd : 0 < mean / mode - 1).
  { assert (1 < mean / mode). { apply Rmult_lt_reg_r with mode; auto. unfold Rdiv. rewrite Rmult_assoc, Rinv_l; lra. } lra. }
  assert (Hd' : mean / mode - 1 = (mean - mode) / mode) by (field; lra).
  assert (H2 : 0 < 2 / (mean / mode - 1)) by (apply Rdiv_lt_0_compat; lra).
  repeat split.
  - lra.
  - apply Rmult_lt_0_compat; lra.
  - field. split; [|lra]. rewrite Hd' in *. intro E.
    assert (2 / ((mean - mode) / mode) + 1 + 1 > 0) by lra.
    replace (2 / ((mean - mode) / mode) + 1 + 1) with ((2 * mode + (mean - mode) + (mean - mode)) / (mean - mode)) in H by (field; lra).
    unfold Rdiv in H. rewrite E in H. lra.
  - field. split; [|lra]. lra.
Qed.

Lemma invgamma_model_is_doc alpha q :
  cl_invgamma_mode_of_aq alpha q = invgamma_mode alpha q /\ cl_invgamma_mean_of_aq alpha q = invgamma_mean alpha q.
Proof. split; reflexivity. Qed.

Lemma invgamma_var_mean alpha q : alpha <> 1 -> alpha <> 2 ->
  cl_invgamma_var alpha q = (cl_invgamma_mean_of_aq alpha q) ^ 2 / (alpha - 2).
Proof. intros. unfold cl_invgamma_var, cl_invgamma_mean_of_aq. field. split; lra. Qed.

Lemma gamma_params mean var : 0 < mean -> 0 < var ->
  let a := cl_gamma_alpha_of_mv mean var in
  let th := cl_gamma_theta_of_mv mean var in
  0 < a /\ 0 < th /\ cl_gamma_mean a th = mean /\ cl_gamma_var a th = var.
Proof.
  intros Hm Hv. cbv zeta. unfold cl_gamma_alpha_of_mv, cl_gamma_theta_of_mv, cl_gamma_mean, cl_gamma_var.
  assert (0 < var / mean) by (apply Rdiv_lt_0_compat; lra).
  split; [apply Rdiv_lt_0_compat; lra|]. split; [auto|]. split; field; lra.
Qed.

(* ---------- interpolation segment ------------------------------------------------------- *)
Lemma lerp_nodes x0 y0 x1 y1 : x0 <> x1 -> lerp x0 y0 x1 y1 x0 = y0 /\ lerp x0 y0 x1 y1 x1 = y1.
Proof. intros. unfold lerp. split; field; lra. Qed.

Lemma lerp_mono x0 y0 x1 y1 a b : x0 < x1 -> y0 < y1 -> a < b ->
  lerp x0 y0 x1 y1 a < lerp x0 y0 x1 y1 b.
Proof.
  intros. unfold lerp.
  assert ((a - x0) / (x1 - x0) < (b - x0) / (x1 - x0)).
  { unfold Rdiv. apply Rmult_lt_compat_r. apply Rinv_0_lt_compat; lra. lra. }
  nra.
Qed.

Lemma lerp_between x0 y0 x1 y1 x : x0 < x1 -> y0 <= y1 -> x0 <= x <= x1 -> y0 <= lerp x0 y0 x1 y1 x <= y1.
Proof.
  intros. unfold lerp.
  assert (0 <= (x - x0) / (x1 - x0) <= 1).
  { split. apply Rmult_le_pos. lra. left. apply Rinv_0_lt_compat; lra.
    apply Rmult_le_reg_r with (x1 - x0). lra. unfold Rdiv. rewrite Rmult_assoc, Rinv_l; lra. }
  nra.
Qed.
