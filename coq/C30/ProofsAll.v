(* C30 -- the property statements assembled from the lemmas of Proofs.v / ProofsPhi.v
   (Props.v restates each and closes it by [exact]). *)
From Coq Require Import Reals Lra.
From Coquelicot Require Import Coquelicot.
Require Import NV.Base.RealExpr NV.C30.Model NV.C30.Gen_Prior NV.C30.Proofs NV.C30.ProofsPhi.
Open Scope R_scope.

Lemma L_C30_normal :
  forall (Phi : R -> R) mean std, 0 < std ->
    (forall x, normal_cdf Phi mean std (re_normal mean std x) = Phi x) /\
    (forall x y, x < y -> re_normal mean std x < re_normal mean std y) /\
    (forall x, re_normal_inv mean std (re_normal mean std x) = x) /\
    (forall y, re_normal mean std (re_normal_inv mean std y) = y) /\
    (forall x, cl_normal mean std x = re_normal mean std x).
Proof.
  intros Phi mean std Hs. repeat split; intros.
  - apply re_normal_cdf; lra.
  - apply re_normal_mono; auto.
  - apply re_normal_inv_l; lra.
  - apply re_normal_inv_r; lra.
Qed.

Lemma L_C30_lognormal :
  forall (Phi : R -> R) mu sigma, 0 < sigma ->
    (forall x, 0 < re_lognormal mu sigma x) /\
    (forall x, lognormal_cdf Phi mu sigma (re_lognormal mu sigma x) = Phi x) /\
    (forall x y, x < y -> re_lognormal mu sigma x < re_lognormal mu sigma y) /\
    (forall x, re_lognormal_inv mu sigma (re_lognormal mu sigma x) = x) /\
    (forall y, 0 < y -> re_lognormal mu sigma (re_lognormal_inv mu sigma y) = y) /\
    (forall x, cl_lognormal mu sigma x = re_lognormal mu sigma x).
Proof.
  intros Phi mu sigma Hs. repeat split; intros.
  - apply re_lognormal_pos.
  - apply re_lognormal_cdf; lra.
  - apply re_lognormal_mono; auto.
  - apply re_lognormal_inv_l; lra.
  - apply re_lognormal_inv_r; auto; lra.
Qed.

Lemma L_C30_lognormal_moments_re :
  forall mean std, 0 < mean -> 0 < std ->
    0 < re_lognormal_logstd mean std /\
    lognormal_mean (re_lognormal_logmean mean std) (re_lognormal_logstd mean std) = mean /\
    lognormal_std (re_lognormal_logmean mean std) (re_lognormal_logstd mean std) = std.
Proof. intros. split. apply lognormal_logstd_pos; auto. apply re_lognormal_moments; auto. Qed.

Lemma L_C30_lognormal_moments_cl :
  forall mean sigma, 0 < mean -> 0 < sigma ->
    lognormal_mean (cl_lognormal_logmean mean sigma) (cl_lognormal_logsigma mean sigma) = mean /\
    lognormal_std (cl_lognormal_logmean mean sigma) (cl_lognormal_logsigma mean sigma) = sigma.
Proof. exact cl_lognormal_moments. Qed.

Lemma L_C30_uniform :
  forall Phi phi PhiInv, std_normal Phi phi PhiInv -> forall a b, a < b ->
    (forall p, 0 < p < 1 -> re_uniform Phi a (re_uniform_scale a b) (PhiInv p) = uniform_quantile a b p) /\
    (forall x, a < re_uniform Phi a (re_uniform_scale a b) x < b) /\
    (forall x y, x < y -> re_uniform Phi a (re_uniform_scale a b) x < re_uniform Phi a (re_uniform_scale a b) y).
Proof.
  intros Phi phi PhiInv SN a b Hab. repeat split; intros.
  - eapply re_uniform_quantile; eauto.
  - eapply re_uniform_range; eauto.
  - eapply re_uniform_range; eauto.
  - eapply re_uniform_mono; eauto. unfold re_uniform_scale; lra.
Qed.

Lemma L_C30_uniform_classic :
  forall Phi phi PhiInv, std_normal Phi phi PhiInv -> forall loc scale, 0 < scale ->
    (forall x, cl_uniform Phi loc scale x = re_uniform Phi loc scale x) /\
    (forall x, cl_uniform_inv PhiInv loc scale (cl_uniform Phi loc scale x) = x) /\
    (forall y, loc < y < loc + scale -> cl_uniform Phi loc scale (cl_uniform_inv PhiInv loc scale y) = y) /\
    (forall x, is_derive (fun t => cl_uniform Phi loc scale t) x (cl_uniform_jac phi loc scale x)).
Proof.
  intros Phi phi PhiInv SN loc scale Hs.
  split; [|split; [|split]]; intros.
  - apply cl_uniform_eq.
  - eapply cl_uniform_inv_l; eauto; lra.
  - eapply cl_uniform_inv_r; eauto.
  - eapply cl_uniform_jac_ok; eauto.
Qed.

Lemma L_C30_laplace :
  forall Phi phi PhiInv, std_normal Phi phi PhiInv -> forall alpha, 0 < alpha ->
    (forall p, 0 < p < 1 -> re_laplace Phi alpha (PhiInv p) = laplace_ppf p 0 alpha) /\
    (forall x, laplace_cdf (re_laplace Phi alpha x) 0 alpha = Phi x) /\
    (forall x y, x < y -> re_laplace Phi alpha x < re_laplace Phi alpha y).
Proof.
  intros Phi phi PhiInv SN alpha Ha. repeat split; intros.
  - eapply re_laplace_quantile; eauto.
  - eapply re_laplace_cdf; eauto.
  - eapply re_laplace_mono; eauto.
Qed.

Lemma L_C30_laplace_classic_partial :
  forall Phi phi PhiInv, std_normal Phi phi PhiInv -> forall loc scale, 0 < scale ->
    (forall x, laplace_cdf (cl_laplace Phi laplace_ppf loc scale x) loc scale = Phi x) /\
    (forall x y, x < y -> cl_laplace Phi laplace_ppf loc scale x < cl_laplace Phi laplace_ppf loc scale y) /\
    (forall x, cl_laplace_inv PhiInv laplace_cdf loc scale (cl_laplace Phi laplace_ppf loc scale x) = x) /\
    (forall x, cl_laplace Phi laplace_ppf 0 scale x = re_laplace Phi scale x) /\
    (forall x, x <> 0 -> is_derive (fun t => cl_laplace Phi laplace_ppf loc scale t) x (cl_laplace_jac Phi phi loc scale x)).
Proof.
  intros Phi phi PhiInv SN loc scale Hs.
  split; [|split; [|split; [|split]]]; intros.
  - eapply cl_laplace_cdf; eauto.
  - eapply cl_laplace_mono; eauto.
  - eapply cl_laplace_inv_l; eauto.
  - eapply cl_laplace_re; eauto.
  - eapply cl_laplace_jac_ok; eauto.
Qed.

Lemma L_C30_laplace_target :
  forall a, 0 < a ->
    (forall y, y <> 0 -> is_derive (fun t => laplace_cdf t 0 a) y (laplace_pdf a y)) /\
    (forall p loc, 0 < p < 1 -> laplace_cdf (laplace_ppf p loc a) loc a = p).
Proof.
  intros a Ha. split; intros.
  - apply laplace_cdf_density; auto.
  - apply laplace_cdf_ppf; auto.
Qed.

Lemma L_C30_invgamma_params :
  forall mean mode, 0 < mode -> mode < mean ->
    let a := cl_invgamma_alpha_of_mm mean mode in
    let q := cl_invgamma_q_of_mm mean mode in
    1 < a /\ 0 < q /\ cl_invgamma_mode_of_aq a q = mode /\ cl_invgamma_mean_of_aq a q = mean.
Proof. exact invgamma_params. Qed.

Lemma L_C30_invgamma_doc :
  forall alpha q,
    cl_invgamma_mode_of_aq alpha q = invgamma_mode alpha q /\
    cl_invgamma_mean_of_aq alpha q = invgamma_mean alpha q /\
    (alpha <> 1 -> alpha <> 2 -> cl_invgamma_var alpha q = (invgamma_mean alpha q) ^ 2 / (alpha - 2)).
Proof.
  intros. split; [reflexivity|]. split; [reflexivity|]. apply invgamma_var_mean.
Qed.

Lemma L_C30_gamma_params :
  forall mean var, 0 < mean -> 0 < var ->
    let a := cl_gamma_alpha_of_mv mean var in
    let th := cl_gamma_theta_of_mv mean var in
    0 < a /\ 0 < th /\ cl_gamma_mean a th = mean /\ cl_gamma_var a th = var.
Proof. exact gamma_params. Qed.

Lemma L_C30_interp_partial :
  forall x0 y0 x1 y1, x0 < x1 -> y0 < y1 ->
    lerp x0 y0 x1 y1 x0 = y0 /\ lerp x0 y0 x1 y1 x1 = y1 /\
    (forall a b, a < b -> lerp x0 y0 x1 y1 a < lerp x0 y0 x1 y1 b) /\
    (forall x, x0 <= x <= x1 -> y0 <= lerp x0 y0 x1 y1 x <= y1).
Proof.
  intros. split; [apply lerp_nodes; lra|]. split; [apply lerp_nodes; lra|]. split; intros.
  - apply lerp_mono; auto.
  - apply lerp_between; auto; lra.
Qed.

Lemma L_C30_std_normal_satisfiable : exists Phi phi PhiInv, std_normal Phi phi PhiInv.
Proof. exact std_normal_logistic. Qed.
